(* Proofs about Model/Provider.v (C12). *)
From ST Require Import Base.Ints Model.Provider.
From Coq Require Import Sorted.
Open Scope Z_scope.

(* ---------- validity ---------- *)
Lemma valid_spec : forall k t, is_valid_at k t = true <-> k_nb k <= t <= k_na k.
Proof.
  intros k t. unfold is_valid_at.
  destruct (t <? k_nb k) eqn:E1; destruct (k_na k <? t) eqn:E2; simpl;
    try apply Z.ltb_lt in E1; try apply Z.ltb_lt in E2;
    try apply Z.ltb_ge in E1; try apply Z.ltb_ge in E2; split; intros; try discriminate; try lia; reflexivity.
Qed.

Lemma valid_false : forall k t, is_valid_at k t = false <-> (t < k_nb k \/ k_na k < t).
Proof.
  intros k t. destruct (is_valid_at k t) eqn:E.
  - apply valid_spec in E. split; intros; [discriminate | lia].
  - split; intros; [|reflexivity].
    destruct (Z_lt_dec t (k_nb k)); [left; assumption|].
    destruct (Z_lt_dec (k_na k) t); [right; assumption|].
    assert (H1 : is_valid_at k t = true) by (apply valid_spec; lia). congruence.
Qed.

Lemma key_eqb_eq : forall a b, key_eqb a b = true <-> a = b.
Proof.
  intros [i1 v1 b1 a1] [i2 v2 b2 a2]. unfold key_eqb. simpl. split.
  - intros H. repeat (apply andb_true_iff in H; destruct H as [H ?]).
    apply Z.eqb_eq in H, H0, H1, H2. subst. reflexivity.
  - intros H. inversion H. subst. rewrite !Z.eqb_refl. reflexivity.
Qed.

(* ---------- the association list ---------- *)
Definition ids (m : kmap) : list Z := map fst m.

Lemma lookup_In : forall m i k, lookup i m = Some k -> In (i, k) m.
Proof.
  induction m as [|[j x] r IH]; simpl; intros i k H; [discriminate|].
  destruct (j =? i) eqn:E.
  - apply Z.eqb_eq in E. inversion H. subst. left. reflexivity.
  - right. apply IH. assumption.
Qed.

Lemma In_lookup : forall m i k, NoDup (ids m) -> In (i, k) m -> lookup i m = Some k.
Proof.
  induction m as [|[j x] r IH]; simpl; intros i k Hnd Hin; [contradiction|].
  inversion Hnd as [|? ? Hni Hnd']; subst.
  destruct Hin as [Heq | Hin].
  - inversion Heq. subst. rewrite Z.eqb_refl. reflexivity.
  - destruct (j =? i) eqn:E.
    + apply Z.eqb_eq in E. subst. exfalso. apply Hni.
      change i with (fst (i, k)). apply in_map. assumption.
    + apply IH; assumption.
Qed.

Lemma lookup_None : forall m i, ~ In i (ids m) -> lookup i m = None.
Proof.
  induction m as [|[j x] r IH]; simpl; intros i H; [reflexivity|].
  destruct (j =? i) eqn:E.
  - apply Z.eqb_eq in E. subst. exfalso. apply H. left. reflexivity.
  - apply IH. intros Hin. apply H. right. assumption.
Qed.

Lemma In_remove : forall m i j k, In (j, k) (remove i m) <-> In (j, k) m /\ j <> i.
Proof.
  induction m as [|[a x] r IH]; simpl; intros i j k.
  - tauto.
  - destruct (a =? i) eqn:E.
    + apply Z.eqb_eq in E. subst. rewrite IH. split.
      * intros [H1 H2]. split; [right; assumption | assumption].
      * intros [[H1 | H1] H2]; [inversion H1; subst; contradiction | split; assumption].
    + apply Z.eqb_neq in E. simpl. rewrite IH. split.
      * intros [H1 | [H1 H2]]; [inversion H1; subst; split; [left; reflexivity | assumption] | split; [right; assumption | assumption]].
      * intros [[H1 | H1] H2]; [left; assumption | right; split; assumption].
Qed.

Lemma ids_remove_sub : forall m i j, In j (ids (remove i m)) -> In j (ids m) /\ j <> i.
Proof.
  unfold ids. intros m i j H. apply in_map_iff in H. destruct H as [[a x] [H1 H2]]. simpl in H1. subst.
  apply In_remove in H2. destruct H2 as [H2 H3]. split; [|assumption].
  change j with (fst (j, x)). apply in_map. assumption.
Qed.

Lemma NoDup_remove : forall m i, NoDup (ids m) -> NoDup (ids (remove i m)).
Proof.
  induction m as [|[a x] r IH]; simpl; intros i H; [constructor|].
  inversion H as [|? ? Hni Hnd]; subst.
  destruct (a =? i); [apply IH; assumption|].
  simpl. constructor; [|apply IH; assumption].
  intros Hin. apply ids_remove_sub in Hin. apply Hni. apply Hin.
Qed.

Lemma NoDup_set : forall m i k, NoDup (ids m) -> NoDup (ids (set i k m)).
Proof.
  intros m i k H. unfold set. simpl. constructor; [|apply NoDup_remove; assumption].
  intros Hin. apply ids_remove_sub in Hin. destruct Hin as [_ Hne]. apply Hne. reflexivity.
Qed.

Lemma In_purge : forall m t i k, In (i, k) (purge t m) <-> In (i, k) m /\ is_valid_at k t = true.
Proof. intros m t i k. unfold purge. rewrite filter_In. simpl. tauto. Qed.

Lemma NoDup_purge : forall m t, NoDup (ids m) -> NoDup (ids (purge t m)).
Proof.
  induction m as [|[a x] r IH]; simpl; intros t H; [constructor|].
  inversion H as [|? ? Hni Hnd]; subst.
  destruct (is_valid_at x t); [|apply IH; assumption].
  simpl. constructor; [|apply IH; assumption].
  intros Hin. apply Hni. unfold ids in *. apply in_map_iff in Hin. destruct Hin as [[b y] [H1 H2]].
  simpl in H1. subst. apply In_purge in H2. destruct H2 as [H2 _].
  change a with (fst (a, y)). apply in_map. assumption.
Qed.

Lemma lookup_set_same : forall m i k, lookup i (set i k m) = Some k.
Proof. intros. unfold set. simpl. rewrite Z.eqb_refl. reflexivity. Qed.

Lemma lookup_set_purge : forall m t i k j x, NoDup (ids m) ->
  (lookup j (set i k (purge t m)) = Some x <->
   (j = i /\ x = k) \/ (j <> i /\ lookup j m = Some x /\ is_valid_at x t = true)).
Proof.
  intros m t i k j x Hnd. unfold set. simpl.
  destruct (i =? j) eqn:E.
  - apply Z.eqb_eq in E. subst. split.
    + intros H. inversion H. left. split; reflexivity.
    + intros [[_ H] | [H _]]; [subst; reflexivity | contradiction].
  - apply Z.eqb_neq in E. split.
    + intros H. right. apply lookup_In in H. apply In_remove in H. destruct H as [H1 H2].
      apply In_purge in H1. destruct H1 as [H1 H3]. split; [assumption|]. split; [|assumption].
      apply In_lookup; assumption.
    + intros [[H _] | [H1 [H2 H3]]]; [subst; contradiction|].
      apply In_lookup; [apply NoDup_remove; apply NoDup_purge; assumption|].
      apply In_remove. split; [|assumption]. apply In_purge. split; [|assumption].
      apply lookup_In. assumption.
Qed.

(* ---------- the log of generated keys ---------- *)
Definition key_wf (k : key) : Prop := k_na k = k_nb k + key_validity.

(* newest first: ids go down by one, generation times by more than the renewal interval *)
Fixpoint log_ok (l : list key) : Prop :=
  match l with
  | [] => True
  | k :: r =>
      key_wf k /\ k_val k = k_id k /\
      match r with
      | [] => k_id k = 1
      | k' :: _ => k_id k = k_id k' + 1 /\ k_nb k' + key_renewal < k_nb k
      end /\ log_ok r
  end.

Lemma renewal_pos : 0 < key_renewal. Proof. reflexivity. Qed.
Lemma validity_val : key_validity = 3 * key_renewal. Proof. reflexivity. Qed.
Lemma two_days_val : two_days = 2 * key_renewal. Proof. reflexivity. Qed.

Lemma log_tail : forall k r, log_ok (k :: r) -> log_ok r.
Proof. intros k r H. simpl in H. tauto. Qed.

Lemma log_lt : forall r k x, log_ok (k :: r) -> In x r ->
  k_id x < k_id k /\ k_nb x + key_renewal < k_nb k.
Proof.
  induction r as [|k' r IH]; intros k x Hl Hin; [contradiction|].
  pose proof renewal_pos as Hp.
  destruct Hl as [_ [_ [[Hid Hnb] Hl']]].
  destruct Hin as [Heq | Hin].
  - subst. lia.
  - destruct (IH k' x Hl' Hin) as [H1 H2]. lia.
Qed.

Lemma log_wf : forall l x, log_ok l -> In x l -> key_wf x /\ k_val x = k_id x /\ 1 <= k_id x.
Proof.
  induction l as [|k r IH]; intros x Hl Hin; [contradiction|].
  destruct Hin as [Heq | Hin].
  - subst. destruct Hl as [H1 [H2 [H3 H4]]]. split; [assumption|]. split; [assumption|].
    destruct r as [|k' r']; [lia|]. destruct H3 as [H3 _].
    destruct (IH k' H4 (or_introl eq_refl)) as [_ [_ H5]]. lia.
  - apply IH; [apply (log_tail _ _ Hl) | assumption].
Qed.

Lemma log_unique : forall l x y, log_ok l -> In x l -> In y l -> k_id x = k_id y -> x = y.
Proof.
  induction l as [|k r IH]; intros x y Hl Hx Hy Hid; [contradiction|].
  destruct Hx as [Hx | Hx]; destruct Hy as [Hy | Hy].
  - congruence.
  - subst. destruct (log_lt _ _ _ Hl Hy). lia.
  - subst. destruct (log_lt _ _ _ Hl Hx). lia.
  - apply IH; try assumption. apply (log_tail _ _ Hl).
Qed.

Lemma log_order : forall l x y, log_ok l -> In x l -> In y l -> k_nb x < k_nb y -> k_id x < k_id y.
Proof.
  induction l as [|k r IH]; intros x y Hl Hx Hy Hnb; [contradiction|].
  pose proof renewal_pos as Hp.
  destruct Hx as [Hx | Hx]; destruct Hy as [Hy | Hy].
  - subst. lia.
  - subst. destruct (log_lt _ _ _ Hl Hy). lia.
  - subst. destruct (log_lt _ _ _ Hl Hx). lia.
  - apply IH; try assumption. apply (log_tail _ _ Hl).
Qed.

(* ---------- the invariant ---------- *)
Definition head_key (s : state) : key :=
  {| k_id := cur s; k_val := nrand s; k_nb := gen_at s; k_na := gen_at s + key_validity |}.

(* t0: when NewProvider ran; T: the latest clock reading so far *)
Record Inv (t0 T : Z) (s : state) : Prop := {
  inv_nodup : NoDup (ids (keys s));
  inv_gen_le : gen_at s <= T;
  inv_t0 : t0 <= gen_at s;
  inv_rate : (cur s - 1) * (key_renewal + 1) <= gen_at s - t0;
  inv_head : exists r, glog s = head_key s :: r;
  inv_log : log_ok (glog s);
  inv_curkey : lookup (cur s) (keys s) = Some (head_key s);
  inv_map : forall id k, lookup id (keys s) = Some k -> k_id k = id /\ In k (glog s);
  inv_live : forall k, In k (glog s) -> T <= k_na k -> lookup (k_id k) (keys s) = Some k
}.

Lemma inv_weaken : forall t0 T T' s, Inv t0 T s -> T <= T' -> Inv t0 T' s.
Proof.
  intros t0 T T' s [] Hle. constructor; try assumption; try lia.
  intros k Hin Hna. apply inv_live0; [assumption | lia].
Qed.

Lemma inv_head_in : forall t0 T s, Inv t0 T s -> In (head_key s) (glog s).
Proof. intros t0 T s H. destruct (inv_head _ _ _ H) as [r Hr]. rewrite Hr. left. reflexivity. Qed.

Lemma inv_key_facts : forall t0 T s k, Inv t0 T s -> In k (glog s) ->
  key_wf k /\ 1 <= k_id k <= cur s /\ k_nb k <= gen_at s /\ k_val k = k_id k.
Proof.
  intros t0 T s k H Hin. pose proof (inv_log _ _ _ H) as Hl.
  destruct (log_wf _ _ Hl Hin) as [H1 [H2 H3]].
  destruct (inv_head _ _ _ H) as [r Hr]. rewrite Hr in Hin, Hl.
  destruct Hin as [Heq | Hin].
  - subst k. simpl in *. repeat split; try assumption; lia.
  - destruct (log_lt _ _ _ Hl Hin) as [H4 H5]. simpl in H4, H5. pose proof renewal_pos.
    repeat split; try assumption; lia.
Qed.

Lemma new_inv : forall t0 s, new_provider t0 = Some s -> Inv t0 t0 s.
Proof.
  intros t0 s H. unfold new_provider, generate_next in H.
  change (cur empty_state =? max_int) with false in H. cbv iota in H. inversion H. subst s. clear H.
  constructor; cbn [keys cur gen_at nrand glog empty_state set remove purge filter ids map fst lookup head_key]; rewrite ?Z.add_0_l.
  - constructor; [intros []|constructor].
  - lia.
  - lia.
  - lia.
  - eexists. reflexivity.
  - unfold key_wf. simpl. repeat split; reflexivity.
  - rewrite Z.eqb_refl. reflexivity.
  - intros id k H. destruct (1 =? id) eqn:E; [|discriminate]. apply Z.eqb_eq in E. inversion H. subst.
    simpl. split; [reflexivity | left; reflexivity].
  - intros k [Hk | []] _. subst k. cbn [k_id]. rewrite Z.eqb_refl. reflexivity.
Qed.

Lemma gen_step : forall t0 T s t s', Inv t0 T s -> T <= t -> gen_at s + key_renewal < t ->
  generate_next s t = Some s' ->
  Inv t0 t s' /\ cur s' = cur s + 1 /\ gen_at s' = t /\ glog s' = head_key s' :: glog s.
Proof.
  intros t0 T s t s' H Ht Hren Hg. unfold generate_next in Hg.
  destruct (cur s =? max_int) eqn:Emax; [discriminate|]. inversion Hg. subst s'. clear Hg.
  pose proof renewal_pos as Hp.
  assert (Hhk : In (head_key s) (glog s)) by (apply (inv_head_in _ _ _ H)).
  destruct (inv_key_facts _ _ _ _ H Hhk) as [_ [Hc1 _]]. simpl in Hc1.
  pose proof (inv_log _ _ _ H) as Hl.
  destruct (log_wf _ _ Hl Hhk) as [_ [Hval _]]. simpl in Hval.
  split; [|simpl; unfold head_key; simpl; repeat split; reflexivity].
  constructor; cbn [keys cur gen_at nrand glog head_key].
  - apply NoDup_set. apply NoDup_purge. apply (inv_nodup _ _ _ H).
  - lia.
  - pose proof (inv_t0 _ _ _ H). lia.
  - pose proof (inv_rate _ _ _ H). nia.
  - eexists. unfold head_key. simpl. reflexivity.
  - destruct (inv_head _ _ _ H) as [r Hr]. rewrite Hr in *.
    split; [unfold key_wf; reflexivity|]. split; [simpl; lia|]. split; [|assumption].
    simpl. split; [reflexivity | assumption].
  - unfold head_key. simpl. apply lookup_set_same.
  - intros id k Hlk. apply lookup_set_purge in Hlk; [|apply (inv_nodup _ _ _ H)].
    destruct Hlk as [[H1 H2] | [H1 [H2 H3]]].
    + subst. simpl. split; [reflexivity | left; reflexivity].
    + destruct (inv_map _ _ _ H _ _ H2) as [H4 H5]. split; [assumption | right; assumption].
  - intros k [Hk | Hk] Hna.
    + subst k. simpl. apply lookup_set_same.
    + destruct (inv_key_facts _ _ _ _ H Hk) as [Hwf [Hid [Hnb _]]].
      apply lookup_set_purge; [apply (inv_nodup _ _ _ H)|]. right.
      split; [lia|]. split.
      * apply (inv_live _ _ _ H); [assumption | lia].
      * apply valid_spec. pose proof (inv_gen_le _ _ _ H). lia.
Qed.

(* ---------- Current and Get on a state that satisfies the invariant ---------- *)
Lemma lookup0_cur : forall t0 T s, Inv t0 T s -> lookup0 (cur s) (keys s) = head_key s.
Proof. intros t0 T s H. unfold lookup0. rewrite (inv_curkey _ _ _ H). reflexivity. Qed.

Lemma need_renew_spec : forall t0 T s t1, Inv t0 T s -> T <= t1 ->
  (need_renew s t1 = true <-> gen_at s + key_renewal < t1).
Proof.
  intros t0 T s t1 H Ht. unfold need_renew. rewrite (lookup0_cur _ _ _ H).
  pose proof (inv_gen_le _ _ _ H) as Hg. pose proof validity_val as Hv. pose proof renewal_pos as Hp.
  rewrite orb_true_iff, negb_true_iff, valid_false, Z.ltb_lt. simpl. lia.
Qed.

Definition cur_time (s : state) (t1 t2 : Z) : Z := if need_renew s t1 then t2 else t1.

Lemma current_step : forall t0 T s t1 t2 k s', Inv t0 T s -> T <= t1 -> t1 <= t2 ->
  current s t1 t2 = Some (k, s') ->
  let t := cur_time s t1 t2 in
  Inv t0 t s' /\ k = head_key s' /\ k_nb k <= t <= k_na k /\ t - k_nb k <= key_renewal /\
  cur s <= cur s' /\ incl (glog s) (glog s') /\ T <= t <= t2.
Proof.
  intros t0 T s t1 t2 k s' H Ht1 Ht2 Hc. unfold cur_time. unfold current in Hc.
  pose proof validity_val as Hv. pose proof renewal_pos as Hp.
  destruct (need_renew s t1) eqn:En.
  - apply (need_renew_spec _ _ _ _ H Ht1) in En.
    destruct (generate_next s t2) as [s1|] eqn:Eg; [|discriminate]. inversion Hc. subst s1 k. clear Hc.
    destruct (gen_step t0 T s t2 s' H) as [Hi [Hcur [Hgen Hlog]]]; [lia | lia | assumption |].
    split; [assumption|]. rewrite (lookup0_cur _ _ _ Hi).
    split; [reflexivity|]. simpl. rewrite Hgen.
    split; [lia|]. split; [lia|]. split; [lia|]. split; [|lia].
    rewrite Hlog. intros x Hx. right. assumption.
  - inversion Hc. subst s' k. clear Hc.
    assert (Hn : ~ (gen_at s + key_renewal < t1)).
    { intros Hlt. apply (need_renew_spec _ _ _ _ H Ht1) in Hlt. congruence. }
    pose proof (inv_gen_le _ _ _ H) as Hg.
    split; [apply (inv_weaken _ _ _ _ H Ht1)|]. rewrite (lookup0_cur _ _ _ H).
    split; [reflexivity|]. simpl.
    split; [lia|]. split; [lia|]. split; [lia|]. split; [|lia].
    intros x Hx. assumption.
Qed.

Lemma get_spec : forall t0 T s id t k, Inv t0 T s -> get s id t = Some k ->
  k_id k = id /\ In k (glog s) /\ k_nb k <= t <= k_na k /\ key_wf k.
Proof.
  intros t0 T s id t k H Hg. unfold get in Hg.
  destruct (lookup id (keys s)) as [k'|] eqn:El; [|discriminate].
  destruct (is_valid_at k' t) eqn:Ev; [|discriminate]. inversion Hg. subst k'.
  destruct (inv_map _ _ _ H _ _ El) as [H1 H2].
  split; [assumption|]. split; [assumption|]. split; [apply valid_spec; assumption|].
  apply (inv_key_facts _ _ _ _ H H2).
Qed.

Lemma get_live : forall t0 T s t k, Inv t0 T s -> T <= t -> In k (glog s) ->
  k_nb k <= t <= k_na k -> get s (k_id k) t = Some k.
Proof.
  intros t0 T s t k H Ht Hin Hv. unfold get.
  rewrite (inv_live _ _ _ H k Hin); [|lia].
  assert (Hva : is_valid_at k t = true) by (apply valid_spec; assumption). rewrite Hva. reflexivity.
Qed.

Lemma get_dead : forall t0 T s t k, Inv t0 T s -> In k (glog s) -> k_na k < t -> get s (k_id k) t = None.
Proof.
  intros t0 T s t k H Hin Hlt. destruct (get s (k_id k) t) as [k'|] eqn:Eg; [|reflexivity].
  destruct (get_spec _ _ _ _ _ _ H Eg) as [H1 [H2 [H3 _]]].
  assert (k' = k) by (apply (log_unique _ _ _ (inv_log _ _ _ H) H2 Hin H1)). subst. lia.
Qed.

(* ---------- one call ---------- *)
Definition obs_good (log : list key) (b : obs) : Prop :=
  match b with
  | BCur _ t k => In k log /\ k_nb k <= t <= k_na k /\ t - k_nb k <= key_renewal /\ key_wf k
  | BGet _ t id (Some k) => k_id k = id /\ In k log /\ k_nb k <= t <= k_na k /\ key_wf k
  | BGet _ _ _ None => True
  end.

Lemma obs_good_incl : forall l l' b, incl l l' -> obs_good l b -> obs_good l' b.
Proof.
  intros l l' b Hi H. destruct b as [g t k | g t id [k|]]; simpl in *; try exact I.
  - destruct H as [H1 H2]. split; [apply Hi; assumption | assumption].
  - destruct H as [H0 [H1 H2]]. split; [assumption|]. split; [apply Hi; assumption | assumption].
Qed.

Definition cur_id_ok (s' : state) (b : obs) : Prop :=
  match b with BCur _ _ k => k_id k = cur s' | _ => True end.

Lemma step_inv : forall t0 T s o s' b, Inv t0 T s -> T <= op_first o -> op_first o <= op_last o ->
  step s o = Some (s', b) ->
  Inv t0 (op_last o) s' /\ obs_good (glog s') b /\ cur_id_ok s' b /\
  T <= obs_time b <= op_last o /\ cur s <= cur s' /\ incl (glog s) (glog s').
Proof.
  intros t0 T s o s' b H H1 H2 Hs. destruct o as [g t1 t2 | g id t]; simpl in *.
  - destruct (current s t1 t2) as [[k s1]|] eqn:Ec; [|discriminate]. inversion Hs. subst s1 b. clear Hs.
    destruct (current_step _ _ _ _ _ _ _ H H1 H2 Ec) as [Hi [Hk [Hv [Ha [Hc [Hl Ht]]]]]].
    unfold cur_time in *. simpl.
    split; [apply (inv_weaken _ _ _ _ Hi); lia|].
    split.
    + split; [subst k; apply (inv_head_in _ _ _ Hi)|].
      split; [assumption|]. split; [assumption|]. subst k. unfold key_wf. reflexivity.
    + split; [subst k; reflexivity|]. split; [lia|]. split; assumption.
  - inversion Hs. subst s' b. clear Hs. simpl.
    split; [apply (inv_weaken _ _ _ _ H H1)|].
    split.
    + destruct (get s id t) as [k|] eqn:Eg; [|exact I].
      destruct (get_spec _ _ _ _ _ _ H Eg) as [Ha [Hb [Hc Hd]]]. repeat split; try assumption; lia.
    + split; [exact I|]. split; [lia|]. split; [lia | intros x Hx; assumption].
Qed.

Fixpoint last_time (t : Z) (ops : list op) : Z :=
  match ops with
  | [] => t
  | o :: r => last_time (op_last o) r
  end.

Lemma mono_last : forall ops t, mono t ops -> t <= last_time t ops.
Proof.
  induction ops as [|o r IH]; simpl; intros t H; [lia|].
  destruct H as [H1 [H2 H3]]. specialize (IH _ H3). lia.
Qed.

Lemma monob_spec : forall ops t, monob t ops = true <-> mono t ops.
Proof.
  induction ops as [|o r IH]; simpl; intros t; [tauto|].
  rewrite !andb_true_iff, !Z.leb_le, IH. tauto.
Qed.

Lemma run_inv : forall ops t0 T s s' bs, Inv t0 T s -> mono T ops -> run s ops = Some (s', bs) ->
  Inv t0 (last_time T ops) s' /\ Forall (obs_good (glog s')) bs /\ cur s <= cur s' /\ incl (glog s) (glog s').
Proof.
  induction ops as [|o r IH]; simpl; intros t0 T s s' bs H Hm Hr.
  - inversion Hr. subst. split; [assumption|]. split; [constructor|]. split; [lia | intros x Hx; assumption].
  - destruct Hm as [H1 [H2 H3]].
    destruct (step s o) as [[s1 b]|] eqn:Es; [|discriminate].
    destruct (run s1 r) as [[s2 bs']|] eqn:Er; [|discriminate]. inversion Hr. subst s2 bs. clear Hr.
    destruct (step_inv _ _ _ _ _ _ H H1 H2 Es) as [Hi [Hg [_ [Ht [Hc Hl]]]]].
    destruct (IH _ _ _ _ _ Hi H3 Er) as [Hi' [Hf [Hc' Hl']]].
    split; [assumption|]. split.
    + constructor; [|assumption]. apply (obs_good_incl _ _ _ Hl' Hg).
    + split; [lia|]. intros x Hx. apply Hl'. apply Hl. assumption.
Qed.

(* ---------- the oracle accepts every history of the model ---------- *)
Lemma compat_log : forall l x y, log_ok l -> In x l -> In y l -> keys_compat x y = true.
Proof.
  intros l x y Hl Hx Hy. unfold keys_compat. rewrite !andb_true_iff. repeat split.
  - destruct (k_id x =? k_id y) eqn:E; [|reflexivity]. apply Z.eqb_eq in E.
    apply key_eqb_eq. apply (log_unique _ _ _ Hl Hx Hy E).
  - destruct (k_nb x <? k_nb y) eqn:E; [|reflexivity]. apply Z.ltb_lt in E.
    apply Z.ltb_lt. apply (log_order _ _ _ Hl Hx Hy E).
  - destruct (k_nb y <? k_nb x) eqn:E; [|reflexivity]. apply Z.ltb_lt in E.
    apply Z.ltb_lt. apply (log_order _ _ _ Hl Hy Hx E).
Qed.

Definition carry (b : obs) (T : Z) (s : state) : Prop :=
  obs_time b <= T /\ obs_good (glog s) b /\ match b with BCur _ _ k => k_id k <= cur s | _ => True end.

Lemma obs_good_key : forall l b k, obs_good l b -> obs_key b = Some k -> In k l.
Proof.
  intros l b k H Hk. destruct b as [g t k' | g t id [k'|]]; simpl in *; try discriminate; inversion Hk; subst; tauto.
Qed.

Lemma pair_step : forall t0 T s b o s1 b1, Inv t0 T s -> carry b T s ->
  T <= op_first o -> op_first o <= op_last o -> step s o = Some (s1, b1) -> pair_ok b b1 = true.
Proof.
  intros t0 T s b o s1 b1 H [Hc1 [Hc2 Hc3]] H1 H2 Hs.
  destruct (step_inv _ _ _ _ _ _ H H1 H2 Hs) as [Hi [Hg [Hid [Ht [Hcur Hl]]]]].
  pose proof validity_val as Hv. pose proof two_days_val as H2d. pose proof renewal_pos as Hp.
  unfold pair_ok. rewrite !andb_true_iff. repeat split.
  - destruct (obs_key b) as [x|] eqn:Ex; [|reflexivity].
    destruct (obs_key b1) as [y|] eqn:Ey; [|reflexivity].
    apply (compat_log (glog s1)); [apply (inv_log _ _ _ Hi) | | apply (obs_good_key _ _ _ Hg Ey)].
    apply Hl. apply (obs_good_key _ _ _ Hc2 Ex).
  - destruct b as [g t k | g t id r]; [|reflexivity].
    destruct b1 as [g' t' k' | g' t' id' r']; [reflexivity|]. simpl.
    destruct ((id' =? k_id k) && ((t <? t') || (g' =? g))) eqn:Econd; [|reflexivity].
    apply andb_true_iff in Econd. destruct Econd as [Eid _]. apply Z.eqb_eq in Eid. subst id'.
    destruct o as [g2 t1 t2 | g2 id2 t2]; simpl in Hs.
    { destruct (current s t1 t2) as [[k2 s2]|]; [inversion Hs | discriminate]. }
    inversion Hs. subst s1 g2 t2 id2 r'. clear Hs. clear Hv H2d Hp. simpl in *.
    pose proof validity_val as Hv. pose proof two_days_val as H2d. pose proof renewal_pos as Hp.
    destruct Hc2 as [Hin [Hnb [Hage Hwf]]]. unfold key_wf in Hwf.
    rewrite andb_true_iff. split.
    + destruct (t' <=? t + two_days) eqn:E; [|reflexivity]. apply Z.leb_le in E.
      rewrite (get_live _ _ _ t' k H); [apply key_eqb_eq; reflexivity | lia | assumption | lia].
    + destruct (k_nb k + key_validity <? t') eqn:E; [|reflexivity]. apply Z.ltb_lt in E.
      rewrite (get_dead _ _ _ t' k H); [reflexivity | assumption | lia].
  - destruct b as [g t k | g t id r]; [|reflexivity].
    destruct b1 as [g' t' k' | g' t' id' r']; [|reflexivity].
    simpl in Hid. apply Z.leb_le. lia.
Qed.

Lemma later_ok : forall ops t0 T s b s' bs, Inv t0 T s -> carry b T s -> mono T ops ->
  run s ops = Some (s', bs) -> forallb (pair_ok b) bs = true.
Proof.
  induction ops as [|o r IH]; simpl; intros t0 T s b s' bs H Hc Hm Hr.
  - inversion Hr. reflexivity.
  - destruct Hm as [H1 [H2 H3]].
    destruct (step s o) as [[s1 b1]|] eqn:Es; [|discriminate].
    destruct (run s1 r) as [[s2 bs']|] eqn:Er; [|discriminate]. inversion Hr. subst s2 bs. clear Hr.
    simpl. rewrite (pair_step _ _ _ _ _ _ _ H Hc H1 H2 Es). simpl.
    destruct (step_inv _ _ _ _ _ _ H H1 H2 Es) as [Hi [_ [_ [Ht [Hcur Hl]]]]].
    apply (IH t0 (op_last o) s1 b s' bs' Hi); [|assumption|assumption].
    destruct Hc as [Hc1 [Hc2 Hc3]]. split; [lia|]. split; [apply (obs_good_incl _ _ _ Hl Hc2)|].
    destruct b as [g t k | g t id rr]; [lia | exact I].
Qed.

Lemma obs_good_ok : forall l b, obs_good l b -> obs_ok b = true.
Proof.
  intros l b H. destruct b as [g t k | g t id [k|]]; simpl in *; [| |reflexivity].
  - destruct H as [_ [H1 [H2 H3]]]. unfold key_wf in H3.
    rewrite !andb_true_iff, !Z.leb_le, Z.eqb_eq. lia.
  - destruct H as [H0 [_ [H1 H3]]]. unfold key_wf in H3.
    rewrite !andb_true_iff, !Z.leb_le, !Z.eqb_eq. lia.
Qed.

Lemma run_ok : forall ops t0 T s s' bs, Inv t0 T s -> mono T ops -> run s ops = Some (s', bs) ->
  C12_ok bs = true.
Proof.
  induction ops as [|o r IH]; simpl; intros t0 T s s' bs H Hm Hr.
  - inversion Hr. reflexivity.
  - destruct Hm as [H1 [H2 H3]].
    destruct (step s o) as [[s1 b1]|] eqn:Es; [|discriminate].
    destruct (run s1 r) as [[s2 bs']|] eqn:Er; [|discriminate]. inversion Hr. subst s2 bs. clear Hr.
    destruct (step_inv _ _ _ _ _ _ H H1 H2 Es) as [Hi [Hg [Hid [Ht [Hcur Hl]]]]].
    simpl. rewrite (obs_good_ok _ _ Hg). simpl.
    assert (Hlater : forallb (pair_ok b1) bs' = true).
    { apply (later_ok r t0 (op_last o) s1 b1 s' bs' Hi); [|assumption|assumption].
      split; [lia|]. split; [assumption|]. destruct b1 as [g t k | g t id rr]; [simpl in Hid; lia | exact I]. }
    rewrite Hlater. simpl. apply (IH _ _ _ _ _ Hi H3 Er).
Qed.

(* ---------- whole histories: NewProvider at t0, then any calls at non-decreasing clock readings ---------- *)
Lemma history_inv : forall t0 ops s bs, mono t0 ops -> history t0 ops = Some (s, bs) ->
  Inv t0 (last_time t0 ops) s /\ Forall (obs_good (glog s)) bs.
Proof.
  intros t0 ops s bs Hm Hh. unfold history in Hh.
  destruct (new_provider t0) as [s0|] eqn:En; [|discriminate].
  destruct (run_inv _ _ _ _ _ _ (new_inv _ _ En) Hm Hh) as [H1 [H2 _]]. split; assumption.
Qed.

Lemma current_valid_fresh : forall t0 ops s bs g t k, mono t0 ops -> history t0 ops = Some (s, bs) ->
  In (BCur g t k) bs ->
  k_nb k <= t <= k_na k /\ t - k_nb k <= key_renewal /\ k_na k = k_nb k + key_validity.
Proof.
  intros t0 ops s bs g t k Hm Hh Hin. destruct (history_inv _ _ _ _ Hm Hh) as [_ Hf].
  rewrite Forall_forall in Hf. specialize (Hf _ Hin). simpl in Hf. unfold key_wf in Hf. tauto.
Qed.

Lemma get_only_valid : forall t0 ops s bs g t id k, mono t0 ops -> history t0 ops = Some (s, bs) ->
  In (BGet g t id (Some k)) bs ->
  k_id k = id /\ k_nb k <= t <= k_na k /\ k_na k = k_nb k + key_validity /\ t <= k_nb k + key_validity /\ In k (glog s).
Proof.
  intros t0 ops s bs g t id k Hm Hh Hin. destruct (history_inv _ _ _ _ Hm Hh) as [_ Hf].
  rewrite Forall_forall in Hf. specialize (Hf _ Hin). simpl in Hf. unfold key_wf in Hf.
  destruct Hf as [H1 [H2 [H3 H4]]]. repeat split; try assumption; lia.
Qed.

Definition newer (a b : key) : Prop := k_id b < k_id a /\ k_nb b + key_renewal < k_nb a.

Lemma log_sorted : forall l, log_ok l -> StronglySorted newer l.
Proof.
  induction l as [|k r IH]; intros H; constructor.
  - apply IH. apply (log_tail _ _ H).
  - apply Forall_forall. intros x Hx. apply (log_lt _ _ _ H Hx).
Qed.

Lemma ids_unique : forall t0 ops s bs, mono t0 ops -> history t0 ops = Some (s, bs) ->
  StronglySorted newer (glog s) /\
  (forall b k, In b bs -> obs_key b = Some k -> In k (glog s)) /\
  (forall x y, In x (glog s) -> In y (glog s) -> k_id x = k_id y -> x = y) /\
  (forall x y, In x (glog s) -> In y (glog s) -> k_nb x < k_nb y -> k_id x < k_id y).
Proof.
  intros t0 ops s bs Hm Hh. destruct (history_inv _ _ _ _ Hm Hh) as [Hi Hf].
  pose proof (inv_log _ _ _ Hi) as Hl.
  split; [apply log_sorted; assumption|]. split.
  - intros b k Hin Hk. rewrite Forall_forall in Hf. apply (obs_good_key _ _ _ (Hf _ Hin) Hk).
  - split; intros x y Hx Hy; [apply (log_unique _ _ _ Hl Hx Hy) | apply (log_order _ _ _ Hl Hx Hy)].
Qed.

Lemma model_meets_oracle : forall t0 ops s bs, mono t0 ops -> history t0 ops = Some (s, bs) -> C12_ok bs = true.
Proof.
  intros t0 ops s bs Hm Hh. unfold history in Hh.
  destruct (new_provider t0) as [s0|] eqn:En; [|discriminate].
  apply (run_ok _ _ _ _ _ _ (new_inv _ _ En) Hm Hh).
Qed.

Lemma cookie_lifetime : forall t0 ops1 s1 bs1 t1 t2 k s2 ops2 s3 bs2 t',
  mono t0 ops1 -> history t0 ops1 = Some (s1, bs1) ->
  last_time t0 ops1 <= t1 -> t1 <= t2 -> current s1 t1 t2 = Some (k, s2) ->
  mono t2 ops2 -> run s2 ops2 = Some (s3, bs2) -> last_time t2 ops2 <= t' ->
  let t := cur_time s1 t1 t2 in
  (t' <= t + two_days -> get s3 (k_id k) t' = Some k) /\
  (k_nb k + key_validity < t' -> get s3 (k_id k) t' = None).
Proof.
  intros t0 ops1 s1 bs1 t1 t2 k s2 ops2 s3 bs2 t' Hm1 Hh Ht1 Ht2 Hc Hm2 Hr Ht' t.
  destruct (history_inv _ _ _ _ Hm1 Hh) as [Hi1 _].
  destruct (current_step _ _ _ _ _ _ _ Hi1 Ht1 Ht2 Hc) as [Hi2 [Hk [Hv [Ha [_ [_ Htt]]]]]].
  fold t in Hi2, Hv, Ha, Htt.
  assert (Hi2' : Inv t0 t2 s2) by (apply (inv_weaken _ _ _ _ Hi2); lia).
  destruct (run_inv _ _ _ _ _ _ Hi2' Hm2 Hr) as [Hi3 [_ [_ Hl]]].
  assert (Hin : In k (glog s3)) by (apply Hl; subst k; apply (inv_head_in _ _ _ Hi2)).
  assert (Hwf : k_na k = k_nb k + key_validity) by (subst k; reflexivity).
  pose proof (mono_last _ _ Hm2) as Hml.
  pose proof validity_val as Hvv. pose proof two_days_val as H2d.
  split; intros Hle.
  - apply (get_live _ _ _ _ _ Hi3 Ht' Hin). lia.
  - apply (get_dead _ _ _ _ _ Hi3 Hin). lia.
Qed.

Lemma rotation_rate : forall t0 ops s bs, mono t0 ops -> history t0 ops = Some (s, bs) ->
  1 <= cur s /\ (cur s - 1) * (key_renewal + 1) <= last_time t0 ops - t0.
Proof.
  intros t0 ops s bs Hm Hh. destruct (history_inv _ _ _ _ Hm Hh) as [Hi _].
  pose proof (inv_rate _ _ _ Hi). pose proof (inv_gen_le _ _ _ Hi).
  destruct (inv_key_facts _ _ _ _ Hi (inv_head_in _ _ _ Hi)) as [_ [Hc _]]. simpl in Hc. lia.
Qed.

(* no call ever panics ("ID overflow") in a history shorter than 2^63 - 2 renewal intervals *)
Lemma step_no_panic : forall t0 T s o, Inv t0 T s -> T - t0 < (max_int - 1) * key_renewal ->
  step s o <> None.
Proof.
  intros t0 T s o H Hb. destruct o as [g t1 t2 | g id t]; simpl; [|discriminate].
  unfold current. destruct (need_renew s t1); [|discriminate].
  unfold generate_next. destruct (cur s =? max_int) eqn:E; [|discriminate].
  apply Z.eqb_eq in E. exfalso.
  pose proof (inv_rate _ _ _ H) as Hr. pose proof (inv_gen_le _ _ _ H) as Hg. rewrite E in Hr.
  unfold max_int, max_i64, key_renewal, hour in *. lia.
Qed.

Lemma run_no_panic : forall ops t0 T s, Inv t0 T s -> mono T ops ->
  last_time T ops - t0 < (max_int - 1) * key_renewal -> run s ops <> None.
Proof.
  induction ops as [|o r IH]; intros t0 T s H Hm Hb; [discriminate|].
  destruct Hm as [H1 [H2 H3]].
  change (last_time T (o :: r)) with (last_time (op_last o) r) in Hb.
  pose proof (mono_last _ _ H3) as Hml.
  cbn [run].
  destruct (step s o) as [[s1 b]|] eqn:Es.
  - destruct (step_inv _ _ _ _ _ _ H H1 H2 Es) as [Hi _].
    specialize (IH _ _ _ Hi H3 Hb). destruct (run s1 r) as [[s2 bs]|]; [discriminate | contradiction].
  - exfalso. apply (step_no_panic _ _ _ o H); [lia | assumption].
Qed.

Lemma no_panic : forall t0 ops, mono t0 ops ->
  last_time t0 ops - t0 < (max_int - 1) * key_renewal -> history t0 ops <> None.
Proof.
  intros t0 ops Hm Hb. unfold history.
  destruct (new_provider t0) as [s0|] eqn:En.
  - apply (run_no_panic _ _ _ _ (new_inv _ _ En) Hm Hb).
  - unfold new_provider, generate_next in En. change (cur empty_state =? max_int) with false in En. discriminate.
Qed.

(* ---------- calls of several goroutines at one instant ---------- *)
Definition at_instant (t : Z) (o : op) : Prop := op_first o = t /\ op_last o = t.

Lemma current_idem : forall s t k s1, current s t t = Some (k, s1) -> current s1 t t = Some (k, s1).
Proof.
  intros s t k s1 H. unfold current in *.
  destruct (need_renew s t) eqn:En.
  - destruct (generate_next s t) as [s2|] eqn:Eg; [|discriminate]. inversion H. subst s2 k. clear H.
    unfold generate_next in Eg. destruct (cur s =? max_int); [discriminate|]. inversion Eg. subst s1. clear Eg.
    assert (Hn : need_renew
      {| keys := set (cur s + 1) {| k_id := cur s + 1; k_val := nrand s + 1; k_nb := t; k_na := t + key_validity |} (purge t (keys s));
         cur := cur s + 1; gen_at := t; nrand := nrand s + 1;
         glog := {| k_id := cur s + 1; k_val := nrand s + 1; k_nb := t; k_na := t + key_validity |} :: glog s |} t = false).
    { unfold need_renew. cbn [keys cur gen_at]. unfold lookup0. rewrite lookup_set_same.
      apply orb_false_iff. split.
      - apply negb_false_iff. apply valid_spec. simpl. pose proof validity_val. pose proof renewal_pos. lia.
      - apply Z.ltb_ge. pose proof renewal_pos. lia. }
    rewrite Hn. reflexivity.
  - inversion H. subst s1 k. rewrite En. reflexivity.
Qed.

(* once one Current has run at instant t, further calls at t leave the state alone *)
Lemma opt_key_eqb_refl : forall a, opt_key_eqb a a = true.
Proof. intros [k|]; simpl; [apply key_eqb_eq|]; reflexivity. Qed.

(* once one Current has run at instant t, further calls at t leave the state alone *)
Lemma group_after : forall ops s0 s1 t kc s' bs, current s1 t t = Some (kc, s1) ->
  Forall (at_instant t) ops -> run s1 ops = Some (s', bs) ->
  s' = s1 /\ forall inb, group_walk s0 s1 kc inb ops bs = true.
Proof.
  induction ops as [|o r IH]; simpl; intros s0 s1 t kc s' bs Hc Hf Hr.
  - inversion Hr. split; reflexivity.
  - inversion Hf as [|? ? Ha Hf']; subst. destruct Ha as [Ha1 Ha2].
    destruct (step s1 o) as [[s2 b]|] eqn:Es; [|discriminate].
    destruct (run s2 r) as [[s3 bs']|] eqn:Er; [|discriminate]. inversion Hr. subst s3 bs. clear Hr.
    destruct o as [g t1 t2 | g id t1]; simpl in Ha1, Ha2, Es; [subst t1 t2 | subst t1; clear Ha2].
    + rewrite Hc in Es. inversion Es. subst s2 b. clear Es.
      destruct (IH s0 s1 t kc s' bs' Hc Hf' Er) as [H1 H2]. split; [assumption|]. intros inb.
      simpl. rewrite H2. rewrite !Z.eqb_refl. simpl.
      assert (Ht : (if need_renew s1 t then t else t) = t) by (destruct (need_renew s1 t); reflexivity).
      rewrite Ht, Z.eqb_refl. simpl. rewrite andb_true_r. apply key_eqb_eq. reflexivity.
    + inversion Es. subst s2 b. clear Es.
      destruct (IH s0 s1 t kc s' bs' Hc Hf' Er) as [H1 H2]. split; [assumption|]. intros inb.
      simpl. rewrite !Z.eqb_refl. simpl. rewrite !H2, opt_key_eqb_refl. simpl.
      destruct (existsb (Z.eqb g) inb); [reflexivity|].
      destruct (opt_key_eqb (get s1 id t) (get s0 id t)); reflexivity.
Qed.

Lemma group_before : forall ops s t s' bs, Forall (at_instant t) ops -> run s ops = Some (s', bs) ->
  (group_has_cur ops = false -> s' = s /\ forall sB kc, group_walk s sB kc [] ops bs = true) /\
  (group_has_cur ops = true -> exists kc s1, current s t t = Some (kc, s1) /\ s' = s1 /\ group_walk s s1 kc [] ops bs = true).
Proof.
  induction ops as [|o r IH]; intros s t s' bs Hf Hr.
  - simpl in Hr. inversion Hr. split; [intros _; split; reflexivity | intros H; discriminate].
  - inversion Hf as [|? ? Ha Hf']; subst. destruct Ha as [Ha1 Ha2]. simpl in Hr.
    destruct (step s o) as [[s2 b]|] eqn:Es; [|discriminate].
    destruct (run s2 r) as [[s3 bs']|] eqn:Er; [|discriminate]. inversion Hr. subst s3 bs. clear Hr.
    destruct o as [g t1 t2 | g id t1]; simpl in Ha1, Ha2, Es; [subst t1 t2 | subst t1; clear Ha2].
    + split; [intros H; discriminate | intros _].
      destruct (current s t t) as [[kc s1]|] eqn:Ec; [|discriminate].
      inversion Es. subst s2 b. clear Es. exists kc, s1. split; [reflexivity|].
      destruct (group_after r s s1 t kc s' bs' (current_idem _ _ _ _ Ec) Hf' Er) as [H1 H2].
      split; [assumption|]. simpl. rewrite H2. rewrite !Z.eqb_refl.
      assert (Ht : (if need_renew s t then t else t) = t) by (destruct (need_renew s t); reflexivity).
      rewrite Ht, Z.eqb_refl. simpl. rewrite andb_true_r. apply key_eqb_eq. reflexivity.
    + inversion Es. subst s2 b. clear Es.
      destruct (IH s t s' bs' Hf' Er) as [IH1 IH2].
      change (group_has_cur (OGet g id t :: r)) with (group_has_cur r).
      split.
      * intros Hn. destruct (IH1 Hn) as [H1 H2]. split; [assumption|]. intros sB kc.
        simpl. rewrite !Z.eqb_refl, opt_key_eqb_refl. simpl. apply H2.
      * intros Hy. destruct (IH2 Hy) as [kc [s1 [H1 [H2 H3]]]]. exists kc, s1.
        split; [assumption|]. split; [assumption|].
        simpl. rewrite !Z.eqb_refl, opt_key_eqb_refl. simpl. assumption.
Qed.

(* whatever order the lock chose for the calls of one instant (each goroutine's own
   calls in program order), the group check accepts the observations and computes the
   same state *)
Lemma group_sound : forall ops s t s' bs, Forall (at_instant t) ops ->
  run s ops = Some (s', bs) -> group_step s t ops bs = Some s'.
Proof.
  intros ops s t s' bs Hf Hr. unfold group_step.
  destruct (group_before ops s t s' bs Hf Hr) as [H1 H2].
  destruct (group_has_cur ops).
  - destruct (H2 eq_refl) as [kc [s1 [Ha [Hb Hc]]]]. rewrite Ha, Hc. subst. reflexivity.
  - destruct (H1 eq_refl) as [Ha Hb]. rewrite Hb. subst. reflexivity.
Qed.

(* ---------- the lock: every interleaving is a sequential history in lock order ---------- *)
Lemma mono_app : forall l T o, mono T (l ++ [o]) <->
  mono T l /\ last_time T l <= op_first o /\ op_first o <= op_last o.
Proof.
  induction l as [|x r IH]; simpl; intros T o.
  - tauto.
  - rewrite IH. tauto.
Qed.

Lemma last_app : forall l T o, last_time T (l ++ [o]) = op_last o.
Proof. induction l as [|x r IH]; simpl; intros T o; [reflexivity | apply IH]. Qed.

Lemma run_app : forall l s s1 bs o s2 b, run s l = Some (s1, bs) -> step s1 o = Some (s2, b) ->
  run s (l ++ [o]) = Some (s2, bs ++ [b]).
Proof.
  induction l as [|x r IH]; simpl; intros s s1 bs o s2 b Hr Hs.
  - inversion Hr. subst. rewrite Hs. reflexivity.
  - destruct (step s x) as [[s' b']|]; [|discriminate].
    destruct (run s' r) as [[s'' bs']|] eqn:Er; [|discriminate]. inversion Hr. subst s'' bs. clear Hr.
    rewrite (IH _ _ _ _ _ _ Er Hs). reflexivity.
Qed.

Fixpoint pcl (g : Z) (l : list (Z * pc)) : pc :=
  match l with [] => PIdle | (i, p) :: r => if i =? g then p else pcl g r end.

Lemma pc_of_pcl : forall g w, pc_of g w = pcl g (w_pcs w).
Proof. intros g w. unfold pc_of. induction (w_pcs w) as [|[i p] r IH]; simpl; [reflexivity|]. rewrite IH. reflexivity. Qed.

Lemma pcl_set_same : forall g p l, pcl g ((g, p) :: filter (fun e => negb (fst e =? g)) l) = p.
Proof. intros. simpl. rewrite Z.eqb_refl. reflexivity. Qed.

Lemma pcl_set_other : forall g g' p l, g' <> g ->
  pcl g' ((g, p) :: filter (fun e => negb (fst e =? g)) l) = pcl g' l.
Proof.
  intros g g' p l Hne. simpl. destruct (g =? g') eqn:E; [apply Z.eqb_eq in E; congruence|]. clear E.
  induction l as [|[i q] r IH]; simpl; [reflexivity|].
  destruct (i =? g) eqn:E1; simpl.
  - apply Z.eqb_eq in E1. subst i. destruct (g =? g') eqn:E2; [apply Z.eqb_eq in E2; congruence | assumption].
  - destruct (i =? g'); [reflexivity | assumption].
Qed.

Definition holds (p : pc) : bool :=
  match p with PHeld _ _ | PRead1 _ _ _ | PDone => true | _ => false end.

Record LInv (T0 : Z) (s0 : state) (w : world) : Prop := {
  li_mono : mono T0 (rev (w_trace w));
  li_last : last_time T0 (rev (w_trace w)) <= w_clock w;
  li_run : w_panicked w = false -> exists bs, run s0 (rev (w_trace w)) = Some (w_state w, bs);
  li_lock : forall g, holds (pc_of g w) = true -> w_locked w = Some g;
  li_read : forall g c id t1, pc_of g w = PRead1 c id t1 ->
            last_time T0 (rev (w_trace w)) <= t1 <= w_clock w
}.

Lemma linv_init : forall T0 s0, LInv T0 s0 (world0 T0 s0).
Proof.
  intros T0 s0. constructor; simpl.
  - exact I.
  - lia.
  - intros _. exists []. reflexivity.
  - intros g H. discriminate.
  - intros g c id t1 H. discriminate.
Qed.

Ltac pcs_case g g' :=
  rewrite pc_of_pcl; cbn [w_pcs]; unfold set_pc;
  destruct (Z.eq_dec g' g) as [?Heq | ?Hne];
  [subst; rewrite pcl_set_same | rewrite (pcl_set_other _ _ _ _ Hne); rewrite <- pc_of_pcl].

Lemma lock_step_inv : forall T0 s0 w e w', LInv T0 s0 w -> lock_step w e = Some w' -> LInv T0 s0 w'.
Proof.
  intros T0 s0 w e w' H Hs. destruct e as [d | g c id | g | g | g | g]; simpl in Hs.
  - (* tick *)
    destruct (0 <=? d) eqn:Ed; [|discriminate]. apply Z.leb_le in Ed. inversion Hs. subst w'. clear Hs.
    destruct H. constructor; cbn [w_trace w_clock w_panicked w_state w_locked]; try assumption.
    + lia.
    + intros g c id t1 Hp. change (pc_of g w = PRead1 c id t1) in Hp. specialize (li_read0 _ _ _ _ Hp). lia.
  - (* call *)
    destruct (pc_of g w) eqn:Ep; try discriminate. inversion Hs. subst w'. clear Hs.
    destruct H. constructor; cbn [w_trace w_clock w_panicked w_state w_locked]; try assumption.
    + intros g'. pcs_case g g'; [discriminate | apply li_lock0].
    + intros g' c' id' t1. pcs_case g g'; [discriminate | apply li_read0].
  - (* acquire *)
    destruct (pc_of g w) eqn:Ep; try discriminate. destruct (w_locked w) eqn:El; [discriminate|].
    inversion Hs. subst w'. clear Hs.
    destruct H. constructor; cbn [w_trace w_clock w_panicked w_state w_locked]; try assumption.
    + intros g'. pcs_case g g'; [reflexivity|]. intros Hh. specialize (li_lock0 _ Hh). congruence.
    + intros g' c' id' t1. pcs_case g g'; [discriminate | apply li_read0].
  - (* read the clock *)
    destruct (pc_of g w) eqn:Ep; try discriminate. inversion Hs. subst w'. clear Hs.
    destruct H. constructor; cbn [w_trace w_clock w_panicked w_state w_locked]; try assumption.
    + intros g'. pcs_case g g'; [intros _; apply li_lock0; rewrite Ep; reflexivity | apply li_lock0].
    + intros g' c' id' t1. pcs_case g g'; [intros Hq; inversion Hq; subst; lia | apply li_read0].
  - (* body *)
    destruct (pc_of g w) as [| | |c id t1|] eqn:Ep; try discriminate.
    assert (Hlk : w_locked w = Some g) by (apply (li_lock _ _ _ H); rewrite Ep; reflexivity).
    assert (Hrd : last_time T0 (rev (w_trace w)) <= t1 <= w_clock w) by (apply (li_read _ _ _ H _ _ _ _ Ep)).
    assert (Hothers : forall g', g' <> g -> holds (pc_of g' w) = false).
    { intros g' Hne. destruct (holds (pc_of g' w)) eqn:Eh; [|reflexivity].
      pose proof (li_lock _ _ _ H _ Eh) as Hl. congruence. }
    destruct c.
    + destruct (current (w_state w) t1 (w_clock w)) as [[k s']|] eqn:Ec; inversion Hs; subst w'; clear Hs;
      destruct H; constructor; cbn [w_trace w_clock w_panicked w_state w_locked rev]; try assumption.
      * apply mono_app. simpl. split; [assumption | lia].
      * rewrite last_app. simpl. lia.
      * intros Hp. destruct (li_run0 Hp) as [bs Hr]. eexists.
        eapply run_app; [exact Hr|]. simpl. rewrite Ec. reflexivity.
      * intros g'. pcs_case g g'; [intros _; assumption | apply li_lock0].
      * intros g' c' id' t1'. pcs_case g g'; [discriminate|]. intros Hq.
        specialize (Hothers _ Hne). rewrite Hq in Hothers. discriminate.
      * intros Hp. discriminate.
      * intros g'. pcs_case g g'; [intros _; assumption | apply li_lock0].
      * intros g' c' id' t1'. pcs_case g g'; [discriminate | apply li_read0].
    + inversion Hs. subst w'. clear Hs.
      destruct H. constructor; cbn [w_trace w_clock w_panicked w_state w_locked rev]; try assumption.
      * apply mono_app. simpl. split; [assumption | lia].
      * rewrite last_app. simpl. lia.
      * intros Hp. destruct (li_run0 Hp) as [bs Hr]. eexists.
        eapply run_app; [exact Hr|]. simpl. reflexivity.
      * intros g'. pcs_case g g'; [intros _; assumption | apply li_lock0].
      * intros g' c' id' t1'. pcs_case g g'; [discriminate|]. intros Hq.
        specialize (Hothers _ Hne). rewrite Hq in Hothers. discriminate.
  - (* release *)
    destruct (pc_of g w) eqn:Ep; try discriminate.
    assert (Hlk : w_locked w = Some g) by (apply (li_lock _ _ _ H); rewrite Ep; reflexivity).
    inversion Hs. subst w'. clear Hs.
    assert (Hothers : forall g', g' <> g -> holds (pc_of g' w) = false).
    { intros g' Hne. destruct (holds (pc_of g' w)) eqn:Eh; [|reflexivity].
      pose proof (li_lock _ _ _ H _ Eh) as Hl. congruence. }
    destruct H. constructor; cbn [w_trace w_clock w_panicked w_state w_locked]; try assumption.
    + intros g'. pcs_case g g'; [discriminate|]. intros Hh. rewrite (Hothers _ Hne) in Hh. discriminate.
    + intros g' c' id' t1. pcs_case g g'; [discriminate | apply li_read0].
Qed.

Lemma lock_run_inv : forall es T0 s0 w w', LInv T0 s0 w -> lock_run w es = Some w' -> LInv T0 s0 w'.
Proof.
  induction es as [|e r IH]; simpl; intros T0 s0 w w' H Hr.
  - inversion Hr. subst. assumption.
  - destruct (lock_step w e) as [w1|] eqn:Es; [|discriminate].
    apply (IH _ _ _ _ (lock_step_inv _ _ _ _ _ H Es) Hr).
Qed.

(* any interleaving of any goroutines' calls with any clock ticks: the calls, in
   the order their critical sections ran, form a history with non-decreasing
   clock readings whose sequential execution yields the state reached *)
Lemma lock_serializable : forall T0 s0 es w, lock_run (world0 T0 s0) es = Some w ->
  mono T0 (rev (w_trace w)) /\
  (w_panicked w = false -> exists bs, run s0 (rev (w_trace w)) = Some (w_state w, bs)).
Proof.
  intros T0 s0 es w Hr. pose proof (lock_run_inv _ _ _ _ _ (linv_init T0 s0) Hr) as H.
  split; [apply (li_mono _ _ _ H) | apply (li_run _ _ _ H)].
Qed.

Lemma lock_history_ok : forall t0 s0 es w bs, new_provider t0 = Some s0 ->
  lock_run (world0 t0 s0) es = Some w -> w_panicked w = false ->
  run s0 (rev (w_trace w)) = Some (w_state w, bs) -> C12_ok bs = true.
Proof.
  intros t0 s0 es w bs Hn Hr Hp Hrun. destruct (lock_serializable _ _ _ _ Hr) as [Hm _].
  apply (model_meets_oracle t0 (rev (w_trace w)) (w_state w) bs Hm). unfold history. rewrite Hn. assumption.
Qed.

(* ---------- accepted groups satisfy the oracle (the relational check of concurrent histories is sound) ---------- *)
Lemma opt_key_eqb_eq : forall a b, opt_key_eqb a b = true -> a = b.
Proof.
  intros [x|] [y|] H; simpl in H; try discriminate; [|reflexivity].
  apply key_eqb_eq in H. subst. reflexivity.
Qed.

Definition gobs (s s' : state) (kc : key) (has_cur : bool) (t : Z) (b : obs) : Prop :=
  match b with
  | BCur _ t' k => t' = t /\ k = kc /\ has_cur = true
  | BGet _ t' id r => t' = t /\ (r = get s id t \/ r = get s' id t)
  end.

Lemma group_obs_facts : forall ops bs s s' kc inb t, Forall (at_instant t) ops ->
  group_walk s s' kc inb ops bs = true -> Forall (gobs s s' kc (group_has_cur ops) t) bs.
Proof.
  induction ops as [|o r IH]; intros bs s s' kc inb t Hf H; destruct bs as [|b bs']; simpl in H; try discriminate.
  - constructor.
  - inversion Hf as [|? ? Ha Hf']; subst. destruct Ha as [Ha1 Ha2].
    assert (Hweak : forall inb', group_walk s s' kc inb' r bs' = true ->
                    Forall (gobs s s' kc (group_has_cur (o :: r)) t) bs').
    { intros inb' Hw. apply (Forall_impl _ (P := gobs s s' kc (group_has_cur r) t)); [|apply (IH _ _ _ _ _ _ Hf' Hw)].
      intros x Hx. destruct x as [g' t' k | g' t' id' rr]; simpl in *; [|assumption].
      destruct Hx as [Hx1 [Hx2 Hx3]]. repeat split; try assumption.
      change (group_has_cur (o :: r)) with ((match o with OCur _ _ _ => true | _ => false end) || group_has_cur r).
      rewrite Hx3. apply orb_true_r. }
    destruct o as [g t1 t2 | g id t1]; destruct b as [g' t' k | g' t' id' rr]; try discriminate;
      simpl in Ha1, Ha2.
    + rewrite !andb_true_iff in H. destruct H as [[[H3 H4] H5] H6]. apply Z.eqb_eq in H4. apply key_eqb_eq in H5.
      constructor; [simpl; repeat split; congruence | apply (Hweak _ H6)].
    + rewrite !andb_true_iff in H. destruct H as [[[H3 H4] H5] H6]. apply Z.eqb_eq in H4, H5.
      assert (Et : t' = t) by congruence. assert (Ei : id' = id) by congruence. subst t' id' t1.
      destruct (existsb (Z.eqb g) inb).
      * apply andb_true_iff in H6. destruct H6 as [H6 H7]. apply opt_key_eqb_eq in H6.
        constructor; [simpl; split; [reflexivity | right; assumption] | apply (Hweak _ H7)].
      * destruct (opt_key_eqb rr (get s id t)) eqn:E1.
        -- apply opt_key_eqb_eq in E1. constructor; [simpl; split; [reflexivity | left; assumption] | apply (Hweak _ H6)].
        -- apply andb_true_iff in H6. destruct H6 as [H6 H7]. apply opt_key_eqb_eq in H6.
           constructor; [simpl; split; [reflexivity | right; assumption] | apply (Hweak _ H7)].
Qed.

(* a goroutine that is "in" only sees the state after the first Current *)
Lemma walk_inb : forall ops bs s s' kc inb t, Forall (at_instant t) ops ->
  group_walk s s' kc inb ops bs = true ->
  forall g t' id r, In (BGet g t' id r) bs -> existsb (Z.eqb g) inb = true -> r = get s' id t.
Proof.
  induction ops as [|o r0 IH]; intros bs s s' kc inb t Hf H; destruct bs as [|b bs']; simpl in H; try discriminate.
  - intros g t' id r [].
  - inversion Hf as [|? ? Ha Hf']; subst. destruct Ha as [Ha1 Ha2].
    assert (Hgrow : forall g x, existsb (Z.eqb g) inb = true -> existsb (Z.eqb g) (x :: inb) = true).
    { intros g x Hx. simpl. rewrite Hx. apply orb_true_r. }
    destruct o as [g0 t1 t2 | g0 id0 t1]; destruct b as [g' t' k | g' t' id' rr]; try discriminate;
      simpl in Ha1, Ha2.
    + rewrite !andb_true_iff in H. destruct H as [_ H6].
      intros g t'' id r [Heq | Hin] Hm; [discriminate|].
      apply (IH _ _ _ _ _ _ Hf' H6 g t'' id r Hin). apply Hgrow. assumption.
    + rewrite !andb_true_iff in H. destruct H as [[[H3 H4] H5] H6]. apply Z.eqb_eq in H3, H4, H5.
      assert (Et : t' = t) by congruence. assert (Ei : id' = id0) by congruence. assert (Eg : g' = g0) by congruence.
      subst t' id' g' t1.
      intros g t'' id r [Heq | Hin] Hm.
      * inversion Heq. subst. rewrite Hm in H6. apply andb_true_iff in H6. destruct H6 as [H6 _].
        apply opt_key_eqb_eq in H6. assumption.
      * destruct (existsb (Z.eqb g0) inb).
        -- apply andb_true_iff in H6. destruct H6 as [_ H7]. apply (IH _ _ _ _ _ _ Hf' H7 g t'' id r Hin Hm).
        -- destruct (opt_key_eqb rr (get s id0 t)).
           ++ apply (IH _ _ _ _ _ _ Hf' H6 g t'' id r Hin Hm).
           ++ apply andb_true_iff in H6. destruct H6 as [_ H7].
              apply (IH _ _ _ _ _ _ Hf' H7 g t'' id r Hin). apply Hgrow. assumption.
Qed.

Definition gfacts (s s' : state) (t : Z) (b : obs) : Prop :=
  obs_good (glog s') b /\ obs_time b = t /\ cur_id_ok s' b /\
  match b with BGet _ _ id r => r = get s id t \/ r = get s' id t | _ => True end.

Lemma group_facts : forall t0 T s t ops bs s', Inv t0 T s -> T <= t -> Forall (at_instant t) ops ->
  group_step s t ops bs = Some s' ->
  Inv t0 t s' /\ cur s <= cur s' /\ incl (glog s) (glog s') /\ Forall (gfacts s s' t) bs.
Proof.
  intros t0 T s t ops bs s' H Ht Hf Hg. unfold group_step in Hg.
  assert (Hget : forall st id r, Inv t0 t st -> incl (glog st) (glog s') -> r = get st id t ->
                 forall g, obs_good (glog s') (BGet g t id r)).
  { intros st id r Hi Hl Hr g. subst r. destruct (get st id t) as [k|] eqn:Eg; simpl; [|exact I].
    destruct (get_spec _ _ _ _ _ _ Hi Eg) as [Ha [Hb [Hc Hd]]]. repeat split; try assumption; try lia. apply Hl. assumption. }
  destruct (group_has_cur ops) eqn:Ehc.
  - destruct (current s t t) as [[kc s1]|] eqn:Ec; [|discriminate].
    destruct (group_walk s s1 kc [] ops bs) eqn:Ef; [|discriminate]. inversion Hg. subst s1. clear Hg.
    assert (Htt : t <= t) by lia.
    destruct (current_step _ _ _ _ _ _ _ H Ht Htt Ec) as [Hi [Hk [Hv [Ha [Hc [Hl _]]]]]].
    assert (Hct : cur_time s t t = t) by (unfold cur_time; destruct (need_renew s t); reflexivity).
    rewrite Hct in *.
    split; [assumption|]. split; [assumption|]. split; [assumption|].
    pose proof (group_obs_facts _ _ _ _ _ _ _ Hf Ef) as Hfa.
    apply (Forall_impl _ (P := gobs s s' kc (group_has_cur ops) t)); [|assumption].
    intros b Hb. destruct b as [g' t' k | g' t' id' rr]; simpl in Hb.
    + destruct Hb as [Hb1 [Hb2 _]]. subst t' k. unfold gfacts. simpl.
      split; [|split; [reflexivity | split; [subst kc; reflexivity | exact I]]].
      split; [subst kc; apply (inv_head_in _ _ _ Hi)|]. split; [assumption|]. split; [assumption|].
      subst kc. unfold key_wf. reflexivity.
    + destruct Hb as [Hb1 Hb2]. subst t'. unfold gfacts. split; [|split; [reflexivity | split; [exact I | assumption]]].
      destruct Hb2 as [Hb2 | Hb2].
      * apply (Hget s id' rr (inv_weaken _ _ _ _ H Ht) Hl Hb2).
      * apply (Hget s' id' rr Hi (fun x Hx => Hx) Hb2).
  - destruct (group_walk s s zero_key [] ops bs) eqn:Ef; [|discriminate]. inversion Hg. subst s'. clear Hg.
    pose proof (inv_weaken _ _ _ _ H Ht) as Hi.
    split; [assumption|]. split; [lia|]. split; [intros x Hx; assumption|].
    pose proof (group_obs_facts _ _ _ _ _ _ _ Hf Ef) as Hfa. rewrite Ehc in Hfa.
    apply (Forall_impl _ (P := gobs s s zero_key false t)); [|assumption].
    intros b Hb. destruct b as [g' t' k | g' t' id' rr]; simpl in Hb.
    + destruct Hb as [_ [_ Hb]]. discriminate.
    + destruct Hb as [Hb1 Hb2]. subst t'. unfold gfacts. split; [|split; [reflexivity | split; [exact I | assumption]]].
      destruct Hb2 as [Hb2 | Hb2]; apply (Hget s id' rr Hi (fun x Hx => Hx) Hb2).
Qed.

(* an earlier observation against one of a later group *)
Lemma pair_cross : forall t0 T s b t s' b', Inv t0 T s -> carry b T s -> T <= t -> Inv t0 t s' ->
  cur s <= cur s' -> incl (glog s) (glog s') -> gfacts s s' t b' -> pair_ok b b' = true.
Proof.
  intros t0 T s b t s' b' H [Hc1 [Hc2 Hc3]] Ht Hi Hcur Hl [Hg [Hbt [Hid Hr]]].
  unfold pair_ok. rewrite !andb_true_iff. repeat split.
  - destruct (obs_key b) as [x|] eqn:Ex; [|reflexivity].
    destruct (obs_key b') as [y|] eqn:Ey; [|reflexivity].
    apply (compat_log (glog s')); [apply (inv_log _ _ _ Hi) | | apply (obs_good_key _ _ _ Hg Ey)].
    apply Hl. apply (obs_good_key _ _ _ Hc2 Ex).
  - destruct b as [g tb k | g tb id r]; [|reflexivity].
    destruct b' as [g' t' k' | g' t' id' r']; [reflexivity|]. simpl.
    destruct ((id' =? k_id k) && ((tb <? t') || (g' =? g))) eqn:Econd; [|reflexivity].
    apply andb_true_iff in Econd. destruct Econd as [Eid _]. apply Z.eqb_eq in Eid. subst id'.
    simpl in Hbt, Hc1, Hc2. subst t'.
    destruct Hc2 as [Hin [Hnb [Hage Hwf]]]. unfold key_wf in Hwf.
    pose proof validity_val as Hv. pose proof two_days_val as H2d. pose proof renewal_pos as Hp.
    assert (Hin' : In k (glog s')) by (apply Hl; assumption).
    assert (Htt : t <= t) by lia.
    rewrite andb_true_iff. split.
    + destruct (t <=? tb + two_days) eqn:E; [|reflexivity]. apply Z.leb_le in E.
      assert (Hr' : r' = Some k).
      { destruct Hr as [Hr | Hr]; rewrite Hr;
          [apply (get_live _ _ _ t k H Ht Hin) | apply (get_live _ _ _ t k Hi Htt Hin')]; lia. }
      rewrite Hr'. apply key_eqb_eq. reflexivity.
    + destruct (k_nb k + key_validity <? t) eqn:E; [|reflexivity]. apply Z.ltb_lt in E.
      assert (Hr' : r' = None).
      { destruct Hr as [Hr | Hr]; rewrite Hr;
          [apply (get_dead _ _ _ t k H Hin) | apply (get_dead _ _ _ t k Hi Hin')]; lia. }
      rewrite Hr'. reflexivity.
  - destruct b as [g tb k | g tb id r]; [|reflexivity].
    destruct b' as [g' t' k' | g' t' id' r']; [|reflexivity].
    simpl in Hid. apply Z.leb_le. lia.
Qed.

(* two observations of the same group: if the same goroutine made both, its Get after
   its own Current saw the state after that Current *)
Lemma pair_within : forall t0 s s' t b b', Inv t0 t s' -> gfacts s s' t b -> gfacts s s' t b' ->
  (obs_g b' = obs_g b -> match b, b' with BCur _ _ _, BGet _ _ id r => r = get s' id t | _, _ => True end) ->
  pair_ok b b' = true.
Proof.
  intros t0 s s' t b b' Hi [Hg [Hbt [Hid _]]] [Hg' [Hbt' [Hid' _]]] Hsame.
  unfold pair_ok. rewrite !andb_true_iff. repeat split.
  - destruct (obs_key b) as [x|] eqn:Ex; [|reflexivity].
    destruct (obs_key b') as [y|] eqn:Ey; [|reflexivity].
    apply (compat_log (glog s')); [apply (inv_log _ _ _ Hi) | apply (obs_good_key _ _ _ Hg Ex) | apply (obs_good_key _ _ _ Hg' Ey)].
  - destruct b as [g tb k | g tb id r]; [|reflexivity].
    destruct b' as [g' t' k' | g' t' id' r']; [reflexivity|]. simpl in *. subst tb t'.
    assert (E1 : (t <? t) = false) by (apply Z.ltb_ge; lia). rewrite E1. simpl.
    destruct ((id' =? k_id k) && (g' =? g)) eqn:Ec; [|reflexivity].
    apply andb_true_iff in Ec. destruct Ec as [Ec1 Ec2]. apply Z.eqb_eq in Ec1, Ec2. subst id'.
    specialize (Hsame Ec2). subst r'.
    destruct Hg as [Hin [Hv [Ha Hwf]]]. unfold key_wf in Hwf.
    assert (Htt : t <= t) by lia.
    rewrite (get_live _ _ _ t k Hi Htt Hin Hv).
    assert (Hk : key_eqb k k = true) by (apply key_eqb_eq; reflexivity). rewrite Hk.
    assert (E2 : (k_nb k + key_validity <? t) = false) by (apply Z.ltb_ge; lia). rewrite E2.
    destruct (t <=? t + two_days); reflexivity.
  - destruct b as [g tb k | g tb id r]; [|reflexivity].
    destruct b' as [g' t' k' | g' t' id' r']; [|reflexivity].
    simpl in Hid, Hid'. apply Z.leb_le. lia.
Qed.

Lemma group_within_ok : forall ops bs t0 s s' kc inb t, Inv t0 t s' -> Forall (at_instant t) ops ->
  group_walk s s' kc inb ops bs = true -> Forall (gfacts s s' t) bs -> C12_ok bs = true.
Proof.
  induction ops as [|o r IH]; intros bs t0 s s' kc inb t Hi Hf Hw Hfa; destruct bs as [|b bs']; simpl in Hw; try discriminate.
  - reflexivity.
  - inversion Hf as [|? ? Ha Hf']; subst. inversion Hfa as [|? ? Hb Hfa']; subst.
    assert (Hgood : obs_ok b = true) by (destruct Hb as [Hg _]; apply (obs_good_ok _ _ Hg)).
    (* the walk continues on the tail with some inb' that contains g if b is a Current by g *)
    assert (Htail : exists inb', group_walk s s' kc inb' r bs' = true /\
                    (forall g tb k, b = BCur g tb k -> existsb (Z.eqb g) inb' = true)).
    { destruct o as [g t1 t2 | g id t1]; destruct b as [g' t' k | g' t' id' rr]; try discriminate.
      - rewrite !andb_true_iff in Hw. destruct Hw as [[[H3 _] _] H6]. apply Z.eqb_eq in H3. subst g'.
        exists (g :: inb). split; [assumption|]. intros g0 tb k0 Heq. inversion Heq. subst. simpl. rewrite Z.eqb_refl. reflexivity.
      - rewrite !andb_true_iff in Hw. destruct Hw as [_ H6].
        destruct (existsb (Z.eqb g) inb).
        + apply andb_true_iff in H6. destruct H6 as [_ H7]. exists inb. split; [assumption | intros; discriminate].
        + destruct (opt_key_eqb rr (get s id t1)).
          * exists inb. split; [assumption | intros; discriminate].
          * apply andb_true_iff in H6. destruct H6 as [_ H7]. exists (g :: inb). split; [assumption | intros; discriminate]. }
    destruct Htail as [inb' [Hw' Hcur]].
    simpl. rewrite Hgood, (IH _ _ _ _ _ _ _ Hi Hf' Hw' Hfa'). simpl. rewrite andb_true_r.
    apply forallb_forall. intros b' Hin.
    apply (pair_within t0 s s' t); [assumption | assumption | rewrite Forall_forall in Hfa'; apply Hfa'; assumption|].
    intros Hsame. destruct b as [g tb k | g tb id rr]; [|exact I].
    destruct b' as [g' t' k' | g' t' id' r']; [exact I|]. simpl in Hsame. subst g'.
    apply (walk_inb _ _ _ _ _ _ _ Hf' Hw' g t' id' r' Hin). apply (Hcur g tb k eq_refl).
Qed.

Lemma C12_ok_app : forall l1 l2, C12_ok l1 = true -> C12_ok l2 = true ->
  (forall b, In b l1 -> forallb (pair_ok b) l2 = true) -> C12_ok (l1 ++ l2) = true.
Proof.
  induction l1 as [|b r IH]; simpl; intros l2 H1 H2 H; [assumption|].
  rewrite !andb_true_iff in H1. destruct H1 as [[Ha Hb] Hc].
  rewrite Ha, forallb_app, Hb, (H b (or_introl eq_refl)). simpl.
  apply IH; try assumption. intros b' Hin. apply H. right. assumption.
Qed.

Definition group_times_ok (g : Z * list op * list obs) : Prop :=
  Forall (at_instant (fst (fst g))) (snd (fst g)).

Lemma groups_instants : forall gs s T, groups_ok s T gs = true -> Forall group_times_ok gs.
Proof.
  induction gs as [|[[t ops] bs] r IH]; simpl; intros s T H; [constructor|].
  rewrite !andb_true_iff in H. destruct H as [[H1 H2] H3].
  destruct (group_step s t ops bs) as [s'|]; [|discriminate].
  constructor; [|apply (IH _ _ H3)].
  unfold group_times_ok. simpl. apply Forall_forall. intros o Ho.
  rewrite forallb_forall in H2. specialize (H2 _ Ho). apply andb_true_iff in H2.
  destruct H2 as [Ha Hb]. apply Z.eqb_eq in Ha, Hb. split; assumption.
Qed.

Lemma groups_later : forall gs t0 T s b, Inv t0 T s -> carry b T s -> groups_ok s T gs = true ->
  forallb (pair_ok b) (groups_obs gs) = true.
Proof.
  induction gs as [|[[t ops] bs] r IH]; intros t0 T s b H Hc Hg; [reflexivity|].
  pose proof (groups_instants _ _ _ Hg) as Hinst. simpl in Hg.
  rewrite !andb_true_iff in Hg. destruct Hg as [[H1 H2] H3]. apply Z.leb_le in H1.
  destruct (group_step s t ops bs) as [s'|] eqn:Eg; [|discriminate].
  inversion Hinst as [|? ? Hi1 _]; subst. unfold group_times_ok in Hi1. simpl in Hi1.
  destruct (group_facts _ _ _ _ _ _ _ H H1 Hi1 Eg) as [Hi [Hcur [Hl Hf]]].
  unfold groups_obs. simpl. rewrite forallb_app. apply andb_true_iff. split.
  - apply forallb_forall. intros b' Hin. rewrite Forall_forall in Hf.
    apply (pair_cross t0 T s b t s' b' H Hc H1 Hi Hcur Hl (Hf _ Hin)).
  - apply (IH t0 t s' b Hi); [|assumption].
    destruct Hc as [Hc1 [Hc2 Hc3]]. split; [lia|]. split; [apply (obs_good_incl _ _ _ Hl Hc2)|].
    destruct b as [g tb k | g tb id rr]; [lia | exact I].
Qed.

(* every chain of accepted groups satisfies the property oracle *)
Lemma groups_sound : forall gs t0 T s, Inv t0 T s -> groups_ok s T gs = true ->
  C12_ok (groups_obs gs) = true.
Proof.
  induction gs as [|[[t ops] bs] r IH]; intros t0 T s H Hg; [reflexivity|].
  pose proof (groups_instants _ _ _ Hg) as Hinst. simpl in Hg.
  rewrite !andb_true_iff in Hg. destruct Hg as [[H1 H2] H3]. apply Z.leb_le in H1.
  destruct (group_step s t ops bs) as [s'|] eqn:Eg; [|discriminate].
  inversion Hinst as [|? ? Hi1 _]; subst. unfold group_times_ok in Hi1. simpl in Hi1.
  destruct (group_facts _ _ _ _ _ _ _ H H1 Hi1 Eg) as [Hi [Hcur [Hl Hf]]].
  change (groups_obs ((t, ops, bs) :: r)) with (bs ++ groups_obs r).
  apply C12_ok_app.
  - unfold group_step in Eg. destruct (group_has_cur ops).
    + destruct (current s t t) as [[kc s1]|]; [|discriminate].
      destruct (group_walk s s1 kc [] ops bs) eqn:Ew; [|discriminate]. inversion Eg. subst s1.
      apply (group_within_ok ops bs t0 s s' kc [] t Hi Hi1 Ew Hf).
    + destruct (group_walk s s zero_key [] ops bs) eqn:Ew; [|discriminate]. inversion Eg. subst s'.
      apply (group_within_ok ops bs t0 s s zero_key [] t Hi Hi1 Ew Hf).
  - apply (IH t0 t s' Hi H3).
  - intros b Hin. apply (groups_later r t0 t s' b Hi); [|assumption].
    rewrite Forall_forall in Hf. destruct (Hf _ Hin) as [Hg [Hbt [Hid _]]].
    split; [lia|]. split; [assumption|]. destruct b as [g tb k | g tb id rr]; [simpl in Hid; lia | exact I].
Qed.

Lemma conc_sound : forall t0 s gs, new_provider t0 = Some s -> groups_ok s t0 gs = true ->
  C12_ok (groups_obs gs) = true.
Proof. intros t0 s gs Hn. apply (groups_sound gs t0 t0 s (new_inv _ _ Hn)). Qed.

(* ---------- the one-pass oracle for very long histories ---------- *)
Lemma long_of_ok : forall l prev,
  match prev with Some (g, t, p) => forallb (pair_ok (BCur g t p)) l = true | None => True end ->
  C12_ok l = true ->
  long_ok (match prev with Some (_, _, p) => Some p | None => None end) l = true.
Proof.
  induction l as [|b r IH]; intros prev Hp Hok; [reflexivity|].
  simpl in Hok. rewrite !andb_true_iff in Hok. destruct Hok as [[Ho Hpairs] Hrest].
  simpl. rewrite Ho. simpl.
  assert (Hnext : long_ok (match b with BCur _ _ k => Some k
                           | _ => match prev with Some (_, _, p) => Some p | None => None end end) r = true).
  { destruct b as [g t k | g t id rr].
    - apply (IH (Some (g, t, k))); assumption.
    - apply (IH prev); [|assumption]. destruct prev as [[[g0 t0] p]|]; [|exact I].
      simpl in Hp. apply andb_true_iff in Hp. tauto. }
  rewrite Hnext, andb_true_r.
  destruct prev as [[[g0 t0] p]|]; [|destruct (obs_key b); reflexivity].
  simpl in Hp. apply andb_true_iff in Hp. destruct Hp as [Hp _].
  unfold pair_ok in Hp. rewrite !andb_true_iff in Hp. destruct Hp as [[H1 _] H3]. simpl in H1.
  apply andb_true_iff. split.
  - destruct (obs_key b); [assumption | reflexivity].
  - destruct b; [assumption | reflexivity].
Qed.

Lemma C12_ok_filter : forall f l, C12_ok l = true -> C12_ok (filter f l) = true.
Proof.
  induction l as [|b r IH]; intros H; [reflexivity|].
  simpl in H. rewrite !andb_true_iff in H. destruct H as [[H1 H2] H3].
  simpl. destruct (f b); [|apply IH; assumption].
  simpl. rewrite H1, (IH H3), andb_true_r. simpl.
  apply forallb_forall. intros x Hx. apply filter_In in Hx. destruct Hx as [Hx _].
  rewrite forallb_forall in H2. apply H2. assumption.
Qed.

Lemma model_meets_long_oracle : forall t0 ops s bs, mono t0 ops -> history t0 ops = Some (s, bs) ->
  C12_long_ok bs = true.
Proof.
  intros t0 ops s bs Hm Hh. unfold C12_long_ok.
  pose proof (model_meets_oracle _ _ _ _ Hm Hh) as Hok.
  rewrite (long_of_ok bs None I Hok). simpl. unfold long_sample. apply C12_ok_filter. assumption.
Qed.

(* what the one-pass oracle decides about ALL Current results of a history *)
Definition same_or_later (a b : key) : Prop := k_id a <= k_id b /\ (k_id a = k_id b -> a = b).

Lemma same_or_later_trans : Relations_1.Transitive same_or_later.
Proof.
  intros a b c [H1 H2] [H3 H4]. split; [lia|]. intros He.
  assert (Hab : k_id a = k_id b) by lia. assert (Hbc : k_id b = k_id c) by lia.
  rewrite (H2 Hab). apply H4. assumption.
Qed.

Lemma long_chain : forall l prev, long_ok prev l = true ->
  Sorted same_or_later (match prev with Some p => p :: curs l | None => curs l end).
Proof.
  induction l as [|b r IH]; intros prev H.
  - destruct prev; simpl; repeat constructor.
  - simpl in H. rewrite !andb_true_iff in H. destruct H as [[[Ho Hc] Hi] Hr].
    destruct b as [g t k | g t id rr].
    + specialize (IH (Some k) Hr). simpl in *. destruct prev as [p|]; [|assumption].
      constructor; [assumption|]. constructor. apply Z.leb_le in Hi. split; [assumption|].
      intros He. unfold keys_compat in Hc. rewrite !andb_true_iff in Hc. destruct Hc as [[Hc _] _].
      apply Z.eqb_eq in He. rewrite He in Hc. apply key_eqb_eq. assumption.
    + apply (IH prev Hr).
Qed.

Lemma long_unique : forall l, C12_long_ok l = true -> StronglySorted same_or_later (curs l).
Proof.
  intros l H. unfold C12_long_ok in H. apply andb_true_iff in H. destruct H as [H _].
  apply Sorted_StronglySorted; [apply same_or_later_trans|].
  apply (long_chain l None H).
Qed.

Lemma C12_ok_pairs : forall l a b, C12_ok l = true -> In a l -> In b l ->
  a = b \/ pair_ok a b = true \/ pair_ok b a = true.
Proof.
  induction l as [|x r IH]; intros a b H Ha Hb; [contradiction|].
  simpl in H. rewrite !andb_true_iff in H. destruct H as [[H1 H2] H3]. rewrite forallb_forall in H2.
  destruct Ha as [Ha | Ha]; destruct Hb as [Hb | Hb]; subst.
  - left. reflexivity.
  - right. left. apply H2. assumption.
  - right. right. apply H2. assumption.
  - apply IH; assumption.
Qed.

Lemma compat_same_id : forall a b, keys_compat a b = true \/ keys_compat b a = true ->
  k_id a = k_id b -> a = b.
Proof.
  intros a b [H | H] He; unfold keys_compat in H; rewrite !andb_true_iff in H; destruct H as [[H _] _].
  - apply Z.eqb_eq in He. rewrite He in H. apply key_eqb_eq. assumption.
  - symmetry in He. apply Z.eqb_eq in He. rewrite He in H. symmetry. apply key_eqb_eq. assumption.
Qed.

(* ... and about the Get results: a key returned by any Get of the history is the very
   key that any Current of the history returned under the same id *)
Lemma long_get_unique : forall l g t id k' g' t' c, C12_long_ok l = true ->
  In (BGet g t id (Some k')) l -> In (BCur g' t' c) l -> k_id c = k_id k' -> c = k'.
Proof.
  intros l g t id k' g' t' c H Hg Hc He. unfold C12_long_ok in H. apply andb_true_iff in H. destruct H as [_ H].
  assert (Hids : In (k_id k') (get_ids l)).
  { unfold get_ids. apply in_flat_map. exists (BGet g t id (Some k')). split; [assumption | right; left; reflexivity]. }
  assert (H1 : In (BGet g t id (Some k')) (long_sample l)) by (unfold long_sample; apply filter_In; split; [assumption | reflexivity]).
  assert (H2 : In (BCur g' t' c) (long_sample l)).
  { unfold long_sample. apply filter_In. split; [assumption|]. apply existsb_exists. exists (k_id k').
    split; [assumption | apply Z.eqb_eq; assumption]. }
  destruct (C12_ok_pairs _ _ _ H H2 H1) as [Heq | [Hp | Hp]]; [discriminate | |];
    unfold pair_ok in Hp; rewrite !andb_true_iff in Hp; destruct Hp as [[Hp _] _]; simpl in Hp;
    apply compat_same_id; auto.
Qed.

(* ---------- the listeners: histories of key exchanges and NTS requests ---------- *)
Definition erase (k : key) : key := {| k_id := k_id k; k_val := 0; k_nb := k_nb k; k_na := k_na k |}.
Definition erase_obs (b : obs) : obs :=
  match b with
  | BCur g t k => BCur g t (erase k)
  | BGet g t id r => BGet g t id (option_map erase r)
  end.

Lemma key_eqb_erase : forall a b, key_eqb a b = true -> key_eqb (erase a) (erase b) = true.
Proof. intros a b H. apply key_eqb_eq in H. subst. apply key_eqb_eq. reflexivity. Qed.

Lemma keys_compat_erase : forall a b, keys_compat a b = true -> keys_compat (erase a) (erase b) = true.
Proof.
  intros a b H. unfold keys_compat in *. simpl.
  rewrite !andb_true_iff in *. destruct H as [[H1 H2] H3]. repeat split; try assumption.
  destruct (k_id a =? k_id b); [apply key_eqb_erase; assumption | reflexivity].
Qed.

Lemma pair_ok_erase : forall a b, pair_ok a b = true -> pair_ok (erase_obs a) (erase_obs b) = true.
Proof.
  intros a b H. unfold pair_ok in *. rewrite !andb_true_iff in *. destruct H as [[H1 H2] H3]. repeat split.
  - destruct a as [g t k | g t id [k|]]; destruct b as [g' t' k' | g' t' id' [k'|]]; simpl in *;
      try reflexivity; apply keys_compat_erase; assumption.
  - destruct a as [g t k | g t id r]; [|reflexivity].
    destruct b as [g' t' k' | g' t' id' r']; [reflexivity|]. simpl in *.
    destruct ((id' =? k_id k) && ((t <? t') || (g' =? g))); [|reflexivity].
    rewrite andb_true_iff in *. destruct H2 as [Ha Hb]. split.
    + destruct (t' <=? t + two_days); [|reflexivity].
      destruct r' as [k''|]; simpl; [apply key_eqb_erase; assumption | discriminate].
    + destruct (k_nb k + key_validity <? t'); [|reflexivity].
      destruct r' as [k''|]; simpl; [discriminate | reflexivity].
  - destruct a as [g t k | g t id r]; destruct b as [g' t' k' | g' t' id' r']; simpl in *; try reflexivity; assumption.
Qed.

Lemma obs_ok_erase : forall b, obs_ok (erase_obs b) = obs_ok b.
Proof. intros [g t k | g t id [k|]]; reflexivity. Qed.

Lemma C12_ok_erase : forall l, C12_ok l = true -> C12_ok (map erase_obs l) = true.
Proof.
  induction l as [|b r IH]; intros H; [reflexivity|].
  simpl in *. rewrite !andb_true_iff in *. destruct H as [[H1 H2] H3].
  rewrite obs_ok_erase. repeat split; [assumption | | apply IH; assumption].
  rewrite forallb_forall in *. intros x Hx. apply in_map_iff in Hx. destruct Hx as [y [Hy1 Hy2]]. subst x.
  apply pair_ok_erase. apply H2. assumption.
Qed.

Definition tabof (l : list key) : list (Z * Z) := map (fun k => (k_id k, k_nb k)) l.

Lemma tab_find_log : forall l k, log_ok l -> In k l -> tab_find (k_id k) (tabof l) = Some (k_nb k).
Proof.
  induction l as [|x r IH]; intros k Hl Hin; [contradiction|].
  simpl. destruct Hin as [Heq | Hin].
  - subst. rewrite Z.eqb_refl. reflexivity.
  - destruct (log_lt _ _ _ Hl Hin) as [H1 _].
    destruct (k_id x =? k_id k) eqn:E; [apply Z.eqb_eq in E; lia|].
    apply IH; [apply (log_tail _ _ Hl) | assumption].
Qed.

Lemma tab_find_none : forall l id, (forall k, In k l -> k_id k <> id) -> tab_find id (tabof l) = None.
Proof.
  induction l as [|x r IH]; intros id H; [reflexivity|].
  simpl. destruct (k_id x =? id) eqn:E; [apply Z.eqb_eq in E; exfalso; apply (H x (or_introl eq_refl) E)|].
  apply IH. intros k Hk. apply H. right. assumption.
Qed.

Lemma erase_wf : forall k, key_wf k -> tab_key (k_id k) (k_nb k) = erase k.
Proof. intros k H. unfold tab_key, erase, key_wf in *. rewrite H. reflexivity. Qed.

(* what Current does to the generation log: nothing, or one new key generated now *)
Lemma current_log : forall t0 T s t k s', Inv t0 T s -> T <= t -> current s t t = Some (k, s') ->
  Inv t0 t s' /\ In k (glog s') /\ key_wf k /\
  ((s' = s) \/ (glog s' = k :: glog s /\ k_nb k = t /\ k_id k = cur s + 1)).
Proof.
  intros t0 T s t k s' H Ht Hc.
  assert (Htt : t <= t) by lia.
  destruct (current_step _ _ _ _ _ _ _ H Ht Htt Hc) as [Hi [Hk _]].
  assert (Hct : cur_time s t t = t) by (unfold cur_time; destruct (need_renew s t); reflexivity).
  rewrite Hct in Hi. split; [assumption|].
  split; [subst k; apply (inv_head_in _ _ _ Hi)|]. split; [subst k; unfold key_wf; reflexivity|].
  unfold current in Hc. destruct (need_renew s t) eqn:En.
  - right. apply (need_renew_spec _ _ _ _ H Ht) in En.
    destruct (generate_next s t) as [s1|] eqn:Eg; [|discriminate]. injection Hc as Hk2 Hs. subst s1.
    destruct (gen_step t0 T s t s' H Ht En Eg) as [_ [Hcur [Hgen Hlog]]].
    rewrite Hk. rewrite Hlog. split; [reflexivity|]. simpl. split; assumption.
  - left. injection Hc as Hk2 Hs. symmetry. assumption.
Qed.

Lemma translate_cur : forall t0 T s t k s' rest, Inv t0 T s -> T <= t -> current s t t = Some (k, s') ->
  let tab := tabof (glog s) in
  let tab' := fold_left (tab_add t) [k_id k] tab in
  tab' = tabof (glog s') /\
  map (fun id => BCur 0 t (tab_key id (match tab_find id tab' with Some g => g | None => t end))) [k_id k] ++ rest
  = erase_obs (BCur 0 t k) :: rest.
Proof.
  intros t0 T s t k s' rest H Ht Hc tab tab'.
  destruct (current_log _ _ _ _ _ _ H Ht Hc) as [Hi [Hin [Hwf Hcase]]].
  assert (Htab : tab' = tabof (glog s')).
  { unfold tab', tab. simpl. unfold tab_add. destruct Hcase as [Heq | [Hlog [Hnb Hid]]].
    - subst s'. rewrite (tab_find_log _ _ (inv_log _ _ _ H) Hin). reflexivity.
    - rewrite tab_find_none.
      + rewrite Hlog. simpl. rewrite Hnb. reflexivity.
      + intros x Hx. destruct (inv_key_facts _ _ _ _ H Hx) as [_ [Hr _]]. lia. }
  split; [assumption|].
  rewrite Htab. simpl. rewrite (tab_find_log _ _ (inv_log _ _ _ Hi) Hin), (erase_wf _ Hwf). reflexivity.
Qed.

Fixpoint llast (t : Z) (l : list lstep) : Z :=
  match l with [] => t | st :: r => llast (lstep_time st) r end.

Lemma lsn_sim : forall steps t0 T s s' lo, Inv t0 T s -> lmono T steps -> lsn_run s steps = Some (s', lo) ->
  exists ops bs, mono T ops /\ run s ops = Some (s', bs) /\
                 lsn_translate (tabof (glog s)) lo = map erase_obs bs /\ last_time T ops = llast T steps.
Proof.
  induction steps as [|st r IH]; intros t0 T s s' lo H Hm Hr.
  - simpl in Hr. inversion Hr. exists [], []. repeat split; reflexivity.
  - simpl in Hm. destruct Hm as [Ht Hm]. simpl in Hr.
    destruct (lsn_step s st) as [[s1 b]|] eqn:Es; [|discriminate].
    destruct (lsn_run s1 r) as [[s2 lo']|] eqn:Er; [|discriminate]. inversion Hr. subst s2 lo. clear Hr.
    destruct st as [t | t kid]; simpl in Ht, Hm, Es.
    + destruct (current s t t) as [[k sx]|] eqn:Ec; [|discriminate]. inversion Es. subst sx b. clear Es.
      destruct (current_log _ _ _ _ _ _ H Ht Ec) as [Hi _].
      destruct (IH _ _ _ _ _ Hi Hm Er) as [ops [bs [Hmo [Hrun [Htr Hlast]]]]].
      exists (OCur 0 t t :: ops), (BCur 0 t k :: bs).
      assert (Hct : (if need_renew s t then t else t) = t) by (destruct (need_renew s t); reflexivity).
      split; [simpl; repeat split; try lia; assumption|].
      split; [simpl; rewrite Ec, Hct, Hrun; reflexivity|].
      cbn [lsn_translate app].
      destruct (translate_cur t0 T s t k s1 (lsn_translate (fold_left (tab_add t) [k_id k] (tabof (glog s))) lo') H Ht Ec) as [Htab Heq].
      split; [rewrite Heq, Htab, Htr; reflexivity | simpl; assumption].
    + destruct (get s kid t) as [k0|] eqn:Eg.
      * destruct (current s t t) as [[k sx]|] eqn:Ec; [|discriminate]. inversion Es. subst sx b. clear Es.
        destruct (current_log _ _ _ _ _ _ H Ht Ec) as [Hi _].
        destruct (IH _ _ _ _ _ Hi Hm Er) as [ops [bs [Hmo [Hrun [Htr Hlast]]]]].
        exists (OGet 0 kid t :: OCur 0 t t :: ops), (BGet 0 t kid (Some k0) :: BCur 0 t k :: bs).
        assert (Hct : (if need_renew s t then t else t) = t) by (destruct (need_renew s t); reflexivity).
        split; [simpl; repeat split; try lia; assumption|].
        split; [simpl; rewrite Eg, Ec, Hct, Hrun; reflexivity|].
        cbn [lsn_translate app].
        destruct (translate_cur t0 T s t k s1 (lsn_translate (fold_left (tab_add t) [k_id k] (tabof (glog s))) lo') H Ht Ec) as [Htab Heq].
        rewrite Heq, Htab, Htr.
        destruct (get_spec _ _ _ _ _ _ H Eg) as [Hid [Hin [_ Hwf]]]. subst kid.
        rewrite (tab_find_log _ _ (inv_log _ _ _ H) Hin), (erase_wf _ Hwf). split; [reflexivity | simpl; assumption].
      * inversion Es. subst s1 b. clear Es.
        destruct (IH _ _ _ _ _ (inv_weaken _ _ _ _ H Ht) Hm Er) as [ops [bs [Hmo [Hrun [Htr Hlast]]]]].
        exists (OGet 0 kid t :: ops), (BGet 0 t kid None :: bs).
        split; [simpl; repeat split; try lia; assumption|].
        split; [simpl; rewrite Eg, Hrun; reflexivity|].
        cbn [lsn_translate app fold_left map]. rewrite Htr. split; [reflexivity | simpl; assumption].
Qed.

Lemma lsn_model_meets_oracle : forall t0 steps s lo, lmono t0 steps ->
  lsn_history t0 steps = Some (s, lo) -> C12_lsn_ok t0 lo = true.
Proof.
  intros t0 steps s lo Hm Hh. unfold lsn_history in Hh.
  destruct (new_provider t0) as [s0|] eqn:En; [|discriminate].
  pose proof (new_inv _ _ En) as Hi.
  destruct (lsn_sim _ _ _ _ _ _ Hi Hm Hh) as [ops [bs [Hmo [Hrun [Htr _]]]]].
  assert (Htab : tabof (glog s0) = [(1, t0)]).
  { unfold new_provider, generate_next in En. change (cur empty_state =? max_int) with false in En.
    cbv iota in En. inversion En. reflexivity. }
  unfold C12_lsn_ok. rewrite <- Htab, Htr. apply C12_ok_erase. apply (run_ok _ _ _ _ _ _ Hi Hmo Hrun).
Qed.

Lemma lmonob_spec : forall l t, lmonob t l = true <-> lmono t l.
Proof.
  induction l as [|st r IH]; simpl; intros t; [tauto|].
  rewrite andb_true_iff, Z.leb_le, IH. tauto.
Qed.

(* ---------- key 1 is known to every observer: NewProvider makes it at t0 ---------- *)
Lemma model_meets_oracle_ghost : forall t0 ops s bs, mono t0 ops -> history t0 ops = Some (s, bs) ->
  C12_ok (BCur 0 t0 (key_one t0) :: bs) = true.
Proof.
  intros t0 ops s bs Hm Hh. unfold history in Hh.
  destruct (new_provider t0) as [s0|] eqn:En; [|discriminate].
  pose proof (new_inv _ _ En) as Hi.
  assert (Hn : need_renew s0 t0 = false).
  { destruct (need_renew s0 t0) eqn:E; [|reflexivity].
    apply (need_renew_spec _ _ _ _ Hi (Z.le_refl t0)) in E.
    pose proof (inv_gen_le _ _ _ Hi). pose proof (inv_t0 _ _ _ Hi). pose proof renewal_pos. lia. }
  assert (Hk : head_key s0 = key_one t0).
  { unfold new_provider, generate_next in En. change (cur empty_state =? max_int) with false in En.
    cbv iota in En. inversion En. reflexivity. }
  apply (model_meets_oracle t0 (OCur 0 t0 t0 :: ops) s).
  - simpl. repeat split; try lia. assumption.
  - unfold history. rewrite En. simpl. unfold current. rewrite Hn.
    rewrite (lookup0_cur _ _ _ Hi), Hk, Hh. reflexivity.
Qed.

(* ---------- ids fit the 16 bits of the cookie field for 65535 days ---------- *)
Lemma ids_fit_16 : forall t0 ops s bs, mono t0 ops -> history t0 ops = Some (s, bs) ->
  last_time t0 ops - t0 < 65535 * (key_renewal + 1) ->
  forall k, In k (glog s) -> 1 <= k_id k < 65536.
Proof.
  intros t0 ops s bs Hm Hh Hspan k Hin.
  destruct (history_inv _ _ _ _ Hm Hh) as [Hi _].
  destruct (rotation_rate _ _ _ _ Hm Hh) as [_ Hr].
  destruct (inv_key_facts _ _ _ _ Hi Hin) as [_ [Hid _]].
  assert (cur s - 1 < 65535) by (pose proof renewal_pos; nia). lia.
Qed.

(* ---------- the consequence clause on listener histories of the model ---------- *)
Lemma lsn_run_inv : forall steps t0 T s s' lo, Inv t0 T s -> lmono T steps -> lsn_run s steps = Some (s', lo) ->
  Inv t0 (llast T steps) s' /\ incl (glog s) (glog s') /\ T <= llast T steps.
Proof.
  intros steps t0 T s s' lo H Hm Hr.
  destruct (lsn_sim _ _ _ _ _ _ H Hm Hr) as [ops [bs [Hmo [Hrun [_ Hlast]]]]].
  destruct (run_inv _ _ _ _ _ _ H Hmo Hrun) as [Hi [_ [_ Hl]]].
  rewrite Hlast in Hi. split; [assumption|]. split; [assumption|].
  rewrite <- Hlast. apply mono_last. assumption.
Qed.

Lemma lsn_handout : forall t0 T s st s2 t req ids K, Inv t0 T s -> T <= lstep_time st ->
  lsn_step s st = Some (s2, LObs t req true ids) -> In K ids ->
  exists k, k_id k = K /\ In k (glog s2) /\ Inv t0 t s2 /\ k_nb k <= t /\ t - k_nb k <= key_renewal /\
            key_wf k /\ t = lstep_time st.
Proof.
  intros t0 T s st s2 t req ids K H Ht Hs Hin.
  assert (Hgen : forall tt k sx, T <= tt -> current s tt tt = Some (k, sx) ->
                 In k (glog sx) /\ Inv t0 tt sx /\ k_nb k <= tt /\ tt - k_nb k <= key_renewal /\ key_wf k).
  { intros tt k sx Htt Hc. destruct (current_log _ _ _ _ _ _ H Htt Hc) as [Hi [Hink [Hwf _]]].
    destruct (current_step _ _ _ _ _ _ _ H Htt (Z.le_refl tt) Hc) as [_ [_ [Hv [Ha _]]]].
    assert (Hct : cur_time s tt tt = tt) by (unfold cur_time; destruct (need_renew s tt); reflexivity).
    rewrite Hct in Hv, Ha. split; [assumption|]. split; [assumption|]. split; [lia|]. split; [lia | assumption]. }
  destruct st as [tt | tt kid]; simpl in Ht, Hs.
  - destruct (current s tt tt) as [[k sx]|] eqn:Ec; [|discriminate]. inversion Hs. subst. clear Hs.
    destruct Hin as [Hin | []]. subst K.
    destruct (Hgen _ _ _ Ht Ec) as [H1 [H2 [H3 [H4 H5]]]]. exists k.
    split; [reflexivity|]. split; [assumption|]. split; [assumption|]. split; [assumption|]. split; [assumption|]. split; [assumption | reflexivity].
  - destruct (get s kid tt) as [k0|]; [|discriminate].
    destruct (current s tt tt) as [[k sx]|] eqn:Ec; [|discriminate]. inversion Hs. subst. clear Hs.
    destruct Hin as [Hin | []]. subst K.
    destruct (Hgen _ _ _ Ht Ec) as [H1 [H2 [H3 [H4 H5]]]]. exists k.
    split; [reflexivity|]. split; [assumption|]. split; [assumption|]. split; [assumption|]. split; [assumption|]. split; [assumption | reflexivity].
Qed.

Lemma lsn_cookie_lifetime : forall t0 steps1 s1 lo1 st s2 t req ids K steps2 s3 lo2 t',
  lmono t0 steps1 -> lsn_history t0 steps1 = Some (s1, lo1) -> llast t0 steps1 <= lstep_time st ->
  lsn_step s1 st = Some (s2, LObs t req true ids) -> In K ids ->
  lmono t steps2 -> lsn_run s2 steps2 = Some (s3, lo2) -> llast t steps2 <= t' ->
  exists g, g <= t <= g + key_renewal /\
    (t' <= t + two_days ->
       forall s' tt rq ans ids', lsn_step s3 (LReq t' K) = Some (s', LObs tt rq ans ids') -> ans = true) /\
    (g + key_validity < t' -> lsn_step s3 (LReq t' K) = Some (s3, LObs t' (Some K) false [])).
Proof.
  intros t0 steps1 s1 lo1 st s2 t req ids K steps2 s3 lo2 t' Hm1 Hh Hl1 Hs HK Hm2 Hr Hl2.
  unfold lsn_history in Hh. destruct (new_provider t0) as [s0|] eqn:En; [|discriminate].
  destruct (lsn_run_inv _ _ _ _ _ _ (new_inv _ _ En) Hm1 Hh) as [Hi1 _].
  destruct (lsn_handout _ _ _ _ _ _ _ _ _ Hi1 Hl1 Hs HK) as [k [Hid [Hin [Hi2 [Hnb [Hage [Hwf _]]]]]]].
  destruct (lsn_run_inv _ _ _ _ _ _ Hi2 Hm2 Hr) as [Hi3 [Hincl Hle]].
  assert (Hin3 : In k (glog s3)) by (apply Hincl; assumption).
  unfold key_wf in Hwf. pose proof validity_val as Hv. pose proof two_days_val as H2d.
  exists (k_nb k). split; [lia|]. subst K. split.
  - intros Hle' s' tt rq ans ids' Hstep. simpl in Hstep.
    rewrite (get_live _ _ _ t' k Hi3 Hl2 Hin3) in Hstep; [|lia].
    destruct (current s3 t' t') as [[kk sx]|]; [|discriminate]. inversion Hstep. reflexivity.
  - intros Hgt. simpl. rewrite (get_dead _ _ _ t' k Hi3 Hin3); [reflexivity | lia].
Qed.

(* ---------- soundness of the listener oracle: what C12_lsn_ok = true says about the
   observations themselves ---------- *)
Fixpoint tab_after (tab : list (Z * Z)) (l : list lobs) : list (Z * Z) :=
  match l with
  | [] => tab
  | LObs t _ _ ids :: r => tab_after (fold_left (tab_add t) ids tab) r
  end.

Lemma translate_app : forall l1 l2 tab,
  lsn_translate tab (l1 ++ l2) = lsn_translate tab l1 ++ lsn_translate (tab_after tab l1) l2.
Proof.
  induction l1 as [|[t req ans ids] r IH]; intros l2 tab; [reflexivity|].
  simpl. rewrite IH, <- !app_assoc. reflexivity.
Qed.

Lemma tab_add_stable : forall t tab id K g, tab_find K tab = Some g -> tab_find K (tab_add t tab id) = Some g.
Proof.
  intros t tab id K g H. unfold tab_add. destruct (tab_find id tab) eqn:E; [assumption|].
  simpl. destruct (id =? K) eqn:E2; [apply Z.eqb_eq in E2; subst; congruence | assumption].
Qed.

Lemma tab_fold_stable : forall l t tab K g, tab_find K tab = Some g ->
  tab_find K (fold_left (tab_add t) l tab) = Some g.
Proof.
  induction l as [|id r IH]; intros t tab K g H; [assumption|].
  simpl. apply IH. apply tab_add_stable. assumption.
Qed.

Lemma tab_fold_found : forall l t tab K, In K l -> exists g, tab_find K (fold_left (tab_add t) l tab) = Some g.
Proof.
  induction l as [|id r IH]; intros t tab K Hin; [contradiction|].
  simpl. destruct Hin as [Heq | Hin]; [|apply IH; assumption]. subst id.
  assert (H : exists g, tab_find K (tab_add t tab K) = Some g).
  { unfold tab_add. destruct (tab_find K tab) eqn:E; [exists z; assumption|].
    exists t. simpl. rewrite Z.eqb_refl. reflexivity. }
  destruct H as [g Hg]. exists g. apply tab_fold_stable. assumption.
Qed.

Lemma translate_in_get : forall l tab t' K ans ids' g, In (LObs t' (Some K) ans ids') l ->
  tab_find K tab = Some g ->
  In (BGet 0 t' K (if ans then Some (tab_key K g) else None)) (lsn_translate tab l).
Proof.
  induction l as [|[t req a ids] r IH]; intros tab t' K ans ids' g Hin Hf; [contradiction|].
  simpl. destruct Hin as [Heq | Hin].
  - inversion Heq. subst. simpl. left. rewrite Hf. reflexivity.
  - apply in_or_app. right. apply in_or_app. right.
    apply (IH _ _ _ _ ids'); [assumption | apply tab_fold_stable; assumption].
Qed.

Lemma C12_ok_later : forall l1 b l2, C12_ok (l1 ++ b :: l2) = true ->
  obs_ok b = true /\ forall b', In b' l2 -> pair_ok b b' = true.
Proof.
  induction l1 as [|x r IH]; intros b l2 H.
  - simpl in H. rewrite !andb_true_iff in H. destruct H as [[H1 H2] _]. split; [assumption|].
    rewrite forallb_forall in H2. assumption.
  - simpl in H. rewrite !andb_true_iff in H. destruct H as [_ H]. apply IH. assumption.
Qed.

(* If the oracle accepts a history in which a cookie under key id K was handed out at t,
   then there is a generation time g (the first sighting of K) with g <= t <= g + 24 h,
   every later request under K up to t + 48 h was answered and every request under K later
   than g + 72 h was refused.  (First sighting is the latest instant at which K can have
   been generated, so judging by it never blames a provider whose key is in fact older;
   with lazy rotation - keys are made inside the call that first hands them out - it is
   the generation time itself, which is C12_listeners_meet_oracle.) *)
Lemma lsn_oracle_sound : forall t0 l1 t req ids l2 K,
  C12_lsn_ok t0 (l1 ++ LObs t req true ids :: l2) = true -> In K ids ->
  exists g, g <= t <= g + key_renewal /\
    forall t' ans ids', In (LObs t' (Some K) ans ids') l2 ->
      (t' <= t + two_days -> ans = true) /\ (g + key_validity < t' -> ans = false).
Proof.
  intros t0 l1 t req ids l2 K H HK. unfold C12_lsn_ok in H.
  rewrite translate_app in H. cbn [lsn_translate] in H.
  set (tab := tab_after [(1, t0)] l1) in *.
  set (tab' := fold_left (tab_add t) ids tab) in *.
  destruct (tab_fold_found ids t tab K HK) as [g Hg]. fold tab' in Hg.
  set (b := BCur 0 t (tab_key K g)).
  assert (Hb : In b (map (fun id => BCur 0 t (tab_key id (match tab_find id tab' with Some g => g | None => t end))) ids)).
  { apply in_map_iff. exists K. split; [rewrite Hg; reflexivity | assumption]. }
  destruct (in_split _ _ Hb) as [m1 [m2 Hm]]. rewrite Hm in H.
  rewrite <- !app_assoc in H. rewrite !app_assoc in H.
  rewrite <- (app_assoc _ (b :: m2) _) in H. simpl in H.
  destruct (C12_ok_later _ _ _ H) as [Hob Hlater].
  simpl in Hob. rewrite !andb_true_iff, !Z.leb_le in Hob. destruct Hob as [[[Ho1 Ho2] Ho3] _].
  exists g. split; [lia|].
  intros t' ans ids' Hin.
  assert (Hbg : In (BGet 0 t' K (if ans then Some (tab_key K g) else None)) (m2 ++ lsn_translate tab' l2)).
  { apply in_or_app. right. apply (translate_in_get _ _ _ _ _ ids'); assumption. }
  specialize (Hlater _ Hbg). unfold pair_ok in Hlater. rewrite !andb_true_iff in Hlater.
  destruct Hlater as [[_ Hl] _]. simpl in Hl. rewrite Z.eqb_refl in Hl.
  replace ((t <? t') || true) with true in Hl by (rewrite orb_true_r; reflexivity). simpl in Hl.
  apply andb_true_iff in Hl. destruct Hl as [Hl1 Hl2]. split.
  - intros Hle. apply Z.leb_le in Hle. rewrite Hle in Hl1. destruct ans; [reflexivity | discriminate].
  - intros Hgt. apply Z.ltb_lt in Hgt. rewrite Hgt in Hl2. destruct ans; [discriminate | reflexivity].
Qed.
