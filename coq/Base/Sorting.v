(* Insertion sort by an integer key, with the facts the models need:
   the result is a sorted permutation, sorted permutations of integers are
   unique, and sorting commutes with projecting the key. *)
From Coq Require Import ZArith List Lia Sorting.Permutation Sorting.Sorted.
Import ListNotations.
Open Scope Z_scope.

Section KeySort.
  Context {A : Type} (key : A -> Z).

  Fixpoint insert (x : A) (l : list A) : list A :=
    match l with
    | [] => [x]
    | y :: r => if key x <=? key y then x :: l else y :: insert x r
    end.

  Fixpoint isort (l : list A) : list A :=
    match l with
    | [] => []
    | x :: r => insert x (isort r)
    end.

  Definition sorted_by (l : list A) : Prop := StronglySorted (fun a b => key a <= key b) l.

  Lemma insert_perm x l : Permutation (x :: l) (insert x l).
  Proof.
    induction l as [|y r IH]; cbn [insert]; [apply Permutation_refl|].
    destruct (key x <=? key y); [apply Permutation_refl|].
    eapply Permutation_trans; [apply perm_swap|]. apply perm_skip. exact IH.
  Qed.

  Lemma isort_perm l : Permutation l (isort l).
  Proof.
    induction l as [|x r IH]; cbn [isort]; [constructor|].
    eapply Permutation_trans; [apply perm_skip; exact IH|]. apply insert_perm.
  Qed.

  Lemma isort_length l : length (isort l) = length l.
  Proof. symmetry. apply Permutation_length. apply isort_perm. Qed.

  Lemma insert_sorted x l : sorted_by l -> sorted_by (insert x l).
  Proof.
    unfold sorted_by. induction 1 as [|y r Hs IH Hall]; cbn [insert].
    - constructor; constructor.
    - destruct (key x <=? key y) eqn:E.
      + constructor; [constructor; assumption|]. constructor; [lia|].
        rewrite Forall_forall in *. intros z Hz. specialize (Hall z Hz). lia.
      + constructor; [exact IH|]. rewrite Forall_forall in *. intros z Hz.
        apply (Permutation_in _ (Permutation_sym (insert_perm x r))) in Hz.
        destruct Hz as [<-|Hz]; [lia|apply Hall; exact Hz].
  Qed.

  Lemma isort_sorted l : sorted_by (isort l).
  Proof. induction l as [|x r IH]; cbn [isort]; [constructor|apply insert_sorted; exact IH]. Qed.
End KeySort.

Definition zsort : list Z -> list Z := isort (fun x => x).
Definition zsorted (l : list Z) : Prop := sorted_by (fun x => x) l.

Lemma insert_map {A} (key : A -> Z) x l :
  map key (insert key x l) = insert (fun z => z) (key x) (map key l).
Proof.
  induction l as [|y r IH]; cbn [insert map]; [reflexivity|].
  destruct (key x <=? key y); cbn [map]; [reflexivity|]. rewrite IH. reflexivity.
Qed.

Lemma isort_map {A} (key : A -> Z) l : map key (isort key l) = zsort (map key l).
Proof.
  unfold zsort. induction l as [|x r IH]; cbn [isort map]; [reflexivity|].
  rewrite insert_map, IH. reflexivity.
Qed.

Lemma sorted_by_map {A} (key : A -> Z) l : sorted_by key l -> zsorted (map key l).
Proof.
  unfold zsorted, sorted_by. induction 1 as [|x r Hs IH Hall]; cbn [map]; constructor; [exact IH|].
  rewrite Forall_forall in *. intros z Hz. apply in_map_iff in Hz. destruct Hz as [y [<- Hy]]. apply Hall. exact Hy.
Qed.

(* sorted permutations of integer lists are unique *)
Lemma zsorted_perm_unique l l' : zsorted l -> zsorted l' -> Permutation l l' -> l = l'.
Proof.
  unfold zsorted, sorted_by. intros Hs. revert l'. induction Hs as [|x r Hs IH Hall]; intros l' Hs' Hp.
  - apply Permutation_nil in Hp. subst. reflexivity.
  - destruct l' as [|y r']; [apply Permutation_sym, Permutation_nil in Hp; discriminate|].
    inversion Hs' as [|? ? Hs'' Hall']; subst.
    rewrite Forall_forall in Hall, Hall'.
    assert (Hxy : x = y).
    { assert (Hx : In x (y :: r')) by (apply (Permutation_in _ Hp); left; reflexivity).
      assert (Hy : In y (x :: r)) by (apply (Permutation_in _ (Permutation_sym Hp)); left; reflexivity).
      destruct Hx as [->|Hx]; [reflexivity|]. destruct Hy as [->|Hy]; [reflexivity|].
      specialize (Hall y Hy). specialize (Hall' x Hx). lia. }
    subst y. f_equal. apply IH; [assumption|]. eapply Permutation_cons_inv. exact Hp.
Qed.

Lemma zsort_perm_invariant l l' : Permutation l l' -> zsort l = zsort l'.
Proof.
  intros Hp. apply zsorted_perm_unique; try apply isort_sorted.
  eapply Permutation_trans; [apply Permutation_sym, isort_perm|].
  eapply Permutation_trans; [exact Hp|apply isort_perm].
Qed.

Lemma zsorted_is_zsort l : zsorted l -> zsort l = l.
Proof.
  intros Hs. apply zsorted_perm_unique; [apply isort_sorted|exact Hs|apply Permutation_sym, isort_perm].
Qed.

Lemma sorted_nth_le (l : list Z) d i j :
  zsorted l -> (i <= j < length l)%nat -> nth i l d <= nth j l d.
Proof.
  unfold zsorted, sorted_by. intros Hs. revert i j.
  induction Hs as [|x r Hs IH Hall]; cbn [length nth]; intros i j Hij; [lia|].
  destruct i, j; try lia.
  - rewrite Forall_forall in Hall. apply Hall. apply nth_In. lia.
  - apply IH. lia.
Qed.

(* executable check that a list is sorted *)
Fixpoint zsortedb (l : list Z) : bool :=
  match l with
  | [] => true
  | x :: r => match r with [] => true | y :: _ => (x <=? y) && zsortedb r end
  end.
