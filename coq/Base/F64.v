(* IEEE-754 binary64 as Go uses it on amd64 (round to nearest even, no FMA
   contraction), through Flocq.  Operations are the BinarySingleNaN ones; bit
   patterns cross the harness boundary as uint64 with NaN canonicalised. *)
From Coq Require Import ZArith.
From Flocq Require Import Core.Core IEEE754.BinarySingleNaN IEEE754.Binary IEEE754.Bits.
From ST Require Import Base.Ints.
Open Scope Z_scope.

Definition prec : Z := 53.
Definition emax : Z := 1024.
Lemma Hprec : Prec_gt_0 prec. Proof. reflexivity. Qed.
Lemma Hmax : Prec_lt_emax prec emax. Proof. reflexivity. Qed.
#[global] Existing Instance Hprec.
#[global] Existing Instance Hmax.

Definition f64 : Type := BinarySingleNaN.binary_float prec emax.

Definition f_of_bits (z : Z) : f64 := Binary.B2BSN prec emax (b64_of_bits z).
Definition f_to_bits (x : f64) : Z := bits_of_b64 (Binary.BSN2B prec emax default_nan_pl64 x).

Definition fadd (x y : f64) : f64 := BinarySingleNaN.Bplus mode_NE x y.
Definition fsub (x y : f64) : f64 := BinarySingleNaN.Bminus mode_NE x y.
Definition fmul (x y : f64) : f64 := BinarySingleNaN.Bmult mode_NE x y.
Definition fdiv (x y : f64) : f64 := BinarySingleNaN.Bdiv mode_NE x y.
Definition fsqrt (x : f64) : f64 := BinarySingleNaN.Bsqrt mode_NE x.
Definition fneg (x : f64) : f64 := BinarySingleNaN.Bopp x.
Definition fabs (x : f64) : f64 := BinarySingleNaN.Babs x.
Definition fceil (x : f64) : f64 := BinarySingleNaN.Bnearbyint mode_UP x.
Definition ffloor (x : f64) : f64 := BinarySingleNaN.Bnearbyint mode_DN x.

Definition fcmp (x y : f64) : option comparison := BinarySingleNaN.Bcompare x y.
Definition flt (x y : f64) : bool := match fcmp x y with Some Lt => true | _ => false end.
Definition fle (x y : f64) : bool := match fcmp x y with Some Lt | Some Eq => true | _ => false end.
Definition fgt (x y : f64) : bool := match fcmp x y with Some Gt => true | _ => false end.
Definition fge (x y : f64) : bool := match fcmp x y with Some Gt | Some Eq => true | _ => false end.
Definition feq (x y : f64) : bool := match fcmp x y with Some Eq => true | _ => false end.
Definition fis_nan (x : f64) : bool := BinarySingleNaN.is_nan x.
Definition fis_finite (x : f64) : bool := BinarySingleNaN.is_finite x.
Definition fis_inf (x : f64) : bool := match x with BinarySingleNaN.B754_infinity _ => true | _ => false end.

(* float64(int64) *)
Definition f_of_int (z : Z) : f64 := BinarySingleNaN.binary_normalize prec emax Hprec Hmax mode_NE z 0 false.

(* int64(float64) on amd64 (CVTTSD2SI): truncation; the "integer indefinite"
   value -2^63 for NaN, infinities and out-of-range values *)
Definition f_to_i64 (x : f64) : Z :=
  if fis_finite x then
    let t := BinarySingleNaN.Btrunc x in
    if in_i64b t then t else min_i64
  else min_i64.

Definition fzero : f64 := BinarySingleNaN.B754_zero false.
Definition fmax (x y : f64) : f64 := (* math.Max for non-NaN, non-zero-sign-sensitive uses *)
  if fis_nan x then x else if fis_nan y then y else if flt x y then y else x.
Definition fmin (x y : f64) : f64 :=
  if fis_nan x then x else if fis_nan y then y else if flt y x then y else x.

(* time.Duration.Seconds(): float64(d / 1e9) + float64(d % 1e9) / 1e9 *)
Definition dur_seconds (d : Z) : f64 :=
  fadd (f_of_int (Z.quot d 1000000000)) (fdiv (f_of_int (Z.rem d 1000000000)) (f_of_int 1000000000)).

(* timemath.Duration(seconds) = time.Duration(seconds * float64(time.Second)) *)
Definition dur_of_seconds (s : f64) : Z := f_to_i64 (fmul s (f_of_int 1000000000)).
