(* Universal value type used on the boundary between the Go harness and
   the extracted model runner. *)
From Coq Require Import ZArith List String.
Import ListNotations.
Open Scope Z_scope.

Inductive value : Type :=
| VZ (z : Z)
| VB (b : list Z)          (* byte string *)
| VL (l : list value).

Fixpoint list_eqb {A} (eqb : A -> A -> bool) (a b : list A) : bool :=
  match a, b with
  | [], [] => true
  | x :: a', y :: b' => andb (eqb x y) (list_eqb eqb a' b')
  | _, _ => false
  end.

Fixpoint value_eqb (a b : value) {struct a} : bool :=
  match a, b with
  | VZ x, VZ y => Z.eqb x y
  | VB x, VB y => list_eqb Z.eqb x y
  | VL x, VL y =>
      (fix go (x y : list value) {struct x} : bool :=
         match x, y with
         | [], [] => true
         | v :: x', w :: y' => andb (value_eqb v w) (go x' y')
         | _, _ => false
         end) x y
  | _, _ => false
  end.

Definition values_eqb (a b : list value) : bool := value_eqb (VL a) (VL b).

Definition vbool (b : bool) : value := VZ (if b then 1 else 0).

Definition getZ (v : value) : option Z := match v with VZ z => Some z | _ => None end.
Definition getB (v : value) : option (list Z) := match v with VB b => Some b | _ => None end.
Definition getL (v : value) : option (list value) := match v with VL l => Some l | _ => None end.

Fixpoint getZs (l : list value) : option (list Z) :=
  match l with
  | [] => Some []
  | VZ z :: r => match getZs r with Some zs => Some (z :: zs) | None => None end
  | _ => None
  end.

(* the result of running one case: the model's expected output (None when
   the kind is relational or unknown), whether the observed output is accepted
   by the model, and whether it is accepted by the property oracle *)
Record verdict := { v_known : bool; v_agree : bool; v_oracle : bool; v_expected : list value }.

Definition functional (expected observed : list value) (oracle : bool) : verdict :=
  {| v_known := true; v_agree := values_eqb expected observed; v_oracle := oracle; v_expected := expected |}.
Definition relational (agree oracle : bool) : verdict :=
  {| v_known := true; v_agree := agree; v_oracle := oracle; v_expected := [] |}.
Definition unknown_case : verdict :=
  {| v_known := false; v_agree := false; v_oracle := true; v_expected := [] |}.
