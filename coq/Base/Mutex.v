(* Code whose every access to shared state lies inside critical sections of ONE
   mutex is serialisable: under any schedule of any number of threads the
   shared state is the result of running the critical sections one after the
   other, atomically, in lock-acquisition order, and that order interleaves
   the threads' own program orders. *)
From Coq Require Import List Arith Lia.
Import ListNotations.

Section Mutex.
Variable S : Type.                       (* the shared state *)
Definition microop := S -> S.            (* one read/write of shared state, done while holding the lock *)
Definition section := list microop.      (* one critical section: Lock(); ops...; Unlock() *)

Definition atomic (sec : section) (s : S) : S := fold_left (fun s f => f s) sec s.
Definition sequential (secs : list section) (s : S) : S := fold_left (fun s sec => atomic sec s) secs s.

Record cfg := {
  st : S;
  holder : option (nat * section);       (* who holds the lock, and what is left of its section *)
  work : list (list section);            (* per thread: critical sections still to be entered *)
  order : list (nat * section);          (* sections in lock-acquisition order, newest first *)
}.

Fixpoint set_nth' {A} (i : nat) (x : A) (l : list A) : list A :=
  match l, i with
  | [], _ => []
  | _ :: r, O => x :: r
  | y :: r, Datatypes.S j => y :: set_nth' j x r
  end.

(* thread t is scheduled: it acquires the free lock, or performs its next
   micro-operation, or releases; a thread that wants the lock while another
   holds it is blocked (nothing happens) *)
Definition step (t : nat) (c : cfg) : cfg :=
  match holder c with
  | None =>
      match nth t (work c) [] with
      | sec :: rest => {| st := st c; holder := Some (t, sec); work := set_nth' t rest (work c); order := (t, sec) :: order c |}
      | [] => c
      end
  | Some (t', ops) =>
      if Nat.eqb t t' then
        match ops with
        | f :: r => {| st := f (st c); holder := Some (t', r); work := work c; order := order c |}
        | [] => {| st := st c; holder := None; work := work c; order := order c |}
        end
      else c
  end.

Definition run (sched : list nat) (c : cfg) : cfg := fold_left (fun c t => step t c) sched c.

Definition init (s0 : S) (threads : list (list section)) : cfg :=
  {| st := s0; holder := None; work := threads; order := [] |}.

Definition pending (c : cfg) : section := match holder c with Some (_, ops) => ops | None => [] end.

(* finishing the section in progress gives exactly the sequential execution in lock order *)
Definition Ser (s0 : S) (c : cfg) : Prop :=
  atomic (pending c) (st c) = sequential (map snd (rev (order c))) s0.

Lemma sequential_app a b s : sequential (a ++ b) s = sequential b (sequential a s).
Proof. unfold sequential. apply fold_left_app. Qed.

Lemma step_ser s0 t c : Ser s0 c -> (holder c = None -> pending c = []) -> Ser s0 (step t c).
Proof.
  unfold Ser, step, pending. intros H _. destruct (holder c) as [[t' ops]|] eqn:Eh.
  - destruct (Nat.eqb t t'); [|rewrite Eh; exact H].
    destruct ops as [|f r]; cbn [holder st order atomic fold_left] in *; exact H.
  - destruct (nth t (work c) []) as [|sec rest]; [rewrite Eh; exact H|].
    cbn [holder st order rev map]. rewrite map_app, sequential_app. cbn [map sequential fold_left].
    cbn [atomic fold_left] in H. rewrite <- H. reflexivity.
Qed.

Theorem mutex_serializable s0 threads sched :
  Ser s0 (run sched (init s0 threads)).
Proof.
  unfold run. assert (H0 : Ser s0 (init s0 threads)) by (unfold Ser, init, pending; reflexivity).
  revert H0. generalize (init s0 threads). induction sched as [|t r IH]; intros c Hc; cbn [fold_left]; [exact Hc|].
  apply IH. apply step_ser; [exact Hc|]. unfold pending. intros ->. reflexivity.
Qed.

(* when no critical section is in progress the shared state IS the sequential result *)
Corollary mutex_quiescent s0 threads sched :
  holder (run sched (init s0 threads)) = None ->
  st (run sched (init s0 threads)) = sequential (map snd (rev (order (run sched (init s0 threads))))) s0.
Proof.
  intros Hh. pose proof (mutex_serializable s0 threads sched) as H. unfold Ser, pending in H. rewrite Hh in H. exact H.
Qed.

(* the lock order respects every thread's program order: the sections thread t
   has entered so far, followed by those it still has to enter, are its program *)
Definition entered (t : nat) (c : cfg) : list section :=
  map snd (filter (fun p => Nat.eqb (fst p) t) (rev (order c))).

Lemma nth_set_nth'_same {A} i (x : A) l d : i < length l -> nth i (set_nth' i x l) d = x.
Proof. revert i; induction l as [|y r IH]; intros [|i] H; cbn in *; try lia; auto. apply IH. lia. Qed.
Lemma nth_set_nth'_other {A} i j (x : A) l d : i <> j -> nth j (set_nth' i x l) d = nth j l d.
Proof. revert i j; induction l as [|y r IH]; intros [|i] [|j] H; cbn; try reflexivity; try lia. apply IH. lia. Qed.

Lemma step_program threads t c :
  (forall u, entered u c ++ nth u (work c) [] = nth u threads []) ->
  (forall u, entered u (step t c) ++ nth u (work (step t c)) [] = nth u threads []).
Proof.
  intros H u. unfold step. destruct (holder c) as [[t' ops]|].
  - destruct (Nat.eqb t t'); [|apply H]. destruct ops; apply H.
  - destruct (nth t (work c) []) as [|sec rest] eqn:En; [apply H|].
    unfold entered. cbn [order work rev]. rewrite filter_app, map_app. cbn [filter fst].
    destruct (Nat.eq_dec t u) as [->|Hne].
    + rewrite Nat.eqb_refl. cbn [map snd]. rewrite <- app_assoc. cbn [app].
      assert (Hlt : u < length (work c)).
      { destruct (Nat.lt_ge_cases u (length (work c))) as [Hl|Hl]; [exact Hl|]. rewrite nth_overflow in En by exact Hl. discriminate. }
      rewrite nth_set_nth'_same by exact Hlt. specialize (H u). unfold entered in H. rewrite En in H. exact H.
    + destruct (Nat.eqb t u) eqn:E; [apply Nat.eqb_eq in E; contradiction|]. cbn [map]. rewrite app_nil_r.
      rewrite nth_set_nth'_other by exact Hne. apply H.
Qed.

Theorem mutex_program_order s0 threads sched u :
  let c := run sched (init s0 threads) in entered u c ++ nth u (work c) [] = nth u threads [].
Proof.
  cbv zeta. unfold run.
  assert (H0 : forall u, entered u (init s0 threads) ++ nth u (work (init s0 threads)) [] = nth u threads []) by (intros v; reflexivity).
  revert u. revert H0. generalize (init s0 threads). induction sched as [|t r IH]; intros c Hc u; cbn [fold_left]; [apply Hc|].
  apply IH. apply step_program. exact Hc.
Qed.
End Mutex.
