(* Fixed-width integer arithmetic of Go, written over unbounded Z. *)
From Coq Require Export ZArith List Bool Lia.
Export ListNotations.
Open Scope Z_scope.

Definition u8  (x : Z) : Z := x mod 256.
Definition u16 (x : Z) : Z := x mod 65536.
Definition u32 (x : Z) : Z := x mod 4294967296.
Definition u64 (x : Z) : Z := x mod 18446744073709551616.

Definition min_i64 : Z := -9223372036854775808.
Definition max_i64 : Z := 9223372036854775807.
Definition two63 : Z := 9223372036854775808.
Definition two64 : Z := 18446744073709551616.

(* two's complement re-centering: the int64 that Go computes for the
   mathematical result x *)
Definition i64 (x : Z) : Z := (x + two63) mod two64 - two63.
Definition i32 (x : Z) : Z := (x + 2147483648) mod 4294967296 - 2147483648.
Definition i16 (x : Z) : Z := (x + 32768) mod 65536 - 32768.
Definition i8  (x : Z) : Z := (x + 128) mod 256 - 128.

Definition in_i64 (x : Z) : Prop := min_i64 <= x <= max_i64.
Definition in_i64b (x : Z) : bool := (min_i64 <=? x) && (x <=? max_i64).

(* Go signed division and remainder truncate towards zero; the only
   overflowing case MinInt64 / -1 wraps, which i64 takes care of. *)
Definition go_div (x y : Z) : Z := i64 (Z.quot x y).
Definition go_rem (x y : Z) : Z := Z.rem x y.

(* Go's time.Time.Sub saturates *)
Definition sat64 (x : Z) : Z :=
  if x <? min_i64 then min_i64 else if max_i64 <? x then max_i64 else x.

Definition zabs (x : Z) : Z := Z.abs x.
