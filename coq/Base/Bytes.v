(* Generic big-endian byte library (DESIGN appendix B.3) plus fixed-layout
   field lists, slices, buffer writes and the outcome type used by the C14
   codec models.  Bytes are list Z with every element in [0,256). *)
From Coq Require Import ZArith List Lia Bool.
Import ListNotations.
Open Scope Z_scope.
Ltac Zify.zify_post_hook ::= Z.div_mod_to_equations.

(* big-endian encoding of the low n bytes of x *)
Fixpoint be_enc (n : nat) (x : Z) : list Z :=
  match n with
  | O => []
  | S k => (x / 256 ^ Z.of_nat k) mod 256 :: be_enc k x
  end.
Fixpoint be_dec (l : list Z) : Z :=
  match l with
  | [] => 0
  | b :: l' => b * 256 ^ Z.of_nat (length l') + be_dec l'
  end.
Definition bytes_ok (l : list Z) := Forall (fun b => 0 <= b < 256) l.

Lemma be_enc_length n x : length (be_enc n x) = n.
Proof. induction n; simpl; auto. Qed.

Lemma be_enc_ok n x : bytes_ok (be_enc n x).
Proof. induction n; simpl; constructor; auto. apply Z.mod_pos_bound. lia. Qed.

Lemma be_dec_enc_mod n x : be_dec (be_enc n x) = x mod 256 ^ Z.of_nat n.
Proof.
  induction n as [|k IH]; simpl be_enc; simpl be_dec.
  - simpl. rewrite Z.mod_1_r. reflexivity.
  - rewrite be_enc_length, IH.
    replace (Z.of_nat (S k)) with (Z.of_nat k + 1) by lia.
    rewrite Z.pow_add_r by lia. change (256 ^ 1) with 256.
    assert (Hp : 0 < 256 ^ Z.of_nat k) by (apply Z.pow_pos_nonneg; lia).
    set (p := 256 ^ Z.of_nat k) in *.
    rewrite Z.rem_mul_r by lia. ring.
Qed.

Lemma be_dec_enc n x : 0 <= x < 256 ^ Z.of_nat n -> be_dec (be_enc n x) = x.
Proof. intros H. rewrite be_dec_enc_mod. apply Z.mod_small. exact H. Qed.

Lemma be_dec_range l : bytes_ok l -> 0 <= be_dec l < 256 ^ Z.of_nat (length l).
Proof.
  induction 1 as [|b l Hb Hl IH]; simpl be_dec; simpl length.
  - simpl. lia.
  - replace (Z.of_nat (S (length l))) with (Z.of_nat (length l) + 1) by lia.
    rewrite Z.pow_add_r by lia. change (256 ^ 1) with 256.
    set (p := 256 ^ Z.of_nat (length l)) in *. nia.
Qed.

Lemma be_enc_high n x y : be_enc n (y * 256 ^ Z.of_nat n + x) = be_enc n x.
Proof.
  revert x y. induction n as [|k IHk]; intros x y; cbn [be_enc]; [reflexivity|].
  assert (Hk : 0 < 256 ^ Z.of_nat k) by (apply Z.pow_pos_nonneg; lia).
  replace (Z.of_nat (S k)) with (Z.of_nat k + 1) by lia.
  rewrite Z.pow_add_r by lia. change (256 ^ 1) with 256.
  f_equal.
  - replace (y * (256 ^ Z.of_nat k * 256) + x) with (x + (y * 256) * 256 ^ Z.of_nat k) by ring.
    rewrite Z.div_add by lia. rewrite Z.add_mod by lia. rewrite Z.mod_mul by lia.
    rewrite Z.add_0_r. apply Z.mod_mod. lia.
  - replace (y * (256 ^ Z.of_nat k * 256) + x) with ((y * 256) * 256 ^ Z.of_nat k + x) by ring.
    apply IHk.
Qed.

Lemma be_enc_dec l : bytes_ok l -> be_enc (length l) (be_dec l) = l.
Proof.
  induction 1 as [|b l Hb Hl IH]; cbn [length be_dec be_enc]; [reflexivity|].
  pose proof (be_dec_range l Hl) as Hr.
  assert (Hp : 0 < 256 ^ Z.of_nat (length l)) by (apply Z.pow_pos_nonneg; lia).
  f_equal.
  - rewrite Z.div_add_l by lia. rewrite Z.div_small by lia. rewrite Z.add_0_r. apply Z.mod_small; lia.
  - rewrite be_enc_high. exact IH.
Qed.

(* the Go idiom uint32(b0)<<24 | uint32(b1)<<16 | ... equals be_dec *)
Lemma land_shift_small a b k : 0 <= k -> 0 <= b < 2 ^ k -> Z.land (a * 2 ^ k) b = 0.
Proof.
  intros Hk Hb.
  destruct (Z.eq_dec b 0) as [->|Hnz]; [apply Z.land_0_r|].
  apply Z.bits_inj'. intros n Hn. rewrite Z.land_spec, Z.bits_0.
  destruct (Z.lt_ge_cases n k) as [H|H].
  - rewrite Z.mul_pow2_bits_low by lia. reflexivity.
  - rewrite (Z.bits_above_log2 b n); [apply Bool.andb_false_r|lia|].
    apply Z.lt_le_trans with k; [|exact H].
    apply Z.log2_lt_pow2; lia.
Qed.

Lemma lor_shift_add a b k : 0 <= k -> 0 <= b < 2 ^ k -> Z.lor (Z.shiftl a k) b = a * 2 ^ k + b.
Proof.
  intros Hk Hb.
  rewrite Z.shiftl_mul_pow2 by lia.
  pose proof (land_shift_small a b k Hk Hb) as H0.
  rewrite <- Z.lxor_lor by exact H0.
  symmetry. apply Z.add_nocarry_lxor. exact H0.
Qed.

(* ---------- congruence: be_enc n only looks at x mod 256^n ---------- *)

Lemma pow256_pos n : 0 < 256 ^ Z.of_nat n.
Proof. apply Z.pow_pos_nonneg; lia. Qed.

Lemma be_enc_mod n x : be_enc n (x mod 256 ^ Z.of_nat n) = be_enc n x.
Proof.
  pose proof (pow256_pos n) as Hp.
  rewrite (Z.div_mod x (256 ^ Z.of_nat n)) at 2 by lia.
  rewrite Z.mul_comm. symmetry. apply be_enc_high.
Qed.

Lemma be_enc_congr n x y :
  x mod 256 ^ Z.of_nat n = y mod 256 ^ Z.of_nat n -> be_enc n x = be_enc n y.
Proof. intros H. rewrite <- (be_enc_mod n x), <- (be_enc_mod n y), H. reflexivity. Qed.

Lemma be_enc_inj n x y :
  0 <= x < 256 ^ Z.of_nat n -> 0 <= y < 256 ^ Z.of_nat n -> be_enc n x = be_enc n y -> x = y.
Proof.
  intros Hx Hy H. rewrite <- (be_dec_enc n x Hx), <- (be_dec_enc n y Hy), H. reflexivity.
Qed.

(* ---------- bytes_ok plumbing ---------- *)

Definition byte_okb (b : Z) : bool := (0 <=? b) && (b <? 256).
Definition bytes_okb (l : list Z) : bool := forallb byte_okb l.

Lemma bytes_okb_ok l : bytes_okb l = true <-> bytes_ok l.
Proof.
  unfold bytes_okb, bytes_ok. rewrite forallb_forall, Forall_forall.
  split; intros H x Hx; specialize (H x Hx); unfold byte_okb in *; lia.
Qed.

Lemma bytes_ok_app a b : bytes_ok (a ++ b) <-> bytes_ok a /\ bytes_ok b.
Proof. unfold bytes_ok. apply Forall_app. Qed.

Lemma bytes_ok_firstn n l : bytes_ok l -> bytes_ok (firstn n l).
Proof. intros H. rewrite <- (firstn_skipn n l) in H. apply bytes_ok_app in H. tauto. Qed.

Lemma bytes_ok_skipn n l : bytes_ok l -> bytes_ok (skipn n l).
Proof. intros H. rewrite <- (firstn_skipn n l) in H. apply bytes_ok_app in H. tauto. Qed.

Lemma bytes_ok_repeat0 n : bytes_ok (repeat 0 n).
Proof. induction n; simpl; constructor; auto; lia. Qed.

(* ---------- fixed layouts: a list of field kinds, a list of field values ---------- *)

Inductive fkind := FU (n : nat) | FS (n : nat).   (* unsigned / two's complement, n bytes *)
Definition fwidth (k : fkind) : nat := match k with FU n | FS n => n end.

(* the signed value Go's intN(x) conversion gives for an n-byte pattern *)
Definition sgn (n : nat) (x : Z) : Z :=
  let m := 256 ^ Z.of_nat n in (x + m / 2) mod m - m / 2.

Definition frange (k : fkind) (v : Z) : Prop :=
  match k with
  | FU n => 0 <= v < 256 ^ Z.of_nat n
  | FS n => - (256 ^ Z.of_nat n / 2) <= v < 256 ^ Z.of_nat n / 2
  end.
Definition frangeb (k : fkind) (v : Z) : bool :=
  match k with
  | FU n => (0 <=? v) && (v <? 256 ^ Z.of_nat n)
  | FS n => (- (256 ^ Z.of_nat n / 2) <=? v) && (v <? 256 ^ Z.of_nat n / 2)
  end.

Definition fdec (k : fkind) (l : list Z) : Z :=
  match k with FU _ => be_dec l | FS n => sgn n (be_dec l) end.

Fixpoint total (ks : list fkind) : nat :=
  match ks with [] => O | k :: r => (fwidth k + total r)%nat end.

Fixpoint enc_fields (ks : list fkind) (vs : list Z) : list Z :=
  match ks, vs with
  | k :: ks', v :: vs' => be_enc (fwidth k) v ++ enc_fields ks' vs'
  | _, _ => []
  end.

Fixpoint dec_fields (ks : list fkind) (b : list Z) : list Z :=
  match ks with
  | [] => []
  | k :: ks' => fdec k (firstn (fwidth k) b) :: dec_fields ks' (skipn (fwidth k) b)
  end.

Fixpoint franges (ks : list fkind) (vs : list Z) : Prop :=
  match ks, vs with
  | [], [] => True
  | k :: ks', v :: vs' => frange k v /\ franges ks' vs'
  | _, _ => False
  end.
Fixpoint frangesb (ks : list fkind) (vs : list Z) : bool :=
  match ks, vs with
  | [], [] => true
  | k :: ks', v :: vs' => frangeb k v && frangesb ks' vs'
  | _, _ => false
  end.

Lemma frangeb_ok k v : frangeb k v = true <-> frange k v.
Proof. destruct k; simpl; lia. Qed.

Lemma frangesb_ok ks vs : frangesb ks vs = true <-> franges ks vs.
Proof.
  revert vs. induction ks as [|k ks IH]; intros [|v vs]; simpl; try (split; [discriminate|tauto]); try tauto.
  rewrite andb_true_iff, frangeb_ok, IH. tauto.
Qed.

Lemma sgn_range n x : (0 < n)%nat ->
  - (256 ^ Z.of_nat n / 2) <= sgn n x < 256 ^ Z.of_nat n / 2.
Proof.
  intros Hn. unfold sgn.
  assert (Hm : 256 ^ Z.of_nat n = 2 * (256 ^ Z.of_nat n / 2)).
  { destruct n as [|k]; [lia|]. replace (Z.of_nat (S k)) with (Z.of_nat k + 1) by lia.
    rewrite Z.pow_add_r by lia. change (256 ^ 1) with (2 * 128).
    pose proof (pow256_pos k). set (p := 256 ^ Z.of_nat k) in *. lia. }
  pose proof (pow256_pos n) as Hp. set (m := 256 ^ Z.of_nat n) in *.
  pose proof (Z.mod_pos_bound (x + m / 2) m Hp). lia.
Qed.

Lemma sgn_small n v : frange (FS n) v -> sgn n (v mod 256 ^ Z.of_nat n) = v.
Proof.
  simpl. intros H. unfold sgn. pose proof (pow256_pos n) as Hp.
  set (m := 256 ^ Z.of_nat n) in *.
  rewrite Zplus_mod_idemp_l. rewrite Z.mod_small; lia.
Qed.

Lemma sgn_mod n x : sgn n x mod 256 ^ Z.of_nat n = x mod 256 ^ Z.of_nat n.
Proof.
  unfold sgn. pose proof (pow256_pos n) as Hp. set (m := 256 ^ Z.of_nat n) in *.
  rewrite Zminus_mod_idemp_l. f_equal. lia.
Qed.

Lemma fdec_enc k v : frange k v -> fdec k (be_enc (fwidth k) v) = v.
Proof.
  destruct k as [n|n]; simpl fwidth; intros H.
  - simpl. apply be_dec_enc. exact H.
  - unfold fdec. rewrite be_dec_enc_mod. apply sgn_small. exact H.
Qed.

Lemma enc_fdec k l : bytes_ok l -> length l = fwidth k -> be_enc (fwidth k) (fdec k l) = l.
Proof.
  intros Hok Hl. destruct k as [n|n]; simpl in *.
  - rewrite <- Hl. apply be_enc_dec. exact Hok.
  - rewrite (be_enc_congr n _ (be_dec l)) by apply sgn_mod.
    rewrite <- Hl. apply be_enc_dec. exact Hok.
Qed.

Lemma enc_fields_length ks vs : length ks = length vs -> length (enc_fields ks vs) = total ks.
Proof.
  revert vs. induction ks as [|k ks IH]; intros [|v vs] H; simpl in *; try discriminate; auto.
  rewrite app_length, be_enc_length, IH by lia. reflexivity.
Qed.

Lemma franges_length ks vs : franges ks vs -> length ks = length vs.
Proof.
  revert vs. induction ks as [|k ks IH]; intros [|v vs]; simpl; try tauto.
  intros [_ H]. f_equal. auto.
Qed.

Lemma enc_fields_ok ks vs : bytes_ok (enc_fields ks vs).
Proof.
  revert vs. induction ks as [|k ks IH]; intros [|v vs]; simpl; try constructor.
  apply bytes_ok_app. split; [apply be_enc_ok | apply IH].
Qed.

Lemma firstn_app_exact {A} (a b : list A) n : length a = n -> firstn n (a ++ b) = a.
Proof.
  intros <-. rewrite firstn_app, Nat.sub_diag, firstn_all. simpl. apply app_nil_r.
Qed.

Lemma skipn_app_exact {A} (a b : list A) n : length a = n -> skipn n (a ++ b) = b.
Proof.
  intros <-. rewrite skipn_app, Nat.sub_diag, skipn_all. reflexivity.
Qed.

Lemma skipn_skipn {A} n m (l : list A) : skipn n (skipn m l) = skipn (m + n) l.
Proof.
  revert l. induction m as [|m IH]; intros l; simpl; [reflexivity|].
  destruct l as [|x l]; [destruct n; reflexivity|]. apply IH.
Qed.

Lemma firstn_plus {A} a c (l : list A) : firstn (a + c) l = firstn a l ++ firstn c (skipn a l).
Proof.
  revert l. induction a as [|a IH]; intros l; simpl; [reflexivity|].
  destruct l as [|x l]; [destruct c; reflexivity|]. simpl. f_equal. apply IH.
Qed.

(* decode after encode returns the field values, whatever follows *)
Theorem dec_enc_fields ks vs rest :
  franges ks vs -> dec_fields ks (enc_fields ks vs ++ rest) = vs.
Proof.
  revert vs. induction ks as [|k ks IH]; intros [|v vs]; simpl; try tauto.
  intros [Hv Hvs]. rewrite <- app_assoc.
  rewrite firstn_app_exact by apply be_enc_length.
  rewrite skipn_app_exact by apply be_enc_length.
  rewrite fdec_enc by exact Hv. f_equal. apply IH. exact Hvs.
Qed.

Lemma dec_fields_length ks b : length (dec_fields ks b) = length ks.
Proof. revert b. induction ks; intros b; simpl; auto. Qed.

Lemma dec_fields_ranges ks b :
  Forall (fun k => (0 < fwidth k)%nat) ks -> bytes_ok b -> (total ks <= length b)%nat ->
  franges ks (dec_fields ks b).
Proof.
  revert b. induction ks as [|k ks IH]; intros b Hw Hok Hlen; simpl in *; [exact I|].
  inversion Hw as [|? ? Hk Hks]; subst. split.
  - assert (Hl : length (firstn (fwidth k) b) = fwidth k) by (rewrite firstn_length; lia).
    pose proof (be_dec_range _ (bytes_ok_firstn (fwidth k) b Hok)) as Hr. rewrite Hl in Hr.
    destruct k as [n|n]; simpl in *; [exact Hr|]. apply sgn_range. exact Hk.
  - apply IH; auto using bytes_ok_skipn. rewrite skipn_length. lia.
Qed.

(* re-encoding the decoded fields reproduces the bytes the layout covers *)
Theorem enc_dec_fields ks b :
  bytes_ok b -> (total ks <= length b)%nat ->
  enc_fields ks (dec_fields ks b) = firstn (total ks) b.
Proof.
  revert b. induction ks as [|k ks IH]; intros b Hok Hlen; simpl in *; [reflexivity|].
  rewrite enc_fdec; [| apply bytes_ok_firstn; exact Hok | rewrite firstn_length; lia].
  rewrite IH; [| apply bytes_ok_skipn; exact Hok | rewrite skipn_length; lia].
  rewrite <- (firstn_skipn (fwidth k) b) at 3.
  rewrite firstn_app. rewrite firstn_length.
  replace (Nat.min (fwidth k) (length b)) with (fwidth k) by lia.
  rewrite (firstn_all2 (n := (fwidth k + total ks)%nat)) by (rewrite firstn_length; lia).
  f_equal. f_equal. lia.
Qed.

(* ---------- slices and buffer writes (Go: b[off:off+n], copy(b[pos:], src)) ---------- *)

Definition slice (b : list Z) (off n : nat) : list Z := firstn n (skipn off b).

Definition write (buf : list Z) (pos : nat) (src : list Z) : list Z :=
  firstn pos buf ++ src ++ skipn (pos + length src) buf.

Lemma write_length buf pos src :
  (pos + length src <= length buf)%nat -> length (write buf pos src) = length buf.
Proof.
  intros H. unfold write. rewrite !app_length, firstn_length, skipn_length. lia.
Qed.

Lemma write_app done rest pos src :
  length done = pos -> (length src <= length rest)%nat ->
  write (done ++ rest) pos src = (done ++ src) ++ skipn (length src) rest.
Proof.
  intros Hp Hs. unfold write. rewrite firstn_app_exact by exact Hp.
  rewrite <- app_assoc. f_equal. f_equal.
  rewrite skipn_app. rewrite (skipn_all2 (n := (pos + length src)%nat)) by lia.
  simpl. f_equal. lia.
Qed.

(* right-padding with zeros to length n (Go: copy into make([]byte, n)) *)
Definition zpad (n : nat) (l : list Z) : list Z := firstn n l ++ repeat 0 (n - length l).

Lemma zpad_length n l : length (zpad n l) = n.
Proof. unfold zpad. rewrite app_length, firstn_length, repeat_length. lia. Qed.

(* ---------- outcome of a Go call ---------- *)

Inductive outcome (A : Type) : Type :=
| Ok (a : A) | Err (class : Z) | Panic | OutOfFuel.
Arguments Ok {A} a. Arguments Err {A} class. Arguments Panic {A}. Arguments OutOfFuel {A}.

Definition obind {A B} (o : outcome A) (f : A -> outcome B) : outcome B :=
  match o with Ok a => f a | Err c => Err c | Panic => Panic | OutOfFuel => OutOfFuel end.
