(* C01: timemath.Sgn / Midpoint as translated from the current source are the sgn / midpoint
   ST.Model.Sync uses (defined in ST.Model.Ftm). *)
From Coq Require Import ZArith Bool List Lia.
From ST Require Import Base.Ints Model.NtpTime Model.Ftm Model.Sync GenLib.GoSem GenLib.GoSemBridge.
From STGen Require Import Gen.
Open Scope Z_scope.

Lemma gen_timemath_Sgn_eq : forall d, Gen.timemath_Sgn d = Ftm.sgn d.
Proof. intros. unfold Gen.timemath_Sgn, Ftm.sgn. reflexivity. Qed.
Print Assumptions gen_timemath_Sgn_eq.

Lemma gen_timemath_Midpoint_eq : forall x y, Gen.timemath_Midpoint x y = Ftm.midpoint x y.
Proof. intros. unfold Gen.timemath_Midpoint, Ftm.midpoint. goraw. reflexivity. Qed.
Print Assumptions gen_timemath_Midpoint_eq.
