(* C12: ntske.Key.IsValidAt as translated from the current source against ST.Model.Provider. *)
From Coq Require Import ZArith Bool List Lia.
From ST Require Import Base.Ints Model.Provider GenLib.GoSem GenLib.GoSemBridge.
From STGen Require Import Gen.
Open Scope Z_scope.

(* Key.Value ([]byte) is outside the subset and not read by IsValidAt: any model value kv *)
Definition to_key (k : Gen.ntske_Key) (kv : Z) : Provider.key :=
  {| k_id := Gen.ntske_Key_ID k; k_val := kv;
     k_nb := Gen.ntske_Key_Validity_anon_NotBefore (Gen.ntske_Key_Validity k);
     k_na := Gen.ntske_Key_Validity_anon_NotAfter (Gen.ntske_Key_Validity k) |}.

Lemma gen_ntske_Key_IsValidAt_eq : forall k kv t,
  Gen.ntske_Key_IsValidAt k t = Provider.is_valid_at (to_key k kv) t.
Proof.
  intros k kv t. unfold Gen.ntske_Key_IsValidAt, Provider.is_valid_at, to_key, time_Before, time_After.
  cbn [k_nb k_na]. reflexivity.
Qed.
Print Assumptions gen_ntske_Key_IsValidAt_eq.
