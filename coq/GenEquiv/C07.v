(* C07 (same functions as C06): ntp.Time64.Before / After as translated from the current source are the order
   ST.Model.Tss uses (NtpTime.t64_before / t64_after). *)
From Coq Require Import ZArith Bool List Lia.
From ST Require Import Base.Ints Model.NtpTime Model.Tss GenLib.GoSem GenLib.GoSemBridge.
From STGen Require Import Gen.
Open Scope Z_scope.

Definition to_t64 (g : Gen.ntp_Time64) : NtpTime.time64 :=
  {| t64_sec := Gen.ntp_Time64_Seconds g; t64_frac := Gen.ntp_Time64_Fraction g |}.

Lemma gen_ntp_Time64_Before_eq : forall t u,
  Gen.ntp_Time64_Before t u = NtpTime.t64_before (to_t64 t) (to_t64 u).
Proof. intros [ts tf] [us uf]. unfold Gen.ntp_Time64_Before, NtpTime.t64_before, to_t64. reflexivity. Qed.
Print Assumptions gen_ntp_Time64_Before_eq.

Lemma gen_ntp_Time64_After_eq : forall t u,
  Gen.ntp_Time64_After t u = NtpTime.t64_after (to_t64 t) (to_t64 u).
Proof. intros [ts tf] [us uf]. unfold Gen.ntp_Time64_After, NtpTime.t64_after, to_t64. reflexivity. Qed.
Print Assumptions gen_ntp_Time64_After_eq.

(* ---- against what Model/Tss.v really computes with ----
   The model keeps a Time64 as the single number t64_num = seconds * 2^32 + fraction and
   compares with <? and =? on Z (Tss.v: scan, scan_tx_from, admission_decision, hq_min_val).
   For fields of the uint32 range that is the translated Before / After / ==. *)
Definition frac_ok (g : Gen.ntp_Time64) : Prop := 0 <= Gen.ntp_Time64_Fraction g < 4294967296.

Lemma t64_before_num a b :
  0 <= t64_frac a < 4294967296 -> 0 <= t64_frac b < 4294967296 ->
  NtpTime.t64_before a b = (t64_num a <? t64_num b).
Proof.
  intros Ha Hb. unfold NtpTime.t64_before, t64_num. apply eq_true_iff_eq.
  rewrite orb_true_iff, andb_true_iff, !Z.ltb_lt, Z.eqb_eq. lia.
Qed.

Lemma t64_after_num a b :
  0 <= t64_frac a < 4294967296 -> 0 <= t64_frac b < 4294967296 ->
  NtpTime.t64_after a b = (t64_num b <? t64_num a).
Proof.
  intros Ha Hb. unfold NtpTime.t64_after, t64_num. apply eq_true_iff_eq.
  rewrite orb_true_iff, andb_true_iff, !Z.ltb_lt, Z.eqb_eq. lia.
Qed.

(* Go's == on the struct is equality of the numbers *)
Lemma t64_num_inj a b :
  0 <= t64_frac a < 4294967296 -> 0 <= t64_frac b < 4294967296 ->
  (t64_num a = t64_num b <-> t64_sec a = t64_sec b /\ t64_frac a = t64_frac b).
Proof. intros Ha Hb. unfold t64_num. lia. Qed.

Lemma gen_ntp_Time64_Before_num : forall t u, frac_ok t -> frac_ok u ->
  Gen.ntp_Time64_Before t u = (t64_num (to_t64 t) <? t64_num (to_t64 u)).
Proof. intros t u Ht Hu. rewrite gen_ntp_Time64_Before_eq. apply t64_before_num; assumption. Qed.
Print Assumptions gen_ntp_Time64_Before_num.

Lemma gen_ntp_Time64_After_num : forall t u, frac_ok t -> frac_ok u ->
  Gen.ntp_Time64_After t u = (t64_num (to_t64 u) <? t64_num (to_t64 t)).
Proof. intros t u Ht Hu. rewrite gen_ntp_Time64_After_eq. apply t64_after_num; assumption. Qed.
Print Assumptions gen_ntp_Time64_After_num.

(* the numbers the model works with are such numbers: to64 t = t64_num of Time64FromTime t, whose
   fraction is a uint32 *)
Lemma to64_is_num t : Tss.to64 t = t64_num (time64_of_time t) /\ 0 <= t64_frac (time64_of_time t) < 4294967296.
Proof.
  split; [reflexivity|]. unfold time64_of_time. cbn [t64_frac]. unfold u32. apply Z.mod_pos_bound. lia.
Qed.
