(* C11: nts.maxCookies as translated from the current source against ST.Model.CookiePool. *)
From Coq Require Import ZArith Bool List Lia.
From ST Require Import Base.Ints Base.Bytes Model.CookiePool GenLib.GoSem GenLib.GoSemBridge.
From STGen Require Import Gen.
Open Scope Z_scope.

(* idLen and cookieLen are lengths of slices.  The model computes without wrap and without the
   division-by-zero panic; on lengths (0 <= n, and far below MaxInt64) there is neither. *)
Lemma gen_nts_maxCookies_eq : forall idLen cookieLen,
  0 <= idLen <= 4611686018427387904 -> 0 <= cookieLen <= 4611686018427387904 ->
  Gen.nts_maxCookies idLen cookieLen = Some (CookiePool.max_cookies idLen cookieLen).
Proof.
  intros a c Ha Hc. unfold Gen.nts_maxCookies, CookiePool.max_cookies, CookiePool.pad4,
    CookiePool.MaxPacketLen, CookiePool.ntpPacketLen. cbv zeta.
  rewrite (wrap_i64_id (a + 3)), (wrap_i64_id (c + 3)) by (unfold GoSem.in_i64; lia).
  rewrite !ldiff_3.
  assert (Hpa : 0 <= (a + 3) / 4 * 4 <= a + 3) by (Z.div_mod_to_equations; lia).
  assert (Hpc : 0 <= (c + 3) / 4 * 4 <= c + 3) by (Z.div_mod_to_equations; lia).
  set (pa := (a + 3) / 4 * 4) in *. set (pc := (c + 3) / 4 * 4) in *.
  rewrite (wrap_i64_id (4 + pa)), (wrap_i64_id (4 + pc)) by (unfold GoSem.in_i64; lia).
  rewrite (wrap_i64_id (976 - (4 + pa))) by (unfold GoSem.in_i64; lia).
  rewrite (wrap_i64_id (976 - (4 + pa) - 40)) by (unfold GoSem.in_i64; lia).
  destruct (4 + pc =? 0) eqn:E; [lia|].
  rewrite quot_i64_pos_const by (unfold GoSem.in_i64; lia).
  repeat f_equal; try lia.
Qed.
Print Assumptions gen_nts_maxCookies_eq.

(* the bound 2^62 is a convenience of the proof (no wrap anywhere below it).  For a negative
   "length" the two do differ: where the cookie field length is 0 the code panics (division by zero)
   and the model, which has no panic, returns Coq's x / 0 = 0.  Not reachable: lengths of slices. *)
Example witness_nts_maxCookies_panic :
  Gen.nts_maxCookies 0 (-4) = None /\ CookiePool.max_cookies 0 (-4) = 0.
Proof. vm_compute. split; reflexivity. Qed.
