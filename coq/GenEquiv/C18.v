(* C18: unixutil.TimevalFromNsec and the conversion functions of net/csptp as translated from the
   current source against ST.Model.Units. *)
From Coq Require Import ZArith Bool List Lia.
From ST Require Import Base.Ints Model.NtpTime Model.Units GenLib.GoSem GenLib.GoSemBridge.
From STGen Require Import Gen.
Open Scope Z_scope.

Lemma gen_unixutil_TimevalFromNsec_eq : forall n,
  (Gen.unix_Timeval_Sec (Gen.unixutil_TimevalFromNsec n), Gen.unix_Timeval_Usec (Gen.unixutil_TimevalFromNsec n))
  = Units.timeval_from_nsec n.
Proof.
  intros n. unfold Gen.unixutil_TimevalFromNsec, Units.timeval_from_nsec. cbv zeta. goraw.
  destruct (Z.rem n 1000000000 <? 0); reflexivity.
Qed.
Print Assumptions gen_unixutil_TimevalFromNsec_eq.

(* csptp.Timestamp carries the 48-bit seconds as six big-endian bytes; the model as one number *)
Definition ts_seconds (g : Gen.csptp_Timestamp) : Z :=
  Gen.csptp_Timestamp_Seconds_0 g * 2 ^ 40 + Gen.csptp_Timestamp_Seconds_1 g * 2 ^ 32 +
  Gen.csptp_Timestamp_Seconds_2 g * 2 ^ 24 + Gen.csptp_Timestamp_Seconds_3 g * 2 ^ 16 +
  Gen.csptp_Timestamp_Seconds_4 g * 2 ^ 8 + Gen.csptp_Timestamp_Seconds_5 g.
Definition ts_pair (g : Gen.csptp_Timestamp) : Z * Z := (ts_seconds g, Gen.csptp_Timestamp_Nanoseconds g).

Lemma gen_csptp_TimestampFromTime_eq : forall t,
  option_map ts_pair (Gen.csptp_TimestampFromTime t) = Units.csptp_ts_of_time t.
Proof.
  intros t. unfold Gen.csptp_TimestampFromTime, Units.csptp_ts_of_time. cbv zeta.
  rewrite time_Unix_sec.
  destruct (time_sec t <? 0) eqn:E1; [reflexivity|].
  destruct (281474976710655 <? time_sec t) eqn:E2; [reflexivity|].
  cbn [option_map]. unfold ts_pair, ts_seconds.
  cbn [Gen.csptp_Timestamp_Seconds_0 Gen.csptp_Timestamp_Seconds_1 Gen.csptp_Timestamp_Seconds_2
       Gen.csptp_Timestamp_Seconds_3 Gen.csptp_Timestamp_Seconds_4 Gen.csptp_Timestamp_Seconds_5
       Gen.csptp_Timestamp_Nanoseconds].
  assert (Hs : 0 <= time_sec t < 281474976710656) by lia.
  rewrite (wrap_u64_id (time_sec t)) by (unfold in_u64; lia).
  rewrite !shr_is_div by lia.
  rewrite time_Nanosecond_nsec, wrap_u32_u32.
  f_equal. f_equal.
  change (2 ^ 40) with 1099511627776. change (2 ^ 32) with 4294967296. change (2 ^ 24) with 16777216.
  change (2 ^ 16) with 65536. change (2 ^ 8) with 256.
  unfold wrap_u8. generalize (time_sec t) Hs. clear. intros s Hs.
  Z.div_mod_to_equations. lia.
Qed.
Print Assumptions gen_csptp_TimestampFromTime_eq.

Definition in_bytes (g : Gen.csptp_Timestamp) : Prop :=
  in_u8 (Gen.csptp_Timestamp_Seconds_0 g) /\ in_u8 (Gen.csptp_Timestamp_Seconds_1 g) /\
  in_u8 (Gen.csptp_Timestamp_Seconds_2 g) /\ in_u8 (Gen.csptp_Timestamp_Seconds_3 g) /\
  in_u8 (Gen.csptp_Timestamp_Seconds_4 g) /\ in_u8 (Gen.csptp_Timestamp_Seconds_5 g).

(* the six fields are uint8 values (hypothesis in_bytes: that is their Go type) *)
Lemma gen_csptp_TimeFromTimestamp_eq : forall g, in_bytes g ->
  Gen.csptp_TimeFromTimestamp g = Units.csptp_time_of_ts (ts_seconds g) (Gen.csptp_Timestamp_Nanoseconds g).
Proof.
  intros [b0 b1 b2 b3 b4 b5 ns] (H0 & H1 & H2 & H3 & H4 & H5).
  unfold Gen.csptp_TimeFromTimestamp, Units.csptp_time_of_ts, ts_seconds, in_u8 in *.
  cbn [Gen.csptp_Timestamp_Seconds_0 Gen.csptp_Timestamp_Seconds_1 Gen.csptp_Timestamp_Seconds_2
       Gen.csptp_Timestamp_Seconds_3 Gen.csptp_Timestamp_Seconds_4 Gen.csptp_Timestamp_Seconds_5
       Gen.csptp_Timestamp_Nanoseconds] in *.
  cbv zeta. unfold shl_u64. rewrite !Z.shiftl_mul_pow2 by lia.
  change (2 ^ 40) with 1099511627776. change (2 ^ 32) with 4294967296. change (2 ^ 24) with 16777216.
  change (2 ^ 16) with 65536. change (2 ^ 8) with 256.
  rewrite (wrap_u64_id (b0 * _)), (wrap_u64_id (b1 * _)), (wrap_u64_id (b2 * _)), (wrap_u64_id (b3 * _)),
    (wrap_u64_id (b4 * _)) by (unfold in_u64; lia).
  rewrite (lor_disjoint_add (b0 * 1099511627776) (b1 * 4294967296) 40)
    by (try lia; change (2 ^ 40) with 1099511627776; try lia; Z.div_mod_to_equations; lia).
  rewrite (lor_disjoint_add (_ + _) (b2 * 16777216) 32)
    by (try lia; change (2 ^ 32) with 4294967296; try lia; Z.div_mod_to_equations; lia).
  rewrite (lor_disjoint_add (_ + _) (b3 * 65536) 24)
    by (try lia; change (2 ^ 24) with 16777216; try lia; Z.div_mod_to_equations; lia).
  rewrite (lor_disjoint_add (_ + _) (b4 * 256) 16)
    by (try lia; change (2 ^ 16) with 65536; try lia; Z.div_mod_to_equations; lia).
  rewrite (lor_disjoint_add (_ + _) b5 8)
    by (try lia; change (2 ^ 8) with 256; try lia; Z.div_mod_to_equations; lia).
  rewrite wrap_i64_id by (unfold GoSem.in_i64; lia).
  rewrite time_mk_mk. reflexivity.
Qed.
Print Assumptions gen_csptp_TimeFromTimestamp_eq.

Lemma gen_csptp_DurationFromTimeInterval_eq : forall i,
  Gen.csptp_DurationFromTimeInterval i = Units.csptp_dur_of_interval i.
Proof. intros. unfold Gen.csptp_DurationFromTimeInterval, Units.csptp_dur_of_interval, go_shr. reflexivity. Qed.
Print Assumptions gen_csptp_DurationFromTimeInterval_eq.

Lemma gen_csptp_C2SDelay_eq : forall t0 t1 t1c utc,
  Gen.csptp_C2SDelay t0 t1 t1c utc = Units.csptp_c2s_delay t0 t1 t1c utc.
Proof. intros. unfold Gen.csptp_C2SDelay, Units.csptp_c2s_delay, d_sub, d_add. goraw. reflexivity. Qed.
Print Assumptions gen_csptp_C2SDelay_eq.

Lemma gen_csptp_S2CDelay_eq : forall t2 t3 t3c utc,
  Gen.csptp_S2CDelay t2 t3 t3c utc = Units.csptp_s2c_delay t2 t3 t3c utc.
Proof. intros. unfold Gen.csptp_S2CDelay, Units.csptp_s2c_delay, d_sub, d_add. goraw. reflexivity. Qed.
Print Assumptions gen_csptp_S2CDelay_eq.

Lemma gen_csptp_MeanPathDelay_eq : forall t0 t1 t2 t3 t1c t3c,
  Gen.csptp_MeanPathDelay t0 t1 t2 t3 t1c t3c = Units.csptp_mean_path_delay t0 t1 t2 t3 t1c t3c.
Proof. intros. unfold Gen.csptp_MeanPathDelay, Units.csptp_mean_path_delay, d_sub, d_add. goraw. reflexivity. Qed.
Print Assumptions gen_csptp_MeanPathDelay_eq.

Lemma gen_csptp_ClockOffset_eq : forall t0 t1 t2 t3 t1c t3c,
  Gen.csptp_ClockOffset t0 t1 t2 t3 t1c t3c = Units.csptp_clock_offset t0 t1 t2 t3 t1c t3c.
Proof. intros. unfold Gen.csptp_ClockOffset, Units.csptp_clock_offset, d_sub, d_add. goraw. reflexivity. Qed.
Print Assumptions gen_csptp_ClockOffset_eq.
