(* C10: nts.maxCookies as translated from the current source against ST.Model.NtsAuth. *)
From Coq Require Import ZArith Bool List Lia.
From ST Require Import Base.Ints Base.Bytes Model.NtsAuth GenLib.GoSem GenLib.GoSemBridge.
From STGen Require Import Gen.
Open Scope Z_scope.

(* idLen and cookieLen are lengths of slices (nat in the model).  Below 2^62 nothing wraps and the
   cookie field length is positive, so the division cannot panic. *)
Lemma gen_nts_maxCookies_eq : forall idLen cookieLen : nat,
  Z.of_nat idLen <= 4611686018427387904 -> Z.of_nat cookieLen <= 4611686018427387904 ->
  Gen.nts_maxCookies (Z.of_nat idLen) (Z.of_nat cookieLen) = Some (NtsAuth.max_cookies idLen cookieLen).
Proof.
  intros a0 c0 Ha Hc. unfold Gen.nts_maxCookies, NtsAuth.max_cookies. cbv zeta.
  assert (Hpa : Z.of_nat (NtsAuth.pad4 a0) = (Z.of_nat a0 + 3) / 4 * 4).
  { unfold NtsAuth.pad4. rewrite Nat2Z.inj_mul, Nat2Z.inj_div, Nat2Z.inj_add. reflexivity. }
  assert (Hpc : Z.of_nat (NtsAuth.pad4 c0) = (Z.of_nat c0 + 3) / 4 * 4).
  { unfold NtsAuth.pad4. rewrite Nat2Z.inj_mul, Nat2Z.inj_div, Nat2Z.inj_add. reflexivity. }
  rewrite Hpa, Hpc.
  set (a := Z.of_nat a0) in *. set (c := Z.of_nat c0) in *.
  assert (Ha0 : 0 <= a) by (subst a; lia). assert (Hc0 : 0 <= c) by (subst c; lia).
  rewrite (wrap_i64_id (a + 3)), (wrap_i64_id (c + 3)) by (unfold GoSem.in_i64; lia).
  rewrite !ldiff_3.
  assert (Hqa : 0 <= (a + 3) / 4 * 4 <= a + 3) by (Z.div_mod_to_equations; lia).
  assert (Hqc : 0 <= (c + 3) / 4 * 4 <= c + 3) by (Z.div_mod_to_equations; lia).
  set (pa := (a + 3) / 4 * 4) in *. set (pc := (c + 3) / 4 * 4) in *.
  rewrite (wrap_i64_id (4 + pa)), (wrap_i64_id (4 + pc)) by (unfold GoSem.in_i64; lia).
  rewrite (wrap_i64_id (976 - (4 + pa))) by (unfold GoSem.in_i64; lia).
  rewrite (wrap_i64_id (976 - (4 + pa) - 40)) by (unfold GoSem.in_i64; lia).
  destruct (4 + pc =? 0) eqn:E; [lia|].
  rewrite quot_i64_pos_const by (unfold GoSem.in_i64; lia).
  repeat f_equal; try lia.
Qed.
Print Assumptions gen_nts_maxCookies_eq.

(* non-vacuity: the sizes the clause of C10 speaks about (32-byte identifier, 100-byte cookie) *)
Example witness_nts_maxCookies_8 :
  Gen.nts_maxCookies 32 100 = Some 8 /\ NtsAuth.max_cookies 32 100 = 8.
Proof. vm_compute. split; reflexivity. Qed.
