(* C09: ntp.ValidateRequest and the LVM accessors as translated from the current source against
   ST.Model.ServerDecision. *)
From Coq Require Import ZArith Bool List Lia.
From ST Require Import Base.Ints Model.ServerDecision GenLib.GoSem GenLib.GoSemBridge.
From STGen Require Import Gen.
Open Scope Z_scope.

Lemma gen_ntp_Packet_LeapIndicator_eq : forall p,
  Gen.ntp_Packet_LeapIndicator p = ServerDecision.leap_of (Gen.ntp_Packet_LVM p).
Proof. intros. unfold Gen.ntp_Packet_LeapIndicator, ServerDecision.leap_of, go_shr. reflexivity. Qed.
Print Assumptions gen_ntp_Packet_LeapIndicator_eq.
Lemma gen_ntp_Packet_Version_eq : forall p,
  Gen.ntp_Packet_Version p = ServerDecision.version_of (Gen.ntp_Packet_LVM p).
Proof. intros. unfold Gen.ntp_Packet_Version, ServerDecision.version_of, go_shr. reflexivity. Qed.
Print Assumptions gen_ntp_Packet_Version_eq.
Lemma gen_ntp_Packet_Mode_eq : forall p,
  Gen.ntp_Packet_Mode p = ServerDecision.mode_of (Gen.ntp_Packet_LVM p).
Proof. intros. unfold Gen.ntp_Packet_Mode, ServerDecision.mode_of. reflexivity. Qed.
Print Assumptions gen_ntp_Packet_Mode_eq.

(* ValidateRequest: nil exactly when the model's validate_lvm holds, errUnexpectedRequest otherwise;
   the source port argument is not used *)
Lemma gen_ntp_ValidateRequest_eq : forall p port,
  Gen.ntp_ValidateRequest p port =
  if ServerDecision.validate_lvm (Gen.ntp_Packet_LVM p) then 0 else Gen.err_ntp_errUnexpectedRequest.
Proof.
  intros p port.
  unfold Gen.ntp_ValidateRequest, Gen.ntp_Packet_LeapIndicator, Gen.ntp_Packet_Version, Gen.ntp_Packet_Mode,
    go_shr, ServerDecision.validate_lvm, leap_of, version_of, mode_of, leap_no_warning, leap_unknown,
    version_min, version_max, mode_reserved0, mode_client, err_nil.
  cbv zeta.
  destruct (negb (Z.land (Z.shiftr (Gen.ntp_Packet_LVM p) 6) 3 =? 0) &&
            negb (Z.land (Z.shiftr (Gen.ntp_Packet_LVM p) 6) 3 =? 3)); [reflexivity|].
  destruct ((Z.land (Z.shiftr (Gen.ntp_Packet_LVM p) 3) 7 <? 1) || (4 <? Z.land (Z.shiftr (Gen.ntp_Packet_LVM p) 3) 7));
    [reflexivity|].
  destruct ((Z.land (Z.shiftr (Gen.ntp_Packet_LVM p) 3) 7 =? 1) && negb (Z.land (Gen.ntp_Packet_LVM p) 7 =? 0)
            || negb (Z.land (Z.shiftr (Gen.ntp_Packet_LVM p) 3) 7 =? 1) && negb (Z.land (Gen.ntp_Packet_LVM p) 7 =? 3));
    reflexivity.
Qed.
Print Assumptions gen_ntp_ValidateRequest_eq.

(* setters: the new LVM byte (None = panic), and nothing else of the packet changes *)
Definition lvm_of (r : option Gen.ntp_Packet) : option Z := option_map Gen.ntp_Packet_LVM r.
Definition same_but_lvm (p q : Gen.ntp_Packet) : Prop :=
  Gen.set_ntp_Packet_LVM q (Gen.ntp_Packet_LVM p) = p.

Lemma gen_ntp_Packet_SetVersion_eq : forall p v,
  lvm_of (Gen.ntp_Packet_SetVersion p v) = ServerDecision.set_version (Gen.ntp_Packet_LVM p) v /\
  (forall q, Gen.ntp_Packet_SetVersion p v = Some q -> same_but_lvm p q).
Proof.
  intros p v. unfold Gen.ntp_Packet_SetVersion, ServerDecision.set_version, lvm_of, same_but_lvm.
  destruct (negb (Z.land v 7 =? v)).
  - split; [reflexivity | discriminate].
  - split.
    + destruct p. unfold Gen.set_ntp_Packet_LVM. cbn [option_map Gen.ntp_Packet_LVM]. goraw. reflexivity.
    + intros q H. injection H as <-. destruct p. reflexivity.
Qed.
Print Assumptions gen_ntp_Packet_SetVersion_eq.

Lemma gen_ntp_Packet_SetMode_eq : forall p m,
  lvm_of (Gen.ntp_Packet_SetMode p m) = ServerDecision.set_mode (Gen.ntp_Packet_LVM p) m /\
  (forall q, Gen.ntp_Packet_SetMode p m = Some q -> same_but_lvm p q).
Proof.
  intros p m. unfold Gen.ntp_Packet_SetMode, ServerDecision.set_mode, lvm_of, same_but_lvm.
  destruct (negb (Z.land m 7 =? m)).
  - split; [reflexivity | discriminate].
  - split.
    + destruct p. unfold Gen.set_ntp_Packet_LVM. cbn [option_map Gen.ntp_Packet_LVM]. reflexivity.
    + intros q H. injection H as <-. destruct p. reflexivity.
Qed.
Print Assumptions gen_ntp_Packet_SetMode_eq.
