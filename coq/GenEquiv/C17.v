(* C17: timemath.Inv as translated from the current source is the inv of ST.Model.Ntimed
   (out_of_mid; defined in ST.Model.Ftm). *)
From Coq Require Import ZArith Bool List Lia.
From ST Require Import Base.Ints Model.NtpTime Model.Ftm Model.Ntimed GenLib.GoSem GenLib.GoSemBridge.
From STGen Require Import Gen.
Open Scope Z_scope.

(* the model writes -d without a wrap: equal for every int64 d (d is a time.Duration) *)
Lemma gen_timemath_Inv_eq : forall d, Ints.in_i64 d -> Gen.timemath_Inv d = Ftm.inv d.
Proof.
  intros d Hd. unfold Gen.timemath_Inv, Ftm.inv, Ints.in_i64, min_i64, max_i64 in *.
  destruct (d =? -9223372036854775808) eqn:E; [reflexivity|].
  apply wrap_i64_id. unfold GoSem.in_i64. lia.
Qed.
Print Assumptions gen_timemath_Inv_eq.
