(* C20: ntske.hasBit / setBit as translated from the current source against the model's
   definitions of the critical bit in ST.Model.Ntske: has_critical (used by rd_step, the loop
   body of ReadData) and set_critical (used by hdr, the record header of the server message). *)
From Coq Require Import ZArith Bool List Lia.
From ST Require Import Base.Ints Model.Ntske GenLib.GoSem GenLib.GoSemBridge.
From STGen Require Import Gen.
Open Scope Z_scope.

Lemma land_pow2 x k : 0 <= k -> Z.land x (2 ^ k) = if Z.testbit x k then 2 ^ k else 0.
Proof.
  intros Hk. apply Z.bits_inj'. intros n Hn. rewrite Z.land_spec, Z.pow2_bits_eqb by assumption.
  destruct (Z.eqb_spec k n) as [->|Hne].
  - rewrite andb_true_r. destruct (Z.testbit x n); [rewrite Z.pow2_bits_true by assumption|rewrite Z.bits_0]; reflexivity.
  - rewrite andb_false_r. destruct (Z.testbit x k); [rewrite Z.pow2_bits_false by lia|rewrite Z.bits_0]; reflexivity.
Qed.

(* the record type is a uint16 *)
Lemma gen_ntske_hasBit_eq : forall ty, 0 <= ty < 65536 ->
  Gen.ntske_hasBit ty 15 = has_critical ty.
Proof.
  intros ty H. unfold Gen.ntske_hasBit, has_critical. cbv zeta.
  change (shl_u16 1 15) with (2 ^ 15). rewrite land_pow2 by lia.
  destruct (Z.testbit ty 15) eqn:E.
  - apply Z.testbit_true in E; [|lia]. change (2 ^ 15) with 32768 in *.
    assert (32768 <= ty) by (Z.div_mod_to_equations; lia).
    destruct (32768 <=? ty) eqn:E2; [reflexivity|lia].
  - apply Z.testbit_false in E; [|lia]. change (2 ^ 15) with 32768 in *.
    assert (ty < 32768) by (Z.div_mod_to_equations; lia).
    destruct (32768 <=? ty) eqn:E2; [lia|reflexivity].
Qed.
Print Assumptions gen_ntske_hasBit_eq.

(* the model writes a critical record type t (t < 2^15) as set_critical t *)
Lemma gen_ntske_setBit_eq : forall t, 0 <= t < 32768 -> Gen.ntske_setBit t 15 = set_critical t.
Proof.
  intros t H. unfold Gen.ntske_setBit, set_critical. cbv zeta. change (shl_u16 1 15) with 32768.
  rewrite Z.lor_comm. rewrite (lor_disjoint_add 32768 t 15); [lia|lia|reflexivity|].
  change (2 ^ 15) with 32768. lia.
Qed.
Print Assumptions gen_ntske_setBit_eq.

(* the two places of the model where the functions are used, with the translated functions in
   place of the model's: the header the server writes, and what the record loop makes of a type *)
Lemma gen_hdr_uses_setBit : forall t c len, 0 <= t < 32768 ->
  hdr t c len = let ty := if c then Gen.ntske_setBit t 15 else t in
                [ty / 256; ty mod 256; (Z.of_nat len mod 65536) / 256; Z.of_nat len mod 256].
Proof. intros t c len H. unfold hdr. rewrite (gen_ntske_setBit_eq t H). reflexivity. Qed.
Print Assumptions gen_hdr_uses_setBit.

Lemma gen_rd_step_critical : forall a b, 0 <= a < 256 -> 0 <= b < 256 ->
  has_critical (be16 [a; b]) = Gen.ntske_hasBit (be16 [a; b]) 15.
Proof.
  intros a b Ha Hb. symmetry. apply gen_ntske_hasBit_eq. unfold be16. cbn [nth]. lia.
Qed.
Print Assumptions gen_rd_step_critical.
