(* C14: accessors of ntp.Packet's LVM byte and the CSPTP TLV length functions as translated from the
   current source against ST.Model.CodecNtp / ST.Model.CodecCsptp. *)
From Coq Require Import ZArith Bool List Lia.
From ST Require Import Base.Ints Base.Bytes Model.CodecNtp Model.CodecCsptp Model.CodecNts GenLib.GoSem GenLib.GoSemBridge.
From STGen Require Import Gen.
Open Scope Z_scope.

(* ntp.Packet against the model's flat record: all 17 scalar fields *)
Definition to_np (p : Gen.ntp_Packet) : CodecNtp.ntp_packet :=
  {| np_lvm := Gen.ntp_Packet_LVM p; np_stratum := Gen.ntp_Packet_Stratum p;
     np_poll := Gen.ntp_Packet_Poll p; np_precision := Gen.ntp_Packet_Precision p;
     np_rdelay_s := Gen.ntp_Time32_Seconds (Gen.ntp_Packet_RootDelay p);
     np_rdelay_f := Gen.ntp_Time32_Fraction (Gen.ntp_Packet_RootDelay p);
     np_rdisp_s := Gen.ntp_Time32_Seconds (Gen.ntp_Packet_RootDispersion p);
     np_rdisp_f := Gen.ntp_Time32_Fraction (Gen.ntp_Packet_RootDispersion p);
     np_refid := Gen.ntp_Packet_ReferenceID p;
     np_ref_s := Gen.ntp_Time64_Seconds (Gen.ntp_Packet_ReferenceTime p);
     np_ref_f := Gen.ntp_Time64_Fraction (Gen.ntp_Packet_ReferenceTime p);
     np_org_s := Gen.ntp_Time64_Seconds (Gen.ntp_Packet_OriginTime p);
     np_org_f := Gen.ntp_Time64_Fraction (Gen.ntp_Packet_OriginTime p);
     np_rx_s := Gen.ntp_Time64_Seconds (Gen.ntp_Packet_ReceiveTime p);
     np_rx_f := Gen.ntp_Time64_Fraction (Gen.ntp_Packet_ReceiveTime p);
     np_tx_s := Gen.ntp_Time64_Seconds (Gen.ntp_Packet_TransmitTime p);
     np_tx_f := Gen.ntp_Time64_Fraction (Gen.ntp_Packet_TransmitTime p) |}.

Lemma gen_ntp_Packet_LeapIndicator_eq : forall p, Gen.ntp_Packet_LeapIndicator p = CodecNtp.ntp_leap (to_np p).
Proof. intros. unfold Gen.ntp_Packet_LeapIndicator, CodecNtp.ntp_leap, to_np, go_shr. reflexivity. Qed.
Print Assumptions gen_ntp_Packet_LeapIndicator_eq.
Lemma gen_ntp_Packet_Version_eq : forall p, Gen.ntp_Packet_Version p = CodecNtp.ntp_version (to_np p).
Proof. intros. unfold Gen.ntp_Packet_Version, CodecNtp.ntp_version, to_np, go_shr. reflexivity. Qed.
Print Assumptions gen_ntp_Packet_Version_eq.
Lemma gen_ntp_Packet_Mode_eq : forall p, Gen.ntp_Packet_Mode p = CodecNtp.ntp_mode (to_np p).
Proof. intros. unfold Gen.ntp_Packet_Mode, CodecNtp.ntp_mode, to_np. reflexivity. Qed.
Print Assumptions gen_ntp_Packet_Mode_eq.

Lemma gen_ntp_Packet_SetLeapIndicator_eq : forall p l,
  option_map to_np (Gen.ntp_Packet_SetLeapIndicator p l) = CodecNtp.ntp_set_leap (to_np p) l.
Proof.
  intros p l. unfold Gen.ntp_Packet_SetLeapIndicator, CodecNtp.ntp_set_leap.
  destruct (Z.land l 3 =? l); cbn [negb option_map]; [|reflexivity].
  destruct p. unfold Gen.set_ntp_Packet_LVM, CodecNtp.with_lvm, to_np.
  cbn [Gen.ntp_Packet_LVM Gen.ntp_Packet_Stratum Gen.ntp_Packet_Poll Gen.ntp_Packet_Precision
       Gen.ntp_Packet_RootDelay Gen.ntp_Packet_RootDispersion Gen.ntp_Packet_ReferenceID
       Gen.ntp_Packet_ReferenceTime Gen.ntp_Packet_OriginTime Gen.ntp_Packet_ReceiveTime Gen.ntp_Packet_TransmitTime
       np_lvm np_stratum np_poll np_precision np_rdelay_s np_rdelay_f np_rdisp_s np_rdisp_f np_refid
       np_ref_s np_ref_f np_org_s np_org_f np_rx_s np_rx_f np_tx_s np_tx_f].
  goraw. reflexivity.
Qed.
Print Assumptions gen_ntp_Packet_SetLeapIndicator_eq.

Lemma gen_ntp_Packet_SetVersion_eq : forall p v,
  option_map to_np (Gen.ntp_Packet_SetVersion p v) = CodecNtp.ntp_set_version (to_np p) v.
Proof.
  intros p v. unfold Gen.ntp_Packet_SetVersion, CodecNtp.ntp_set_version.
  destruct (Z.land v 7 =? v); cbn [negb option_map]; [|reflexivity].
  destruct p. unfold Gen.set_ntp_Packet_LVM, CodecNtp.with_lvm, to_np.
  cbn [Gen.ntp_Packet_LVM Gen.ntp_Packet_Stratum Gen.ntp_Packet_Poll Gen.ntp_Packet_Precision
       Gen.ntp_Packet_RootDelay Gen.ntp_Packet_RootDispersion Gen.ntp_Packet_ReferenceID
       Gen.ntp_Packet_ReferenceTime Gen.ntp_Packet_OriginTime Gen.ntp_Packet_ReceiveTime Gen.ntp_Packet_TransmitTime
       np_lvm np_stratum np_poll np_precision np_rdelay_s np_rdelay_f np_rdisp_s np_rdisp_f np_refid
       np_ref_s np_ref_f np_org_s np_org_f np_rx_s np_rx_f np_tx_s np_tx_f].
  goraw. reflexivity.
Qed.
Print Assumptions gen_ntp_Packet_SetVersion_eq.

Lemma gen_ntp_Packet_SetMode_eq : forall p m,
  option_map to_np (Gen.ntp_Packet_SetMode p m) = CodecNtp.ntp_set_mode (to_np p) m.
Proof.
  intros p m. unfold Gen.ntp_Packet_SetMode, CodecNtp.ntp_set_mode.
  destruct (Z.land m 7 =? m); cbn [negb option_map]; [|reflexivity].
  destruct p. unfold Gen.set_ntp_Packet_LVM, CodecNtp.with_lvm, to_np.
  cbn [Gen.ntp_Packet_LVM Gen.ntp_Packet_Stratum Gen.ntp_Packet_Poll Gen.ntp_Packet_Precision
       Gen.ntp_Packet_RootDelay Gen.ntp_Packet_RootDispersion Gen.ntp_Packet_ReferenceID
       Gen.ntp_Packet_ReferenceTime Gen.ntp_Packet_OriginTime Gen.ntp_Packet_ReceiveTime Gen.ntp_Packet_TransmitTime
       np_lvm np_stratum np_poll np_precision np_rdelay_s np_rdelay_f np_rdisp_s np_rdisp_f np_refid
       np_ref_s np_ref_f np_org_s np_org_f np_rx_s np_rx_f np_tx_s np_tx_f].
  reflexivity.
Qed.
Print Assumptions gen_ntp_Packet_SetMode_eq.

(* the model keeps a TLV as the list of its field values, FlagField being element 4 *)
Lemma gen_csptp_EncodedRequestTLVLength_eq : forall tlv t,
  nth 4 t 0 = Gen.csptp_RequestTLV_FlagField tlv ->
  Gen.csptp_EncodedRequestTLVLength tlv = Z.of_nat (CodecCsptp.tlv_len t).
Proof.
  intros tlv t H. unfold Gen.csptp_EncodedRequestTLVLength, CodecCsptp.tlv_len, CodecCsptp.ssds_flag.
  rewrite H. cbv zeta. change (wrap_i64 (36 + 18)) with 54.
  destruct (Z.land (Gen.csptp_RequestTLV_FlagField tlv) 1 =? 1); reflexivity.
Qed.
Print Assumptions gen_csptp_EncodedRequestTLVLength_eq.

Lemma gen_csptp_EncodedResponseTLVLength_eq : forall tlv t,
  nth 4 t 0 = Gen.csptp_ResponseTLV_FlagField tlv ->
  Gen.csptp_EncodedResponseTLVLength tlv = Z.of_nat (CodecCsptp.tlv_len t).
Proof.
  intros tlv t H. unfold Gen.csptp_EncodedResponseTLVLength, CodecCsptp.tlv_len, CodecCsptp.ssds_flag.
  rewrite H. cbv zeta. change (wrap_i64 (36 + 18)) with 54.
  destruct (Z.land (Gen.csptp_ResponseTLV_FlagField tlv) 1 =? 1); reflexivity.
Qed.
Print Assumptions gen_csptp_EncodedResponseTLVLength_eq.

(* ---- nts.maxCookies against the nat model CodecNts.max_cookies ----
   The translated function computes on int (wrap, truncating division, division-by-zero panic); the
   model on nat (truncated subtraction, floor division).  First the Z form without wrap ... *)
Definition zmax_cookies (a c : Z) : Z :=
  Z.quot (1024 - 48 - (4 + (a + 3) / 4 * 4) - (4 + 4 + 16 + 16)) (4 + (c + 3) / 4 * 4).

Lemma nts_maxCookies_z : forall a c,
  0 <= a <= 4611686018427387904 -> 0 <= c <= 4611686018427387904 ->
  Gen.nts_maxCookies a c = Some (zmax_cookies a c).
Proof.
  intros a c Ha Hc. unfold Gen.nts_maxCookies, zmax_cookies. cbv zeta.
  rewrite (wrap_i64_id (a + 3)), (wrap_i64_id (c + 3)) by (unfold GoSem.in_i64; lia).
  rewrite !ldiff_3.
  assert (Hpa : 0 <= (a + 3) / 4 * 4 <= a + 3) by (Z.div_mod_to_equations; lia).
  assert (Hpc : 0 <= (c + 3) / 4 * 4 <= c + 3) by (Z.div_mod_to_equations; lia).
  set (pa := (a + 3) / 4 * 4) in *. set (pc := (c + 3) / 4 * 4) in *.
  rewrite (wrap_i64_id (4 + pa)), (wrap_i64_id (4 + pc)) by (unfold GoSem.in_i64; lia).
  rewrite (wrap_i64_id (976 - (4 + pa))) by (unfold GoSem.in_i64; lia).
  rewrite (wrap_i64_id (976 - (4 + pa) - 40)) by (unfold GoSem.in_i64; lia).
  destruct (4 + pc =? 0) eqn:E; [lia|].
  rewrite quot_i64_pos_const by (unfold GoSem.in_i64; lia).
  repeat f_equal; try lia.
Qed.

Lemma pad4len_of_nat n : Z.of_nat (CodecNts.pad4len n) = (Z.of_nat n + 3) / 4 * 4.
Proof. unfold CodecNts.pad4len. rewrite Nat2Z.inj_mul, Nat2Z.inj_div, Nat2Z.inj_add. reflexivity. Qed.

(* ... then: for every identifier that leaves room at all (padded length <= 932, i.e. the numerator
   is not negative) the code's count IS the model's count, for all cookie lengths *)
Lemma gen_nts_maxCookies_eq : forall a c : nat,
  (a <= 932)%nat -> Z.of_nat c <= 4611686018427387904 ->
  Gen.nts_maxCookies (Z.of_nat a) (Z.of_nat c) = Some (Z.of_nat (CodecNts.max_cookies a c)).
Proof.
  intros a c Ha Hc. rewrite nts_maxCookies_z by lia. f_equal.
  unfold zmax_cookies, CodecNts.max_cookies, CodecNts.max_packet_len, CodecNts.ntp_hdr_len.
  pose proof (pad4len_of_nat a) as Hpa. pose proof (pad4len_of_nat c) as Hpc.
  assert (Hle : (4 + CodecNts.pad4len a + 40 <= 1024 - 48)%nat).
  { apply Nat2Z.inj_le. rewrite !Nat2Z.inj_add, Hpa. simpl Z.of_nat. Z.div_mod_to_equations. lia. }
  rewrite Nat2Z.inj_div. rewrite <- Hpa, <- Hpc.
  rewrite Z.quot_div_nonneg by lia. f_equal; lia.
Qed.
Print Assumptions gen_nts_maxCookies_eq.

(* beyond that the code's count is zero or negative and the model's is zero; both callers only ask
   whether the count is at least 1 (NewResponsePacket) or use count - 1 as an upper bound of a
   loop (NewRequestPacket), so the two agree in effect *)
Lemma gen_nts_maxCookies_nofit : forall a c : nat,
  (932 < a)%nat -> Z.of_nat a <= 4611686018427387904 -> Z.of_nat c <= 4611686018427387904 ->
  exists z, Gen.nts_maxCookies (Z.of_nat a) (Z.of_nat c) = Some z /\ z <= 0 /\ CodecNts.max_cookies a c = 0%nat.
Proof.
  intros a c Ha Ha2 Hc. exists (zmax_cookies (Z.of_nat a) (Z.of_nat c)).
  split; [apply nts_maxCookies_z; lia|].
  pose proof (pad4len_of_nat a) as Hpa.
  split.
  - unfold zmax_cookies.
    assert (Hn : 1024 - 48 - (4 + (Z.of_nat a + 3) / 4 * 4) - (4 + 4 + 16 + 16) <= 0) by (Z.div_mod_to_equations; lia).
    assert (Hd : 0 < 4 + (Z.of_nat c + 3) / 4 * 4) by (Z.div_mod_to_equations; lia).
    set (n := 1024 - 48 - (4 + (Z.of_nat a + 3) / 4 * 4) - (4 + 4 + 16 + 16)) in *.
    set (dd := 4 + (Z.of_nat c + 3) / 4 * 4) in *.
    clearbody n dd. Z.quot_rem_to_equations. nia.
  - unfold CodecNts.max_cookies, CodecNts.max_packet_len, CodecNts.ntp_hdr_len.
    assert (Hz : (1024 - 48 - (4 + CodecNts.pad4len a) - 40 = 0)%nat).
    { assert (Z.of_nat (CodecNts.pad4len a) >= 933) by (rewrite Hpa; Z.div_mod_to_equations; lia). lia. }
    rewrite Hz. apply Nat.div_0_l. lia.
Qed.
Print Assumptions gen_nts_maxCookies_nofit.

Example witness_nts_maxCookies_boundary :
  Gen.nts_maxCookies 32 448 = Some 1 /\ CodecNts.max_cookies 32 448 = 1%nat /\
  Gen.nts_maxCookies 32 124 = Some 7 /\ CodecNts.max_cookies 32 124 = 7%nat /\
  Gen.nts_maxCookies 1000 100 = Some 0 /\ Gen.nts_maxCookies 2000 0 = Some (-267).
Proof. vm_compute. repeat split; reflexivity. Qed.
