(* C14: accessors of ntp.Packet's LVM byte and the CSPTP TLV length functions as translated from the
   current source against ST.Model.CodecNtp / ST.Model.CodecCsptp. *)
From Coq Require Import ZArith Bool List Lia.
From ST Require Import Base.Ints Base.Bytes Model.CodecNtp Model.CodecCsptp GenLib.GoSem GenLib.GoSemBridge.
From STGen Require Import Gen.
Open Scope Z_scope.

(* ntp.Packet against the model's flat record: all 17 scalar fields *)
Definition to_np (p : Gen.ntp_Packet) : CodecNtp.ntp_packet :=
  {| np_lvm := Gen.ntp_Packet_LVM p; np_stratum := Gen.ntp_Packet_Stratum p;
     np_poll := Gen.ntp_Packet_Poll p; np_precision := Gen.ntp_Packet_Precision p;
     np_rdelay_s := Gen.ntp_Time32_Seconds (Gen.ntp_Packet_RootDelay p);
     np_rdelay_f := Gen.ntp_Time32_Fraction (Gen.ntp_Packet_RootDelay p);
     np_rdisp_s := Gen.ntp_Time32_Seconds (Gen.ntp_Packet_RootDispersion p);
     np_rdisp_f := Gen.ntp_Time32_Fraction (Gen.ntp_Packet_RootDispersion p);
     np_refid := Gen.ntp_Packet_ReferenceID p;
     np_ref_s := Gen.ntp_Time64_Seconds (Gen.ntp_Packet_ReferenceTime p);
     np_ref_f := Gen.ntp_Time64_Fraction (Gen.ntp_Packet_ReferenceTime p);
     np_org_s := Gen.ntp_Time64_Seconds (Gen.ntp_Packet_OriginTime p);
     np_org_f := Gen.ntp_Time64_Fraction (Gen.ntp_Packet_OriginTime p);
     np_rx_s := Gen.ntp_Time64_Seconds (Gen.ntp_Packet_ReceiveTime p);
     np_rx_f := Gen.ntp_Time64_Fraction (Gen.ntp_Packet_ReceiveTime p);
     np_tx_s := Gen.ntp_Time64_Seconds (Gen.ntp_Packet_TransmitTime p);
     np_tx_f := Gen.ntp_Time64_Fraction (Gen.ntp_Packet_TransmitTime p) |}.

Lemma gen_ntp_Packet_LeapIndicator_eq : forall p, Gen.ntp_Packet_LeapIndicator p = CodecNtp.ntp_leap (to_np p).
Proof. intros. unfold Gen.ntp_Packet_LeapIndicator, CodecNtp.ntp_leap, to_np, go_shr. reflexivity. Qed.
Print Assumptions gen_ntp_Packet_LeapIndicator_eq.
Lemma gen_ntp_Packet_Version_eq : forall p, Gen.ntp_Packet_Version p = CodecNtp.ntp_version (to_np p).
Proof. intros. unfold Gen.ntp_Packet_Version, CodecNtp.ntp_version, to_np, go_shr. reflexivity. Qed.
Print Assumptions gen_ntp_Packet_Version_eq.
Lemma gen_ntp_Packet_Mode_eq : forall p, Gen.ntp_Packet_Mode p = CodecNtp.ntp_mode (to_np p).
Proof. intros. unfold Gen.ntp_Packet_Mode, CodecNtp.ntp_mode, to_np. reflexivity. Qed.
Print Assumptions gen_ntp_Packet_Mode_eq.

Lemma gen_ntp_Packet_SetLeapIndicator_eq : forall p l,
  option_map to_np (Gen.ntp_Packet_SetLeapIndicator p l) = CodecNtp.ntp_set_leap (to_np p) l.
Proof.
  intros p l. unfold Gen.ntp_Packet_SetLeapIndicator, CodecNtp.ntp_set_leap.
  destruct (Z.land l 3 =? l); cbn [negb option_map]; [|reflexivity].
  destruct p. unfold Gen.set_ntp_Packet_LVM, CodecNtp.with_lvm, to_np.
  cbn [Gen.ntp_Packet_LVM Gen.ntp_Packet_Stratum Gen.ntp_Packet_Poll Gen.ntp_Packet_Precision
       Gen.ntp_Packet_RootDelay Gen.ntp_Packet_RootDispersion Gen.ntp_Packet_ReferenceID
       Gen.ntp_Packet_ReferenceTime Gen.ntp_Packet_OriginTime Gen.ntp_Packet_ReceiveTime Gen.ntp_Packet_TransmitTime
       np_lvm np_stratum np_poll np_precision np_rdelay_s np_rdelay_f np_rdisp_s np_rdisp_f np_refid
       np_ref_s np_ref_f np_org_s np_org_f np_rx_s np_rx_f np_tx_s np_tx_f].
  goraw. reflexivity.
Qed.
Print Assumptions gen_ntp_Packet_SetLeapIndicator_eq.

Lemma gen_ntp_Packet_SetVersion_eq : forall p v,
  option_map to_np (Gen.ntp_Packet_SetVersion p v) = CodecNtp.ntp_set_version (to_np p) v.
Proof.
  intros p v. unfold Gen.ntp_Packet_SetVersion, CodecNtp.ntp_set_version.
  destruct (Z.land v 7 =? v); cbn [negb option_map]; [|reflexivity].
  destruct p. unfold Gen.set_ntp_Packet_LVM, CodecNtp.with_lvm, to_np.
  cbn [Gen.ntp_Packet_LVM Gen.ntp_Packet_Stratum Gen.ntp_Packet_Poll Gen.ntp_Packet_Precision
       Gen.ntp_Packet_RootDelay Gen.ntp_Packet_RootDispersion Gen.ntp_Packet_ReferenceID
       Gen.ntp_Packet_ReferenceTime Gen.ntp_Packet_OriginTime Gen.ntp_Packet_ReceiveTime Gen.ntp_Packet_TransmitTime
       np_lvm np_stratum np_poll np_precision np_rdelay_s np_rdelay_f np_rdisp_s np_rdisp_f np_refid
       np_ref_s np_ref_f np_org_s np_org_f np_rx_s np_rx_f np_tx_s np_tx_f].
  goraw. reflexivity.
Qed.
Print Assumptions gen_ntp_Packet_SetVersion_eq.

Lemma gen_ntp_Packet_SetMode_eq : forall p m,
  option_map to_np (Gen.ntp_Packet_SetMode p m) = CodecNtp.ntp_set_mode (to_np p) m.
Proof.
  intros p m. unfold Gen.ntp_Packet_SetMode, CodecNtp.ntp_set_mode.
  destruct (Z.land m 7 =? m); cbn [negb option_map]; [|reflexivity].
  destruct p. unfold Gen.set_ntp_Packet_LVM, CodecNtp.with_lvm, to_np.
  cbn [Gen.ntp_Packet_LVM Gen.ntp_Packet_Stratum Gen.ntp_Packet_Poll Gen.ntp_Packet_Precision
       Gen.ntp_Packet_RootDelay Gen.ntp_Packet_RootDispersion Gen.ntp_Packet_ReferenceID
       Gen.ntp_Packet_ReferenceTime Gen.ntp_Packet_OriginTime Gen.ntp_Packet_ReceiveTime Gen.ntp_Packet_TransmitTime
       np_lvm np_stratum np_poll np_precision np_rdelay_s np_rdelay_f np_rdisp_s np_rdisp_f np_refid
       np_ref_s np_ref_f np_org_s np_org_f np_rx_s np_rx_f np_tx_s np_tx_f].
  reflexivity.
Qed.
Print Assumptions gen_ntp_Packet_SetMode_eq.

(* the model keeps a TLV as the list of its field values, FlagField being element 4 *)
Lemma gen_csptp_EncodedRequestTLVLength_eq : forall tlv t,
  nth 4 t 0 = Gen.csptp_RequestTLV_FlagField tlv ->
  Gen.csptp_EncodedRequestTLVLength tlv = Z.of_nat (CodecCsptp.tlv_len t).
Proof.
  intros tlv t H. unfold Gen.csptp_EncodedRequestTLVLength, CodecCsptp.tlv_len, CodecCsptp.ssds_flag.
  rewrite H. cbv zeta. change (wrap_i64 (36 + 18)) with 54.
  destruct (Z.land (Gen.csptp_RequestTLV_FlagField tlv) 1 =? 1); reflexivity.
Qed.
Print Assumptions gen_csptp_EncodedRequestTLVLength_eq.

Lemma gen_csptp_EncodedResponseTLVLength_eq : forall tlv t,
  nth 4 t 0 = Gen.csptp_ResponseTLV_FlagField tlv ->
  Gen.csptp_EncodedResponseTLVLength tlv = Z.of_nat (CodecCsptp.tlv_len t).
Proof.
  intros tlv t H. unfold Gen.csptp_EncodedResponseTLVLength, CodecCsptp.tlv_len, CodecCsptp.ssds_flag.
  rewrite H. cbv zeta. change (wrap_i64 (36 + 18)) with 54.
  destruct (Z.land (Gen.csptp_ResponseTLV_FlagField tlv) 1 =? 1); reflexivity.
Qed.
Print Assumptions gen_csptp_EncodedResponseTLVLength_eq.
