(* C06/C07: ntp.Time64.Before / After as translated from the current source are the order
   ST.Model.Tss uses (NtpTime.t64_before / t64_after). *)
From Coq Require Import ZArith Bool List Lia.
From ST Require Import Base.Ints Model.NtpTime Model.Tss GenLib.GoSem GenLib.GoSemBridge.
From STGen Require Import Gen.
Open Scope Z_scope.

Definition to_t64 (g : Gen.ntp_Time64) : NtpTime.time64 :=
  {| t64_sec := Gen.ntp_Time64_Seconds g; t64_frac := Gen.ntp_Time64_Fraction g |}.

Lemma gen_ntp_Time64_Before_eq : forall t u,
  Gen.ntp_Time64_Before t u = NtpTime.t64_before (to_t64 t) (to_t64 u).
Proof. intros [ts tf] [us uf]. unfold Gen.ntp_Time64_Before, NtpTime.t64_before, to_t64. reflexivity. Qed.
Print Assumptions gen_ntp_Time64_Before_eq.

Lemma gen_ntp_Time64_After_eq : forall t u,
  Gen.ntp_Time64_After t u = NtpTime.t64_after (to_t64 t) (to_t64 u).
Proof. intros [ts tf] [us uf]. unfold Gen.ntp_Time64_After, NtpTime.t64_after, to_t64. reflexivity. Qed.
Print Assumptions gen_ntp_Time64_After_eq.
