(* C05: net/ntp/validation.go as translated from the current source against ST.Model.ClientAccept. *)
From Coq Require Import ZArith Bool List Lia.
From ST Require Import Base.Ints Model.NtpTime Model.ClientAccept GenLib.GoSem GenLib.GoSemBridge.
From STGen Require Import Gen.
Open Scope Z_scope.

Definition to_t64 (g : Gen.ntp_Time64) : NtpTime.time64 :=
  {| t64_sec := Gen.ntp_Time64_Seconds g; t64_frac := Gen.ntp_Time64_Fraction g |}.
(* the header fields the model's client reads *)
Definition to_hdr (p : Gen.ntp_Packet) : ClientAccept.ntp_hdr :=
  {| h_lvm := Gen.ntp_Packet_LVM p; h_stratum := Gen.ntp_Packet_Stratum p;
     h_org := to_t64 (Gen.ntp_Packet_OriginTime p); h_rx := to_t64 (Gen.ntp_Packet_ReceiveTime p);
     h_tx := to_t64 (Gen.ntp_Packet_TransmitTime p) |}.

Lemma gen_ntp_ValidateResponseMetadata_eq : forall p,
  Gen.ntp_ValidateResponseMetadata p =
  if ClientAccept.metadata_ok (to_hdr p) then 0 else Gen.err_ntp_errUnexpectedResponse.
Proof.
  intros p.
  unfold Gen.ntp_ValidateResponseMetadata, Gen.ntp_Packet_LeapIndicator, Gen.ntp_Packet_Version,
    Gen.ntp_Packet_Mode, go_shr, ClientAccept.metadata_ok, leap_of, version_of, mode_of, to_hdr, err_nil.
  cbn [h_lvm h_stratum].
  rewrite lvm_leap, lvm_version, lvm_mode, (Z.leb_antisym 15).
  destruct (Gen.ntp_Packet_LVM p / 64 mod 4 =? 3), (Gen.ntp_Packet_LVM p / 8 mod 8 =? 3),
    (Gen.ntp_Packet_LVM p / 8 mod 8 =? 4), (Gen.ntp_Packet_LVM p mod 8 =? 4),
    (Gen.ntp_Packet_Stratum p =? 0), (15 <? Gen.ntp_Packet_Stratum p); reflexivity.
Qed.
Print Assumptions gen_ntp_ValidateResponseMetadata_eq.

(* the two tests of the model's evaluate step: SFail EClock, then SFail EResponse *)
Lemma gen_ntp_ValidateResponseTimestamps_eq : forall t0 t1 t2 t3,
  Gen.ntp_ValidateResponseTimestamps t0 t1 t2 t3 =
  if NtpTime.time_sub t3 t0 <? 0 then Gen.err_ntp_errUnexpectedClockBehavior
  else if NtpTime.time_sub t2 t1 <? 0 then Gen.err_ntp_errUnexpectedResponse else 0.
Proof. intros. unfold Gen.ntp_ValidateResponseTimestamps. goraw. reflexivity. Qed.
Print Assumptions gen_ntp_ValidateResponseTimestamps_eq.

Lemma gen_ntp_ClockOffset_eq : forall t0 t1 t2 t3,
  Gen.ntp_ClockOffset t0 t1 t2 t3 = NtpTime.clock_offset t0 t1 t2 t3.
Proof. intros. unfold Gen.ntp_ClockOffset, NtpTime.clock_offset. goraw. reflexivity. Qed.
Print Assumptions gen_ntp_ClockOffset_eq.
