(* C03: net/ntp ClockOffset, RoundTripDelay, ValidateResponseMetadata, ValidateResponseTimestamps as
   translated from the current source, against ST.Model.NtpTime / ST.Model.Exchange. *)
From Coq Require Import ZArith Bool List Lia.
From ST Require Import Base.Ints Model.NtpTime Model.Exchange GenLib.GoSem GenLib.GoSemBridge.
From STGen Require Import Gen.
Open Scope Z_scope.

Lemma gen_ntp_ClockOffset_eq : forall t0 t1 t2 t3,
  Gen.ntp_ClockOffset t0 t1 t2 t3 = NtpTime.clock_offset t0 t1 t2 t3.
Proof. intros. unfold Gen.ntp_ClockOffset, NtpTime.clock_offset. goraw. reflexivity. Qed.
Print Assumptions gen_ntp_ClockOffset_eq.

Lemma gen_ntp_RoundTripDelay_eq : forall t0 t1 t2 t3,
  Gen.ntp_RoundTripDelay t0 t1 t2 t3 = NtpTime.round_trip_delay t0 t1 t2 t3.
Proof. intros. unfold Gen.ntp_RoundTripDelay, NtpTime.round_trip_delay. goraw. reflexivity. Qed.
Print Assumptions gen_ntp_RoundTripDelay_eq.

Definition to_t64 (g : Gen.ntp_Time64) : NtpTime.time64 :=
  {| t64_sec := Gen.ntp_Time64_Seconds g; t64_frac := Gen.ntp_Time64_Fraction g |}.
(* the fields of ntp.Packet the model's packet keeps *)
Definition to_pkt (p : Gen.ntp_Packet) : Exchange.pkt :=
  {| k_lvm := Gen.ntp_Packet_LVM p; k_stratum := Gen.ntp_Packet_Stratum p;
     k_org := to_t64 (Gen.ntp_Packet_OriginTime p); k_rx := to_t64 (Gen.ntp_Packet_ReceiveTime p);
     k_tx := to_t64 (Gen.ntp_Packet_TransmitTime p) |}.

(* ValidateResponseMetadata returns nil exactly when the model's metadata_ok holds; every other
   return value is errUnexpectedResponse *)
Lemma gen_ntp_ValidateResponseMetadata_eq : forall p,
  Gen.ntp_ValidateResponseMetadata p =
  if Exchange.metadata_ok (to_pkt p) then 0 else Gen.err_ntp_errUnexpectedResponse.
Proof.
  intros p.
  unfold Gen.ntp_ValidateResponseMetadata, Gen.ntp_Packet_LeapIndicator, Gen.ntp_Packet_Version,
    Gen.ntp_Packet_Mode, go_shr, Exchange.metadata_ok, pkt_li, pkt_vn, pkt_mode, to_pkt, err_nil.
  cbn [k_lvm k_stratum].
  rewrite lvm_leap, lvm_version, lvm_mode, (Z.leb_antisym 15).
  destruct (Gen.ntp_Packet_LVM p / 64 mod 4 =? 3), (Gen.ntp_Packet_LVM p / 8 mod 8 =? 3),
    (Gen.ntp_Packet_LVM p / 8 mod 8 =? 4), (Gen.ntp_Packet_LVM p mod 8 =? 4),
    (Gen.ntp_Packet_Stratum p =? 0), (15 <? Gen.ntp_Packet_Stratum p); reflexivity.
Qed.
Print Assumptions gen_ntp_ValidateResponseMetadata_eq.

(* ValidateResponseTimestamps is the model's named function Exchange.timestamps_ok (which
   process_response calls), error values mapped to the model's error classes *)
Definition err_of_class (e : Z) : Z :=
  if e =? Exchange.E_clock then Gen.err_ntp_errUnexpectedClockBehavior
  else if e =? Exchange.E_response then Gen.err_ntp_errUnexpectedResponse
  else 0.

Lemma gen_ntp_ValidateResponseTimestamps_eq : forall t0 t1 t2 t3,
  Gen.ntp_ValidateResponseTimestamps t0 t1 t2 t3 = err_of_class (Exchange.timestamps_ok t0 t1 t2 t3).
Proof.
  intros.
  assert (H : Gen.ntp_ValidateResponseTimestamps t0 t1 t2 t3 =
              if NtpTime.time_sub t3 t0 <? 0 then Gen.err_ntp_errUnexpectedClockBehavior
              else if NtpTime.time_sub t2 t1 <? 0 then Gen.err_ntp_errUnexpectedResponse else 0)
    by (unfold Gen.ntp_ValidateResponseTimestamps; goraw; reflexivity).
  rewrite H. unfold Exchange.timestamps_ok, err_of_class.
  destruct (NtpTime.time_sub t3 t0 <? 0); [reflexivity|].
  destruct (NtpTime.time_sub t2 t1 <? 0); reflexivity.
Qed.
Print Assumptions gen_ntp_ValidateResponseTimestamps_eq.
