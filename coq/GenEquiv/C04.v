(* C04: net/ntp/ntp.go Time64FromTime, TimeFromTime64, Time64.Before/After as translated from the
   current source are the functions of ST.Model.NtpTime. *)
From Coq Require Import ZArith Bool List Lia.
From ST Require Import Base.Ints Model.NtpTime GenLib.GoSem GenLib.GoSemBridge.
From STGen Require Import Gen.
Open Scope Z_scope.

Definition to_t64 (g : Gen.ntp_Time64) : NtpTime.time64 :=
  {| t64_sec := Gen.ntp_Time64_Seconds g; t64_frac := Gen.ntp_Time64_Fraction g |}.

Lemma gen_ntp_Time64FromTime_eq : forall t,
  to_t64 (Gen.ntp_Time64FromTime t) = NtpTime.time64_of_time t.
Proof.
  intros t. unfold Gen.ntp_Time64FromTime, NtpTime.time64_of_time, to_t64.
  cbn [Gen.ntp_Time64_Seconds Gen.ntp_Time64_Fraction].
  unfold shl_i64. rewrite (Z.shiftl_mul_pow2 _ 32) by lia. change (2 ^ 32) with 4294967296.
  goraw. reflexivity.
Qed.
Print Assumptions gen_ntp_Time64FromTime_eq.

(* The model compares sec with tref - 2^31 and tref + 2^31 computed exactly, the code computes
   them in int64.  They agree unless the reference time lies within 2^31 s of the ends of the
   int64 range of Unix seconds (about 2.9e11 years from now); see the witness below. *)
Lemma gen_ntp_TimeFromTime64_eq : forall x t0,
  -9223372036854775808 + 2147483648 <= time_sec t0 < 9223372036854775808 - 2147483648 ->
  Gen.ntp_TimeFromTime64 x t0 = NtpTime.time_of_time64 (to_t64 x) t0.
Proof.
  intros [s f] t0 H.
  unfold Gen.ntp_TimeFromTime64, NtpTime.time_of_time64, NtpTime.unfold_sec, NtpTime.nsec_of_frac, to_t64.
  cbn [Gen.ntp_Time64_Seconds Gen.ntp_Time64_Fraction t64_sec t64_frac].
  cbv zeta. unfold time_sec, nanos_per_sec, time_Unix in *.
  rewrite (wrap_i64_id (t0 / 1000000000 - 2147483648)) by (unfold GoSem.in_i64; lia).
  rewrite (wrap_i64_id (t0 / 1000000000 + 2147483648)) by (unfold GoSem.in_i64; lia).
  rewrite !(wrap_i64_add_l (-2208988800 + _) s).
  change (go_div secs_per_era 2) with 2147483648.
  goraw.
  match goal with |- context [if ?c <? _ then _ else _] => set (sec := c) end.
  destruct (sec <? t0 / 1000000000 - 2147483648); [reflexivity|].
  destruct (t0 / 1000000000 + 2147483648 <=? sec); reflexivity.
Qed.
Print Assumptions gen_ntp_TimeFromTime64_eq.

(* below that range model and code differ: reference time -2^63 s, timestamp seconds 0 (the code
   wraps tref - 2^31 to a large positive number and always adds an era) *)
Example witness_ntp_TimeFromTime64_differs :
  let t0 := (-9223372036854775808) * 1000000000 in
  let x := Gen.Build_ntp_Time64 0 0 in
  Gen.ntp_TimeFromTime64 x t0 <> NtpTime.time_of_time64 (to_t64 x) t0.
Proof. vm_compute. discriminate. Qed.

Lemma gen_ntp_Time64_Before_eq : forall t u,
  Gen.ntp_Time64_Before t u = NtpTime.t64_before (to_t64 t) (to_t64 u).
Proof. intros [ts tf] [us uf]. unfold Gen.ntp_Time64_Before, NtpTime.t64_before, to_t64. reflexivity. Qed.
Print Assumptions gen_ntp_Time64_Before_eq.

Lemma gen_ntp_Time64_After_eq : forall t u,
  Gen.ntp_Time64_After t u = NtpTime.t64_after (to_t64 t) (to_t64 u).
Proof. intros [ts tf] [us uf]. unfold Gen.ntp_Time64_After, NtpTime.t64_after, to_t64. reflexivity. Qed.
Print Assumptions gen_ntp_Time64_After_eq.
