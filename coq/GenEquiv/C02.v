(* C02: the scalar functions of base/timemath and core/measurements as the translator reads them
   from the current source (STGen.Gen) are the functions of the hand-written models ST.Model.Ftm (durations) and
   ST.Model.FtmMeas (measurements, time.Time as int64 seconds + nanoseconds). *)
From Coq Require Import ZArith Bool List Lia.
From ST Require Import Base.Ints Model.NtpTime Model.Ftm Model.FtmMeas Proofs.FtmMeasProofs GenLib.GoSem GenLib.GoSemBridge.
From STGen Require Import Gen.
Open Scope Z_scope.

Lemma gen_timemath_Sgn_eq : forall d, Gen.timemath_Sgn d = Ftm.sgn d.
Proof. reflexivity. Qed.
Print Assumptions gen_timemath_Sgn_eq.

(* the model writes -d without a wrap: equal for every int64 d (d is a time.Duration) *)
Lemma gen_timemath_Inv_eq : forall d, Ints.in_i64 d -> Gen.timemath_Inv d = Ftm.inv d.
Proof.
  intros d Hd. unfold Gen.timemath_Inv, Ftm.inv, Ints.in_i64, min_i64, max_i64 in *.
  destruct (d =? -9223372036854775808) eqn:E; [reflexivity|].
  apply wrap_i64_id. unfold GoSem.in_i64. lia.
Qed.
Print Assumptions gen_timemath_Inv_eq.

Lemma gen_timemath_Midpoint_eq : forall x y, Gen.timemath_Midpoint x y = Ftm.midpoint x y.
Proof.
  intros. unfold Gen.timemath_Midpoint, Ftm.midpoint. gobridge. reflexivity.
Qed.
Print Assumptions gen_timemath_Midpoint_eq.

(* measurements.Measurement {Timestamp, Offset, Error} against the model's record.  The translator models a
   time.Time as ONE unbounded integer of Unix nanoseconds (GoSem: time_Sub saturating, time_Add exact, After = >);
   the model FtmMeas as Go stores it: int64 seconds since year 1 and nanoseconds, Add with saturating seconds, Sub
   with the wrapping difference and the Add/Equal overflow check.  gt_of_unix converts; the model keeps of the error
   only whether it is nil.

   Range hypothesis: FtmMeas.unix_repr u, i.e.  MinInt64 * 10^9 <= u + 62135596800 * 10^9 < 2^63 * 10^9.
   That is exactly the set of time.Time values (Proofs.FtmMeasProofs.unix_range_exact: gt_unix maps the well-formed
   times onto it, gt_of_unix back), so the two time models agree on midpoint for ALL representable times - the zero
   time.Time{}, times more than 292 years apart (saturating Sub) and both ends of the range included; outside it the
   translator's integer denotes no time.Time at all. *)
Definition to_tmeas (g : Gen.measurements_Measurement) : FtmMeas.tmeas :=
  {| tm_ts := gt_of_unix (Gen.measurements_Measurement_Timestamp g);
     tm_off := Gen.measurements_Measurement_Offset g;
     tm_err := negb (Gen.measurements_Measurement_Error g =? 0) |}.

Lemma gen_measurements_midpoint_eq : forall x y,
  unix_repr (Gen.measurements_Measurement_Timestamp x) -> unix_repr (Gen.measurements_Measurement_Timestamp y) ->
  to_tmeas (Gen.measurements_midpoint x y) = FtmMeas.tmidpoint (to_tmeas x) (to_tmeas y).
Proof.
  intros [xt xo xe] [yt yo ye]. cbn [Gen.measurements_Measurement_Timestamp]. intros Hx Hy.
  destruct (proj2 unix_range_exact xt Hx) as [Wx Ux]. destruct (proj2 unix_range_exact yt Hy) as [Wy Uy].
  set (X := {| tm_ts := gt_of_unix xt; tm_off := xo; tm_err := negb (xe =? 0) |}).
  set (Y := {| tm_ts := gt_of_unix yt; tm_off := yo; tm_err := negb (ye =? 0) |}).
  change (to_tmeas (Build_measurements_Measurement xt xo xe)) with X.
  change (to_tmeas (Build_measurements_Measurement yt yo ye)) with Y.
  pose proof (tmid_ts_wf X Y Wx Wy) as Wr. pose proof (tmid_ts_value X Y Wx Wy) as Vr. cbv zeta in Vr.
  assert (Ax : gt_abs (tm_ts X) = xt + unix_off) by (unfold gt_unix in Ux; cbn [tm_ts X]; lia).
  assert (Ay : gt_abs (tm_ts Y) = yt + unix_off) by (unfold gt_unix in Uy; cbn [tm_ts Y]; lia).
  rewrite Ax, Ay in Vr.
  (* the translated function, field by field *)
  unfold Gen.measurements_midpoint, to_tmeas, Gen.set_measurements_Measurement_Offset,
    Gen.set_measurements_Measurement_Timestamp, Gen.zero_measurements_Measurement, time_After, time_Add.
  cbn [Gen.measurements_Measurement_Timestamp Gen.measurements_Measurement_Offset Gen.measurements_Measurement_Error].
  assert (Ht : gt_of_unix (if negb (yt <? xt) then xt + quot_i64 (time_Sub yt xt) 2 else yt + quot_i64 (time_Sub xt yt) 2)
               = tm_ts (tmidpoint X Y)).
  { apply gt_abs_inj; [| exact Wr |].
    - apply gt_of_abs_wf. unfold unix_repr in *.
      destruct (Z.ltb_spec yt xt); cbn [negb]; gobridge; unfold time_sub, go_div, sat64 in *;
        bcases; rewrite i64_id' by (consts; lia); consts; lia.
    - unfold gt_of_unix. rewrite gt_abs_of_abs, Vr. unfold unix_repr in *.
      destruct (Z.ltb_spec yt xt); cbn [negb]; gobridge; unfold time_sub, go_div, sat64 in *;
        bcases; rewrite i64_id' by (consts; lia); consts; lia. }
  destruct (negb (yt <? xt));
    cbn [Gen.measurements_Measurement_Timestamp Gen.measurements_Measurement_Offset Gen.measurements_Measurement_Error];
    rewrite Ht; unfold tmidpoint, Ftm.midpoint; cbn [tm_off tm_err X Y]; gobridge; reflexivity.
Qed.
Print Assumptions gen_measurements_midpoint_eq.
