(* C02: the scalar functions of base/timemath and core/measurements as the translator reads them
   from the current source (STGen.Gen) are the functions of the hand-written model ST.Model.Ftm. *)
From Coq Require Import ZArith Bool List Lia.
From ST Require Import Base.Ints Model.NtpTime Model.Ftm GenLib.GoSem GenLib.GoSemBridge.
From STGen Require Import Gen.
Open Scope Z_scope.

Lemma gen_timemath_Sgn_eq : forall d, Gen.timemath_Sgn d = Ftm.sgn d.
Proof. reflexivity. Qed.
Print Assumptions gen_timemath_Sgn_eq.

(* the model writes -d without a wrap: equal for every int64 d (d is a time.Duration) *)
Lemma gen_timemath_Inv_eq : forall d, Ints.in_i64 d -> Gen.timemath_Inv d = Ftm.inv d.
Proof.
  intros d Hd. unfold Gen.timemath_Inv, Ftm.inv, Ints.in_i64, min_i64, max_i64 in *.
  destruct (d =? -9223372036854775808) eqn:E; [reflexivity|].
  apply wrap_i64_id. unfold GoSem.in_i64. lia.
Qed.
Print Assumptions gen_timemath_Inv_eq.

Lemma gen_timemath_Midpoint_eq : forall x y, Gen.timemath_Midpoint x y = Ftm.midpoint x y.
Proof.
  intros. unfold Gen.timemath_Midpoint, Ftm.midpoint. gobridge. reflexivity.
Qed.
Print Assumptions gen_timemath_Midpoint_eq.

(* measurements.Measurement {Timestamp, Offset, Error} against the model's record: the model keeps
   of the error only whether it is nil *)
Definition to_meas (g : Gen.measurements_Measurement) : Ftm.meas :=
  {| m_ts := Gen.measurements_Measurement_Timestamp g;
     m_off := Gen.measurements_Measurement_Offset g;
     m_err := negb (Gen.measurements_Measurement_Error g =? 0) |}.

Lemma gen_measurements_midpoint_eq : forall x y,
  to_meas (Gen.measurements_midpoint x y) = Ftm.midpoint_m (to_meas x) (to_meas y).
Proof.
  intros [xt xo xe] [yt yo ye].
  unfold Gen.measurements_midpoint, Ftm.midpoint_m, Ftm.midpoint, to_meas,
    Gen.set_measurements_Measurement_Offset, Gen.set_measurements_Measurement_Timestamp,
    Gen.zero_measurements_Measurement, time_After, time_Add.
  cbn [m_ts m_off m_err Gen.measurements_Measurement_Timestamp Gen.measurements_Measurement_Offset
       Gen.measurements_Measurement_Error].
  destruct (yt <? xt);
    cbn [negb m_ts m_off m_err Gen.measurements_Measurement_Timestamp Gen.measurements_Measurement_Offset
         Gen.measurements_Measurement_Error];
    change (negb (0 =? 0)) with false; gobridge; reflexivity.
Qed.
Print Assumptions gen_measurements_midpoint_eq.
