#!/bin/sh
# Builds the whole framework from files on disk (offline): Coq development
# (full .vo build), extracted OCaml runner, Go harness commands.
set -e
cd "$(dirname "$0")"
mkdir -p build/extracted build/bin build/tmp evidence replays
( cd coq && coq_makefile -f _CoqProject -o Makefile >/dev/null && make -j16 )
( cd build/extracted && coqc -Q ../../coq ST ../../coq/Extract/Extract.v && cp ../../ocaml/driver.ml . \
  && ocamlfind ocamlopt -O2 -w -a model.mli model.ml driver.ml -o ../runner )
export GOFLAGS=-mod=mod GOPROXY=off GOEXPERIMENT=synctest
unset GOSUMDB GOTOOLCHAIN || true
cp /repo/go.sum harness/go.sum
( cd harness && for d in cmd/*/; do n=$(basename "$d"); go build -tags verif -o ../build/bin/"$n" ./cmd/"$n" || echo "setup: harness $n did not build"; done )
echo setup done
