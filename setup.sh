#!/bin/sh
# Builds the whole framework from files on disk (offline): Coq development
# (full .vo build), then per property the extracted OCaml runner and the Go
# harness command (tools/buildall.py does what ./check does for one property).
set -e
cd "$(dirname "$0")"
mkdir -p build/extracted build/bin build/tmp evidence replays
python3 tools/gencoqproject.py
( cd coq && coq_makefile -f _CoqProject -o Makefile >/dev/null && make -j16 )
python3 tools/buildall.py
echo setup done
