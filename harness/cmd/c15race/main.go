// C15 (thorough tier): histories of the real MeasureClockOffsetSCION with two
// or more NTS clients per round under the Go race detector (built with -race):
// all clients of a round share the remote address they are given.  The run
// happens in a child process; a report of the race detector is the observation
// of case kind mp.race.  The code is in verifharness/c15lib.
package main

import "verifharness/c15lib"

func main() { c15lib.Main(true) }
