package main

import (
	"strings"

	c "verifharness/c02lib"
	"verifharness/lib"
)

// parseLists splits "[a b] [c d]" or "[[a b c] [d e f]] [t t]" into top-level bracket groups.
func parseGroups(s string) []string {
	var out []string
	depth, start := 0, -1
	for i, c := range s {
		switch c {
		case '[':
			if depth == 0 {
				start = i + 1
			}
			depth++
		case ']':
			depth--
			if depth == 0 {
				out = append(out, s[start:i])
			}
		}
	}
	return out
}

func ints(s string) []int64 {
	var out []int64
	for _, f := range strings.Fields(s) {
		out = append(out, lib.ParseI(f))
	}
	return out
}

func hasPrefix(kind string, ps ...string) bool {
	for _, p := range ps {
		if strings.HasPrefix(kind, p) {
			return true
		}
	}
	return false
}

func mrecs(s string) []c.Mrec {
	var in []c.Mrec
	for _, m := range parseGroups(s) {
		f := ints(m)
		in = append(in, c.Mrec{Sec: f[0], Nsec: f[1], Off: f[2], Err: f[3] != 0})
	}
	return in
}

func replay(kind, args string) {
	g := parseGroups(args)
	switch {
	case kind == "ftm.perm":
		put2(c.PermLine(ints(g[0]), ints(g[1])))
	case kind == "ftm.meas.perm" || kind == "ftm.meas.tieorder":
		// recover the index permutation from the two recorded orders
		a, b := mrecs(g[0]), mrecs(g[1])
		used := make([]bool, len(a))
		perm := make([]int64, len(b))
		for i, m := range b {
			for j, x := range a {
				if !used[j] && x == m {
					used[j], perm[i] = true, int64(j)
					break
				}
			}
		}
		put2(c.MeasPermLine(kind, a, perm))
	case kind == "ftm.meas.utc":
		put(c.UTCLine())
	case hasPrefix(kind, "ftm.dur", "median.dur"):
		put(c.DurLine(kind, ints(g[0]), ints(g[1])))
	case hasPrefix(kind, "ftm.meas", "median.meas"):
		put(c.MeasLine(kind, mrecs(g[0]), ints(g[1])))
	case hasPrefix(kind, "ftm.midpoint"):
		f := ints(args)
		put(c.MidLine(f[0], f[1]))
	case kind == "ftm.sgninv":
		put(c.SgnInvLine(ints(args)[0]))
	}
}
