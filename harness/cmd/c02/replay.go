package main

import (
	"strings"
	"time"

	"example.com/scion-time/base/timemath"

	"verifharness/lib"
)

// parseLists splits "[a b] [c d]" or "[[a b c] [d e f]] [t t]" into top-level bracket groups.
func parseGroups(s string) []string {
	var out []string
	depth, start := 0, -1
	for i, c := range s {
		switch c {
		case '[':
			if depth == 0 {
				start = i + 1
			}
			depth++
		case ']':
			depth--
			if depth == 0 {
				out = append(out, s[start:i])
			}
		}
	}
	return out
}

func ints(s string) []int64 {
	var out []int64
	for _, f := range strings.Fields(s) {
		out = append(out, lib.ParseI(f))
	}
	return out
}

func replay(kind, args string) {
	g := parseGroups(args)
	switch kind {
	case "ftm.dur", "median.dur":
		durCase(kind, ints(g[0]), ints(g[1]))
	case "ftm.perm":
		vs, p := ints(g[0]), ints(g[1])
		f1 := timemath.FaultTolerantMidpoint(durs(vs))
		m1 := timemath.Median(durs(vs))
		f2 := timemath.FaultTolerantMidpoint(durs(p))
		m2 := timemath.Median(durs(p))
		w.Case("ftm.perm", "", lib.V(lib.IL(vs), lib.IL(p)), lib.V(lib.I(int64(f1)), lib.I(int64(m1)), lib.I(int64(f2)), lib.I(int64(m2))))
	case "ftm.meas", "median.meas":
		var in []mrec
		for _, m := range parseGroups(g[0]) {
			f := ints(m)
			in = append(in, mrec{f[0], f[1], f[2] != 0})
		}
		measCase(kind, in, ints(g[1]))
	case "ftm.midpoint":
		f := ints(args)
		w.Case("ftm.midpoint", "", args, lib.I(int64(timemath.Midpoint(time.Duration(f[0]), time.Duration(f[1])))))
	case "ftm.sgninv":
		f := ints(args)
		w.Case("ftm.sgninv", "", args, lib.V(lib.I(int64(timemath.Sgn(time.Duration(f[0])))), lib.I(int64(timemath.Inv(time.Duration(f[0]))))))
	}
}
