package main

import (
	"strings"

	"verifharness/lib"
)

// parseLists splits "[a b] [c d]" or "[[a b c] [d e f]] [t t]" into top-level bracket groups.
func parseGroups(s string) []string {
	var out []string
	depth, start := 0, -1
	for i, c := range s {
		switch c {
		case '[':
			if depth == 0 {
				start = i + 1
			}
			depth++
		case ']':
			depth--
			if depth == 0 {
				out = append(out, s[start:i])
			}
		}
	}
	return out
}

func ints(s string) []int64 {
	var out []int64
	for _, f := range strings.Fields(s) {
		out = append(out, lib.ParseI(f))
	}
	return out
}

func replay(kind, args string) {
	g := parseGroups(args)
	switch kind {
	case "ftm.dur", "median.dur", "ftm.dur.big", "median.dur.big":
		durCase(kind, ints(g[0]), ints(g[1]))
	case "ftm.perm":
		permCase(ints(g[0]), ints(g[1]))
	case "ftm.meas", "median.meas", "ftm.meas.big", "median.meas.big", "ftm.meas.far", "median.meas.far":
		var in []mrec
		for _, m := range parseGroups(g[0]) {
			f := ints(m)
			in = append(in, mrec{f[0], f[1], f[2], f[3] != 0})
		}
		measCase(kind, in, ints(g[1]))
	case "ftm.midpoint", "ftm.midpoint.beyond":
		f := ints(args)
		midCase(f[0], f[1])
	case "ftm.sgninv":
		sgnInvCase(ints(args)[0])
	}
}
