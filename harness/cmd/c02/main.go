// C02: timemath.{Midpoint,Median,FaultTolerantMidpoint,Sgn,Inv} and measurements.{Median,FaultTolerantMidpoint}.
package main

import (
	"errors"
	"math"
	"strings"
	"time"

	"example.com/scion-time/base/timemath"
	"example.com/scion-time/core/measurements"

	"verifharness/lib"
)

var w *lib.Writer

const lim = int64(1) << 62

func durs(xs []int64) []time.Duration {
	d := make([]time.Duration, len(xs))
	for i, x := range xs {
		d[i] = time.Duration(x)
	}
	return d
}

func fmtDurs(d []time.Duration) string {
	s := make([]string, len(d))
	for i, x := range d {
		s[i] = lib.I(int64(x))
	}
	return lib.L(s...)
}

func nontrivial(vs, tags []int64) bool {
	if len(vs) < 4 {
		return false
	}
	lo, hi := int64(math.MaxInt64), int64(math.MinInt64)
	nb := 0
	for i, v := range vs {
		if tags[i] != 0 {
			if v < lo {
				lo = v
			}
			if v > hi {
				hi = v
			}
		} else {
			nb++
		}
	}
	if nb == 0 || nb > (len(vs)-1)/3 {
		return false
	}
	for i, v := range vs {
		if tags[i] == 0 && (v < lo || v > hi) {
			return true
		}
	}
	return false
}

func durCase(kind string, vs, tags []int64) {
	d := durs(vs)
	pan := false
	var res time.Duration
	func() {
		defer func() {
			if recover() != nil {
				pan = true
			}
		}()
		if kind == "ftm.dur" {
			res = timemath.FaultTolerantMidpoint(d)
		} else {
			res = timemath.Median(d)
		}
	}()
	t := ""
	if nontrivial(vs, tags) {
		t = "nt"
	}
	after := fmtDurs(d)
	if pan {
		after = "[]"
	}
	w.Case(kind, t, lib.V(lib.IL(vs), lib.IL(tags)), lib.V(lib.Bool(pan), lib.I(int64(res)), after))
}

func permCase(r *lib.Rng, vs []int64) {
	if len(vs) == 0 {
		return
	}
	p := append([]int64(nil), vs...)
	for i := len(p) - 1; i > 0; i-- {
		j := r.Intn(i + 1)
		p[i], p[j] = p[j], p[i]
	}
	f1 := timemath.FaultTolerantMidpoint(durs(vs))
	m1 := timemath.Median(durs(vs))
	f2 := timemath.FaultTolerantMidpoint(durs(p))
	m2 := timemath.Median(durs(p))
	t := ""
	if len(vs) >= 4 {
		t = "nt"
	}
	w.Case("ftm.perm", t, lib.V(lib.IL(vs), lib.IL(p)), lib.V(lib.I(int64(f1)), lib.I(int64(m1)), lib.I(int64(f2)), lib.I(int64(m2))))
}

type mrec struct {
	ts, off int64
	err     bool
}

var someErr = errors.New("measurement failed")

func fmtMeas(ms []measurements.Measurement) string {
	s := make([]string, len(ms))
	for i, m := range ms {
		s[i] = lib.L(lib.I(m.Timestamp.UnixNano()), lib.I(int64(m.Offset)), lib.Bool(m.Error != nil))
	}
	return lib.L(s...)
}

func measCase(kind string, in []mrec, tags []int64) {
	ms := make([]measurements.Measurement, len(in))
	for i, m := range in {
		ms[i] = measurements.Measurement{Timestamp: time.Unix(0, m.ts), Offset: time.Duration(m.off)}
		if m.err {
			ms[i].Error = someErr
		}
	}
	before := fmtMeas(ms)
	pan := false
	var res measurements.Measurement
	func() {
		defer func() {
			if recover() != nil {
				pan = true
			}
		}()
		if kind == "ftm.meas" {
			res = measurements.FaultTolerantMidpoint(ms)
		} else {
			res = measurements.Median(ms)
		}
	}()
	vs := make([]int64, len(in))
	for i, m := range in {
		vs[i] = m.off
	}
	t := ""
	if nontrivial(vs, tags) || len(in) >= 4 && strings.Contains(before, " 1]") {
		t = "nt"
	}
	after := fmtMeas(ms)
	resS := lib.L("0", "0", "0")
	if !pan {
		resS = lib.L(lib.I(res.Timestamp.UnixNano()), lib.I(int64(res.Offset)), lib.Bool(res.Error != nil))
	} else {
		after = "[]"
	}
	w.Case(kind, t, lib.V(before, lib.IL(tags)), lib.V(lib.Bool(pan), resS, after))
}

func genVal(r *lib.Rng, base int64) int64 {
	switch r.Intn(10) {
	case 0:
		return lib.Pick(r, lim-1, -(lim - 1), lim-2, -(lim - 2))
	case 1:
		return base + r.Range(-3, 3)
	case 2:
		return base
	case 3:
		return r.Range(-(lim - 1), lim-1)
	case 4:
		return r.Range(-1000, 1000)
	case 5:
		return base + r.Range(-1000000, 1000000)*2 + 1 // odd values
	default:
		return base + r.Range(-1000000000, 1000000000)
	}
}

// genTagged produces n values of which up to (n-1)/3 are tagged arbitrary
// and placed adversarially.
func genTagged(r *lib.Rng, n int) ([]int64, []int64) {
	base := lib.Pick(r, int64(0), 1000000, -5000000000, r.Range(-(lim / 2), lim/2))
	vs := make([]int64, n)
	tags := make([]int64, n)
	for i := range vs {
		vs[i] = genVal(r, base)
		tags[i] = 1
	}
	if n == 0 {
		return vs, tags
	}
	nb := r.Intn((n-1)/3 + 1)
	if r.Intn(3) > 0 {
		nb = (n - 1) / 3
	}
	mode := r.Intn(5)
	for k := 0; k < nb; k++ {
		i := r.Intn(n)
		tags[i] = 0
		switch mode {
		case 0:
			vs[i] = lim - 1 - r.Range(0, 5)
		case 1:
			vs[i] = -(lim - 1) + r.Range(0, 5)
		case 2:
			if k%2 == 0 {
				vs[i] = lim - 1 - r.Range(0, 5)
			} else {
				vs[i] = -(lim - 1) + r.Range(0, 5)
			}
		case 3:
			vs[i] = r.Range(-(lim - 1), lim-1)
		default:
			vs[i] = genVal(r, base)
		}
	}
	return vs, tags
}

func main() {
	a := lib.ParseArgs()
	w = lib.NewWriter(a.Out)
	defer w.Close()
	if a.Replay != "" {
		// replay regenerates from the recorded inputs
		for _, c := range lib.ReplayLines(a.Replay) {
			replay(c[0], c[2])
		}
		return
	}
	r := lib.NewRng(a.Seed)
	n := 1500
	if a.Tier == "thorough" {
		n = 30000
	}
	// corpus
	durCase("ftm.dur", []int64{3}, []int64{1})
	durCase("ftm.dur", []int64{1001, 1 << 61, 1001, 1001}, []int64{1, 0, 1, 1})
	durCase("median.dur", []int64{5, 5}, []int64{1, 1})
	durCase("ftm.dur", nil, nil)
	durCase("median.dur", nil, nil)
	measCase("ftm.meas", nil, nil)
	measCase("ftm.meas", []mrec{{100, -50000000, false}, {200, 0, true}, {300, 10000000, false}, {400, 20000000, false}}, []int64{1, 1, 1, 1})
	for i := 0; i < n; i++ {
		k := r.Intn(13)
		if r.Intn(4) == 0 {
			k = r.Intn(41)
		}
		vs, tags := genTagged(r, k)
		durCase("ftm.dur", append([]int64(nil), vs...), tags)
		durCase("median.dur", append([]int64(nil), vs...), tags)
		permCase(r, vs)
		// measurements
		in := make([]mrec, k)
		for j := range in {
			in[j] = mrec{ts: lib.Pick(r, r.Range(0, 1000), r.Range(1600000000000000000, 1800000000000000000), r.I64()/2), off: vs[j], err: r.Intn(5) == 0}
		}
		measCase("ftm.meas", in, tags)
		measCase("median.meas", in, tags)
		x, y := genVal(r, 0), genVal(r, 0)
		if r.Intn(6) == 0 {
			x, y = r.I64(), r.I64() // outside the theorem's bound; still compared with the model
		}
		w.Case("ftm.midpoint", "", lib.V(lib.I(x), lib.I(y)), lib.I(int64(timemath.Midpoint(time.Duration(x), time.Duration(y)))))
		z := lib.Pick(r, math.MinInt64, math.MaxInt64, 0, 1, -1, r.I64())
		w.Case("ftm.sgninv", "", lib.I(z), lib.V(lib.I(int64(timemath.Sgn(time.Duration(z)))), lib.I(int64(timemath.Inv(time.Duration(z))))))
	}
}
