// C02: timemath.{Midpoint,Median,FaultTolerantMidpoint,Sgn,Inv} and measurements.{Median,FaultTolerantMidpoint}.
package main

import (
	"errors"
	"math"
	"math/big"
	"time"

	"example.com/scion-time/base/timemath"
	"example.com/scion-time/core/measurements"

	"verifharness/lib"
)

var w *lib.Writer

const lim = int64(1) << 62

// seconds from January 1, year 1 to January 1, 1970 (time.unixToInternal)
const unixToInternal = int64(62135596800)

func durs(xs []int64) []time.Duration {
	d := make([]time.Duration, len(xs))
	for i, x := range xs {
		d[i] = time.Duration(x)
	}
	return d
}

func fmtDurs(d []time.Duration) string {
	s := make([]string, len(d))
	for i, x := range d {
		s[i] = lib.I(int64(x))
	}
	return lib.L(s...)
}

func nontrivial(vs, tags []int64) bool {
	if len(vs) < 4 {
		return false
	}
	lo, hi := int64(math.MaxInt64), int64(math.MinInt64)
	nb := 0
	for i, v := range vs {
		if tags[i] != 0 {
			if v < lo {
				lo = v
			}
			if v > hi {
				hi = v
			}
		} else {
			nb++
		}
	}
	if nb == 0 || nb > (len(vs)-1)/3 {
		return false
	}
	for i, v := range vs {
		if tags[i] == 0 && (v < lo || v > hi) {
			return true
		}
	}
	return false
}

func isFtm(kind string) bool { return len(kind) >= 3 && kind[:3] == "ftm" }

func durCase(kind string, vs, tags []int64) {
	d := durs(vs)
	pan := false
	var res time.Duration
	func() {
		defer func() {
			if recover() != nil {
				pan = true
			}
		}()
		if isFtm(kind) {
			res = timemath.FaultTolerantMidpoint(d)
		} else {
			res = timemath.Median(d)
		}
	}()
	t := ""
	if nontrivial(vs, tags) {
		t = "nt"
		if (len(vs)-1)/3 > 0 && countBad(tags) == (len(vs)-1)/3 {
			t += ",fmax"
		}
	}
	after := fmtDurs(d)
	if pan {
		after = "[]"
	}
	w.Case(kind, t, lib.V(lib.IL(vs), lib.IL(tags)), lib.V(lib.Bool(pan), lib.I(int64(res)), after))
}

func countBad(tags []int64) int {
	n := 0
	for _, t := range tags {
		if t == 0 {
			n++
		}
	}
	return n
}

func shuffled(r *lib.Rng, vs []int64) []int64 {
	p := append([]int64(nil), vs...)
	for i := len(p) - 1; i > 0; i-- {
		j := r.Intn(i + 1)
		p[i], p[j] = p[j], p[i]
	}
	return p
}

func permCase(vs, p []int64) {
	if len(vs) == 0 {
		return
	}
	f1 := timemath.FaultTolerantMidpoint(durs(vs))
	m1 := timemath.Median(durs(vs))
	f2 := timemath.FaultTolerantMidpoint(durs(p))
	m2 := timemath.Median(durs(p))
	t := ""
	if len(vs) >= 4 {
		t = "nt"
	}
	w.Case("ftm.perm", t, lib.V(lib.IL(vs), lib.IL(p)), lib.V(lib.I(int64(f1)), lib.I(int64(m1)), lib.I(int64(f2)), lib.I(int64(m2))))
}

// A measurement as it crosses the boundary: sec = seconds since January 1, year 1 (the ext field of a
// wall-clock time.Time, any int64), nsec = nanoseconds within the second, off = Offset, err = (Error != nil).
type mrec struct {
	sec, nsec, off int64
	err            bool
}

var someErr = errors.New("measurement failed")

// mkTime builds the time.Time with the given internal seconds and nanoseconds the way the project obtains its
// timestamps (time.Unix(..).UTC(): no monotonic reading); (0, 0) is the zero time.Time{}.
func mkTime(sec, nsec int64) time.Time {
	if sec == 0 && nsec == 0 {
		return time.Time{}
	}
	return time.Unix(sec-unixToInternal, nsec).UTC() // int64 subtraction wraps; unixTime adds the constant back
}

func obsTime(t time.Time) (int64, int64) {
	return t.Unix() + unixToInternal, int64(t.Nanosecond())
}

func absNs(sec, nsec int64) *big.Int {
	x := new(big.Int).Mul(big.NewInt(sec), big.NewInt(1000000000))
	return x.Add(x, big.NewInt(nsec))
}

func fmtMeas(ms []measurements.Measurement) string {
	s := make([]string, len(ms))
	for i, m := range ms {
		sec, nsec := obsTime(m.Timestamp)
		s[i] = lib.L(lib.I(sec), lib.I(nsec), lib.I(int64(m.Offset)), lib.Bool(m.Error != nil))
	}
	return lib.L(s...)
}

func measCase(kind string, in []mrec, tags []int64) {
	ms := make([]measurements.Measurement, len(in))
	anyErr := false
	for i, m := range in {
		ms[i] = measurements.Measurement{Timestamp: mkTime(m.sec, m.nsec), Offset: time.Duration(m.off)}
		if m.err {
			ms[i].Error = someErr
			anyErr = true
		}
	}
	before := fmtMeas(ms)
	pan := false
	var res measurements.Measurement
	func() {
		defer func() {
			if recover() != nil {
				pan = true
			}
		}()
		if isFtm(kind) {
			res = measurements.FaultTolerantMidpoint(ms)
		} else {
			res = measurements.Median(ms)
		}
	}()
	vs := make([]int64, len(in))
	for i, m := range in {
		vs[i] = m.off
	}
	nt := nontrivial(vs, tags) || len(in) >= 4 && anyErr
	var tg []string
	n := len(ms)
	if !pan && n > 0 {
		// the two selected measurements, read off the slice as the implementation left it
		i, j := (n-1)/3, n-1-(n-1)/3
		if !isFtm(kind) {
			if n%2 == 0 {
				i, j = n/2-1, n/2
			} else {
				i, j = n/2, n/2
			}
		}
		x, y := ms[i], ms[j]
		xs, xn := obsTime(x.Timestamp)
		ys, yn := obsTime(y.Timestamp)
		d := new(big.Int).Sub(absNs(xs, xn), absNs(ys, yn))
		if d.Abs(d).Cmp(big.NewInt(math.MaxInt64)) > 0 {
			tg = append(tg, "sat") // Time.Sub saturates on the selected pair
			nt = true
		}
		if i != j && (x.Timestamp.IsZero() || y.Timestamp.IsZero()) {
			tg = append(tg, "zero")
			nt = true
		}
		if i != j && x.Timestamp.Equal(y.Timestamp) && x.Offset != y.Offset {
			tg = append(tg, "eqts")
			nt = true
		}
		if x.Error != nil || y.Error != nil {
			tg = append(tg, "errsel") // an errored measurement is selected: the result's Error must still be nil
		}
		if i > 0 && ms[i-1].Offset == x.Offset || j+1 < n && ms[j+1].Offset == y.Offset || i != j && x.Offset == y.Offset {
			tg = append(tg, "tie") // which record is selected is the unstable sort's choice
		}
	}
	t := ""
	if nt {
		t = "nt"
	}
	for _, s := range tg {
		if t != "" {
			t += ","
		}
		t += s
	}
	after := fmtMeas(ms)
	resS := lib.L("0", "0", "0", "0")
	if !pan {
		sec, nsec := obsTime(res.Timestamp)
		resS = lib.L(lib.I(sec), lib.I(nsec), lib.I(int64(res.Offset)), lib.Bool(res.Error != nil))
	} else {
		after = "[]"
	}
	w.Case(kind, t, lib.V(before, lib.IL(tags)), lib.V(lib.Bool(pan), resS, after))
}

func midCase(x, y int64) {
	r := int64(timemath.Midpoint(time.Duration(x), time.Duration(y)))
	in := func(v int64) bool { return v > -lim && v < lim }
	if in(x) && in(y) {
		t := ""
		if x != y {
			t = "nt"
		}
		w.Case("ftm.midpoint", t, lib.V(lib.I(x), lib.I(y)), lib.I(r))
		return
	}
	// outside the property's bound: compared with the model only
	t := "nt"
	d := new(big.Int).Sub(big.NewInt(y), big.NewInt(x))
	if !d.IsInt64() {
		t += ",wrap" // y-x does not fit int64
	}
	w.Case("ftm.midpoint.beyond", t, lib.V(lib.I(x), lib.I(y)), lib.I(r))
}

func sgnInvCase(z int64) {
	w.Case("ftm.sgninv", "", lib.I(z), lib.V(lib.I(int64(timemath.Sgn(time.Duration(z)))), lib.I(int64(timemath.Inv(time.Duration(z))))))
}

func genVal(r *lib.Rng, base int64) int64 {
	switch r.Intn(10) {
	case 0:
		return lib.Pick(r, lim-1, -(lim - 1), lim-2, -(lim - 2))
	case 1:
		return base + r.Range(-3, 3)
	case 2:
		return base
	case 3:
		return r.Range(-(lim - 1), lim-1)
	case 4:
		return r.Range(-1000, 1000)
	case 5:
		return base + r.Range(-1000000, 1000000)*2 + 1 // odd values
	default:
		return base + r.Range(-1000000000, 1000000000)
	}
}

// genTagged produces n values of which up to (n-1)/3 are tagged arbitrary
// and placed adversarially.
func genTagged(r *lib.Rng, n int) ([]int64, []int64) {
	base := lib.Pick(r, int64(0), 1000000, -5000000000, r.Range(-(lim / 2), lim/2))
	vs := make([]int64, n)
	tags := make([]int64, n)
	for i := range vs {
		vs[i] = genVal(r, base)
		tags[i] = 1
	}
	if n == 0 {
		return vs, tags
	}
	nb := r.Intn((n-1)/3 + 1)
	if r.Intn(3) > 0 {
		nb = (n - 1) / 3
	}
	mode := r.Intn(5)
	for k := 0; k < nb; k++ {
		i := r.Intn(n)
		tags[i] = 0
		switch mode {
		case 0:
			vs[i] = lim - 1 - r.Range(0, 5)
		case 1:
			vs[i] = -(lim - 1) + r.Range(0, 5)
		case 2:
			if k%2 == 0 {
				vs[i] = lim - 1 - r.Range(0, 5)
			} else {
				vs[i] = -(lim - 1) + r.Range(0, 5)
			}
		case 3:
			vs[i] = r.Range(-(lim - 1), lim-1)
		default:
			vs[i] = genVal(r, base)
		}
	}
	return vs, tags
}

// genBig: n values, EXACTLY f = (n-1)/3 of them arbitrary, at random positions of the slice, all of them
// above every correct value (place 0), all below (1), or split between both sides (2).  The arbitrary values
// are at the far end of the permitted range or just outside the range of the correct ones.
func genBig(r *lib.Rng, n, place int) ([]int64, []int64) {
	base := lib.Pick(r, int64(0), 1000000, -5000000000, r.Range(-(lim / 4), lim/4))
	spread := lib.Pick(r, int64(0), 3, 1000, 1000000000)
	vs := make([]int64, n)
	tags := make([]int64, n)
	lo, hi := int64(math.MaxInt64), int64(math.MinInt64)
	f := (n - 1) / 3
	pos := make([]int64, n)
	for i := range pos {
		pos[i] = int64(i)
	}
	pos = shuffled(r, pos)
	bad := map[int]bool{}
	for _, p := range pos[:f] {
		bad[int(p)] = true
	}
	for i := range vs {
		if bad[i] {
			continue
		}
		vs[i] = base + r.Range(-spread, spread)
		tags[i] = 1
		if vs[i] < lo {
			lo = vs[i]
		}
		if vs[i] > hi {
			hi = vs[i]
		}
	}
	near := r.Intn(3) == 0
	k := 0
	for i := range vs {
		if !bad[i] {
			continue
		}
		high := place == 0 || place == 2 && k%2 == 0
		k++
		switch {
		case high && near:
			vs[i] = hi + 1 + r.Range(0, 3)
		case high:
			vs[i] = lim - 1 - r.Range(0, 1000)
		case near:
			vs[i] = lo - 1 - r.Range(0, 3)
		default:
			vs[i] = -(lim - 1) + r.Range(0, 1000)
		}
	}
	return vs, tags
}

// modern wall-clock seconds since year 1 (about 2025)
const modernSec = int64(63871000000)

// addNs returns (sec, nsec) + d nanoseconds, in int64 seconds arithmetic; ok is false when the seconds leave int64.
func addNs(sec, nsec int64, d *big.Int) (int64, int64, bool) {
	a := absNs(sec, nsec)
	a.Add(a, d)
	q, m := new(big.Int).DivMod(a, big.NewInt(1000000000), new(big.Int))
	if !q.IsInt64() {
		return 0, 0, false
	}
	return q.Int64(), m.Int64(), true
}

func genTime(r *lib.Rng, prev []mrec) (int64, int64) {
	nsec := lib.Pick(r, int64(0), 999999999, 1, r.Range(0, 999999999))
	switch r.Intn(12) {
	case 0, 1:
		return 0, 0 // time.Time{}
	case 2, 3:
		return modernSec + r.Range(-100000000, 100000000), nsec
	case 4: // a time exactly MaxInt64 ns (+- a few) from an earlier one: the edge of Sub's saturation
		if len(prev) > 0 {
			p := prev[r.Intn(len(prev))]
			d := new(big.Int).Add(big.NewInt(math.MaxInt64), big.NewInt(r.Range(-2, 2)))
			if r.Bool() {
				d.Neg(d)
			}
			if s, n, ok := addNs(p.sec, p.nsec, d); ok {
				return s, n
			}
		}
		return modernSec + 9223372036, nsec
	case 5: // the ends of time.Time's range
		return lib.Pick(r, int64(math.MinInt64), math.MinInt64+1, math.MaxInt64, math.MaxInt64-1,
			math.MaxInt64-9223372036, math.MinInt64+9223372037, math.MaxInt64-9223372037, math.MinInt64+9223372036), nsec
	case 6: // Unix epoch, the ends of UnixNano's range
		return lib.Pick(r, unixToInternal, unixToInternal-9223372037, unixToInternal+9223372036, unixToInternal-1), nsec
	case 7:
		return r.I64(), nsec
	case 8, 9: // equal to an earlier timestamp, or in the same second
		if len(prev) > 0 {
			p := prev[r.Intn(len(prev))]
			if r.Bool() {
				return p.sec, p.nsec
			}
			return p.sec, nsec
		}
		return modernSec, nsec
	case 10: // a few hundred years around now
		return modernSec + r.Range(-20000000000, 20000000000), nsec
	default:
		return r.Range(0, 1000), nsec
	}
}

// genFar: few measurements whose timestamps are the zero time, far apart, at the ends of the range, or equal
func genFar(r *lib.Rng, n int) ([]mrec, []int64) {
	in := make([]mrec, 0, n)
	tags := make([]int64, n)
	base := lib.Pick(r, int64(0), 1000000, -5000000000)
	for i := 0; i < n; i++ {
		sec, nsec := genTime(r, in)
		off := base + r.Range(-20, 20)
		if r.Intn(4) == 0 && i > 0 {
			off = in[r.Intn(i)].off // ties
		}
		m := mrec{sec: sec, nsec: nsec, off: off, err: r.Intn(6) == 0}
		if sec == 0 && nsec == 0 && r.Bool() {
			m.err, m.off = true, 0 // what a failed measurement looks like in the project
		}
		in = append(in, m)
		tags[i] = 1
	}
	return in, tags
}

func withTimes(r *lib.Rng, vs []int64) []mrec {
	in := make([]mrec, len(vs))
	for j := range in {
		sec := lib.Pick(r, unixToInternal+r.Range(0, 1000), modernSec+r.Range(-100000000, 100000000), unixToInternal+r.I64()/4000000000)
		in[j] = mrec{sec: sec, nsec: r.Range(0, 999999999), off: vs[j], err: r.Intn(5) == 0}
		if r.Intn(40) == 0 {
			in[j].sec, in[j].nsec = 0, 0
		}
	}
	return in
}

func main() {
	a := lib.ParseArgs()
	w = lib.NewWriter(a.Out)
	defer w.Close()
	if a.Replay != "" {
		// replay regenerates from the recorded inputs
		for _, c := range lib.ReplayLines(a.Replay) {
			replay(c[0], c[2])
		}
		return
	}
	r := lib.NewRng(a.Seed)
	n := 1500
	rounds := 1
	if a.Tier == "thorough" {
		n = 30000
		rounds = 10
	}
	// corpus
	durCase("ftm.dur", []int64{3}, []int64{1})
	durCase("ftm.dur", []int64{1001, 1 << 61, 1001, 1001}, []int64{1, 0, 1, 1})
	durCase("median.dur", []int64{5, 5}, []int64{1, 1})
	durCase("ftm.dur", nil, nil)
	durCase("median.dur", nil, nil)
	measCase("ftm.meas", nil, nil)
	measCase("median.meas", nil, nil)
	measCase("ftm.meas", []mrec{{unixToInternal, 100, -50000000, false}, {unixToInternal, 200, 0, true}, {unixToInternal, 300, 10000000, false}, {unixToInternal, 400, 20000000, false}}, []int64{1, 1, 1, 1})
	// the zero time.Time{} against a modern time: Sub saturates, in both argument orders
	for _, kind := range []string{"ftm.meas.far", "median.meas.far"} {
		measCase(kind, []mrec{{0, 0, 0, true}, {modernSec, 5, 7, false}}, []int64{1, 1})
		measCase(kind, []mrec{{modernSec, 5, -7, false}, {0, 0, 0, true}}, []int64{1, 1})
		measCase(kind, []mrec{{modernSec, 5, 1, false}, {modernSec, 5, 9, false}}, []int64{1, 1})
		measCase(kind, []mrec{{math.MinInt64, 0, 1, false}, {math.MaxInt64, 999999999, 2, false}}, []int64{1, 1})
		measCase(kind, []mrec{{math.MaxInt64, 999999999, 1, false}, {math.MinInt64, 0, 2, false}}, []int64{1, 1})
		measCase(kind, []mrec{{math.MaxInt64, 0, 1, false}, {math.MaxInt64 - 9223372036, 145224193, 2, false}}, []int64{1, 1})
		measCase(kind, []mrec{{math.MinInt64, 999999999, 1, false}, {math.MinInt64 + 9223372037, 854775806, 2, false}}, []int64{1, 1})
		measCase(kind, []mrec{{0, 0, 4, true}}, []int64{1})
	}
	for _, p := range [][2]int64{{3, 3}, {1, 2}, {2, 1}, {-1, -2}, {-2, -1}, {-1, 2}, {2, -1}, {lim - 1, -(lim - 1)}, {-(lim - 1), lim - 1},
		{lim - 1, lim - 1}, {-(lim - 1), -(lim - 1)}, {lim - 1, lim - 2}, {0, lim - 1}, {-(lim - 1), 0},
		// at and beyond the bound
		{-lim, lim}, {lim, -lim}, {lim, lim}, {math.MinInt64, math.MaxInt64}, {math.MaxInt64, math.MinInt64},
		{math.MaxInt64, math.MaxInt64 - 1}, {math.MinInt64, math.MinInt64 + 1}, {math.MinInt64, 0}, {0, math.MinInt64}, {-1, math.MaxInt64}, {lim, -(lim - 1)}} {
		midCase(p[0], p[1])
	}
	for i := 0; i < n; i++ {
		k := r.Intn(13)
		if r.Intn(4) == 0 {
			k = r.Intn(41)
		}
		vs, tags := genTagged(r, k)
		durCase("ftm.dur", append([]int64(nil), vs...), tags)
		durCase("median.dur", append([]int64(nil), vs...), tags)
		permCase(vs, shuffled(r, vs))
		// measurements
		in := withTimes(r, vs)
		measCase("ftm.meas", in, tags)
		measCase("median.meas", in, tags)
		// zero / far-apart / equal timestamps
		far, ftags := genFar(r, 1+r.Intn(9))
		measCase("ftm.meas.far", far, ftags)
		measCase("median.meas.far", far, ftags)
		x, y := genVal(r, 0), genVal(r, 0)
		switch r.Intn(8) {
		case 0:
			x, y = r.I64(), r.I64() // outside the property's bound; compared with the model only
		case 1:
			y = x + r.Range(-3, 3)
		case 2:
			x, y = lim-1-r.Range(0, 3), -(lim-1)+r.Range(0, 3)
			if r.Bool() {
				x, y = y, x
			}
		}
		midCase(x, y)
		sgnInvCase(lib.Pick(r, math.MinInt64, math.MaxInt64, 0, 1, -1, r.I64()))
	}
	// every n in 1..200 with exactly floor((n-1)/3) arbitrary values, all-high / all-low / split
	for round := 0; round < rounds; round++ {
		for k := 1; k <= 200; k++ {
			for place := 0; place < 3; place++ {
				vs, tags := genBig(r, k, place)
				durCase("ftm.dur.big", append([]int64(nil), vs...), tags)
				if place == (k+round)%3 {
					durCase("median.dur.big", append([]int64(nil), vs...), tags)
					permCase(vs, shuffled(r, vs))
					in := withTimes(r, vs)
					measCase("ftm.meas.big", in, tags)
					measCase("median.meas.big", in, tags)
				}
			}
		}
	}
}
