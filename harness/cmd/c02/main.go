// C02: timemath.{Midpoint,Median,FaultTolerantMidpoint,Sgn,Inv} and measurements.{Median,FaultTolerantMidpoint}.
// The recorders and generators live in verifharness/c02lib (shared with cmd/c02race).
package main

import (
	"math"

	c "verifharness/c02lib"
	"verifharness/lib"
)

var w *lib.Writer

func put(l c.Line) { w.Case(l.Kind, l.Tags, l.Args, l.Outs) }
func put2(l c.Line, ok bool) {
	if ok {
		put(l)
	}
}

func cp(vs []int64) []int64 { return append([]int64(nil), vs...) }

func main() {
	a := lib.ParseArgs()
	w = lib.NewWriter(a.Out)
	defer w.Close()
	if a.Replay != "" {
		// replay regenerates from the recorded inputs
		for _, l := range lib.ReplayLines(a.Replay) {
			replay(l[0], l[2])
		}
		return
	}
	r := lib.NewRng(a.Seed)
	n := 1500
	rounds := 1
	if a.Tier == "thorough" {
		n = 30000
		rounds = 10
	}
	const lim = c.Lim
	// corpus
	put(c.DurLine("ftm.dur", []int64{3}, []int64{1}))
	put(c.DurLine("ftm.dur", []int64{1001, 1 << 61, 1001, 1001}, []int64{1, 0, 1, 1}))
	put(c.DurLine("median.dur", []int64{5, 5}, []int64{1, 1}))
	put(c.DurLine("ftm.dur", nil, nil))
	put(c.DurLine("median.dur", nil, nil))
	put(c.MeasLine("ftm.meas", nil, nil))
	put(c.MeasLine("median.meas", nil, nil))
	put(c.UTCLine())
	u := c.UnixToInternal
	put(c.MeasLine("ftm.meas", []c.Mrec{{u, 100, -50000000, false}, {u, 200, 0, true}, {u, 300, 10000000, false}, {u, 400, 20000000, false}}, []int64{1, 1, 1, 1}))
	// the zero time.Time{} against a modern time: Sub saturates, in both argument orders
	for _, kind := range []string{"ftm.meas.far", "median.meas.far"} {
		put(c.MeasLine(kind, []c.Mrec{{0, 0, 0, true}, {c.ModernSec, 5, 7, false}}, []int64{1, 1}))
		put(c.MeasLine(kind, []c.Mrec{{c.ModernSec, 5, -7, false}, {0, 0, 0, true}}, []int64{1, 1}))
		put(c.MeasLine(kind, []c.Mrec{{c.ModernSec, 5, 1, false}, {c.ModernSec, 5, 9, false}}, []int64{1, 1}))
		put(c.MeasLine(kind, []c.Mrec{{math.MinInt64, 0, 1, false}, {math.MaxInt64, 999999999, 2, false}}, []int64{1, 1}))
		put(c.MeasLine(kind, []c.Mrec{{math.MaxInt64, 999999999, 1, false}, {math.MinInt64, 0, 2, false}}, []int64{1, 1}))
		put(c.MeasLine(kind, []c.Mrec{{math.MaxInt64, 0, 1, false}, {math.MaxInt64 - 9223372036, 145224193, 2, false}}, []int64{1, 1}))
		put(c.MeasLine(kind, []c.Mrec{{math.MinInt64, 999999999, 1, false}, {math.MinInt64 + 9223372037, 854775806, 2, false}}, []int64{1, 1}))
		put(c.MeasLine(kind, []c.Mrec{{0, 0, 4, true}}, []int64{1}))
	}
	// order of the inputs, measurements.  Pinned: the witness of C02_meas_tie_order_refuted (three measurements with
	// equal offsets, timestamps 1 s, 2 s, 3 s, in two orders) under the property text taken literally, and the same
	// timestamps with pairwise distinct offsets (where the text does hold).
	tie := []c.Mrec{{1, 0, 0, false}, {2, 0, 0, false}, {3, 0, 0, false}}
	put2(c.MeasPermLine("ftm.meas.tieorder", tie, []int64{0, 2, 1}))
	put2(c.MeasPermLine("ftm.meas.tieorder", []c.Mrec{{1, 0, 10, false}, {2, 0, 20, false}, {3, 0, 30, false}}, []int64{0, 2, 1}))
	put2(c.MeasPermLine("ftm.meas.perm", tie, []int64{0, 2, 1}))
	for _, p := range [][2]int64{{3, 3}, {1, 2}, {2, 1}, {-1, -2}, {-2, -1}, {-1, 2}, {2, -1}, {lim - 1, -(lim - 1)}, {-(lim - 1), lim - 1},
		{lim - 1, lim - 1}, {-(lim - 1), -(lim - 1)}, {lim - 1, lim - 2}, {0, lim - 1}, {-(lim - 1), 0},
		// at and beyond the bound
		{-lim, lim}, {lim, -lim}, {lim, lim}, {math.MinInt64, math.MaxInt64}, {math.MaxInt64, math.MinInt64},
		{math.MaxInt64, math.MaxInt64 - 1}, {math.MinInt64, math.MinInt64 + 1}, {math.MinInt64, 0}, {0, math.MinInt64}, {-1, math.MaxInt64}, {lim, -(lim - 1)}} {
		put(c.MidLine(p[0], p[1]))
	}
	for i := 0; i < n; i++ {
		k := r.Intn(13)
		if r.Intn(4) == 0 {
			k = r.Intn(41)
		}
		vs, tags := c.GenTagged(r, k)
		put(c.DurLine("ftm.dur", cp(vs), tags))
		put(c.DurLine("median.dur", cp(vs), tags))
		put2(c.PermLine(vs, c.Shuffled(r, vs)))
		// measurements
		in := c.WithTimes(r, vs)
		put(c.MeasLine("ftm.meas", in, tags))
		put(c.MeasLine("median.meas", in, tags))
		// zero / far-apart / equal timestamps
		far, ftags := c.GenFar(r, 1+r.Intn(9))
		put(c.MeasLine("ftm.meas.far", far, ftags))
		put(c.MeasLine("median.meas.far", far, ftags))
		// the same measurements in another order
		if r.Bool() {
			put2(c.MeasPermLine("ftm.meas.perm", in, c.ShuffledPerm(r, len(in))))
		} else {
			put2(c.MeasPermLine("ftm.meas.perm", far, c.ShuffledPerm(r, len(far))))
		}
		x, y := c.GenVal(r, 0), c.GenVal(r, 0)
		switch r.Intn(8) {
		case 0:
			x, y = r.I64(), r.I64() // outside the property's bound; compared with the model only
		case 1:
			y = x + r.Range(-3, 3)
		case 2:
			x, y = lim-1-r.Range(0, 3), -(lim-1)+r.Range(0, 3)
			if r.Bool() {
				x, y = y, x
			}
		}
		put(c.MidLine(x, y))
		put(c.SgnInvLine(lib.Pick(r, math.MinInt64, math.MaxInt64, 0, 1, -1, r.I64())))
	}
	// every n in 1..200 with exactly floor((n-1)/3) arbitrary values, all-high / all-low / split
	for round := 0; round < rounds; round++ {
		for k := 1; k <= 200; k++ {
			for place := 0; place < 3; place++ {
				vs, tags := c.GenBig(r, k, place)
				put(c.DurLine("ftm.dur.big", cp(vs), tags))
				if place == (k+round)%3 {
					put(c.DurLine("median.dur.big", cp(vs), tags))
					put2(c.PermLine(vs, c.Shuffled(r, vs)))
					in := c.WithTimes(r, vs)
					put(c.MeasLine("ftm.meas.big", in, tags))
					put(c.MeasLine("median.meas.big", in, tags))
				}
			}
		}
	}
	// sparse large sizes (a size-dependent path of the sort or of the selection above 256 elements)
	for round := 0; round < rounds; round++ {
		for _, k := range []int{257, 1000, 5000} {
			for place := 0; place < 3; place++ {
				if k > 257 && place != (k/1000+round)%3 {
					continue
				}
				vs, tags := c.GenBig(r, k, place)
				put(c.DurLine("ftm.dur.huge", cp(vs), tags))
				if k <= 1000 {
					put(c.DurLine("median.dur.huge", cp(vs), tags))
					in := c.WithTimes(r, vs)
					put(c.MeasLine("ftm.meas.huge", in, tags))
					put(c.MeasLine("median.meas.huge", in, tags))
				}
			}
		}
	}
	// the functions called from several goroutines at once on independent inputs (sync.Run calls
	// FaultTolerantMidpoint from two goroutines per round): every result is compared with the model
	per := 150
	if a.Tier == "thorough" {
		per = 1500
	}
	for _, l := range c.Concurrent(r, 8, per) {
		put(l)
	}
}
