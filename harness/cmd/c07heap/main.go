// C07 (thorough tier): layout of the priority queue.
//
// (a) kind tss.hist (same case format as harness/cmd/c06): histories on the
// real handleRequest / updateTXTimestamp of core/server with MANY clients
// (16..64), so that the queue array tssQ is several levels deep when
// heap.Push / heap.Fix / heap.Remove run; the queue array in heap order is
// recorded after every operation and must equal, slot by slot, the array of
// the verified container/heap model (Model/TssHeap.v).
//
// (b) kind heap.ops: the real container/heap of the Go toolchain driven on a
// queue type with the methods of core/server's tssQueue (Less = the real
// ntp.Time64.Before, Swap maintaining qidx) by random Push / Pop / Remove /
// Fix sequences with many ties, arrays up to ~200 slots.  heap.Pop of the real
// store can only be reached by filling it with 2^20 clients (kind tss.flood of
// cmd/c06, which records no layout); here every Pop's result and the array
// after it are compared with the model.
package main

import (
	"container/heap"
	"fmt"
	"os"
	"strconv"
	"strings"
	"time"

	"example.com/scion-time/core/server"
	"example.com/scion-time/core/timebase"
	"example.com/scion-time/net/ntp"

	"verifharness/lib"
)

type fakeClock struct{ now time.Time }

func (c *fakeClock) Epoch() uint64                                     { return 0 }
func (c *fakeClock) Now() time.Time                                    { return c.now }
func (c *fakeClock) Drift(d time.Duration) time.Duration               { return 0 }
func (c *fakeClock) Step(offset time.Duration)                         {}
func (c *fakeClock) Adjust(offset, duration time.Duration, f float64) {}
func (c *fakeClock) Sleep(d time.Duration)                             {}

var (
	clk = &fakeClock{}
	w   *lib.Writer
)

const baseSec = int64(1717171717)

func t64num(t ntp.Time64) uint64 { return uint64(t.Seconds)<<32 | uint64(t.Fraction) }
func t64of(x uint64) ntp.Time64  { return ntp.Time64{Seconds: uint32(x >> 32), Fraction: uint32(x)} }
func ns(t time.Time) int64       { return t.Unix()*1e9 + int64(t.Nanosecond()) }
func tm(n int64) time.Time       { return time.Unix(n/1e9, n%1e9).UTC() }
func key(cid int64) string       { return "c" + strconv.FormatInt(cid, 10) }
func cidOf(k string) int64       { v, _ := strconv.ParseInt(k[1:], 10, 64); return v }

// ---------- (a) deep histories on the real store ----------

type op struct {
	kind          int // 0 handle, 1 update
	cid           int64
	org, rx, tx   uint64
	rxt, now, txt int64
}

func fmtItem(s server.VerifTSSSnapshot, cid int64) string {
	k := key(cid)
	for _, it := range s.Items {
		if it.Key == k {
			es := make([]string, len(it.Entries))
			for i, e := range it.Entries {
				es[i] = lib.L(lib.U(t64num(e.Rxt)), lib.U(t64num(e.Txt)))
			}
			return lib.L(lib.U(t64num(it.Qval)), lib.I(int64(it.Qidx)), lib.L(es...))
		}
	}
	return "[]"
}

func fmtQueue(s server.VerifTSSSnapshot) string {
	qv := map[string]uint64{}
	for _, it := range s.Items {
		qv[it.Key] = t64num(it.Qval)
	}
	q := make([]string, len(s.Queue))
	for i, k := range s.Queue {
		q[i] = lib.L(lib.I(cidOf(k)), lib.U(qv[k]))
	}
	return lib.L(q...)
}

func fmtFinal(s server.VerifTSSSnapshot) string {
	items := append([]server.VerifTSSItem(nil), s.Items...)
	for i := 1; i < len(items); i++ {
		for j := i; j > 0 && cidOf(items[j].Key) < cidOf(items[j-1].Key); j-- {
			items[j], items[j-1] = items[j-1], items[j]
		}
	}
	out := make([]string, len(items))
	for i, it := range items {
		es := make([]string, len(it.Entries))
		for j, e := range it.Entries {
			es[j] = lib.L(lib.U(t64num(e.Rxt)), lib.U(t64num(e.Txt)))
		}
		out[i] = lib.L(lib.I(cidOf(it.Key)), lib.U(t64num(it.Qval)), lib.I(int64(it.Qidx)), lib.L(es...))
	}
	return lib.L(out...)
}

func fmtOps(ops []op) string {
	s := make([]string, len(ops))
	for i, o := range ops {
		if o.kind == 0 {
			s[i] = lib.L("0", lib.I(o.cid), lib.U(o.org), lib.U(o.rx), lib.U(o.tx), lib.I(o.rxt), lib.I(o.now))
		} else {
			s[i] = lib.L("1", lib.I(o.cid), lib.I(o.rxt), lib.I(o.txt))
		}
	}
	return lib.L(s...)
}

type pending struct {
	cid      int64
	rxt, txt int64
}

// runHistory executes ops (or, with gen, the ops gen produces from what the
// implementation reported) on a fresh store and writes one tss.hist case.
func runHistory(ops []op, gen func(i int, pend *[]pending) (op, bool)) {
	server.VerifResetTSS()
	var obs []string
	var done []op
	var pend []pending
	maxq, nfix, nrem := 0, 0, 0
	for i := 0; ; i++ {
		var o op
		if gen != nil {
			var ok bool
			if o, ok = gen(i, &pend); !ok {
				break
			}
		} else {
			if i >= len(ops) {
				break
			}
			o = ops[i]
		}
		done = append(done, o)
		before := server.VerifSnapshotTSS()
		if o.kind == 0 {
			clk.now = tm(o.now)
			var req ntp.Packet
			req.SetVersion(ntp.VersionMax)
			req.SetMode(ntp.ModeClient)
			req.OriginTime, req.ReceiveTime, req.TransmitTime = t64of(o.org), t64of(o.rx), t64of(o.tx)
			rxt := tm(o.rxt)
			var txt time.Time
			var resp ntp.Packet
			server.VerifHandleRequest(key(o.cid), &req, &rxt, &txt, &resp)
			pend = append(pend, pending{o.cid, ns(rxt), ns(txt)})
			after := server.VerifSnapshotTSS()
			obs = append(obs, lib.L("0", lib.U(t64num(resp.OriginTime)), lib.U(t64num(resp.ReceiveTime)), lib.U(t64num(resp.TransmitTime)),
				lib.U(t64num(resp.ReferenceTime)), lib.I(ns(rxt)), lib.I(ns(txt)), fmtItem(after, o.cid), fmtQueue(after)))
			if len(after.Queue) == len(before.Queue) && fmtQueue(after) != fmtQueue(before) {
				nfix++
			}
			if len(after.Queue) > maxq {
				maxq = len(after.Queue)
			}
		} else {
			txt := tm(o.txt)
			server.VerifUpdateTXTimestamp(key(o.cid), tm(o.rxt), &txt)
			after := server.VerifSnapshotTSS()
			obs = append(obs, lib.L("1", lib.I(ns(txt)), fmtItem(after, o.cid), fmtQueue(after)))
			if len(after.Queue) < len(before.Queue) {
				nrem++
			} else if fmtQueue(after) != fmtQueue(before) {
				nfix++
			}
		}
	}
	final := server.VerifSnapshotTSS()
	tags := []string{"deep"}
	if nfix > 0 {
		tags = append(tags, "fix")
	}
	if nrem > 0 {
		tags = append(tags, "heapremove")
	}
	if maxq >= 16 && nfix > 0 && nrem > 0 {
		tags = append(tags, "nt")
	}
	w.Case("tss.hist", strings.Join(tags, ","), fmtOps(done), lib.V(lib.L(obs...), fmtFinal(final)))
	server.VerifResetTSS()
}

func genDeep(r *lib.Rng, nclients, nops int) {
	t := baseSec*1e9 + r.Range(0, 1e9)
	last := map[int64]int64{}
	coarse := r.Intn(3) == 0 // receive times on a coarse grid: many equal queue values
	gen := func(i int, pend *[]pending) (op, bool) {
		if i >= nops {
			return op{}, false
		}
		if len(*pend) > 0 && (r.Intn(100) < 40 || len(*pend) > 12) {
			j := r.Intn(len(*pend))
			p := (*pend)[j]
			*pend = append((*pend)[:j], (*pend)[j+1:]...)
			txt := p.txt
			if r.Intn(3) == 0 {
				txt = p.txt + r.Range(1, 50000) // a kernel timestamp: the exchange stays
			}
			return op{kind: 1, cid: p.cid, rxt: p.rxt, txt: txt}, true
		}
		cid := int64(r.Intn(nclients))
		var rxt int64
		switch r.Intn(8) {
		case 0: // older than this client's last request: no new maximum
			if v, ok := last[cid]; ok {
				rxt = v - r.Range(1, 5000)
				break
			}
			fallthrough
		case 1: // exactly another client's last receive time: equal queue values
			for c2, v := range last {
				if c2 != cid {
					rxt = v
					break
				}
			}
			if rxt != 0 {
				break
			}
			fallthrough
		default:
			if coarse {
				t += 1000 * r.Range(0, 2)
			} else {
				t += r.Range(1, 100000)
			}
			rxt = t
		}
		last[cid] = rxt
		return op{kind: 0, cid: cid, org: 0, rx: 5, tx: 5, rxt: rxt, now: rxt + r.Range(1, 1000)}, true
	}
	runHistory(nil, gen)
}

func parseOps(s string) []op {
	s = strings.TrimSpace(s)
	s = strings.TrimPrefix(s, "[")
	s = strings.TrimSuffix(s, "]")
	var ops []op
	for _, part := range strings.Split(s, "]") {
		part = strings.TrimSpace(part)
		part = strings.TrimPrefix(part, "[")
		f := strings.Fields(part)
		if len(f) == 0 {
			continue
		}
		if f[0] == "0" && len(f) == 7 {
			ops = append(ops, op{kind: 0, cid: lib.ParseI(f[1]), org: lib.ParseU(f[2]), rx: lib.ParseU(f[3]), tx: lib.ParseU(f[4]), rxt: lib.ParseI(f[5]), now: lib.ParseI(f[6])})
		} else if f[0] == "1" && len(f) == 4 {
			ops = append(ops, op{kind: 1, cid: lib.ParseI(f[1]), rxt: lib.ParseI(f[2]), txt: lib.ParseI(f[3])})
		} else {
			panic("bad op in replay: " + part)
		}
	}
	return ops
}

// ---------- (b) the real container/heap on a queue with tssQueue's methods ----------

type qItem struct {
	key  int64
	qval ntp.Time64
	qidx int
}

type queue []*qItem

func (q queue) Len() int { return len(q) }

func (q queue) Less(i, j int) bool { return q[i].qval.Before(q[j].qval) }

func (q queue) Swap(i, j int) {
	q[i], q[j] = q[j], q[i]
	q[i].qidx = i
	q[j].qidx = j
}

func (q *queue) Push(x any) {
	it := x.(*qItem)
	it.qidx = len(*q)
	*q = append(*q, it)
}

func (q *queue) Pop() any {
	n := len(*q)
	it := (*q)[n-1]
	(*q)[n-1] = nil
	*q = (*q)[0 : n-1]
	return it
}

type hop struct {
	kind int // 0 push key val, 1 pop, 2 remove idx, 3 fix idx val
	key  int64
	idx  int64
	val  uint64
}

func fmtHops(ops []hop) string {
	s := make([]string, len(ops))
	for i, o := range ops {
		switch o.kind {
		case 0:
			s[i] = lib.L("0", lib.I(o.key), lib.U(o.val))
		case 1:
			s[i] = lib.L("1")
		case 2:
			s[i] = lib.L("2", lib.I(o.idx))
		default:
			s[i] = lib.L("3", lib.I(o.idx), lib.U(o.val))
		}
	}
	return lib.L(s...)
}

func snapQ(q queue) (string, string) {
	a := make([]string, len(q))
	b := make([]string, len(q))
	for i, it := range q {
		a[i] = lib.L(lib.I(it.key), lib.U(t64num(it.qval)))
		b[i] = lib.I(int64(it.qidx))
	}
	return lib.L(a...), lib.L(b...)
}

// runHeap applies ops (or the ops gen produces, which sees the current length) to the real
// container/heap and writes one heap.ops case.
func runHeap(ops []hop, gen func(i, n int) (hop, bool)) {
	q := make(queue, 0, 16)
	var done []hop
	var obs []string
	npop, nrem, nfix, maxn := 0, 0, 0, 0
	for i := 0; ; i++ {
		var o hop
		if gen != nil {
			var ok bool
			if o, ok = gen(i, len(q)); !ok {
				break
			}
		} else {
			if i >= len(ops) {
				break
			}
			o = ops[i]
		}
		popped := "[]"
		switch o.kind {
		case 0:
			heap.Push(&q, &qItem{key: o.key, qval: t64of(o.val)})
		case 1:
			if len(q) == 0 {
				continue
			}
			x := heap.Pop(&q).(*qItem)
			popped = lib.L(lib.I(x.key), lib.U(t64num(x.qval)))
			npop++
		case 2:
			if o.idx < 0 || int(o.idx) >= len(q) {
				continue
			}
			x := heap.Remove(&q, int(o.idx)).(*qItem)
			popped = lib.L(lib.I(x.key), lib.U(t64num(x.qval)))
			nrem++
		default:
			if o.idx < 0 || int(o.idx) >= len(q) {
				continue
			}
			q[o.idx].qval = t64of(o.val)
			heap.Fix(&q, int(o.idx))
			nfix++
		}
		done = append(done, o)
		a, b := snapQ(q)
		obs = append(obs, lib.L(a, b, popped))
		if len(q) > maxn {
			maxn = len(q)
		}
	}
	tags := []string{"heapops"}
	if npop > 0 {
		tags = append(tags, "pop")
	}
	if npop > 0 && nrem > 0 && nfix > 0 && maxn >= 8 {
		tags = append(tags, "nt")
	}
	w.Case("heap.ops", strings.Join(tags, ","), fmtHops(done), lib.L(obs...))
}

func genHeap(r *lib.Rng, target, nops int) {
	base := uint64(baseSec+2208988800) << 32
	spread := []int{1, 3, 8, 1000, 1 << 30}[r.Intn(5)] // few distinct values = many ties
	val := func() uint64 { return base + uint64(r.Intn(spread)) }
	next := int64(0)
	gen := func(i, n int) (hop, bool) {
		if i >= nops {
			return hop{}, false
		}
		x := r.Intn(100)
		pPush, pPop, pRem := 20, 50, 70 // at or above the target size: shrink
		if n < target {
			pPush, pPop, pRem = 50, 65, 80
		}
		switch {
		case n == 0 || x < pPush:
			next++
			return hop{kind: 0, key: next, val: val()}, true
		case x < pPop:
			return hop{kind: 1}, true
		case x < pRem:
			return hop{kind: 2, idx: int64(r.Intn(n))}, true
		default:
			return hop{kind: 3, idx: int64(r.Intn(n)), val: val()}, true
		}
	}
	runHeap(nil, gen)
}

func parseHops(s string) []hop {
	s = strings.TrimSpace(s)
	s = strings.TrimPrefix(s, "[")
	s = strings.TrimSuffix(s, "]")
	var ops []hop
	for _, part := range strings.Split(s, "]") {
		part = strings.TrimSpace(part)
		part = strings.TrimPrefix(part, "[")
		f := strings.Fields(part)
		if len(f) == 0 {
			continue
		}
		switch {
		case f[0] == "0" && len(f) == 3:
			ops = append(ops, hop{kind: 0, key: lib.ParseI(f[1]), val: lib.ParseU(f[2])})
		case f[0] == "1" && len(f) == 1:
			ops = append(ops, hop{kind: 1})
		case f[0] == "2" && len(f) == 2:
			ops = append(ops, hop{kind: 2, idx: lib.ParseI(f[1])})
		case f[0] == "3" && len(f) == 3:
			ops = append(ops, hop{kind: 3, idx: lib.ParseI(f[1]), val: lib.ParseU(f[2])})
		default:
			panic("bad heap op in replay: " + part)
		}
	}
	return ops
}

func main() {
	a := lib.ParseArgs()
	timebase.RegisterClock(clk)
	w = lib.NewWriter(a.Out)
	defer w.Close()
	if a.Replay != "" {
		for _, l := range lib.ReplayLines(a.Replay) {
			switch l[0] {
			case "tss.hist":
				runHistory(parseOps(l[2]), nil)
			case "heap.ops":
				runHeap(parseHops(l[2]), nil)
			}
		}
		return
	}
	r := lib.NewRng(a.Seed ^ 0xc07c07)
	nh, nq := 60, 400
	if a.Tier != "thorough" {
		nh, nq = 10, 60
	}
	for i := 0; i < nh; i++ {
		genDeep(r.Fork(), 16+r.Intn(49), 200+r.Intn(500))
	}
	for i := 0; i < nq; i++ {
		target := 1 + r.Intn(40)
		if i%8 == 0 {
			target = 100 + r.Intn(120)
		}
		genHeap(r.Fork(), target, 30+r.Intn(300))
	}
	fmt.Fprintf(os.Stderr, "c07heap: %d cases\n", w.N())
}
