// C04: drives ntp.Time64FromTime / ntp.TimeFromTime64 / Before / After.
package main

import (
	"time"

	"example.com/scion-time/net/ntp"

	"verifharness/lib"
)

const ntpEpoch = int64(-2208988800)

var w *lib.Writer

func eraStart(k int64) int64 { return ntpEpoch + k<<32 }

func to64(sec, nsec int64) {
	x := ntp.Time64FromTime(time.Unix(sec, nsec))
	w.Case("ntp.to64", "", lib.V(lib.I(sec), lib.I(nsec)), lib.V(lib.U(uint64(x.Seconds)), lib.U(uint64(x.Fraction))))
}

func from64(s, f uint32, rsec, rnsec int64) {
	t := ntp.TimeFromTime64(ntp.Time64{Seconds: s, Fraction: f}, time.Unix(rsec, rnsec))
	w.Case("ntp.from64", "", lib.V(lib.U(uint64(s)), lib.U(uint64(f)), lib.I(rsec), lib.I(rnsec)),
		lib.V(lib.I(t.Unix()), lib.I(int64(t.Nanosecond()))))
}

func era(sec int64) int64 {
	d := sec - ntpEpoch
	if d >= 0 {
		return d >> 32
	}
	return -((-d + (1<<32 - 1)) >> 32)
}

func roundtrip(sec, nsec, rsec, rnsec int64) {
	ref := time.Unix(rsec, rnsec)
	back := ntp.TimeFromTime64(ntp.Time64FromTime(time.Unix(sec, nsec)), ref)
	tags := ""
	d := sec - rsec
	if d >= -(1<<31) && d < 1<<31 {
		tags = "inwin"
		if era(sec) != era(rsec) {
			tags = "inwin,nt"
		}
	}
	w.Case("ntp.roundtrip", tags, lib.V(lib.I(sec), lib.I(nsec), lib.I(rsec), lib.I(rnsec)),
		lib.V(lib.I(back.Unix()), lib.I(int64(back.Nanosecond()))))
}

// edge: the edges of the window judged at nanosecond granularity (the property's literal window)
func edge(sec, nsec, rsec, rnsec int64) {
	ref := time.Unix(rsec, rnsec)
	back := ntp.TimeFromTime64(ntp.Time64FromTime(time.Unix(sec, nsec)), ref)
	tags := "edge"
	if sec-rsec == 1<<31 && nsec < rnsec {
		tags = "edge,nt,upper-band"
	} else if sec-rsec == -(1<<31) {
		tags = "edge,nt"
	}
	w.Case("ntp.edge", tags, lib.V(lib.I(sec), lib.I(nsec), lib.I(rsec), lib.I(rnsec), lib.I(sec-rsec)),
		lib.V(lib.I(back.Unix()), lib.I(int64(back.Nanosecond()))))
}

func order(s1, n1, s2, n2, rsec, rnsec int64) {
	ref := time.Unix(rsec, rnsec)
	b1 := ntp.TimeFromTime64(ntp.Time64FromTime(time.Unix(s1, n1)), ref)
	b2 := ntp.TimeFromTime64(ntp.Time64FromTime(time.Unix(s2, n2)), ref)
	tags := ""
	if era(s1) != era(s2) {
		tags = "nt"
	}
	w.Case("ntp.order", tags, lib.V(lib.I(s1), lib.I(n1), lib.I(s2), lib.I(n2), lib.I(rsec), lib.I(rnsec)),
		lib.V(lib.I(b1.Unix()), lib.I(int64(b1.Nanosecond())), lib.I(b2.Unix()), lib.I(int64(b2.Nanosecond()))))
}

func cmp(s1, f1, s2, f2 uint32) {
	x := ntp.Time64{Seconds: s1, Fraction: f1}
	y := ntp.Time64{Seconds: s2, Fraction: f2}
	w.Case("ntp.cmp", "", lib.V(lib.U(uint64(s1)), lib.U(uint64(f1)), lib.U(uint64(s2)), lib.U(uint64(f2))),
		lib.V(lib.Bool(x.Before(y)), lib.Bool(x.After(y))))
}

func genRef(r *lib.Rng) (int64, int64) {
	var sec int64
	switch r.Intn(6) {
	case 0: // dense around an era boundary
		sec = eraStart(r.Range(1, 3)) + r.Range(-5, 5)
	case 1: // half an era away from a boundary
		sec = eraStart(r.Range(0, 3)) + 1<<31 + r.Range(-3, 3)
	case 2: // 1970 .. 2450
		sec = r.Range(0, 15147648000)
	case 3:
		sec = r.Range(0, 10)
	case 4:
		sec = eraStart(r.Range(1, 3)) + r.Range(-100000, 100000)
	default:
		sec = r.Range(1700000000, 2200000000)
	}
	if sec < 0 {
		sec = 0
	}
	return sec, genNsec(r)
}

func genNsec(r *lib.Rng) int64 {
	switch r.Intn(6) {
	case 0:
		return 0
	case 1:
		return 999999999
	case 2:
		return r.Range(0, 5)
	case 3:
		return 999999999 - r.Range(0, 5)
	case 4:
		// nanosecond values next to a change of the 2^-32 fraction
		f := r.Range(0, 1<<32-1)
		ns := (f*1000000000 + (1<<32 - 1)) >> 32
		ns += r.Range(-1, 1)
		if ns < 0 {
			ns = 0
		}
		if ns > 999999999 {
			ns = 999999999
		}
		return ns
	default:
		return r.Range(0, 999999999)
	}
}

func genDelta(r *lib.Rng) int64 {
	switch r.Intn(8) {
	case 0:
		return -(1 << 31) + r.Range(0, 2)
	case 1:
		return 1<<31 - 1 - r.Range(0, 2)
	case 2:
		return r.Range(-3, 3)
	case 3:
		return r.Range(-100000, 100000)
	case 4: // outside the window (compared with the model only)
		return lib.Pick(r, int64(1<<31), -(1<<31)-1, 1<<32, -(1 << 32), 1<<31+5)
	default:
		return r.Range(-(1 << 31), 1<<31-1)
	}
}

func main() {
	a := lib.ParseArgs()
	w = lib.NewWriter(a.Out)
	defer w.Close()
	if a.Replay != "" {
		for _, c := range lib.ReplayLines(a.Replay) {
			f := lib.Fields(c[2])
			switch c[0] {
			case "ntp.to64":
				to64(lib.ParseI(f[0]), lib.ParseI(f[1]))
			case "ntp.from64":
				from64(uint32(lib.ParseU(f[0])), uint32(lib.ParseU(f[1])), lib.ParseI(f[2]), lib.ParseI(f[3]))
			case "ntp.roundtrip":
				roundtrip(lib.ParseI(f[0]), lib.ParseI(f[1]), lib.ParseI(f[2]), lib.ParseI(f[3]))
			case "ntp.order":
				order(lib.ParseI(f[0]), lib.ParseI(f[1]), lib.ParseI(f[2]), lib.ParseI(f[3]), lib.ParseI(f[4]), lib.ParseI(f[5]))
			case "ntp.cmp":
				cmp(uint32(lib.ParseU(f[0])), uint32(lib.ParseU(f[1])), uint32(lib.ParseU(f[2])), uint32(lib.ParseU(f[3])))
			case "ntp.edge":
				edge(lib.ParseI(f[0]), lib.ParseI(f[1]), lib.ParseI(f[2]), lib.ParseI(f[3]))
			}
		}
		return
	}
	r := lib.NewRng(a.Seed)
	n := 12000
	if a.Tier == "thorough" {
		n = 250000
	}
	// corpus: the 2036 rollover witness of D-C04 and its mirror image
	roundtrip(2085978494, 0, 2085978497, 0)
	roundtrip(2085978497, 0, 2085978494, 0)
	roundtrip(6380945790, 999999999, 6380945793, 1)
	// both window edges at nanosecond granularity
	edge(1700000000+1<<31, 0, 1700000000, 999999999)
	for i := 0; i < n/40; i++ {
		rsec, rnsec := genRef(r)
		nsec := genNsec(r)
		switch r.Intn(4) {
		case 0:
			edge(rsec+1<<31, nsec, rsec, rnsec)
		case 1:
			edge(rsec-1<<31, nsec, rsec, rnsec)
		case 2:
			edge(rsec+1<<31-1, nsec, rsec, rnsec)
		default:
			edge(rsec-1<<31+1, nsec, rsec, rnsec)
		}
	}
	for i := 0; i < n; i++ {
		rsec, rnsec := genRef(r)
		d := genDelta(r)
		sec, nsec := rsec+d, genNsec(r)
		roundtrip(sec, nsec, rsec, rnsec)
		if i%4 == 0 {
			to64(sec, nsec)
			from64(uint32(r.U64()), uint32(r.U64()), rsec, rnsec)
			x := ntp.Time64FromTime(time.Unix(sec, nsec))
			from64(x.Seconds, x.Fraction, rsec, rnsec)
		}
		if i%4 == 1 {
			d2 := genDelta(r)
			s2, n2 := rsec+d2, genNsec(r)
			if r.Intn(3) == 0 {
				s2 = sec
			}
			if s2 < sec || s2 == sec && n2 < nsec {
				order(s2, n2, sec, nsec, rsec, rnsec)
			} else {
				order(sec, nsec, s2, n2, rsec, rnsec)
			}
		}
		if i%8 == 2 {
			s1, f1 := uint32(r.U64()), uint32(r.U64())
			s2, f2 := s1, f1
			switch r.Intn(4) {
			case 0:
				s2 = uint32(r.U64())
			case 1:
				f2 = uint32(r.U64())
			case 2:
				s2, f2 = uint32(r.U64()), uint32(r.U64())
			}
			cmp(s1, f1, s2, f2)
		}
	}
}
