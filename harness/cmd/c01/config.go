// The configuration path of the time service: TOML settings -> timeservice.go
// loadConfig / clockDrift / syncConfig -> (configured drift, sync.Config).
// These functions are unexported members of package main, so they are driven
// through the verification hook /repo/timeservice_verif.go (build tag verif):
// the real service binary is built with the tag and started once per case with
// SCION_TIME_VERIF_SYNCCONFIG naming a generated configuration file.
// Every configuration that the service accepts is then handed to the real
// sync.Run (real SystemClock.Drift for the configured drift) as a sync.run case.
package main

import (
	"bufio"
	"fmt"
	"math"
	"os"
	"os/exec"
	"path/filepath"
	"strconv"
	"strings"

	"verifharness/lib"
	"verifharness/svclib"
)

type setting struct {
	present bool
	val     float64
}

var settingKeys = [6]string{"clock_drift", "reference_clock_impact", "peer_clock_impact", "peer_clock_cutoff", "sync_timeout", "sync_interval"}

var (
	svcBin        string
	svcBinTried   bool
	svcDir        string
	svcHook       bool // timeservice_verif.go is part of the checkout
	svcWiringHook bool // timeservice_wiring_verif.go is part of the checkout
	svcBuildLog   string
)

// serviceBinary builds the time service with the verification hooks; "" when
// the hook file is not part of the checkout (the configuration cases are then
// skipped, e.g. in a scratch worktree made before the hook was committed) or
// when the service does not build (reported as a failing sync.build case by
// buildCase, not as a harness failure).
func serviceBinary() string {
	if svcBinTried {
		return svcBin
	}
	svcBinTried = true
	repo := svclib.RepoDir()
	if !svclib.HasHook(repo, "timeservice_verif.go") {
		fmt.Fprintf(os.Stderr, "c01: %s/timeservice_verif.go not present: configuration cases skipped\n", repo)
		return ""
	}
	svcHook = true
	if svclib.HasHook(repo, "timeservice_wiring_verif.go") {
		svcWiringHook = true
	} else {
		fmt.Fprintf(os.Stderr, "c01: %s/timeservice_wiring_verif.go not present: sync.clocks cases skipped\n", repo)
	}
	bin, err := svclib.Build(repo)
	if err != nil {
		svcBuildLog = err.Error()
		fmt.Fprintf(os.Stderr, "c01: %s\n", svcBuildLog)
		return ""
	}
	svcDir = filepath.Dir(bin)
	svcBin = bin
	return bin
}

func cleanupService() {
	if svcDir != "" {
		os.RemoveAll(svcDir)
	}
}

func tomlFloat(f float64) string {
	switch {
	case math.IsNaN(f):
		return "nan"
	case math.IsInf(f, 1):
		return "inf"
	case math.IsInf(f, -1):
		return "-inf"
	}
	s := strconv.FormatFloat(f, 'g', -1, 64)
	if !strings.ContainsAny(s, ".eE") {
		s += ".0"
	}
	return s
}

type cfgResult struct {
	fatal                     bool
	drift                     int64
	ref, peer                 uint64
	cutoff, timeout, interval int64
}

func runConfig(bin string, st [6]setting) cfgResult {
	var b strings.Builder
	for i, s := range st {
		if s.present {
			fmt.Fprintf(&b, "%s = %s\n", settingKeys[i], tomlFloat(s.val))
		}
	}
	file := filepath.Join(svcDir, "cfg.toml")
	if err := os.WriteFile(file, []byte(b.String()), 0o600); err != nil {
		panic(err)
	}
	cmd := exec.Command(bin)
	cmd.Env = append(os.Environ(), "SCION_TIME_VERIF_SYNCCONFIG="+file)
	out, err := cmd.CombinedOutput()
	if err != nil {
		if !strings.Contains(string(out), "invalid clock drift value") {
			panic(fmt.Sprintf("c01: the service rejected a generated configuration for another reason than the drift:\n%s\n%s", b.String(), out))
		}
		return cfgResult{fatal: true}
	}
	sc := bufio.NewScanner(strings.NewReader(string(out)))
	for sc.Scan() {
		f := strings.Fields(sc.Text())
		if len(f) == 7 && f[0] == "verif-syncconfig" {
			return cfgResult{drift: lib.ParseI(f[1]), ref: lib.ParseU(f[2]), peer: lib.ParseU(f[3]),
				cutoff: lib.ParseI(f[4]), timeout: lib.ParseI(f[5]), interval: lib.ParseI(f[6])}
		}
	}
	panic(fmt.Sprintf("c01: no result line from the service hook:\n%s", out))
}

func canon(bits uint64) uint64 { return fbits(math.Float64frombits(bits)) }

func configArgs(st [6]setting) string {
	items := make([]string, 6)
	for i, s := range st {
		if s.present {
			items[i] = lib.L(lib.U(fbits(s.val)))
		} else {
			items[i] = lib.L()
		}
	}
	return lib.V(items...)
}

// configCase writes the sync.config case and returns the result
func configCase(bin string, st [6]setting) cfgResult {
	res := runConfig(bin, st)
	tags := []string{"nt", "config"}
	if res.fatal {
		tags = append(tags, "cfg-fatal")
	}
	anyNaN, anyInf, omitted := false, false, 0
	for _, s := range st {
		if !s.present {
			omitted++
		} else if math.IsNaN(s.val) {
			anyNaN = true
		} else if math.IsInf(s.val, 0) {
			anyInf = true
		}
	}
	if anyNaN {
		tags = append(tags, "cfg-nan")
	}
	if anyInf {
		tags = append(tags, "cfg-inf")
	}
	if omitted == 6 {
		tags = append(tags, "cfg-all-default")
	}
	if !res.fatal && res.drift == 0 {
		tags = append(tags, "cfg-unknown-drift")
	}
	outs := lib.V("0", lib.I(res.drift), lib.U(canon(res.ref)), lib.U(canon(res.peer)), lib.I(res.cutoff), lib.I(res.timeout), lib.I(res.interval))
	if res.fatal {
		outs = lib.V("1", "0", "0", "0", "0", "0", "0")
	}
	w.Case("sync.config", strings.Join(tags, ","), configArgs(st), outs)
	return res
}

func genSettings(r *lib.Rng) [6]setting {
	pick := func(sane []float64, odd []float64) setting {
		switch x := r.Intn(10); {
		case x < 2:
			return setting{}
		case x < 7:
			return setting{true, sane[r.Intn(len(sane))]}
		default:
			return setting{true, odd[r.Intn(len(odd))]}
		}
	}
	nan, pinf, ninf := math.NaN(), math.Inf(1), math.Inf(-1)
	var st [6]setting
	st[0] = pick([]float64{1e-5, 1e-4, 5e-5, 1e-6, 2.5e-4, 1e-3},
		[]float64{0, math.Copysign(0, -1), 1, 9.3, 1e10, -1e-6, -1e-300, nan, pinf, ninf, 1e-10, 5e-10, 9.99e-10, 1e-9, 1.5e-9, 9.223372036854775e9, 9.2233720368547769e9})
	st[1] = pick([]float64{1.25, 1.5, 1.1, 2.0, 3.7}, []float64{0, 1.0, 0.5, -2, nan, pinf, ninf, 1e300, ulpUp(1.0), math.Copysign(0, -1)})
	st[2] = pick([]float64{2.5, 3.5, 4.75, 12.0, 100.0}, []float64{0, 1.0, 2.0, 2.25, -2.5, nan, pinf, ninf, 1e300, ulpUp(2.25)})
	st[3] = pick([]float64{50e-6, 1e-3, 1e-5, 1e-6}, []float64{0, nan, pinf, ninf, -1e-6, 1e-10, 1e10, 9.3})
	st[4] = pick([]float64{0.5, 0.25, 0.1, 0.4}, []float64{0, 1e-9, nan, pinf, ninf, -0.1, 5, 1e10, 0.5000000001})
	st[5] = pick([]float64{1, 2, 1.5, 16, 0.8}, []float64{0, 0.001, nan, pinf, ninf, -1, 1e-10, 1e10, 1e-9, 0.999999999})
	return st
}

// the accepted configuration, run by the real sync.Run with the real SystemClock.Drift
func scenarioOfConfig(r *lib.Rng, res cfgResult) *scenario {
	sc := &scenario{fam: "config", mode: 0, dval: res.drift,
		refImpact: math.Float64frombits(res.ref), peerImpact: math.Float64frombits(res.peer),
		cutoff: res.cutoff, timeout: res.timeout, interval: res.interval}
	sc.nref, sc.npeer = 1+r.Intn(2), 1+r.Intn(2)
	vals := []int64{0, 40 * us, 400 * us, -3 * ms, 1 * s, -1000 * s, math.MaxInt64, math.MinInt64, 1 << 62, -(1 << 53)}
	nr := 1 + r.Intn(3)
	kind := 0 // timely answers; with a non-positive timeout (Run refuses to start) nothing is timely: scripted as errors
	if sc.timeout <= 0 {
		kind = 1
	}
	for i := 0; i < nr; i++ {
		var rs roundSpec
		for j := 0; j < sc.nref; j++ {
			rs.refs = append(rs.refs, beh{kind, vals[r.Intn(len(vals))], 0})
		}
		for j := 0; j < sc.npeer; j++ {
			rs.peers = append(rs.peers, beh{kind, vals[r.Intn(len(vals))], 0})
		}
		sc.rounds = append(sc.rounds, rs)
	}
	return sc
}

func generateConfig(r *lib.Rng, n int) {
	bin := buildCase()
	if bin == "" {
		return
	}
	// fixed: nothing configured; only the drift configured; NaN in each position
	fixed := [][6]setting{{}, {0: {true, 1e-5}}}
	// a positive drift below 1 ns/s (with interval 1 s, timeout 0.5 s), on both sides of 1 ns/s, beyond int64
	for _, d := range []float64{5e-10, 1e-10, 9.99e-10, 1e-9, 1.0000001e-9, 2e-9, 5e-324, 1e10, math.Inf(1), math.NaN()} {
		fixed = append(fixed, [6]setting{0: {true, d}, 4: {true, 0.5}, 5: {true, 1.0}})
	}
	for i := 0; i < 6; i++ {
		var st [6]setting
		st[0] = setting{true, 1e-5}
		st[i] = setting{true, math.NaN()}
		fixed = append(fixed, st)
	}
	for i := 0; i < n; i++ {
		var st [6]setting
		if i < len(fixed) {
			st = fixed[i]
		} else {
			st = genSettings(r)
		}
		res := configCase(bin, st)
		if !res.fatal {
			emit(scenarioOfConfig(r, res))
		}
	}
}

func replayConfig(args string) {
	bin := serviceBinary()
	if bin == "" {
		return
	}
	n := parseNodes(args)
	var st [6]setting
	for i := 0; i < 6 && i < len(n); i++ {
		if len(n[i].kids) == 1 {
			st[i] = setting{true, math.Float64frombits(lib.ParseU(n[i].kids[0].leaf))}
		}
	}
	configCase(bin, st)
}
