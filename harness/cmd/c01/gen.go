package main

import (
	"math"
	"time"

	"example.com/scion-time/driver/clocks"

	"verifharness/lib"
)

const (
	us = int64(1000)
	ms = int64(1000000)
	s  = int64(1000000000)
)

func ulpUp(f float64) float64   { return math.Nextafter(f, math.Inf(1)) }
func ulpDown(f float64) float64 { return math.Nextafter(f, math.Inf(-1)) }

// floorCap: the cap as whole nanoseconds, clipped into int64
func floorCap(f float64) int64 {
	if math.IsNaN(f) || f <= 0 {
		return 0
	}
	if f >= 9.2e18 {
		return math.MaxInt64
	}
	return int64(f)
}

func clip(x float64) int64 {
	if x >= 9.2e18 {
		return math.MaxInt64
	}
	if x <= -9.2e18 {
		return math.MinInt64
	}
	return int64(x)
}

func sat(a, b int64) int64 { // a + b saturating
	c := a + b
	if a > 0 && b > 0 && c < 0 {
		return math.MaxInt64
	}
	if a < 0 && b < 0 && c >= 0 {
		return math.MinInt64
	}
	return c
}

func satMul2(a int64) int64 { return sat(a, a) }

// driftOf: what the scenario's clock will report for Drift(interval)
func driftOf(sc *scenario) int64 {
	if sc.mode == 0 {
		return int64(clocks.NewSystemClock(nolog, time.Duration(sc.dval)).Drift(time.Duration(sc.interval)))
	}
	return sc.dval
}

// offset generator: values around every threshold of the scenario
type offGen struct {
	r            *lib.Rng
	cutoff       int64
	rcap, pcap   int64
	interesting  []int64
}

func newOffGen(r *lib.Rng, sc *scenario) *offGen {
	d := float64(driftOf(sc))
	g := &offGen{r: r, cutoff: sc.cutoff, rcap: floorCap(sc.refImpact * d), pcap: floorCap(sc.peerImpact * d)}
	base := []int64{g.cutoff, g.rcap, g.pcap, satMul2(g.cutoff), satMul2(g.rcap), satMul2(g.pcap),
		g.rcap / 2, g.pcap / 2, sat(g.rcap, g.pcap) / 2, sat(g.rcap, g.pcap)}
	for _, b := range base {
		for _, dlt := range []int64{-2, -1, 0, 1, 2} {
			v := sat(b, dlt)
			g.interesting = append(g.interesting, v)
			if v != math.MinInt64 {
				g.interesting = append(g.interesting, -v)
			}
		}
	}
	return g
}

func (g *offGen) off() int64 {
	r := g.r
	switch r.Intn(12) {
	case 0, 1, 2, 3:
		return g.interesting[r.Intn(len(g.interesting))]
	case 4:
		return lib.Pick(r, int64(math.MinInt64), math.MaxInt64, 0, -1, 1, math.MinInt64+1, math.MaxInt64-1)
	case 5:
		k := uint(r.Intn(63))
		v := int64(1)<<k + r.Range(-2, 2)
		if r.Bool() {
			return -v
		}
		return v
	case 6:
		return r.I64()
	case 7, 8:
		m := g.pcap
		if m <= 0 || m > 1<<61 {
			m = 1 << 40
		}
		return r.Range(-3*m, 3*m)
	case 9:
		m := g.cutoff
		if m <= 0 || m > 1<<61 {
			m = 1 << 20
		}
		return r.Range(-2*m, 2*m)
	default:
		m := g.rcap
		if m <= 0 || m > 1<<61 {
			m = 1 << 30
		}
		return r.Range(-2*m, 2*m)
	}
}

// behaviour generator for one source in one round
func genBeh(r *lib.Rng, g *offGen, sc *scenario, flaky int) beh {
	v := g.off()
	if r.Intn(100) >= flaky && sc.timeout > 0 {
		d := int64(0)
		if r.Intn(3) == 0 {
			d = r.Range(0, sc.timeout-1)
		}
		return beh{0, v, d}
	}
	lim := sc.interval
	if lim > 1<<40 {
		lim = 1 << 40
	}
	switch r.Intn(4) {
	case 3:
		if sc.timeout > 1<<40 {
			return beh{1, v, 0}
		}
		return beh{4, v, 0} // never comes back within the round, ignores the context
	case 0:
		return beh{1, v, r.Range(0, 2*lim)}
	case 1:
		if sc.timeout > 1<<40 {
			return beh{1, v, 0}
		}
		return beh{2, v, sc.timeout + 1 + r.Range(0, 3*lim)}
	default:
		if sc.timeout > 1<<40 {
			return beh{1, v, 0}
		}
		return beh{3, v, 0}
	}
}

func genRounds(r *lib.Rng, sc *scenario, n int, flaky int) {
	g := newOffGen(r, sc)
	// some scenarios keep a slowly varying "true" offset per side so that the
	// fault-tolerant midpoint sits near a threshold
	sticky := r.Intn(3) == 0
	var rb, pb int64
	if sticky {
		rb, pb = g.off(), g.off()
	}
	for i := 0; i < n; i++ {
		var rs roundSpec
		if sticky && r.Intn(3) == 0 {
			rb, pb = g.off(), g.off()
		}
		for j := 0; j < sc.nref; j++ {
			b := genBeh(r, g, sc, flaky)
			if sticky && r.Intn(4) != 0 {
				b.val = sat(rb, r.Range(-1, 1))
			}
			rs.refs = append(rs.refs, b)
		}
		for j := 0; j < sc.npeer; j++ {
			b := genBeh(r, g, sc, flaky)
			if sticky && r.Intn(4) != 0 {
				b.val = sat(pb, r.Range(-1, 1))
			}
			rs.peers = append(rs.peers, b)
		}
		sc.rounds = append(sc.rounds, rs)
	}
}

func nSources(r *lib.Rng) int {
	switch r.Intn(10) {
	case 0:
		return 0
	case 1, 2, 3:
		return 1
	case 4, 5:
		return 3
	case 6:
		return 2
	case 7:
		return 4
	default:
		return r.Intn(8)
	}
}

// a plausible configuration (admissible unless the drift turns out to be 0)
func saneConfig(r *lib.Rng, sc *scenario) {
	sc.refImpact = lib.Pick(r, 1.25, 1.5, ulpUp(1.0), 2.0, 3.7, 1.1, 10.0, 100.5, 1.0000001)
	sc.peerImpact = sc.refImpact + 1 + lib.Pick(r, 0.25, 1.0, 10.0, 1e-9, 0.5, 123.0)
	if r.Intn(8) == 0 {
		sc.peerImpact = ulpUp(sc.refImpact + 1)
	}
	sc.cutoff = lib.Pick(r, 0, 1, 50*us, 50*us, 1*ms, -1, -5*us, 1<<40, math.MaxInt64, 10*us, 7)
	sc.interval = lib.Pick(r, 1*ms, 250*ms, 1*s, 1*s, 1500*ms, 16*s, 64*s, 1000*s, 999999999, 1000000001, 3) + r.Range(0, 1)*r.Range(0, 1000)
	sc.timeout = lib.Pick(r, sc.interval/2, sc.interval/2, 1, sc.interval/4, r.Range(1, sc.interval/2))
	if sc.timeout < 1 {
		sc.timeout = 1
	}
	if r.Intn(3) == 0 {
		sc.mode = 1
		sc.dval = lib.Pick[int64](r, 1, 2, 3, 10, 1000, 10000, 12345, 1<<20, 1<<30, 999999) + r.Range(0, 3)
	} else {
		sc.mode = 0
		sc.dval = lib.Pick(r, 1000, 10000, 10000, 100000, 500000, 1, 123456, 1*s, 10*us, 31*us, 250)
	}
}

// histories with a sane configuration
func genHistory(r *lib.Rng, maxRounds int) *scenario {
	sc := &scenario{fam: "history"}
	saneConfig(r, sc)
	sc.nref, sc.npeer = nSources(r), nSources(r)
	flaky := lib.Pick(r, 0, 0, 10, 30, 60)
	if flaky == 0 {
		sc.fam = "history-all-timely"
	}
	genRounds(r, sc, 1+r.Intn(maxRounds), flaky)
	return sc
}

// one round, one reference clock and three equal peers: the aggregated offsets
// are exactly the chosen values, placed on the thresholds
func genBoundary(r *lib.Rng) *scenario {
	sc := &scenario{fam: "boundary"}
	saneConfig(r, sc)
	switch r.Intn(4) {
	case 0:
		sc.nref, sc.npeer = 1, 0
	case 1:
		sc.nref, sc.npeer = 0, 3
	default:
		sc.nref, sc.npeer = 1, 3
	}
	g := newOffGen(r, sc)
	n := 1 + r.Intn(3)
	for i := 0; i < n; i++ {
		var rs roundSpec
		ro, po := g.interesting[r.Intn(len(g.interesting))], g.interesting[r.Intn(len(g.interesting))]
		for j := 0; j < sc.nref; j++ {
			rs.refs = append(rs.refs, beh{0, ro, 0})
		}
		for j := 0; j < sc.npeer; j++ {
			rs.peers = append(rs.peers, beh{0, po, 0})
		}
		sc.rounds = append(sc.rounds, rs)
	}
	return sc
}

// peers move across the cutoff from round to round while the reference clocks stay put
func genCutoffWalk(r *lib.Rng) *scenario {
	sc := &scenario{fam: "cutoff-walk"}
	saneConfig(r, sc)
	sc.cutoff = lib.Pick(r, 50*us, 1*ms, 10*us, 100, 1<<33)
	sc.nref, sc.npeer = r.Intn(3), lib.Pick(r, 1, 3, 3, 4)
	g := newOffGen(r, sc)
	ro := g.off()
	n := 2 + r.Intn(8)
	for i := 0; i < n; i++ {
		var rs roundSpec
		var po int64
		switch r.Intn(4) {
		case 0:
			po = sat(sc.cutoff, r.Range(1, 3)) * int64(1-2*r.Intn(2))
		case 1:
			po = r.Range(-sc.cutoff, sc.cutoff)
		case 2:
			po = sat(satMul2(sc.cutoff), r.Range(-2, 3)) * int64(1-2*r.Intn(2))
		default:
			po = g.off()
		}
		for j := 0; j < sc.nref; j++ {
			rs.refs = append(rs.refs, beh{0, sat(ro, r.Range(-1, 1)), 0})
		}
		for j := 0; j < sc.npeer; j++ {
			b := beh{0, po, 0}
			if r.Intn(10) == 0 {
				b = genBeh(r, g, sc, 100)
			}
			rs.peers = append(rs.peers, b)
		}
		sc.rounds = append(sc.rounds, rs)
	}
	return sc
}

// stale values: a first round with large offsets from everybody, then rounds
// in which most sources fail, so the midpoint is taken over old values
func genStale(r *lib.Rng) *scenario {
	sc := &scenario{fam: "stale"}
	saneConfig(r, sc)
	sc.nref, sc.npeer = 1+r.Intn(5), r.Intn(5)
	if r.Bool() {
		sc.nref, sc.npeer = sc.npeer, sc.nref
	}
	g := newOffGen(r, sc)
	n := 2 + r.Intn(10)
	for i := 0; i < n; i++ {
		var rs roundSpec
		flaky := 70
		if i == 0 || r.Intn(5) == 0 {
			flaky = 0
		}
		for j := 0; j < sc.nref; j++ {
			rs.refs = append(rs.refs, genBeh(r, g, sc, flaky))
		}
		for j := 0; j < sc.npeer; j++ {
			rs.peers = append(rs.peers, genBeh(r, g, sc, flaky))
		}
		sc.rounds = append(sc.rounds, rs)
	}
	return sc
}

// configurations on both sides of every start-up threshold
func genStartup(r *lib.Rng) *scenario {
	sc := &scenario{fam: "startup"}
	saneConfig(r, sc)
	sc.nref, sc.npeer = r.Intn(2), 0
	which := r.Intn(9)
	switch which {
	case 0: // reference factor around 1
		sc.refImpact = lib.Pick(r, 1.0, ulpDown(1.0), ulpUp(1.0), 0.0, -1.25, 0.5, math.Inf(1), math.Inf(-1), math.NaN(), math.Copysign(0, -1), 1e-300)
		if r.Bool() {
			sc.peerImpact = sc.refImpact + 1.5
		}
	case 1: // peer factor around 1
		sc.peerImpact = lib.Pick(r, 1.0, ulpDown(1.0), ulpUp(1.0), 0.0, -2.5, math.Inf(1), math.Inf(-1), math.NaN(), 1.5)
		if r.Bool() {
			sc.refImpact = lib.Pick(r, ulpUp(1.0), 1.25, ulpDown(1.0), 0.25)
		}
	case 2: // peer - 1 around ref
		sc.refImpact = lib.Pick(r, 1.25, 1.5, ulpUp(1.0), 2.0, 3.0, 1e6, 4503599627370497.0, 9007199254740992.0, 9007199254740994.0, 1e300, 1.7e308)
		p := sc.refImpact + 1
		sc.peerImpact = lib.Pick(r, p, ulpDown(p), ulpUp(p), ulpUp(ulpUp(p)), sc.refImpact, p+1, ulpDown(ulpDown(p)))
	case 3: // interval around 0
		sc.interval = lib.Pick(r, 0, 0, -1, 1, 2, 3, math.MinInt64, math.MaxInt64, -1*s)
		sc.timeout = lib.Pick(r, 0, 0, 1, sc.interval/2)
		if r.Bool() { // a clock that reports a positive drift whatever the interval
			sc.mode, sc.dval = 1, lib.Pick[int64](r, 1, 1000, 100000)
		}
	case 4: // timeout around interval/2 and 0
		h := sc.interval / 2
		sc.timeout = lib.Pick(r, h, h+1, h-1, 0, -1, sc.interval, math.MaxInt64, math.MinInt64, 1)
	case 5: // drift reported by the clock around 0
		sc.mode = 1
		sc.dval = lib.Pick[int64](r, 0, -1, 1, 2, math.MinInt64, math.MaxInt64, -1000)
	case 6: // real clock: drift x interval truncates to 0 / unknown drift / overflow
		sc.mode = 0
		sc.interval = lib.Pick(r, 1*ms, 1*us, 999, 1*s, 10*s, 1<<62)
		sc.dval = lib.Pick(r, 0, 1, 999, 1000, 1001, 1000000, 1*s, 100*s)
		sc.timeout = lib.Pick(r, sc.interval/2, 1)
	case 7: // odd intervals: interval/2 truncation
		sc.interval = lib.Pick[int64](r, 1, 3, 5, 7, 2, 4, 999999999)
		h := sc.interval / 2
		sc.timeout = lib.Pick(r, h, h+1, 0)
	default: // everything fine
	}
	// timeout 0 and immediately answering sources race in the implementation (both
	// channel operations are ready); keep those runs deterministic: only failing sources
	flaky := 0
	if sc.timeout <= 0 || sc.interval <= 0 {
		flaky = 100
	}
	n := 1 + r.Intn(3)
	g := newOffGen(r, sc)
	for i := 0; i < n; i++ {
		var rs roundSpec
		for j := 0; j < sc.nref; j++ {
			if flaky == 100 {
				rs.refs = append(rs.refs, beh{1, g.off(), 0})
			} else {
				rs.refs = append(rs.refs, genBeh(r, g, sc, 0))
			}
		}
		sc.rounds = append(sc.rounds, rs)
	}
	return sc
}

// very large drifts and factors: caps around 2^53, 2^62, 2^63 and beyond
func genExtreme(r *lib.Rng) *scenario {
	sc := &scenario{fam: "extreme"}
	sc.mode = 1
	sc.refImpact = lib.Pick(r, 1.25, 1.5, ulpUp(1.0), 2.0, 1e3, 1e6)
	sc.peerImpact = sc.refImpact + 1 + lib.Pick(r, 0.25, 1.0, 10.0, 1000.0)
	if r.Intn(10) == 0 {
		sc.peerImpact = math.Inf(1)
	}
	k := uint(lib.Pick(r, 50, 51, 52, 53, 54, 55, 58, 59, 60, 61, 62))
	sc.dval = sat(int64(1)<<k, r.Range(-3, 3))
	if r.Intn(6) == 0 {
		sc.dval = lib.Pick(r, math.MaxInt64, math.MaxInt64-1, (1<<62)+1, clip(float64(uint64(1)<<62)/sc.peerImpact), clip(float64(uint64(1)<<63)/sc.peerImpact), clip(float64(uint64(1)<<63)/sc.refImpact))
	}
	if r.Intn(6) == 0 {
		sc.dval = clip(9007199254740992.0/sc.peerImpact) + r.Range(-2, 2)
	}
	if sc.dval <= 0 {
		sc.dval = 1 << 53
	}
	sc.cutoff = lib.Pick(r, 0, 50*us, 1<<50, 1<<61, math.MaxInt64, math.MaxInt64-1, -1)
	sc.interval = lib.Pick(r, 1*s, math.MaxInt64, 1<<62, 1000*s)
	sc.timeout = lib.Pick(r, sc.interval/2, 1*ms, 1)
	switch r.Intn(4) {
	case 0:
		sc.nref, sc.npeer = 1, 0
	case 1:
		sc.nref, sc.npeer = 0, 3
	case 2:
		sc.nref, sc.npeer = 1, 3
	default:
		sc.nref, sc.npeer = nSources(r), nSources(r)
	}
	g := newOffGen(r, sc)
	n := 1 + r.Intn(3)
	for i := 0; i < n; i++ {
		var rs roundSpec
		ro, po := g.off(), g.off()
		uniform := r.Bool()
		for j := 0; j < sc.nref; j++ {
			v := ro
			if !uniform {
				v = g.off()
			}
			b := beh{0, v, 0}
			if r.Intn(8) == 0 {
				b.kind = 1
			}
			rs.refs = append(rs.refs, b)
		}
		for j := 0; j < sc.npeer; j++ {
			v := po
			if !uniform {
				v = g.off()
			}
			b := beh{0, v, 0}
			if r.Intn(8) == 0 {
				b.kind = 1
			}
			rs.peers = append(rs.peers, b)
		}
		sc.rounds = append(sc.rounds, rs)
	}
	return sc
}

func genI64(r *lib.Rng) int64 {
	switch r.Intn(6) {
	case 0:
		return lib.Pick(r, int64(math.MinInt64), math.MaxInt64, 0, -1, 1)
	case 1:
		k := uint(r.Intn(63))
		return int64(1)<<k + r.Range(-2, 2)
	case 2:
		return r.I64()
	default:
		return r.Range(0, 1<<uint(r.Intn(50)))
	}
}

func genDrift(r *lib.Rng) {
	var drift, d int64
	switch r.Intn(6) {
	case 0:
		drift, d = genI64(r), genI64(r)
	case 1: // sub-second and odd intervals with plausible drifts
		drift = lib.Pick[int64](r, 1000, 10000, 100000, 500000, 1, 31000, 250)
		d = lib.Pick(r, 1*ms, 250*ms, 100*ms, 999*ms, 1500*ms, 2500*ms, 1*s, 16*s, 64*s) + r.Range(-1, 1)
	case 2:
		drift = r.Range(1, 1000000)
		d = r.Range(1, 100*s)
	case 3:
		drift = r.Range(1, 1*s)
		d = r.Range(1, 1<<40)
	case 4:
		drift = r.Range(1, 1<<uint(r.Intn(40)))
		d = r.Range(1, 1<<uint(1+r.Intn(62)))
	default:
		drift = lib.Pick[int64](r, 0, 1, -1, 999, 1000, 1001)
		d = lib.Pick(r, 0, 1, -1, 1*s, 1*s-1, 1*s+1, 500*ms)
	}
	driftCase(drift, d)
}

func generate(r *lib.Rng, nScen, nDrift, maxRounds int) {
	// fixed cases first (always present whatever the seed)
	fixed()
	for i := 0; i < nScen; i++ {
		var sc *scenario
		switch x := r.Intn(20); {
		case x < 6:
			sc = genHistory(r, maxRounds)
		case x < 10:
			sc = genBoundary(r)
		case x < 12:
			sc = genCutoffWalk(r)
		case x < 15:
			sc = genStale(r)
		case x < 18:
			sc = genStartup(r)
		default:
			sc = genExtreme(r)
		}
		emit(sc)
	}
	for i := 0; i < nDrift; i++ {
		genDrift(r)
	}
}

// fixed: the configuration of the service's defaults (factor 1.25 / 2.5,
// cutoff 50us, timeout 0.5s, interval 1s, drift 10 ppm .. 100 ppm) with
// hand-picked histories
func fixed() {
	def := func() *scenario {
		return &scenario{fam: "fixed", mode: 0, dval: 100 * us, refImpact: 1.25, peerImpact: 2.5, cutoff: 50 * us, timeout: 500 * ms, interval: 1 * s}
	}
	t := func(v int64) beh { return beh{0, v, 0} }
	// peers beyond the cutoff, then within it (reference clock constant)
	sc := def()
	sc.nref, sc.npeer = 1, 1
	for _, p := range []int64{400 * us, 0, 40 * us, 101 * us, 100 * us, 99 * us, -101 * us, -100 * us} {
		sc.rounds = append(sc.rounds, roundSpec{refs: []beh{t(100 * us)}, peers: []beh{t(p)}})
	}
	emit(sc)
	// the bound at full strength beyond 2^62 ns: a drift allowance of 3e18 ns per round (95 years), default factors;
	// the two bounded values are more than 2^63 ns apart and Midpoint wraps (kind sync.extreme, a recorded finding)
	sc = def()
	sc.fam = "extreme-known"
	sc.mode, sc.dval = 1, 3000000000000000000
	sc.nref, sc.npeer = 1, 3
	sc.rounds = []roundSpec{{refs: []beh{t(math.MinInt64)}, peers: []beh{t(5473372036854775808), t(5473372036854775808), t(5473372036854775808)}}}
	emit(sc)
	// peers only
	sc = def()
	sc.nref, sc.npeer = 0, 1
	for _, p := range []int64{400 * us, 0, 40 * us, 1 * s, -1 * s, math.MinInt64, math.MaxInt64} {
		sc.rounds = append(sc.rounds, roundSpec{peers: []beh{t(p)}})
	}
	emit(sc)
	// sub-second interval with the real clock
	for _, asPeer := range []bool{false, true} {
		sc = def()
		sc.dval, sc.cutoff, sc.timeout, sc.interval = 10*us, 50, 100*ms, 250*ms
		for _, v := range []int64{1 * s, -1 * s, math.MaxInt64, math.MinInt64, 1 * ms, -5 * us, 3125, 3126, 6250, 6251, 12500, 12501} {
			if asPeer {
				sc.npeer = 3
				sc.rounds = append(sc.rounds, roundSpec{peers: []beh{t(v), t(v), t(v)}})
			} else {
				sc.nref = 1
				sc.rounds = append(sc.rounds, roundSpec{refs: []beh{t(v)}})
			}
		}
		emit(sc)
	}
	// every start-up threshold, both sides, with a scripted clock (Drift = 100us) and one reference clock
	one := func(f func(sc *scenario)) {
		sc := def()
		sc.mode, sc.dval = 1, 100*us
		sc.nref = 1
		f(sc)
		b := t(1 * s)
		if sc.timeout <= 0 {
			b = beh{1, 1 * s, 0}
		}
		sc.rounds = []roundSpec{{refs: []beh{b}}, {refs: []beh{b}}}
		emit(sc)
	}
	for _, v := range []float64{1.0, ulpUp(1.0), ulpDown(1.0), 0.999, -1.25, 0} {
		one(func(sc *scenario) { sc.refImpact = v })
	}
	for _, v := range []float64{1.0, ulpUp(1.0), 2.25, ulpUp(2.25), ulpDown(2.25), 2.0, 1.25, 1.2} {
		one(func(sc *scenario) { sc.peerImpact = v })
	}
	for _, v := range []int64{0, 1, -1, 2, math.MinInt64} {
		one(func(sc *scenario) { sc.interval = v; sc.timeout = 0 })
	}
	for _, v := range []int64{-1, 0, 500 * ms, 500*ms + 1, 500*ms - 1, 1 * s, math.MaxInt64, math.MinInt64} {
		one(func(sc *scenario) { sc.timeout = v })
	}
	for _, v := range []int64{1*s + 1, 3, 1} { // odd intervals: half the interval truncates
		one(func(sc *scenario) { sc.interval = v; sc.timeout = v / 2 })
		one(func(sc *scenario) { sc.interval = v; sc.timeout = v/2 + 1 })
	}
	for _, v := range []int64{0, 1, -1, math.MinInt64, math.MaxInt64} {
		one(func(sc *scenario) { sc.dval = v })
	}
	// a failing reference clock keeps its old (large) value
	sc = def()
	sc.nref, sc.npeer = 3, 0
	sc.rounds = []roundSpec{
		{refs: []beh{t(1 * s), t(2 * s), t(3 * s)}},
		{refs: []beh{t(10 * us), {1, 5, 0}, {3, 6, 0}}},
		{refs: []beh{{2, 1, 600 * ms}, t(-20 * us), {2, 7, 2500 * ms}}},
		{refs: []beh{t(1), t(2), t(3)}},
	}
	emit(sc)
}
