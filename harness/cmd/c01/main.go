// C01: per-round clock correction of core/sync.Run is bounded whatever the
// sources report.  The real sync.Run is driven inside a testing/synctest
// bubble with a fake SystemClock (whose Drift is the real
// clocks.SystemClock.Drift or a scripted value, and whose Sleep counts rounds
// and ends the goroutine after the last scripted round), a recording
// adjustments.Adjustment and scripted reference clocks / peers that answer
// a value, fail, answer after the round's deadline or not at all.
package main

import (
	"context"
	"errors"
	"fmt"
	"io"
	"log/slog"
	"math"
	"os"
	"runtime"
	"strings"
	gosync "sync"
	"sync/atomic"
	"testing/synctest"
	"time"

	"github.com/prometheus/client_golang/prometheus"

	"example.com/scion-time/core/client"
	"example.com/scion-time/core/sync"
	"example.com/scion-time/driver/clocks"

	"verifharness/lib"
)

var w *lib.Writer
var wiringDone bool
var nolog = slog.New(slog.NewTextHandler(io.Discard, nil))

// ---- scenario ----

type beh struct {
	kind  int   // 0 timely value, 1 error, 2 late value, 3 blocks until the context ends
	val   int64 // value reported (also by failing sources: it must be ignored)
	delay int64 // virtual ns before answering
}

type roundSpec struct{ refs, peers []beh }

type scenario struct {
	mode                      int   // 0: real SystemClock.Drift with configured drift dval; 1: Drift returns dval
	dval                      int64 // drift in ns per s (mode 0) or the value Drift returns (mode 1)
	refImpact, peerImpact     float64
	cutoff, timeout, interval int64
	nref, npeer               int
	rounds                    []roundSpec
	fam                       string
	done                      chan struct{} // closed when Run's goroutine has ended (set by runScenario)
}

// ---- fakes ----

type recorder struct {
	mu         gosync.Mutex
	events     []string
	roundStart time.Time // virtual time at which the current round began (start of Run, return of Sleep)
}

func (r *recorder) startRound() {
	r.mu.Lock()
	r.roundStart = time.Now()
	r.mu.Unlock()
}

func (r *recorder) sinceRoundStart() time.Duration {
	r.mu.Lock()
	defer r.mu.Unlock()
	return time.Since(r.roundStart)
}

func (r *recorder) add(s string) {
	r.mu.Lock()
	r.events = append(r.events, s)
	r.mu.Unlock()
}

type fakeClock struct {
	rec    *recorder
	real   *clocks.SystemClock
	dval   int64
	round  *atomic.Int64
	rounds int64
}

func (c *fakeClock) Epoch() uint64  { c.rec.add(lib.L("3", "0")); return 0 }
func (c *fakeClock) Now() time.Time { c.rec.add(lib.L("3", "1")); return time.Unix(0, 0) }
func (c *fakeClock) Step(time.Duration) { c.rec.add(lib.L("3", "2")) }
func (c *fakeClock) Adjust(time.Duration, time.Duration, float64) {
	c.rec.add(lib.L("3", "3"))
}
func (c *fakeClock) Drift(d time.Duration) time.Duration {
	var r time.Duration
	if c.real != nil {
		r = c.real.Drift(d)
	} else {
		r = time.Duration(c.dval)
	}
	c.rec.add(lib.L("2", lib.I(int64(d)), lib.I(int64(r))))
	return r
}
func (c *fakeClock) Sleep(d time.Duration) {
	c.rec.add(lib.L("1", lib.I(int64(d))))
	if c.round.Add(1) >= c.rounds {
		runtime.Goexit() // ends the goroutine running sync.Run
	}
	if d > 0 {
		if d > time.Duration(1)<<42 {
			d = time.Duration(1) << 42
		}
		time.Sleep(d) // virtual time inside the bubble
	}
	c.rec.startRound()
}

type fakeAdj struct{ rec *recorder }

// Do records the correction and the virtual time that has passed since the round began: the property hands one
// correction per round to the discipline whatever delays the sources produce, i.e. by the round's deadline
func (a *fakeAdj) Do(offset time.Duration) {
	a.rec.add(lib.L("0", lib.I(int64(offset)), lib.I(int64(a.rec.sinceRoundStart()))))
}

var errScripted = errors.New("scripted failure")

type source struct {
	sc    *scenario
	peer  bool
	idx   int
	round *atomic.Int64
}

func (s *source) MeasureClockOffset(ctx context.Context) (time.Time, time.Duration, error) {
	r := int(s.round.Load())
	if r >= len(s.sc.rounds) {
		// only with timeout 0: the round is over before this goroutine first runs
		return time.Time{}, 0, errScripted
	}
	var b beh
	if s.peer {
		b = s.sc.rounds[r].peers[s.idx]
	} else {
		b = s.sc.rounds[r].refs[s.idx]
	}
	ts := time.Unix(1700000000+int64(r), int64(s.idx))
	switch b.kind {
	case 0, 2:
		if b.delay > 0 {
			time.Sleep(time.Duration(b.delay))
		}
		return ts, time.Duration(b.val), nil
	case 1:
		if b.delay > 0 {
			time.Sleep(time.Duration(b.delay))
		}
		return ts, time.Duration(b.val), errScripted
	case 4:
		// ignores its context: comes back long after the deadline (timeout + 3 intervals of virtual time) or when
		// the scenario is over, whichever is first
		select {
		case <-s.sc.done:
		case <-time.After(hangOf(s.sc)):
		}
		return ts, time.Duration(b.val), errScripted
	default:
		<-ctx.Done()
		return ts, time.Duration(b.val), ctx.Err()
	}
}

func hangOf(sc *scenario) time.Duration {
	lim := int64(1) << 42
	iv, to := sc.interval, sc.timeout
	if iv < 0 || iv > lim {
		iv = lim
	}
	if to < 0 || to > lim {
		to = lim
	}
	return time.Duration(to + 3*iv + 1)
}

// runScenario drives the real sync.Run for len(sc.rounds) rounds.
func runScenario(sc *scenario) (panicked bool, events []string) {
	rec := &recorder{}
	var round atomic.Int64
	clk := &fakeClock{rec: rec, dval: sc.dval, round: &round, rounds: int64(len(sc.rounds))}
	if sc.mode == 0 {
		clk.real = clocks.NewSystemClock(nolog, time.Duration(sc.dval))
	}
	adj := &fakeAdj{rec: rec}
	var refs, peers []client.ReferenceClock
	for i := 0; i < sc.nref; i++ {
		refs = append(refs, &source{sc: sc, idx: i, round: &round})
	}
	for i := 0; i < sc.npeer; i++ {
		peers = append(peers, &source{sc: sc, peer: true, idx: i, round: &round})
	}
	cfg := sync.Config{
		ReferenceClockImpact: sc.refImpact,
		PeerClockImpact:      sc.peerImpact,
		PeerClockCutoff:      time.Duration(sc.cutoff),
		SyncTimeout:          time.Duration(sc.timeout),
		SyncInterval:         time.Duration(sc.interval),
	}
	prometheus.DefaultRegisterer = prometheus.NewRegistry()
	var pan atomic.Bool
	synctest.Run(func() {
		sc.done = make(chan struct{}) // made inside the bubble: waiting on it is a durable block for synctest
		rec.startRound()
		go func() {
			defer close(sc.done)
			defer func() {
				if r := recover(); r != nil {
					pan.Store(true)
				}
			}()
			if len(sc.rounds) == 0 {
				return
			}
			sync.Run(nolog, cfg, clk, adj, refs, peers)
		}()
	})
	return pan.Load(), rec.events
}

// ---- case output ----

func fbits(f float64) uint64 {
	if math.IsNaN(f) {
		return 0x7ff8000000000000
	}
	return math.Float64bits(f)
}

func behStr(bs []beh) string {
	s := make([]string, len(bs))
	for i, b := range bs {
		s[i] = lib.L(lib.I(int64(b.kind)), lib.I(b.val), lib.I(b.delay))
	}
	return lib.L(s...)
}

func (sc *scenario) args() string {
	rs := make([]string, len(sc.rounds))
	for i, r := range sc.rounds {
		rs[i] = lib.L(behStr(r.refs), behStr(r.peers))
	}
	return lib.V(lib.I(int64(sc.mode)), lib.I(sc.dval), lib.U(fbits(sc.refImpact)), lib.U(fbits(sc.peerImpact)),
		lib.I(sc.cutoff), lib.I(sc.timeout), lib.I(sc.interval), lib.I(int64(sc.nref)), lib.I(int64(sc.npeer)), lib.L(rs...))
}

func abs64(x int64) uint64 {
	if x < 0 {
		return uint64(-x)
	}
	return uint64(x)
}

// tags describe what the scenario exercised (from the inputs and the observed
// corrections; only used for the statistics in the evidence)
func (sc *scenario) tags(pan bool, events []string) string {
	t := map[string]bool{}
	t["fam-"+sc.fam] = true
	if pan {
		t["refused"] = true
		t["nt"] = true
	} else {
		if sc.nref+sc.npeer > 0 {
			t["nt"] = true
		}
		if sc.nref > 0 && sc.npeer > 0 {
			t["both-sides"] = true
		} else if sc.nref > 0 {
			t["ref-only"] = true
		} else if sc.npeer > 0 {
			t["peer-only"] = true
		}
		if len(sc.rounds) > 1 {
			t["multi-round"] = true
		}
		var d float64
		if sc.mode == 0 {
			d = float64(clocks.NewSystemClock(nolog, time.Duration(sc.dval)).Drift(time.Duration(sc.interval)))
		} else {
			d = float64(sc.dval)
		}
		rmax, pmax := sc.refImpact*d, sc.peerImpact*d
		for ri, r := range sc.rounds {
			failed := false
			note := func(bs []beh, peer bool) {
				for _, b := range bs {
					if b.kind != 0 {
						failed = true
					} else {
						a := float64(abs64(b.val))
						if !peer && a > rmax {
							t["ref-beyond-cap"] = true
						}
						if peer && a > pmax {
							t["peer-beyond-cap"] = true
						}
						if peer && abs64(b.val) <= abs64(sc.cutoff) && sc.cutoff > 0 {
							t["peer-within-cutoff"] = true
						}
					}
					switch b.kind {
					case 1:
						t["src-error"] = true
					case 2:
						t["src-late"] = true
					case 3:
						t["src-never"] = true
					case 4:
						t["src-ignores-context"] = true
					}
				}
			}
			note(r.refs, false)
			note(r.peers, true)
			if failed && ri > 0 {
				t["stale-values"] = true
			}
		}
		for _, e := range events {
			f := strings.Fields(strings.Trim(e, "[]"))
			if len(f) == 3 && f[0] == "0" {
				c := lib.ParseI(f[1])
				a := float64(abs64(c))
				switch {
				case c == 0:
					t["corr-zero"] = true
				case a == math.Trunc(rmax) && sc.nref > 0:
					t["corr-at-ref-cap"] = true
				case a == math.Trunc(pmax) && sc.npeer > 0:
					t["corr-at-peer-cap"] = true
				default:
					t["corr-inside"] = true
				}
			}
		}
	}
	keys := make([]string, 0, len(t))
	for k := range t {
		keys = append(keys, k)
	}
	// deterministic order
	for i := range keys {
		for j := i + 1; j < len(keys); j++ {
			if keys[j] < keys[i] {
				keys[i], keys[j] = keys[j], keys[i]
			}
		}
	}
	return strings.Join(keys, ",")
}

func emit(sc *scenario) {
	pan, events := runScenario(sc)
	kind := "sync.run"
	if sc.fam == "extreme-known" || sc.fam == "extreme-strict" {
		kind = "sync.extreme"
	}
	w.Case(kind, sc.tags(pan, events), sc.args(), lib.V(lib.Bool(pan), lib.L(events...)))
}

func driftCase(driftNs, d int64) {
	c := clocks.NewSystemClock(nolog, time.Duration(driftNs))
	tags := ""
	if driftNs > 0 && d > 0 {
		tags = "nt,drift"
	}
	w.Case("sync.drift", tags, lib.V(lib.I(driftNs), lib.I(d)), lib.I(int64(c.Drift(time.Duration(d)))))
}

// ---- replay: parse the args of a case line back into a scenario ----

type node struct {
	leaf string
	kids []*node
	list bool
}

func parseNodes(s string) []*node {
	pos := 0
	var parseList func(closing bool) []*node
	parseList = func(closing bool) []*node {
		var out []*node
		for {
			for pos < len(s) && s[pos] == ' ' {
				pos++
			}
			if pos >= len(s) {
				return out
			}
			if s[pos] == ']' {
				pos++
				return out
			}
			if s[pos] == '[' {
				pos++
				out = append(out, &node{list: true, kids: parseList(true)})
				continue
			}
			st := pos
			for pos < len(s) && s[pos] != ' ' && s[pos] != ']' && s[pos] != '[' {
				pos++
			}
			out = append(out, &node{leaf: s[st:pos]})
		}
	}
	return parseList(false)
}

func behsOf(n *node) []beh {
	var out []beh
	for _, k := range n.kids {
		out = append(out, beh{kind: int(lib.ParseI(k.kids[0].leaf)), val: lib.ParseI(k.kids[1].leaf), delay: lib.ParseI(k.kids[2].leaf)})
	}
	return out
}

func scenarioOfArgs(args string) *scenario {
	n := parseNodes(args)
	sc := &scenario{fam: "replay"}
	sc.mode = int(lib.ParseI(n[0].leaf))
	sc.dval = lib.ParseI(n[1].leaf)
	sc.refImpact = math.Float64frombits(lib.ParseU(n[2].leaf))
	sc.peerImpact = math.Float64frombits(lib.ParseU(n[3].leaf))
	sc.cutoff = lib.ParseI(n[4].leaf)
	sc.timeout = lib.ParseI(n[5].leaf)
	sc.interval = lib.ParseI(n[6].leaf)
	sc.nref = int(lib.ParseI(n[7].leaf))
	sc.npeer = int(lib.ParseI(n[8].leaf))
	for _, r := range n[9].kids {
		sc.rounds = append(sc.rounds, roundSpec{refs: behsOf(r.kids[0]), peers: behsOf(r.kids[1])})
	}
	return sc
}

func main() {
	a := lib.ParseArgs()
	w = lib.NewWriter(a.Out)
	defer w.Close()
	defer cleanupService()
	if a.Replay != "" {
		for _, l := range lib.ReplayLines(a.Replay) {
			switch l[0] {
			case "sync.run":
				emit(scenarioOfArgs(l[2]))
			case "sync.extreme":
				// same arguments; the family name makes emit write the kind sync.extreme again
				sc := scenarioOfArgs(l[2])
				sc.fam = "extreme-known"
				emit(sc)
			case "sync.drift":
				f := lib.Fields(l[2])
				driftCase(lib.ParseI(f[0]), lib.ParseI(f[1]))
			case "sync.config":
				replayConfig(l[2])
			case "sync.build":
				buildCase()
			case "sync.wiring":
				if !wiringDone {
					wiringDone = true
					wiringCases()
				}
			case "sync.sleep":
				sleepCase(time.Duration(lib.ParseI(lib.Fields(l[2])[0])))
			case "sync.clocks":
				replayClocks(l[2])
			}
		}
		return
	}
	r := lib.NewRng(a.Seed)
	nScen, nDrift, maxRounds, nCfg := 8000, 6000, 20, 300
	if a.Tier == "thorough" {
		nScen, nDrift, maxRounds, nCfg = 160000, 100000, 50, 3000
	}
	generate(r, nScen, nDrift, maxRounds)
	// ties at the deadline, SyncTimeout = 0, strict judgement of caps in [2^62, 2^63), many sources
	for i := 0; i < nScen/16; i++ {
		switch i % 5 {
		case 4:
			emit(genSingleHang(r))
		case 0:
			emit(genTies(r, maxRounds))
		case 1:
			emit(genTimeoutZero(r))
		case 2:
			emit(genExtremeStrict(r))
		default:
			emit(genManySources(r, maxRounds))
		}
	}
	// the source-level tie of runServer / runClient / createClocks, the real Sleep
	wiringCases()
	sleepCases(r, nCfg/100)
	// the configuration path (TOML settings through the service's own functions), then Run on what they return
	generateConfig(r, nCfg)
	clocksCases(r, serviceBinary(), nCfg/2)
	fmt.Fprintf(os.Stderr, "c01: %d cases\n", w.N())
}
