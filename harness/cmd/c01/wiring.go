// Source-level tie between the checked functions (clockDrift, syncConfig,
// sync.Run, SystemClock.Drift) and the service that uses them: runServer,
// runClient and createClocks of /repo/timeservice.go are straight-line wiring
// in package main that cannot be executed without starting listeners and
// disciplining the machine's clock.  A go/ast check (case kind sync.wiring,
// one case per function) establishes syntactically that
//
//	runServer, runClient:
//	 1 there is exactly one call of sync.Run, the top-level statement
//	   `go sync.Run(log, S, L, adj, R, P)` with identifiers as arguments
//	 2 R, P are the two results of the only createClocks call, a top-level
//	   `R, P := createClocks(cfg, ...)`, and are never assigned to again
//	 3 L is defined by the top-level `L := clocks.NewSystemClock(log, clockDrift(cfg))`
//	   (the only NewSystemClock call) and never assigned to again
//	 4 S is defined by the top-level `S := syncConfig(cfg)`, is never assigned
//	   to (neither S nor a field of S), and its address is never taken
//	 5 timebase.RegisterClock is called exactly once, with L
//	 6 cfg is defined by `cfg := loadConfig(configFile)` and neither cfg nor a
//	   field of cfg is ever assigned to
//	createClocks:
//	 7 the results are named refClocks, peerClocks; the only assignments that
//	   mention them are `X = append(X, ...)`, for refClocks inside a range over
//	   cfg.MBGReferenceClocks / PHCReferenceClocks / SHMReferenceClocks /
//	   NTPReferenceClocks, for peerClocks inside a range over cfg.SCIONPeers
//	   (each of the five loops appends at least once); returns are bare; the
//	   parameter cfg is never assigned to
//
// The observation is the list of rule numbers that do not hold.
package main

import (
	"go/ast"
	"go/parser"
	"go/token"
	"path/filepath"
	"sort"

	"verifharness/lib"
	"verifharness/svclib"
)

func repoDir() string { return svclib.RepoDir() }

func isIdent(e ast.Expr, name string) bool {
	id, ok := e.(*ast.Ident)
	return ok && id.Name == name
}

func isSel(e ast.Expr, pkg, name string) bool {
	s, ok := e.(*ast.SelectorExpr)
	return ok && isIdent(s.X, pkg) && s.Sel.Name == name
}

func mentions(n ast.Node, name string) bool {
	found := false
	ast.Inspect(n, func(x ast.Node) bool {
		if id, ok := x.(*ast.Ident); ok && id.Name == name {
			found = true
		}
		return !found
	})
	return found
}

// base identifier of an assignable expression (x, x.f, x[i], *x, (x))
func baseIdent(e ast.Expr) string {
	for {
		switch t := e.(type) {
		case *ast.Ident:
			return t.Name
		case *ast.SelectorExpr:
			e = t.X
		case *ast.IndexExpr:
			e = t.X
		case *ast.StarExpr:
			e = t.X
		case *ast.ParenExpr:
			e = t.X
		default:
			return ""
		}
	}
}

// every statement that writes to the variable name (or a part of it) or takes its address, except skip
func writes(body ast.Node, name string, skip ast.Node) int {
	n := 0
	ast.Inspect(body, func(x ast.Node) bool {
		if x == skip {
			return false
		}
		switch t := x.(type) {
		case *ast.AssignStmt:
			for _, l := range t.Lhs {
				if baseIdent(l) == name {
					n++
				}
			}
		case *ast.IncDecStmt:
			if baseIdent(t.X) == name {
				n++
			}
		case *ast.UnaryExpr:
			if t.Op == token.AND && baseIdent(t.X) == name {
				n++
			}
		case *ast.RangeStmt:
			if (t.Key != nil && baseIdent(t.Key) == name) || (t.Value != nil && baseIdent(t.Value) == name) {
				n++
			}
		case *ast.ValueSpec:
			for _, id := range t.Names {
				if id.Name == name {
					n++
				}
			}
		}
		return true
	})
	return n
}

func callsOf(body ast.Node, match func(*ast.CallExpr) bool) []*ast.CallExpr {
	var out []*ast.CallExpr
	ast.Inspect(body, func(x ast.Node) bool {
		if c, ok := x.(*ast.CallExpr); ok && match(c) {
			out = append(out, c)
		}
		return true
	})
	return out
}

// the top-level `lhs... := call` statement of the body whose right-hand side is the call c
func topDefine(body *ast.BlockStmt, c *ast.CallExpr) *ast.AssignStmt {
	for _, s := range body.List {
		if a, ok := s.(*ast.AssignStmt); ok && a.Tok == token.DEFINE && len(a.Rhs) == 1 && a.Rhs[0] == ast.Expr(c) {
			return a
		}
	}
	return nil
}

func checkRunner(fd *ast.FuncDecl) []int {
	bad := map[int]bool{}
	body := fd.Body
	// 1
	runs := callsOf(body, func(c *ast.CallExpr) bool { return isSel(c.Fun, "sync", "Run") })
	var run *ast.CallExpr
	if len(runs) == 1 {
		for _, s := range body.List {
			if g, ok := s.(*ast.GoStmt); ok && g.Call == runs[0] {
				run = g.Call
			}
		}
	}
	argName := func(i int) string {
		if run == nil || len(run.Args) != 6 {
			return ""
		}
		if id, ok := run.Args[i].(*ast.Ident); ok {
			return id.Name
		}
		return ""
	}
	if run == nil || len(run.Args) != 6 || argName(0) == "" || argName(1) == "" || argName(2) == "" || argName(3) == "" || argName(4) == "" || argName(5) == "" {
		bad[1] = true
	}
	S, L, R, P := argName(1), argName(2), argName(4), argName(5)
	// 6
	cfgName := ""
	loads := callsOf(body, func(c *ast.CallExpr) bool { return isIdent(c.Fun, "loadConfig") })
	if len(loads) == 1 && len(loads[0].Args) == 1 && len(fd.Type.Params.List) == 1 && len(fd.Type.Params.List[0].Names) == 1 &&
		isIdent(loads[0].Args[0], fd.Type.Params.List[0].Names[0].Name) {
		if d := topDefine(body, loads[0]); d != nil && len(d.Lhs) == 1 {
			if id, ok := d.Lhs[0].(*ast.Ident); ok {
				if writes(body, id.Name, d) == 0 {
					cfgName = id.Name
				}
			}
		}
	}
	if cfgName == "" {
		bad[6] = true
	}
	// 2
	ok2 := false
	ccs := callsOf(body, func(c *ast.CallExpr) bool { return isIdent(c.Fun, "createClocks") })
	if len(ccs) == 1 && len(ccs[0].Args) >= 1 && cfgName != "" && isIdent(ccs[0].Args[0], cfgName) && R != "" && P != "" && R != P {
		if d := topDefine(body, ccs[0]); d != nil && len(d.Lhs) == 2 && isIdent(d.Lhs[0], R) && isIdent(d.Lhs[1], P) {
			if writes(body, R, d) == 0 && writes(body, P, d) == 0 {
				ok2 = true
			}
		}
	}
	if !ok2 {
		bad[2] = true
	}
	// 3
	ok3 := false
	ncs := callsOf(body, func(c *ast.CallExpr) bool { return isSel(c.Fun, "clocks", "NewSystemClock") })
	if len(ncs) == 1 && len(ncs[0].Args) == 2 && L != "" && cfgName != "" {
		if dc, ok := ncs[0].Args[1].(*ast.CallExpr); ok && isIdent(dc.Fun, "clockDrift") && len(dc.Args) == 1 && isIdent(dc.Args[0], cfgName) {
			if d := topDefine(body, ncs[0]); d != nil && len(d.Lhs) == 1 && isIdent(d.Lhs[0], L) && writes(body, L, d) == 0 {
				ok3 = true
			}
		}
	}
	if !ok3 {
		bad[3] = true
	}
	// 4
	ok4 := false
	scs := callsOf(body, func(c *ast.CallExpr) bool { return isIdent(c.Fun, "syncConfig") })
	if len(scs) == 1 && len(scs[0].Args) == 1 && S != "" && cfgName != "" && isIdent(scs[0].Args[0], cfgName) {
		if d := topDefine(body, scs[0]); d != nil && len(d.Lhs) == 1 && isIdent(d.Lhs[0], S) && writes(body, S, d) == 0 {
			ok4 = true
		}
	}
	if !ok4 {
		bad[4] = true
	}
	// 5
	regs := callsOf(body, func(c *ast.CallExpr) bool { return isSel(c.Fun, "timebase", "RegisterClock") })
	if !(len(regs) == 1 && len(regs[0].Args) == 1 && L != "" && isIdent(regs[0].Args[0], L)) {
		bad[5] = true
	}
	return sortedKeys(bad)
}

func sortedKeys(m map[int]bool) []int {
	var out []int
	for k := range m {
		out = append(out, k)
	}
	sort.Ints(out)
	return out
}

func checkCreateClocks(fd *ast.FuncDecl) []int {
	ok := true
	res := fd.Type.Results
	var names []string
	if res != nil {
		for _, f := range res.List {
			for _, n := range f.Names {
				names = append(names, n.Name)
			}
		}
	}
	if len(names) != 2 || names[0] != "refClocks" || names[1] != "peerClocks" {
		ok = false
	}
	cfgName := ""
	if len(fd.Type.Params.List) >= 1 && len(fd.Type.Params.List[0].Names) == 1 {
		cfgName = fd.Type.Params.List[0].Names[0].Name
	}
	if cfgName == "" || writes(fd.Body, cfgName, nil) != 0 {
		ok = false
	}
	allowed := map[string]map[string]bool{
		"refClocks":  {"MBGReferenceClocks": true, "PHCReferenceClocks": true, "SHMReferenceClocks": true, "NTPReferenceClocks": true},
		"peerClocks": {"SCIONPeers": true},
	}
	seen := map[string]int{}
	// walk with the stack of enclosing range statements over cfg.<field>
	var walk func(n ast.Node, fields []string)
	walk = func(n ast.Node, fields []string) {
		ast.Inspect(n, func(x ast.Node) bool {
			if x == nil || x == n {
				return true
			}
			switch t := x.(type) {
			case *ast.RangeStmt:
				f := ""
				if s, ok := t.X.(*ast.SelectorExpr); ok && isIdent(s.X, cfgName) {
					f = s.Sel.Name
				}
				for _, v := range []ast.Expr{t.Key, t.Value} {
					if v != nil && (baseIdent(v) == "refClocks" || baseIdent(v) == "peerClocks") {
						ok = false
					}
				}
				walk(t.Body, append(append([]string{}, fields...), f))
				return false
			case *ast.AssignStmt:
				for i, l := range t.Lhs {
					b := baseIdent(l)
					if b != "refClocks" && b != "peerClocks" {
						continue
					}
					good := false
					if t.Tok == token.ASSIGN && len(t.Lhs) == 1 && len(t.Rhs) == 1 && isIdent(l, b) {
						if c, isCall := t.Rhs[i].(*ast.CallExpr); isCall && isIdent(c.Fun, "append") && len(c.Args) == 2 && isIdent(c.Args[0], b) && !c.Ellipsis.IsValid() {
							if len(fields) == 1 && allowed[b][fields[0]] {
								good = true
								seen[fields[0]]++
							}
						}
					}
					if !good {
						ok = false
					}
				}
			case *ast.UnaryExpr:
				if t.Op == token.AND && (baseIdent(t.X) == "refClocks" || baseIdent(t.X) == "peerClocks") {
					ok = false
				}
			case *ast.ReturnStmt:
				if len(t.Results) != 0 {
					ok = false
				}
			case *ast.FuncLit:
				if mentions(t, "refClocks") || mentions(t, "peerClocks") {
					ok = false
				}
			}
			return true
		})
	}
	walk(fd.Body, nil)
	for _, f := range []string{"MBGReferenceClocks", "PHCReferenceClocks", "SHMReferenceClocks", "NTPReferenceClocks", "SCIONPeers"} {
		if seen[f] == 0 {
			ok = false
		}
	}
	if ok {
		return nil
	}
	return []int{7}
}

// wiringCases writes the three sync.wiring cases (function 0 runServer, 1 runClient, 2 createClocks)
func wiringCases() {
	file := filepath.Join(repoDir(), "timeservice.go")
	fset := token.NewFileSet()
	f, err := parser.ParseFile(fset, file, nil, 0)
	funcs := map[string]*ast.FuncDecl{}
	if err == nil {
		for _, d := range f.Decls {
			if fd, ok := d.(*ast.FuncDecl); ok && fd.Recv == nil && fd.Body != nil {
				funcs[fd.Name.Name] = fd
			}
		}
	}
	for i, name := range []string{"runServer", "runClient", "createClocks"} {
		var bad []int
		fd := funcs[name]
		switch {
		case fd == nil:
			bad = []int{0} // the function is gone (or the file does not parse): the tie is broken
		case i < 2:
			bad = checkRunner(fd)
		default:
			bad = checkCreateClocks(fd)
		}
		items := make([]string, len(bad))
		for j, b := range bad {
			items[j] = lib.I(int64(b))
		}
		w.Case("sync.wiring", "nt,wiring", lib.I(int64(i)), lib.L(items...))
	}
}
