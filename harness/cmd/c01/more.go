// Further families and case kinds of C01: ties at the round's deadline,
// SyncTimeout = 0, both-side configurations with caps in [2^62, 2^63) whose
// midpoint cannot wrap (judged at full strength), many sources per side, the
// real SystemClock.Sleep, and the clock lists the service builds from its
// configuration (createClocks through the verification hook).
package main

import (
	"fmt"
	"math"
	"strings"
	"time"

	"example.com/scion-time/driver/clocks"

	"verifharness/lib"
	"verifharness/svclib"
)

// a source that completes exactly at the round's deadline (delay == timeout):
// a legitimate tie, either outcome is correct; at most three per scenario so
// that the checker can enumerate the resolutions
func genTies(r *lib.Rng, maxRounds int) *scenario {
	sc := &scenario{fam: "deadline-tie"}
	saneConfig(r, sc)
	if sc.timeout > 1<<40 {
		sc.timeout = 500 * ms
		sc.interval = 1 * s
	}
	sc.nref, sc.npeer = 1+r.Intn(4), r.Intn(4)
	if r.Bool() {
		sc.nref, sc.npeer = sc.npeer, sc.nref
	}
	n := 1 + r.Intn(4)
	genRounds(r, sc, n, lib.Pick(r, 0, 20))
	ties := 1 + r.Intn(3)
	for k := 0; k < ties; k++ {
		rs := &sc.rounds[r.Intn(len(sc.rounds))]
		if sc.nref > 0 && (sc.npeer == 0 || r.Bool()) {
			b := &rs.refs[r.Intn(sc.nref)]
			b.kind, b.delay = 0, sc.timeout
		} else if sc.npeer > 0 {
			b := &rs.peers[r.Intn(sc.npeer)]
			b.kind, b.delay = 0, sc.timeout
		}
	}
	return sc
}

// SyncTimeout = 0: the round's context is over when it is created; whether an
// immediately answering source (or the local clock among the peers) is still
// counted is a tie for every source, so only the clauses that hold for every
// offset are judged
func genTimeoutZero(r *lib.Rng) *scenario {
	sc := &scenario{fam: "timeout-zero"}
	saneConfig(r, sc)
	sc.timeout = 0
	sc.nref, sc.npeer = r.Intn(4), r.Intn(4)
	g := newOffGen(r, sc)
	n := 1 + r.Intn(4)
	for i := 0; i < n; i++ {
		var rs roundSpec
		for j := 0; j < sc.nref; j++ {
			rs.refs = append(rs.refs, beh{lib.Pick(r, 0, 0, 0, 1), g.off(), 0})
		}
		for j := 0; j < sc.npeer; j++ {
			rs.peers = append(rs.peers, beh{lib.Pick(r, 0, 0, 0, 1), g.off(), 0})
		}
		sc.rounds = append(sc.rounds, rs)
	}
	return sc
}

// both sides present, peer cap in [2^62, 2^63) ns, every source timely and all offsets of a round of one
// sign (or small): the two bounded values have the same sign or are small, Midpoint cannot wrap, and the
// bound of the property is judged at full strength (kind sync.extreme)
func genExtremeStrict(r *lib.Rng) *scenario {
	sc := &scenario{fam: "extreme-strict"}
	sc.mode = 1
	sc.refImpact = lib.Pick(r, 1.25, 1.5, 2.0)
	sc.peerImpact = sc.refImpact + lib.Pick(r, 1.25, 1.5, 2.0)
	lo := float64(uint64(1)<<62) / sc.peerImpact
	hi := float64(uint64(1)<<63) / sc.peerImpact
	sc.dval = int64(lo + (hi-lo)*float64(r.Intn(1000)+1)/1002.0)
	if sc.dval == 3000000000000000000 {
		sc.dval++
	}
	sc.cutoff = lib.Pick(r, 0, 50*us, 1<<50, 1<<61)
	sc.interval = 1 * s
	sc.timeout = 500 * ms
	sc.nref, sc.npeer = lib.Pick(r, 1, 1, 3), lib.Pick(r, 1, 3, 4)
	n := 1 + r.Intn(3)
	for i := 0; i < n; i++ {
		var rs roundSpec
		sign := int64(1 - 2*r.Intn(2))
		val := func() int64 {
			var v int64
			switch r.Intn(5) {
			case 0:
				v = math.MaxInt64
			case 1:
				v = int64(1)<<62 + r.Range(-3, 3)
			case 2:
				v = r.Range(0, 1<<40)
			case 3:
				v = int64(float64(sc.dval)*sc.refImpact) + r.Range(-2, 2)
			default:
				v = r.Range(1<<61, math.MaxInt64-1)
			}
			if v < 0 {
				v = math.MaxInt64
			}
			return sign * v
		}
		rv, pv := val(), val()
		for j := 0; j < sc.nref; j++ {
			rs.refs = append(rs.refs, beh{0, rv, 0})
		}
		for j := 0; j < sc.npeer; j++ {
			rs.peers = append(rs.peers, beh{0, pv, 0})
		}
		sc.rounds = append(sc.rounds, rs)
	}
	return sc
}

// many sources per side (fault tolerance f = 3, 4, 5)
func genManySources(r *lib.Rng, maxRounds int) *scenario {
	sc := &scenario{fam: "many-sources"}
	saneConfig(r, sc)
	sc.nref, sc.npeer = lib.Pick(r, 10, 13, 16, 0, 3), lib.Pick(r, 10, 13, 16, 9, 12, 15)
	if r.Bool() {
		sc.nref, sc.npeer = sc.npeer, sc.nref
	}
	n := 1 + r.Intn(4)
	if n > maxRounds {
		n = maxRounds
	}
	genRounds(r, sc, n, lib.Pick(r, 0, 0, 20, 40))
	return sc
}

// a side with exactly one source, and that source does not come back by the deadline (late, blocked until the
// context ends, or ignoring the context altogether): the round must still end at its deadline
func genSingleHang(r *lib.Rng) *scenario {
	sc := &scenario{fam: "single-source-hang"}
	saneConfig(r, sc)
	if sc.timeout > 1<<40 || sc.interval > 1<<40 {
		sc.timeout, sc.interval = 500*ms, 1*s
	}
	switch r.Intn(3) {
	case 0:
		sc.nref, sc.npeer = 1, 0
	case 1:
		sc.nref, sc.npeer = 0, 1
	default:
		sc.nref, sc.npeer = 1, 1
	}
	g := newOffGen(r, sc)
	n := 2 + r.Intn(3)
	for i := 0; i < n; i++ {
		var rs roundSpec
		slow := func() beh {
			switch r.Intn(4) {
			case 0:
				return beh{0, g.off(), 0}
			case 1:
				return beh{2, g.off(), sc.timeout + 1 + r.Range(0, sc.interval)}
			case 2:
				return beh{3, g.off(), 0}
			default:
				return beh{4, g.off(), 0}
			}
		}
		for j := 0; j < sc.nref; j++ {
			rs.refs = append(rs.refs, slow())
		}
		for j := 0; j < sc.npeer; j++ {
			rs.peers = append(rs.peers, slow())
		}
		sc.rounds = append(sc.rounds, rs)
	}
	return sc
}

// ---- the real SystemClock.Sleep ----

const sleepMargin = 10 * time.Second

// sleepCase calls the real Sleep; false when it did not come back within d + margin
func sleepCase(d time.Duration) bool {
	type res struct {
		pan     bool
		elapsed time.Duration
	}
	ch := make(chan res, 1)
	go func() {
		c := clocks.NewSystemClock(nolog, 0)
		t0 := time.Now()
		var pan bool
		func() {
			defer func() {
				if recover() != nil {
					pan = true
				}
			}()
			c.Sleep(d)
		}()
		ch <- res{pan, time.Since(t0)} // monotonic clock
	}()
	lim := sleepMargin + time.Second
	if d > 0 {
		lim += d
	}
	tags := "nt,sleep"
	select {
	case x := <-ch:
		w.Case("sync.sleep", tags, lib.I(int64(d)), lib.V(lib.Bool(x.pan), lib.I(int64(x.elapsed))))
		return true
	case <-time.After(lim):
		w.Case("sync.sleep", tags+",sleep-never-returned", lib.I(int64(d)), lib.V("0", lib.I(int64(lim))))
		return false
	}
}

func sleepCases(r *lib.Rng, n int) {
	ds := []time.Duration{0, 1 * time.Millisecond, 10 * time.Millisecond, 100 * time.Millisecond, -1, -1 * time.Millisecond, math.MinInt64, 1, 999 * time.Microsecond}
	for i := 0; i < n; i++ {
		ds = append(ds, time.Duration(r.Range(1, 30))*time.Millisecond+time.Duration(r.Range(0, 999999)))
	}
	for _, d := range ds {
		if !sleepCase(d) {
			return // a Sleep that never returns: one failing case is enough
		}
	}
}

// ---- the service binary and the clock lists ----

// buildCase reports whether the service builds with the verification hooks
func buildCase() string {
	bin := serviceBinary()
	if !svcHook {
		return ""
	}
	w.Case("sync.build", "nt,build", "", lib.Bool(bin != ""))
	return bin
}

type cfgClock struct {
	kind int // 0 ntp-ip, 1 ntp-scion, 2 mbg, 3 phc, 4 shm
	id   int
}

func (c cfgClock) code() int64 { return int64(c.kind*1000 + c.id) }

func (c cfgClock) toml() string {
	switch c.kind {
	case 0:
		return fmt.Sprintf("0-0,192.0.2.%d:123", c.id+1)
	case 1:
		return fmt.Sprintf("1-ff00:0:%x,10.1.%d.%d:10123", 0x200+c.id, c.id/200, c.id%200+1)
	case 2:
		return fmt.Sprintf("/dev/mbgclock%d", c.id)
	case 3:
		return fmt.Sprintf("/dev/ptp%d", c.id)
	default:
		if c.id == 0 {
			return "ntpshm"
		}
		return fmt.Sprintf("ntpshm:%d", c.id)
	}
}

// what the hook prints for it
func (c cfgClock) printed() string {
	switch c.kind {
	case 0:
		return fmt.Sprintf("ntp-ip 192.0.2.%d:123", c.id+1)
	case 1:
		return fmt.Sprintf("ntp-scion 1-ff00:0:%x,10.1.%d.%d:10123", 0x200+c.id, c.id/200, c.id%200+1)
	case 2:
		return fmt.Sprintf("*mbg.ReferenceClock /dev/mbgclock%d", c.id)
	case 3:
		return fmt.Sprintf("*phc.ReferenceClock /dev/ptp%d", c.id)
	default:
		return fmt.Sprintf("*shm.ReferenceClock %d", c.id)
	}
}

func codes(cs []cfgClock) string {
	items := make([]string, len(cs))
	for i, c := range cs {
		items[i] = lib.I(c.code())
	}
	return lib.L(items...)
}

func quoted(cs []cfgClock) string {
	items := make([]string, len(cs))
	for i, c := range cs {
		items[i] = fmt.Sprintf("%q", c.toml())
	}
	return "[" + strings.Join(items, ", ") + "]"
}

// clocksCase: refs (in the order mbg, phc, shm, ntp) and peers as configured; observed: the two lists
// createClocks returned, every element identified by what it was built from (code 9999: not a configured clock)
func clocksCase(bin string, refs, peers []cfgClock, scionLocal, withDaemon bool) {
	var b strings.Builder
	if scionLocal {
		b.WriteString("local_address = \"1-ff00:0:111,10.1.1.11\"\n")
	} else {
		b.WriteString("local_address = \"0-0,10.1.1.11\"\n")
	}
	if withDaemon {
		b.WriteString("scion_daemon_address = \"@DAEMON@\"\n") // svclib starts a stub daemon for the call
	}
	var by [5][]cfgClock
	for _, c := range refs {
		by[c.kind] = append(by[c.kind], c)
	}
	if len(by[2]) > 0 {
		fmt.Fprintf(&b, "mbg_reference_clocks = %s\n", quoted(by[2]))
	}
	if len(by[3]) > 0 {
		fmt.Fprintf(&b, "phc_reference_clocks = %s\n", quoted(by[3]))
	}
	if len(by[4]) > 0 {
		fmt.Fprintf(&b, "shm_reference_clocks = %s\n", quoted(by[4]))
	}
	var ntp []cfgClock
	for _, c := range refs {
		if c.kind <= 1 {
			ntp = append(ntp, c)
		}
	}
	if len(ntp) > 0 {
		fmt.Fprintf(&b, "ntp_reference_clocks = %s\n", quoted(ntp))
	}
	if len(peers) > 0 {
		fmt.Fprintf(&b, "scion_peer_clocks = %s\n", quoted(peers))
	}
	res, err := svclib.Wiring(bin, b.String())
	if err != nil {
		panic(fmt.Sprintf("c01: %v", err))
	}
	table := map[string]int64{}
	for _, c := range append(append([]cfgClock{}, refs...), peers...) {
		table[c.printed()] = c.code()
	}
	var orefs, opeers []string
	for _, c := range res.Clocks {
		code, ok := table[c.Kind+" "+c.ID]
		if !ok {
			code = 9999
		}
		if c.Role == "ref" {
			orefs = append(orefs, lib.I(code))
		} else {
			opeers = append(opeers, lib.I(code))
		}
	}
	done := !res.Fatal
	// the configuration order of the reference clocks, as createClocks builds them
	var ordered []cfgClock
	for _, k := range []int{2, 3, 4} {
		ordered = append(ordered, by[k]...)
	}
	ordered = append(ordered, ntp...)
	ok := done
	w.Case("sync.clocks", "nt,clocks", lib.V(codes(ordered), codes(peers)), lib.V(lib.Bool(ok), lib.L(orefs...), lib.L(opeers...)))
}

func clocksCases(r *lib.Rng, bin string, n int) {
	if bin == "" || !svcWiringHook {
		return
	}
	for i := 0; i < n; i++ {
		var refs, peers []cfgClock
		id := 0
		next := func() int { id++; return id - 1 }
		scionLocal := r.Intn(4) != 0
		nsrv, npeer := r.Intn(4), r.Intn(4)
		for j := 0; j < nsrv; j++ {
			k := r.Intn(2)
			if !scionLocal {
				k = 0
			}
			refs = append(refs, cfgClock{k, next()})
		}
		if r.Intn(3) == 0 {
			refs = append(refs, cfgClock{2 + r.Intn(3), next()})
		}
		if r.Intn(5) == 0 {
			refs = append(refs, cfgClock{2 + r.Intn(3), next()})
		}
		if scionLocal {
			for j := 0; j < npeer; j++ {
				peers = append(peers, cfgClock{1, next()})
			}
		}
		clocksCase(bin, refs, peers, scionLocal, scionLocal && r.Bool())
	}
}

func clocksOfNode(n *node) []cfgClock {
	var out []cfgClock
	for _, k := range n.kids {
		c := int(lib.ParseI(k.leaf))
		out = append(out, cfgClock{c / 1000, c % 1000})
	}
	return out
}

func replayClocks(args string) {
	bin := serviceBinary()
	if bin == "" || !svcWiringHook {
		return
	}
	n := parseNodes(args)
	if len(n) != 2 {
		return
	}
	refs, peers := clocksOfNode(n[0]), clocksOfNode(n[1])
	scionLocal := len(peers) > 0
	for _, c := range refs {
		if c.kind == 1 {
			scionLocal = true
		}
	}
	clocksCase(bin, refs, peers, scionLocal, scionLocal)
}
