// C08: no network input can crash or hang a listener or a client.
//
// The parent process starts a child (this executable again, USE_MOCK_KEYS=true) that runs every
// case: the project's decoders in-process under recover() with a time and a memory limit, and the
// real listeners and clients on loopback fed crafted input followed by a well-formed sentinel.
// The child announces each case before it runs it (CUR) and reports its observation afterwards
// (CASE).  When the child dies, stops reporting, or asks to be replaced after a hung case, the
// parent records the case in flight as a crash/hang observation and starts a new child at the
// next case.
package main

import (
	"bufio"
	"fmt"
	"io"
	"os"
	"os/exec"
	"sort"
	"strconv"
	"strings"
	"sync"
	"time"

	"verifharness/lib"
)

const (
	childEnv    = "C08_CHILD"
	fromEnv     = "C08_FROM"
	exitRestart = 75
	idleLimit   = 240 * time.Second
)

type job struct {
	kind, tags, args string
}

// covHook writes coverage data when the harness is built for a coverage audit (tag c08cov)
var covHook = func() {}

var (
	out   *bufio.Writer
	outMu sync.Mutex
)

func emitCur(idx int, j job) {
	outMu.Lock()
	defer outMu.Unlock()
	fmt.Fprintf(out, "CUR\t%d\t%s\t%s\t%s\n", idx, j.kind, j.tags, j.args)
	out.Flush()
}

func emitCase(j job, outs string) {
	outMu.Lock()
	defer outMu.Unlock()
	fmt.Fprintf(out, "CASE\t%s\t%s\t%s\t%s\n", j.kind, j.tags, j.args, outs)
	out.Flush()
}

func note(s string) {
	outMu.Lock()
	defer outMu.Unlock()
	fmt.Fprintf(out, "NOTE\t%s\n", strings.ReplaceAll(strings.ReplaceAll(s, "\n", " | "), "\t", " "))
	out.Flush()
}

// failedOuts is the observation recorded for a case during which the process died (cls 2) or
// stopped (cls 3).
func failedOuts(kind string, cls int) string {
	switch {
	case kind == "nts.auth" || kind == "nts.resp":
		return fmt.Sprintf("%d 0 0 []", cls)
	case kind == "srv.ip":
		return "0 [] 0"
	case kind == "srv.csptp":
		return "0 0 0"
	case kind == "cli.csptp":
		return "0 0"
	case strings.HasPrefix(kind, "srv.") || strings.HasPrefix(kind, "cli."):
		return "0 []"
	}
	return strconv.Itoa(cls)
}

func parent(a lib.Args) {
	w := lib.NewWriter(a.Out)
	defer w.Close()
	fmt.Println("NOTE " + notCovered)
	exe, err := os.Executable()
	if err != nil {
		panic(err)
	}
	from := 0
	restarts := 0
	failures := map[string]int{} // per kind: cases during which the child died or hung
	skipList := func() string {
		var ks []string
		for k, n := range failures {
			if n >= 2 {
				ks = append(ks, k)
			}
		}
		return strings.Join(ks, ",")
	}
	for {
		args := []string{"-tier", a.Tier, "-seed", fmt.Sprint(a.Seed), "-out", a.Out}
		if a.Replay != "" {
			args = append(args, "-replay", a.Replay)
		}
		cmd := exec.Command(exe, args...)
		cmd.Env = append(os.Environ(), childEnv+"=1", "USE_MOCK_KEYS=true", fmt.Sprintf("%s=%d", fromEnv, from), "C08_SKIP="+skipList())
		stdout, err := cmd.StdoutPipe()
		if err != nil {
			panic(err)
		}
		stderrFile, _ := os.CreateTemp("", "c08-child-stderr-*")
		if stderrFile != nil {
			cmd.Stderr = stderrFile
		}
		if err := cmd.Start(); err != nil {
			panic(err)
		}
		var mu sync.Mutex
		var cur []string // idx kind tags args
		finished := false
		last := time.Now()
		done := make(chan struct{})
		go func() {
			defer close(done)
			rd := bufio.NewReaderSize(stdout, 1<<20)
			for {
				line, err := rd.ReadString('\n')
				if len(line) > 0 && line[len(line)-1] == '\n' {
					p := strings.Split(line[:len(line)-1], "\t")
					mu.Lock()
					last = time.Now()
					switch {
					case p[0] == "CUR" && len(p) == 5:
						cur = p[1:]
					case p[0] == "CASE" && len(p) == 5:
						w.Case(p[1], p[2], p[3], p[4])
						if strings.HasSuffix(p[2], ",hang") {
							failures[p[1]]++
						}
						if cur != nil {
							if i, err := strconv.Atoi(cur[0]); err == nil {
								from = i + 1
							}
						}
						cur = nil
					case p[0] == "NOTE" && len(p) == 2:
						fmt.Println("NOTE " + p[1])
					case p[0] == "DONE":
						finished = true
					}
					mu.Unlock()
				}
				if err != nil {
					if err != io.EOF {
						fmt.Println("NOTE child pipe:", err)
					}
					return
				}
			}
		}()
		hung := false
		tick := time.NewTicker(time.Second)
	loop:
		for {
			select {
			case <-done:
				break loop
			case <-tick.C:
				mu.Lock()
				idle := time.Since(last)
				mu.Unlock()
				if idle > idleLimit {
					hung = true
					cmd.Process.Kill()
				}
			}
		}
		tick.Stop()
		werr := cmd.Wait()
		code := 0
		if ee, ok := werr.(*exec.ExitError); ok {
			code = ee.ExitCode()
		} else if werr != nil {
			code = -1
		}
		tail := ""
		if stderrFile != nil {
			b, _ := os.ReadFile(stderrFile.Name())
			os.Remove(stderrFile.Name())
			if len(b) > 1200 {
				b = b[:1200]
			}
			tail = strings.ReplaceAll(strings.ReplaceAll(string(b), "\n", " | "), "\t", " ")
		}
		mu.Lock()
		if finished && code == 0 && !hung {
			mu.Unlock()
			return
		}
		if code == exitRestart && !hung {
			// the child reported a hung case itself and asked to be replaced
			mu.Unlock()
			restarts++
			if restarts > 200 {
				fmt.Println("NOTE too many restarts, giving up")
				return
			}
			continue
		}
		what := "died"
		cls := 2
		if hung {
			what, cls = "stopped reporting", 3
		}
		if cur != nil {
			fmt.Printf("NOTE child process %s (exit %d) during case %s %s: %s\n", what, code, cur[0], cur[1], tail)
			w.Case(cur[1], cur[2]+",crash", cur[3], failedOuts(cur[1], cls))
			failures[cur[1]]++
			if i, err := strconv.Atoi(cur[0]); err == nil {
				from = i + 1
			}
		} else {
			fmt.Printf("NOTE child process %s (exit %d) outside any case: %s\n", what, code, tail)
			w.Case("child", "crash", "0", strconv.Itoa(cls))
			mu.Unlock()
			return
		}
		mu.Unlock()
		restarts++
		if restarts > 200 {
			fmt.Println("NOTE too many restarts, giving up")
			return
		}
	}
}

func child(a lib.Args) {
	from, _ := strconv.Atoi(os.Getenv(fromEnv))
	startMemoryWatch()
	var jobs []job
	if a.Replay != "" {
		for _, l := range lib.ReplayLines(a.Replay) {
			tags := strings.TrimSuffix(strings.TrimSuffix(strings.TrimSuffix(l[1], ",crash"), ",hang"), "crash")
			jobs = append(jobs, job{l[0], tags, l[2]})
		}
	} else {
		jobs = generate(a.Tier, a.Seed)
	}
	skip := map[string]bool{}
	for _, k := range strings.Split(os.Getenv("C08_SKIP"), ",") {
		skip[k] = true
	}
	for i := from; i < len(jobs); i++ {
		j := jobs[i]
		if skip[j.kind] || lost[j.kind] >= 3 {
			// two cases of this kind already ended the process or hung: the rest is not run
			continue
		}
		emitCur(i, j)
		runJob(i, j)
	}
	var ts []string
	for k, d := range kindTime {
		if d > time.Second {
			ts = append(ts, fmt.Sprintf("%s=%.0fs", k, d.Seconds()))
		}
	}
	sort.Strings(ts)
	note("time per kind: " + strings.Join(ts, " "))
	covHook()
	fmt.Fprintf(out, "DONE\n")
	out.Flush()
}

func main() {
	a := lib.ParseArgs()
	if os.Getenv(childEnv) == "" {
		parent(a)
		return
	}
	if os.Getenv(childEnv) == listenerMode {
		listenerMain()
		return
	}
	if os.Getenv(childEnv) == kefdClientMode {
		kefdClientMain()
		return
	}
	if os.Getenv(childEnv) == kefdMode {
		kefdMain()
		return
	}
	if os.Getenv(childEnv) == dispatcherMode {
		dispatcherMain()
		return
	}
	out = bufio.NewWriterSize(os.Stdout, 1<<20)
	defer out.Flush()
	child(a)
}
