package main

// Second round: paths that the first set of kinds did not reach (found by a coverage audit):
// SPAO-authenticated SCION requests with a valid MAC and the authenticated reply, NTS sentinels
// over SCION, the SCION client with NTS, the IP client with interleaved mode / filters /
// histogram, NTS-KE record streams and stalled connections over QUIC.

import (
	"context"
	"crypto/tls"
	"encoding/binary"
	"fmt"
	"net"
	"sync"
	"time"

	"github.com/HdrHistogram/hdrhistogram-go"
	"github.com/google/gopacket"
	"github.com/scionproto/scion/pkg/addr"
	"github.com/scionproto/scion/pkg/drkey"
	"github.com/scionproto/scion/pkg/slayers"
	"github.com/scionproto/scion/pkg/slayers/path"
	"github.com/scionproto/scion/pkg/snet"
	spath "github.com/scionproto/scion/pkg/snet/path"
	"github.com/scionproto/scion/pkg/spao"

	"example.com/scion-time/core/client"
	"example.com/scion-time/core/measurements"
	"example.com/scion-time/net/ntp"
	"example.com/scion-time/net/nts"
	"example.com/scion-time/net/ntske"
	"example.com/scion-time/net/scion"
	"example.com/scion-time/net/udp"

	"verifharness/lib"
)

// ---- SCION packets with a packet authenticator option (SPAO) ----

// buildSCIONAuth serialises payload / UDP / end-to-end extension with an authenticator option /
// SCION the way the project's client does, the MAC computed with key (under USE_MOCK_KEYS both
// sides use the all-zero key).  damage: 0 none, 1 MAC bit flipped, 2 MAC computed before the
// payload's last byte is changed.
func buildSCIONAuth(h *scionSpec, payload []byte, spi uint32, key []byte, damage int) (b []byte, err error) {
	defer func() {
		if r := recover(); r != nil {
			b, err = nil, fmt.Errorf("serialize: %v", r)
		}
	}()
	p, err := buildPath(h.pathType, h.pathRaw)
	if err != nil {
		return nil, err
	}
	var scn slayers.SCION
	scn.FlowID = 1
	scn.PathType = path.Type(h.pathType)
	scn.Path = p
	scn.DstIA, scn.SrcIA = addr.IA(h.dstIA), addr.IA(h.srcIA)
	scn.DstAddrType, scn.SrcAddrType = slayers.AddrType(h.dstType), slayers.AddrType(h.srcType)
	scn.RawDstAddr, scn.RawSrcAddr = h.dstRaw, h.srcRaw
	scn.NextHdr = slayers.L4UDP
	var u slayers.UDP
	u.SrcPort, u.DstPort = h.udpSrc, h.udpDst
	u.SetNetworkLayerForChecksum(&scn)
	opts := gopacket.SerializeOptions{ComputeChecksums: true, FixLengths: true}
	buf := gopacket.NewSerializeBuffer()
	if err = gopacket.Payload(payload).SerializeTo(buf, opts); err != nil {
		return nil, err
	}
	if err = u.SerializeTo(buf, opts); err != nil {
		return nil, err
	}
	opt := &slayers.EndToEndOption{OptData: make([]byte, scion.PacketAuthOptDataLen)}
	scion.PreparePacketAuthOpt(opt, spi, scion.PacketAuthAlgorithm)
	_, err = spao.ComputeAuthCMAC(spao.MACInput{
		Key: key, Header: slayers.PacketAuthOption{EndToEndOption: opt}, ScionLayer: &scn,
		PldType: slayers.L4UDP, Pld: buf.Bytes(),
	}, make([]byte, spao.MACBufferSize), scion.PacketAuthOptMAC(opt))
	if err != nil {
		return nil, err
	}
	if damage == 1 {
		opt.OptData[20] ^= 1
	}
	ee := slayers.EndToEndExtn{}
	ee.NextHdr = slayers.L4UDP
	ee.Options = append(append([]*slayers.EndToEndOption{}, h.e2e...), opt)
	if err = ee.SerializeTo(buf, opts); err != nil {
		return nil, err
	}
	scn.NextHdr = slayers.End2EndClass
	if err = scn.SerializeTo(buf, opts); err != nil {
		return nil, err
	}
	out := clone(buf.Bytes())
	if damage == 2 && len(out) > 0 {
		out[len(out)-1] ^= 1
	}
	return out, nil
}

var mockKey = new(drkey.Key)[:]

// replyAuthOK says whether a datagram from the listener carries an authenticator option with
// the server SPI (the listener authenticates its replies to authenticated requests).
func replyHasAuth(b []byte) (ok bool) {
	defer func() {
		if recover() != nil {
			ok = false
		}
	}()
	var (
		scn slayers.SCION
		hbh slayers.HopByHopExtnSkipper
		e2e slayers.EndToEndExtn
		u   slayers.UDP
	)
	parser := gopacket.NewDecodingLayerParser(slayers.LayerTypeSCION, &scn, &hbh, &e2e, &u)
	parser.IgnoreUnsupported = true
	decoded := make([]gopacket.LayerType, 0, 4)
	if err := parser.DecodeLayers(b, &decoded); err != nil {
		return false
	}
	opt, err := e2e.FindOption(slayers.OptTypeAuthenticator)
	if err != nil || len(opt.OptData) != scion.PacketAuthOptDataLen {
		return false
	}
	spi, _ := scion.PacketAuthOptMetadata(opt)
	return spi == scion.PacketAuthSPIServer
}

// scionFinalSentinels are sent after a history to the SCION listener: a well-formed NTS request of
// a fresh association (the reply must verify), and the same under a valid packet authenticator
// (the reply must verify and carry the listener's authenticator).
func (e *netEnv) scionFinalSentinels() []string {
	dst := &net.UDPAddr{IP: e.srvIP, Port: scionPort}
	var res []string
	for _, withAuth := range []bool{false, true} {
		req, check := e.ntsSentinel()
		sh := e.baseSpec(scionPort)
		sh.udpSrc = uint16(e.sock.LocalAddr().(*net.UDPAddr).Port)
		var pkt []byte
		var err error
		if withAuth {
			pkt, err = buildSCIONAuth(sh, req, scion.PacketAuthSPIClient, mockKey, 0)
		} else {
			pkt, err = buildSCION(sh, req)
		}
		if err != nil {
			panic(err)
		}
		_, ok := e.exchange(dst, nil, pkt, func(b []byte) bool {
			pl, _, ok := scionPayload(b)
			return ok && check(pl) && (!withAuth || replyHasAuth(b))
		})
		res = append(res, lib.Bool(ok))
		if !ok {
			break
		}
	}
	return res
}

// ---- cli.scionnts: the SCION client with NTS (and optionally SPAO) against scripted peers ----

// args: list of calls [ke cookie lengths, reply mode, reply cookie lengths, spao mode, Server record],
// flag: packet authentication enabled.
// spao mode of the reply: 0 none, 1 valid MAC, 2 damaged MAC, 3 MAC over other payload.
func runClientSCIONNTS(e *netEnv, a []val, grace bool) string {
	p := newNTSPeer(e)
	defer p.ln.Close()
	defer p.ntp.conn.Close()
	conn, err := net.ListenUDP("udp4", &net.UDPAddr{IP: e.peerIP})
	if err != nil {
		panic(err)
	}
	defer conn.Close()
	port := conn.LocalAddr().(*net.UDPAddr).Port
	p.port = port
	c := &client.SCIONClient{Log: discardLog, InterleavedMode: a[2].z == 1}
	c.Auth.NTSEnabled = true
	c.Auth.NTSKEFetcher.Log = discardLog
	c.Auth.NTSKEFetcher.TLSConfig = tls.Config{InsecureSkipVerify: true, ServerName: e.peerIP.String(), MinVersion: tls.VersionTLS13}
	_, kePort, _ := net.SplitHostPort(p.ln.Addr().String())
	c.Auth.NTSKEFetcher.Port = kePort
	if a[1].z == 1 {
		c.Auth.Enabled = true
		c.Auth.DRKeyFetcher = scion.NewFetcher(scion.NewDaemonConnector(context.Background(), ""))
	}
	ia := addr.IA(localIA)
	local := udp.UDPAddr{IA: ia, Host: &net.UDPAddr{IP: e.peerIP}}
	limit := 700 * time.Millisecond
	if !grace {
		limit = 400 * time.Millisecond
	}
	do := func(keLens []int64, mode int64, replyLens []int64, spaoMode int64, server []byte) error {
		p.mu.Lock()
		p.keLens, p.server = keLens, server
		p.mu.Unlock()
		if grace {
			// requests of earlier calls that nobody answered are still queued on the peer's socket
			drain := make([]byte, 65536)
			for {
				conn.SetReadDeadline(time.Now().Add(time.Millisecond))
				if _, _, err := conn.ReadFromUDP(drain); err != nil {
					break
				}
			}
		}
		done := make(chan struct{})
		go func() {
			defer close(done)
			for k := 0; k < 3; k++ {
				buf := make([]byte, 65536)
				conn.SetReadDeadline(time.Now().Add(callLimit))
				n, src, err := conn.ReadFromUDP(buf)
				if err != nil {
					return
				}
				pl, srcPort, ok := scionPayload(buf[:n])
				if debugOn {
					note(fmt.Sprintf("scionnts peer %d: exchange %d from %v: %d bytes ok=%v", port, k, src, len(pl), ok))
				}
				if !ok || len(pl) < 48 {
					return
				}
				ans := p.ntsReply(pl, mode, replyLens)
				h := &scionSpec{dstIA: localIA, srcIA: localIA, dstRaw: []byte(e.peerIP.To4()), srcRaw: []byte(e.peerIP.To4()),
					udpSrc: uint16(port), udpDst: srcPort}
				var d []byte
				switch spaoMode {
				case 0:
					d, err = buildSCION(h, ans)
				case 1:
					d, err = buildSCIONAuth(h, ans, scion.PacketAuthSPIServer, mockKey, 0)
				case 2:
					d, err = buildSCIONAuth(h, ans, scion.PacketAuthSPIServer, mockKey, 1)
				default:
					d, err = buildSCIONAuth(h, ans, scion.PacketAuthSPIServer, mockKey, 2)
				}
				if err == nil {
					conn.WriteToUDP(d, src)
				}
				if !grace && k == 0 {
					return // cli.overlap: only the first exchange of a call is answered
				}
			}
		}()
		err, _ := callWithin(limit, func(ctx context.Context) error {
			remote := udp.UDPAddr{IA: ia, Host: &net.UDPAddr{IP: e.peerIP, Port: port}}
			ps := []snet.Path{spath.Path{Src: ia, Dst: ia, DataplanePath: spath.Empty{}, NextHop: &net.UDPAddr{IP: e.peerIP, Port: port}}}
			_, _, err := client.MeasureClockOffsetSCION(ctx, discardLog, []*client.SCIONClient{c}, local, remote, ps)
			return err
		})
		waitDone(done, conn)
		if grace && err != nil {
			// MeasureClockOffsetSCION returns when its context ends and leaves its goroutine to finish
			// the remaining exchanges; the next call on the same client waits until that is over (the
			// overlap of two calls on one client is the separate kind cli.overlap)
			time.Sleep(200 * time.Millisecond)
		}
		if debugOn {
			note(fmt.Sprintf("cli.scionnts ke=%v mode=%d reply=%v spao=%d -> %v", keLens, mode, replyLens, spaoMode, err))
		}
		return err
	}
	zs := func(v val) []int64 {
		var r []int64
		for _, x := range v.l {
			r = append(r, x.z)
		}
		return r
	}
	for _, st := range a[0].l {
		var server []byte
		if len(st.l) > 4 && len(st.l[4].b) > 0 {
			server = st.l[4].b
		}
		do(zs(st.l[0]), st.l[1].z, zs(st.l[2]), st.l[3].z, server)
	}
	honest := []int64{124, 124, 124, 124, 124, 124, 124, 124}
	limit = 5 * time.Second
	if !grace {
		time.Sleep(400 * time.Millisecond) // let the goroutines of the overlapping calls finish
		grace = true
	}
	sp := int64(0)
	if a[1].z == 1 {
		sp = 1
	}
	for i := 0; i < 12; i++ {
		err = do(honest, 0, []int64{124}, sp, nil)
		if err == nil {
			break
		}
	}
	if err != nil {
		note("cli.scionnts sentinel: " + err.Error())
	}
	return lib.V("1", lib.L(lib.Bool(err == nil)))
}

// cli.overlap: args = number of client/peer pairs run side by side, number of back-to-back calls
// each makes.  Every call's context ends while the client's goroutine still has exchanges to do
// (interleaved mode, only the first exchange of a call is answered, two cookies per key
// exchange), so consecutive calls on one client overlap, as rounds of the service do when a
// server stops answering.
func runOverlap(e *netEnv, a []val) string {
	pairs, ncalls := int(a[0].z), int(a[1].z)
	var calls []val
	for k := 0; k < ncalls; k++ {
		calls = append(calls, val{isList: true, l: []val{
			{isList: true, l: []val{{z: 124}, {z: 124}}}, {z: 0}, {isList: true}, {z: 0}, {isB: true}}})
	}
	args := []val{{isList: true, l: calls}, {z: 0}, {z: 1}}
	res := make([]string, pairs)
	var wg sync.WaitGroup
	for i := 0; i < pairs; i++ {
		wg.Add(1)
		go func() {
			defer wg.Done()
			res[i] = runClientSCIONNTS(e, args, false)
		}()
	}
	wg.Wait()
	var ss []string
	for _, r := range res {
		ss = append(ss, lib.Bool(r == "1 [1]"))
	}
	return lib.V("1", lib.L(ss...))
}

// ---- cli.ipopt: the IP client with the options that change what it does with a reply ----

// args: options (1 interleaved mode, 2 Ntimed filter, 4 lucky-packet filter, 8 histogram),
// list of calls [responses, honest]; response modes: 0 raw, 1 origin := request's transmit time,
// 2 origin := request's receive time (what an interleaved reply carries).
func runClientIPOpt(e *netEnv, a []val) string {
	p := newIPPeer(e.peerIP)
	defer p.conn.Close()
	opts := a[0].z
	c := &client.IPClient{Log: discardLog, InterleavedMode: opts&1 != 0}
	if opts&2 != 0 {
		c.Filter = client.NewNtimedFilter(discardLog)
	} else if opts&4 != 0 {
		c.Filter = client.NewLuckyPacketFilter(4, 2)
	}
	if opts&8 != 0 {
		c.Histogram = hdrhistogram.New(1, 50000, 5)
	}
	var _ measurements.Filter = c.Filter
	local := &net.UDPAddr{IP: e.peerIP}
	limit := craftedLimit
	do := func(resps []val, honest bool) error {
		done := make(chan struct{})
		go func() {
			defer close(done)
			// with interleaved mode a call makes up to three exchanges: answer each of them
			for k := 0; k < 3; k++ {
				buf := make([]byte, 65536)
				p.conn.SetReadDeadline(time.Now().Add(callLimit))
				n, src, err := p.conn.ReadFromUDP(buf)
				if err != nil {
					return
				}
				req := clone(buf[:n])
				for _, r := range resps {
					d := clone(r.l[1].b)
					if len(d) >= 32 && len(req) >= 48 {
						switch r.l[0].z {
						case 1:
							copy(d[24:32], req[40:48])
						case 2:
							copy(d[24:32], req[32:40])
						}
					}
					p.conn.WriteToUDP(d, src)
				}
				if honest {
					p.conn.WriteToUDP(honestNTP(req), src)
				}
			}
		}()
		err, _ := callWithin(limit, func(ctx context.Context) error {
			_, _, err := client.MeasureClockOffsetIP(ctx, discardLog, c, local, &net.UDPAddr{IP: e.peerIP, Port: p.port()})
			return err
		})
		waitDone(done, p.conn)
		return err
	}
	for _, st := range a[1].l {
		do(st.l[0].l, st.l[1].z == 1)
	}
	limit = callLimit
	err := do(nil, true)
	if err != nil {
		note("cli.ipopt sentinel: " + err.Error())
	}
	return lib.V("1", lib.L(lib.Bool(err == nil)))
}

// ---- srv.quicke: NTS-KE over QUIC: hostile record streams, stalled connections and streams ----

// relay forwards the first fwd datagrams of a client to the listener and nothing back: the
// listener is left with a connection whose handshake never completes.
type relay struct {
	c    *net.UDPConn
	stop chan struct{}
}

func newRelay(e *netEnv, fwd int) *relay {
	c, err := net.ListenUDP("udp4", &net.UDPAddr{IP: e.peerIP})
	if err != nil {
		panic(err)
	}
	r := &relay{c: c, stop: make(chan struct{})}
	go func() {
		buf := make([]byte, 65536)
		dst := &net.UDPAddr{IP: e.srvIP, Port: kePortSCION}
		n := 0
		for {
			m, from, err := c.ReadFromUDP(buf)
			if err != nil {
				return
			}
			if from.IP.Equal(e.srvIP) {
				continue // the listener's answers are dropped
			}
			if n < fwd {
				c.WriteToUDP(buf[:m], dst)
				n++
			}
		}
	}()
	return r
}

func (e *netEnv) dialKEQUIC(nextHop *net.UDPAddr, limit time.Duration) (*scion.QUICConnection, error) {
	ia := addr.IA(localIA)
	local := udp.UDPAddr{IA: ia, Host: &net.UDPAddr{IP: e.peerIP}}
	remote := udp.UDPAddr{IA: ia, Host: &net.UDPAddr{IP: e.srvIP, Port: kePortSCION}}
	ctx, cancel := context.WithTimeout(context.Background(), limit)
	defer cancel()
	p := spath.Path{Src: ia, Dst: ia, DataplanePath: spath.Empty{}, NextHop: nextHop}
	cfg := &tls.Config{InsecureSkipVerify: true, NextProtos: []string{"ntske/1"}, MinVersion: tls.VersionTLS13, ServerName: "c08"}
	return scion.DialQUIC(ctx, local, remote, p, "", cfg, nil)
}

// args: mode, count, stream.
//
//	0: count connections, each opens a stream, writes the bytes, closes the stream
//	1: count connections, each opens a stream, writes the bytes and leaves stream and connection open
//	2: count connections without any stream, left open
//	3: count half-open handshakes: only the first datagram(s) of the client reach the listener
//	4: a stream that is reset after the bytes were written
func (e *netEnv) runQUICKE(a []val) string {
	mode, count, stream := a[0].z, int(a[1].z), a[2].b
	var open []*scion.QUICConnection
	var relays []*relay
	var wg sync.WaitGroup
	var mu sync.Mutex
	direct := &net.UDPAddr{IP: e.srvIP, Port: kePortSCION}
	for i := 0; i < count; i++ {
		if mode == 3 {
			r := newRelay(e, 1+i%2)
			relays = append(relays, r)
			wg.Add(1)
			go func() {
				defer wg.Done()
				if c, err := e.dialKEQUIC(r.c.LocalAddr().(*net.UDPAddr), 400*time.Millisecond); err == nil {
					mu.Lock()
					open = append(open, c)
					mu.Unlock()
				}
			}()
			continue
		}
		c, err := e.dialKEQUIC(direct, 10*time.Second)
		if err != nil {
			note("quicke dial: " + err.Error())
			break
		}
		open = append(open, c)
		if mode == 2 {
			continue
		}
		s, err := c.OpenStream()
		if err != nil {
			continue
		}
		s.SetDeadline(time.Now().Add(5 * time.Second))
		for rest := stream; len(rest) > 0; {
			n := min(len(rest), 11)
			if _, err := s.Write(rest[:n]); err != nil {
				break
			}
			rest = rest[n:]
		}
		switch mode {
		case 0:
			s.Close()
			buf := make([]byte, 4096)
			s.SetReadDeadline(time.Now().Add(300 * time.Millisecond))
			s.Read(buf)
		case 4:
			s.CancelWrite(7)
			s.CancelRead(7)
		}
	}
	wg.Wait()
	time.Sleep(20 * time.Millisecond)
	ok := e.quicSentinel() // while everything above is still open
	for _, c := range open {
		c.CloseWithError(0, "")
	}
	for _, r := range relays {
		r.c.Close()
	}
	return lib.V("1", lib.L(lib.Bool(ok)))
}

// ---- generators ----

func (g *gen) genMore() {
	e := setupNet()
	r := g.r
	il := func(xs ...int) string {
		s := make([]string, len(xs))
		for i, x := range xs {
			s[i] = lib.I(int64(x))
		}
		return lib.L(s...)
	}
	sockPort := uint16(e.sock.LocalAddr().(*net.UDPAddr).Port)
	base := func() *scionSpec {
		h := e.baseSpec(scionPort)
		h.udpSrc = sockPort
		return h
	}
	item := func(b []byte) string { return lib.L(lib.I(scionPort), lib.B(b)) }
	// ---- hostile and valid NTS inside well-formed SCION/UDP ----
	vars := e.ntsVariants(r)
	var frames []string
	for i := 0; i < g.n(12, 120); i++ {
		v, _ := e.validNTS(r, 1+r.Intn(3))
		if b, err := buildSCION(base(), v); err == nil {
			frames = append(frames, item(b))
		}
	}
	for _, v := range vars {
		if len(v) > 1200 {
			continue
		}
		if b, err := buildSCION(base(), v); err == nil {
			frames = append(frames, item(b))
		}
		m := g.mutate(v)
		if b, err := buildSCION(base(), m); err == nil && len(m) < 1200 {
			frames = append(frames, item(b))
		}
	}
	// duplicated fields, every field once more at the end, overlong fields
	for i := 0; i < g.n(10, 100); i++ {
		v, _ := e.validNTS(r, 1)
		offs := extFields(v)
		if len(offs) < 2 {
			continue
		}
		k := offs[r.Intn(len(offs)-1)]
		next := offs[len(offs)-1]
		for _, o := range offs {
			if o > k {
				next = o
				break
			}
		}
		dup := append(clone(v[:next]), v[k:]...) // field k twice
		if b, err := buildSCION(base(), dup); err == nil && len(dup) < 1200 {
			frames = append(frames, item(b))
		}
		long := clone(v)
		binary.BigEndian.PutUint16(long[k+2:], lib.Pick(r, uint16(0xffff), 0xfffc, uint16(len(v)), uint16(len(v)-k+4)))
		if b, err := buildSCION(base(), long); err == nil {
			frames = append(frames, item(b))
		}
	}
	for i := 0; i < len(frames); i += 3 {
		g.add("srv.scionnts", "nt", lib.L(frames[i:min(i+3, len(frames))]...))
	}
	// ---- requests under a valid (or nearly valid) packet authenticator ----
	var af []string
	addA := func(h *scionSpec, pl []byte, spi uint32, dmg int) {
		if b, err := buildSCIONAuth(h, pl, spi, mockKey, dmg); err == nil {
			af = append(af, item(b))
		}
	}
	ntpReq := ntpHeader(r)
	for i := 0; i < g.n(6, 60); i++ {
		v, _ := e.validNTS(r, 1+r.Intn(2))
		addA(base(), v, scion.PacketAuthSPIClient, 0)
		addA(base(), ntpReq, scion.PacketAuthSPIClient, r.Intn(3))
	}
	for _, v := range vars {
		if len(v) < 1100 {
			addA(base(), v, scion.PacketAuthSPIClient, 0)
		}
	}
	for _, spi := range []uint32{scion.PacketAuthSPIServer, 0, 0xffffffff, scion.PacketAuthSPIClient ^ 1} {
		addA(base(), ntpReq, spi, 0)
	}
	for _, pt := range []struct {
		t   uint8
		raw []byte
	}{{2, oneHopComplete}, {2, oneHopIncomplete}, {1, scionZeroSeg}} {
		h := base()
		h.pathType, h.pathRaw = pt.t, pt.raw
		addA(h, ntpReq, scion.PacketAuthSPIClient, 0)
	}
	for _, st := range []uint8{1, 2, 3, 4} {
		h := base()
		h.srcType, h.srcRaw = st, r.Bytes(4*(int(st&3)+1))
		addA(h, ntpReq, scion.PacketAuthSPIClient, 0)
	}
	// a second option in front of the authenticator
	h2 := base()
	h2.e2e = []*slayers.EndToEndOption{{OptType: 253, OptData: r.Bytes(16)}}
	addA(h2, ntpReq, scion.PacketAuthSPIClient, 0)
	for i := 0; i < len(af); i += 3 {
		g.add("srv.scionauth", "nt", lib.L(af[i:min(i+3, len(af))]...))
	}
	// the same datagrams for a listener process in the production default: no SCION daemon, real keys
	for i := 0; i < len(af); i += 4 {
		g.add("srv.scionnodaemon", "nt", lib.L(af[i:min(i+4, len(af))]...))
	}
	for i := 0; i+4 <= len(frames) && i < 40; i += 4 {
		g.add("srv.scionnodaemon", "nt,plain", lib.L(frames[i:i+4]...))
	}
	// NTS-KE servers that stall after the handshake
	for _, cl := range []int{0, 1} {
		for _, mode := range []int{1, 2, 3} {
			g.add("cli.kestall", "nt", lib.V(lib.I(int64(mode)), lib.I(int64(cl))))
		}
	}
	// the same over QUIC (mode 4: a QUIC handshake that never completes)
	for _, mode := range []int{1, 2, 3, 4} {
		g.add("cli.kestallquic", "nt", lib.I(int64(mode)))
	}
	// calls whose context has no deadline: the exchange timeout of the key exchange must end them
	g.add("cli.kestall", "nt,nodeadline", lib.V("3", "0", "1"))
	g.add("cli.kestall", "nt,nodeadline", lib.V("1", "1", "1"))
	g.add("cli.kestallquic", "nt,nodeadline", lib.V("3", "1"))
	g.add("cli.kestallquic", "nt,nodeadline", lib.V("1", "1"))
	// ---- SCION client with NTS ----
	good8 := il(124, 124, 124, 124, 124, 124, 124, 124)
	call := func(ke string, mode int, rl string, sp int, server []byte) string {
		return lib.L(ke, lib.I(int64(mode)), rl, lib.I(int64(sp)), lib.B(server))
	}
	addSN := func(tag string, auth int, calls ...string) {
		g.add("cli.scionnts", "nt,"+tag, lib.V(lib.L(calls...), lib.I(int64(auth)), lib.Bool(r.Intn(3) == 0)))
	}
	for _, auth := range []int{0, 1} {
		for mode := 0; mode <= 4; mode++ {
			for _, rl := range []string{il(124), il(929), il(896, 897), il(65531), il()} {
				if mode > 0 && r.Intn(2) == 0 {
					continue
				}
				addSN("reply", auth, call(good8, mode, rl, r.Intn(4)*auth, nil), call(good8, 0, rl, auth, nil))
			}
		}
		for _, sp := range []int{0, 1, 2, 3} {
			addSN("spao", auth, call(good8, 0, il(124), sp, nil))
		}
		for _, ke := range []string{il(929), il(896), il(0), il(), il(124, 2000)} {
			addSN("ke", auth, call(ke, 0, il(124), auth, nil))
		}
		for _, sv := range [][]byte{[]byte("not-an-address"), []byte("::ffff:1.2.3.4"), []byte("[::1]"), []byte("256.1.1.1"), {0}, []byte("fe80::1%lo"), r.Bytes(300)} {
			addSN("server", auth, call(good8, 0, il(124), auth, sv))
		}
	}
	// measurements on one client that overlap in time (found to race on the NTS-KE fetcher: fix 1f1f6e3)
	g.add("cli.overlap", "nt", lib.V(lib.I(int64(g.n(10, 16))), lib.I(int64(g.n(24, 60)))))
	g.add("cli.overlap", "nt", lib.V(lib.I(int64(g.n(10, 16))), lib.I(int64(g.n(24, 60)))))
	// the same Server records for the IP client
	for _, sv := range [][]byte{[]byte("not-an-address"), []byte("[::1]"), []byte("256.1.1.1"), {0}, r.Bytes(300)} {
		g.add("cli.nts", "nt,server", lib.L(lib.L(good8, "0", il(124), lib.B(sv))))
	}
	// ---- IP client with interleaved mode, filters, histogram ----
	resp := func(mode int, b []byte) string { return lib.L(lib.I(int64(mode)), lib.B(b)) }
	hon := make([]byte, 48)
	hon[0], hon[1] = 0x24, 1
	stamp := func(rx, tx []byte) []byte {
		m := clone(hon)
		copy(m[32:40], rx)
		copy(m[40:48], tx)
		return m
	}
	ext := [][]byte{
		make([]byte, 8), {0xff, 0xff, 0xff, 0xff, 0xff, 0xff, 0xff, 0xff}, {0x80, 0, 0, 0, 0, 0, 0, 0}, {0x7f, 0xff, 0xff, 0xff, 0xff, 0xff, 0xff, 0xff},
		{0, 0, 0, 1, 0, 0, 0, 0},
	}
	for _, o := range []int{1, 2, 3, 4, 5, 8, 9, 11, 13, 15} {
		for i := 0; i < g.n(4, 40); i++ {
			var calls []string
			for k := 0; k < 1+r.Intn(4); k++ {
				var rs []string
				for q := 0; q < r.Intn(3); q++ {
					switch r.Intn(4) {
					case 0:
						rs = append(rs, resp(lib.Pick(r, 1, 2), stamp(lib.Pick(r, ext...), lib.Pick(r, ext...))))
					case 1:
						rs = append(rs, resp(lib.Pick(r, 1, 2), stamp(r.Bytes(8), r.Bytes(8))))
					case 2:
						rs = append(rs, resp(r.Intn(3), g.mutate(hon)))
					default:
						rs = append(rs, resp(0, r.Bytes(lib.Pick(r, 0, 47, 48, 49, 100))))
					}
				}
				calls = append(calls, lib.L(lib.L(rs...), lib.Bool(r.Intn(4) != 0)))
			}
			g.add("cli.ipopt", fmt.Sprintf("nt,opt%d", o), lib.V(lib.I(int64(o)), lib.L(calls...)))
		}
	}
	// ---- NTS-KE over QUIC ----
	req := ntskeRequest()
	q := func(tag string, mode, count int, b []byte) {
		g.add("srv.quicke", "nt,"+tag, lib.V(lib.I(int64(mode)), lib.I(int64(count)), lib.B(b)))
	}
	for l := 0; l <= len(req); l += 3 {
		q("trunc", 0, 1, req[:l])
	}
	for _, s := range [][]byte{{0x80, 4, 0, 0}, {0x80, 4, 0, 1, 0}, {0, 5, 0xff, 0xff}, {0x80, 2, 0, 2, 0, 1}, {0x80, 1, 0, 0}, {0x80, 9, 0, 0}} {
		q("shape", 0, 1, s)
		q("shape", 0, 1, append(clone(req[:6]), s...))
	}
	for i := 0; i < g.n(8, 100); i++ {
		var s []byte
		for k := 0; k < 1+r.Intn(5); k++ {
			rec := record(lib.Pick(r, uint16(1), 2, 3, 4, 5, 6, 7, 8)|lib.Pick(r, uint16(0), 0x8000), r.Bytes(lib.Pick(r, 0, 1, 2, 3, 16, 124)))
			if r.Intn(6) == 0 {
				binary.BigEndian.PutUint16(rec[2:], lib.Pick(r, uint16(0), 1, 0xffff))
			}
			s = append(s, rec...)
		}
		q("stream", lib.Pick(r, 0, 0, 4), 1, s)
	}
	for _, n := range []int{1, 4} {
		q("stallstream", 1, n, nil)
		q("stallstream", 1, n, req[:5])
		q("stallstream", 1, n, req[:len(req)-4])
		q("stallconn", 2, n, nil)
		q("halfopen", 3, n, nil)
	}
	q("halfopen", 3, 12, nil)
	_ = ntp.PacketLen
	_ = nts.MaxPacketLen
	_ = ntske.MaxCookieLen
}

// what the harness does not reach (printed into the evidence notes on every run)
const notCovered = "not covered by the C08 harness: hardware timestamping (udp.EnableTimestamping with an interface name, initNetworkInterface ioctl), " +
	"error branches of udp.ReadTXTimestamp / timestampFromOOBData that need the kernel to misbehave, paths through a SCION daemon (inter-AS paths, net/scion/pather.go, " +
	"real DRKey fetches: USE_MOCK_KEYS is on), StartSCIONDispatcher, the panic(err) sites after SerializeTo/Clear/DeriveHostHostKey (no input producing them is known), " +
	"IPv6 underlay and hosts, quic-go/crypto/tls internals, net/udp/udp_darwin.go, the Ntimed/lucky-packet filter arithmetic beyond being called on hostile timestamps (C02/C03), " +
	"unbounded memory of ntske.ReadData on an endless record stream of a peer that never stops sending (no deadline on the connection)"
