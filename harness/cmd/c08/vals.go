package main

import (
	"encoding/hex"
	"strconv"
	"strings"
)

// val is a parsed case-file value: integer, byte string or list.
type val struct {
	isList bool
	isB    bool
	z      int64
	b      []byte
	l      []val
}

func parseVals(s string) []val {
	pos := 0
	var list func(closing bool) []val
	list = func(closing bool) []val {
		var out []val
		for {
			for pos < len(s) && s[pos] == ' ' {
				pos++
			}
			if pos >= len(s) {
				return out
			}
			if s[pos] == ']' {
				if closing {
					pos++
				}
				return out
			}
			if s[pos] == '[' {
				pos++
				out = append(out, val{isList: true, l: list(true)})
				continue
			}
			st := pos
			for pos < len(s) && s[pos] != ' ' && s[pos] != ']' && s[pos] != '[' {
				pos++
			}
			tok := s[st:pos]
			if strings.HasPrefix(tok, "x") {
				b, err := hex.DecodeString(tok[1:])
				if err != nil {
					panic(err)
				}
				out = append(out, val{isB: true, b: b})
			} else {
				z, err := strconv.ParseInt(tok, 10, 64)
				if err != nil {
					panic(err)
				}
				out = append(out, val{z: z})
			}
		}
	}
	return list(false)
}
