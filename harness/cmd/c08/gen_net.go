package main

import (
	"net"
	"encoding/binary"
	"encoding/hex"
	"fmt"

	"github.com/scionproto/scion/pkg/slayers"

	"example.com/scion-time/net/ntp"
	"example.com/scion-time/net/nts"
	"example.com/scion-time/net/ntske"

	"verifharness/lib"
)

func unhex(s string) []byte {
	b, err := hex.DecodeString(s)
	if err != nil {
		panic(err)
	}
	return b
}

var (
	oneHopComplete   = unhex("01007768ee2dfbd5003f0000002b4214623cc96d003f001200006456359a0aaa")
	oneHopIncomplete = unhex("01007768ee2dfbd5003f0000002b4214623cc96d000000000000000000000000")
	scionZeroSeg     = unhex("00000000")
)

func bl(bs ...[]byte) string {
	items := make([]string, len(bs))
	for i, b := range bs {
		items[i] = lib.B(b)
	}
	return lib.L(items...)
}

// validNTS is a request the listeners answer: real cookie of the provider, real encoder.
func (e *netEnv) validNTS(r *lib.Rng, ncookies int) ([]byte, ntsSession) {
	s := e.newSession()
	data := ntske.Data{C2sKey: s.c2s, S2cKey: s.s2c, Algo: ntske.AES_SIV_CMAC_256}
	for i := 0; i < ncookies; i++ {
		data.Cookie = append(data.Cookie, s.cookie)
	}
	pkt, _ := nts.NewRequestPacket(data)
	buf := ntpHeader(r)
	nts.EncodePacket(&buf, &pkt)
	return buf, s
}

// ntsVariants are NTS requests that are wrong in one respect each.
func (e *netEnv) ntsVariants(r *lib.Rng) [][]byte {
	s := e.newSession()
	uid := r.Bytes(32)
	ck := extField(0x204, s.cookie)
	var out [][]byte
	add := func(b []byte) { out = append(out, b) }
	h := ntpHeader(r)
	// the cookie: garbage, the three bytes of D-C08b, truncated TLVs, unknown key id, damaged ciphertext
	add(craftNTS(h, [][]byte{extField(0x104, uid), extField(0x204, r.Bytes(124))}, s.c2s, nil, 16, false))
	add(craftNTS(h, [][]byte{extField(0x104, uid), extField(0x204, []byte{4, 1, 0})}, s.c2s, nil, 16, false))
	add(craftNTS(h, [][]byte{extField(0x104, uid), extField(0x204, s.cookie[:r.Intn(len(s.cookie))])}, s.c2s, nil, 16, false))
	c2 := clone(s.cookie)
	c2[4] ^= 0x40
	add(craftNTS(h, [][]byte{extField(0x104, uid), extField(0x204, c2)}, s.c2s, nil, 16, false))
	c3 := clone(s.cookie)
	c3[len(c3)-1] ^= 1
	add(craftNTS(h, [][]byte{extField(0x104, uid), extField(0x204, c3)}, s.c2s, nil, 16, false))
	// nonce of the cookie shortened: 04 01 00 02 id | 05 01 00 nn nonce | 06 01 len ct
	for _, nl := range []int{0, 15, 17} {
		c4 := append(clone(s.cookie[:6]), 5, 1, 0, byte(nl))
		c4 = append(c4, r.Bytes(nl)...)
		c4 = append(c4, s.cookie[10+16:]...)
		add(craftNTS(h, [][]byte{extField(0x104, uid), extField(0x204, c4)}, s.c2s, nil, 16, false))
	}
	// the authenticator: nonce lengths, damaged tag, wrong key
	for _, nl := range []int{0, 1, 8, 15, 17, 24, 32} {
		add(craftNTS(h, [][]byte{extField(0x104, uid), ck}, s.c2s, nil, nl, false))
	}
	add(craftNTS(h, [][]byte{extField(0x104, uid), ck}, s.c2s, nil, 16, true))
	add(craftNTS(h, [][]byte{extField(0x104, uid), ck}, s.s2c, nil, 16, false))
	// unique identifiers: short (authenticated), long, none
	for _, il := range []int{0, 4, 16, 28, 31, 33, 36, 400, 700, 760, 800} {
		add(craftNTS(h, [][]byte{extField(0x104, r.Bytes(il)), ck}, s.c2s, nil, 16, false))
	}
	add(craftNTS(h, [][]byte{ck}, s.c2s, nil, 16, false))
	// placeholders: many, so that the reply would not fit
	var fs [][]byte
	fs = append(fs, extField(0x104, uid), ck)
	for i := 0; i < 150; i++ {
		fs = append(fs, extField(0x304, nil))
	}
	add(craftNTS(h, fs, s.c2s, nil, 16, false))
	// encrypted fields: cookies, short lengths, long lengths
	for _, pl := range [][]byte{
		extField(0x204, r.Bytes(124)),
		append(extField(0x204, r.Bytes(124)), extField(0x204, r.Bytes(124))...),
		append([]byte{2, 4, 0, 0}, make([]byte, 40)...),
		append([]byte{2, 4, 0, 3}, make([]byte, 40)...),
		append([]byte{2, 4, 0xff, 0xff}, make([]byte, 40)...),
		make([]byte, 64),
	} {
		add(craftNTS(h, [][]byte{extField(0x104, uid), ck}, s.c2s, pl, 16, false))
	}
	// extension fields with lengths below the header size, in front of everything
	for _, t := range []uint16{0, 0x104, 0x204, 0x304, 0x404} {
		for _, l := range []uint16{0, 1, 2, 3} {
			b := clone(h)
			b = binary.BigEndian.AppendUint16(b, t)
			b = binary.BigEndian.AppendUint16(b, l)
			b = append(b, make([]byte, 24+r.Intn(60))...)
			add(b)
		}
	}
	add(append(clone(h), make([]byte, 28)...))
	// a well-formed request padded beyond the NTS limit
	v, _ := e.validNTS(r, 1)
	add(append(clone(v), make([]byte, 1025-len(v))...))
	add(append(clone(v), make([]byte, 2048-len(v))...))
	return out
}

func (g *gen) genListeners() {
	e := setupNet()
	r := g.r
	// most crafted client cases end with an honest answer, so that the call returns at once
	hf := func() string { return lib.Bool(r.Intn(8) != 0) }
	// ---- IP listener ----
	vars := e.ntsVariants(r)
	nhist := g.n(40, 400)
	for i := 0; i < nhist; i++ {
		var h [][]byte
		tag := "mixed"
		steps := 2 + r.Intn(5)
		for k := 0; k < steps; k++ {
			switch r.Intn(7) {
			case 0:
				h = append(h, r.Bytes(lib.Pick(r, 0, 1, 47, 48, 49, 76, 100, 1024, 2048, 2049, 3000, r.Intn(300))))
			case 1:
				v, _ := e.validNTS(r, 1+r.Intn(3))
				h = append(h, v)
			case 2:
				h = append(h, g.mutate(lib.Pick(r, vars...)))
			case 3:
				p := ntpHeader(r)
				p[0] = lib.Pick(r, byte(0x23), 0x1b, 0x24, 0xe3, 0x63, 0x0b, 0x08)
				h = append(h, p)
			default:
				h = append(h, lib.Pick(r, vars...))
			}
		}
		g.add("srv.ip", "nt,"+tag, bl(h...))
	}
	// every variant once on its own, followed by the sentinels
	for _, v := range vars {
		g.add("srv.ip", "nt,variant", bl(v))
	}
	// ---- SCION listener and end-host forwarder ----
	ntpReq := ntpHeader(r)
	ntsReq, _ := e.validNTS(r, 1)
	spi := []byte{0x00, 0x03, 0x00, 0x7b}
	authData := func(n int) []byte {
		d := make([]byte, n)
		copy(d, spi)
		return d
	}
	var specs []struct {
		under int
		b     []byte
		tag   string
	}
	addSpec := func(under int, tag string, h *scionSpec, payload []byte, patch func([]byte)) {
		b, err := buildSCION(h, payload)
		if err != nil {
			return
		}
		if patch != nil {
			patch(b)
		}
		specs = append(specs, struct {
			under int
			b     []byte
			tag   string
		}{under, b, tag})
	}
	sockPort := uint16(e.sock.LocalAddr().(*net.UDPAddr).Port)
	base := func() *scionSpec {
		h := e.baseSpec(scionPort)
		h.udpSrc = sockPort
		return h
	}
	for _, st := range []uint8{0, 1, 2, 3, 4, 5, 6, 7} {
		for _, dt := range []uint8{0, 1, 2, 3, 4} {
			h := base()
			h.srcType, h.srcRaw = st, r.Bytes(4*(int(st&3)+1))
			h.dstType, h.dstRaw = dt, r.Bytes(4*(int(dt&3)+1))
			addSpec(scionPort, "addr", h, ntpReq, nil)
			if st < 2 && dt < 2 {
				h2 := *h
				h2.scmp = int(slayers.SCMPTypeEchoRequest)
				addSpec(scionPort, "addr", &h2, []byte("ping"), nil)
				h3 := *h
				h3.udpDst = 40000
				addSpec(endhostPort, "addr", &h3, ntpReq, nil)
			}
		}
	}
	for _, pt := range []struct {
		t   uint8
		raw []byte
	}{{0, nil}, {2, oneHopComplete}, {2, oneHopIncomplete}, {1, scionZeroSeg}} {
		for _, pl := range [][]byte{ntpReq, ntsReq, r.Bytes(10)} {
			h := base()
			h.pathType, h.pathRaw = pt.t, pt.raw
			addSpec(scionPort, "path", h, pl, nil)
		}
		for _, sc := range []slayers.SCMPType{slayers.SCMPTypeEchoRequest, slayers.SCMPTypeTracerouteRequest, slayers.SCMPTypeEchoReply, slayers.SCMPTypeDestinationUnreachable} {
			h := base()
			h.pathType, h.pathRaw = pt.t, pt.raw
			h.scmp = int(sc)
			addSpec(scionPort, "scmp", h, []byte("ping-payload"), nil)
			addSpec(endhostPort, "scmp", h, []byte("ping-payload"), nil)
		}
		h := base()
		h.pathType, h.pathRaw = pt.t, pt.raw
		h.udpDst = 40000
		addSpec(endhostPort, "forward", h, ntpReq, nil)
	}
	for n := 0; n <= 64; n++ {
		h := base()
		h.e2e = []*slayers.EndToEndOption{{OptType: slayers.OptTypeAuthenticator, OptData: authData(n)}}
		addSpec(scionPort, "authopt", h, ntpReq, nil)
		if n%8 == 0 {
			h2 := base()
			h2.hbh = true
			h2.e2e = []*slayers.EndToEndOption{{OptType: 253, OptData: r.Bytes(n)}, {OptType: slayers.OptTypeAuthenticator, OptData: authData(n)}}
			addSpec(scionPort, "opts", h2, ntpReq, nil)
			addSpec(endhostPort, "opts", h2, ntpReq, nil)
		}
	}
	// a path type the decoder keeps as raw bytes together with a well-sized authenticator option
	for _, pt := range []byte{0x22, 4, 5, 0xff, 3} {
		h := base()
		h.e2e = []*slayers.EndToEndOption{{OptType: slayers.OptTypeAuthenticator, OptData: authData(28)}}
		pt := pt
		addSpec(scionPort, "rawpath", h, ntpReq, func(b []byte) { b[8] = pt })
	}
	// UDP length field and destination ports
	for _, ul := range []uint16{0, 7, 8, 55, 56, 57, 1000, 65535} {
		ul := ul
		addSpec(scionPort, "udplen", base(), ntpReq, func(b []byte) { binary.BigEndian.PutUint16(b[len(b)-48-4:], ul) })
	}
	// ... together with an authenticator option whose MAC is computed over buf[len(buf)-udpLength:]
	for _, ul := range []uint16{0, 8, 56, 57, 200, 1000, 65535} {
		ul := ul
		h := base()
		h.e2e = []*slayers.EndToEndOption{{OptType: slayers.OptTypeAuthenticator, OptData: authData(28)}}
		addSpec(scionPort, "udplenauth", h, ntpReq, func(b []byte) { binary.BigEndian.PutUint16(b[len(b)-48-4:], ul) })
	}
	for _, dp := range []uint16{0, 30041, 10124, 65535} {
		h := base()
		h.udpDst = dp
		addSpec(scionPort, "port", h, ntpReq, nil)
		addSpec(endhostPort, "port", h, ntpReq, nil)
	}
	// the NTS variants inside SCION
	for _, v := range vars {
		if len(v) < 1100 {
			addSpec(scionPort, "nts", base(), v, nil)
		}
	}
	nspec := len(specs)
	for i := 0; i < nspec; i += 4 {
		var items []string
		tag := specs[i].tag
		for k := i; k < min(i+4, nspec); k++ {
			items = append(items, lib.L(lib.I(int64(specs[k].under)), lib.B(specs[k].b)))
		}
		g.add("srv.scion", "nt,"+tag, lib.L(items...))
	}
	for i := 0; i < g.n(60, 800); i++ {
		var items []string
		for k := 0; k < 1+r.Intn(4); k++ {
			s := specs[r.Intn(nspec)]
			b := s.b
			switch r.Intn(4) {
			case 0:
				b = g.mutate(b)
			case 1:
				// header bytes: path type, address types and lengths, header length, next header
				b = clone(b)
				off := lib.Pick(r, 4, 5, 6, 7, 8, 9)
				b[off] = byte(r.U64())
			case 2:
				b = r.Bytes(r.Intn(200))
			}
			items = append(items, lib.L(lib.I(int64(s.under)), lib.B(b)))
		}
		g.add("srv.scion", "nt,mut", lib.L(items...))
	}
	// ---- CSPTP listener ----
	for _, port := range []int{319, 320} {
		valid := [][]byte{csptpSync(5), csptpFollowUp(5, 0x71, 0), csptpFollowUp(5, 0x71, 1), csptpFollowUp(5, 0x73, 1)}
		for _, v := range valid {
			g.add("srv.csptp", "nt,valid", lib.V(lib.I(int64(port)), lib.B(v)))
			for l := 0; l < len(v); l += lib.Pick(r, 1, 2, 3) {
				g.add("srv.csptp", "nt,trunc", lib.V(lib.I(int64(port)), lib.B(v[:l])))
				m := clone(v[:l])
				if l >= 4 {
					binary.BigEndian.PutUint16(m[2:], uint16(l))
					g.add("srv.csptp", "nt,trunclen", lib.V(lib.I(int64(port)), lib.B(m)))
				}
			}
			for i := 0; i < g.n(6, 80); i++ {
				g.add("srv.csptp", "nt,mut", lib.V(lib.I(int64(port)), lib.B(g.mutate(v))))
			}
		}
		for i := 0; i < g.n(10, 100); i++ {
			g.add("srv.csptp", "nt,rand", lib.V(lib.I(int64(port)), lib.B(r.Bytes(r.Intn(120)))))
		}
	}
	// ---- NTS-KE server over TLS ----
	req := ntskeRequest()
	for l := 0; l <= len(req); l++ {
		g.add("srv.ntske", "nt,trunc", lib.B(req[:l]))
	}
	for _, s := range [][]byte{
		{0x80, 4, 0, 0}, {0x80, 4, 0, 1, 0}, {0x80, 4, 0, 0, 0x80, 0, 0, 0}, {0x80, 4, 0, 1, 0xf, 0x80, 0, 0, 0},
		{0x80, 1, 0, 0}, {0x80, 1, 0, 1, 0}, {0, 5, 0xff, 0xff}, {0, 9, 0xff, 0xff, 1, 2, 3}, {0x80, 2, 0, 2, 0, 1},
	} {
		g.add("srv.ntske", "nt,shape", lib.B(s))
		g.add("srv.ntske", "nt,shape", lib.B(append(clone(req[:6]), s...)))
	}
	for i := 0; i < g.n(25, 300); i++ {
		var s []byte
		for k := 0; k < 1+r.Intn(5); k++ {
			t := lib.Pick(r, uint16(1), 2, 3, 4, 4, 5, 6, 7, 8, 0x4000) | lib.Pick(r, uint16(0), 0x8000)
			body := r.Bytes(lib.Pick(r, 0, 1, 2, 2, 3, 4, 16, 124))
			rec := record(t, body)
			if r.Intn(6) == 0 {
				binary.BigEndian.PutUint16(rec[2:], lib.Pick(r, uint16(0), 1, 0xffff, uint16(len(body)+1)))
			}
			s = append(s, rec...)
		}
		if r.Bool() {
			s = append(s, record(0x8000, nil)...)
		}
		g.add("srv.ntske", "nt,stream", lib.B(s))
	}
	// connections that stall before or inside the TLS handshake and stay open during the sentinel
	for _, n := range []int{1, 2, 16} {
		for _, hb := range []int{0, 1, 5, 6, 50, 100000} {
			g.add("srv.kestall", "nt,hello", lib.V(lib.I(int64(n)), lib.I(int64(hb)), lib.B(nil)))
		}
		g.add("srv.kestall", "nt,raw", lib.V(lib.I(int64(n)), "-1", lib.B(r.Bytes(1+r.Intn(40)))))
		g.add("srv.kestall", "nt,raw", lib.V(lib.I(int64(n)), "-1", lib.B([]byte{0x16, 0x03, 0x01, 0xff, 0xff})))
	}
	// ---- QUIC-over-SCION socket of the NTS-KE server ----
	qbase := func() *scionSpec {
		h := e.baseSpec(kePortSCION)
		h.udpSrc = 40999
		return h
	}
	var qd [][]byte
	addQ := func(h *scionSpec, pl []byte) {
		if b, err := buildSCION(h, pl); err == nil {
			qd = append(qd, b)
		}
	}
	h := qbase()
	h.pathType, h.pathRaw = 2, oneHopIncomplete
	addQ(h, r.Bytes(1200))
	h = qbase()
	h.pathType, h.pathRaw = 1, scionZeroSeg
	addQ(h, r.Bytes(1200))
	for _, st := range []uint8{1, 2, 4, 5, 6, 7} {
		h = qbase()
		h.srcType, h.srcRaw = st, r.Bytes(4*(int(st&3)+1))
		addQ(h, r.Bytes(1200))
	}
	h = qbase()
	h.scmp = int(slayers.SCMPTypeEchoRequest)
	addQ(h, []byte("x"))
	addQ(qbase(), r.Bytes(1200))
	addQ(qbase(), nil)
	// the UDP length field: 0 ("rest of the packet"), below the header size, smaller and larger than the datagram
	for _, pl := range []int{0, 20, 1200} {
		for _, ul := range []uint16{0, 1, 2, 7, 8, 9, 19, uint16(pl + 7), uint16(pl + 9), 2000, 9300, 65535} {
			if b, err := buildSCION(qbase(), r.Bytes(pl)); err == nil && len(b) >= pl+8 {
				binary.BigEndian.PutUint16(b[len(b)-pl-4:], ul)
				qd = append(qd, b)
			}
		}
	}
	qd = append(qd, r.Bytes(40), nil)
	for _, d := range qd {
		g.add("srv.quic", "nt,one", bl(d))
	}
	for i := 0; i < g.n(6, 60); i++ {
		var hst [][]byte
		for k := 0; k < 1+r.Intn(4); k++ {
			d := lib.Pick(r, qd...)
			if r.Bool() {
				d = g.mutate(d)
			}
			hst = append(hst, d)
		}
		g.add("srv.quic", "nt,mixed", bl(hst...))
	}
	// ---- IP client ----
	resp := func(mode int, b []byte) string { return lib.L(lib.I(int64(mode)), lib.B(b)) }
	hon := make([]byte, 48)
	hon[0], hon[1] = 0x24, 1
	for i := 0; i < g.n(40, 500); i++ {
		var rs []string
		for k := 0; k < 1+r.Intn(2); k++ {
			switch r.Intn(5) {
			case 0:
				rs = append(rs, resp(0, r.Bytes(lib.Pick(r, 0, 1, 47, 48, 49, 100, 2000))))
			case 1:
				m := clone(hon)
				m[0] = byte(r.U64())
				m[1] = lib.Pick(r, byte(0), 1, 15, 16, 255)
				copy(m[32:], r.Bytes(16))
				rs = append(rs, resp(1, m))
			case 2:
				m := clone(hon)
				copy(m[32:], lib.Pick(r, make([]byte, 16), []byte{0xff, 0xff, 0xff, 0xff, 0xff, 0xff, 0xff, 0xff, 0, 0, 0, 0, 0, 0, 0, 0}, []byte{0x80, 0, 0, 0, 0, 0, 0, 0, 0x7f, 0xff, 0xff, 0xff, 0xff, 0xff, 0xff, 0xff}))
				rs = append(rs, resp(1, m))
			default:
				rs = append(rs, resp(r.Intn(2), g.mutate(hon)))
			}
		}
		g.add("cli.ip", "nt", lib.V(lib.L(rs...), hf()))
	}
	// ---- IP client with NTS: key exchange and replies that carry cookies of every size ----
	il := func(xs ...int) string {
		s := make([]string, len(xs))
		for i, x := range xs {
			s[i] = lib.I(int64(x))
		}
		return lib.L(s...)
	}
	good8 := il(124, 124, 124, 124, 124, 124, 124, 124)
	keSets := []string{good8, il(124), il(929), il(896), il(897), il(928), il(2000), il(65535), il(0), il(), il(124, 929), il(929, 124), il(900, 900)}
	for _, ke := range keSets {
		g.add("cli.nts", "nt,ke", lib.L(lib.L(ke, "0", il(124))))
		g.add("cli.nts", "nt,ke", lib.L(lib.L(ke, "0", il(124)), lib.L(ke, "0", il(124))))
	}
	for _, rl := range []string{il(929), il(896), il(897, 124), il(65531), il(), il(124, 124, 124), il(928), il(1000, 1000)} {
		for mode := 0; mode <= 4; mode++ {
			g.add("cli.nts", "nt,reply", lib.L(lib.L(il(124), lib.I(int64(mode)), rl), lib.L(il(124), "0", rl), lib.L(good8, "0", il(124))))
		}
	}
	// ---- CSPTP client ----
	cs := func(port int, b []byte, patch int) string { return lib.L(lib.I(int64(port)), lib.B(b), lib.I(int64(patch))) }
	short := make([]byte, 10)
	short[0] = 8
	short[3] = 10
	g.add("cli.csptp", "nt,short", lib.V(lib.L(cs(320, short, 0)), "1"))
	g.add("cli.csptp", "nt,short", lib.V(lib.L(cs(320, short, 0), cs(319, short, 0)), "0"))
	okS, okF := csptpSync(0), csptpFollowUp(0, 0x73, 1)
	for l := 0; l <= len(okF); l += lib.Pick(r, 1, 2, 3) {
		m := clone(okF[:l])
		g.add("cli.csptp", "nt,trunc", lib.V(lib.L(cs(320, m, 0)), hf()))
		if l >= 4 {
			binary.BigEndian.PutUint16(m[2:], uint16(l))
			g.add("cli.csptp", "nt,trunclen", lib.V(lib.L(cs(320, m, 0), cs(319, m, 0)), hf()))
		}
	}
	for i := 0; i < g.n(30, 400); i++ {
		var sc []string
		for k := 0; k < 1+r.Intn(3); k++ {
			b := lib.Pick(r, okS, okF, okF, short)
			if r.Intn(3) != 0 {
				b = g.mutate(b)
			}
			sc = append(sc, cs(lib.Pick(r, 319, 320), b, r.Intn(2)))
		}
		g.add("cli.csptp", "nt,mut", lib.V(lib.L(sc...), hf()))
	}
	// ---- SCION client ----
	rec := func(items ...string) string { return lib.L(items...) }
	srvSPI := []byte{0x00, 0x02, 0x00, 0x7b}
	sAuth := func(n int) []byte {
		d := make([]byte, n)
		copy(d, srvSPI)
		return d
	}
	addC := func(tag string, auth int, recs ...string) {
		g.add("cli.scion", "nt,"+tag, lib.V(lib.L(recs...), lib.I(int64(auth)), hf()))
	}
	for _, t := range []int{1, 2, 3, 4, 5, 6, 7} {
		raw := r.Bytes(4 * ((t & 3) + 1))
		addC("addr", 0, rec("1", lib.I(int64(t)), lib.B(raw), "0", lib.B(nil)))
		addC("addr", 0, rec("1", "0", lib.B(nil), lib.I(int64(t)), lib.B(raw)))
		addC("addr", 1, rec("1", lib.I(int64(t)), lib.B(raw), lib.I(int64(t)), lib.B(raw)))
	}
	for n := 0; n <= 64; n += lib.Pick(r, 1, 2) {
		addC("authopt", 1, rec("2", "2", lib.B(sAuth(n)), "-1"))
		if n%4 == 0 {
			addC("authopt", 0, rec("2", "2", lib.B(sAuth(n)), "-1"))
		}
	}
	for _, pt := range []int{0x22, 4, 5, 255, 3} {
		addC("rawpath", 1, rec("2", "2", lib.B(sAuth(28)), lib.I(int64(pt))))
		addC("rawpath", 0, rec("2", "2", lib.B(sAuth(28)), lib.I(int64(pt))))
	}
	tsOpts := [][]byte{
		cmsg(64, 1, 65, le64s(1, 0, 0, 0, 0, 0)),             // a receive time in 1970: before the request was sent
		cmsg(64, 1, 65, le64s(0, 0, 0, 0, 1, 5)),             //
		cmsg(64, 1, 65, le64s(1, 2, 3, 4, 5, 6)),             // inconsistent fields
		cmsg(64, 1, 65, le64s(1, 2, 3, 4, 0, 0)),             //
		cmsg(64, 1, 65, le64s(1<<62, 1<<62, 0, 0, 0, 0)),     // far future
		cmsg(64, 1, 65, le64s(-1<<63, -1<<63, 0, 0, 0, 0)),   //
		cmsg(32, 1, 35, le64s(1, 1)),                         //
		cmsg(20, 0, 7, make([]byte, 4)),                      // length not a multiple of eight, nothing behind it
		append(cmsg(20, 0, 7, make([]byte, 4)), make([]byte, 3)...),
		cmsg(0, 1, 65, make([]byte, 48)),                     // cmsg_len 0
		cmsg(64, 1, 65, make([]byte, 20)),                    // claims 64 bytes, has 36
		cmsg(1<<63, 1, 65, make([]byte, 48)),
		cmsg(17, 9, 9, make([]byte, 8)),
	}
	for _, o := range tsOpts {
		addC("tsopt", 0, rec("2", "253", lib.B(o), "-1"))
		for l := 0; l < len(o); l += 9 {
			addC("tsopt", 0, rec("2", "253", lib.B(o[:l]), "-1"))
		}
	}
	for _, sc := range []int{1, 2, 4, 128, 129, 130} {
		addC("scmp", 0, rec("3", lib.I(int64(sc))))
	}
	for _, ul := range []int{0, 7, 8, 55, 57, 1000, 65535} {
		addC("udplen", 0, rec("4", lib.I(int64(ul))))
	}
	for _, ul := range []int{0, 8, 56, 57, 200, 1000, 65535} {
		addC("udplenauth", 1, rec("5", lib.B(sAuth(28)), lib.I(int64(ul))))
	}
	for i := 0; i < g.n(20, 300); i++ {
		addC("raw", r.Intn(2), rec("0", lib.B(r.Bytes(r.Intn(200)))), rec("2", "253", lib.B(g.mutate(lib.Pick(r, tsOpts...))), "-1"))
	}
	_ = ntp.PacketLen
	_ = fmt.Sprintf
}
