package main

import (
	"bufio"
	"bytes"
	"context"
	"encoding/binary"
	"fmt"
	"io"
	"log/slog"
	"os"
	"runtime"
	"strconv"
	"strings"
	"sync"
	"syscall"
	"time"

	"github.com/miscreant/miscreant.go"
	"github.com/scionproto/scion/pkg/slayers"

	"example.com/scion-time/net/csptp"
	"example.com/scion-time/net/ntp"
	"example.com/scion-time/net/nts"
	"example.com/scion-time/net/ntske"
	"example.com/scion-time/net/scion"
	"example.com/scion-time/net/udp"

	"verifharness/lib"
)

// ---- running one case under guard ----

var (
	curMu   sync.Mutex
	curJob  job
	curDone = true
)

func finish(j job, outs string) {
	curMu.Lock()
	defer curMu.Unlock()
	if curDone {
		return
	}
	curDone = true
	emitCase(j, outs)
}

// hangNow reports the case in flight as not terminating and asks the parent for a new child.
func hangNow(reason string) {
	curMu.Lock()
	if !curDone {
		curDone = true
		emitCase(job{curJob.kind, curJob.tags + ",hang", curJob.args}, failedOuts(curJob.kind, 3))
		note(reason + " during " + curJob.kind)
	}
	os.Exit(exitRestart)
}

// startMemoryWatch ends a case whose memory grows without bound (a decoder that loops and
// appends): a hard address-space limit for the whole child, and a watch on the resident set that
// does not need the Go scheduler's cooperation beyond running this goroutine.
func startMemoryWatch() {
	lim := syscall.Rlimit{Cur: 8 << 30, Max: 8 << 30}
	if err := syscall.Setrlimit(syscall.RLIMIT_AS, &lim); err != nil {
		note("setrlimit: " + err.Error())
	}
	go func() {
		runtime.LockOSThread()
		buf := make([]byte, 256)
		for {
			time.Sleep(50 * time.Millisecond)
			fd, err := syscall.Open("/proc/self/statm", syscall.O_RDONLY, 0)
			if err != nil {
				continue
			}
			n, _ := syscall.Read(fd, buf)
			syscall.Close(fd)
			f := strings.Fields(string(buf[:max(n, 0)]))
			if len(f) < 2 {
				continue
			}
			pages, _ := strconv.ParseInt(f[1], 10, 64)
			if pages*4096 > 1<<30 {
				hangNow(fmt.Sprintf("resident set grew to %d MiB", pages*4096>>20))
			}
		}
	}()
}

const decoderTimeLimit = 30 * time.Second

// guarded runs f (a call into the project) and classifies how it ended: its own result,
// "2" for a panic, or a hang when it does not return within the limit.
func guarded(f func() string) string {
	res := make(chan string, 1)
	go func() {
		defer func() {
			if r := recover(); r != nil {
				res <- "2"
			}
		}()
		res <- f()
	}()
	select {
	case s := <-res:
		return s
	case <-time.After(decoderTimeLimit):
		hangNow("no return within the time limit")
		return "3"
	}
}

func errCode(err error) int {
	switch {
	case err == io.EOF:
		return 40
	case err == io.ErrUnexpectedEOF:
		return 41
	case err == miscreant.ErrKeySize:
		return 20
	case err == miscreant.ErrNotAuthentic:
		return 22
	}
	m := err.Error()
	switch {
	case m == "unexpected packet size", m == "unexpected message size", m == "unexpected request TLV size", m == "unexpected response TLV size":
		return 1
	case m == "unexpected cookie data":
		return 10
	case m == "packet exceeds maximum NTS packet length":
		return 30
	case m == "extension field length < 4 bytes":
		return 31
	case m == "UniqueIdentifier.ID < 32 bytes":
		return 32
	case m == "packet does not contain a unique identifier":
		return 33
	case m == "packet does not contain an authenticator":
		return 34
	case m == "unexpected nonce length":
		return 35
	case m == "unexpected response ID":
		return 36
	case strings.Contains(m, "unrecognized critical"):
		return 42
	case strings.Contains(m, "bad request"):
		return 43
	case strings.Contains(m, "internal server"):
		return 44
	case strings.Contains(m, "unknown error message"):
		return 45
	case strings.Contains(m, "critical bit set"):
		return 46
	case m == "failed to read out of band data":
		return 50
	case m == "failed to read timestamp from out of band data":
		return 51
	}
	return 99
}

func errOut(err error) string { return fmt.Sprintf("1 %d", errCode(err)) }

func bsList(bs [][]byte) string {
	items := make([]string, len(bs))
	for i, b := range bs {
		items[i] = lib.B(b)
	}
	return lib.L(items...)
}

// discardLog formats every record at debug level and throws the text away: the log valuers of the
// project (ntp.PacketLogValuer and friends) and the formatting of decoded values run on whatever
// the network delivered, as they do in a service started with verbose logging
var discardLog = slog.New(slog.NewTextHandler(logSink(), &slog.HandlerOptions{Level: slog.LevelDebug}))

func logSink() io.Writer {
	if os.Getenv("C08_LOG") != "" {
		return os.Stderr
	}
	return io.Discard
}

func cookieBytes(cs []nts.Cookie) [][]byte {
	var r [][]byte
	for _, c := range cs {
		r = append(r, c.Cookie)
	}
	return r
}

// runDecoder runs the in-process kinds; ok is false for a kind it does not know.
func runDecoder(j job) (outs string, ok bool) {
	a := parseVals(j.args)
	switch j.kind {
	case "ntp.dec":
		return guarded(func() string {
			var p ntp.Packet
			if err := ntp.DecodePacket(&p, a[0].b); err != nil {
				return errOut(err)
			}
			return lib.V("0", lib.U(uint64(p.LVM)), lib.U(uint64(p.TransmitTime.Seconds)), lib.U(uint64(p.TransmitTime.Fraction)))
		}), true
	case "csptp.msg":
		return guarded(func() string {
			var m csptp.Message
			if err := csptp.DecodeMessage(&m, a[0].b); err != nil {
				return errOut(err)
			}
			return lib.V("0", lib.U(uint64(m.SdoIDMessageType)), lib.U(uint64(m.MessageLength)), lib.U(uint64(m.SequenceID)))
		}), true
	case "csptp.req":
		return guarded(func() string {
			var t csptp.RequestTLV
			if err := csptp.DecodeRequestTLV(&t, a[0].b); err != nil {
				return errOut(err)
			}
			return lib.V("0", lib.U(uint64(t.Type)), lib.U(uint64(t.FlagField)))
		}), true
	case "csptp.resp":
		return guarded(func() string {
			var t csptp.ResponseTLV
			if err := csptp.DecodeResponseTLV(&t, a[0].b); err != nil {
				return errOut(err)
			}
			return lib.V("0", lib.U(uint64(t.Type)), lib.U(uint64(t.FlagField)))
		}), true
	case "cookie.enc":
		return guarded(func() string {
			var c ntske.EncryptedServerCookie
			if err := c.Decode(a[0].b); err != nil {
				return errOut(err)
			}
			return lib.V("0", lib.U(uint64(c.ID)), lib.B(c.Nonce), lib.B(c.Ciphertext))
		}), true
	case "cookie.srv":
		return guarded(func() string {
			var c ntske.ServerCookie
			if err := c.Decode(a[0].b); err != nil {
				return errOut(err)
			}
			return lib.V("0", lib.U(uint64(c.Algo)), lib.B(c.S2C), lib.B(c.C2S))
		}), true
	case "cookie.decrypt":
		return guarded(func() string {
			c := ntske.EncryptedServerCookie{ID: 1, Nonce: a[1].b, Ciphertext: a[2].b}
			sc, err := c.Decrypt(a[0].b)
			if err != nil {
				return errOut(err)
			}
			return lib.V("0", lib.U(uint64(sc.Algo)), lib.B(sc.S2C), lib.B(sc.C2S))
		}), true
	case "nts.dec":
		return guarded(func() string {
			var p nts.Packet
			if err := nts.DecodePacket(&p, a[0].b); err != nil {
				return errOut(err)
			}
			return lib.V("0", lib.B(p.UniqueID.ID), bsList(cookieBytes(p.Cookies)), lib.I(int64(len(p.CookiePlaceholders))),
				lib.B(p.Auth.Nonce), lib.B(p.Auth.CipherText))
		}), true
	case "nts.auth", "nts.resp":
		// two guarded stages so that the observation says which one failed
		var p nts.Packet
		s1 := guarded(func() string {
			if err := nts.DecodePacket(&p, a[0].b); err != nil {
				return fmt.Sprintf("1 0 %d []", errCode(err))
			}
			return ""
		})
		if s1 == "2" {
			return "2 0 0 []", true
		}
		if s1 != "" {
			return s1, true
		}
		s2 := guarded(func() string {
			var err error
			if j.kind == "nts.auth" {
				err = nts.ProcessRequest(a[0].b, a[1].b, &p)
			} else {
				var f ntske.Fetcher
				err = nts.ProcessResponse(a[0].b, a[1].b, &f, &p, a[2].b)
			}
			if err != nil {
				return fmt.Sprintf("0 1 %d []", errCode(err))
			}
			return lib.V("0", "0", "0", bsList(cookieBytes(p.Cookies)))
		})
		if s2 == "2" {
			return "0 2 0 []", true
		}
		return s2, true
	case "nts.enc":
		return guarded(func() string {
			var p nts.Packet
			p.UniqueID.ID = make([]byte, a[1].z)
			for _, c := range a[2].l {
				p.Cookies = append(p.Cookies, nts.Cookie{Cookie: make([]byte, c.z)})
			}
			for _, c := range a[3].l {
				p.CookiePlaceholders = append(p.CookiePlaceholders, nts.CookiePlaceholder{Cookie: make([]byte, c.z)})
			}
			p.Auth.Key = make([]byte, a[4].z)
			p.Auth.PlainText = make([]byte, a[5].z)
			buf := make([]byte, a[0].z)
			nts.EncodePacket(&buf, &p)
			return lib.V("0", lib.I(int64(len(buf))))
		}), true
	case "nts.srvreply":
		return guarded(func() string {
			var p nts.Packet
			if err := nts.DecodePacket(&p, a[0].b); err != nil {
				return "1"
			}
			n := len(p.Cookies) + len(p.CookiePlaceholders)
			if n == 0 {
				return "1"
			}
			cookies := make([][]byte, n)
			for i := range cookies {
				cookies[i] = make([]byte, a[1].z)
			}
			resp := nts.NewResponsePacket(cookies, make([]byte, 32), p.UniqueID.ID)
			buf := make([]byte, ntp.PacketLen)
			nts.EncodePacket(&buf, &resp)
			return lib.V("0", lib.I(int64(len(buf))))
		}), true
	case "nts.clireq":
		return guarded(func() string {
			data := ntske.Data{C2sKey: make([]byte, 32), S2cKey: make([]byte, 32), Algo: ntske.AES_SIV_CMAC_256}
			for i := int64(0); i < a[0].z; i++ {
				data.Cookie = append(data.Cookie, make([]byte, a[1].z))
			}
			pkt, _ := nts.NewRequestPacket(data)
			buf := make([]byte, ntp.PacketLen)
			nts.EncodePacket(&buf, &pkt)
			return lib.V("0", lib.I(int64(len(buf))))
		}), true
	case "ntske.read":
		return guarded(func() string {
			var d ntske.Data
			err := ntske.ReadData(context.Background(), discardLog, bufio.NewReader(bytes.NewReader(a[0].b)), &d)
			if err != nil {
				return errOut(err)
			}
			return lib.V("0", lib.U(uint64(d.Algo)), bsList(d.Cookie), lib.B([]byte(d.Server)), lib.U(uint64(d.Port)))
		}), true
	case "cmsg":
		return guarded(func() string {
			oob := append([]byte(nil), a[0].b...)
			t, err := udp.TimestampFromOOBData(oob)
			if err != nil {
				return errOut(err)
			}
			return lib.V("0", lib.I(t.Unix()), lib.I(int64(t.Nanosecond())))
		}), true
	case "scion.authopt":
		return guarded(func() string {
			opt := &slayers.EndToEndOption{OptData: a[0].b}
			spi, algo := scion.PacketAuthOptMetadata(opt)
			mac := scion.PacketAuthOptMAC(opt)
			return lib.V("0", lib.U(uint64(spi)), lib.U(uint64(algo)), lib.B(mac))
		}), true
	}
	return "", false
}

// ---- generators ----

type gen struct {
	r    *lib.Rng
	jobs []job
	tier string
}

func (g *gen) add(kind, tags, args string) { g.jobs = append(g.jobs, job{kind, tags, args}) }

func (g *gen) n(quick, thorough int) int {
	if g.tier == "thorough" {
		return thorough
	}
	return quick
}

func clone(b []byte) []byte { return append([]byte(nil), b...) }

// mutate applies a few byte-level mutations that keep most of the structure.
func (g *gen) mutate(b []byte) []byte {
	b = clone(b)
	r := g.r
	switch r.Intn(6) {
	case 0:
		if len(b) > 0 {
			b[r.Intn(len(b))] ^= byte(1 << r.Intn(8))
		}
	case 1:
		b = b[:r.Intn(len(b)+1)]
	case 2:
		b = append(b, r.Bytes(r.Intn(40))...)
	case 3:
		if len(b) > 2 {
			i := r.Intn(len(b) - 1)
			binary.BigEndian.PutUint16(b[i:], lib.Pick(r, uint16(0), 1, 2, 3, 4, 5, 0xffff, 0xfffc, uint16(len(b)), uint16(len(b)-i)))
		}
	case 4:
		if len(b) > 0 {
			i := r.Intn(len(b))
			b = append(b[:i:i], b[i+r.Intn(len(b)-i):]...)
		}
	case 5:
		if len(b) > 0 {
			b[r.Intn(len(b))] = lib.Pick(r, byte(0), 1, 2, 3, 4, 0x7f, 0x80, 0xff)
		}
	}
	return b
}

func (g *gen) genNTP() {
	r := g.r
	for l := 0; l <= 60; l++ {
		g.add("ntp.dec", ntTag(l >= 48, fmt.Sprintf("len%d", min(l, 49))), lib.B(r.Bytes(l)))
	}
	for i := 0; i < g.n(150, 2000); i++ {
		l := lib.Pick(r, 47, 48, 48, 49, 76, 100, 1024, 1025, 2048, r.Intn(200))
		b := r.Bytes(l)
		if l > 0 && r.Bool() {
			b[0] = lib.Pick(r, byte(0x23), 0x1b, 0x0b, 0xe3, 0x24, 0x08)
		}
		g.add("ntp.dec", ntTag(l >= 48, "rand"), lib.B(b))
	}
}

func ntTag(nt bool, tag string) string {
	if nt {
		return "nt," + tag
	}
	return tag
}

func (g *gen) genCSPTP() {
	r := g.r
	for l := 0; l <= 100; l++ {
		b := r.Bytes(l)
		g.add("csptp.msg", ntTag(l >= 44, "msg"), lib.B(b))
	}
	validTLV := func(flags uint32, resp bool) []byte {
		b := make([]byte, 54)
		binary.BigEndian.PutUint16(b[0:], 3)
		copy(b[4:], []byte{0xec, 0x46, 0x70, 0x52, 0x65, 0x71})
		if resp {
			b[9] = 0x73
		}
		binary.BigEndian.PutUint32(b[10:], flags)
		copy(b[14:], r.Bytes(40))
		return b
	}
	for _, kind := range []string{"csptp.req", "csptp.resp"} {
		for _, flags := range []uint32{0, 1, 2, 3, 0xffffffff, 0xfffffffe} {
			for l := 0; l <= 60; l++ {
				b := validTLV(flags, kind == "csptp.resp")
				if l < len(b) {
					b = b[:l]
				} else {
					b = append(b, r.Bytes(l-len(b))...)
				}
				g.add(kind, ntTag(l >= 14, fmt.Sprintf("flags%d", flags&1)), lib.B(b))
			}
		}
		for i := 0; i < g.n(100, 1500); i++ {
			g.add(kind, ntTag(true, "mut"), lib.B(g.mutate(validTLV(uint32(r.Intn(4)), kind == "csptp.resp"))))
		}
	}
}

func (g *gen) validServerCookie() (ntske.ServerCookie, []byte) {
	sc := ntske.ServerCookie{Algo: ntske.AES_SIV_CMAC_256, S2C: g.r.Bytes(32), C2S: g.r.Bytes(32)}
	return sc, sc.Encode()
}

func sivOpen(key, nonce, ct, ad []byte) (pt []byte, ok bool) {
	defer func() {
		if recover() != nil {
			pt, ok = nil, false
		}
	}()
	a, err := miscreant.NewAEAD("AES-CMAC-SIV", key, 16)
	if err != nil || len(nonce) != 16 {
		return nil, false
	}
	pt, err = a.Open(nil, nonce, ct, ad)
	if err != nil {
		return nil, false
	}
	if pt == nil {
		pt = []byte{}
	}
	return pt, true
}

func sivSeal(key, nonce, pt, ad []byte) []byte {
	a, err := miscreant.NewAEAD("AES-CMAC-SIV", key, 16)
	if err != nil {
		panic(err)
	}
	return a.Seal(nil, nonce, pt, ad)
}

func ansStr(pt []byte, ok bool) string {
	if !ok {
		return lib.L()
	}
	return lib.L(lib.B(pt))
}

// tlvs builds a cookie-style TLV string.
func tlvs(items ...any) []byte {
	var b []byte
	for i := 0; i+1 < len(items); i += 2 {
		t := uint16(items[i].(int))
		v := items[i+1].([]byte)
		b = binary.BigEndian.AppendUint16(b, t)
		b = binary.BigEndian.AppendUint16(b, uint16(len(v)))
		b = append(b, v...)
	}
	return b
}

func (g *gen) genCookies() {
	r := g.r
	_, plain := g.validServerCookie()
	key := r.Bytes(32)
	nonce := r.Bytes(16)
	enc := (&ntske.EncryptedServerCookie{ID: 7, Nonce: nonce, Ciphertext: sivSeal(key, nonce, plain, nil)}).Encode()
	for _, kb := range []struct {
		kind string
		b    []byte
	}{{"cookie.srv", plain}, {"cookie.enc", enc}} {
		// truncated at every byte
		for l := 0; l <= len(kb.b); l++ {
			g.add(kb.kind, ntTag(l >= 4, "trunc"), lib.B(kb.b[:l]))
		}
		// every length field set to boundary values
		for _, off := range []int{2, 8, 8 + 2 + 32 + 4 - 2, 8 + 2 + 16 + 4 - 2} {
			for _, v := range []uint16{0, 1, 2, 3, 4, 0x7fff, 0xffff, uint16(len(kb.b)), uint16(len(kb.b) - off - 2), uint16(len(kb.b) - off - 1), uint16(len(kb.b) - off - 3)} {
				if off+2 <= len(kb.b) {
					b := clone(kb.b)
					binary.BigEndian.PutUint16(b[off:], v)
					g.add(kb.kind, "nt,lenfield", lib.B(b))
				}
			}
		}
		for i := 0; i < g.n(200, 3000); i++ {
			b := g.mutate(kb.b)
			if r.Intn(3) == 0 {
				b = g.mutate(b)
			}
			g.add(kb.kind, ntTag(len(b) >= 4, "mut"), lib.B(b))
		}
	}
	// short and odd shapes
	base := 0x101
	for _, kind := range []string{"cookie.srv", "cookie.enc"} {
		if kind == "cookie.enc" {
			base = 0x401
		}
		shapes := [][]byte{
			{0x04, 0x01, 0x00}, {0x01, 0x01, 0x00}, {byte(base >> 8), 1, 0, 0}, {byte(base >> 8), 1, 0, 1, 9}, {byte(base >> 8), 1, 0, 2, 9},
			tlvs(base, []byte{0, 15}, base+0x100, []byte{}, base+0x200, []byte{}),
			tlvs(base+0x200, r.Bytes(5), base+0x100, r.Bytes(3), base, []byte{0, 15}),
			tlvs(base, []byte{0, 15}, base, []byte{0, 16, 7}, base+0x100, r.Bytes(1), base+0x200, r.Bytes(2), 0x999, r.Bytes(9)),
			tlvs(base, []byte{0, 15}, base+0x100, r.Bytes(32)),
			append(tlvs(base, []byte{0, 15}, base+0x100, r.Bytes(32), base+0x200, r.Bytes(32)), 0),
			append(tlvs(base, []byte{0, 15}, base+0x100, r.Bytes(32), base+0x200, r.Bytes(32)), 0, 0, 0),
		}
		for _, s := range shapes {
			g.add(kind, "nt,shape", lib.B(s))
		}
	}
	// Decrypt: nonce lengths 0..32, key lengths, damaged ciphertext, plaintexts that do not decode
	for nl := 0; nl <= 33; nl++ {
		n := r.Bytes(nl)
		ct := sivSeal(key, nonce, plain, nil)
		if nl == 16 {
			n = nonce
		}
		pt, ok := sivOpen(key, n, ct, nil)
		g.add("cookie.decrypt", ntTag(true, fmt.Sprintf("nonce%d", nl)), lib.V(lib.B(key), lib.B(n), lib.B(ct), ansStr(pt, ok)))
	}
	for _, kl := range []int{0, 1, 16, 31, 32, 33, 48, 63, 64, 65, 128} {
		k := r.Bytes(kl)
		n := r.Bytes(16)
		var ct []byte
		if kl == 32 || kl == 64 {
			ct = sivSeal(k, n, plain, nil)
		} else {
			ct = r.Bytes(94)
		}
		pt, ok := sivOpen(k, n, ct, nil)
		g.add("cookie.decrypt", ntTag(true, fmt.Sprintf("key%d", kl)), lib.V(lib.B(k), lib.B(n), lib.B(ct), ansStr(pt, ok)))
	}
	for i := 0; i < g.n(150, 2000); i++ {
		var p []byte
		switch r.Intn(4) {
		case 0:
			p = plain
		case 1:
			p = g.mutate(plain)
		case 2:
			p = plain[:r.Intn(len(plain)+1)]
		default:
			p = r.Bytes(r.Intn(40))
		}
		n := r.Bytes(16)
		ct := sivSeal(key, n, p, nil)
		if r.Intn(5) == 0 && len(ct) > 0 {
			ct[r.Intn(len(ct))] ^= 1
		}
		if r.Intn(8) == 0 {
			ct = ct[:r.Intn(len(ct)+1)]
		}
		pt, ok := sivOpen(key, n, ct, nil)
		g.add("cookie.decrypt", ntTag(ok, "sealed"), lib.V(lib.B(key), lib.B(n), lib.B(ct), ansStr(pt, ok)))
	}
}

// ntsRequest builds a real request with the project's encoder.
func (g *gen) ntsRequest(key []byte, ncookies, idlen, clen int, plain []byte) []byte {
	var p nts.Packet
	p.UniqueID.ID = g.r.Bytes(idlen)
	for i := 0; i < ncookies; i++ {
		p.Cookies = append(p.Cookies, nts.Cookie{Cookie: g.r.Bytes(clen)})
	}
	for i := ncookies; i < 3 && clen <= 128; i++ {
		p.CookiePlaceholders = append(p.CookiePlaceholders, nts.CookiePlaceholder{Cookie: make([]byte, clen)})
	}
	p.Auth.Key = key
	p.Auth.PlainText = plain
	buf := make([]byte, ntp.PacketLen)
	buf[0] = 0x23
	copy(buf[40:], g.r.Bytes(8))
	nts.EncodePacket(&buf, &p)
	return buf
}

// authQuery walks the extension fields the way the decoder does, up to the authenticator, and
// returns the query the code under test will put to the cipher (nonce, ciphertext, associated
// data), so that the cipher's answer can be recorded in the case.  Harness code only: the
// project's decoder is not called while cases are generated.
func authQuery(b []byte) (nonce, ct, ad []byte, ok bool) {
	if len(b) > 1024 {
		return nil, nil, nil, false
	}
	pos := 48
	for len(b)-pos >= 28 {
		t := binary.BigEndian.Uint16(b[pos:])
		l := int(binary.BigEndian.Uint16(b[pos+2:]))
		if l < 4 {
			return nil, nil, nil, false
		}
		if t == 0x404 {
			nl := int(binary.BigEndian.Uint16(b[pos+4:]))
			cl := int(binary.BigEndian.Uint16(b[pos+6:]))
			p := pos + 8
			nonce = make([]byte, nl)
			p += copy(nonce, b[p:])
			ct = make([]byte, cl)
			copy(ct, b[p:])
			return nonce, ct, b[:pos], true
		}
		pos += l
	}
	return nil, nil, nil, false
}

// extFields lists the offsets of the extension fields of a well-formed packet.
func extFields(b []byte) []int {
	var offs []int
	pos := 48
	for pos+4 <= len(b) {
		l := int(binary.BigEndian.Uint16(b[pos+2:]))
		offs = append(offs, pos)
		if l < 4 {
			break
		}
		pos += l
	}
	return offs
}

func (g *gen) addNTSAuth(kind string, tags string, b, key, reqid []byte) {
	nonce, ct, ad, ok := authQuery(b)
	var ans string
	if ok {
		pt, o := sivOpen(key, nonce, ct, ad)
		ans = ansStr(pt, o)
	} else {
		ans = lib.L()
	}
	if kind == "nts.auth" {
		g.add(kind, tags, lib.V(lib.B(b), lib.B(key), ans))
	} else {
		g.add(kind, tags, lib.V(lib.B(b), lib.B(key), lib.B(reqid), ans))
	}
}

func (g *gen) genNTS() {
	r := g.r
	key := r.Bytes(32)
	// the datagram of D-C08a and relatives
	g.add("nts.dec", "nt,zeros", lib.B(make([]byte, 76)))
	for _, t := range []uint16{0x104, 0x204, 0x304, 0x404, 0, 0xffff} {
		for _, l := range []uint16{0, 1, 2, 3, 4, 5, 8, 28, 36, 0xffff, 0xfffc} {
			b := make([]byte, 48+28+int(r.Intn(40)))
			binary.BigEndian.PutUint16(b[48:], t)
			binary.BigEndian.PutUint16(b[50:], l)
			g.add("nts.dec", "nt,first", lib.B(b))
			g.add("nts.srvreply", "nt,first", lib.V(lib.B(b), "124"))
		}
	}
	for l := 0; l <= 130; l++ {
		g.add("nts.dec", ntTag(l >= 76, "randlen"), lib.B(r.Bytes(l)))
	}
	nvalid := g.n(12, 60)
	for v := 0; v < nvalid; v++ {
		ncookies := 1 + r.Intn(3)
		idlen := lib.Pick(r, 32, 32, 33, 36, 64)
		clen := lib.Pick(r, 124, 124, 100, 4, 0, 125)
		var plain []byte
		if r.Bool() {
			// decrypted fields: cookies, unknown fields, short and long lengths
			for i := 0; i < r.Intn(4); i++ {
				body := r.Bytes(lib.Pick(r, 0, 4, 24, 28, 124))
				plain = binary.BigEndian.AppendUint16(plain, lib.Pick(r, uint16(0x204), 0x204, 0x304, 0x104, 0x999))
				plain = binary.BigEndian.AppendUint16(plain, lib.Pick(r, uint16(4+len(body)), uint16(4+len(body)), 0, 1, 3, 4, 0xffff, uint16(len(body))))
				plain = append(plain, body...)
			}
		}
		b := g.ntsRequest(key, ncookies, idlen, clen, plain)
		g.add("nts.dec", "nt,valid", lib.B(b))
		g.addNTSAuth("nts.auth", "nt,valid", b, key, nil)
		g.addNTSAuth("nts.resp", "nt,valid", b, key, b[52:52+idlen])
		g.addNTSAuth("nts.resp", "nt,otherid", b, key, r.Bytes(idlen))
		g.addNTSAuth("nts.auth", "nt,otherkey", b, r.Bytes(32), nil)
		g.addNTSAuth("nts.auth", "nt,badkeylen", b, r.Bytes(lib.Pick(r, 0, 16, 31, 33, 48, 64)), nil)
		g.add("nts.srvreply", "nt,valid", lib.V(lib.B(b), "124"))
		g.add("nts.srvreply", "nt,valid", lib.V(lib.B(b), lib.I(int64(lib.Pick(r, 0, 4, 100, 124, 128, 125, 126, 200, 900)))))
		offs := extFields(b)
		// every field's length set to the boundary values
		for _, off := range offs {
			cur := binary.BigEndian.Uint16(b[off+2:])
			for _, l := range []uint16{0, 1, 2, 3, 4, 5, 35, 36, cur - 1, cur + 1, cur + 4, cur - 4, 0xffff, 0xfffc, uint16(len(b) - off), uint16(len(b) - off - 28), uint16(len(b) - off - 27)} {
				m := clone(b)
				binary.BigEndian.PutUint16(m[off+2:], l)
				g.add("nts.dec", "nt,extlen", lib.B(m))
				if r.Intn(3) == 0 {
					g.addNTSAuth("nts.auth", "nt,extlen", m, key, nil)
				}
				if r.Intn(3) == 0 {
					g.add("nts.srvreply", "nt,extlen", lib.V(lib.B(m), "124"))
				}
			}
			// field types
			for _, t := range []uint16{0x104, 0x204, 0x304, 0x404, 0x4, 0x8104} {
				m := clone(b)
				binary.BigEndian.PutUint16(m[off:], t)
				g.add("nts.dec", "nt,exttype", lib.B(m))
			}
		}
		// the authenticator's nonce and ciphertext lengths
		aoff := offs[len(offs)-1]
		for nl := 0; nl <= 33; nl++ {
			m := clone(b)
			binary.BigEndian.PutUint16(m[aoff+4:], uint16(nl))
			g.add("nts.dec", "nt,noncelen", lib.B(m))
			g.addNTSAuth("nts.auth", fmt.Sprintf("nt,nonce%d", nl), m, key, nil)
			if v == 0 {
				g.addNTSAuth("nts.resp", fmt.Sprintf("nt,nonce%d", nl), m, key, b[52:52+idlen])
			}
		}
		for _, cl := range []uint16{0, 1, 15, 16, 17, 0xffff, uint16(len(b))} {
			m := clone(b)
			binary.BigEndian.PutUint16(m[aoff+6:], cl)
			g.addNTSAuth("nts.auth", "nt,ctlen", m, key, nil)
		}
		// truncated at every byte (a sample of them in the quick tier)
		step := 1
		if g.tier != "thorough" && v > 0 {
			step = 7
		}
		for l := 48; l < len(b); l += step {
			g.add("nts.dec", "nt,trunc", lib.B(b[:l]))
			if l%5 == 0 {
				g.addNTSAuth("nts.auth", "nt,trunc", b[:l], key, nil)
			}
		}
		// oversized and padded
		for _, extra := range []int{1, 4, 1024 - len(b), 1025 - len(b), 2048 - len(b)} {
			if extra > 0 {
				g.add("nts.dec", "nt,long", lib.B(append(clone(b), make([]byte, extra)...)))
			}
		}
		for i := 0; i < g.n(20, 200); i++ {
			m := g.mutate(b)
			g.add("nts.dec", ntTag(len(m) >= 76, "mut"), lib.B(m))
			if i%3 == 0 {
				g.addNTSAuth("nts.auth", ntTag(len(m) >= 76, "mut"), m, key, nil)
			}
		}
	}
	// unique identifiers of every length, at the front of an otherwise complete request
	for idl := 0; idl <= 1000; idl += lib.Pick(r, 1, 1, 3, 7) {
		b := make([]byte, 48)
		b[0] = 0x23
		b = binary.BigEndian.AppendUint16(b, 0x104)
		b = binary.BigEndian.AppendUint16(b, uint16(4+idl))
		b = append(b, r.Bytes(idl)...)
		b = binary.BigEndian.AppendUint16(b, 0x204)
		b = binary.BigEndian.AppendUint16(b, uint16(4+lib.Pick(r, 0, 4, 124)))
		b = append(b, r.Bytes(int(binary.BigEndian.Uint16(b[len(b)-2:]))-4)...)
		for i := 0; i < r.Intn(12); i++ {
			b = binary.BigEndian.AppendUint16(b, 0x304)
			b = binary.BigEndian.AppendUint16(b, 4)
		}
		b = binary.BigEndian.AppendUint16(b, 0x404)
		b = binary.BigEndian.AppendUint16(b, 40)
		b = binary.BigEndian.AppendUint16(b, 16)
		b = binary.BigEndian.AppendUint16(b, 16)
		b = append(b, r.Bytes(32)...)
		if len(b) > 1100 {
			continue
		}
		g.add("nts.dec", fmt.Sprintf("nt,uid%d", min(idl/100, 9)), lib.B(b))
		g.add("nts.srvreply", fmt.Sprintf("nt,uid%d", min(idl/100, 9)), lib.V(lib.B(b), "124"))
	}
	// EncodePacket on sizes of every kind
	for i := 0; i < g.n(300, 4000); i++ {
		hdr := lib.Pick(r, 48, 48, 48, 48, 48, 48, 47, 49, 0)
		idlen := lib.Pick(r, 32, 32, 32, 0, 16, 31, 33, 64, 500, 900, 940, 944, 945, 948, 960, 968, 969, 972, 976, 1000, 2000)
		var cs, ps []string
		for k := 0; k < r.Intn(4); k++ {
			cs = append(cs, lib.I(int64(lib.Pick(r, 0, 1, 4, 100, 124, 125, 400, 900, 928, 929, 936, 1000))))
		}
		for k := 0; k < r.Intn(9); k++ {
			ps = append(ps, lib.I(int64(lib.Pick(r, 0, 4, 100, 124, 124, 124, 128))))
		}
		keylen := lib.Pick(r, 32, 32, 32, 32, 64, 16, 0, 33)
		ptlen := lib.Pick(r, 0, 0, 128, 896, 1024, 5000)
		g.add("nts.enc", "nt", lib.V(lib.I(int64(hdr)), lib.I(int64(idlen)), lib.L(cs...), lib.L(ps...), lib.I(int64(keylen)), lib.I(int64(ptlen))))
	}
	// the request a client builds from the cookies an NTS-KE server or an NTS reply gave it
	for navail := 1; navail <= 8; navail++ {
		for _, clen := range []int{0, 1, 3, 4, 100, 104, 124, 128, 200, 400, 444, 448, 800, 896, 900, 901, 924, 927, 928} {
			g.add("nts.clireq", "nt", lib.V(lib.I(int64(navail)), lib.I(int64(clen))))
		}
	}
}

func record(t uint16, body []byte) []byte {
	b := binary.BigEndian.AppendUint16(nil, t)
	b = binary.BigEndian.AppendUint16(b, uint16(len(body)))
	return append(b, body...)
}

func (g *gen) genNTSKE() {
	r := g.r
	var msg ntske.ExchangeMsg
	msg.AddRecord(ntske.NextProto{NextProto: ntske.NTPv4})
	msg.AddRecord(ntske.Algorithm{Algo: []uint16{ntske.AES_SIV_CMAC_256}})
	msg.AddRecord(ntske.Server{Addr: []byte("127.0.0.1")})
	msg.AddRecord(ntske.Port{Port: 123})
	for i := 0; i < 8; i++ {
		msg.AddRecord(ntske.Cookie{Cookie: r.Bytes(124)})
	}
	msg.AddRecord(ntske.End{})
	buf, err := msg.Pack()
	if err != nil {
		panic(err)
	}
	full := buf.Bytes()
	for l := 0; l <= len(full); l++ {
		if g.tier == "thorough" || l < 40 || l%9 == 0 || l > len(full)-8 {
			g.add("ntske.read", ntTag(l >= 4, "trunc"), lib.B(full[:l]))
		}
	}
	var req ntske.ExchangeMsg
	req.AddRecord(ntske.NextProto{NextProto: ntske.NTPv4})
	req.AddRecord(ntske.Algorithm{Algo: []uint16{ntske.AES_SIV_CMAC_256}})
	req.AddRecord(ntske.End{})
	rb, _ := req.Pack()
	for l := 0; l <= rb.Len(); l++ {
		g.add("ntske.read", ntTag(l >= 4, "req"), lib.B(rb.Bytes()[:l]))
	}
	for i := 0; i < g.n(300, 5000); i++ {
		var s []byte
		for k := 0; k < 1+r.Intn(6); k++ {
			t := lib.Pick(r, uint16(1), 2, 3, 4, 5, 5, 6, 7, 8, 0x4000, 0x7fff) | lib.Pick(r, uint16(0), 0, 0x8000)
			body := r.Bytes(lib.Pick(r, 0, 1, 2, 2, 2, 3, 4, 16, 124, 300))
			rec := record(t, body)
			switch r.Intn(8) {
			case 0:
				binary.BigEndian.PutUint16(rec[2:], lib.Pick(r, uint16(0), 1, 2, 0xffff, uint16(len(body)+1), uint16(len(body)+100)))
			case 1:
				rec = rec[:r.Intn(len(rec)+1)]
			}
			s = append(s, rec...)
		}
		if r.Intn(3) != 0 {
			s = append(s, record(0x8000, nil)...)
		}
		g.add("ntske.read", ntTag(len(s) >= 4, "stream"), lib.B(s))
	}
	for _, code := range []uint16{0, 1, 2, 3, 0xffff} {
		g.add("ntske.read", "nt,error", lib.B(record(0x8002, binary.BigEndian.AppendUint16(nil, code))))
	}
	for i := 0; i < g.n(60, 600); i++ {
		g.add("ntske.read", "nt,mut", lib.B(g.mutate(full)))
	}
}

func cmsg(l uint64, level, typ int32, data []byte) []byte {
	b := make([]byte, 16)
	binary.LittleEndian.PutUint64(b, l)
	binary.LittleEndian.PutUint32(b[8:], uint32(level))
	binary.LittleEndian.PutUint32(b[12:], uint32(typ))
	return append(b, data...)
}

func le64s(vs ...int64) []byte {
	var b []byte
	for _, v := range vs {
		b = binary.LittleEndian.AppendUint64(b, uint64(v))
	}
	return b
}

func (g *gen) genCmsg() {
	r := g.r
	tsNew := func(s0, n0, s1, n1, s2, n2 int64) []byte { return cmsg(64, 1, 65, le64s(s0, n0, s1, n1, s2, n2)) }
	tsNs := func(s, n int64) []byte { return cmsg(32, 1, 35, le64s(s, n)) }
	good := []([]byte){
		tsNew(1700000000, 123456789, 0, 0, 0, 0),
		tsNew(0, 0, 0, 0, 1700000000, 999999999),
		tsNew(1, 2, 3, 4, 0, 0), tsNew(1, 2, 0, 0, 3, 4), tsNew(0, 0, 1, 0, 0, 0), tsNew(0, 0, 0, 1, 5, 6), tsNew(0, 0, 0, 0, 0, 0),
		tsNew(-5, -7, 0, 0, 0, 0), tsNew(1<<62, 1<<62, 0, 0, 0, 0), tsNew(-1<<63, -1<<63, 0, 0, 0, 0), tsNew(1<<63-1, 1<<63-1, 0, 0, 0, 0),
		tsNew(0, 0, 0, 0, 7, 2000000000), tsNew(0, 0, 0, 0, 7, -1),
		tsNs(1700000000, 5), tsNs(-1, -1), tsNs(1<<63-1, 1999999999), tsNs(-1<<63, -1999999999),
	}
	for _, b := range good {
		g.add("cmsg", "nt,ts", lib.B(b))
		// every prefix
		for l := 0; l < len(b); l++ {
			if g.tier == "thorough" || l%5 == 0 || l > len(b)-3 || l < 18 {
				g.add("cmsg", ntTag(l >= 16, "prefix"), lib.B(b[:l]))
			}
		}
		// behind other control messages, with aligned and unaligned lengths
		for _, pl := range []int{0, 1, 4, 7, 8, 9, 12, 16, 20} {
			pre := cmsg(uint64(16+pl), lib.Pick(r, int32(0), 0, 1, 41), lib.Pick(r, int32(8), 11, 25, 66), r.Bytes((pl+7)&^7))
			g.add("cmsg", "nt,chain", lib.B(append(clone(pre), b...)))
			g.add("cmsg", "nt,chainshort", lib.B(append(clone(pre[:16+pl]), b...)))
		}
		// the header's length field
		for _, hl := range []uint64{0, 1, 15, 16, 17, 23, 24, 31, 32, 33, 40, 63, 64, 65, 72, uint64(len(b)), uint64(len(b) + 1), 1 << 31, 1 << 32, 1<<63 - 1, 1 << 63, 1<<64 - 1} {
			m := clone(b)
			binary.LittleEndian.PutUint64(m, hl)
			g.add("cmsg", "nt,hlen", lib.B(m))
			g.add("cmsg", "nt,hlenpad", lib.B(append(m, r.Bytes(r.Intn(24))...)))
		}
		for _, lv := range []int32{0, 1, 2, 41, -1} {
			for _, ty := range []int32{0, 35, 37, 65, 66, -1} {
				m := clone(b)
				binary.LittleEndian.PutUint32(m[8:], uint32(lv))
				binary.LittleEndian.PutUint32(m[12:], uint32(ty))
				g.add("cmsg", "nt,levtype", lib.B(m))
			}
		}
	}
	for l := 0; l <= 130; l++ {
		g.add("cmsg", ntTag(l >= 16, "rand"), lib.B(r.Bytes(l)))
	}
	for i := 0; i < g.n(300, 5000); i++ {
		b := clone(lib.Pick(r, good...))
		for k := 0; k < 1+r.Intn(2); k++ {
			b = g.mutate(b)
		}
		if r.Intn(3) == 0 {
			b = append(b, lib.Pick(r, good...)...)
		}
		g.add("cmsg", ntTag(len(b) >= 16, "mut"), lib.B(b))
	}
	for l := 0; l <= 64; l++ {
		g.add("scion.authopt", ntTag(l == 28, "len"), lib.B(r.Bytes(l)))
	}
}

func generate(tier string, seed uint64) []job {
	g := &gen{r: lib.NewRng(seed), tier: tier}
	g.genNTP()
	g.genCSPTP()
	g.genCookies()
	g.genNTS()
	g.genNTSKE()
	g.genCmsg()
	g.genListeners()
	g.genMore()
	g.genThird()
	return g.jobs
}

var kindTime = map[string]time.Duration{}

func runJob(idx int, j job) {
	t0 := time.Now()
	defer func() { kindTime[j.kind] += time.Since(t0) }()
	curMu.Lock()
	curJob, curDone = j, false
	curMu.Unlock()
	if outs, ok := runDecoder(j); ok {
		finish(j, outs)
		return
	}
	if outs, ok := runNet(j); ok {
		finish(j, outs)
		return
	}
	note("unknown case kind " + j.kind)
	finish(j, "0")
}
