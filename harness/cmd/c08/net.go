package main

func (g *gen) genListeners() {}

func runNet(j job) (string, bool) { return "", false }
