package main

import (
	"bufio"
	"bytes"
	"context"
	"crypto/ecdsa"
	"crypto/elliptic"
	"crypto/rand"
	"crypto/tls"
	"crypto/x509"
	"crypto/x509/pkix"
	"encoding/binary"
	"fmt"
	"log/slog"
	"math/big"
	"net"
	"os"
	"strings"
	"sync"
	"time"

	"github.com/google/gopacket"
	"github.com/scionproto/scion/pkg/addr"
	"github.com/scionproto/scion/pkg/slayers"
	"github.com/scionproto/scion/pkg/slayers/path"
	"github.com/scionproto/scion/pkg/slayers/path/empty"
	"github.com/scionproto/scion/pkg/slayers/path/onehop"
	scionpath "github.com/scionproto/scion/pkg/slayers/path/scion"

	"example.com/scion-time/core/server"
	"example.com/scion-time/core/timebase"
	"example.com/scion-time/net/csptp"
	"example.com/scion-time/net/ntp"
	"example.com/scion-time/net/nts"
	"example.com/scion-time/net/ntske"
	"example.com/scion-time/net/udp"

	"verifharness/lib"
)

const (
	ipPort      = 20123
	scionPort   = 10123
	endhostPort = 30041
	kePortSCION = 14460
	localIA     = 0x0001ff0000000111
	readLimit   = 25 * time.Second
)

type sysClock struct{}

func (sysClock) Epoch() uint64                                    { return 0 }
func (sysClock) Now() time.Time                                   { return time.Now().UTC() }
func (sysClock) Drift(d time.Duration) time.Duration              { return 0 }
func (sysClock) Step(offset time.Duration)                        {}
func (sysClock) Adjust(offset, duration time.Duration, f float64) {}
func (sysClock) Sleep(d time.Duration)                            { time.Sleep(d) }

// csptpLog records the "received request" records of the CSPTP listener: the listener never
// replies (its response path is not wired up yet), so its log is the observation point.
type csptpLog struct {
	mu   sync.Mutex
	seen []csptpSeen
}

type csptpSeen struct {
	from string
	seq  uint16
}

func (h *csptpLog) Enabled(context.Context, slog.Level) bool { return true }
func (h *csptpLog) WithAttrs([]slog.Attr) slog.Handler       { return h }
func (h *csptpLog) WithGroup(string) slog.Handler            { return h }
func (h *csptpLog) Handle(ctx context.Context, r slog.Record) error {
	discardLog.Handler().Handle(ctx, r) // format it as a verbose service would
	if r.Message != "received request" {
		return nil
	}
	var s csptpSeen
	r.Attrs(func(a slog.Attr) bool {
		switch a.Key {
		case "from":
			s.from = a.Value.String()
		case "reqmsg":
			if m, ok := a.Value.Any().(*csptp.Message); ok {
				s.seq = m.SequenceID
			}
		}
		return true
	})
	h.mu.Lock()
	h.seen = append(h.seen, s)
	h.mu.Unlock()
	return nil
}

func (h *csptpLog) take(from string) []uint16 {
	h.mu.Lock()
	defer h.mu.Unlock()
	var seqs []uint16
	var rest []csptpSeen
	for _, s := range h.seen {
		if s.from == from {
			seqs = append(seqs, s.seq)
		} else {
			rest = append(rest, s)
		}
	}
	h.seen = rest
	return seqs
}

type netEnv struct {
	provider *ntske.Provider
	srvIP    net.IP // the real listeners
	peerIP   net.IP // scripted peers and sending sockets
	tlsSrv   *tls.Config
	clog     *csptpLog
	seq      uint32
	sock     *net.UDPConn // sending socket for the IP and SCION listeners
	csock    *net.UDPConn // sending socket for the CSPTP listeners
}

var (
	ne     *netEnv
	neOnce sync.Once
)

func ownAddr(second byte) net.IP {
	pid := os.Getpid()
	return net.IPv4(127, second, byte(pid>>8), byte(pid)).To4()
}

func selfSigned() tls.Certificate {
	key, err := ecdsa.GenerateKey(elliptic.P256(), rand.Reader)
	if err != nil {
		panic(err)
	}
	tmpl := &x509.Certificate{
		SerialNumber: big.NewInt(1), Subject: pkix.Name{CommonName: "c08"},
		NotBefore: time.Now().Add(-time.Hour), NotAfter: time.Now().Add(24 * time.Hour),
		KeyUsage: x509.KeyUsageDigitalSignature, ExtKeyUsage: []x509.ExtKeyUsage{x509.ExtKeyUsageServerAuth},
		DNSNames: []string{"c08"}, IPAddresses: []net.IP{ownAddr(8), ownAddr(108)},
	}
	der, err := x509.CreateCertificate(rand.Reader, tmpl, tmpl, &key.PublicKey, key)
	if err != nil {
		panic(err)
	}
	return tls.Certificate{Certificate: [][]byte{der}, PrivateKey: key}
}

// setupNet starts the real listeners once per process.
func setupNet() *netEnv {
	neOnce.Do(func() {
		e := &netEnv{}
		timebase.RegisterClock(sysClock{})
		e.provider = ntske.NewProvider()
		e.srvIP, e.peerIP = ownAddr(8), ownAddr(108)
		e.clog = &csptpLog{}
		ctx := context.Background()
		quiet := discardLog
		cert := selfSigned()
		e.tlsSrv = &tls.Config{Certificates: []tls.Certificate{cert}, NextProtos: []string{"ntske/1"}, MinVersion: tls.VersionTLS13}
		server.StartIPServer(ctx, quiet, &net.UDPAddr{IP: e.srvIP, Port: ipPort}, 0, e.provider)
		server.StartSCIONServer(ctx, quiet, "", &net.UDPAddr{IP: e.srvIP, Port: scionPort}, 0, e.provider)
		server.StartCSPTPServerIP(ctx, slog.New(e.clog), &net.UDPAddr{IP: e.srvIP}, 0)
		server.StartNTSKEServerIP(ctx, quiet, e.srvIP, ipPort, e.tlsSrv.Clone(), e.provider)
		server.StartNTSKEServerSCION(ctx, quiet, udp.UDPAddr{IA: addr.IA(localIA), Host: &net.UDPAddr{IP: e.srvIP, Port: scionPort}}, e.tlsSrv.Clone(), e.provider)
		var err error
		e.sock, err = net.ListenUDP("udp4", &net.UDPAddr{IP: e.peerIP})
		if err != nil {
			panic(err)
		}
		e.sock.SetReadBuffer(1 << 20)
		e.csock, err = net.ListenUDP("udp4", &net.UDPAddr{IP: e.peerIP})
		if err != nil {
			panic(err)
		}
		time.Sleep(200 * time.Millisecond)
		ne = e
	})
	return ne
}

// ---- sentinels ----

const sentinelSecs = 0x5E471E08

func (e *netEnv) nextSentinel() []byte {
	e.seq++
	s := make([]byte, ntp.PacketLen)
	s[0] = 4<<3 | 3
	binary.BigEndian.PutUint32(s[40:], sentinelSecs)
	binary.BigEndian.PutUint32(s[44:], e.seq)
	return s
}

func (e *netEnv) isSentinelReply(p []byte) bool {
	return len(p) >= ntp.PacketLen && binary.BigEndian.Uint32(p[24:]) == sentinelSecs && binary.BigEndian.Uint32(p[28:]) == e.seq
}

// ntsSession is what a client has after a key exchange with the listeners' provider.
type ntsSession struct {
	c2s, s2c []byte
	cookie   []byte
}

func (e *netEnv) newSession() ntsSession {
	s := ntsSession{c2s: make([]byte, 32), s2c: make([]byte, 32)}
	rand.Read(s.c2s)
	rand.Read(s.s2c)
	key := e.provider.Current()
	sc := ntske.ServerCookie{Algo: ntske.AES_SIV_CMAC_256, S2C: s.s2c, C2S: s.c2s}
	ec, err := sc.EncryptWithNonce(key.Value, key.ID)
	if err != nil {
		panic(err)
	}
	s.cookie = ec.Encode()
	return s
}

// craftNTS writes an NTS request by hand so that every field can be malformed.
func craftNTS(hdr []byte, fields [][]byte, c2s, plain []byte, nonceLen int, tagDamage bool) []byte {
	b := clone(hdr)
	for _, f := range fields {
		b = append(b, f...)
	}
	nonce := make([]byte, 16)
	rand.Read(nonce)
	var ct []byte
	if len(c2s) == 32 || len(c2s) == 64 {
		ct = sivSeal(c2s, nonce, plain, b)
	} else {
		ct = make([]byte, 16+len(plain))
	}
	if tagDamage {
		ct[0] ^= 1
	}
	n := nonce
	if nonceLen != 16 {
		n = make([]byte, nonceLen)
		copy(n, nonce)
	}
	npad := (4 - len(n)%4) % 4
	cpad := (4 - len(ct)%4) % 4
	b = binary.BigEndian.AppendUint16(b, 0x404)
	b = binary.BigEndian.AppendUint16(b, uint16(8+len(n)+npad+len(ct)+cpad))
	b = binary.BigEndian.AppendUint16(b, uint16(len(n)))
	b = binary.BigEndian.AppendUint16(b, uint16(len(ct)))
	b = append(b, n...)
	b = append(b, make([]byte, npad)...)
	b = append(b, ct...)
	b = append(b, make([]byte, cpad)...)
	return b
}

func extField(t uint16, body []byte) []byte {
	pad := (4 - len(body)%4) % 4
	b := binary.BigEndian.AppendUint16(nil, t)
	b = binary.BigEndian.AppendUint16(b, uint16(4+len(body)+pad))
	b = append(b, body...)
	return append(b, make([]byte, pad)...)
}

func ntpHeader(r *lib.Rng) []byte {
	h := make([]byte, 48)
	h[0] = 0x23
	copy(h[40:], r.Bytes(8))
	return h
}

// ntsSentinel is a well-formed NTS request of a fresh association; the reply must verify.
func (e *netEnv) ntsSentinel() (req []byte, check func([]byte) bool) {
	s := e.newSession()
	data := ntske.Data{C2sKey: s.c2s, S2cKey: s.s2c, Cookie: [][]byte{s.cookie}, Algo: ntske.AES_SIV_CMAC_256}
	pkt, id := nts.NewRequestPacket(data)
	buf := make([]byte, ntp.PacketLen)
	buf[0] = 4<<3 | 3
	e.seq++
	binary.BigEndian.PutUint32(buf[40:], sentinelSecs)
	binary.BigEndian.PutUint32(buf[44:], e.seq)
	nts.EncodePacket(&buf, &pkt)
	return buf, func(rep []byte) (ok bool) {
		defer func() {
			if recover() != nil {
				ok = false
			}
		}()
		if !e.isSentinelReply(rep) {
			return false
		}
		var p nts.Packet
		if nts.DecodePacket(&p, rep) != nil {
			return false
		}
		var f ntske.Fetcher
		return nts.ProcessResponse(rep, s.s2c, &f, &p, id) == nil
	}
}

// exchange sends pkt and then the sentinel from the sending socket and reads until the sentinel's
// reply arrives; replies that came before it belong to pkt.
func (e *netEnv) exchange(dst *net.UDPAddr, pkt, sentinel []byte, isSentinel func([]byte) bool) (reps [][]byte, answered bool) {
	c := e.sock
	if pkt != nil {
		if _, err := c.WriteToUDP(pkt, dst); err != nil {
			note(fmt.Sprintf("write failed: %v (len %d)", err, len(pkt)))
		}
	}
	buf := make([]byte, 65536)
	// the sentinel is sent up to three times: one lost datagram on a loaded machine is not a violation
	for try := 0; try < 3; try++ {
		if _, err := c.WriteToUDP(sentinel, dst); err != nil {
			note(fmt.Sprintf("write failed: %v", err))
		}
		deadline := time.Now().Add(readLimit / 3)
		for {
			c.SetReadDeadline(deadline)
			n, _, err := c.ReadFromUDP(buf)
			if err != nil {
				break
			}
			b := clone(buf[:n])
			if isSentinel(b) {
				return reps, true
			}
			if e.staleSentinel(b) {
				continue // the answer to an earlier (repeated) sentinel
			}
			reps = append(reps, b)
		}
	}
	return reps, false
}

// staleSentinel recognises the answer to a sentinel of an earlier step (plain or inside SCION).
func (e *netEnv) staleSentinel(b []byte) bool {
	is := func(p []byte) bool {
		return len(p) >= ntp.PacketLen && binary.BigEndian.Uint32(p[24:]) == sentinelSecs
	}
	if is(b) && b[0]&7 == 4 {
		return true
	}
	if pl, _, ok := scionPayload(b); ok && is(pl) {
		return true
	}
	return false
}

// interleavedSentinel makes two exchanges the way an interleaved-mode client does: the second
// request's origin time is the receive time the listener reported in its first reply.
func (e *netEnv) interleavedSentinel(dst *net.UDPAddr) bool {
	s1 := e.nextSentinel()
	var r1 []byte
	if _, ok := e.exchange(dst, nil, s1, func(b []byte) bool {
		if e.isSentinelReply(b) {
			r1 = clone(b)
			return true
		}
		return false
	}); !ok {
		return false
	}
	s2 := e.nextSentinel()
	copy(s2[24:32], r1[32:40]) // origin  := the listener's receive time
	copy(s2[32:40], r1[40:48]) // receive := the listener's transmit time (differs from our transmit time)
	_, ok := e.exchange(dst, nil, s2, func(b []byte) bool {
		// an interleaved reply carries our receive field as its origin; a basic one our transmit time
		return len(b) >= ntp.PacketLen && b[0]&7 == 4 &&
			(string(b[24:32]) == string(s2[32:40]) || e.isSentinelReply(b))
	})
	return ok
}

// ---- srv.ip ----

func (e *netEnv) runIP(a []val) string {
	dst := &net.UDPAddr{IP: e.srvIP, Port: ipPort}
	var obs []string
	lost := false
	for _, d := range a[0].l {
		s := e.nextSentinel()
		reps, ok := e.exchange(dst, d.b, s, e.isSentinelReply)
		replied, rlen := 0, 0
		if len(reps) > 0 {
			replied, rlen = 1, len(reps[0])
		}
		obs = append(obs, lib.L(lib.I(int64(replied)), lib.I(int64(rlen)), lib.Bool(ok)))
		if !ok {
			lost = true
			break
		}
	}
	ntsOK := false
	if !lost {
		req, check := e.ntsSentinel()
		_, ntsOK = e.exchange(dst, nil, req, check)
		if ntsOK {
			ntsOK = e.interleavedSentinel(dst)
		}
	}
	return lib.V("1", lib.L(obs...), lib.Bool(ntsOK))
}

// ---- SCION packets ----

type scionSpec struct {
	dstIA, srcIA     uint64
	dstType, srcType uint8
	dstRaw, srcRaw   []byte
	pathType         uint8
	pathRaw          []byte
	udpSrc, udpDst   uint16
	e2e              []*slayers.EndToEndOption
	hbh              bool
	scmp             int // 0 = UDP, else SCMP type
	scmpRaw          bool // the payload is everything behind the 4-byte SCMP header
}

func buildPath(t uint8, raw []byte) (path.Path, error) {
	switch path.Type(t) {
	case empty.PathType:
		return empty.Path{}, nil
	case scionpath.PathType:
		p := &scionpath.Raw{}
		return p, p.DecodeFromBytes(clone(raw))
	case onehop.PathType:
		p := &onehop.Path{}
		return p, p.DecodeFromBytes(clone(raw))
	}
	return nil, fmt.Errorf("unsupported path type %d", t)
}

func buildSCION(h *scionSpec, payload []byte) (b []byte, err error) {
	defer func() {
		if r := recover(); r != nil {
			b, err = nil, fmt.Errorf("serialize: %v", r)
		}
	}()
	p, err := buildPath(h.pathType, h.pathRaw)
	if err != nil {
		return nil, err
	}
	var scn slayers.SCION
	scn.FlowID = 1
	scn.PathType = path.Type(h.pathType)
	scn.Path = p
	scn.DstIA, scn.SrcIA = addr.IA(h.dstIA), addr.IA(h.srcIA)
	scn.DstAddrType, scn.SrcAddrType = slayers.AddrType(h.dstType), slayers.AddrType(h.srcType)
	scn.RawDstAddr, scn.RawSrcAddr = h.dstRaw, h.srcRaw
	var layers []gopacket.SerializableLayer
	l4 := slayers.L4UDP
	if h.scmp != 0 {
		l4 = slayers.L4SCMP
	}
	layers = append(layers, &scn)
	next := &scn.NextHdr
	*next = l4
	if h.hbh {
		hb := &slayers.HopByHopExtn{}
		hb.Options = []*slayers.HopByHopOption{{OptType: 200, OptData: []byte{1, 2, 3, 4}}}
		*next = slayers.HopByHopClass
		hb.NextHdr = l4
		next = &hb.NextHdr
		layers = append(layers, hb)
	}
	if len(h.e2e) > 0 {
		ee := &slayers.EndToEndExtn{}
		ee.Options = h.e2e
		*next = slayers.End2EndClass
		ee.NextHdr = l4
		layers = append(layers, ee)
	}
	if h.scmp != 0 {
		sc := &slayers.SCMP{TypeCode: slayers.CreateSCMPTypeCode(slayers.SCMPType(h.scmp), 0)}
		sc.SetNetworkLayerForChecksum(&scn)
		layers = append(layers, sc)
		switch t := slayers.SCMPType(h.scmp); {
		case h.scmpRaw:
		case t == slayers.SCMPTypeEchoRequest:
			layers = append(layers, &slayers.SCMPEcho{Identifier: 7, SeqNumber: 9})
		case t == slayers.SCMPTypeTracerouteRequest:
			layers = append(layers, &slayers.SCMPTraceroute{Identifier: 7, Sequence: 9})
		}
	} else {
		u := &slayers.UDP{}
		u.SrcPort, u.DstPort = h.udpSrc, h.udpDst
		u.SetNetworkLayerForChecksum(&scn)
		layers = append(layers, u)
	}
	layers = append(layers, gopacket.Payload(payload))
	sb := gopacket.NewSerializeBuffer()
	err = gopacket.SerializeLayers(sb, gopacket.SerializeOptions{ComputeChecksums: true, FixLengths: true}, layers...)
	if err != nil {
		return nil, err
	}
	return clone(sb.Bytes()), nil
}

// scionPayload extracts the UDP payload of a datagram received from the listener.
func scionPayload(b []byte) (pl []byte, srcPort uint16, ok bool) {
	defer func() {
		if recover() != nil {
			ok = false
		}
	}()
	var (
		scn slayers.SCION
		hbh slayers.HopByHopExtnSkipper
		e2e slayers.EndToEndExtnSkipper
		u   slayers.UDP
		sc  slayers.SCMP
	)
	parser := gopacket.NewDecodingLayerParser(slayers.LayerTypeSCION, &scn, &hbh, &e2e, &u, &sc)
	parser.IgnoreUnsupported = true
	decoded := make([]gopacket.LayerType, 0, 4)
	if err := parser.DecodeLayers(b, &decoded); err != nil || len(decoded) < 2 {
		return nil, 0, false
	}
	if decoded[len(decoded)-1] != slayers.LayerTypeSCIONUDP {
		return nil, 0, false
	}
	return u.Payload, u.SrcPort, true
}

func (e *netEnv) baseSpec(dstPort uint16) *scionSpec {
	return &scionSpec{dstIA: localIA, srcIA: localIA, dstType: 0, srcType: 0,
		dstRaw: []byte(e.srvIP.To4()), srcRaw: []byte(e.peerIP.To4()), pathType: 0,
		udpSrc: 40123, udpDst: dstPort}
}

func (e *netEnv) runSCION(a []val) string {
	var ss []string
	for _, st := range a[0].l {
		under := int(st.l[0].z)
		dst := &net.UDPAddr{IP: e.srvIP, Port: under}
		s := e.nextSentinel()
		sh := e.baseSpec(scionPort)
		sh.udpSrc = uint16(e.sock.LocalAddr().(*net.UDPAddr).Port)
		spkt, err := buildSCION(sh, s)
		if err != nil {
			panic(err)
		}
		// same socket, same listener goroutine: the sentinel queues behind the crafted datagram.  On
		// the end-host port the sentinel is a request the forwarder has to pass on to the listener,
		// whose reply comes back through the forwarder.
		_, ok := e.exchange(dst, st.l[1].b, spkt, func(b []byte) bool {
			pl, _, ok := scionPayload(b)
			return ok && e.isSentinelReply(pl)
		})
		ss = append(ss, lib.Bool(ok))
		if !ok {
			return lib.V("1", lib.L(ss...))
		}
	}
	ss = append(ss, e.scionFinalSentinels()...)
	ss = append(ss, lib.Bool(e.echoSentinel()))
	return lib.V("1", lib.L(ss...))
}

// ---- srv.csptp ----

func csptpSync(seq uint16) []byte {
	b := make([]byte, 44)
	m := csptp.Message{SdoIDMessageType: csptp.MessageTypeSync, PTPVersion: csptp.PTPVersion, MessageLength: 44,
		FlagField: csptp.FlagTwoStep | csptp.FlagUnicast, SequenceID: seq, ControlField: csptp.ControlSync,
		SourcePortIdentity: csptp.PortID{Port: 1}}
	csptp.EncodeMessage(b, &m)
	return b
}

func csptpFollowUp(seq uint16, subtype2 byte, flags uint32) []byte {
	tl := 36
	if flags&1 == 1 {
		tl = 54
	}
	b := make([]byte, 44+tl)
	m := csptp.Message{SdoIDMessageType: csptp.MessageTypeFollowUp, PTPVersion: csptp.PTPVersion, MessageLength: uint16(len(b)),
		FlagField: csptp.FlagUnicast, SequenceID: seq, ControlField: csptp.ControlFollowUp,
		SourcePortIdentity: csptp.PortID{Port: 1}}
	csptp.EncodeMessage(b[:44], &m)
	t := b[44:]
	binary.BigEndian.PutUint16(t[0:], csptp.TLVTypeOrganizationExtension)
	binary.BigEndian.PutUint16(t[2:], uint16(tl))
	copy(t[4:], []byte{0xec, 0x46, 0x70, 0x52, 0x65, subtype2})
	binary.BigEndian.PutUint32(t[10:], flags)
	return b
}

func (e *netEnv) runCSPTPServer(a []val) string {
	port := int(a[0].z)
	dst := &net.UDPAddr{IP: e.srvIP, Port: port}
	from := e.csock.LocalAddr().(*net.UDPAddr).AddrPort().String()
	e.clog.take(from)
	e.seq++
	sseq := uint16(0xC000 | e.seq&0x3fff)
	var sentinel []byte
	if port == csptp.EventPortIP {
		sentinel = csptpSync(sseq)
	} else {
		sentinel = csptpFollowUp(sseq, 0x71, 1)
	}
	e.csock.WriteToUDP(a[1].b, dst)
	e.csock.WriteToUDP(sentinel, dst)
	deadline := time.Now().Add(readLimit)
	accepted, answered := 0, false
	for time.Now().Before(deadline) && !answered {
		for _, s := range e.clog.take(from) {
			if s == sseq {
				answered = true
			} else {
				accepted++
			}
		}
		if !answered {
			time.Sleep(2 * time.Millisecond)
		}
	}
	if accepted > 1 {
		accepted = 1
	}
	return lib.V("1", lib.I(int64(accepted)), lib.Bool(answered))
}

// ---- srv.ntske (TLS) ----

func ntskeRequest() []byte {
	var req ntske.ExchangeMsg
	req.AddRecord(ntske.NextProto{NextProto: ntske.NTPv4})
	req.AddRecord(ntske.Algorithm{Algo: []uint16{ntske.AES_SIV_CMAC_256}})
	req.AddRecord(ntske.End{})
	b, err := req.Pack()
	if err != nil {
		panic(err)
	}
	return b.Bytes()
}

func (e *netEnv) keExchange(stream []byte, wantCookies bool) bool {
	return e.keExchangeTo(e.srvIP, stream, wantCookies)
}

func (e *netEnv) keExchangeTo(ip net.IP, stream []byte, wantCookies bool) bool {
	d := &net.Dialer{Timeout: 10 * time.Second, LocalAddr: &net.TCPAddr{IP: e.peerIP}}
	conn, err := tls.DialWithDialer(d, "tcp", net.JoinHostPort(ip.String(), "4460"),
		&tls.Config{InsecureSkipVerify: true, NextProtos: []string{"ntske/1"}, MinVersion: tls.VersionTLS13})
	if err != nil {
		note("ntske dial: " + err.Error())
		return false
	}
	defer conn.Close()
	conn.SetDeadline(time.Now().Add(readLimit))
	// in pieces, to exercise the record reader across reads
	for len(stream) > 0 {
		n := min(len(stream), 7)
		if _, err := conn.Write(stream[:n]); err != nil {
			break
		}
		stream = stream[n:]
	}
	conn.CloseWrite()
	var data ntske.Data
	err = ntske.ReadData(context.Background(), discardLog, bufio.NewReader(conn), &data)
	if !wantCookies {
		return true
	}
	return err == nil && len(data.Cookie) > 0
}

func (e *netEnv) runNTSKEServer(a []val) string {
	e.keExchange(a[0].b, false)
	ok := e.keExchange(ntskeRequest(), true)
	return lib.V("1", lib.L(lib.Bool(ok)))
}

// ---- srv.kestall: connections to the NTS-KE port that stall before or inside the TLS handshake ----

// clientHello is the first flight a TLS client writes (captured from crypto/tls over a pipe).
func clientHello() []byte {
	c1, c2 := net.Pipe()
	defer c1.Close()
	defer c2.Close()
	go func() {
		tc := tls.Client(c1, &tls.Config{InsecureSkipVerify: true, NextProtos: []string{"ntske/1"}, MinVersion: tls.VersionTLS13})
		tc.SetDeadline(time.Now().Add(2 * time.Second))
		tc.Handshake()
	}()
	buf := make([]byte, 4096)
	c2.SetReadDeadline(time.Now().Add(2 * time.Second))
	n, _ := c2.Read(buf)
	return clone(buf[:n])
}

// args: number of connections, number of ClientHello bytes each sends (-1: the raw bytes instead),
// raw bytes.  The connections stay open while the sentinel exchange runs.
func (e *netEnv) runKEStall(a []val) string {
	var prefix []byte
	if a[1].z >= 0 {
		h := clientHello()
		prefix = h[:min(int(a[1].z), len(h))]
	} else {
		prefix = a[2].b
	}
	var conns []net.Conn
	for i := int64(0); i < a[0].z; i++ {
		d := &net.Dialer{Timeout: 5 * time.Second, LocalAddr: &net.TCPAddr{IP: e.peerIP}}
		c, err := d.Dial("tcp", net.JoinHostPort(e.srvIP.String(), "4460"))
		if err != nil {
			note("kestall dial: " + err.Error())
			break
		}
		if len(prefix) > 0 {
			c.Write(prefix)
		}
		conns = append(conns, c)
	}
	time.Sleep(20 * time.Millisecond)
	ok := e.keExchange(ntskeRequest(), true)
	for _, c := range conns {
		c.Close()
	}
	return lib.V("1", lib.L(lib.Bool(ok)))
}

// ---- srv.quic: datagrams to the QUIC-over-SCION socket of the NTS-KE server ----

func (e *netEnv) quicSentinel() bool {
	f := &ntske.Fetcher{Log: discardLog}
	f.TLSConfig = tls.Config{InsecureSkipVerify: true, NextProtos: []string{"ntske/1"}, MinVersion: tls.VersionTLS13, ServerName: "c08"}
	f.QUIC.Enabled = true
	f.QUIC.LocalAddr = udp.UDPAddr{IA: addr.IA(localIA), Host: &net.UDPAddr{IP: e.peerIP}}
	f.QUIC.RemoteAddr = udp.UDPAddr{IA: addr.IA(localIA), Host: &net.UDPAddr{IP: e.srvIP, Port: kePortSCION}}
	res := make(chan bool, 1)
	go func() {
		defer func() {
			if recover() != nil {
				res <- false
			}
		}()
		ctx, cancel := context.WithTimeout(context.Background(), readLimit)
		defer cancel()
		d, err := f.FetchData(ctx)
		if err != nil {
			note("quic sentinel: " + err.Error())
		}
		res <- err == nil && len(d.Cookie) > 0
	}()
	select {
	case ok := <-res:
		return ok
	case <-time.After(readLimit + 5*time.Second):
		return false
	}
}

func (e *netEnv) runQUIC(a []val) string {
	dst := &net.UDPAddr{IP: e.srvIP, Port: kePortSCION}
	for _, d := range a[0].l {
		e.sock.WriteToUDP(d.b, dst)
	}
	time.Sleep(50 * time.Millisecond)
	ok := e.quicSentinel()
	return lib.V("1", lib.L(lib.Bool(ok)))
}

// lost counts, per kind, the cases in which a sentinel went unanswered; after three of them the
// remaining cases of the kind are not run (every one would wait for its time limit again)
var lost = map[string]int{}

func runNet(j job) (string, bool) {
	outs, ok := runNet1(j)
	if ok && sentinelLost(j.kind, outs) {
		lost[j.kind]++
	}
	return outs, ok
}

func sentinelLost(kind, outs string) bool {
	switch kind {
	case "srv.ip":
		// 1 [[replied len sentinel] ...] nts-sentinel
		return strings.Contains(outs, " 0]") || strings.HasSuffix(outs, " 0")
	case "srv.csptp", "cli.csptp":
		return strings.HasSuffix(outs, " 0")
	}
	// 1 [sentinel ...]
	i := strings.Index(outs, "[")
	return i >= 0 && strings.Contains(outs[i:], "0")
}

func runNet1(j job) (string, bool) {
	switch j.kind {
	case "srv.ip", "srv.scion", "srv.scionnts", "srv.scionauth", "srv.scmp", "srv.csptp", "srv.ntske", "srv.kestall", "srv.quic", "srv.quicke", "cli.scionnts", "cli.overlap", "cli.ipopt", "cli.kestall", "cli.kestallquic", "cli.kefdleak", "srv.scionnodaemon", "srv.dispatcher", "srv.kefd", "srv.scionpar", "srv.ip6", "cli.ip6", "cli.ip", "cli.nts", "cli.scion", "cli.csptp":
	default:
		return "", false
	}
	e := setupNet()
	a := parseVals(j.args)
	switch j.kind {
	case "srv.ip":
		return e.runIP(a), true
	case "srv.scion", "srv.scionnts", "srv.scionauth", "srv.scmp":
		return e.runSCION(a), true
	case "srv.quicke":
		return e.runQUICKE(a), true
	case "srv.scionnodaemon":
		return e.runNoDaemon(a), true
	case "srv.ip6":
		return e.runIP6(a), true
	case "srv.dispatcher":
		return e.runDispatcher(a), true
	case "srv.kefd":
		return e.runKEFD(a), true
	case "srv.scionpar":
		return e.runSCIONPar(a), true
	case "srv.csptp":
		return e.runCSPTPServer(a), true
	case "srv.ntske":
		return e.runNTSKEServer(a), true
	case "srv.kestall":
		return e.runKEStall(a), true
	case "srv.quic":
		return e.runQUIC(a), true
	}
	return runClient(e, j, a), true
}

var _ = bytes.Equal
