//go:build c08cov

package main

import (
	"os"
	"runtime/coverage"
)

func init() {
	covHook = func() {
		d := os.Getenv("C08_COVDIR")
		if d == "" {
			return
		}
		if err := coverage.WriteMetaDir(d); err != nil {
			note("cov meta: " + err.Error())
		}
		if err := coverage.WriteCountersDir(d); err != nil {
			note("cov counters: " + err.Error())
		}
	}
}
