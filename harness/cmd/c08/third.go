package main

// Third round: a listener process in the production default (no SCION daemon, no mock keys), and
// NTS-KE servers that complete the TLS handshake and then stall.

import (
	"bufio"
	"context"
	"crypto/tls"
	"fmt"
	"log/slog"
	"net"
	"os"
	"os/exec"
	"strings"
	"sync"
	"time"

	"github.com/scionproto/scion/pkg/addr"
	"github.com/scionproto/scion/pkg/snet"
	spath "github.com/scionproto/scion/pkg/snet/path"

	"example.com/scion-time/core/client"
	"example.com/scion-time/core/server"
	"example.com/scion-time/core/timebase"
	"example.com/scion-time/net/ntske"
	"example.com/scion-time/net/udp"

	"verifharness/lib"
)

// ---- the auxiliary listener process: what runServer starts when no daemon is configured ----

const listenerMode = "listener"

// listenerMain runs in a process of its own, WITHOUT USE_MOCK_KEYS: StartSCIONServer with an empty
// daemon address (scion.NewDaemonConnector("") is nil) and StartIPServer, as timeservice.go does.
func listenerMain() {
	timebase.RegisterClock(sysClock{})
	provider := ntske.NewProvider()
	ip := ownAddr(8)
	ctx := context.Background()
	log := slog.New(slog.NewTextHandler(os.Stderr, &slog.HandlerOptions{Level: slog.LevelError}))
	server.StartIPServer(ctx, log, &net.UDPAddr{IP: ip, Port: ipPort}, 0, provider)
	server.StartSCIONServer(ctx, log, "", &net.UDPAddr{IP: ip, Port: scionPort}, 0, provider)
	time.Sleep(100 * time.Millisecond)
	fmt.Println("READY")
	// lives until the harness closes its standard input
	buf := make([]byte, 16)
	for {
		if _, err := os.Stdin.Read(buf); err != nil {
			return
		}
	}
}

type auxProc struct {
	cmd   *exec.Cmd
	ip    net.IP
	stdin interface{ Close() error }
	dead  chan struct{}
	tail  *strings.Builder
	mu    sync.Mutex
}

var aux *auxProc

func startAux() (*auxProc, error) {
	exe, err := os.Executable()
	if err != nil {
		return nil, err
	}
	cmd := exec.Command(exe)
	for _, kv := range os.Environ() {
		if strings.HasPrefix(kv, "USE_MOCK_KEYS=") || strings.HasPrefix(kv, childEnv+"=") {
			continue
		}
		cmd.Env = append(cmd.Env, kv)
	}
	cmd.Env = append(cmd.Env, childEnv+"="+listenerMode)
	stdin, err := cmd.StdinPipe()
	if err != nil {
		return nil, err
	}
	stdout, err := cmd.StdoutPipe()
	if err != nil {
		return nil, err
	}
	stderr, err := cmd.StderrPipe()
	if err != nil {
		return nil, err
	}
	if err := cmd.Start(); err != nil {
		return nil, err
	}
	pid := cmd.Process.Pid
	a := &auxProc{cmd: cmd, stdin: stdin, dead: make(chan struct{}), tail: &strings.Builder{},
		ip: net.IPv4(127, 8, byte(pid>>8), byte(pid)).To4()}
	go func() {
		rd := bufio.NewReader(stderr)
		for {
			line, err := rd.ReadString('\n')
			a.mu.Lock()
			if a.tail.Len() < 1500 {
				a.tail.WriteString(line)
			}
			a.mu.Unlock()
			if err != nil {
				return
			}
		}
	}()
	ready := make(chan bool, 1)
	go func() {
		rd := bufio.NewReader(stdout)
		line, _ := rd.ReadString('\n')
		ready <- strings.HasPrefix(line, "READY")
		for {
			if _, err := rd.ReadString('\n'); err != nil {
				return
			}
		}
	}()
	go func() {
		cmd.Wait()
		close(a.dead)
	}()
	select {
	case ok := <-ready:
		if !ok {
			return nil, fmt.Errorf("listener process did not come up")
		}
	case <-time.After(60 * time.Second):
		cmd.Process.Kill()
		return nil, fmt.Errorf("listener process did not come up in time")
	}
	return a, nil
}

func (a *auxProc) alive() bool {
	select {
	case <-a.dead:
		return false
	default:
		return true
	}
}

// srv.scionnodaemon: the datagrams of a history go to the SCION listener of the auxiliary process,
// each followed by a plain NTP sentinel on the same socket; the process must stay alive.
func (e *netEnv) runNoDaemon(a []val) string {
	if aux == nil || !aux.alive() {
		var err error
		aux, err = startAux()
		if err != nil {
			note("srv.scionnodaemon: " + err.Error())
			return "0 []"
		}
	}
	dst := &net.UDPAddr{IP: aux.ip, Port: scionPort}
	var ss []string
	for _, st := range a[0].l {
		s := e.nextSentinel()
		sh := e.baseSpec(scionPort)
		sh.dstRaw = []byte(aux.ip)
		sh.udpSrc = uint16(e.sock.LocalAddr().(*net.UDPAddr).Port)
		spkt, err := buildSCION(sh, s)
		if err != nil {
			panic(err)
		}
		ok := e.exchangeRetry(dst, st.l[1].b, spkt, func(b []byte) bool {
			pl, _, ok := scionPayload(b)
			return ok && e.isSentinelReply(pl)
		}, aux.dead)
		ss = append(ss, lib.Bool(ok))
		if !ok {
			break
		}
	}
	if !aux.alive() {
		aux.mu.Lock()
		t := aux.tail.String()
		aux.mu.Unlock()
		if len(t) > 400 {
			t = t[:400]
		}
		note("listener process without SCION daemon died: " + t)
		return lib.V("0", lib.L(ss...))
	}
	return lib.V("1", lib.L(ss...))
}

// exchangeRetry is exchange with the sentinel repeated up to three times (a lost datagram on a
// loaded machine is not a violation) and an early end when the process under test is gone.
func (e *netEnv) exchangeRetry(dst *net.UDPAddr, pkt, sentinel []byte, isSentinel func([]byte) bool, dead chan struct{}) bool {
	c := e.sock
	if pkt != nil {
		c.WriteToUDP(pkt, dst)
	}
	buf := make([]byte, 65536)
	for try := 0; try < 3; try++ {
		c.WriteToUDP(sentinel, dst)
		deadline := time.Now().Add(readLimit / 3)
		for {
			select {
			case <-dead:
				return false
			default:
			}
			c.SetReadDeadline(time.Now().Add(200 * time.Millisecond))
			n, _, err := c.ReadFromUDP(buf)
			if err != nil {
				if time.Now().After(deadline) {
					break
				}
				continue
			}
			if isSentinel(buf[:n]) {
				return true
			}
		}
	}
	return false
}

// ---- cli.kestall: an NTS-KE server that completes the handshake and then stalls ----

// args: stall mode (1 sends nothing, 2 sends half a record, 3 trickles a byte per second),
// client (0 IP, 1 SCION).  Observed: the call returns within its 500 ms context plus a margin; a
// later call on the same client, with the server answering properly again, succeeds.
func runClientKEStall(e *netEnv, a []val) string {
	p := newNTSPeer(e)
	defer p.ln.Close()
	defer p.ntp.conn.Close()
	release := make(chan struct{})
	defer close(release)
	p.mu.Lock()
	p.stall, p.release = int(a[0].z), release
	p.keLens = []int64{124, 124, 124, 124, 124, 124, 124, 124}
	p.mu.Unlock()
	_, kePort, _ := net.SplitHostPort(p.ln.Addr().String())
	tcfg := func() tls.Config {
		return tls.Config{InsecureSkipVerify: true, ServerName: e.peerIP.String(), MinVersion: tls.VersionTLS13}
	}
	var measure func(ctx context.Context) error
	var sconn *net.UDPConn
	if a[1].z == 0 {
		c := &client.IPClient{Log: discardLog}
		c.Auth.Enabled = true
		c.Auth.NTSKEFetcher.Log = discardLog
		c.Auth.NTSKEFetcher.TLSConfig = tcfg()
		c.Auth.NTSKEFetcher.Port = kePort
		measure = func(ctx context.Context) error {
			_, _, err := client.MeasureClockOffsetIP(ctx, discardLog, c, &net.UDPAddr{IP: e.peerIP}, &net.UDPAddr{IP: e.peerIP, Port: p.ntp.port()})
			return err
		}
	} else {
		var err error
		sconn, err = net.ListenUDP("udp4", &net.UDPAddr{IP: e.peerIP})
		if err != nil {
			panic(err)
		}
		defer sconn.Close()
		port := sconn.LocalAddr().(*net.UDPAddr).Port
		p.port = port
		c := &client.SCIONClient{Log: discardLog}
		c.Auth.NTSEnabled = true
		c.Auth.NTSKEFetcher.Log = discardLog
		c.Auth.NTSKEFetcher.TLSConfig = tcfg()
		c.Auth.NTSKEFetcher.Port = kePort
		ia := addr.IA(localIA)
		measure = func(ctx context.Context) error {
			local := udp.UDPAddr{IA: ia, Host: &net.UDPAddr{IP: e.peerIP}}
			remote := udp.UDPAddr{IA: ia, Host: &net.UDPAddr{IP: e.peerIP, Port: port}}
			ps := []snet.Path{spath.Path{Src: ia, Dst: ia, DataplanePath: spath.Empty{}, NextHop: &net.UDPAddr{IP: e.peerIP, Port: port}}}
			_, _, err := client.MeasureClockOffsetSCION(ctx, discardLog, []*client.SCIONClient{c}, local, remote, ps)
			return err
		}
	}
	// bounded waits a call out: its context plus a margin, never longer
	bounded := func(limit, margin time.Duration) (error, bool) {
		res := make(chan error, 1)
		ctx, cancel := context.WithTimeout(context.Background(), limit)
		go func() {
			defer cancel()
			res <- measure(ctx)
		}()
		select {
		case err := <-res:
			return err, true
		case <-time.After(limit + margin):
			return nil, false
		}
	}
	_, r1 := bounded(500*time.Millisecond, 10*time.Second)
	// the server answers properly from now on
	p.mu.Lock()
	p.stall = 0
	p.mu.Unlock()
	r2 := false
	for try := 0; try < 3 && !r2; try++ {
		done := make(chan struct{})
		if sconn == nil {
			go p.ntp.serve(nil, func(req []byte) []byte { return p.ntsReply(req, 0, []int64{124}) }, done)
		} else {
			go func() {
				defer close(done)
				buf := make([]byte, 65536)
				sconn.SetReadDeadline(time.Now().Add(callLimit))
				n, src, err := sconn.ReadFromUDP(buf)
				if err != nil {
					return
				}
				pl, srcPort, ok := scionPayload(buf[:n])
				if !ok || len(pl) < 48 {
					return
				}
				h := &scionSpec{dstIA: localIA, srcIA: localIA, dstRaw: []byte(e.peerIP.To4()), srcRaw: []byte(e.peerIP.To4()),
					udpSrc: uint16(p.port), udpDst: srcPort}
				if d, err := buildSCION(h, p.ntsReply(pl, 0, []int64{124})); err == nil {
					sconn.WriteToUDP(d, src)
				}
			}()
		}
		err, ret := bounded(4*time.Second, 6*time.Second)
		if sconn == nil {
			waitDone(done, p.ntp.conn)
		} else {
			waitDone(done, sconn)
		}
		r2 = ret && err == nil
		if !ret {
			break // the client is stuck: no point in trying again
		}
	}
	return lib.V("1", lib.L(lib.Bool(r1), lib.Bool(r2)))
}
