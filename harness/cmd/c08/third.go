package main

// Third round: a listener process in the production default (no SCION daemon, no mock keys), and
// NTS-KE servers that complete the TLS handshake and then stall.

import (
	"bufio"
	"context"
	"crypto/tls"
	"encoding/binary"
	"fmt"
	"log/slog"
	"net"
	"os"
	"os/exec"
	"strconv"
	"strings"
	"sync"
	"syscall"
	"time"

	"github.com/google/gopacket"
	"github.com/scionproto/scion/pkg/addr"
	"github.com/scionproto/scion/pkg/slayers"
	"github.com/scionproto/scion/pkg/snet"
	spath "github.com/scionproto/scion/pkg/snet/path"

	"example.com/scion-time/core/client"
	"example.com/scion-time/core/server"
	"example.com/scion-time/core/timebase"
	"example.com/scion-time/net/ntske"
	"example.com/scion-time/net/scion"
	"example.com/scion-time/net/udp"

	"verifharness/lib"
)

// ---- the auxiliary listener process: what runServer starts when no daemon is configured ----

const listenerMode = "listener"
const dispatcherMode = "dispatcher"

// listenerMain runs in a process of its own, WITHOUT USE_MOCK_KEYS: StartSCIONServer with an empty
// daemon address (scion.NewDaemonConnector("") is nil) and StartIPServer, as timeservice.go does.
func listenerMain() {
	timebase.RegisterClock(sysClock{})
	provider := ntske.NewProvider()
	ip := ownAddr(8)
	ctx := context.Background()
	log := slog.New(slog.NewTextHandler(os.Stderr, &slog.HandlerOptions{Level: slog.LevelError}))
	// the IP listener of this process is the IPv6 one (a process can start only one: metrics)
	server.StartIPServer(ctx, log, &net.UDPAddr{IP: net.IPv6loopback, Port: port6(os.Getpid())}, 0, provider)
	server.StartSCIONServer(ctx, log, "", &net.UDPAddr{IP: ip, Port: scionPort}, 0, provider)
	time.Sleep(100 * time.Millisecond)
	fmt.Println("READY")
	// lives until the harness closes its standard input
	buf := make([]byte, 16)
	for {
		if _, err := os.Stdin.Read(buf); err != nil {
			return
		}
	}
}

// port6 is the port of the auxiliary process' IPv6 listener on ::1 (there is only one ::1, so
// concurrent checks are kept apart by the port)
func port6(pid int) int { return 21000 + pid%20000 }

// dispatcherMain is the process of a client-mode service: only the end-host dispatcher runs, started
// the way runClient starts it (local port 0; no DRKey fetcher, no key provider).
func dispatcherMain() {
	timebase.RegisterClock(sysClock{})
	log := slog.New(slog.NewTextHandler(os.Stderr, &slog.HandlerOptions{Level: slog.LevelError}))
	server.StartSCIONDispatcher(context.Background(), log, &net.UDPAddr{IP: ownAddr(8), Port: 0})
	time.Sleep(100 * time.Millisecond)
	fmt.Println("READY")
	buf := make([]byte, 16)
	for {
		if _, err := os.Stdin.Read(buf); err != nil {
			return
		}
	}
}

const kefdClientMode = "kefdclient"

func countFDs() int {
	ents, err := os.ReadDir("/proc/self/fd")
	if err != nil {
		return -1
	}
	return len(ents)
}

// kefdClientMain is a client process with few file descriptors: n key exchanges that the peer
// refuses after the handshake, then a measurement that must succeed.  It reports the number of
// open descriptors before and after the refused exchanges.
func kefdClientMain() {
	ip := net.ParseIP(os.Getenv("C08_PEER_IP")).To4()
	kePort, _ := strconv.Atoi(os.Getenv("C08_KE_PORT"))
	n, _ := strconv.Atoi(os.Getenv("C08_N"))
	timebase.RegisterClock(sysClock{})
	quiet := slog.New(slog.DiscardHandler)
	c := &client.SCIONClient{Log: quiet}
	c.Auth.NTSEnabled = true
	f := &c.Auth.NTSKEFetcher
	f.Log = quiet
	ia := addr.IA(localIA)
	if os.Getenv("C08_QUIC") == "1" {
		f.TLSConfig = tls.Config{InsecureSkipVerify: true, ServerName: "c08", MinVersion: tls.VersionTLS13}
		f.QUIC.Enabled = true
		f.QUIC.LocalAddr = udp.UDPAddr{IA: ia, Host: &net.UDPAddr{IP: ip}}
		f.QUIC.RemoteAddr = udp.UDPAddr{IA: ia, Host: &net.UDPAddr{IP: ip, Port: kePort}}
	} else {
		f.TLSConfig = tls.Config{InsecureSkipVerify: true, ServerName: ip.String(), MinVersion: tls.VersionTLS13}
		f.Port = strconv.Itoa(kePort)
	}
	measure := func(limit time.Duration) error {
		ctx, cancel := context.WithTimeout(context.Background(), limit)
		defer cancel()
		local := udp.UDPAddr{IA: ia, Host: &net.UDPAddr{IP: ip}}
		remote := udp.UDPAddr{IA: ia, Host: &net.UDPAddr{IP: ip, Port: 9}}
		ps := []snet.Path{spath.Path{Src: ia, Dst: ia, DataplanePath: spath.Empty{}, NextHop: &net.UDPAddr{IP: ip, Port: 9}}}
		_, _, err := client.MeasureClockOffsetSCION(ctx, quiet, []*client.SCIONClient{c}, local, remote, ps)
		return err
	}
	lim := syscall.Rlimit{Cur: 64, Max: 64}
	syscall.Setrlimit(syscall.RLIMIT_NOFILE, &lim)
	before := countFDs()
	var last error
	for i := 0; i < n; i++ {
		last = measure(3 * time.Second)
	}
	after := countFDs()
	ok := false
	var err error
	for try := 0; try < 3 && !ok; try++ {
		err = measure(5 * time.Second)
		ok = err == nil
	}
	fmt.Printf("RESULT %d %d %v\n", before, after, ok)
	fmt.Fprintf(os.Stderr, "last refused: %v; final: %v\n", last, err)
}

// cli.kefdleak: args = transport (1 QUIC, 0 TLS), how the peer refuses (5 error record, 6 unknown
// critical record, 7 truncated stream), number of refused exchanges.  Observed: the measurement
// after the refused exchanges succeeds; the number of open descriptors of the client process grew
// by at most 8.
func runKEFDLeak(e *netEnv, a []val) string {
	nts := newNTSPeer(e)
	defer nts.ln.Close()
	defer nts.ntp.conn.Close()
	release := make(chan struct{})
	defer close(release)
	sconn, err := net.ListenUDP("udp4", &net.UDPAddr{IP: e.peerIP})
	if err != nil {
		panic(err)
	}
	defer sconn.Close()
	port := sconn.LocalAddr().(*net.UDPAddr).Port
	nts.port = port
	n := int(a[2].z)
	var kePort int
	if a[0].z == 1 {
		kp := newQUICKEPeer(e, nts, port, release)
		defer kp.ln.Close()
		kp.refuse, kp.refuseAs = n, int(a[1].z)
		kePort = kp.port
	} else {
		nts.mu.Lock()
		nts.refuse, nts.refuseAs = n, int(a[1].z)
		nts.keLens = []int64{124, 124, 124, 124, 124, 124, 124, 124}
		nts.mu.Unlock()
		_, ps, _ := net.SplitHostPort(nts.ln.Addr().String())
		kePort, _ = strconv.Atoi(ps)
	}
	// the scripted SCION/NTS peer answers every request properly
	stop := make(chan struct{})
	go func() {
		buf := make([]byte, 65536)
		for {
			select {
			case <-stop:
				return
			default:
			}
			sconn.SetReadDeadline(time.Now().Add(200 * time.Millisecond))
			m, src, err := sconn.ReadFromUDP(buf)
			if err != nil {
				continue
			}
			pl, srcPort, ok := scionPayload(buf[:m])
			if !ok || len(pl) < 48 {
				continue
			}
			h := &scionSpec{dstIA: localIA, srcIA: localIA, dstRaw: []byte(e.peerIP.To4()), srcRaw: []byte(e.peerIP.To4()),
				udpSrc: uint16(port), udpDst: srcPort}
			if d, err := buildSCION(h, nts.ntsReply(pl, 0, []int64{124})); err == nil {
				sconn.WriteToUDP(d, src)
			}
		}
	}()
	defer close(stop)
	exe, _ := os.Executable()
	cmd := exec.Command(exe)
	for _, kv := range os.Environ() {
		if !strings.HasPrefix(kv, childEnv+"=") {
			cmd.Env = append(cmd.Env, kv)
		}
	}
	cmd.Env = append(cmd.Env, childEnv+"="+kefdClientMode, "C08_PEER_IP="+e.peerIP.String(),
		fmt.Sprintf("C08_KE_PORT=%d", kePort), fmt.Sprintf("C08_N=%d", n), fmt.Sprintf("C08_QUIC=%d", a[0].z))
	var errb strings.Builder
	cmd.Stderr = &errb
	outp, err := cmd.StdoutPipe()
	if err != nil {
		panic(err)
	}
	if err := cmd.Start(); err != nil {
		note("cli.kefdleak: " + err.Error())
		return "0 []"
	}
	res := make(chan string, 1)
	go func() {
		rd := bufio.NewReader(outp)
		for {
			line, err := rd.ReadString('\n')
			if strings.HasPrefix(line, "RESULT ") {
				res <- strings.TrimSpace(line)
				return
			}
			if err != nil {
				res <- ""
				return
			}
		}
	}()
	var line string
	select {
	case line = <-res:
	case <-time.After(240 * time.Second):
		cmd.Process.Kill()
	}
	werr := cmd.Wait()
	var before, after int
	var okS string
	fmt.Sscanf(line, "RESULT %d %d %s", &before, &after, &okS)
	tail := errb.String()
	if len(tail) > 300 {
		tail = tail[len(tail)-300:]
	}
	if debugOn || line == "" || okS != "true" || after < 0 || after-before > 8 {
		note(fmt.Sprintf("cli.kefdleak quic=%d kind=%d n=%d: %q (descriptors %d -> %d) exit=%v: %s", a[0].z, a[1].z, n, line, before, after, werr, tail))
	}
	if line == "" {
		return "0 []"
	}
	return lib.V("1", lib.L(lib.Bool(okS == "true"), lib.Bool(after >= 0 && after-before <= 8)))
}

const kefdMode = "kefd"

// kefdMain is a process that runs the NTS-KE server over TLS with few file descriptors to spare.
func kefdMain() {
	timebase.RegisterClock(sysClock{})
	log := slog.New(slog.NewTextHandler(os.Stderr, &slog.HandlerOptions{Level: slog.LevelError}))
	provider := ntske.NewProvider()
	cfg := &tls.Config{Certificates: []tls.Certificate{selfSigned()}, NextProtos: []string{"ntske/1"}, MinVersion: tls.VersionTLS13}
	server.StartNTSKEServerIP(context.Background(), log, ownAddr(8), ipPort, cfg, provider)
	time.Sleep(100 * time.Millisecond)
	lim := syscall.Rlimit{Cur: 64, Max: 64}
	if err := syscall.Setrlimit(syscall.RLIMIT_NOFILE, &lim); err != nil {
		fmt.Fprintln(os.Stderr, "setrlimit:", err)
	}
	fmt.Println("READY")
	buf := make([]byte, 16)
	for {
		if _, err := os.Stdin.Read(buf); err != nil {
			return
		}
	}
}

var auxKE *auxProc

// srv.kefd: args = number of idle TCP connections, bytes each of them sends.  They are opened
// (more than the server process has descriptors, so that its accepts fail), held, closed again;
// then a complete key exchange must succeed.
func (e *netEnv) runKEFD(a []val) string {
	if auxKE == nil || !auxKE.alive() {
		var err error
		auxKE, err = startAuxMode(kefdMode)
		if err != nil {
			note("srv.kefd: " + err.Error())
			return "0 []"
		}
	}
	var conns []net.Conn
	for i := int64(0); i < a[0].z; i++ {
		d := &net.Dialer{Timeout: 2 * time.Second, LocalAddr: &net.TCPAddr{IP: e.peerIP}}
		c, err := d.Dial("tcp", net.JoinHostPort(auxKE.ip.String(), "4460"))
		if err != nil {
			break
		}
		if len(a[1].b) > 0 {
			c.Write(a[1].b)
		}
		conns = append(conns, c)
	}
	time.Sleep(300 * time.Millisecond)
	for _, c := range conns {
		c.Close()
	}
	ok := false
	for try := 0; try < 4 && !ok && auxKE.alive(); try++ {
		time.Sleep(time.Duration(200*(try+1)) * time.Millisecond)
		ok = e.keExchangeTo(auxKE.ip, ntskeRequest(), true)
	}
	if !auxKE.alive() {
		return lib.V("0", lib.L(lib.Bool(ok)))
	}
	return lib.V("1", lib.L(lib.Bool(ok)))
}

// srv.scionpar: args = sockets, datagrams per socket.  All sockets send at once SCION/UDP requests
// with an authenticator option of the time service's SPI, every datagram claiming another source
// AS (each makes the listener fetch a key for an AS it has not seen); then the sentinels.
func (e *netEnv) runSCIONPar(a []val) string {
	nsock, per := int(a[0].z), int(a[1].z)
	dst := &net.UDPAddr{IP: e.srvIP, Port: scionPort}
	var wg sync.WaitGroup
	for i := 0; i < nsock; i++ {
		wg.Add(1)
		go func() {
			defer wg.Done()
			c, err := net.ListenUDP("udp4", &net.UDPAddr{IP: e.peerIP})
			if err != nil {
				return
			}
			defer c.Close()
			var pkts [][]byte
			for k := 0; k < per; k++ {
				h := e.baseSpec(scionPort)
				h.udpSrc = uint16(c.LocalAddr().(*net.UDPAddr).Port)
				h.srcIA = uint64(0x0001ff0000100000) + uint64(i)<<8 + uint64(k) + uint64(a[2].z)<<20
				req := make([]byte, 48)
				req[0] = 0x23
				if b, err := buildSCIONAuth(h, req, 0x0003007b, mockKey, k%2); err == nil {
					pkts = append(pkts, b)
				}
			}
			for _, b := range pkts {
				c.WriteToUDP(b, dst)
			}
			// whatever comes back is read and dropped
			buf := make([]byte, 4096)
			c.SetReadDeadline(time.Now().Add(300 * time.Millisecond))
			for {
				if _, _, err := c.ReadFromUDP(buf); err != nil {
					break
				}
			}
		}()
	}
	wg.Wait()
	var ss []string
	s := e.nextSentinel()
	sh := e.baseSpec(scionPort)
	sh.udpSrc = uint16(e.sock.LocalAddr().(*net.UDPAddr).Port)
	spkt, err := buildSCION(sh, s)
	if err != nil {
		panic(err)
	}
	_, ok := e.exchange(dst, nil, spkt, func(b []byte) bool {
		pl, _, ok := scionPayload(b)
		return ok && e.isSentinelReply(pl)
	})
	ss = append(ss, lib.Bool(ok))
	if ok {
		ss = append(ss, e.scionFinalSentinels()...)
	}
	return lib.V("1", lib.L(ss...))
}

var auxDisp *auxProc

// srv.dispatcher: datagrams to the dispatcher process' end-host port, each followed by a
// forwarding sentinel: a SCION/UDP packet for one of the harness' own sockets, which the
// dispatcher must pass on to it.
func (e *netEnv) runDispatcher(a []val) string {
	if auxDisp == nil || !auxDisp.alive() {
		var err error
		auxDisp, err = startAuxMode(dispatcherMode)
		if err != nil {
			note("srv.dispatcher: " + err.Error())
			return "0 []"
		}
	}
	dst := &net.UDPAddr{IP: auxDisp.ip, Port: endhostPort}
	sockPort := uint16(e.sock.LocalAddr().(*net.UDPAddr).Port)
	var ss []string
	for _, d := range a[0].l {
		s := e.nextSentinel()
		sh := e.baseSpec(sockPort)
		sh.dstRaw = []byte(e.peerIP.To4())
		sh.srcRaw = []byte(e.srvIP.To4())
		sh.udpSrc = 40001
		spkt, err := buildSCION(sh, s)
		if err != nil {
			panic(err)
		}
		ok := e.exchangeRetry(e.sock, dst, d.b, spkt, func(b []byte) bool {
			pl, _, ok := scionPayload(b)
			return ok && len(pl) >= 48 && string(pl[40:48]) == string(s[40:48])
		}, auxDisp.dead)
		ss = append(ss, lib.Bool(ok))
		if !ok {
			break
		}
	}
	if !auxDisp.alive() {
		auxDisp.mu.Lock()
		t := auxDisp.tail.String()
		auxDisp.mu.Unlock()
		if len(t) > 400 {
			t = t[:400]
		}
		note("dispatcher process died: " + t)
		return lib.V("0", lib.L(ss...))
	}
	return lib.V("1", lib.L(ss...))
}

type auxProc struct {
	cmd   *exec.Cmd
	ip    net.IP
	stdin interface{ Close() error }
	dead  chan struct{}
	tail  *strings.Builder
	mu    sync.Mutex
}

var aux *auxProc

func startAux() (*auxProc, error) { return startAuxMode(listenerMode) }

func startAuxMode(mode string) (*auxProc, error) {
	exe, err := os.Executable()
	if err != nil {
		return nil, err
	}
	cmd := exec.Command(exe)
	for _, kv := range os.Environ() {
		if strings.HasPrefix(kv, "USE_MOCK_KEYS=") || strings.HasPrefix(kv, childEnv+"=") {
			continue
		}
		cmd.Env = append(cmd.Env, kv)
	}
	cmd.Env = append(cmd.Env, childEnv+"="+mode)
	stdin, err := cmd.StdinPipe()
	if err != nil {
		return nil, err
	}
	stdout, err := cmd.StdoutPipe()
	if err != nil {
		return nil, err
	}
	stderr, err := cmd.StderrPipe()
	if err != nil {
		return nil, err
	}
	if err := cmd.Start(); err != nil {
		return nil, err
	}
	pid := cmd.Process.Pid
	a := &auxProc{cmd: cmd, stdin: stdin, dead: make(chan struct{}), tail: &strings.Builder{},
		ip: net.IPv4(127, 8, byte(pid>>8), byte(pid)).To4()}
	go func() {
		rd := bufio.NewReader(stderr)
		for {
			line, err := rd.ReadString('\n')
			a.mu.Lock()
			if a.tail.Len() < 1500 {
				a.tail.WriteString(line)
			}
			a.mu.Unlock()
			if err != nil {
				return
			}
		}
	}()
	ready := make(chan bool, 1)
	go func() {
		rd := bufio.NewReader(stdout)
		line, _ := rd.ReadString('\n')
		ready <- strings.HasPrefix(line, "READY")
		for {
			if _, err := rd.ReadString('\n'); err != nil {
				return
			}
		}
	}()
	go func() {
		cmd.Wait()
		close(a.dead)
	}()
	select {
	case ok := <-ready:
		if !ok {
			return nil, fmt.Errorf("listener process did not come up")
		}
	case <-time.After(60 * time.Second):
		cmd.Process.Kill()
		return nil, fmt.Errorf("listener process did not come up in time")
	}
	return a, nil
}

func (a *auxProc) alive() bool {
	select {
	case <-a.dead:
		return false
	default:
		return true
	}
}

// srv.scionnodaemon: the datagrams of a history go to the SCION listener of the auxiliary process,
// each followed by a plain NTP sentinel on the same socket; the process must stay alive.
func (e *netEnv) runNoDaemon(a []val) string {
	if aux == nil || !aux.alive() {
		var err error
		aux, err = startAux()
		if err != nil {
			note("srv.scionnodaemon: " + err.Error())
			return "0 []"
		}
	}
	dst := &net.UDPAddr{IP: aux.ip, Port: scionPort}
	var ss []string
	for _, st := range a[0].l {
		s := e.nextSentinel()
		sh := e.baseSpec(scionPort)
		sh.dstRaw = []byte(aux.ip)
		sh.udpSrc = uint16(e.sock.LocalAddr().(*net.UDPAddr).Port)
		spkt, err := buildSCION(sh, s)
		if err != nil {
			panic(err)
		}
		ok := e.exchangeRetry(e.sock, dst, st.l[1].b, spkt, func(b []byte) bool {
			pl, _, ok := scionPayload(b)
			return ok && e.isSentinelReply(pl)
		}, aux.dead)
		ss = append(ss, lib.Bool(ok))
		if !ok {
			break
		}
	}
	if !aux.alive() {
		aux.mu.Lock()
		t := aux.tail.String()
		aux.mu.Unlock()
		if len(t) > 400 {
			t = t[:400]
		}
		note("listener process without SCION daemon died: " + t)
		return lib.V("0", lib.L(ss...))
	}
	return lib.V("1", lib.L(ss...))
}

// exchangeRetry is exchange with the sentinel repeated up to three times (a lost datagram on a
// loaded machine is not a violation) and an early end when the process under test is gone.
func (e *netEnv) exchangeRetry(c *net.UDPConn, dst *net.UDPAddr, pkt, sentinel []byte, isSentinel func([]byte) bool, dead chan struct{}) bool {
	if pkt != nil {
		c.WriteToUDP(pkt, dst)
	}
	buf := make([]byte, 65536)
	for try := 0; try < 3; try++ {
		c.WriteToUDP(sentinel, dst)
		deadline := time.Now().Add(readLimit / 3)
		for {
			select {
			case <-dead:
				return false
			default:
			}
			c.SetReadDeadline(time.Now().Add(200 * time.Millisecond))
			n, _, err := c.ReadFromUDP(buf)
			if err != nil {
				if time.Now().After(deadline) {
					break
				}
				continue
			}
			if isSentinel(buf[:n]) {
				return true
			}
		}
	}
	return false
}

// srv.ip6: datagrams to the IP listener of the auxiliary process on [::1], from a [::1] socket,
// each followed by a plain NTP sentinel.
func (e *netEnv) runIP6(a []val) string {
	if aux == nil || !aux.alive() {
		var err error
		aux, err = startAux()
		if err != nil {
			note("srv.ip6: " + err.Error())
			return "0 []"
		}
	}
	c, err := net.ListenUDP("udp6", &net.UDPAddr{IP: net.IPv6loopback})
	if err != nil {
		note("srv.ip6: " + err.Error())
		return "0 []"
	}
	defer c.Close()
	dst := &net.UDPAddr{IP: net.IPv6loopback, Port: port6(aux.cmd.Process.Pid)}
	var ss []string
	for _, d := range a[0].l {
		s := e.nextSentinel()
		ok := e.exchangeRetry(c, dst, d.b, s, e.isSentinelReply, aux.dead)
		ss = append(ss, lib.Bool(ok))
		if !ok {
			break
		}
	}
	if !aux.alive() {
		return lib.V("0", lib.L(ss...))
	}
	return lib.V("1", lib.L(ss...))
}

// ---- cli.kestall: an NTS-KE server that completes the handshake and then stalls ----

// args: stall mode (1 sends nothing, 2 sends half a record, 3 trickles a byte per second),
// client (0 IP, 1 SCION).  Observed: the call returns within its 500 ms context plus a margin; a
// later call on the same client, with the server answering properly again, succeeds.
func runClientKEStall(e *netEnv, a []val) string {
	p := newNTSPeer(e)
	defer p.ln.Close()
	defer p.ntp.conn.Close()
	release := make(chan struct{})
	defer close(release)
	p.mu.Lock()
	p.stall, p.release = int(a[0].z), release
	p.keLens = []int64{124, 124, 124, 124, 124, 124, 124, 124}
	p.mu.Unlock()
	_, kePort, _ := net.SplitHostPort(p.ln.Addr().String())
	tcfg := func() tls.Config {
		return tls.Config{InsecureSkipVerify: true, ServerName: e.peerIP.String(), MinVersion: tls.VersionTLS13}
	}
	var measure func(ctx context.Context) error
	var sconn *net.UDPConn
	if a[1].z == 0 {
		c := &client.IPClient{Log: discardLog}
		c.Auth.Enabled = true
		c.Auth.NTSKEFetcher.Log = discardLog
		c.Auth.NTSKEFetcher.TLSConfig = tcfg()
		c.Auth.NTSKEFetcher.Port = kePort
		measure = func(ctx context.Context) error {
			_, _, err := client.MeasureClockOffsetIP(ctx, discardLog, c, &net.UDPAddr{IP: e.peerIP}, &net.UDPAddr{IP: e.peerIP, Port: p.ntp.port()})
			return err
		}
	} else {
		var err error
		sconn, err = net.ListenUDP("udp4", &net.UDPAddr{IP: e.peerIP})
		if err != nil {
			panic(err)
		}
		defer sconn.Close()
		port := sconn.LocalAddr().(*net.UDPAddr).Port
		p.port = port
		c := &client.SCIONClient{Log: discardLog}
		c.Auth.NTSEnabled = true
		c.Auth.NTSKEFetcher.Log = discardLog
		c.Auth.NTSKEFetcher.TLSConfig = tcfg()
		c.Auth.NTSKEFetcher.Port = kePort
		ia := addr.IA(localIA)
		measure = func(ctx context.Context) error {
			local := udp.UDPAddr{IA: ia, Host: &net.UDPAddr{IP: e.peerIP}}
			remote := udp.UDPAddr{IA: ia, Host: &net.UDPAddr{IP: e.peerIP, Port: port}}
			ps := []snet.Path{spath.Path{Src: ia, Dst: ia, DataplanePath: spath.Empty{}, NextHop: &net.UDPAddr{IP: e.peerIP, Port: port}}}
			_, _, err := client.MeasureClockOffsetSCION(ctx, discardLog, []*client.SCIONClient{c}, local, remote, ps)
			return err
		}
	}
	// bounded waits a call out: its context plus a margin, never longer
	bounded := func(limit, margin time.Duration) (error, bool) {
		res := make(chan error, 1)
		ctx, cancel := context.WithTimeout(context.Background(), limit)
		if limit == 0 {
			// a context without deadline (as the command-line tools pass): the key exchange must
			// give up on its own after its exchange timeout of 5 s
			ctx, cancel = context.WithCancel(context.Background())
			limit = 5 * time.Second
		}
		go func() {
			defer cancel()
			res <- measure(ctx)
		}()
		select {
		case err := <-res:
			return err, true
		case <-time.After(limit + margin):
			return nil, false
		}
	}
	first := 500 * time.Millisecond
	if len(a) > 2 && a[2].z == 1 {
		first = 0
	}
	_, r1 := bounded(first, 10*time.Second)
	// the server answers properly from now on
	p.mu.Lock()
	p.stall = 0
	p.mu.Unlock()
	r2 := false
	for try := 0; try < 3 && !r2; try++ {
		done := make(chan struct{})
		if sconn == nil {
			go p.ntp.serve(nil, func(req []byte) []byte { return p.ntsReply(req, 0, []int64{124}) }, done)
		} else {
			go func() {
				defer close(done)
				buf := make([]byte, 65536)
				sconn.SetReadDeadline(time.Now().Add(callLimit))
				n, src, err := sconn.ReadFromUDP(buf)
				if err != nil {
					return
				}
				pl, srcPort, ok := scionPayload(buf[:n])
				if !ok || len(pl) < 48 {
					return
				}
				h := &scionSpec{dstIA: localIA, srcIA: localIA, dstRaw: []byte(e.peerIP.To4()), srcRaw: []byte(e.peerIP.To4()),
					udpSrc: uint16(p.port), udpDst: srcPort}
				if d, err := buildSCION(h, p.ntsReply(pl, 0, []int64{124})); err == nil {
					sconn.WriteToUDP(d, src)
				}
			}()
		}
		err, ret := bounded(4*time.Second, 6*time.Second)
		if sconn == nil {
			waitDone(done, p.ntp.conn)
		} else {
			waitDone(done, sconn)
		}
		r2 = ret && err == nil
		if !ret {
			break // the client is stuck: no point in trying again
		}
	}
	return lib.V("1", lib.L(lib.Bool(r1), lib.Bool(r2)))
}

// ---- SCMP ----

// echoSentinel sends a well-formed SCMP echo request to the SCION listener and waits for the
// echo reply with the same identifier and sequence number.
func (e *netEnv) echoSentinel() bool {
	e.seq++
	body := []byte{0xC0, 0x08, byte(e.seq >> 8), byte(e.seq), 'p', 'i', 'n', 'g'}
	h := e.baseSpec(scionPort)
	h.scmp, h.scmpRaw = int(slayers.SCMPTypeEchoRequest), true
	pkt, err := buildSCION(h, body)
	if err != nil {
		panic(err)
	}
	_, ok := e.exchange(&net.UDPAddr{IP: e.srvIP, Port: scionPort}, nil, pkt, func(b []byte) (ok bool) {
		defer func() {
			if recover() != nil {
				ok = false
			}
		}()
		var (
			scn slayers.SCION
			hbh slayers.HopByHopExtnSkipper
			e2e slayers.EndToEndExtnSkipper
			u   slayers.UDP
			sc  slayers.SCMP
		)
		parser := gopacket.NewDecodingLayerParser(slayers.LayerTypeSCION, &scn, &hbh, &e2e, &u, &sc)
		parser.IgnoreUnsupported = true
		decoded := make([]gopacket.LayerType, 0, 4)
		if err := parser.DecodeLayers(b, &decoded); err != nil || len(decoded) < 2 || decoded[len(decoded)-1] != slayers.LayerTypeSCMP {
			return false
		}
		return sc.TypeCode.Type() == slayers.SCMPTypeEchoReply && len(sc.Payload) >= 4 && string(sc.Payload[:4]) == string(body[:4])
	})
	return ok
}

// genThird: SCMP bodies of every length, authenticated NTS plaintexts of every length, datagrams
// beyond the receive buffers, SCION paths with hop fields.
func (g *gen) genThird() {
	e := setupNet()
	r := g.r
	sockPort := uint16(e.sock.LocalAddr().(*net.UDPAddr).Port)
	base := func() *scionSpec {
		h := e.baseSpec(scionPort)
		h.udpSrc = sockPort
		return h
	}
	item := func(under int, b []byte) string { return lib.L(lib.I(int64(under)), lib.B(b)) }
	// SCMP echo / traceroute requests (and other types) with bodies of 0..12 bytes and oversize
	var sc []string
	for _, t := range []slayers.SCMPType{slayers.SCMPTypeEchoRequest, slayers.SCMPTypeTracerouteRequest, slayers.SCMPTypeEchoReply, slayers.SCMPTypeTracerouteReply, 1, 4, 200} {
		for _, l := range []int{0, 1, 2, 3, 4, 5, 6, 7, 8, 9, 10, 11, 12, 19, 20, 24, 100, 1200, 8000} {
			h := base()
			h.scmp, h.scmpRaw = int(t), true
			if b, err := buildSCION(h, r.Bytes(l)); err == nil {
				sc = append(sc, item(scionPort, b))
				if l < 8 && t <= slayers.SCMPTypeTracerouteRequest {
					sc = append(sc, item(endhostPort, b))
				}
			}
			if l <= 4 && t == slayers.SCMPTypeEchoRequest {
				for _, pt := range []struct {
					t   uint8
					raw []byte
				}{{2, oneHopComplete}, {2, oneHopIncomplete}, {1, scionZeroSeg}} {
					h2 := base()
					h2.scmp, h2.scmpRaw = int(t), true
					h2.pathType, h2.pathRaw = pt.t, pt.raw
					if b, err := buildSCION(h2, r.Bytes(l)); err == nil {
						sc = append(sc, item(scionPort, b))
					}
				}
			}
		}
	}
	for i := 0; i < len(sc); i += 4 {
		g.add("srv.scmp", "nt", lib.L(sc[i:min(i+4, len(sc))]...))
	}
	// authenticated requests whose sealed plaintext has every length 1..40, stray bytes after
	// complete fields, a complete field cut short: in-process, to both listeners, from the peers
	key := r.Bytes(32)
	var plains [][]byte
	for l := 1; l <= 40; l++ {
		plains = append(plains, r.Bytes(l))
	}
	for _, stray := range []int{1, 2, 3, 5} {
		plains = append(plains, append(extField(0x204, r.Bytes(124)), r.Bytes(stray)...))
		plains = append(plains, append(append(extField(0x204, r.Bytes(24)), extField(0x999, r.Bytes(28))...), r.Bytes(stray)...))
		f := extField(0x204, r.Bytes(124))
		plains = append(plains, f[:len(f)-stray])
	}
	for _, pl := range plains {
		b := g.ntsRequest(key, 1, 32, 124, pl)
		g.addNTSAuth("nts.auth", "nt,plainlen", b, key, nil)
		g.addNTSAuth("nts.resp", "nt,plainlen", b, key, b[52:84])
	}
	s := e.newSession()
	uid := r.Bytes(32)
	ck := extField(0x204, s.cookie)
	var ipd [][]byte
	var scd []string
	for _, pl := range plains {
		b := craftNTS(ntpHeader(r), [][]byte{extField(0x104, uid), ck}, s.c2s, pl, 16, false)
		ipd = append(ipd, b)
		if f, err := buildSCION(base(), b); err == nil {
			scd = append(scd, item(scionPort, f))
		}
	}
	for i := 0; i < len(ipd); i += 4 {
		g.add("srv.ip", "nt,plainlen", bl(ipd[i:min(i+4, len(ipd))]...))
	}
	for i := 0; i < len(scd); i += 4 {
		g.add("srv.scionnts", "nt,plainlen", lib.L(scd[i:min(i+4, len(scd))]...))
	}
	// replies of the scripted NTS peers with such plaintexts (reply mode 5: the plaintext is that
	// many random bytes; mode 6: a complete cookie field followed by that many stray bytes)
	il := func(xs ...int) string {
		ss := make([]string, len(xs))
		for i, x := range xs {
			ss[i] = lib.I(int64(x))
		}
		return lib.L(ss...)
	}
	good8 := il(124, 124, 124, 124, 124, 124, 124, 124)
	for l := 1; l <= 40; l += lib.Pick(r, 1, 2) {
		mode := lib.Pick(r, 5, 6)
		g.add("cli.nts", "nt,plainlen", lib.L(lib.L(good8, lib.I(int64(mode)), il(l))))
		if l%3 == 1 {
			g.add("cli.scionnts", "nt,plainlen", lib.V(lib.L(lib.L(good8, lib.I(int64(mode)), il(l), "0", lib.B(nil))), "0", "0"))
		}
	}
	// datagrams beyond the receive buffers of the listeners (the flags != 0 branches)
	g.add("srv.ip", "nt,oversize", bl(r.Bytes(2049), r.Bytes(4000), r.Bytes(65000), append(ntpHeader(r), make([]byte, 2048)...)))
	var big []string
	for _, l := range []int{9188, 9189, 12000, 60000} {
		if b, err := buildSCION(base(), r.Bytes(l)); err == nil {
			big = append(big, item(scionPort, b), item(endhostPort, b))
		} else {
			big = append(big, item(scionPort, r.Bytes(l)))
		}
	}
	g.add("srv.scion", "nt,oversize", lib.L(big...))
	for _, port := range []int{319, 320} {
		g.add("srv.csptp", "nt,oversize", lib.V(lib.I(int64(port)), lib.B(append(csptpFollowUp(5, 0x71, 1), make([]byte, 1)...))))
		g.add("srv.csptp", "nt,oversize", lib.V(lib.I(int64(port)), lib.B(r.Bytes(3000))))
	}
	// IPv6: the IP listener on [::1] and the IP client over [::1]
	v6 := e.ntsVariants(r)
	for i := 0; i < len(v6); i += 6 {
		g.add("srv.ip6", "nt", bl(v6[i:min(i+6, len(v6))]...))
	}
	g.add("srv.ip6", "nt,oversize", bl(r.Bytes(0), r.Bytes(47), r.Bytes(2049), r.Bytes(9000), ntpHeader(r)))
	hon6 := make([]byte, 48)
	hon6[0], hon6[1] = 0x24, 1
	for i := 0; i < g.n(8, 80); i++ {
		g.add("cli.ip6", "nt", lib.V(lib.L(lib.L(lib.I(int64(r.Intn(2))), lib.B(g.mutate(hon6))), lib.L("0", lib.B(r.Bytes(lib.Pick(r, 0, 47, 49, 100))))), "1"))
	}
	// the end-host dispatcher of a client-mode process: every family for the L4 ports 0, 123, 10123,
	// 30041, 65535 and for a socket of the harness
	var dd [][]byte
	vv := e.ntsVariants(r)
	vnts, _ := e.validNTS(r, 1)
	for _, port := range []uint16{0, 123, 10123, 30041, 65535, sockPort} {
		mk := func() *scionSpec {
			h := e.baseSpec(port)
			h.udpSrc = sockPort
			if port == sockPort {
				h.dstRaw = []byte(e.peerIP.To4())
			}
			return h
		}
		for _, pl := range [][]byte{ntpHeader(r), vnts, lib.Pick(r, vv...), lib.Pick(r, vv...), lib.Pick(r, vv...), r.Bytes(3), nil} {
			if b, err := buildSCION(mk(), pl); err == nil {
				dd = append(dd, b)
			}
		}
		for _, pl := range [][]byte{ntpHeader(r), vnts} {
			if b, err := buildSCIONAuth(mk(), pl, 0x0003007b, mockKey, r.Intn(2)); err == nil {
				dd = append(dd, b)
			}
		}
		h := mk()
		h.e2e = []*slayers.EndToEndOption{{OptType: 253, OptData: r.Bytes(16)}, {OptType: slayers.OptTypeAuthenticator, OptData: r.Bytes(lib.Pick(r, 0, 12, 28, 29))}}
		h.hbh = true
		if b, err := buildSCION(h, vnts); err == nil {
			dd = append(dd, b)
		}
		for _, pt := range []struct {
			t   uint8
			raw []byte
		}{{2, oneHopComplete}, {2, oneHopIncomplete}, {1, scionZeroSeg}, {1, hopPath(1, 2, 0, 0)}} {
			h := mk()
			h.pathType, h.pathRaw = pt.t, pt.raw
			if b, err := buildSCION(h, vnts); err == nil {
				dd = append(dd, b)
			}
		}
	}
	for _, t := range []slayers.SCMPType{slayers.SCMPTypeEchoRequest, slayers.SCMPTypeTracerouteRequest, slayers.SCMPTypeEchoReply, 1} {
		for _, l := range []int{0, 3, 4, 8, 100} {
			h := base()
			h.scmp, h.scmpRaw = int(t), true
			if b, err := buildSCION(h, r.Bytes(l)); err == nil {
				dd = append(dd, b)
			}
		}
	}
	dd = append(dd, r.Bytes(0), r.Bytes(7), r.Bytes(48), r.Bytes(300), r.Bytes(9300))
	for i := 0; i < g.n(10, 150); i++ {
		dd = append(dd, g.mutate(lib.Pick(r, dd...)))
	}
	for i := 0; i < len(dd); i += 5 {
		g.add("srv.dispatcher", "nt", bl(dd[i:min(i+5, len(dd))]...))
	}
	// key exchanges that the peer refuses after the handshake, in a client process with 64 descriptors
	for _, tr := range []int{1, 0} {
		for _, kind := range []int{5, 6, 7} {
			g.add("cli.kefdleak", "nt", lib.V(lib.I(int64(tr)), lib.I(int64(kind)), "60"))
		}
	}
	// more idle TCP connections on the NTS-KE port than the server process has descriptors
	g.add("srv.kefd", "nt", lib.V("200", lib.B(nil)))
	g.add("srv.kefd", "nt", lib.V("120", lib.B([]byte{0x16, 3, 1})))
	g.add("srv.kefd", "nt", lib.V("70", lib.B(nil)))
	// 32 sockets at once, every datagram from another source AS
	for i := 0; i < g.n(3, 12); i++ {
		g.add("srv.scionpar", "nt", lib.V("32", lib.I(int64(g.n(40, 120))), lib.I(int64(i))))
	}
	// SCION paths with info and hop fields (one segment of two hops; two segments)
	for _, raw := range [][]byte{hopPath(1, 2, 0, 0), hopPath(0, 2, 0, 0), hopPath(1, 2, 2, 0), hopPath(3, 2, 2, 0), hopPath(1, 3, 0, 0)} {
		for _, scmp := range []int{0, int(slayers.SCMPTypeEchoRequest)} {
			h := base()
			h.pathType, h.pathRaw = 1, raw
			h.scmp = scmp
			if b, err := buildSCION(h, ntpHeader(r)); err == nil {
				g.add("srv.scion", "nt,hoppath", lib.L(item(scionPort, b), item(endhostPort, b)))
			}
			if b, err := buildSCIONAuth(h, ntpHeader(r), 0x0003007b, mockKey, 0); err == nil && scmp == 0 {
				g.add("srv.scionauth", "nt,hoppath", lib.L(item(scionPort, b)))
			}
		}
	}
}

// hopPath builds a standard SCION path: path meta header (current info/hop field, segment
// lengths), one info field per segment, 12-byte hop fields.
func hopPath(currHF, seg0, seg1, seg2 int) []byte {
	meta := uint32(0)<<30 | uint32(currHF)<<24 | uint32(seg0)<<12 | uint32(seg1)<<6 | uint32(seg2)
	b := binary.BigEndian.AppendUint32(nil, meta)
	nseg := 0
	for _, s := range []int{seg0, seg1, seg2} {
		if s > 0 {
			nseg++
		}
	}
	for i := 0; i < nseg; i++ {
		b = append(b, 1, 0, 0x12, 0x34, 0x65, 0, 0, byte(i)) // flags (cons dir), rsv, seg id, timestamp
	}
	for i := 0; i < seg0+seg1+seg2; i++ {
		b = append(b, 0, 63, 0, byte(i), 0, byte(i+1), 1, 2, 3, 4, 5, 6) // flags, exp time, ingress, egress, MAC
	}
	return b
}

// ---- cli.kestallquic: an NTS-KE server over QUIC that stalls after the handshake ----

// quicKEPeer is a scripted key-exchange peer behind the project's own scion.ListenQUIC.
type quicKEPeer struct {
	ln      *scion.QUICListener
	port    int
	mu      sync.Mutex
	refuse   int // exchanges still to be refused
	refuseAs int
	stall   int // 0 answer properly, 1 nothing, 2 half a record, 3 a byte per second of a record that never ends
	ntpPort int
	nts     *ntsPeer
	release chan struct{}
}

func newQUICKEPeer(e *netEnv, nts *ntsPeer, ntpPort int, release chan struct{}) *quicKEPeer {
	p := &quicKEPeer{nts: nts, ntpPort: ntpPort, release: release}
	host := &net.UDPAddr{IP: e.peerIP, Port: 0}
	ln, err := scion.ListenQUIC(context.Background(), udp.UDPAddr{IA: addr.IA(localIA), Host: host}, e.tlsSrv.Clone(), nil)
	if err != nil {
		panic(err)
	}
	p.ln = ln
	p.port = ln.Addr().(udp.UDPAddr).Host.Port
	go func() {
		for {
			conn, err := ln.Accept(context.Background())
			if err != nil {
				return
			}
			go func() {
				s, err := conn.AcceptStream(context.Background())
				if err != nil {
					return
				}
				var data ntske.Data
				if err := ntske.ReadData(context.Background(), discardLog, bufio.NewReader(s), &data); err != nil {
					return
				}
				if err := ntske.ExportKeys(conn.ConnectionState().TLS, &data); err != nil {
					return
				}
				nts.mu.Lock()
				nts.c2s, nts.s2c = data.C2sKey, data.S2cKey
				nts.mu.Unlock()
				p.mu.Lock()
				stall := p.stall
				refuseAs := 0
				if p.refuse > 0 {
					p.refuse--
					refuseAs = p.refuseAs
				}
				p.mu.Unlock()
				if refuseAs != 0 {
					s.Write(refusal(refuseAs))
					s.Close()
					return
				}
				switch stall {
				case 0:
					var msg ntske.ExchangeMsg
					msg.AddRecord(ntske.NextProto{NextProto: ntske.NTPv4})
					msg.AddRecord(ntske.Algorithm{Algo: []uint16{ntske.AES_SIV_CMAC_256}})
					msg.AddRecord(ntske.Server{Addr: []byte(e.peerIP.String())})
					msg.AddRecord(ntske.Port{Port: uint16(p.ntpPort)})
					for i := 0; i < 8; i++ {
						msg.AddRecord(ntske.Cookie{Cookie: make([]byte, 124)})
					}
					msg.AddRecord(ntske.End{})
					if b, err := msg.Pack(); err == nil {
						s.Write(b.Bytes())
						s.Close()
					}
					return
				case 2:
					s.Write([]byte{0x80, 1, 0})
				case 3:
					s.Write([]byte{0, 9, 0xff, 0xff}) // a non-critical record of 65535 bytes that never gets there
					for i := 0; i < 120; i++ {
						s.Write([]byte{0})
						select {
						case <-release:
							return
						case <-time.After(time.Second):
						}
					}
				}
				select {
				case <-release:
				case <-time.After(120 * time.Second):
				}
				conn.CloseWithError(0, "")
			}()
		}
	}()
	return p
}

// args: stall mode (1 nothing, 2 half a record, 3 a trickle, 4 a handshake that never completes:
// only the client's first datagram reaches a QUIC listener and nothing comes back).
func runClientKEStallQUIC(e *netEnv, a []val) string {
	nts := newNTSPeer(e) // for the keys and the NTS replies only
	defer nts.ln.Close()
	defer nts.ntp.conn.Close()
	release := make(chan struct{})
	defer close(release)
	sconn, err := net.ListenUDP("udp4", &net.UDPAddr{IP: e.peerIP})
	if err != nil {
		panic(err)
	}
	defer sconn.Close()
	port := sconn.LocalAddr().(*net.UDPAddr).Port
	nts.port = port
	kp := newQUICKEPeer(e, nts, port, release)
	defer kp.ln.Close()
	mode := int(a[0].z)
	kp.stall = mode
	ia := addr.IA(localIA)
	c := &client.SCIONClient{Log: discardLog}
	c.Auth.NTSEnabled = true
	f := &c.Auth.NTSKEFetcher
	f.Log = discardLog
	f.TLSConfig = tls.Config{InsecureSkipVerify: true, ServerName: "c08", MinVersion: tls.VersionTLS13}
	f.QUIC.Enabled = true
	f.QUIC.LocalAddr = udp.UDPAddr{IA: ia, Host: &net.UDPAddr{IP: e.peerIP}}
	f.QUIC.RemoteAddr = udp.UDPAddr{IA: ia, Host: &net.UDPAddr{IP: e.peerIP, Port: kp.port}}
	var rl *relay
	if mode == 4 {
		rl = newRelay(e, 1)
		defer rl.c.Close()
		f.QUIC.RemoteAddr = udp.UDPAddr{IA: ia, Host: rl.c.LocalAddr().(*net.UDPAddr)}
	}
	measure := func(ctx context.Context) error {
		local := udp.UDPAddr{IA: ia, Host: &net.UDPAddr{IP: e.peerIP}}
		remote := udp.UDPAddr{IA: ia, Host: &net.UDPAddr{IP: e.peerIP, Port: port}}
		ps := []snet.Path{spath.Path{Src: ia, Dst: ia, DataplanePath: spath.Empty{}, NextHop: &net.UDPAddr{IP: e.peerIP, Port: port}}}
		_, _, err := client.MeasureClockOffsetSCION(ctx, discardLog, []*client.SCIONClient{c}, local, remote, ps)
		return err
	}
	bounded := func(limit, margin time.Duration) (error, bool) {
		res := make(chan error, 1)
		ctx, cancel := context.WithTimeout(context.Background(), limit)
		if limit == 0 {
			// a context without deadline (as the command-line tools pass): the key exchange must
			// give up on its own after its exchange timeout of 5 s
			ctx, cancel = context.WithCancel(context.Background())
			limit = 5 * time.Second
		}
		go func() {
			defer cancel()
			res <- measure(ctx)
		}()
		select {
		case err := <-res:
			return err, true
		case <-time.After(limit + margin):
			return nil, false
		}
	}
	t0 := time.Now()
	first := 500 * time.Millisecond
	if len(a) > 1 && a[1].z == 1 {
		first = 0
		t0 = t0.Add(5 * time.Second)
	}
	_, r1 := bounded(first, 10*time.Second)
	// from now on the key-exchange peer answers properly; the client's next exchanges must not be
	// held up by the stalled one for longer than the margin
	kp.mu.Lock()
	kp.stall = 0
	kp.mu.Unlock()
	if mode == 4 {
		time.Sleep(200 * time.Millisecond)
		f.QUIC.RemoteAddr = udp.UDPAddr{IA: ia, Host: &net.UDPAddr{IP: e.peerIP, Port: kp.port}}
	}
	r2 := false
	for time.Since(t0) < 500*time.Millisecond+10*time.Second && !r2 {
		done := make(chan struct{})
		go func() {
			defer close(done)
			buf := make([]byte, 65536)
			sconn.SetReadDeadline(time.Now().Add(callLimit))
			n, src, err := sconn.ReadFromUDP(buf)
			if err != nil {
				return
			}
			pl, srcPort, ok := scionPayload(buf[:n])
			if !ok || len(pl) < 48 {
				return
			}
			h := &scionSpec{dstIA: localIA, srcIA: localIA, dstRaw: []byte(e.peerIP.To4()), srcRaw: []byte(e.peerIP.To4()),
				udpSrc: uint16(port), udpDst: srcPort}
			if d, err := buildSCION(h, nts.ntsReply(pl, 0, []int64{124})); err == nil {
				sconn.WriteToUDP(d, src)
			}
		}()
		err, ret := bounded(2*time.Second, 10*time.Second)
		waitDone(done, sconn)
		r2 = ret && err == nil
		if !ret {
			break
		}
	}
	if debugOn {
		note(fmt.Sprintf("cli.kestallquic mode %d: first call returned=%v, later call ok=%v after %.1fs", mode, r1, r2, time.Since(t0).Seconds()))
	}
	return lib.V("1", lib.L(lib.Bool(r1), lib.Bool(r2)))
}
