package main

import (
	"bufio"
	"context"
	"crypto/rand"
	"crypto/tls"
	"encoding/binary"
	"fmt"
	"net"
	"net/netip"
	"os"
	"strconv"
	"sync"
	"time"

	"github.com/scionproto/scion/pkg/addr"
	"github.com/scionproto/scion/pkg/slayers"
	"github.com/scionproto/scion/pkg/snet"
	spath "github.com/scionproto/scion/pkg/snet/path"

	"example.com/scion-time/core/client"
	"example.com/scion-time/net/csptp"
	"example.com/scion-time/net/ntp"
	"example.com/scion-time/net/nts"
	"example.com/scion-time/net/ntske"
	"example.com/scion-time/net/scion"
	"example.com/scion-time/net/udp"

	"verifharness/lib"
)

const callLimit = 8 * time.Second

var debugOn = os.Getenv("C08_DEBUG") != ""

// call runs one measurement of a real client in its own goroutine (a panic there ends the
// process, as it would in the service) and waits for its result.
func call(f func(ctx context.Context) error) (err error, returned bool) {
	return callWithin(callLimit, f)
}

// crafted calls get a short deadline: when the scripted peer sends nothing acceptable the client
// waits for its deadline, and nothing is learnt from waiting longer
const craftedLimit = 600 * time.Millisecond

func callWithin(limit time.Duration, f func(ctx context.Context) error) (err error, returned bool) {
	res := make(chan error, 1)
	ctx, cancel := context.WithTimeout(context.Background(), limit)
	defer cancel()
	go func() { res <- f(ctx) }()
	select {
	case err = <-res:
		return err, true
	case <-time.After(limit + 40*time.Second):
		hangNow("client call did not return after its deadline")
		return nil, false
	}
}

// waitDone ends the scripted peer of a call: its pending read is made to fail (again and again,
// because the peer may set its own deadline after ours) until its goroutine is gone.
func waitDone(done chan struct{}, conns ...*net.UDPConn) {
	for {
		for _, c := range conns {
			c.SetReadDeadline(time.Now())
		}
		select {
		case <-done:
			return
		case <-time.After(5 * time.Millisecond):
		}
	}
}

// ---- scripted NTP peer over IP ----

type ipPeer struct {
	conn *net.UDPConn
}

func newIPPeer(ip net.IP) *ipPeer {
	nw := "udp4"
	if ip.To4() == nil {
		nw = "udp6"
	}
	c, err := net.ListenUDP(nw, &net.UDPAddr{IP: ip})
	if err != nil {
		panic(err)
	}
	return &ipPeer{conn: c}
}

func (p *ipPeer) port() int { return p.conn.LocalAddr().(*net.UDPAddr).Port }

func honestNTP(req []byte) []byte {
	r := make([]byte, 48)
	r[0] = 4<<3 | 4
	r[1] = 1
	r[3] = 0xe0
	copy(r[24:32], req[40:48])
	now := ntp.Time64FromTime(time.Now().UTC())
	binary.BigEndian.PutUint32(r[32:], now.Seconds)
	binary.BigEndian.PutUint32(r[36:], now.Fraction)
	binary.BigEndian.PutUint32(r[40:], now.Seconds)
	binary.BigEndian.PutUint32(r[44:], now.Fraction+1)
	return r
}

// serve answers the next request with the given responses; mode 1 responses get the request's
// transmit time as their origin time, so that the rest of the response is looked at.
func (p *ipPeer) serve(resps []val, mk func(req []byte) []byte, done chan struct{}) {
	defer close(done)
	buf := make([]byte, 65536)
	p.conn.SetReadDeadline(time.Now().Add(callLimit))
	n, src, err := p.conn.ReadFromUDP(buf)
	if err != nil {
		return
	}
	req := clone(buf[:n])
	for _, r := range resps {
		d := clone(r.l[1].b)
		if r.l[0].z == 1 && len(d) >= 32 && len(req) >= 48 {
			copy(d[24:32], req[40:48])
		}
		p.conn.WriteToUDP(d, src)
	}
	if mk != nil {
		p.conn.WriteToUDP(mk(req), src)
	}
}

func runClientIP(e *netEnv, a []val, ip net.IP) string {
	p := newIPPeer(ip)
	defer p.conn.Close()
	c := &client.IPClient{Log: discardLog}
	local := &net.UDPAddr{IP: ip}
	limit := craftedLimit
	do := func(resps []val, honest bool) error {
		done := make(chan struct{})
		var mk func([]byte) []byte
		if honest {
			mk = honestNTP
		}
		go p.serve(resps, mk, done)
		err, _ := callWithin(limit, func(ctx context.Context) error {
			_, _, err := client.MeasureClockOffsetIP(ctx, discardLog, c, local, &net.UDPAddr{IP: ip, Port: p.port()})
			return err
		})
		waitDone(done, p.conn)
		return err
	}
	do(a[0].l, a[1].z == 1)
	limit = callLimit
	err := do(nil, true)
	if err != nil {
		note("cli.ip sentinel: " + err.Error())
	}
	return lib.V("1", lib.L(lib.Bool(err == nil)))
}

// ---- scripted NTS-KE server (TLS) and NTS peer ----

type ntsPeer struct {
	e        *netEnv
	ln       net.Listener
	ntp      *ipPeer
	mu       sync.Mutex
	keLens   []int64 // cookies the next key exchange hands out
	c2s, s2c []byte
	nKE      int
	refuse   int           // number of exchanges still to be refused
	refuseAs int           // 5 error record, 6 unknown critical record, 7 truncated cookie record
	stall    int           // after the handshake and the request: 1 send nothing, 2 half a record, 3 a byte per second
	release  chan struct{} // closed when stalled connections may go
	server   []byte        // Server record of the next key exchange (nil: the peer's address)
	port     int    // Port record (0: the scripted NTP peer's port)
}

func newNTSPeer(e *netEnv) *ntsPeer {
	p := &ntsPeer{e: e, ntp: newIPPeer(e.peerIP)}
	ln, err := tls.Listen("tcp", net.JoinHostPort(e.peerIP.String(), "0"), e.tlsSrv.Clone())
	if err != nil {
		panic(err)
	}
	p.ln = ln
	go func() {
		for {
			conn, err := ln.Accept()
			if err != nil {
				return
			}
			go p.handleKE(conn.(*tls.Conn))
		}
	}()
	return p
}

func (p *ntsPeer) handleKE(conn *tls.Conn) {
	defer conn.Close()
	conn.SetDeadline(time.Now().Add(callLimit))
	var data ntske.Data
	if err := ntske.ReadData(context.Background(), discardLog, bufio.NewReader(conn), &data); err != nil {
		return
	}
	if err := ntske.ExportKeys(conn.ConnectionState(), &data); err != nil {
		return
	}
	p.mu.Lock()
	p.c2s, p.s2c = data.C2sKey, data.S2cKey
	lens := p.keLens
	server, port := p.server, p.port
	stall, release := p.stall, p.release
	refuseAs := 0
	if p.refuse > 0 {
		p.refuse--
		refuseAs = p.refuseAs
	}
	p.nKE++
	p.mu.Unlock()
	if refuseAs != 0 {
		conn.Write(refusal(refuseAs))
		return
	}
	if stall != 0 {
		conn.SetDeadline(time.Now().Add(90 * time.Second))
		full := []byte{0x80, 1, 0, 2, 0, 0, 0x80, 4, 0, 2, 0, 15, 0, 5, 0, 124}
		switch stall {
		case 2:
			conn.Write(full[:3])
		case 3:
			for i := 0; i < 80; i++ {
				conn.Write(full[i%len(full) : i%len(full)+1])
				select {
				case <-release:
					return
				case <-time.After(time.Second):
				}
			}
		}
		select {
		case <-release:
		case <-time.After(80 * time.Second):
		}
		return
	}
	if server == nil {
		server = []byte(p.e.peerIP.String())
	}
	if port == 0 {
		port = p.ntp.port()
	}
	var msg ntske.ExchangeMsg
	msg.AddRecord(ntske.NextProto{NextProto: ntske.NTPv4})
	msg.AddRecord(ntske.Algorithm{Algo: []uint16{ntske.AES_SIV_CMAC_256}})
	msg.AddRecord(ntske.Server{Addr: server})
	msg.AddRecord(ntske.Port{Port: uint16(port)})
	for _, l := range lens {
		ck := make([]byte, l)
		rand.Read(ck)
		msg.AddRecord(ntske.Cookie{Cookie: ck})
	}
	msg.AddRecord(ntske.End{})
	b, err := msg.Pack()
	if err != nil {
		return
	}
	conn.Write(b.Bytes())
}

// refusal is what a key-exchange peer sends to turn an exchange down after the handshake.
func refusal(kind int) []byte {
	switch kind {
	case 5:
		return []byte{0x80, 2, 0, 2, 0, 1} // error record: bad request
	case 6:
		return []byte{0x80, 0x63, 0, 2, 0, 0} // unknown critical record
	}
	return []byte{0x80, 1, 0, 2, 0, 0, 0x80, 4, 0, 2, 0, 15, 0, 5, 0, 124, 1, 2, 3} // a cookie record cut short, then the stream ends
}

// ntsReply builds the reply to an NTS request: mode 0 honest; the cookies sealed inside have the
// given lengths.  Other modes damage it.
func (p *ntsPeer) ntsReply(req []byte, mode int64, cookieLens []int64) []byte {
	p.mu.Lock()
	s2c := p.s2c
	p.mu.Unlock()
	hdr := honestNTP(req)
	var uid []byte
	func() {
		defer func() { recover() }()
		var rp nts.Packet
		if nts.DecodePacket(&rp, req) == nil {
			uid = rp.UniqueID.ID
		}
	}()
	if uid == nil {
		if debugOn {
			note(fmt.Sprintf("ntsReply: request of %d bytes does not decode", len(req)))
		}
		return hdr
	}
	var plain []byte
	for _, l := range cookieLens {
		ck := make([]byte, l)
		rand.Read(ck)
		f := binary.BigEndian.AppendUint16(nil, 0x204)
		f = binary.BigEndian.AppendUint16(f, uint16(4+l)) // the length field is what the client allocates
		plain = append(plain, f...)
		plain = append(plain, ck[:min(len(ck), 900)]...)
	}
	// pad so that the last field is looked at (the walk needs 28 bytes in front of it)
	plain = append(plain, append([]byte{0x09, 0x99, 0, 28}, make([]byte, 24)...)...)
	nonceLen := 16
	damage := false
	switch mode {
	case 1:
		uid = append(clone(uid[:len(uid)-1]), uid[len(uid)-1]^1)
	case 2:
		damage = true
	case 3:
		nonceLen = 0
	case 4:
		nonceLen = 17
	}
	if len(plain) > 800 {
		plain = plain[:800]
	}
	if (mode == 5 || mode == 6) && len(cookieLens) > 0 {
		// plaintexts that do not end on a field boundary
		plain = make([]byte, cookieLens[0])
		rand.Read(plain)
		if mode == 6 {
			plain = append(extField(0x204, make([]byte, 124)), plain...)
		}
	}
	out := craftNTS(hdr, [][]byte{extField(0x104, uid)}, s2c, plain, nonceLen, damage)
	if debugOn {
		var rp nts.Packet
		var f ntske.Fetcher
		err := nts.DecodePacket(&rp, out)
		if err == nil {
			err = nts.ProcessResponse(out, s2c, &f, &rp, uid)
		}
		note(fmt.Sprintf("reply len %d check: %v (s2c %d bytes)", len(out), err, len(s2c)))
	}
	return out
}

// cli.nts args: list of calls, each [ke cookie lengths, reply mode, lengths of the cookies in the reply]
func runClientNTS(e *netEnv, a []val) string {
	p := newNTSPeer(e)
	defer p.ln.Close()
	defer p.ntp.conn.Close()
	c := &client.IPClient{Log: discardLog}
	c.Auth.Enabled = true
	c.Auth.NTSKEFetcher.Log = discardLog
	c.Auth.NTSKEFetcher.TLSConfig = tls.Config{InsecureSkipVerify: true, ServerName: e.peerIP.String(), MinVersion: tls.VersionTLS13}
	_, kePort, _ := net.SplitHostPort(p.ln.Addr().String())
	c.Auth.NTSKEFetcher.Port = kePort
	local := &net.UDPAddr{IP: e.peerIP}
	ntsLimit := 1200 * time.Millisecond
	var keServer []byte
	do := func(keLens []int64, mode int64, replyLens []int64) error {
		p.mu.Lock()
		p.keLens = keLens
		p.server = keServer
		p.mu.Unlock()
		done := make(chan struct{})
		go p.ntp.serve(nil, func(req []byte) []byte { return p.ntsReply(req, mode, replyLens) }, done)
		err, _ := callWithin(ntsLimit, func(ctx context.Context) error {
			_, _, err := client.MeasureClockOffsetIP(ctx, discardLog, c, local, &net.UDPAddr{IP: e.peerIP, Port: p.ntp.port()})
			return err
		})
		waitDone(done, p.ntp.conn)
		if debugOn {
			note(fmt.Sprintf("cli.nts call ke=%v mode=%d reply=%v -> %v", keLens, mode, replyLens, err))
		}
		return err
	}
	zs := func(v val) []int64 {
		var r []int64
		for _, x := range v.l {
			r = append(r, x.z)
		}
		return r
	}
	for _, st := range a[0].l {
		keServer = nil
		if len(st.l) > 3 {
			keServer = st.l[3].b
			if keServer == nil {
				keServer = []byte{}
			}
		}
		do(zs(st.l[0]), st.l[1].z, zs(st.l[2]))
	}
	keServer = nil
	// sentinel: whatever is left in the client's cookie store is used up (at most 12 calls), every
	// call has to return; then a call after an honest key exchange must succeed
	honest := []int64{124, 124, 124, 124, 124, 124, 124, 124}
	ntsLimit = 5 * time.Second
	var err error
	for i := 0; i < 12; i++ {
		err = do(honest, 0, []int64{124})
		if err == nil {
			break
		}
	}
	if err != nil {
		note("cli.nts sentinel: " + err.Error())
	}
	return lib.V("1", lib.L(lib.Bool(err == nil)))
}

// ---- scripted CSPTP peer ----

func runClientCSPTP(e *netEnv, a []val) string {
	s319, err := net.ListenUDP("udp4", &net.UDPAddr{IP: e.peerIP, Port: csptp.EventPortIP})
	if err != nil {
		panic(err)
	}
	defer s319.Close()
	s320, err := net.ListenUDP("udp4", &net.UDPAddr{IP: e.peerIP, Port: csptp.GeneralPortIP})
	if err != nil {
		panic(err)
	}
	defer s320.Close()
	c := &client.CSPTPClientIP{Log: discardLog}
	peerAddr, _ := netip.AddrFromSlice(e.peerIP.To4())
	limit := craftedLimit
	do := func(script []val, honest bool) error {
		done := make(chan struct{})
		go func() {
			defer close(done)
			buf := make([]byte, 2048)
			s319.SetReadDeadline(time.Now().Add(callLimit))
			n, src, err := s319.ReadFromUDP(buf)
			if err != nil || n < 44 {
				return
			}
			seq := binary.BigEndian.Uint16(buf[30:])
			s320.SetReadDeadline(time.Now().Add(callLimit))
			if _, _, err := s320.ReadFromUDP(buf); err != nil {
				return
			}
			for _, st := range script {
				d := clone(st.l[1].b)
				if st.l[2].z == 1 && len(d) >= 32 {
					binary.BigEndian.PutUint16(d[30:], seq)
				}
				if st.l[0].z == csptp.EventPortIP {
					s319.WriteToUDP(d, src)
				} else {
					s320.WriteToUDP(d, src)
				}
			}
			if honest {
				s319.WriteToUDP(csptpSync(seq), src)
				s320.WriteToUDP(csptpFollowUp(seq, 0x73, 1), src)
			}
		}()
		err, _ := callWithin(limit, func(ctx context.Context) error {
			_, _, err := c.MeasureClockOffset(ctx, peerAddr, peerAddr)
			return err
		})
		waitDone(done, s319, s320)
		return err
	}
	do(a[0].l, a[1].z == 1)
	limit = callLimit
	err = do(nil, true)
	if err != nil {
		note("cli.csptp sentinel: " + err.Error())
	}
	return lib.V("1", lib.Bool(err == nil))
}

// ---- scripted SCION peer ----

// scionReply builds the answer to a request according to a recipe:
//
//	[0 raw]                       the bytes as they are
//	[1 srcType srcRaw dstType dstRaw]  honest NTP answer under a header with these host addresses ("" = mirror the request)
//	[2 optType optData patchByte8] honest answer with an end-to-end option; patchByte8 >= 0 overwrites the path type byte
//	[3 scmpType]                  an SCMP message
//	[4 udpLen]                    honest answer whose UDP length field is overwritten
//	[5 authData udpLen]           both an authenticator option and an overwritten UDP length field
func scionReply(e *netEnv, req []byte, rec val) []byte {
	pl, srcPort, ok := scionPayload(req)
	if !ok || len(pl) < 48 {
		return nil
	}
	h := &scionSpec{dstIA: localIA, srcIA: localIA, dstType: 0, srcType: 0,
		dstRaw: []byte(e.peerIP.To4()), srcRaw: []byte(e.peerIP.To4()), udpSrc: 10123, udpDst: srcPort}
	ans := honestNTP(pl)
	switch rec.l[0].z {
	case 0:
		return rec.l[1].b
	case 1:
		if len(rec.l[2].b) > 0 {
			h.srcType, h.srcRaw = uint8(rec.l[1].z), rec.l[2].b
		}
		if len(rec.l[4].b) > 0 {
			h.dstType, h.dstRaw = uint8(rec.l[3].z), rec.l[4].b
		}
	case 2:
		h.e2e = []*slayers.EndToEndOption{{OptType: slayers.OptionType(rec.l[1].z), OptData: rec.l[2].b}}
	case 3:
		h.scmp = int(rec.l[1].z)
	case 5:
		h.e2e = []*slayers.EndToEndOption{{OptType: slayers.OptTypeAuthenticator, OptData: rec.l[1].b}}
	}
	b, err := buildSCION(h, ans)
	if err != nil {
		return nil
	}
	switch rec.l[0].z {
	case 2:
		if rec.l[3].z >= 0 && len(b) > 8 {
			b[8] = byte(rec.l[3].z)
		}
	case 4:
		// the UDP header sits in front of the 48-byte payload
		if len(b) >= 56 {
			binary.BigEndian.PutUint16(b[len(b)-48-4:], uint16(rec.l[1].z))
		}
	case 5:
		if len(b) >= 56 {
			binary.BigEndian.PutUint16(b[len(b)-48-4:], uint16(rec.l[2].z))
		}
	}
	return b
}

func runClientSCION(e *netEnv, a []val) string {
	conn, err := net.ListenUDP("udp4", &net.UDPAddr{IP: e.peerIP})
	if err != nil {
		panic(err)
	}
	defer conn.Close()
	port := conn.LocalAddr().(*net.UDPAddr).Port
	c := &client.SCIONClient{Log: discardLog}
	if a[1].z == 1 {
		c.Auth.Enabled = true
		c.Auth.DRKeyFetcher = scion.NewFetcher(scion.NewDaemonConnector(context.Background(), ""))
	}
	ia := addr.IA(localIA)
	local := udp.UDPAddr{IA: ia, Host: &net.UDPAddr{IP: e.peerIP}}
	remote := udp.UDPAddr{IA: ia, Host: &net.UDPAddr{IP: e.peerIP, Port: 10123}}
	limit := craftedLimit
	do := func(script []val, honest bool) error {
		done := make(chan struct{})
		go func() {
			defer close(done)
			buf := make([]byte, 65536)
			conn.SetReadDeadline(time.Now().Add(callLimit))
			n, src, err := conn.ReadFromUDP(buf)
			if err != nil {
				return
			}
			req := clone(buf[:n])
			for _, rec := range script {
				if d := scionReply(e, req, rec); d != nil {
					conn.WriteToUDP(d, src)
				}
			}
			if honest {
				if d := scionReply(e, req, val{isList: true, l: []val{{z: 1}, {z: 0}, {isB: true}, {z: 0}, {isB: true}}}); d != nil {
					conn.WriteToUDP(d, src)
				}
			}
		}()
		err, _ := callWithin(limit, func(ctx context.Context) error {
			ps := []snet.Path{spath.Path{Src: ia, Dst: ia, DataplanePath: spath.Empty{}, NextHop: &net.UDPAddr{IP: e.peerIP, Port: port}}}
			_, _, err := client.MeasureClockOffsetSCION(ctx, discardLog, []*client.SCIONClient{c}, local, remote, ps)
			return err
		})
		waitDone(done, conn)
		return err
	}
	do(a[0].l, a[2].z == 1)
	limit = callLimit
	err = do(nil, true)
	if err != nil {
		note("cli.scion sentinel: " + err.Error())
	}
	return lib.V("1", lib.L(lib.Bool(err == nil)))
}

func runClient(e *netEnv, j job, a []val) string {
	switch j.kind {
	case "cli.ip":
		return runClientIP(e, a, e.peerIP)
	case "cli.ip6":
		return runClientIP(e, a, net.IPv6loopback)
	case "cli.nts":
		return runClientNTS(e, a)
	case "cli.csptp":
		return runClientCSPTP(e, a)
	case "cli.scion":
		return runClientSCION(e, a)
	case "cli.scionnts":
		return runClientSCIONNTS(e, a, true)
	case "cli.overlap":
		return runOverlap(e, a)
	case "cli.ipopt":
		return runClientIPOpt(e, a)
	case "cli.kestall":
		return runClientKEStall(e, a)
	case "cli.kestallquic":
		return runClientKEStallQUIC(e, a)
	case "cli.kefdleak":
		return runKEFDLeak(e, a)
	}
	return "0 []"
}

var _ = fmt.Sprintf
var _ = strconv.Itoa
