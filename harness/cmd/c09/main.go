// C09: drives the real NTP listeners of /repo (server.StartIPServer and
// server.StartSCIONServer) on loopback.  The code is in verifharness/c09lib.
package main

import "verifharness/c09lib"

func main() { c09lib.Main(false) }
