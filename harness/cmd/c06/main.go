// C07 (and the store-level kinds of C06): histories, floods and the
// lock-discipline check of core/server's timestamp store through the verif
// hook.  The code lives in verifharness/c06lib; this command emits exactly the
// case kinds the C07 dispatcher knows (tss.hist, tss.flood, tss.lockdiscipline).
package main

import "verifharness/c06lib"

func main() { c06lib.Main(false) }
