// C07 (thorough tier): the real handleRequest / updateTXTimestamp called from
// many goroutines at once under the Go race detector.  The binary is built with
// -race and re-executes itself as a child (GORACE halt_on_error) so that a
// reported data race, a panic or a deadlock of the child is an observation, not
// a crash of the harness.  Afterwards the store must still satisfy the
// structural invariants (checked by the C07 oracle on the final snapshot).
package main

import (
	"fmt"
	"os"
	"os/exec"
	"strconv"
	"strings"
	"sync"
	"time"

	"example.com/scion-time/core/server"
	"example.com/scion-time/core/timebase"
	"example.com/scion-time/net/ntp"

	"verifharness/lib"
)

type clock struct{}

func (clock) Epoch() uint64                                     { return 0 }
func (clock) Now() time.Time                                    { return time.Now().UTC() }
func (clock) Drift(d time.Duration) time.Duration               { return 0 }
func (clock) Step(offset time.Duration)                         {}
func (clock) Adjust(offset, duration time.Duration, f float64) {}
func (clock) Sleep(d time.Duration)                             {}

func t64num(t ntp.Time64) uint64 { return uint64(t.Seconds)<<32 | uint64(t.Fraction) }

func child(ng, nops int, seed uint64) {
	timebase.RegisterClock(clock{})
	var wg sync.WaitGroup
	base := time.Unix(1717171717, 0).UTC()
	for g := 0; g < ng; g++ {
		wg.Add(1)
		go func(g int) {
			defer wg.Done()
			r := lib.NewRng(seed + uint64(g)*977)
			var lastRx ntp.Time64
			for i := 0; i < nops; i++ {
				cid := "c" + strconv.Itoa(r.Intn(6)) // clients shared between goroutines
				var req ntp.Packet
				req.SetVersion(ntp.VersionMax)
				req.SetMode(ntp.ModeClient)
				if r.Intn(2) == 0 {
					req.OriginTime = lastRx
				}
				req.ReceiveTime = ntp.Time64{Seconds: uint32(r.U64()), Fraction: 1}
				req.TransmitTime = ntp.Time64{Seconds: uint32(r.U64()), Fraction: 2}
				rxt := base.Add(time.Duration(r.Intn(5000)) * time.Nanosecond) // many collisions
				var txt time.Time
				var resp ntp.Packet
				server.VerifHandleRequest(cid, &req, &rxt, &txt, &resp)
				lastRx = resp.ReceiveTime
				t1 := txt
				if r.Intn(3) != 0 {
					t1 = txt.Add(time.Duration(1+r.Intn(100)) * time.Nanosecond)
				}
				server.VerifUpdateTXTimestamp(cid, rxt, &t1)
			}
		}(g)
	}
	wg.Wait()
	s := server.VerifSnapshotTSS()
	// print the final snapshot for the parent: one line per item, then the queue
	for _, it := range s.Items {
		es := make([]string, len(it.Entries))
		for j, e := range it.Entries {
			es[j] = lib.L(lib.U(t64num(e.Rxt)), lib.U(t64num(e.Txt)))
		}
		fmt.Printf("ITEM %s\n", lib.L(lib.I(int64(atoi(it.Key[1:]))), lib.U(t64num(it.Qval)), lib.I(int64(it.Qidx)), lib.L(es...)))
	}
	q := make([]string, len(s.Queue))
	qv := map[string]uint64{}
	for _, it := range s.Items {
		qv[it.Key] = t64num(it.Qval)
	}
	for i, k := range s.Queue {
		q[i] = lib.L(lib.I(int64(atoi(k[1:]))), lib.U(qv[k]))
	}
	fmt.Printf("QUEUE %s\n", lib.L(q...))
}

func atoi(s string) int { v, _ := strconv.Atoi(s); return v }

func main() {
	if len(os.Args) > 1 && os.Args[1] == "child" {
		ng, _ := strconv.Atoi(os.Args[2])
		nops, _ := strconv.Atoi(os.Args[3])
		seed, _ := strconv.ParseUint(os.Args[4], 10, 64)
		child(ng, nops, seed)
		return
	}
	a := lib.ParseArgs()
	w := lib.NewWriter(a.Out)
	defer w.Close()
	runs := [][2]int{{8, 3000}, {16, 2000}, {32, 500}}
	if a.Replay != "" {
		runs = nil
		for _, l := range lib.ReplayLines(a.Replay) {
			if l[0] == "tss.race" {
				f := lib.Fields(l[2])
				runs = append(runs, [2]int{int(lib.ParseI(f[0])), int(lib.ParseI(f[1]))})
			}
		}
	}
	for i, rn := range runs {
		cmd := exec.Command(os.Args[0], "child", strconv.Itoa(rn[0]), strconv.Itoa(rn[1]), strconv.FormatUint(a.Seed+uint64(i), 10))
		cmd.Env = append(os.Environ(), "GORACE=halt_on_error=1 exitcode=66")
		done := make(chan struct{})
		var out []byte
		var err error
		go func() { out, err = cmd.CombinedOutput(); close(done) }()
		status := int64(0)
		select {
		case <-done:
			if err != nil {
				status = 1
				if ee, ok := err.(*exec.ExitError); ok {
					status = int64(ee.ExitCode())
				}
			}
		case <-time.After(10 * time.Minute):
			_ = cmd.Process.Kill()
			<-done
			status = 124
		}
		var items []string
		queue := "[]"
		race := int64(0)
		for _, line := range strings.Split(string(out), "\n") {
			if strings.HasPrefix(line, "ITEM ") {
				items = append(items, strings.TrimPrefix(line, "ITEM "))
			} else if strings.HasPrefix(line, "QUEUE ") {
				queue = strings.TrimPrefix(line, "QUEUE ")
			} else if strings.Contains(line, "WARNING: DATA RACE") {
				race = 1
			}
		}
		if status != 0 {
			fmt.Println("NOTE race run", rn, "exit status", status, "output tail:", tail(string(out), 600))
		}
		w.Case("tss.race", "nt,race", lib.V(lib.I(int64(rn[0])), lib.I(int64(rn[1])), lib.U(a.Seed+uint64(i))),
			lib.V(lib.I(status), lib.I(race), lib.L(items...), queue))
	}
}

func tail(s string, n int) string {
	s = strings.ReplaceAll(s, "\n", " | ")
	if len(s) > n {
		return s[len(s)-n:]
	}
	return s
}
