// C07 (thorough tier): the real handleRequest / updateTXTimestamp called from
// many goroutines at once under the Go race detector, on a store that was
// filled to its real capacity first (eviction, heap.Pop and the stateless path
// run concurrently with the ordinary paths).  The binary is built with -race
// and re-executes itself as a child (GORACE halt_on_error) so that a reported
// data race, a panic or a deadlock of the child is an observation, not a crash
// of the harness.  The child records every call of every client (each client is
// driven by one goroutine) and the clients' items before and after; the model is
// run per client on its calls in program order (Coq: conc_client) - replies,
// reported times and final items must be those of that sequential run.  The
// workload is verifharness/c06lib.ConcRun, the same as kind tss.conc.
package main

import (
	"fmt"
	"os"
	"os/exec"
	"strconv"
	"strings"
	"time"

	"verifharness/c06lib"
	"verifharness/lib"
)

func main() {
	if len(os.Args) > 1 && os.Args[1] == "child" {
		ng, _ := strconv.Atoi(os.Args[2])
		nops, _ := strconv.Atoi(os.Args[3])
		seed, _ := strconv.ParseUint(os.Args[4], 10, 64)
		c06lib.RaceChild(ng, nops, seed)
		return
	}
	a := lib.ParseArgs()
	w := lib.NewWriter(a.Out)
	defer w.Close()
	runs := [][2]int{{8, 3000}, {16, 2000}, {32, 500}}
	if a.Replay != "" {
		runs = nil
		for _, l := range lib.ReplayLines(a.Replay) {
			if l[0] == "tss.race" {
				f := lib.Fields(l[2])
				runs = append(runs, [2]int{int(lib.ParseI(f[0])), int(lib.ParseI(f[1]))})
			}
		}
	}
	for i, rn := range runs {
		cmd := exec.Command(os.Args[0], "child", strconv.Itoa(rn[0]), strconv.Itoa(rn[1]), strconv.FormatUint(a.Seed+uint64(i), 10))
		cmd.Env = append(os.Environ(), "GORACE=halt_on_error=1 exitcode=66")
		done := make(chan struct{})
		var out []byte
		var err error
		go func() { out, err = cmd.CombinedOutput(); close(done) }()
		status := int64(0)
		select {
		case <-done:
			if err != nil {
				status = 1
				if ee, ok := err.(*exec.ExitError); ok {
					status = int64(ee.ExitCode())
				}
			}
		case <-time.After(15 * time.Minute):
			_ = cmd.Process.Kill()
			<-done
			status = 124
		}
		clients, counts := "[]", "[]"
		race := int64(0)
		for _, line := range strings.Split(string(out), "\n") {
			if strings.HasPrefix(line, "CONC\t") {
				p := strings.Split(line, "\t")
				if len(p) == 3 {
					clients, counts = p[1], p[2]
				}
			} else if strings.Contains(line, "WARNING: DATA RACE") {
				race = 1
			}
		}
		if status != 0 {
			fmt.Println("NOTE race run", rn, "exit status", status, "output tail:", tail(string(out), 600))
		}
		w.Case("tss.race", "nt,race", lib.V(lib.I(int64(rn[0])), lib.I(int64(rn[1])), lib.U(a.Seed+uint64(i))),
			lib.V(lib.I(status), lib.I(race), clients, counts))
	}
}

func tail(s string, n int) string {
	s = strings.ReplaceAll(s, "\n", " | ")
	if len(s) > n {
		s = s[len(s)-n:]
	}
	// a line of observations is not part of the diagnostics
	if i := strings.LastIndex(s, "CONC"); i >= 0 {
		s = s[:i]
	}
	return s
}
