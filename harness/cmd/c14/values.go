package main

import (
	"encoding/hex"
	"math/big"
	"strings"
)

// Val is one value of the case-file syntax: integer, byte string or list.
type Val struct {
	K int // 0 int, 1 bytes, 2 list
	I *big.Int
	B []byte
	L []Val
}

func VI(x int64) Val   { return Val{K: 0, I: big.NewInt(x)} }
func VU(x uint64) Val  { return Val{K: 0, I: new(big.Int).SetUint64(x)} }
func VBy(b []byte) Val { return Val{K: 1, B: append([]byte(nil), b...)} }
func VL(xs ...Val) Val { return Val{K: 2, L: xs} }
func VBool(b bool) Val {
	if b {
		return VI(1)
	}
	return VI(0)
}

func (v Val) Int() int64   { return v.I.Int64() }
func (v Val) Uint() uint64 { return v.I.Uint64() }

func (v Val) String() string {
	switch v.K {
	case 0:
		return v.I.String()
	case 1:
		return "x" + hex.EncodeToString(v.B)
	default:
		s := make([]string, len(v.L))
		for i, x := range v.L {
			s[i] = x.String()
		}
		return "[" + strings.Join(s, " ") + "]"
	}
}

func fmtVals(vs []Val) string {
	s := make([]string, len(vs))
	for i, x := range vs {
		s[i] = x.String()
	}
	return strings.Join(s, " ")
}

// parseVals parses the args field of a case line.
func parseVals(s string) []Val {
	pos := 0
	var list func(closing bool) []Val
	list = func(closing bool) []Val {
		var out []Val
		for {
			for pos < len(s) && s[pos] == ' ' {
				pos++
			}
			if pos >= len(s) {
				if closing {
					panic("unterminated list")
				}
				return out
			}
			if s[pos] == ']' {
				if !closing {
					panic("unexpected ]")
				}
				pos++
				return out
			}
			if s[pos] == '[' {
				pos++
				out = append(out, Val{K: 2, L: list(true)})
				continue
			}
			st := pos
			for pos < len(s) && s[pos] != ' ' && s[pos] != ']' && s[pos] != '[' {
				pos++
			}
			tok := s[st:pos]
			if tok[0] == 'x' {
				b, err := hex.DecodeString(tok[1:])
				if err != nil {
					panic(err)
				}
				out = append(out, Val{K: 1, B: b})
			} else {
				z, ok := new(big.Int).SetString(tok, 10)
				if !ok {
					panic("bad integer " + tok)
				}
				out = append(out, Val{K: 0, I: z})
			}
		}
	}
	return list(false)
}
