package main

import (
	"example.com/scion-time/net/csptp"

	"verifharness/lib"
)

func be48(s [6]uint8) uint64 {
	var x uint64
	for _, b := range s {
		x = x<<8 | uint64(b)
	}
	return x
}
func arr48(x uint64) [6]uint8 {
	return [6]uint8{uint8(x >> 40), uint8(x >> 32), uint8(x >> 24), uint8(x >> 16), uint8(x >> 8), uint8(x)}
}
func be24(s [3]uint8) uint64  { return uint64(s[0])<<16 | uint64(s[1])<<8 | uint64(s[2]) }
func arr24(x uint64) [3]uint8 { return [3]uint8{uint8(x >> 16), uint8(x >> 8), uint8(x)} }

func msgFields(m *csptp.Message) Val {
	return VL(VU(uint64(m.SdoIDMessageType)), VU(uint64(m.PTPVersion)), VU(uint64(m.MessageLength)),
		VU(uint64(m.DomainNumber)), VU(uint64(m.MinorSdoID)), VU(uint64(m.FlagField)), VI(m.CorrectionField),
		VU(uint64(m.MessageTypeSpecific)), VU(m.SourcePortIdentity.ClockID), VU(uint64(m.SourcePortIdentity.Port)),
		VU(uint64(m.SequenceID)), VU(uint64(m.ControlField)), VI(int64(m.LogMessageInterval)),
		VU(be48(m.Timestamp.Seconds)), VU(uint64(m.Timestamp.Nanoseconds)))
}

func msgFromFields(v Val) csptp.Message {
	f := v.L
	return csptp.Message{
		SdoIDMessageType: uint8(f[0].Uint()), PTPVersion: uint8(f[1].Uint()), MessageLength: uint16(f[2].Uint()),
		DomainNumber: uint8(f[3].Uint()), MinorSdoID: uint8(f[4].Uint()), FlagField: uint16(f[5].Uint()),
		CorrectionField: f[6].Int(), MessageTypeSpecific: uint32(f[7].Uint()),
		SourcePortIdentity: csptp.PortID{ClockID: f[8].Uint(), Port: uint16(f[9].Uint())},
		SequenceID:         uint16(f[10].Uint()), ControlField: uint8(f[11].Uint()), LogMessageInterval: int8(f[12].Int()),
		Timestamp: csptp.Timestamp{Seconds: arr48(f[13].Uint()), Nanoseconds: uint32(f[14].Uint())},
	}
}

func reqFields(t *csptp.RequestTLV) Val {
	return VL(VU(uint64(t.Type)), VU(uint64(t.Length)), VU(be24(t.OrganizationID)), VU(be24(t.OrganizationSubType)),
		VU(uint64(t.FlagField)))
}

func reqFromFields(v Val) csptp.RequestTLV {
	f := v.L
	return csptp.RequestTLV{Type: uint16(f[0].Uint()), Length: uint16(f[1].Uint()), OrganizationID: arr24(f[2].Uint()),
		OrganizationSubType: arr24(f[3].Uint()), FlagField: uint32(f[4].Uint())}
}

func respFields(t *csptp.ResponseTLV) Val {
	s := &t.ServerStateDS
	return VL(VU(uint64(t.Type)), VU(uint64(t.Length)), VU(be24(t.OrganizationID)), VU(be24(t.OrganizationSubType)),
		VU(uint64(t.FlagField)), VU(uint64(t.Error)), VU(be48(t.RequestIngressTimestamp.Seconds)),
		VU(uint64(t.RequestIngressTimestamp.Nanoseconds)), VI(t.RequestCorrectionField), VI(int64(t.UTCOffset)),
		VU(uint64(s.GMPriority1)), VU(uint64(s.GMClockClass)), VU(uint64(s.GMClockAccuracy)), VU(uint64(s.GMClockVariance)),
		VU(uint64(s.GMPriority2)), VU(s.GMClockID), VU(uint64(s.StepsRemoved)), VU(uint64(s.TimeSource)), VU(uint64(s.Reserved)))
}

func respFromFields(v Val) csptp.ResponseTLV {
	f := v.L
	return csptp.ResponseTLV{Type: uint16(f[0].Uint()), Length: uint16(f[1].Uint()), OrganizationID: arr24(f[2].Uint()),
		OrganizationSubType: arr24(f[3].Uint()), FlagField: uint32(f[4].Uint()), Error: uint16(f[5].Uint()),
		RequestIngressTimestamp: csptp.Timestamp{Seconds: arr48(f[6].Uint()), Nanoseconds: uint32(f[7].Uint())},
		RequestCorrectionField:  f[8].Int(), UTCOffset: int16(f[9].Int()),
		ServerStateDS: csptp.ServerStateDS{GMPriority1: uint8(f[10].Uint()), GMClockClass: uint8(f[11].Uint()),
			GMClockAccuracy: uint8(f[12].Uint()), GMClockVariance: uint16(f[13].Uint()), GMPriority2: uint8(f[14].Uint()),
			GMClockID: f[15].Uint(), StepsRemoved: uint16(f[16].Uint()), TimeSource: uint8(f[17].Uint()), Reserved: uint8(f[18].Uint())},
	}
}

// one CSPTP value of kind k (0 message, 1 request TLV, 2 response TLV) behind a common face
type csVal struct {
	k int
	m csptp.Message
	q csptp.RequestTLV
	r csptp.ResponseTLV
}

func csFrom(k int, v Val) *csVal {
	c := &csVal{k: k}
	switch k {
	case 0:
		c.m = msgFromFields(v)
	case 1:
		c.q = reqFromFields(v)
	default:
		c.r = respFromFields(v)
	}
	return c
}
func (c *csVal) fields() Val {
	switch c.k {
	case 0:
		return msgFields(&c.m)
	case 1:
		return reqFields(&c.q)
	default:
		return respFields(&c.r)
	}
}
func (c *csVal) encode(b []byte) {
	switch c.k {
	case 0:
		csptp.EncodeMessage(b, &c.m)
	case 1:
		csptp.EncodeRequestTLV(b, &c.q)
	default:
		csptp.EncodeResponseTLV(b, &c.r)
	}
}
func (c *csVal) decode(b []byte) error {
	switch c.k {
	case 0:
		return csptp.DecodeMessage(&c.m, b)
	case 1:
		return csptp.DecodeRequestTLV(&c.q, b)
	default:
		return csptp.DecodeResponseTLV(&c.r, b)
	}
}

// the length the implementation declares for the value
func (c *csVal) declared() int {
	switch c.k {
	case 0:
		return csptp.MinMessageLength
	case 1:
		return csptp.EncodedRequestTLVLength(&c.q)
	default:
		return csptp.EncodedResponseTLVLength(&c.r)
	}
}

var csName = []string{"csptp.msg", "csptp.req", "csptp.resp"}

// csptp.X.enc: [fields], buffer -> panicked, buffer after, declared length, decode ok, [decoded fields], decode of one byte fewer ok
func runCsEnc(k int) func(string, []Val) {
	return func(tags string, a []Val) {
		c := csFrom(k, a[0])
		buf := append([]byte(nil), a[1].B...)
		pan := didPanic(func() { c.encode(buf) })
		if pan { // what a panicking encoder wrote before it stopped is not an observable
			buf = append([]byte(nil), a[1].B...)
		}
		n := c.declared()
		d := csFrom(k, c.fields()) // decode into a copy holding different leftovers
		var derr, serr error
		var dec Val
		if pan {
			dec = VL()
		} else {
			z := csFrom(k, zeroFields(k))
			derr = z.decode(buf)
			dec = z.fields()
			serr = d.decode(buf[:n-1])
		}
		w.Case(csName[k]+".enc", tags, fmtVals(a), fmtVals([]Val{VBool(pan), VBy(buf), VI(int64(n)),
			VBool(!pan && derr == nil), dec, VBool(!pan && serr == nil)}))
	}
}

func zeroFields(k int) Val {
	n := []int{15, 5, 19}[k]
	z := make([]Val, n)
	for i := range z {
		z[i] = VI(0)
	}
	return VL(z...)
}

// csptp.X.dec: bytes, [fields of the value decoded into] -> ok, [fields], declared length, re-encoding into a zeroed buffer of that length
func runCsDec(k int) func(string, []Val) {
	return func(tags string, a []Val) {
		c := csFrom(k, a[1])
		var err error
		watchInput(int64(inCsMsg+k), a[0].B, nil, func() { err = c.decode(a[0].B) })
		n := c.declared()
		re := make([]byte, n)
		if err == nil {
			c.encode(re)
		} else {
			re = nil
		}
		w.Case(csName[k]+".dec", tags, fmtVals(a), fmtVals([]Val{VBool(err == nil), c.fields(), VI(int64(n)), VBy(re)}))
	}
}

// csptp.hist: kind, [fields], buffer, [ops] -> [observations]; one value and one buffer are reused.
// ops: [0] encode into the buffer; [1 bytes] decode; [2 bytes] replace the buffer; [3 [fields]] assign
func runCsHist(tags string, a []Val) {
	k := int(a[0].Int())
	c := csFrom(k, a[1])
	buf := append([]byte(nil), a[2].B...)
	var obs []Val
	for _, op := range a[3].L {
		switch op.L[0].Int() {
		case 0:
			save := append([]byte(nil), buf...)
			pan := didPanic(func() { c.encode(buf) })
			if pan { // what a panicking encoder wrote before it stopped is not an observable
				buf = save
			}
			obs = append(obs, VL(VBool(pan), VBy(buf)))
		case 1:
			err := c.decode(op.L[1].B)
			obs = append(obs, VL(VBool(err == nil), c.fields()))
		case 2:
			buf = append([]byte(nil), op.L[1].B...)
			obs = append(obs, VL())
		default:
			c = csFrom(k, op.L[1])
			obs = append(obs, VL())
		}
	}
	w.Case("csptp.hist", tags, fmtVals(a), fmtVals([]Val{VL(obs...)}))
}

var csBits = [][]uint{
	{8, 8, 16, 8, 8, 16, 64, 32, 64, 16, 16, 8, 8, 48, 32},
	{16, 16, 24, 24, 32},
	{16, 16, 24, 24, 32, 16, 48, 32, 64, 16, 8, 8, 8, 16, 8, 64, 16, 8, 8},
}
var csSigned = []map[int]bool{{6: true, 12: true}, {}, {8: true, 9: true}}

func csFieldVal(k, i int, x uint64) Val {
	bits := csBits[k][i]
	if csSigned[k][i] {
		switch bits {
		case 8:
			return VI(int64(int8(x)))
		case 16:
			return VI(int64(int16(x)))
		default:
			return VI(int64(x))
		}
	}
	return VU(x)
}

// a value with every field inside its Go type; flagMode: 0 random, 1 ServerStateDS flag set, 2 clear
func genCs(r *lib.Rng, k int, flagMode int) Val {
	f := make([]Val, len(csBits[k]))
	for i, bits := range csBits[k] {
		var x uint64
		if r.Intn(3) == 0 {
			x = genDistinct(r, bits)
		} else {
			x = genU(r, bits)
		}
		f[i] = csFieldVal(k, i, x)
	}
	if k > 0 {
		fl := f[4].Uint()
		switch flagMode {
		case 1:
			fl |= 1
		case 2:
			fl &^= 1
		default:
			if r.Bool() {
				fl ^= 1
			}
		}
		f[4] = VU(fl)
	}
	return VL(f...)
}

func csExact(r *lib.Rng, n int) []byte {
	b := r.Bytes(n)
	for i := range b {
		if b[i] == 0 {
			b[i] = 0x5a
		}
	}
	return b
}

func csBuf(r *lib.Rng, n int) []byte {
	// lengths around the declared ones, filled with non-zero bytes
	l := lib.Pick(r, n, n, n, n-1, n+1, 0, 13, 14, 35, 36, 37, 43, 44, 45, 53, 54, 55, 98, n+r.Intn(40))
	if l < 0 {
		l = 0
	}
	b := r.Bytes(l)
	for i := range b {
		if b[i] == 0 {
			b[i] = 0x5a
		}
	}
	return b
}

func genCsptp(r *lib.Rng, thorough bool) {
	for k := 0; k < 3; k++ {
		enc, dec := runCsEnc(k), runCsDec(k)
		declared := func(v Val) int { return csFrom(k, v).declared() }
		// sweeps: 8-bit fields exhaustively; 16-bit fields fully in the thorough tier
		for i, bits := range csBits[k] {
			base := genCs(r, k, 1)
			if k == 2 && i < 10 && r.Bool() {
				base = genCs(r, k, 0)
				if base.L[4].Uint()&1 == 0 {
					for j := 10; j < 19; j++ {
						base.L[j] = VI(0)
					}
				}
			}
			if bits == 8 || bits == 16 {
				for v := 0; v < 1<<bits; v++ {
					if bits == 16 && !thorough {
						lo, hi := v&255, v>>8
						if !(lo == 0 || lo == 255 || hi == 0 || hi == 255 || lo == hi || lo == (hi*5+i)&255) {
							continue
						}
					}
					f := append([]Val(nil), base.L...)
					f[i] = csFieldVal(k, i, uint64(v))
					val := VL(f...)
					enc("nt,sweep", []Val{val, VBy(csExact(r, declared(val)))})
				}
			}
		}
		n := 1200
		if thorough {
			n = 30000
		}
		for j := 0; j < n; j++ {
			v := genCs(r, k, 0)
			if k == 2 && v.L[4].Uint()&1 == 0 && r.Intn(8) != 0 {
				// the stated well-formedness: no ServerStateDS content without the flag
				for i := 10; i < 19; i++ {
					v.L[i] = VI(0)
				}
			}
			tags := "nt"
			if k == 2 && v.L[4].Uint()&1 == 0 {
				nz := false
				for i := 10; i < 19; i++ {
					nz = nz || v.L[i].I.Sign() != 0
				}
				if nz {
					tags = "nt,illformed"
				}
			}
			enc(tags, []Val{v, VBy(csBuf(r, declared(v)))})
		}
		for j := 0; j < n; j++ {
			var b []byte
			switch r.Intn(6) {
			case 0:
				b = r.Bytes(r.Intn(60))
			case 1: // a valid encoding with trailing bytes or cut short
				v := genCs(r, k, 0)
				c := csFrom(k, v)
				b = make([]byte, c.declared()+r.Intn(3))
				c.encode(b)
				if r.Intn(3) == 0 {
					b = b[:r.Intn(len(b)+1)]
				}
			default:
				l := lib.Pick(r, 44, 36, 54, 54, 98)
				b = r.Bytes(l)
				if k > 0 && r.Bool() {
					b[13] ^= 1
				}
			}
			dec("nt", []Val{VBy(b), genCs(r, k, 0)})
		}
		m := 250
		if thorough {
			m = 5000
		}
		for j := 0; j < m; j++ {
			var ops []Val
			steps := 2 + r.Intn(8)
			for s := 0; s < steps; s++ {
				switch r.Intn(6) {
				case 0, 1:
					ops = append(ops, VL(VI(0)))
				case 2, 3:
					l := lib.Pick(r, 44, 36, 54, 54, 35, 53, 13, 14, 60)
					b := r.Bytes(l)
					if k > 0 && l > 13 && r.Bool() {
						b[13] ^= 1
					}
					ops = append(ops, VL(VI(1), VBy(b)))
				case 4:
					ops = append(ops, VL(VI(2), VBy(csBuf(r, lib.Pick(r, 36, 44, 54)))))
				default:
					ops = append(ops, VL(VI(3), genCs(r, k, 0)))
				}
			}
			runCsHist("nt,hist", []Val{VI(int64(k)), genCs(r, k, 0), VBy(csBuf(r, lib.Pick(r, 44, 54, 54, 60))), VL(ops...)})
		}
	}
}
