// C14: drives the exported wire codecs of net/ntp, net/csptp, net/nts and
// net/ntske (encode, decode, re-encode, chunked NTS-KE reads) on generated
// values and byte strings and records what they did.
package main

import (
	"fmt"
	"os"

	"verifharness/lib"
)

var w *lib.Writer

var runners = map[string]func(tags string, a []Val){
	"ntp.enc":  runNtpEnc,
	"ntp.dec":  runNtpDec,
	"ntp.set":  runNtpSet,
	"ntp.hist": runNtpHist,

	"csptp.msg.enc": runCsEnc(0), "csptp.req.enc": runCsEnc(1), "csptp.resp.enc": runCsEnc(2),
	"csptp.msg.dec": runCsDec(0), "csptp.req.dec": runCsDec(1), "csptp.resp.dec": runCsDec(2),
	"csptp.hist": runCsHist,

	"ke.records": runKeRecords, "ke.stream": runKeStream,

	"ck.enc": runCkEnc, "ck.dec": runCkDec, "ck.crypt": runCkCrypt,

	"nts.enc": runNtsEnc, "nts.dec": runNtsDec, "nts.resp": runNtsResp, "nts.pos": runNtsPos, "nts.req": runNtsReq, "nts.redec": runNtsRedec, "nts.fmt": runNtsFmt,

	"dec.input": runDecInput,
}

func main() {
	a := lib.ParseArgs()
	w = lib.NewWriter(a.Out)
	defer w.Close()
	if a.Replay != "" {
		for _, c := range lib.ReplayLines(a.Replay) {
			f, ok := runners[c[0]]
			if !ok {
				fmt.Fprintln(os.Stderr, "unknown case kind", c[0])
				os.Exit(2)
			}
			f(c[1], parseVals(c[2]))
		}
		return
	}
	r := lib.NewRng(a.Seed)
	thorough := a.Tier == "thorough"
	genNtp(r.Fork(), thorough)
	genCsptp(r.Fork(), thorough)
	genNtske(r.Fork(), thorough)
	genCookies(r.Fork(), thorough)
	genNts(r.Fork(), thorough)
}
