package main

import (
	"example.com/scion-time/net/ntp"

	"verifharness/lib"
)

// field order of the model's ntp_layout
func ntpFields(p *ntp.Packet) Val {
	return VL(VU(uint64(p.LVM)), VU(uint64(p.Stratum)), VI(int64(p.Poll)), VI(int64(p.Precision)),
		VU(uint64(p.RootDelay.Seconds)), VU(uint64(p.RootDelay.Fraction)),
		VU(uint64(p.RootDispersion.Seconds)), VU(uint64(p.RootDispersion.Fraction)),
		VU(uint64(p.ReferenceID)),
		VU(uint64(p.ReferenceTime.Seconds)), VU(uint64(p.ReferenceTime.Fraction)),
		VU(uint64(p.OriginTime.Seconds)), VU(uint64(p.OriginTime.Fraction)),
		VU(uint64(p.ReceiveTime.Seconds)), VU(uint64(p.ReceiveTime.Fraction)),
		VU(uint64(p.TransmitTime.Seconds)), VU(uint64(p.TransmitTime.Fraction)))
}

func ntpFromFields(v Val) ntp.Packet {
	f := v.L
	return ntp.Packet{
		LVM: uint8(f[0].Uint()), Stratum: uint8(f[1].Uint()), Poll: int8(f[2].Int()), Precision: int8(f[3].Int()),
		RootDelay:      ntp.Time32{Seconds: uint16(f[4].Uint()), Fraction: uint16(f[5].Uint())},
		RootDispersion: ntp.Time32{Seconds: uint16(f[6].Uint()), Fraction: uint16(f[7].Uint())},
		ReferenceID:    uint32(f[8].Uint()),
		ReferenceTime:  ntp.Time64{Seconds: uint32(f[9].Uint()), Fraction: uint32(f[10].Uint())},
		OriginTime:     ntp.Time64{Seconds: uint32(f[11].Uint()), Fraction: uint32(f[12].Uint())},
		ReceiveTime:    ntp.Time64{Seconds: uint32(f[13].Uint()), Fraction: uint32(f[14].Uint())},
		TransmitTime:   ntp.Time64{Seconds: uint32(f[15].Uint()), Fraction: uint32(f[16].Uint())},
	}
}

// didPanic runs f and reports whether it panicked.
func didPanic(f func()) (p bool) {
	defer func() {
		if recover() != nil {
			p = true
		}
	}()
	f()
	return false
}

// ntp.enc: [fields] [bufcap] -> enc, decode ok, decoded fields, leap, version, mode
func runNtpEnc(tags string, a []Val) {
	p := ntpFromFields(a[0])
	var b []byte
	if c := int(a[1].Int()); c > 0 { // a caller-supplied buffer with stale content
		b = make([]byte, c)
		for i := range b {
			b[i] = 0xa5
		}
		b = b[:c/2]
	}
	ntp.EncodePacket(&b, &p)
	enc := append([]byte(nil), b...)
	var q ntp.Packet
	err := ntp.DecodePacket(&q, b)
	w.Case("ntp.enc", tags, fmtVals(a), fmtVals([]Val{VBy(enc), VBool(err == nil), ntpFields(&q),
		VU(uint64(q.LeapIndicator())), VU(uint64(q.Version())), VU(uint64(q.Mode()))}))
}

// ntp.dec: bytes, [fields of the packet decoded into] -> ok, fields, re-encoded, leap, version, mode
func runNtpDec(tags string, a []Val) {
	p := ntpFromFields(a[1])
	var err error
	watchInput(inNtp, a[0].B, nil, func() { err = ntp.DecodePacket(&p, a[0].B) })
	var b []byte
	ntp.EncodePacket(&b, &p)
	w.Case("ntp.dec", tags, fmtVals(a), fmtVals([]Val{VBool(err == nil), ntpFields(&p), VBy(b),
		VU(uint64(p.LeapIndicator())), VU(uint64(p.Version())), VU(uint64(p.Mode()))}))
}

// ntp.set: which (0 leap, 1 version, 2 mode), lvm, argument -> panicked, lvm, leap, version, mode
func runNtpSet(tags string, a []Val) {
	p := ntp.Packet{LVM: uint8(a[1].Uint())}
	v := uint8(a[2].Uint())
	pan := didPanic(func() {
		switch a[0].Int() {
		case 0:
			p.SetLeapIndicator(v)
		case 1:
			p.SetVersion(v)
		default:
			p.SetMode(v)
		}
	})
	w.Case("ntp.set", tags, fmtVals(a), fmtVals([]Val{VBool(pan), VU(uint64(p.LVM)),
		VU(uint64(p.LeapIndicator())), VU(uint64(p.Version())), VU(uint64(p.Mode()))}))
}

// ntp.hist: [fields], [ops] -> [observations]; one Packet and one buffer are reused
// by every step.  ops: [0] encode; [1 bytes] decode; [2|3|4 v] set leap|version|mode;
// [5 [fields]] assign all fields
func runNtpHist(tags string, a []Val) {
	p := ntpFromFields(a[0])
	var buf []byte
	var obs []Val
	for _, op := range a[1].L {
		switch op.L[0].Int() {
		case 0:
			ntp.EncodePacket(&buf, &p)
			obs = append(obs, VBy(buf))
		case 1:
			err := ntp.DecodePacket(&p, op.L[1].B)
			obs = append(obs, VL(VBool(err == nil), ntpFields(&p)))
		case 2, 3, 4:
			v := uint8(op.L[1].Uint())
			k := op.L[0].Int()
			pan := didPanic(func() {
				switch k {
				case 2:
					p.SetLeapIndicator(v)
				case 3:
					p.SetVersion(v)
				default:
					p.SetMode(v)
				}
			})
			obs = append(obs, VL(VBool(pan), VU(uint64(p.LVM)), VU(uint64(p.LeapIndicator())),
				VU(uint64(p.Version())), VU(uint64(p.Mode()))))
		default:
			p = ntpFromFields(op.L[1])
			obs = append(obs, VL())
		}
	}
	w.Case("ntp.hist", tags, fmtVals(a), fmtVals([]Val{VL(obs...)}))
}

// boundary-dense value of an n-bit unsigned field
func genU(r *lib.Rng, bits uint) uint64 {
	max := uint64(1)<<bits - 1
	if bits == 64 {
		max = ^uint64(0)
	}
	switch r.Intn(8) {
	case 0:
		return 0
	case 1:
		return max
	case 2:
		return uint64(r.Intn(4))
	case 3:
		return max - uint64(r.Intn(4))
	case 4: // around the sign bit and byte boundaries
		k := uint(r.Intn(int(bits)))
		return ((uint64(1) << k) + uint64(r.Range(-1, 1))) & max
	case 5: // a single non-zero byte: shows swapped or dropped bytes
		k := uint(r.Intn(int(bits / 8)))
		return (uint64(r.Range(1, 255)) << (8 * k)) & max
	default:
		return r.U64() & max
	}
}

// all bytes distinct: any two swapped bytes show
func genDistinct(r *lib.Rng, bits uint) uint64 {
	var x uint64
	seen := map[byte]bool{}
	for i := uint(0); i < bits/8; i++ {
		b := byte(r.Range(1, 255))
		for seen[b] {
			b = byte(r.Range(1, 255))
		}
		seen[b] = true
		x = x<<8 | uint64(b)
	}
	return x
}

func genNtpPacket(r *lib.Rng) ntp.Packet {
	g := func(bits uint) uint64 {
		if r.Intn(3) == 0 {
			return genDistinct(r, bits)
		}
		return genU(r, bits)
	}
	return ntp.Packet{
		LVM: uint8(g(8)), Stratum: uint8(g(8)), Poll: int8(g(8)), Precision: int8(g(8)),
		RootDelay:      ntp.Time32{Seconds: uint16(g(16)), Fraction: uint16(g(16))},
		RootDispersion: ntp.Time32{Seconds: uint16(g(16)), Fraction: uint16(g(16))},
		ReferenceID:    uint32(g(32)),
		ReferenceTime:  ntp.Time64{Seconds: uint32(g(32)), Fraction: uint32(g(32))},
		OriginTime:     ntp.Time64{Seconds: uint32(g(32)), Fraction: uint32(g(32))},
		ReceiveTime:    ntp.Time64{Seconds: uint32(g(32)), Fraction: uint32(g(32))},
		TransmitTime:   ntp.Time64{Seconds: uint32(g(32)), Fraction: uint32(g(32))},
	}
}

func setNtpField(p *ntp.Packet, i int, v uint64) {
	f := ntpFields(p)
	if i == 2 || i == 3 {
		f.L[i] = VI(int64(int8(v)))
	} else {
		f.L[i] = VU(v)
	}
	*p = ntpFromFields(f)
}

var ntpBits = []uint{8, 8, 8, 8, 16, 16, 16, 16, 32, 32, 32, 32, 32, 32, 32, 32, 32}

func genNtp(r *lib.Rng, thorough bool) {
	// 8-bit fields exhaustively, the other fields fixed
	for i := 0; i < 4; i++ {
		base := genNtpPacket(r)
		for v := 0; v < 256; v++ {
			p := base
			setNtpField(&p, i, uint64(v))
			runNtpEnc("nt,sweep8", []Val{ntpFields(&p), VI(0)})
		}
	}
	// 16-bit fields: every value in the thorough tier; in the quick tier every high byte
	// with a few low bytes and every low byte with a few high bytes
	for i := 4; i < 8; i++ {
		base := genNtpPacket(r)
		for v := 0; v < 65536; v++ {
			if !thorough {
				lo, hi := v&255, v>>8
				if !(lo == 0 || lo == 255 || hi == 0 || hi == 255 || lo == hi || lo == (hi*7+i)&255) {
					continue
				}
			}
			p := base
			setNtpField(&p, i, uint64(v))
			runNtpEnc("nt,sweep16", []Val{ntpFields(&p), VI(0)})
		}
	}
	// all 256 first bytes through the decoder
	for v := 0; v < 256; v++ {
		b := r.Bytes(48 + r.Intn(3))
		b[0] = byte(v)
		p0 := genNtpPacket(r)
		runNtpDec("nt,sweep8", []Val{VBy(b), ntpFields(&p0)})
	}
	n := 1500
	if thorough {
		n = 40000
	}
	for k := 0; k < n; k++ {
		p := genNtpPacket(r)
		runNtpEnc("nt", []Val{ntpFields(&p), VI(lib.Pick(r, int64(0), 0, 20, 47, 48, 49, 96, 200))})
	}
	for k := 0; k < n; k++ {
		var b []byte
		tags := "nt"
		switch r.Intn(8) {
		case 0: // short input: error, packet untouched
			b = r.Bytes(r.Intn(48))
			tags = "short"
		case 1:
			b = r.Bytes(47)
			tags = "short"
		case 2: // trailing bytes are ignored
			b = r.Bytes(48 + r.Intn(100))
		default:
			b = r.Bytes(48)
		}
		p0 := genNtpPacket(r)
		runNtpDec(tags, []Val{VBy(b), ntpFields(&p0)})
	}
	// setters: all (lvm, argument) pairs for arguments 0..15 and a few large ones
	for which := 0; which < 3; which++ {
		for lvm := 0; lvm < 256; lvm++ {
			args := []int{0, 1, 2, 3, 4, 5, 6, 7, 8, 9, 15, 16, 64, 128, 192, 255, r.Intn(256)}
			if thorough {
				args = args[:0]
				for v := 0; v < 256; v++ {
					args = append(args, v)
				}
			}
			for _, v := range args {
				runNtpSet("nt", []Val{VI(int64(which)), VI(int64(lvm)), VI(int64(v))})
			}
		}
	}
	// histories on one packet and one buffer
	m := 300
	if thorough {
		m = 6000
	}
	for k := 0; k < m; k++ {
		p := genNtpPacket(r)
		var ops []Val
		steps := 2 + r.Intn(10)
		for s := 0; s < steps; s++ {
			switch r.Intn(7) {
			case 0, 1:
				ops = append(ops, VL(VI(0)))
			case 2:
				ops = append(ops, VL(VI(1), VBy(r.Bytes(lib.Pick(r, 48, 48, 48, 47, 0, 60)))))
			case 3:
				ops = append(ops, VL(VI(2), VI(int64(lib.Pick(r, r.Intn(4), r.Intn(4), r.Intn(256))))))
			case 4:
				ops = append(ops, VL(VI(3), VI(int64(lib.Pick(r, r.Intn(8), r.Intn(8), r.Intn(256))))))
			case 5:
				ops = append(ops, VL(VI(4), VI(int64(lib.Pick(r, r.Intn(8), r.Intn(8), r.Intn(256))))))
			default:
				q := genNtpPacket(r)
				ops = append(ops, VL(VI(5), ntpFields(&q)))
			}
		}
		runNtpHist("nt,hist", []Val{ntpFields(&p), VL(ops...)})
	}
}
