package main

import (
	"bytes"
	"crypto/rand"
	"io"
	"strings"

	"example.com/scion-time/net/nts"

	"verifharness/lib"
)

// tapeReader stands in for crypto/rand.Reader: the nonce of the authenticator is scripted.
type tapeReader struct{ tape []byte }

func (t *tapeReader) Read(p []byte) (int, error) {
	for i := range p {
		if len(t.tape) == 0 {
			p[i] = 0
			continue
		}
		p[i] = t.tape[0]
		t.tape = t.tape[1:]
	}
	return len(p), nil
}

func withTape(tape []byte, f func()) {
	old := rand.Reader
	rand.Reader = &tapeReader{tape: append([]byte(nil), tape...)}
	defer func() { rand.Reader = old }()
	f()
}

func ntsErrClass(err error) int64 {
	if err == nil {
		return 0
	}
	m := err.Error()
	switch {
	case strings.Contains(m, "exceeds maximum"):
		return 1
	case strings.Contains(m, "extension field length < 4"):
		return 2
	case strings.Contains(m, "UniqueIdentifier.ID < 32"):
		return 3
	case strings.Contains(m, "does not contain a unique identifier"):
		return 4
	case strings.Contains(m, "does not contain an authenticator"):
		return 5
	}
	return 8
}

func ntsPktVal(p *nts.Packet) Val {
	cs := make([]Val, len(p.Cookies))
	for i, c := range p.Cookies {
		cs[i] = VL(VU(uint64(c.Type)), VU(uint64(c.Length)), VBy(c.Cookie))
	}
	ps := make([]Val, len(p.CookiePlaceholders))
	for i, c := range p.CookiePlaceholders {
		ps[i] = VL(VU(uint64(c.Type)), VU(uint64(c.Length)))
	}
	return VL(VL(VU(uint64(p.UniqueID.Type)), VU(uint64(p.UniqueID.Length)), VBy(p.UniqueID.ID)),
		VL(cs...), VL(ps...),
		VL(VU(uint64(p.Auth.Type)), VU(uint64(p.Auth.Length)), VBy(p.Auth.Nonce), VBy(p.Auth.CipherText)))
}

// nts.enc: header(48), stale tail of the caller's 1024-byte buffer (empty: small buffer), id,
// [cookies], [placeholder bodies], key, plaintext, nonce tape
// -> panicked, encoding, decode error class, decoded packet, authenticates under the key
func runNtsEnc(tags string, a []Val) {
	hdr, tail := a[0].B, a[1].B
	var pkt nts.Packet
	pkt.UniqueID.ID = a[2].B
	for _, c := range a[3].L {
		pkt.Cookies = append(pkt.Cookies, nts.Cookie{Cookie: c.B})
	}
	for _, c := range a[4].L {
		pkt.CookiePlaceholders = append(pkt.CookiePlaceholders, nts.CookiePlaceholder{Cookie: c.B})
	}
	pkt.Auth.Key = a[5].B
	pkt.Auth.PlainText = a[6].B
	var b []byte
	if len(tail) == 0 {
		b = append([]byte(nil), hdr...)
		b = b[:len(b):len(b)]
	} else {
		b = append(append(make([]byte, 0, len(hdr)+len(tail)), hdr...), tail...)[:len(hdr)]
	}
	var pan bool
	withTape(a[7].B, func() { pan = didPanic(func() { nts.EncodePacket(&b, &pkt) }) })
	if pan {
		w.Case("nts.enc", tags, fmtVals(a), fmtVals([]Val{VI(1), VBy(nil), VI(0), VL(), VI(0)}))
		return
	}
	enc := append([]byte(nil), b...)
	var d nts.Packet
	err := nts.DecodePacket(&d, enc)
	authOK := false
	if err == nil {
		var d2 nts.Packet
		if nts.DecodePacket(&d2, enc) == nil {
			authOK = nts.ProcessRequest(enc, a[5].B, &d2) == nil
		}
	}
	w.Case("nts.enc", tags, fmtVals(a), fmtVals([]Val{VI(0), VBy(enc), VI(ntsErrClass(err)), ntsPktVal(&d), VBool(authOK)}))
}

// nts.dec: [byte strings] decoded one after the other into one Packet -> [[error class, packet] ...]
func runNtsDec(tags string, a []Val) {
	var p nts.Packet
	var obs []Val
	for _, b := range a[0].L {
		err := nts.DecodePacket(&p, b.B)
		obs = append(obs, VL(VI(ntsErrClass(err)), ntsPktVal(&p)))
	}
	w.Case("nts.dec", tags, fmtVals(a), fmtVals([]Val{VL(obs...)}))
}

func nonZero(b []byte) []byte {
	for i := range b {
		if b[i] == 0 {
			b[i] = 0xc3
		}
	}
	return b
}

// a well-formed request/response shaped input; big: may exceed the packet size
func genNtsIn(r *lib.Rng, big bool) []Val {
	idLen := lib.Pick(r, 32, 32, 32, 33, 34, 35, 36, 40, 64, 32+r.Intn(40))
	if r.Intn(40) == 0 {
		idLen = lib.Pick(r, 0, 16, 31)
	}
	clen := lib.Pick(r, 100, 104, 124, 124, 1, 2, 3, 4, 5, 0, r.Intn(140))
	nc := lib.Pick(r, 1, 1, 1, 0, 2, 3, r.Intn(8))
	np := lib.Pick(r, 0, 0, 1, 2, 7, r.Intn(8))
	ptLen := lib.Pick(r, 0, 0, 0, 1, 2, 3, 104, 128, r.Intn(300))
	if !big {
		// keep 48 + fields within 1024 bytes
		for 48+4+idLen+3+(nc+np)*(4+clen+3)+8+16+ptLen+16+3 > 1024 {
			switch {
			case np > 0:
				np--
			case nc > 1:
				nc--
			case ptLen > 0:
				ptLen /= 2
			default:
				clen /= 2
			}
		}
	}
	var cs, ps []Val
	for i := 0; i < nc; i++ {
		l := clen
		if r.Intn(6) == 0 {
			l = r.Intn(clen + 2)
		}
		cs = append(cs, VBy(nonZero(r.Bytes(l))))
	}
	for i := 0; i < np; i++ {
		if r.Intn(4) == 0 {
			ps = append(ps, VBy(nonZero(r.Bytes(clen))))
		} else {
			ps = append(ps, VBy(make([]byte, clen)))
		}
	}
	var tail []byte
	if r.Bool() {
		tail = nonZero(r.Bytes(1024 - 48))
	}
	return []Val{VBy(r.Bytes(48)), VBy(tail), VBy(nonZero(r.Bytes(idLen))), VL(cs...), VL(ps...),
		VBy(r.Bytes(32)), VBy(genPlain(r, ptLen)), VBy(r.Bytes(16))}
}

// plaintext of the authenticator: up to 27 arbitrary bytes, or cookie extension fields
// (what a server encrypts), of about n bytes
func genPlain(r *lib.Rng, n int) []byte {
	if n < 28 {
		return r.Bytes(n)
	}
	var out []byte
	for len(out)+8 <= n {
		body := 4 * (1 + r.Intn(32))
		if len(out)+4+body > n {
			body = (n - len(out) - 4) / 4 * 4
		}
		l := 4 + body
		out = append(out, 0x02, 0x04, byte(l>>8), byte(l))
		out = append(out, r.Bytes(body)...)
	}
	return out
}

func encodeValid(r *lib.Rng) []byte {
	a := genNtsIn(r, false)
	var pkt nts.Packet
	pkt.UniqueID.ID = a[2].B
	if len(pkt.UniqueID.ID) < 32 {
		pkt.UniqueID.ID = r.Bytes(32)
	}
	for _, c := range a[3].L {
		pkt.Cookies = append(pkt.Cookies, nts.Cookie{Cookie: c.B})
	}
	for _, c := range a[4].L {
		pkt.CookiePlaceholders = append(pkt.CookiePlaceholders, nts.CookiePlaceholder{Cookie: c.B})
	}
	pkt.Auth.Key = a[5].B
	pkt.Auth.PlainText = a[6].B
	b := append([]byte(nil), a[0].B...)
	withTape(a[7].B, func() { nts.EncodePacket(&b, &pkt) })
	return b
}

func genNts(r *lib.Rng, thorough bool) {
	n := 1500
	if thorough {
		n = 30000
	}
	for k := 0; k < n; k++ {
		big := r.Intn(12) == 0
		a := genNtsIn(r, big)
		tags := "nt"
		if big {
			tags = "nt,big"
		}
		if len(a[4].L) > 0 {
			tags += ",placeholders"
		}
		if len(a[2].B)%4 != 0 {
			tags += ",unaligned"
		}
		runNtsEnc(tags, a)
	}
	// exactly at the size limit: 1024 fits, 1028 does not
	for k := 0; k < 40; k++ {
		a := genNtsIn(r, false)
		a[3] = VL(VBy(nonZero(r.Bytes(124))))
		a[4] = VL()
		a[2] = VBy(nonZero(r.Bytes(32)))
		// 48 + 36 + 128 + 8 + 16 + pad4(pt + 16) = 1024  <=>  pad4(pt+16) = 788
		l := 772 + lib.Pick(r, -4, 0, 0, 4) // one encrypted cookie field of exactly that length
		a[6] = VBy(append([]byte{0x02, 0x04, byte(l >> 8), byte(l)}, r.Bytes(l-4)...))
		runNtsEnc("nt,limit", a)
	}
	for k := 0; k < n; k++ {
		steps := 1 + r.Intn(3)
		var bs []Val
		tags := "nt,mutated"
		for s := 0; s < steps; s++ {
			b := encodeValid(r)
			switch r.Intn(10) {
			case 0:
				b = b[:r.Intn(len(b)+1)]
			case 1:
				b[48+r.Intn(len(b)-48)] ^= byte(1 << uint(r.Intn(8)))
			case 2: // a length field that lies
				b[51] = byte(lib.Pick(r, 0, 1, 3, 4, 5, 35, 36, 37, 255))
				if r.Bool() {
					b[50] = byte(r.Intn(5))
				}
			case 3: // unknown field type in front of the rest
				f := append([]byte{0x7, 0x4, 0, byte(4 * (1 + r.Intn(8)))}, r.Bytes(32)...)
				b = append(append(append([]byte(nil), b[:48]...), f[:int(f[3])]...), b[48:]...)
			case 4: // trailing bytes after the authenticator
				b = append(b, r.Bytes(1+r.Intn(60))...)
			case 5: // nonce / ciphertext lengths that do not fit the field
				i := bytes.LastIndex(b, []byte{0x04, 0x04})
				if i > 0 && i+8 <= len(b) {
					b[i+4+r.Intn(4)] ^= byte(1 + r.Intn(255))
				}
			case 6:
				b = r.Bytes(r.Intn(140))
				tags = "random"
			case 7: // no authenticator
				i := bytes.LastIndex(b, []byte{0x04, 0x04})
				if i > 48 {
					b = append(b[:i], r.Bytes(lib.Pick(r, 0, 27, 28, 40))...)
				}
			case 8: // more than the maximum packet length
				b = append(b, make([]byte, 1025-len(b)+r.Intn(3))...)
			default:
			}
			bs = append(bs, VBy(b))
		}
		if steps > 1 {
			tags += ",hist"
		}
		runNtsDec(tags, []Val{VL(bs...)})
	}
	_ = io.EOF
}
