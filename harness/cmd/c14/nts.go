package main

import (
	"bytes"
	"crypto/rand"
	"io"
	"strings"

	"example.com/scion-time/net/nts"
	"example.com/scion-time/net/ntske"
	"github.com/miscreant/miscreant.go"

	"verifharness/lib"
)

// tapeReader stands in for crypto/rand.Reader: the nonce of the authenticator is scripted.
type tapeReader struct{ tape []byte }

func (t *tapeReader) Read(p []byte) (int, error) {
	for i := range p {
		if len(t.tape) == 0 {
			p[i] = 0
			continue
		}
		p[i] = t.tape[0]
		t.tape = t.tape[1:]
	}
	return len(p), nil
}

func withTape(tape []byte, f func()) {
	old := rand.Reader
	rand.Reader = &tapeReader{tape: append([]byte(nil), tape...)}
	defer func() { rand.Reader = old }()
	f()
}

func ntsErrClass(err error) int64 {
	if err == nil {
		return 0
	}
	m := err.Error()
	switch {
	case strings.Contains(m, "exceeds maximum"):
		return 1
	case strings.Contains(m, "extension field length < 4"):
		return 2
	case strings.Contains(m, "UniqueIdentifier.ID < 32"):
		return 3
	case strings.Contains(m, "does not contain a unique identifier"):
		return 4
	case strings.Contains(m, "does not contain an authenticator"):
		return 5
	}
	return 8
}

func ntsPktVal(p *nts.Packet) Val {
	cs := make([]Val, len(p.Cookies))
	for i, c := range p.Cookies {
		cs[i] = VL(VU(uint64(c.Type)), VU(uint64(c.Length)), VBy(c.Cookie))
	}
	ps := make([]Val, len(p.CookiePlaceholders))
	for i, c := range p.CookiePlaceholders {
		ps[i] = VL(VU(uint64(c.Type)), VU(uint64(c.Length)))
	}
	return VL(VL(VU(uint64(p.UniqueID.Type)), VU(uint64(p.UniqueID.Length)), VBy(p.UniqueID.ID)),
		VL(cs...), VL(ps...),
		VL(VU(uint64(p.Auth.Type)), VU(uint64(p.Auth.Length)), VBy(p.Auth.Nonce), VBy(p.Auth.CipherText)))
}

// nts.enc: header(48), stale tail of the caller's 1024-byte buffer (empty: small buffer), id,
// [cookies], [placeholder bodies], key, plaintext, nonce tape
// -> panicked, encoding, decode error class, decoded packet, authenticates under the key
func runNtsEnc(tags string, a []Val) {
	hdr, tail := a[0].B, a[1].B
	var pkt nts.Packet
	pkt.UniqueID.ID = a[2].B
	var clens, plens []int
	for _, c := range a[3].L {
		pkt.Cookies = append(pkt.Cookies, nts.Cookie{Cookie: c.B})
		clens = append(clens, len(c.B))
	}
	for _, c := range a[4].L {
		pkt.CookiePlaceholders = append(pkt.CookiePlaceholders, nts.CookiePlaceholder{Cookie: c.B})
		plens = append(plens, len(c.B))
	}
	pkt.Auth.Key = a[5].B
	pkt.Auth.PlainText = a[6].B
	// what a caller may have left in these fields is not used by the encoder: it draws the nonce itself
	pkt.Auth.Nonce = []byte("seventeen bytes!!")
	pkt.Auth.CipherText = []byte{1, 2, 3}
	b := callerBuffer(hdr, tail)
	var pan bool
	withTape(a[7].B, func() { pan = didPanic(func() { nts.EncodePacket(&b, &pkt) }) })
	if pan {
		w.Case("nts.enc", tags, fmtVals(a), fmtVals([]Val{VI(1), VBy(nil), VI(0), VL(), VI(0), VL(), VBy(nil), VL(VI(0), VBy(nil))}))
		return
	}
	enc := append([]byte(nil), b...)
	// the ciphertext an AEAD of our own makes of the same plaintext over the bytes before the authenticator
	truect := sealOver(enc, specAuthPos(len(a[2].B), clens, plens), a[5].B, a[7].B[:16], a[6].B)
	var d nts.Packet
	err := nts.DecodePacket(&d, enc)
	first, ferr := d.FirstCookie()
	authOK := false
	after := VL()
	if err == nil {
		watchInput(inNtsRequest, enc, a[5].B, func() {
			var d2 nts.Packet
			if nts.DecodePacket(&d2, enc) == nil {
				authOK = nts.ProcessRequest(enc, a[5].B, &d2) == nil
				after = cookiesVal(d2.Cookies)
			}
		})
	}
	w.Case("nts.enc", tags, fmtVals(a), fmtVals([]Val{VI(0), VBy(enc), VI(ntsErrClass(err)), ntsPktVal(&d), VBool(authOK), after,
		VBy(truect), VL(VBool(ferr == nil), VBy(first))}))
}

// the slice a caller hands to EncodePacket: hdr, with cap(hdr)-len(hdr) = len(tail) bytes of the
// caller's backing array behind it
func callerBuffer(hdr, tail []byte) []byte {
	if len(tail) == 0 {
		b := append([]byte(nil), hdr...)
		return b[:len(b):len(b)]
	}
	return append(append(make([]byte, 0, len(hdr)+len(tail)), hdr...), tail...)[:len(hdr)]
}

func pad4(n int) int { return (n + 3) &^ 3 }

// where the format puts the authenticator behind a 48-byte header
func specAuthPos(idLen int, cookieLens, phLens []int) int {
	pos := 48 + 4 + pad4(idLen)
	for _, l := range cookieLens {
		pos += 4 + pad4(l)
	}
	for _, l := range phLens {
		pos += 4 + pad4(l)
	}
	return pos
}

// AES-SIV of the plaintext over enc[:pos] (nil if enc is shorter or the key unusable)
func sealOver(enc []byte, pos int, key, nonce, pt []byte) []byte {
	if pos > len(enc) {
		return nil
	}
	aead, err := miscreant.NewAEAD("AES-CMAC-SIV", key, 16)
	if err != nil {
		return nil
	}
	return aead.Seal(nil, nonce, pt, enc[:pos])
}

// nts.redec: packet bytes, key, nonce tape -> decode error class, decoded packet, then the decoded
// identifier / cookies / placeholders encoded again: panicked, encoding, decode error class, decoded
// packet, ciphertext of our own AEAD.  A decoder's output, encoded and decoded again, is the same value.
func runNtsRedec(tags string, a []Val) {
	var d nts.Packet
	err := nts.DecodePacket(&d, a[0].B)
	if err != nil || len(a[0].B) < 48 {
		w.Case("nts.redec", tags, fmtVals(a), fmtVals([]Val{VI(ntsErrClass(err)), ntsPktVal(&d), VI(0), VBy(nil), VI(0), VL(), VBy(nil)}))
		return
	}
	var pkt nts.Packet
	pkt.UniqueID.ID = d.UniqueID.ID
	var clens, plens []int
	for _, c := range d.Cookies {
		pkt.Cookies = append(pkt.Cookies, nts.Cookie{Cookie: c.Cookie})
		clens = append(clens, len(c.Cookie))
	}
	for _, c := range d.CookiePlaceholders {
		pkt.CookiePlaceholders = append(pkt.CookiePlaceholders, nts.CookiePlaceholder{Cookie: make([]byte, int(c.Length)-4)})
		plens = append(plens, int(c.Length)-4)
	}
	pkt.Auth.Key = a[1].B
	b := append([]byte(nil), a[0].B[:48]...)
	var pan bool
	withTape(a[2].B, func() { pan = didPanic(func() { nts.EncodePacket(&b, &pkt) }) })
	if pan {
		w.Case("nts.redec", tags, fmtVals(a), fmtVals([]Val{VI(0), ntsPktVal(&d), VI(1), VBy(nil), VI(0), VL(), VBy(nil)}))
		return
	}
	truect := sealOver(b, specAuthPos(len(pkt.UniqueID.ID), clens, plens), a[1].B, a[2].B[:16], nil)
	var d2 nts.Packet
	err2 := nts.DecodePacket(&d2, b)
	w.Case("nts.redec", tags, fmtVals(a), fmtVals([]Val{VI(0), ntsPktVal(&d), VI(0), VBy(b), VI(ntsErrClass(err2)), ntsPktVal(&d2), VBy(truect)}))
}

// nts.fmt: bytes before the authenticator, nonce, ciphertext, the bytes before are well-formed ->
// packet (authenticator appended as the format says, nonce and ciphertext zero-padded to a multiple
// of 4), decode error class, decoded packet.  Packets as another implementation may send them.
func runNtsFmt(tags string, a []Val) {
	prefix, nonce, ct := a[0].B, a[1].B, a[2].B
	l := 8 + pad4(len(nonce)) + pad4(len(ct))
	b := append([]byte(nil), prefix...)
	b = append(b, 0x04, 0x04, byte(l>>8), byte(l), byte(len(nonce)>>8), byte(len(nonce)), byte(len(ct)>>8), byte(len(ct)))
	b = append(b, nonce...)
	b = append(b, make([]byte, pad4(len(nonce))-len(nonce))...)
	b = append(b, ct...)
	b = append(b, make([]byte, pad4(len(ct))-len(ct))...)
	var d nts.Packet
	var err error
	watchInput(inNtsDecode, b, nil, func() { err = nts.DecodePacket(&d, b) })
	w.Case("nts.fmt", tags, fmtVals(a), fmtVals([]Val{VBy(b), VI(ntsErrClass(err)), ntsPktVal(&d)}))
}

func cookiesVal(cs []nts.Cookie) Val {
	v := make([]Val, len(cs))
	for i, c := range cs {
		v[i] = VL(VU(uint64(c.Type)), VU(uint64(c.Length)), VBy(c.Cookie))
	}
	return VL(v...)
}

// error class of ProcessRequest / ProcessResponse: 0 accepted, 1 response id mismatch,
// 2 malformed decrypted field, 3 nonce length, 4 anything else (the AEAD refused)
func authErrClass(err error) int64 {
	if err == nil {
		return 0
	}
	m := err.Error()
	switch {
	case strings.Contains(m, "unexpected response ID"):
		return 1
	case strings.Contains(m, "extension field length < 4"):
		return 2
	case strings.Contains(m, "unexpected nonce length"):
		return 3
	}
	return 4
}

// nts.resp: header, stale tail, request id, [cookies], key, nonce tape -> panicked, encoding,
// decode error class, decoded packet, ProcessResponse error class, [cookies of the packet after
// ProcessResponse], [cookies the fetcher stored].  Server side: NewResponsePacket + EncodePacket;
// client side: DecodePacket + ProcessResponse.
func runNtsResp(tags string, a []Val) {
	hdr, tail := a[0].B, a[1].B
	var cookies [][]byte
	for _, c := range a[3].L {
		cookies = append(cookies, c.B)
	}
	b := callerBuffer(hdr, tail)
	var pan bool
	withTape(a[5].B, func() {
		pan = didPanic(func() {
			pkt := nts.NewResponsePacket(cookies, a[4].B, a[2].B)
			nts.EncodePacket(&b, &pkt)
		})
	})
	if pan {
		w.Case("nts.resp", tags, fmtVals(a), fmtVals([]Val{VI(1), VBy(nil), VI(0), VL(), VI(0), VL(), VL()}))
		return
	}
	enc := append([]byte(nil), b...)
	var d nts.Packet
	err := nts.DecodePacket(&d, enc)
	var d2 nts.Packet
	var f ntske.Fetcher
	var aerr int64 = 9
	watchInput(inNtsResponse, enc, a[4].B, func() {
		if nts.DecodePacket(&d2, enc) == nil {
			aerr = authErrClass(nts.ProcessResponse(enc, a[4].B, &f, &d2, a[2].B))
		}
	})
	stored := f.VerifData().Cookie
	sv := make([]Val, len(stored))
	for i, c := range stored {
		sv[i] = VBy(c)
	}
	w.Case("nts.resp", tags, fmtVals(a), fmtVals([]Val{VI(0), VBy(enc), VI(ntsErrClass(err)), ntsPktVal(&d),
		VI(aerr), cookiesVal(d2.Cookies), VL(sv...)}))
}

// nts.req: header, stale tail, [cookies the client holds], key, tape (32 bytes identifier, 16 bytes
// nonce) -> panicked, encoding, decode error class, decoded packet, accepted by ProcessRequest,
// [cookies after it], identifier returned.  Client side: NewRequestPacket + EncodePacket;
// server side: DecodePacket + ProcessRequest.
func runNtsReq(tags string, a []Val) {
	hdr, tail := a[0].B, a[1].B
	var data ntske.Data
	for _, c := range a[2].L {
		data.Cookie = append(data.Cookie, c.B)
	}
	data.C2sKey = a[3].B
	b := callerBuffer(hdr, tail)
	var pan bool
	var id []byte
	withTape(a[4].B, func() {
		pan = didPanic(func() {
			var pkt nts.Packet
			pkt, id = nts.NewRequestPacket(data)
			nts.EncodePacket(&b, &pkt)
		})
	})
	if pan {
		w.Case("nts.req", tags, fmtVals(a), fmtVals([]Val{VI(1), VBy(nil), VI(0), VL(), VI(0), VL(), VBy(nil)}))
		return
	}
	enc := append([]byte(nil), b...)
	var d nts.Packet
	err := nts.DecodePacket(&d, enc)
	authOK := false
	after := VL()
	if err == nil {
		var d2 nts.Packet
		if nts.DecodePacket(&d2, enc) == nil {
			authOK = nts.ProcessRequest(enc, a[3].B, &d2) == nil
			after = cookiesVal(d2.Cookies)
		}
	}
	w.Case("nts.req", tags, fmtVals(a), fmtVals([]Val{VI(0), VBy(enc), VI(ntsErrClass(err)), ntsPktVal(&d), VBool(authOK), after, VBy(id)}))
}

// cookie lengths at which a packet of k cookie-sized fields next to a 32-byte identifier and
// an authenticator crosses the 1024-byte limit (904 bytes for the fields), +-8 bytes
func boundaryCookieLens() []int {
	var out []int
	seen := map[int]bool{}
	for k := 1; k <= 8; k++ {
		c := 904/k - 4
		for d := -8; d <= 8; d++ {
			if l := c + d; l >= 0 && !seen[l] {
				seen[l] = true
				out = append(out, l)
			}
		}
	}
	return out
}

// nts.pos: bytes before the authenticator (header + extension fields, known and unknown), key,
// plaintext, nonce, [cookie bodies the plaintext was built from], the bytes before are well-formed, the plaintext is built from the bodies
// -> packet, decode error class, decoded packet, ProcessRequest error class, [cookies after it].
// The harness seals the plaintext over exactly these bytes and appends the authenticator field
// itself: the packet is accepted only if DecodePacket found the authenticator where it is.
func runNtsPos(tags string, a []Val) {
	prefix, key, pt, nonce := a[0].B, a[1].B, a[2].B, a[3].B
	aead, err := miscreant.NewAEAD("AES-CMAC-SIV", key, 16)
	if err != nil {
		panic(err)
	}
	ct := aead.Seal(nil, nonce, pt, prefix)
	pad := pad4
	l := 8 + pad(len(nonce)) + pad(len(ct))
	b := append([]byte(nil), prefix...)
	b = append(b, 0x04, 0x04, byte(l>>8), byte(l), byte(len(nonce)>>8), byte(len(nonce)), byte(len(ct)>>8), byte(len(ct)))
	b = append(b, nonce...)
	b = append(b, make([]byte, pad(len(nonce))-len(nonce))...)
	b = append(b, ct...)
	b = append(b, make([]byte, pad(len(ct))-len(ct))...)
	var d nts.Packet
	derr := nts.DecodePacket(&d, b)
	var d2 nts.Packet
	var aerr int64 = 9
	after := VL()
	watchInput(inNtsRequest, b, key, func() {
		if nts.DecodePacket(&d2, b) == nil {
			aerr = authErrClass(nts.ProcessRequest(b, key, &d2))
			after = cookiesVal(d2.Cookies)
		}
	})
	w.Case("nts.pos", tags, fmtVals(a), fmtVals([]Val{VBy(b), VI(ntsErrClass(derr)), ntsPktVal(&d), VI(aerr), after}))
}

// a plaintext made of cookie extension fields with bodies of at least 24 bytes (so that the
// last field is still at least 28 bytes long), about n bytes in all
func genPlainCookies(r *lib.Rng, n int) ([]byte, []Val) {
	var out []byte
	var bodies []Val
	for len(out)+28 <= n {
		body := 4 * (6 + r.Intn(30))
		if r.Intn(5) == 0 {
			body = lib.Pick(r, 100, 104, 124, 252, 256, 260, 300, 512)
		}
		if len(out)+4+body > n {
			body = (n - len(out) - 4) / 4 * 4
		}
		if body < 24 {
			break
		}
		// other kinds inside the encrypted part (placeholder, identifier, authenticator, unknown):
		// the receiver must skip them, not take them for cookies
		if r.Intn(3) == 0 {
			o := extField(uint16(lib.Pick(r, 0x0304, 0x0304, 0x0104, 0x0404, 0x0704, 0x0205, 0x8204)), nonZero(r.Bytes(4*r.Intn(12))))
			if len(out)+len(o)+4+body <= n {
				out = append(out, o...)
			}
		}
		c := nonZero(r.Bytes(body))
		out = append(out, extField(0x0204, c)...)
		bodies = append(bodies, VBy(c))
	}
	return out, bodies
}

// an extension field as the format defines it
func extField(ty uint16, v []byte) []byte {
	n := (len(v) + 3) &^ 3
	out := []byte{byte(ty >> 8), byte(ty), byte((4 + n) >> 8), byte(4 + n)}
	out = append(out, v...)
	return append(out, make([]byte, n-len(v))...)
}

// a field whose value is not padded (as another implementation may send it)
func rawField(ty uint16, v []byte) []byte {
	return append([]byte{byte(ty >> 8), byte(ty), byte((4 + len(v)) >> 8), byte(4 + len(v))}, v...)
}

// offsets of the extension fields of an encoded packet (walk by length, from byte 48)
func fieldOffsets(b []byte) []int {
	var off []int
	pos := 48
	for len(b)-pos >= 4 {
		off = append(off, pos)
		l := int(b[pos+2])<<8 | int(b[pos+3])
		if l < 4 {
			break
		}
		pos += l
	}
	return off
}

// nts.dec: [byte strings] decoded one after the other into one Packet -> [[error class, packet] ...]
func runNtsDec(tags string, a []Val) {
	var p nts.Packet
	var obs []Val
	for _, b := range a[0].L {
		var err error
		watchInput(inNtsDecode, b.B, nil, func() { err = nts.DecodePacket(&p, b.B) })
		obs = append(obs, VL(VI(ntsErrClass(err)), ntsPktVal(&p)))
	}
	w.Case("nts.dec", tags, fmtVals(a), fmtVals([]Val{VL(obs...)}))
}

func nonZero(b []byte) []byte {
	for i := range b {
		if b[i] == 0 {
			b[i] = 0xc3
		}
	}
	return b
}

// a well-formed request/response shaped input; big: may exceed the packet size
func genNtsIn(r *lib.Rng, big bool) []Val {
	idLen := lib.Pick(r, 32, 32, 32, 33, 34, 35, 36, 40, 64, 32+r.Intn(40))
	if r.Intn(40) == 0 {
		idLen = lib.Pick(r, 0, 16, 31)
	}
	clen := lib.Pick(r, 100, 104, 124, 124, 1, 2, 3, 4, 5, 0, r.Intn(140))
	nc := lib.Pick(r, 1, 1, 1, 0, 2, 3, r.Intn(8))
	np := lib.Pick(r, 0, 0, 1, 2, 7, r.Intn(8))
	ptLen := lib.Pick(r, 0, 0, 0, 1, 2, 3, 104, 128, r.Intn(300))
	switch r.Intn(8) {
	case 0: // one long cookie: lengths that need the second length byte
		clen = lib.Pick(r, 252, 255, 256, 257, 260, 300, 511, 512, 513, 700, 860, 252+r.Intn(640))
		nc, np = 1, lib.Pick(r, 0, 0, 1)
		ptLen = lib.Pick(r, 0, 40, r.Intn(120))
	case 1: // a long identifier
		idLen = lib.Pick(r, 252, 255, 256, 257, 260, 300, 512, 800, 900, 252+r.Intn(650))
		nc, np = lib.Pick(r, 0, 1), 0
		clen = lib.Pick(r, 0, 4, 24, 100)
		ptLen = lib.Pick(r, 0, 40)
	case 2: // a long encrypted part (a server's cookies)
		ptLen = lib.Pick(r, 256, 260, 300, 512, 700, 256+r.Intn(500))
		nc, np = 0, 0
	}
	if !big {
		// keep 48 + fields within 1024 bytes
		for 48+4+idLen+3+(nc+np)*(4+clen+3)+8+16+ptLen+16+3 > 1024 {
			switch {
			case np > 0:
				np--
			case nc > 1:
				nc--
			case ptLen > 0:
				ptLen /= 2
			default:
				clen /= 2
			}
		}
	}
	var cs, ps []Val
	for i := 0; i < nc; i++ {
		l := clen
		if r.Intn(6) == 0 {
			l = r.Intn(clen + 2)
		}
		cs = append(cs, VBy(nonZero(r.Bytes(l))))
	}
	for i := 0; i < np; i++ {
		if r.Intn(4) == 0 {
			ps = append(ps, VBy(nonZero(r.Bytes(clen))))
		} else {
			ps = append(ps, VBy(make([]byte, clen)))
		}
	}
	var tail []byte
	if r.Bool() {
		// capacities: exactly 1024, below (a fresh buffer is made) and above (the first 1024 bytes are used)
		tail = nonZero(r.Bytes(lib.Pick(r, 976, 976, 976, 1, 100, 975, 977, 1000, 2000)))
	}
	pt, bodies := genPlain(r, ptLen), []Val(nil)
	structured := int64(0)
	if ptLen >= 28 && r.Intn(4) > 0 {
		pt, bodies = genPlainCookies(r, ptLen)
		structured = 1
	}
	return []Val{VBy(r.Bytes(48)), VBy(tail), VBy(nonZero(r.Bytes(idLen))), VL(cs...), VL(ps...),
		VBy(r.Bytes(lib.Pick(r, 32, 32, 64))), VBy(pt), VBy(r.Bytes(16)), VL(bodies...), VI(structured)}
}

// plaintext of the authenticator: up to 27 arbitrary bytes, or cookie extension fields
// (what a server encrypts), of about n bytes
func genPlain(r *lib.Rng, n int) []byte {
	if n < 28 {
		return r.Bytes(n)
	}
	var out []byte
	for len(out)+8 <= n {
		body := 4 * (1 + r.Intn(32))
		if len(out)+4+body > n {
			body = (n - len(out) - 4) / 4 * 4
		}
		l := 4 + body
		out = append(out, 0x02, 0x04, byte(l>>8), byte(l))
		out = append(out, r.Bytes(body)...)
	}
	return out
}

func encodeValid(r *lib.Rng) []byte {
	a := genNtsIn(r, false)
	var pkt nts.Packet
	pkt.UniqueID.ID = a[2].B
	if len(pkt.UniqueID.ID) < 32 {
		pkt.UniqueID.ID = r.Bytes(32)
	}
	for _, c := range a[3].L {
		pkt.Cookies = append(pkt.Cookies, nts.Cookie{Cookie: c.B})
	}
	for _, c := range a[4].L {
		pkt.CookiePlaceholders = append(pkt.CookiePlaceholders, nts.CookiePlaceholder{Cookie: c.B})
	}
	pkt.Auth.Key = a[5].B
	pkt.Auth.PlainText = a[6].B
	b := append([]byte(nil), a[0].B...)
	withTape(a[7].B, func() { nts.EncodePacket(&b, &pkt) })
	return b
}

func genNts(r *lib.Rng, thorough bool) {
	n := 1500
	if thorough {
		n = 30000
	}
	for k := 0; k < n; k++ {
		big := r.Intn(12) == 0
		a := genNtsIn(r, big)
		tags := "nt"
		if big {
			tags = "nt,big"
		}
		if len(a[4].L) > 0 {
			tags += ",placeholders"
		}
		if len(a[2].B)%4 != 0 {
			tags += ",unaligned"
		}
		if r.Intn(50) == 0 { // EncodePacket wants exactly the 48-byte NTP header in front
			a[0] = VBy(r.Bytes(lib.Pick(r, 0, 47, 49, 96)))
			tags = "badheader"
		}
		runNtsEnc(tags, a)
	}
	// what a decoder returns, encoded and decoded again; packets of the format with other nonce lengths
	for k := 0; k < n/3; k++ {
		b := encodeValid(r)
		tags := "nt,redec"
		switch r.Intn(6) {
		case 0: // unknown fields between the known ones are dropped by the decoder
			off := fieldOffsets(b)
			at := off[r.Intn(len(off))]
			u := extField(uint16(lib.Pick(r, 0x0704, 0x0004, 0x8204)), r.Bytes(4*r.Intn(20)))
			if len(b)+len(u) <= 1024 {
				b = append(append(append([]byte(nil), b[:at]...), u...), b[at:]...)
			}
		case 1: // a foreign packet whose values are not padded to a multiple of 4
			pre := append(r.Bytes(48), rawField(0x0104, nonZero(r.Bytes(lib.Pick(r, 33, 34, 35, 37))))...)
			pre = append(pre, rawField(0x0204, nonZero(r.Bytes(lib.Pick(r, 1, 2, 3, 101, 30))))...)
			if r.Bool() {
				pre = append(pre, rawField(0x0304, make([]byte, lib.Pick(r, 5, 101)))...)
			}
			b = append(pre, extField(0x0404, append([]byte{0, 16, 0, 16}, r.Bytes(32)...))[0:]...)
			b[len(pre)+2], b[len(pre)+3] = 0, 40
			tags = "nt,redec,foreign"
		case 2:
			b = b[:r.Intn(len(b)+1)]
			tags = "redec,truncated"
		}
		runNtsRedec(tags, []Val{VBy(b), VBy(r.Bytes(lib.Pick(r, 32, 64))), VBy(r.Bytes(16))})
	}
	for k := 0; k < n/4; k++ {
		prefix := append(r.Bytes(48), extField(0x0104, nonZero(r.Bytes(lib.Pick(r, 32, 36, 33))))...)
		if r.Bool() {
			prefix = append(prefix, extField(0x0204, nonZero(r.Bytes(lib.Pick(r, 100, 124, 3))))...)
		}
		nl := lib.Pick(r, 16, 16, 17, 18, 19, 20, 0, 1, 4, 12, 15, 32, r.Intn(40))
		cl := lib.Pick(r, 16, 16, 20, 17, 0, 4, 100, 16+r.Intn(200))
		tags := "nt,fmt"
		if nl%4 != 0 {
			tags = "fmt,noncepadding"
		}
		runNtsFmt(tags, []Val{VBy(prefix), VBy(nonZero(r.Bytes(nl))), VBy(nonZero(r.Bytes(cl))), VI(1)})
	}
	// exactly at the size limit: 1024 fits, 1028 does not
	for k := 0; k < 40; k++ {
		a := genNtsIn(r, false)
		a[3] = VL(VBy(nonZero(r.Bytes(124))))
		a[4] = VL()
		a[2] = VBy(nonZero(r.Bytes(32)))
		// 48 + 36 + 128 + 8 + 16 + pad4(pt + 16) = 1024  <=>  pad4(pt+16) = 788
		l := 772 + lib.Pick(r, -4, 0, 0, 4) // one encrypted cookie field of exactly that length
		body := nonZero(r.Bytes(l - 4))
		a[6] = VBy(extField(0x0204, body))
		a[8], a[9] = VL(VBy(body)), VI(1)
		runNtsEnc("nt,limit", a)
	}
	// server responses: NewResponsePacket + EncodePacket, DecodePacket + ProcessResponse
	for k := 0; k < n/2; k++ {
		idLen := lib.Pick(r, 32, 32, 32, 36, 64, 33, 256, 600)
		clen := lib.Pick(r, 100, 104, 124, 124, 124, 24, 28, 256, 260, 300, 440, 800, 20, 4, 0, 101, 4*r.Intn(60))
		nc := lib.Pick(r, 1, 2, 8, 8, 1+r.Intn(9), 9, 12)
		tags := "nt,resp"
		var cs []Val
		for i := 0; i < nc; i++ {
			l := clen
			if r.Intn(25) == 0 { // cookies of unequal length: the buffer is sized by the first
				l = clen + lib.Pick(r, -4, 4, 1, -1, 8)
				if l < 0 {
					l = 0
				}
				tags = "resp,unequal"
			}
			cs = append(cs, VBy(nonZero(r.Bytes(l))))
		}
		if r.Intn(60) == 0 {
			cs = nil
		}
		var tail []byte
		if r.Bool() {
			tail = nonZero(r.Bytes(1024 - 48))
		}
		runNtsResp(tags, []Val{VBy(r.Bytes(48)), VBy(tail), VBy(nonZero(r.Bytes(idLen))), VL(cs...),
			VBy(r.Bytes(lib.Pick(r, 32, 32, 64))), VBy(r.Bytes(16))})
	}
	// constructors at every size where the packet length crosses the limit: cookie lengths around
	// 904/k - 4 (k = 1..8 fields), 32-byte identifier, 1..8 held cookies / 1..9 issued cookies
	freshTail := func() []byte {
		if r.Bool() {
			return nonZero(r.Bytes(1024 - 48))
		}
		return nil
	}
	for _, l := range boundaryCookieLens() {
		for cnt := 1; cnt <= 9; cnt++ {
			if !thorough && l%4 != 0 && (cnt+l)%3 != 0 {
				continue
			}
			var cs []Val
			for i := 0; i < cnt; i++ {
				cs = append(cs, VBy(nonZero(r.Bytes(l))))
			}
			tags := "nt,boundary"
			if l%4 != 0 {
				tags = "boundary,unalignedcookie"
			}
			runNtsResp(tags+",resp", []Val{VBy(r.Bytes(48)), VBy(freshTail()), VBy(nonZero(r.Bytes(32))), VL(cs...),
				VBy(r.Bytes(lib.Pick(r, 32, 64))), VBy(r.Bytes(16))})
			if cnt <= 8 {
				runNtsReq(tags+",req", []Val{VBy(r.Bytes(48)), VBy(freshTail()), VL(cs...), VBy(r.Bytes(lib.Pick(r, 32, 64))), VBy(r.Bytes(48))})
			}
		}
	}
	// requests as a client builds them
	for k := 0; k < n/3; k++ {
		l := lib.Pick(r, 100, 104, 124, 124, 124, 0, 1, 24, 256, 300, 448, 600, 892, 896, 897, 900, 1000, r.Intn(900))
		cnt := lib.Pick(r, 1, 1, 2, 7, 8, 1+r.Intn(8), 9, 0)
		var cs []Val
		for i := 0; i < cnt; i++ {
			cs = append(cs, VBy(nonZero(r.Bytes(l))))
		}
		runNtsReq("nt,req", []Val{VBy(r.Bytes(48)), VBy(freshTail()), VL(cs...), VBy(r.Bytes(lib.Pick(r, 32, 64))), VBy(r.Bytes(48))})
	}
	// unknown extension fields between the known ones: the authenticator position
	for k := 0; k < n/2; k++ {
		unknown := func() []byte {
			ty := uint16(lib.Pick(r, 0x0704, 0x0004, 0x0105, 0x0203, 0x8404, 0x0504, int(r.Intn(65536))))
			if ty == 0x0104 || ty == 0x0204 || ty == 0x0304 || ty == 0x0404 {
				ty = 0x0704
			}
			return extField(ty, r.Bytes(lib.Pick(r, 0, 4, 12, 24, 28, 100, 256, 300, r.Intn(40))))
		}
		var fields [][]byte
		fields = append(fields, extField(0x0104, nonZero(r.Bytes(lib.Pick(r, 32, 32, 36, 64, 33)))))
		for i := lib.Pick(r, 0, 1, 1, 2); i > 0; i-- {
			fields = append(fields, extField(0x0204, nonZero(r.Bytes(lib.Pick(r, 100, 104, 124, 24, 3, 0)))))
		}
		for i := lib.Pick(r, 0, 0, 1, 3); i > 0; i-- {
			fields = append(fields, extField(0x0304, make([]byte, lib.Pick(r, 100, 124))))
		}
		// put 0..3 unknown fields at random places (also first and last)
		nu := lib.Pick(r, 0, 1, 1, 2, 3)
		for i := 0; i < nu; i++ {
			at := r.Intn(len(fields) + 1)
			fields = append(fields[:at], append([][]byte{unknown()}, fields[at:]...)...)
		}
		tags := "nt,pos"
		if nu > 0 {
			tags += ",unknown"
		}
		wf := int64(1)
		switch r.Intn(8) {
		case 0: // the known kinds in another order (identifier not first)
			for i := len(fields) - 1; i > 0; i-- {
				j := r.Intn(i + 1)
				fields[i], fields[j] = fields[j], fields[i]
			}
			tags += ",permuted"
		case 1: // two identifiers: the later one wins
			at := r.Intn(len(fields) + 1)
			fields = append(fields[:at], append([][]byte{extField(0x0104, nonZero(r.Bytes(32)))}, fields[at:]...)...)
			tags += ",twoids"
		case 2: // an authenticator field in front of the real one: the decoder stops there
			at := 1 + r.Intn(len(fields))
			fake := extField(0x0404, append([]byte{0, 16, 0, 16}, r.Bytes(32)...))
			fields = append(fields[:at], append([][]byte{fake}, fields[at:]...)...)
			wf = 0
			tags = "pos,twoauths"
		}
		prefix := r.Bytes(48)
		for _, f := range fields {
			prefix = append(prefix, f...)
		}
		switch r.Intn(12) {
		case 0: // a field whose length lies: everything behind it is found elsewhere
			off := fieldOffsets(prefix)
			i := off[r.Intn(len(off))]
			prefix[i+3] ^= byte(4 << uint(r.Intn(4)))
			wf = 0
			tags = "pos,lying"
		case 1: // no unique identifier
			prefix = append(prefix[:48], unknown()...)
			wf = 0
			tags = "pos,nouid"
		}
		ptLen := lib.Pick(r, 0, 0, 10, 60, 130, 300, r.Intn(200))
		pt, bodies := genPlain(r, ptLen), []Val(nil)
		structured := int64(0)
		if ptLen >= 28 && r.Intn(4) > 0 {
			pt, bodies = genPlainCookies(r, ptLen)
			structured = 1
			if r.Intn(6) == 0 { // an unknown field inside the encrypted part is skipped
				u := unknown()
				if len(u) >= 28 {
					pt = append(u, pt...)
				}
			}
		}
		for len(prefix)+8+16+len(pt)+16+3 > 1024 {
			if len(pt) > 0 {
				pt, bodies, structured = nil, nil, 0
				continue
			}
			prefix = prefix[:48+36]
			wf = 0
		}
		runNtsPos(tags, []Val{VBy(prefix), VBy(r.Bytes(lib.Pick(r, 32, 32, 64))), VBy(pt), VBy(r.Bytes(16)),
			VL(bodies...), VI(wf), VI(structured)})
	}
	for k := 0; k < n; k++ {
		steps := 1 + r.Intn(3)
		var bs []Val
		tags := "nt,mutated"
		for s := 0; s < steps; s++ {
			b := encodeValid(r)
			switch r.Intn(11) {
			case 0:
				b = b[:r.Intn(len(b)+1)]
			case 1:
				b[48+r.Intn(len(b)-48)] ^= byte(1 << uint(r.Intn(8)))
			case 2: // a length field that lies
				b[51] = byte(lib.Pick(r, 0, 1, 3, 4, 5, 35, 36, 37, 255))
				if r.Bool() {
					b[50] = byte(r.Intn(5))
				}
			case 3: // unknown field type in front of the rest
				f := append([]byte{0x7, 0x4, 0, byte(4 * (1 + r.Intn(8)))}, r.Bytes(32)...)
				b = append(append(append([]byte(nil), b[:48]...), f[:int(f[3])]...), b[48:]...)
			case 4: // trailing bytes after the authenticator
				b = append(b, r.Bytes(1+r.Intn(60))...)
			case 5: // nonce / ciphertext lengths that do not fit the field
				i := bytes.LastIndex(b, []byte{0x04, 0x04})
				if i > 0 && i+8 <= len(b) {
					b[i+4+r.Intn(4)] ^= byte(1 + r.Intn(255))
				}
			case 6:
				b = r.Bytes(r.Intn(140))
				tags = "random"
			case 7: // no authenticator
				i := bytes.LastIndex(b, []byte{0x04, 0x04})
				if i > 48 {
					b = append(b[:i], r.Bytes(lib.Pick(r, 0, 27, 28, 40))...)
				}
			case 9: // an unknown field at a field boundary (between known fields)
				off := fieldOffsets(b)
				at := off[r.Intn(len(off))]
				u := extField(uint16(lib.Pick(r, 0x0704, 0x0004, 0x8204)), r.Bytes(4*r.Intn(70)))
				if len(b)+len(u) <= 1024 {
					b = append(append(append([]byte(nil), b[:at]...), u...), b[at:]...)
				}
			case 8: // more than the maximum packet length
				b = append(b, make([]byte, 1025-len(b)+r.Intn(3))...)
			default:
			}
			bs = append(bs, VBy(b))
		}
		if steps > 1 {
			tags += ",hist"
		}
		runNtsDec(tags, []Val{VL(bs...)})
	}
	_ = io.EOF
}
