package main

import (
	"bytes"

	"example.com/scion-time/net/ntske"

	"verifharness/lib"
)

// which: 0 ServerCookie (Algo, S2C, C2S), 1 EncryptedServerCookie (ID, Nonce, Ciphertext)
func ckEncode(which int64, v uint16, a, b []byte) []byte {
	if which == 0 {
		c := ntske.ServerCookie{Algo: v, S2C: a, C2S: b}
		return c.Encode()
	}
	c := ntske.EncryptedServerCookie{ID: v, Nonce: a, Ciphertext: b}
	return c.Encode()
}

func ckDecode(which int64, c0 Val, b []byte) (bool, Val) {
	v0, a0, b0 := uint16(c0.L[0].Uint()), c0.L[1].B, c0.L[2].B
	if which == 0 {
		c := ntske.ServerCookie{Algo: v0, S2C: a0, C2S: b0}
		err := c.Decode(b)
		return err == nil, VL(VU(uint64(c.Algo)), VBy(c.S2C), VBy(c.C2S))
	}
	c := ntske.EncryptedServerCookie{ID: v0, Nonce: a0, Ciphertext: b0}
	err := c.Decode(b)
	return err == nil, VL(VU(uint64(c.ID)), VBy(c.Nonce), VBy(c.Ciphertext))
}

// ck.enc: which, v, a, b, [cookie decoded into] -> encoding, decode ok, [decoded]
func runCkEnc(tags string, a []Val) {
	enc := ckEncode(a[0].Int(), uint16(a[1].Uint()), a[2].B, a[3].B)
	ok, d := ckDecode(a[0].Int(), a[4], enc)
	w.Case("ck.enc", tags, fmtVals(a), fmtVals([]Val{VBy(enc), VBool(ok), d}))
}

// ck.dec: which, bytes, [cookie decoded into] -> ok, [decoded], re-encoding, its decode ok, [its decoding]
func runCkDec(tags string, a []Val) {
	var ok bool
	var d Val
	watchInput(inServerCookie+a[0].Int(), a[1].B, nil, func() { ok, d = ckDecode(a[0].Int(), a[2], a[1].B) })
	// a decoded cookie, encoded and decoded again (into a fresh struct), is the same cookie
	re, ok2, d2 := []byte(nil), false, VL()
	if ok {
		re = ckEncode(a[0].Int(), uint16(d.L[0].Uint()), d.L[1].B, d.L[2].B)
		ok2, d2 = ckDecode(a[0].Int(), VL(VI(0), VBy(nil), VBy(nil)), re)
	}
	w.Case("ck.dec", tags, fmtVals(a), fmtVals([]Val{VBool(ok), d, VBy(re), VBool(ok2), d2}))
}

// ck.crypt: algo, s2c, c2s, key, keyid, wrong key -> one encoded encrypted cookie (EncryptWithNonce,
// Encode) is decoded and decrypted three times FROM THE SAME BYTES: under the wrong key, under the
// right key, under the right key again:
// wrong key refused, right key ok, algo, s2c, c2s, id, second time ok and the same cookie,
// the decoded encrypted cookie encodes to the bytes it was decoded from, the bytes are still what they were
func runCkCrypt(tags string, a []Val) {
	c := ntske.ServerCookie{Algo: uint16(a[0].Uint()), S2C: a[1].B, C2S: a[2].B}
	key, wrong := a[3].B, a[5].B
	var out ntske.ServerCookie
	var id uint16
	refused, ok, again, reenc, intact := false, false, false, false, false
	// an earlier cookie issued under the same key id with another key must not matter
	_, _ = c.EncryptWithNonce(wrong, int(a[4].Int()))
	e, err := c.EncryptWithNonce(key, int(a[4].Int()))
	if err == nil {
		enc := e.Encode()
		orig := append([]byte(nil), enc...)
		watchInput(inEncryptedCookie, enc, wrong, func() {
			var e1 ntske.EncryptedServerCookie
			if e1.Decode(enc) == nil {
				_, err1 := e1.Decrypt(wrong)
				refused = err1 != nil
			}
		})
		watchInput(inEncryptedCookie, enc, key, func() {
			var e2 ntske.EncryptedServerCookie
			if e2.Decode(enc) == nil {
				id = e2.ID
				var err2 error
				out, err2 = e2.Decrypt(key)
				ok = err2 == nil
				reenc = bytes.Equal(e2.Encode(), orig)
			}
		})
		watchInput(inEncryptedCookie, enc, key, func() {
			var e3 ntske.EncryptedServerCookie
			if e3.Decode(enc) == nil {
				out3, err3 := e3.Decrypt(key)
				again = err3 == nil && out3.Algo == out.Algo && bytes.Equal(out3.S2C, out.S2C) && bytes.Equal(out3.C2S, out.C2S)
			}
		})
		intact = bytes.Equal(enc, orig)
	}
	w.Case("ck.crypt", tags, fmtVals(a), fmtVals([]Val{VBool(refused), VBool(ok), VU(uint64(out.Algo)), VBy(out.S2C), VBy(out.C2S), VU(uint64(id)),
		VBool(again), VBool(reenc), VBool(intact)}))
}

func genCk0(r *lib.Rng) Val {
	if r.Bool() {
		return VL(VI(0), VBy(nil), VBy(nil))
	}
	return VL(VU(genU(r, 16)), VBy(r.Bytes(r.Intn(9))), VBy(r.Bytes(r.Intn(9))))
}

func genCookies(r *lib.Rng, thorough bool) {
	klen := func() int {
		if r.Intn(12) == 0 { // lengths that need the high byte of the 16-bit length field
			return lib.Pick(r, 258, 1000, 1024, 1025, 4096, 65535, 258+r.Intn(3000))
		}
		return lib.Pick(r, 0, 1, 2, 16, 32, 32, 32, 64, r.Intn(80), 255, 256, 257)
	}
	step := 61
	if thorough {
		step = 1
	}
	for which := int64(0); which < 2; which++ {
		a, b := r.Bytes(32), r.Bytes(32)
		for v := 0; v < 65536; v += step {
			runCkEnc("nt,sweep16", []Val{VI(which), VI(int64(v)), VBy(a), VBy(b), genCk0(r)})
		}
	}
	n := 1200
	if thorough {
		n = 30000
	}
	for k := 0; k < n; k++ {
		runCkEnc("nt", []Val{VI(int64(r.Intn(2))), VU(genU(r, 16)), VBy(r.Bytes(klen())), VBy(r.Bytes(klen())), genCk0(r)})
	}
	for k := 0; k < 3; k++ { // lengths a 16-bit length field cannot say
		runCkEnc("oversize", []Val{VI(int64(r.Intn(2))), VU(genU(r, 16)), VBy(r.Bytes(65536 + r.Intn(4))), VBy(r.Bytes(klen())), genCk0(r)})
	}
	for k := 0; k < n; k++ {
		which := int64(r.Intn(2))
		s := ckEncode(which, uint16(genU(r, 16)), r.Bytes(klen()), r.Bytes(klen()))
		tags := "nt,mutated"
		switch r.Intn(8) {
		case 0:
			s = s[:r.Intn(len(s)+1)]
		case 1:
			s[r.Intn(len(s))] ^= byte(1 << uint(r.Intn(8)))
		case 2: // a field twice: the later one wins
			s = append(s, ckEncode(which, uint16(genU(r, 16)), r.Bytes(klen()), r.Bytes(klen()))...)
		case 3: // unknown field type in between
			body := r.Bytes(r.Intn(10))
			s = append(append([]byte{0x7, 0x1, 0, byte(len(body))}, body...), s...)
		case 4: // the fields of the other cookie kind
			s = ckEncode(1-which, uint16(genU(r, 16)), r.Bytes(klen()), r.Bytes(klen()))
		case 5:
			s = r.Bytes(r.Intn(30))
			tags = "random"
		case 6: // first field with length 0, 1 or 3
			s[3] = byte(lib.Pick(r, 0, 1, 3))
		default:
			s = append(s, r.Bytes(1+r.Intn(5))...)
		}
		runCkDec(tags, []Val{VI(which), VBy(s), genCk0(r)})
	}
	m := 300
	if thorough {
		m = 5000
	}
	for k := 0; k < m; k++ {
		runCkCrypt("nt,crypt", []Val{VU(genU(r, 16)), VBy(r.Bytes(lib.Pick(r, 32, 32, 0, 1, 64, r.Intn(70)))),
			VBy(r.Bytes(lib.Pick(r, 32, 32, 0, 64, r.Intn(70)))), VBy(r.Bytes(lib.Pick(r, 32, 32, 64))), VI(r.Range(0, 70000)), VBy(r.Bytes(lib.Pick(r, 32, 64)))})
	}
}
