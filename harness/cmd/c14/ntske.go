package main

import (
	"bufio"
	"bytes"
	"context"
	"errors"
	"io"
	"log/slog"
	"strings"
	"testing/iotest"

	"example.com/scion-time/net/ntske"

	"verifharness/lib"
)

var discardLog = slog.New(slog.NewTextHandler(io.Discard, nil))

// record values: [1 v] NextProto, [0] End, [6 addr crit] Server, [7 port crit] Port,
// [5 cookie] Cookie, [3 code] Warning, [2 code] Error, [4 [algos]] Algorithm
func keRecord(v Val) ntske.Record {
	f := v.L
	switch f[0].Int() {
	case 1:
		return ntske.NextProto{NextProto: uint16(f[1].Uint())}
	case 0:
		return ntske.End{}
	case 6:
		return ntske.Server{Addr: f[1].B, Critical: f[2].Int() != 0}
	case 7:
		return ntske.Port{Port: uint16(f[1].Uint()), Critical: f[2].Int() != 0}
	case 5:
		return ntske.Cookie{Cookie: f[1].B}
	case 3:
		return ntske.Warning{Code: uint16(f[1].Uint())}
	case 2:
		return ntske.Error{Code: uint16(f[1].Uint())}
	default:
		var a []uint16
		for _, x := range f[1].L {
			a = append(a, uint16(x.Uint()))
		}
		return ntske.Algorithm{Algo: a}
	}
}

func keDataFrom(v Val) ntske.Data {
	d := ntske.Data{Algo: uint16(v.L[0].Uint()), Server: string(v.L[1].B), Port: uint16(v.L[2].Uint())}
	for _, c := range v.L[3].L {
		d.Cookie = append(d.Cookie, append([]byte(nil), c.B...))
	}
	return d
}

func keDataVal(d *ntske.Data) Val {
	cs := make([]Val, len(d.Cookie))
	for i, c := range d.Cookie {
		cs[i] = VBy(c)
	}
	return VL(VU(uint64(d.Algo)), VBy([]byte(d.Server)), VU(uint64(d.Port)), VL(cs...))
}

func keErrClass(err error) int64 {
	switch {
	case err == nil:
		return 0
	case errors.Is(err, io.EOF):
		return 1
	case errors.Is(err, io.ErrUnexpectedEOF):
		return 2
	}
	m := err.Error()
	switch {
	case strings.Contains(m, "unrecognized critical error message"):
		return 3
	case strings.Contains(m, "bad request error message"):
		return 4
	case strings.Contains(m, "internal server error message"):
		return 5
	case strings.Contains(m, "unknown error message"):
		return 6
	case strings.HasPrefix(m, "unknown record type"):
		return 7
	}
	return 8
}

// chunkReader delivers the stream in pieces of the scripted sizes (cycled); with
// eofWithData the last piece comes together with io.EOF.
type chunkReader struct {
	data        []byte
	sizes       []int
	i           int
	eofWithData bool
}

func (c *chunkReader) Read(p []byte) (int, error) {
	if len(c.data) == 0 {
		return 0, io.EOF
	}
	if len(p) == 0 {
		return 0, nil
	}
	n := c.sizes[c.i%len(c.sizes)]
	c.i++
	if n < 1 {
		n = 1
	}
	if n > len(p) {
		n = len(p)
	}
	if n > len(c.data) {
		n = len(c.data)
	}
	copy(p, c.data[:n])
	c.data = c.data[n:]
	if len(c.data) == 0 && c.eofWithData {
		return n, io.EOF
	}
	return n, nil
}

// segmentation descriptors: [0] whole, [1] one byte per read, [2] half of what is asked,
// [3] data together with EOF, [4 [sizes] eofWithData] scripted piece sizes, [5 bufsize [sizes]]
// scripted sizes below a small bufio buffer
func keReader(spec Val, stream []byte) *bufio.Reader {
	s := append([]byte(nil), stream...)
	switch spec.L[0].Int() {
	case 0:
		return bufio.NewReader(bytes.NewReader(s))
	case 1:
		return bufio.NewReader(iotest.OneByteReader(bytes.NewReader(s)))
	case 2:
		return bufio.NewReader(iotest.HalfReader(bytes.NewReader(s)))
	case 3:
		return bufio.NewReader(iotest.DataErrReader(bytes.NewReader(s)))
	case 4:
		var sz []int
		for _, x := range spec.L[1].L {
			sz = append(sz, int(x.Int()))
		}
		return bufio.NewReader(&chunkReader{data: s, sizes: sz, eofWithData: spec.L[2].Int() != 0})
	default:
		var sz []int
		for _, x := range spec.L[2].L {
			sz = append(sz, int(x.Int()))
		}
		return bufio.NewReaderSize(&chunkReader{data: s, sizes: sz}, int(spec.L[1].Int()))
	}
}

// runs ReadData `calls` times on one reader and one Data (stopping at the first error):
// per call [data, error class]; then what is left unread of the stream, also after an error
func keRun(spec Val, stream []byte, d0 Val, calls int) Val {
	d := keDataFrom(d0)
	var res []Val
	var rest []byte
	run := func(rd *bufio.Reader) {
		for i := 0; i < calls; i++ {
			err := ntske.ReadData(context.Background(), discardLog, rd, &d)
			res = append(res, VL(keDataVal(&d), VI(keErrClass(err))))
			if err != nil {
				break
			}
		}
		rest, _ = io.ReadAll(rd)
	}
	if spec.L[0].Int() == 0 && calls == 1 { // read in one piece straight from the bytes: they must stay as they are
		s := append([]byte(nil), stream...)
		watchInput(inKeReadData, s, nil, func() { run(bufio.NewReader(bytes.NewReader(s))) })
	} else {
		run(keReader(spec, stream))
	}
	return VL(VL(res...), VBy(rest))
}

// offsets of the record headers of a packed message
func recordOffsets(s []byte) []int {
	var off []int
	pos := 0
	for len(s)-pos >= 4 {
		off = append(off, pos)
		pos += 4 + (int(s[pos+2])<<8 | int(s[pos+3]))
	}
	return off
}

// ke.records: [records], trailing bytes, data, calls, [segmentations] -> packed stream, [result per segmentation]
func runKeRecords(tags string, a []Val) {
	// records this code can pack go through ExchangeMsg.Pack; a record of a type it does not
	// know ([8 type body], as another implementation may send it) is written by hand
	buf := new(bytes.Buffer)
	var msg ntske.ExchangeMsg
	flush := func() {
		part, err := msg.Pack()
		if err != nil {
			panic(err)
		}
		buf.Write(part.Bytes())
		msg = ntske.ExchangeMsg{}
	}
	for _, r := range a[0].L {
		if r.L[0].Int() == 8 {
			flush()
			t, body := uint16(r.L[1].Uint()), r.L[2].B
			buf.Write([]byte{byte(t >> 8), byte(t), byte(len(body) >> 8), byte(len(body))})
			buf.Write(body)
			continue
		}
		msg.AddRecord(keRecord(r))
	}
	flush()
	stream := append(append([]byte(nil), buf.Bytes()...), a[1].B...)
	var res []Val
	for _, spec := range a[4].L {
		res = append(res, keRun(spec, stream, a[2], int(a[3].Int())))
	}
	w.Case("ke.records", tags, fmtVals(a), fmtVals([]Val{VBy(buf.Bytes()), VL(res...)}))
}

// ke.stream: stream, data, calls, [segmentations] -> [result per segmentation]
func runKeStream(tags string, a []Val) {
	var res []Val
	for _, spec := range a[3].L {
		res = append(res, keRun(spec, a[0].B, a[1], int(a[2].Int())))
	}
	w.Case("ke.stream", tags, fmtVals(a), fmtVals([]Val{VL(res...)}))
}

func genSpecs(r *lib.Rng) Val {
	specs := []Val{VL(VI(0)), VL(VI(1)), VL(VI(2)), VL(VI(3))}
	for i := 0; i < 3; i++ {
		n := 1 + r.Intn(6)
		sz := make([]Val, n)
		for j := range sz {
			sz[j] = VI(int64(lib.Pick(r, 1, 2, 3, 4, 5, 7, 1+r.Intn(40), 1+r.Intn(300))))
		}
		if i == 2 {
			specs = append(specs, VL(VI(5), VI(int64(lib.Pick(r, 16, 17, 20, 64))), VL(sz...)))
		} else {
			specs = append(specs, VL(VI(4), VL(sz...), VBool(r.Bool())))
		}
	}
	return VL(specs...)
}

func genKeData(r *lib.Rng) Val {
	if r.Intn(3) > 0 {
		return VL(VI(0), VBy(nil), VI(0), VL())
	}
	var cs []Val
	for i := r.Intn(3); i > 0; i-- {
		cs = append(cs, VBy(r.Bytes(r.Intn(20))))
	}
	return VL(VU(genU(r, 16)), VBy(r.Bytes(r.Intn(12))), VU(genU(r, 16)), VL(cs...))
}

func genCookieLen(r *lib.Rng) int {
	return lib.Pick(r, 0, 1, 2, 3, 4, 100, 104, 124, 128, 255, 256, 257, 300, 1000, r.Intn(40), r.Intn(600), 4095, 4096, 4097, 5000)
}

// a canonical record other than End
func genCanonical(r *lib.Rng) Val {
	switch r.Intn(9) {
	case 8: // a record type this code does not know, not critical: to be skipped
		return VL(VI(8), VI(int64(lib.Pick(r, 8, 9, 100, 0x3fff, 0x7fff, 8+r.Intn(32760)))),
			VBy(r.Bytes(lib.Pick(r, 0, 1, 2, r.Intn(20), r.Intn(20), r.Intn(20), 255, 256, 257, 300, 1000, 4095, 4096, 4097, 8192, 65535))))
	case 0:
		return VL(VI(1), VU(genU(r, 16)))
	case 1:
		return VL(VI(4), VL(VU(genU(r, 16))))
	case 2:
		return VL(VI(6), VBy([]byte(lib.Pick(r, "127.0.0.1", "ntp.example.org", "", "[::1]", string(r.Bytes(r.Intn(70))),
			string(r.Bytes(lib.Pick(r, 255, 256, 257, 300, 1000)))))), VBool(r.Bool()))
	case 3:
		return VL(VI(7), VU(genU(r, 16)), VBool(r.Bool()))
	default:
		return VL(VI(5), VBy(r.Bytes(genCookieLen(r))))
	}
}

func genKeMessage(r *lib.Rng) []Val {
	// the shape a server sends: NextProto, Algorithm, [Server], [Port], cookies, End; then variations
	var rs []Val
	if r.Intn(4) > 0 {
		rs = append(rs, VL(VI(1), VI(0)), VL(VI(4), VL(VI(15))))
		if r.Bool() {
			rs = append(rs, VL(VI(6), VBy([]byte("10.1.2.3")), VBool(r.Bool())))
		}
		if r.Bool() {
			rs = append(rs, VL(VI(7), VU(uint64(r.Range(1, 65535))), VBool(r.Bool())))
		}
		for i := r.Intn(9); i > 0; i-- {
			rs = append(rs, VL(VI(5), VBy(r.Bytes(lib.Pick(r, 100, 104, 124, genCookieLen(r))))))
		}
	} else {
		for i := r.Intn(10); i > 0; i-- {
			rs = append(rs, genCanonical(r))
		}
	}
	return rs
}

func genNtske(r *lib.Rng, thorough bool) {
	n := 500
	if thorough {
		n = 9000
	}
	// 16-bit record fields exhaustively (thorough) or densely: port, next protocol, algorithm, error code
	step := 97
	if thorough {
		step = 1
	}
	for v := 0; v < 65536; v += step {
		rs := []Val{VL(VI(1), VI(int64(v))), VL(VI(4), VL(VI(int64(65535-v)))), VL(VI(7), VI(int64(v^0x5a5a)), VBool(v&1 == 1)), VL(VI(0))}
		runKeRecords("nt,sweep16,canon", []Val{VL(rs...), VBy(nil), genKeData(r), VI(1), VL(VL(VI(0)), VL(VI(1)))})
		runKeRecords("nt,sweep16", []Val{VL(VL(VI(2), VI(int64(v)))), VBy(nil), genKeData(r), VI(1), VL(VL(VI(0)), VL(VI(2)))})
	}
	for k := 0; k < n; k++ {
		rs := genKeMessage(r)
		tags := "nt,canon"
		calls := 1
		rest := []byte{}
		switch r.Intn(10) {
		case 0: // trailing bytes after End stay unread
			rs = append(rs, VL(VI(0)))
			rest = r.Bytes(1 + r.Intn(30))
			tags = "nt,canon,trailing"
		case 1: // two messages on one connection, read by two calls
			rs = append(rs, VL(VI(0)))
			rs = append(rs, genKeMessage(r)...)
			rs = append(rs, VL(VI(0)))
			calls = 2
			tags = "nt,hist"
		case 2: // an Error or Warning record ends the exchange
			rs = append(rs, lib.Pick(r, VL(VI(2), VI(int64(r.Intn(4)))), VL(VI(2), VU(genU(r, 16))), VL(VI(3), VU(genU(r, 16)))))
			rs = append(rs, VL(VI(0)))
			tags = "nt,errrec"
		case 3: // no End: the stream just stops
			tags = "nt,noend"
		case 4: // several algorithms in one record (not canonical for ReadData)
			rs = append(rs, VL(VI(4), VL(VI(15), VI(16), VI(17))), VL(VI(0)))
			tags = "nt,noncanon"
		default:
			rs = append(rs, VL(VI(0)))
		}
		runKeRecords(tags, []Val{VL(rs...), VBy(rest), genKeData(r), VI(int64(calls)), genSpecs(r)})
	}
	// byte streams: valid ones cut short or with a byte changed, unknown record types, random
	for k := 0; k < n; k++ {
		var msg ntske.ExchangeMsg
		for _, x := range append(genKeMessage(r), VL(VI(0))) {
			if x.L[0].Int() != 8 {
				msg.AddRecord(keRecord(x))
			}
		}
		buf, _ := msg.Pack()
		s := append([]byte(nil), buf.Bytes()...)
		tags := "nt,mutated"
		switch r.Intn(6) {
		case 0:
			s = s[:r.Intn(len(s)+1)]
			tags = "nt,truncated"
		case 1:
			if len(s) > 0 {
				s[r.Intn(len(s))] ^= byte(1 << uint(r.Intn(8)))
			}
		case 2: // an unknown record type, critical or not, in front
			t := uint16(lib.Pick(r, 8, 9, 100, 0x3fff, 0x7fff))
			if r.Bool() {
				t |= 0x8000
			}
			body := r.Bytes(lib.Pick(r, r.Intn(20), r.Intn(20), 255, 256, 257, 300, 1000, 4095, 4096, 4097, 8192, 65535))
			u := append([]byte{byte(t >> 8), byte(t), byte(len(body) >> 8), byte(len(body))}, body...)
			if r.Bool() { // in front, or between two records
				s = append(u, s...)
			} else {
				off := recordOffsets(s)
				at := off[r.Intn(len(off))]
				s = append(append(append([]byte(nil), s[:at]...), u...), s[at:]...)
			}
			tags = "nt,unknownrec"
		case 3:
			s = r.Bytes(r.Intn(40))
			tags = "random"
		case 4: // the length field of one record lies (low or high byte)
			off := recordOffsets(s)
			i := off[r.Intn(len(off))]
			if r.Intn(4) == 0 {
				s[i+2] ^= byte(1 << uint(r.Intn(3)))
			} else {
				s[i+3] ^= byte(1 + r.Intn(255))
			}
			tags = "nt,lyinglen"
		default:
			if len(s) > 4 {
				i := r.Intn(len(s) / 4)
				s[4*i] ^= 0x80
			}
		}
		runKeStream(tags, []Val{VBy(s), genKeData(r), VI(int64(1 + r.Intn(2))), genSpecs(r)})
	}
	// bodies whose length needs the top bit of the 16-bit length field
	for k := 0; k < 2; k++ {
		rs := []Val{VL(VI(1), VI(0)), VL(VI(4), VL(VI(15))), VL(VI(5), VBy(r.Bytes(lib.Pick(r, 32768, 40000, 65535)))), VL(VI(0))}
		runKeRecords("nt,canon,large", []Val{VL(rs...), VBy(nil), genKeData(r), VI(1), VL(VL(VI(0)), VL(VI(2)))})
		rs = []Val{VL(VI(1), VI(0)), VL(VI(6), VBy(r.Bytes(lib.Pick(r, 32768, 65535))), VBool(r.Bool())), VL(VI(0))}
		runKeRecords("nt,canon,large", []Val{VL(rs...), VBy(nil), genKeData(r), VI(1), VL(VL(VI(0)), VL(VI(2)))})
	}
	// a body longer than its 16-bit length field can say
	for k := 0; k < 2; k++ {
		rs := []Val{VL(VI(1), VI(0)), VL(VI(5), VBy(r.Bytes(65536+r.Intn(9)))), VL(VI(0))}
		runKeRecords("nt,oversize", []Val{VL(rs...), VBy(nil), genKeData(r), VI(1), VL(VL(VI(0)), VL(VI(2)))})
	}
}
