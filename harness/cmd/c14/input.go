package main

import (
	"bufio"
	"bytes"
	"context"

	"example.com/scion-time/net/csptp"
	"example.com/scion-time/net/ntp"
	"example.com/scion-time/net/nts"
	"example.com/scion-time/net/ntske"
)

// decoder codes of the kind dec.input
const (
	inNtp = iota
	inCsMsg
	inCsReq
	inCsResp
	inServerCookie
	inEncryptedCookie // Decode + Decrypt under the key
	inNtsDecode
	inNtsRequest  // DecodePacket + ProcessRequest under the key
	inNtsResponse // DecodePacket + ProcessResponse under the key
	inKeReadData
)

// watchInput runs f, which hands `in` to a decoder of the project, and records the bytes of `in`
// before and after: no decoder may modify its input.
// dec.input: decoder code, input, key -> input afterwards
func watchInput(code int64, in, key []byte, f func()) {
	before := append([]byte(nil), in...)
	f()
	w.Case("dec.input", "nt,input", fmtVals([]Val{VI(code), VBy(before), VBy(key)}), fmtVals([]Val{VBy(in)}))
}

// replay: run the decoder of that code on the recorded input
func runDecInput(tags string, a []Val) {
	in, key := a[1].B, a[2].B
	watchInput(a[0].Int(), in, key, func() {
		switch a[0].Int() {
		case inNtp:
			var p ntp.Packet
			_ = ntp.DecodePacket(&p, in)
		case inCsMsg:
			var m csptp.Message
			_ = csptp.DecodeMessage(&m, in)
		case inCsReq:
			var t csptp.RequestTLV
			_ = csptp.DecodeRequestTLV(&t, in)
		case inCsResp:
			var t csptp.ResponseTLV
			_ = csptp.DecodeResponseTLV(&t, in)
		case inServerCookie:
			var c ntske.ServerCookie
			_ = c.Decode(in)
		case inEncryptedCookie:
			var c ntske.EncryptedServerCookie
			if c.Decode(in) == nil {
				_, _ = c.Decrypt(key)
			}
		case inNtsDecode:
			var p nts.Packet
			_ = nts.DecodePacket(&p, in)
		case inNtsRequest:
			var p nts.Packet
			if nts.DecodePacket(&p, in) == nil {
				_ = nts.ProcessRequest(in, key, &p)
			}
		case inNtsResponse:
			var p nts.Packet
			var f ntske.Fetcher
			if nts.DecodePacket(&p, in) == nil {
				_ = nts.ProcessResponse(in, key, &f, &p, p.UniqueID.ID)
			}
		default:
			var d ntske.Data
			_ = ntske.ReadData(context.Background(), discardLog, bufio.NewReader(bytes.NewReader(in)), &d)
		}
	})
}
