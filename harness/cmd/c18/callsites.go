// C18, kind units.callsites: source check (go/ast) of the places where the conversions of
// this property are "passed to the kernel".  The adjtimex call sites cannot be executed (they
// would change the clock of this machine and are NEVER called by any harness), so the tie between
// the checked conversion functions and the unix.Timex fields is syntactic and trusted:
//
//	1 Timex.Time  = unixutil.TimevalFromNsec(<the function's duration parameter>.Nanoseconds())
//	  and Modes contains ADJ_SETOFFSET and ADJ_NANO (the sub-second part is nanoseconds)
//	2 Timex.Freq  = unixutil.ScaledPPMFromFreq(...) and Modes contains ADJ_FREQUENCY
//	3 Timex.Freq is read only as the argument of unixutil.FreqFromScaledPPM
//	4 Timex.Offset = <duration parameter>.Nanoseconds() with ADJ_OFFSET, ADJ_NANO in Modes and
//	  STA_NANO in Status (set in the same block)
//	5 the non-test files mentioning unix.Timex / ClockAdjtime / Adjtimex are exactly the known three
//
// One entry [category ok] per site; the oracle wants every entry ok and at least 3/2/1/1/1 entries.
package main

import (
	"fmt"
	"go/ast"
	"go/parser"
	"go/token"
	"os"
	"path/filepath"
	"sort"
	"strings"

	"verifharness/lib"
)

func repoRoot() string {
	if r := os.Getenv("VERIF_REPO"); r != "" {
		return r
	}
	return "/repo"
}

var callsiteFiles = []string{
	"core/sync/adjustments/pi_linux.go",
	"core/sync/adjustments/sys_linux.go",
	"driver/clocks/sysclk_linux.go",
}

func isSel(e ast.Expr, pkg, name string) bool {
	s, ok := e.(*ast.SelectorExpr)
	if !ok || s.Sel.Name != name {
		return false
	}
	id, ok := s.X.(*ast.Ident)
	return ok && id.Name == pkg
}

// unixFlags collects the NAMEs of all unix.NAME selectors below e
func unixFlags(e ast.Expr, into map[string]bool) {
	if e == nil {
		return
	}
	ast.Inspect(e, func(n ast.Node) bool {
		if s, ok := n.(*ast.SelectorExpr); ok {
			if id, ok := s.X.(*ast.Ident); ok && id.Name == "unix" {
				into[s.Sel.Name] = true
			}
		}
		return true
	})
}

// durationParams returns the names of the parameters of type time.Duration
func durationParams(fd *ast.FuncDecl) []string {
	var r []string
	if fd.Type.Params == nil {
		return r
	}
	for _, f := range fd.Type.Params.List {
		if isSel(f.Type, "time", "Duration") {
			for _, n := range f.Names {
				r = append(r, n.Name)
			}
		}
	}
	return r
}

// isNanosOf: e is P.Nanoseconds() with P the only duration parameter
func isNanosOf(e ast.Expr, durs []string) bool {
	c, ok := e.(*ast.CallExpr)
	if !ok || len(c.Args) != 0 || len(durs) != 1 {
		return false
	}
	s, ok := c.Fun.(*ast.SelectorExpr)
	if !ok || s.Sel.Name != "Nanoseconds" {
		return false
	}
	id, ok := s.X.(*ast.Ident)
	return ok && id.Name == durs[0]
}

func isTimevalOf(e ast.Expr, durs []string) bool {
	c, ok := e.(*ast.CallExpr)
	if !ok || len(c.Args) != 1 {
		return false
	}
	if !isSel(c.Fun, "unixutil", "TimevalFromNsec") && !isSel(c.Fun, "unixutil", "NsecToNsecTimeval") {
		return false
	}
	return isNanosOf(c.Args[0], durs)
}

func isScaledPPMCall(e ast.Expr) bool {
	c, ok := e.(*ast.CallExpr)
	return ok && len(c.Args) == 1 && isSel(c.Fun, "unixutil", "ScaledPPMFromFreq")
}

type siteEntry struct {
	cat int64
	ok  bool
	pos string
}

func fieldOf(e ast.Expr) string { // X.Field with X an identifier
	s, ok := e.(*ast.SelectorExpr)
	if !ok {
		return ""
	}
	if _, ok := s.X.(*ast.Ident); !ok {
		return ""
	}
	return s.Sel.Name
}

func analyseFunc(fset *token.FileSet, rel string, fd *ast.FuncDecl) []siteEntry {
	var out []siteEntry
	durs := durationParams(fd)
	at := func(p token.Pos) string { return fmt.Sprintf("%s:%d", rel, fset.Position(p).Line) }
	// composite literals unix.Timex{...}
	ast.Inspect(fd.Body, func(n ast.Node) bool {
		cl, ok := n.(*ast.CompositeLit)
		if !ok || !isSel(cl.Type, "unix", "Timex") {
			return true
		}
		kv := map[string]ast.Expr{}
		for _, el := range cl.Elts {
			if k, ok := el.(*ast.KeyValueExpr); ok {
				if id, ok := k.Key.(*ast.Ident); ok {
					kv[id.Name] = k.Value
				}
			}
		}
		modes := map[string]bool{}
		unixFlags(kv["Modes"], modes)
		status := map[string]bool{}
		unixFlags(kv["Status"], status)
		if v, ok := kv["Time"]; ok {
			out = append(out, siteEntry{1, isTimevalOf(v, durs) && modes["ADJ_SETOFFSET"] && modes["ADJ_NANO"], at(v.Pos())})
		}
		if v, ok := kv["Freq"]; ok {
			out = append(out, siteEntry{2, isScaledPPMCall(v) && modes["ADJ_FREQUENCY"], at(v.Pos())})
		}
		if v, ok := kv["Offset"]; ok {
			out = append(out, siteEntry{4, isNanosOf(v, durs) && modes["ADJ_OFFSET"] && modes["ADJ_NANO"] && status["STA_NANO"], at(v.Pos())})
		}
		return true
	})
	// field assignments, with the flags set in the same block
	ast.Inspect(fd.Body, func(n ast.Node) bool {
		bl, ok := n.(*ast.BlockStmt)
		if !ok {
			return true
		}
		modes, status := map[string]bool{}, map[string]bool{}
		for _, st := range bl.List {
			as, ok := st.(*ast.AssignStmt)
			if !ok || len(as.Lhs) != 1 || len(as.Rhs) != 1 {
				continue
			}
			switch fieldOf(as.Lhs[0]) {
			case "Modes":
				if as.Tok == token.OR_ASSIGN || as.Tok == token.ASSIGN {
					unixFlags(as.Rhs[0], modes)
				}
			case "Status":
				if as.Tok == token.OR_ASSIGN || as.Tok == token.ASSIGN {
					unixFlags(as.Rhs[0], status)
				}
			}
		}
		for _, st := range bl.List {
			as, ok := st.(*ast.AssignStmt)
			if !ok || len(as.Lhs) != 1 || len(as.Rhs) != 1 {
				continue
			}
			switch fieldOf(as.Lhs[0]) {
			case "Time":
				out = append(out, siteEntry{1, as.Tok == token.ASSIGN && isTimevalOf(as.Rhs[0], durs) && modes["ADJ_SETOFFSET"] && modes["ADJ_NANO"], at(as.Pos())})
			case "Freq":
				out = append(out, siteEntry{2, as.Tok == token.ASSIGN && isScaledPPMCall(as.Rhs[0]) && modes["ADJ_FREQUENCY"], at(as.Pos())})
			case "Offset":
				out = append(out, siteEntry{4, as.Tok == token.ASSIGN && isNanosOf(as.Rhs[0], durs) && modes["ADJ_OFFSET"] && modes["ADJ_NANO"] && status["STA_NANO"], at(as.Pos())})
			}
		}
		return true
	})
	// reads of X.Freq: only as the argument of unixutil.FreqFromScaledPPM
	okRead := map[ast.Expr]bool{}
	written := map[ast.Expr]bool{}
	ast.Inspect(fd.Body, func(n ast.Node) bool {
		switch x := n.(type) {
		case *ast.CallExpr:
			if isSel(x.Fun, "unixutil", "FreqFromScaledPPM") && len(x.Args) == 1 {
				okRead[x.Args[0]] = true
			}
		case *ast.AssignStmt:
			for _, l := range x.Lhs {
				written[l] = true
			}
		}
		return true
	})
	ast.Inspect(fd.Body, func(n ast.Node) bool {
		s, ok := n.(*ast.SelectorExpr)
		if !ok || fieldOf(s) != "Freq" || written[s] {
			return true
		}
		out = append(out, siteEntry{3, okRead[s], at(s.Pos())})
		return true
	})
	return out
}

func callsites() {
	root := repoRoot()
	fset := token.NewFileSet()
	var entries []siteEntry
	for _, rel := range callsiteFiles {
		f, err := parser.ParseFile(fset, filepath.Join(root, rel), nil, 0)
		if err != nil {
			fmt.Println("NOTE units.callsites: cannot parse " + rel + ": " + err.Error())
			entries = append(entries, siteEntry{5, false, rel})
			continue
		}
		for _, d := range f.Decls {
			if fd, ok := d.(*ast.FuncDecl); ok && fd.Body != nil {
				entries = append(entries, analyseFunc(fset, rel, fd)...)
			}
		}
	}
	// the set of files that talk to adjtimex
	var found []string
	filepath.Walk(root, func(p string, info os.FileInfo, err error) error {
		if err != nil {
			return nil
		}
		if info.IsDir() {
			if n := info.Name(); p != root && (strings.HasPrefix(n, ".") || n == "testnet" || n == "vendor") {
				return filepath.SkipDir
			}
			return nil
		}
		if !strings.HasSuffix(p, ".go") || strings.HasSuffix(p, "_test.go") {
			return nil
		}
		b, err := os.ReadFile(p)
		if err != nil {
			return nil
		}
		s := string(b)
		if strings.Contains(s, "unix.Timex") || strings.Contains(s, "ClockAdjtime") || strings.Contains(s, "unix.Adjtimex") || strings.Contains(s, "syscall.Adjtimex") {
			rel, _ := filepath.Rel(root, p)
			found = append(found, filepath.ToSlash(rel))
		}
		return nil
	})
	sort.Strings(found)
	entries = append(entries, siteEntry{5, strings.Join(found, ",") == strings.Join(callsiteFiles, ","), strings.Join(found, ",")})
	sort.SliceStable(entries, func(i, j int) bool { return entries[i].cat < entries[j].cat })
	var items []string
	for _, e := range entries {
		items = append(items, lib.L(lib.I(e.cat), lib.Bool(e.ok)))
		if !e.ok {
			fmt.Printf("NOTE units.callsites: violated, category %d at %s\n", e.cat, e.pos)
		}
	}
	w.Case("units.callsites", "nt", lib.I(int64(len(callsiteFiles))), lib.L(items...))
}
