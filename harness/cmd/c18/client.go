// C18, kind csptp.client: the REAL CSPTP client (core/client.CSPTPClientIP.MeasureClockOffset) against
// a scripted CSPTP responder on loopback (own address 127.18.<pid>, ports 319/320) whose timestamps are
// theta ahead of the client's clock, with chosen correction fields (incl. sub-nanosecond bits), UTC
// offset, flags, reply order and reply spacing.  Observed: the offset the client returns, the receive
// timestamp it returns, and the four values of its "evaluated response" debug record.
//
// What the responder does (all on CLOCK_REALTIME, the clock the client's kernel timestamps use):
//
//	r1 = now() after both requests arrived          (>= the client's transmit timestamp t0)
//	t1 = r1 + theta + c1, c1 = floor(field1 / 2^16) (request ingress timestamp, correction c1)
//	s2 = now() before the replies are sent
//	t2 = s2 + theta - c3, c3 = floor(field0a/2^16) + floor(field0b/2^16) (Sync + FollowUp corrections)
//
// so that with delta1 = r1 - t0 in [0, r1 - start] and D2 = t3 - s2 (t3 = the returned receive time):
//
//	offset = theta + (delta1 - D2)/2,  S2C = D2 - theta + U,  C2S = theta + delta1 - U,  MPD = (delta1 + D2)/2
//
// whatever the correction fields are.  The machine's clock is never touched.
package main

import (
	"context"
	"encoding/binary"
	"log/slog"
	"net"
	"net/netip"
	"os"
	"sync"
	"time"

	"example.com/scion-time/core/client"
	"example.com/scion-time/core/timebase"
	"example.com/scion-time/net/csptp"

	"verifharness/lib"
)

// stub clock for timebase.Now (only used by the client when a kernel timestamp is missing): reads
// the wall clock, never sets it
type roClock struct{}

func (roClock) Epoch() uint64                                    { return 0 }
func (roClock) Now() time.Time                                   { return time.Now().UTC() }
func (roClock) Drift(d time.Duration) time.Duration              { return 0 }
func (roClock) Step(offset time.Duration)                        {}
func (roClock) Adjust(offset, duration time.Duration, f float64) {}
func (roClock) Sleep(d time.Duration)                            { time.Sleep(d) }

// capLog keeps the values of the client's "evaluated response" record
type capLog struct {
	mu       sync.Mutex
	vals     map[string]int64
	got      bool
	txFails  int // the second transmit timestamp is always reported as failed (its id is 1, the client wants 0); it is not used
	rxFails  int
}

func (h *capLog) Enabled(context.Context, slog.Level) bool { return true }
func (h *capLog) WithAttrs([]slog.Attr) slog.Handler       { return h }
func (h *capLog) WithGroup(string) slog.Handler            { return h }
func (h *capLog) Handle(_ context.Context, r slog.Record) error {
	h.mu.Lock()
	defer h.mu.Unlock()
	switch r.Message {
	case "evaluated response":
		r.Attrs(func(a slog.Attr) bool {
			if a.Value.Kind() == slog.KindDuration {
				h.vals[a.Key] = int64(a.Value.Duration())
			}
			return true
		})
		h.got = true
	case "failed to read packet tx timestamp":
		h.txFails++
	case "failed to read packet rx timestamp":
		h.rxFails++
	}
	return nil
}
func (h *capLog) reset() {
	h.mu.Lock()
	h.vals, h.got, h.txFails, h.rxFails = map[string]int64{}, false, 0, 0
	h.mu.Unlock()
}

type clientCase struct {
	theta          int64 // offset of the server's timestamps against the client clock, ns
	f1, f0a, f0b   int64 // correction fields (2^-16 ns): request, Sync reply, FollowUp reply
	utc            int16
	valid          bool
	extra0, extra1 uint16 // further flag bits of the two replies (never bit 2)
	spacingUs      int64  // pause between the two replies
	fuFirst        bool   // FollowUp reply before the Sync reply
	stateDS        bool   // response TLV carries the server state data set
}

type clientEnv struct {
	ip         net.IP
	addr       netip.Addr
	s319, s320 *net.UDPConn
	c          *client.CSPTPClientIP
	log        *capLog
}

var cenv *clientEnv

func clientSetup() *clientEnv {
	if cenv != nil {
		return cenv
	}
	pid := os.Getpid()
	ip := net.IPv4(127, 18, byte(pid>>8), byte(pid))
	timebase.RegisterClock(roClock{})
	e := &clientEnv{ip: ip, log: &capLog{}}
	e.addr, _ = netip.AddrFromSlice(ip.To4())
	var err error
	if e.s319, err = net.ListenUDP("udp4", &net.UDPAddr{IP: ip, Port: csptp.EventPortIP}); err != nil {
		panic(err)
	}
	if e.s320, err = net.ListenUDP("udp4", &net.UDPAddr{IP: ip, Port: csptp.GeneralPortIP}); err != nil {
		panic(err)
	}
	e.c = &client.CSPTPClientIP{Log: slog.New(e.log)}
	cenv = e
	return e
}

func tsOfNs(ns int64) csptp.Timestamp {
	s := ns / 1000000000
	return mkTs(uint64(s), uint32(ns%1000000000))
}

// one exchange; returns the case line fields and whether the client produced a measurement
func (e *clientEnv) exchange(cs clientCase) (args, outs string, ok bool) {
	e.log.reset()
	type srvRes struct {
		t1, t2, s2, r1 int64
		ok             bool
	}
	res := make(chan srvRes, 1)
	go func() {
		var r srvRes
		defer func() { res <- r }()
		buf := make([]byte, 2048)
		e.s319.SetReadDeadline(time.Now().Add(8 * time.Second))
		n, src, err := e.s319.ReadFromUDP(buf)
		if err != nil || n < csptp.MinMessageLength {
			return
		}
		seq := binary.BigEndian.Uint16(buf[30:])
		e.s320.SetReadDeadline(time.Now().Add(8 * time.Second))
		if _, _, err := e.s320.ReadFromUDP(buf); err != nil {
			return
		}
		r.r1 = time.Now().UnixNano()
		c1 := cs.f1 >> 16
		c3 := cs.f0a>>16 + cs.f0b>>16
		r.t1 = r.r1 + cs.theta + c1
		// Sync reply
		m0 := csptp.Message{SdoIDMessageType: csptp.MessageTypeSync, PTPVersion: csptp.PTPVersion, MessageLength: csptp.MinMessageLength,
			FlagField: csptp.FlagTwoStep | csptp.FlagUnicast | cs.extra0, CorrectionField: cs.f0a, SequenceID: seq,
			ControlField: csptp.ControlSync, SourcePortIdentity: csptp.PortID{ClockID: 1, Port: 1}, LogMessageInterval: csptp.LogMessageInterval}
		b0 := make([]byte, csptp.MinMessageLength)
		csptp.EncodeMessage(b0, &m0)
		r.s2 = time.Now().UnixNano()
		r.t2 = r.s2 + cs.theta - c3
		// FollowUp reply with the response TLV
		tlv := csptp.ResponseTLV{Type: csptp.TLVTypeOrganizationExtension,
			OrganizationID:          [3]uint8{csptp.OrganizationIDMeinberg0, csptp.OrganizationIDMeinberg1, csptp.OrganizationIDMeinberg2},
			OrganizationSubType:     [3]uint8{csptp.OrganizationSubTypeResponse0, csptp.OrganizationSubTypeResponse1, csptp.OrganizationSubTypeResponse2},
			RequestIngressTimestamp: tsOfNs(r.t1), RequestCorrectionField: cs.f1, UTCOffset: cs.utc}
		if cs.stateDS {
			tlv.FlagField = csptp.TLVFlagServerStateDS
			tlv.ServerStateDS = csptp.ServerStateDS{GMPriority1: 128, GMClockClass: 6, GMClockAccuracy: 0x21, GMPriority2: 128, TimeSource: 0x20}
		}
		tl := csptp.EncodedResponseTLVLength(&tlv)
		tlv.Length = uint16(tl)
		fl := uint16(csptp.FlagUnicast) | cs.extra1
		if cs.valid {
			fl |= csptp.FlagCurrentUTCOffsetValid
		}
		m1 := csptp.Message{SdoIDMessageType: csptp.MessageTypeFollowUp, PTPVersion: csptp.PTPVersion, MessageLength: uint16(csptp.MinMessageLength + tl),
			FlagField: fl, CorrectionField: cs.f0b, SequenceID: seq, ControlField: csptp.ControlFollowUp,
			SourcePortIdentity: csptp.PortID{ClockID: 1, Port: 1}, LogMessageInterval: csptp.LogMessageInterval, Timestamp: tsOfNs(r.t2)}
		b1 := make([]byte, csptp.MinMessageLength+tl)
		csptp.EncodeMessage(b1[:csptp.MinMessageLength], &m1)
		csptp.EncodeResponseTLV(b1[csptp.MinMessageLength:], &tlv)
		pause := func() {
			if cs.spacingUs > 0 {
				time.Sleep(time.Duration(cs.spacingUs) * time.Microsecond)
			}
		}
		if cs.fuFirst {
			e.s320.WriteToUDP(b1, src)
			pause()
			e.s319.WriteToUDP(b0, src)
		} else {
			e.s319.WriteToUDP(b0, src)
			pause()
			e.s320.WriteToUDP(b1, src)
		}
		r.ok = true
	}()
	ctx, cancel := context.WithTimeout(context.Background(), 8*time.Second)
	start := time.Now().UnixNano()
	ts, off, err := e.c.MeasureClockOffset(ctx, e.addr, e.addr)
	cancel()
	// end the responder if it is still waiting
	var sr srvRes
	for done := false; !done; {
		select {
		case sr = <-res:
			done = true
		case <-time.After(5 * time.Millisecond):
			e.s319.SetReadDeadline(time.Now())
			e.s320.SetReadDeadline(time.Now())
		}
	}
	b2i := func(b bool) int64 {
		if b {
			return 1
		}
		return 0
	}
	args = lib.V(lib.I(cs.theta), lib.I(cs.f1), lib.I(cs.f0a), lib.I(cs.f0b), lib.I(int64(cs.utc)), lib.I(b2i(cs.valid)),
		lib.I(int64(cs.extra0)), lib.I(int64(cs.extra1)), lib.I(cs.spacingUs), lib.I(b2i(cs.fuFirst)), lib.I(b2i(cs.stateDS)),
		lib.I(sr.t1), lib.I(sr.t2), lib.I(sr.s2), lib.I(sr.r1-start))
	e.log.mu.Lock()
	got := e.log.got
	v := e.log.vals
	e.log.mu.Unlock()
	ok = err == nil && sr.ok && got
	if !ok {
		outs = lib.V("0", "0", "0", "0", "0", "0", "0")
		return
	}
	outs = lib.V("1", lib.I(int64(off)), lib.I(ts.UnixNano()), lib.I(v["clock offset"]), lib.I(v["mean path delay"]), lib.I(v["C2S delay"]), lib.I(v["S2C delay"]))
	return
}

func clientCaseRun(cs clientCase) {
	e := clientSetup()
	var args, outs string
	ok := false
	for try := 0; try < 3 && !ok; try++ {
		args, outs, ok = e.exchange(cs)
	}
	tags := "nt"
	if cs.valid {
		tags += ",utc-valid"
	}
	if cs.f1&0xffff != 0 || cs.f0a&0xffff != 0 || cs.f0b&0xffff != 0 {
		tags += ",subns"
	}
	if cs.f1 < 0 || cs.f0a < 0 || cs.f0b < 0 {
		tags += ",negative-correction"
	}
	if cs.fuFirst {
		tags += ",followup-first"
	}
	e.log.mu.Lock()
	if e.log.txFails > 1 || e.log.rxFails > 0 {
		tags += ",timestamp-fallback"
	}
	e.log.mu.Unlock()
	if !ok {
		tags += ",no-measurement"
	}
	w.Case("csptp.client", tags, args, outs)
}

func genCorr(r *lib.Rng) int64 {
	var c int64
	switch r.Intn(6) {
	case 0:
		c = 0
	case 1:
		c = r.Range(1, 1000)
	case 2:
		c = r.Range(1000, 1000000000)
	case 3:
		c = -r.Range(1, 1000000)
	case 4:
		c = r.Range(-(1 << 40), 1<<40)
	default:
		c = lib.Pick(r, int64(1), -1, 1000, 1<<45, -(1 << 45), 65536, 500000)
	}
	frac := int64(0)
	if r.Intn(4) != 0 {
		frac = r.Range(1, 65535)
	}
	return c*65536 + frac
}

func genClientCase(r *lib.Rng) clientCase {
	var cs clientCase
	switch r.Intn(7) {
	case 0:
		cs.theta = 0
	case 1:
		cs.theta = r.Range(-1000000, 1000000)
	case 2:
		cs.theta = lib.Pick(r, int64(1000000000), -1000000000, 37000000000, -37000000000, 1, -1)
	case 3:
		cs.theta = r.Range(-5000000000, 5000000000)
	case 4:
		cs.theta = r.Range(-1500000000000000000, 1<<58)
	default:
		cs.theta = r.Range(-86400000000000, 86400000000000)
	}
	cs.f1, cs.f0a, cs.f0b = genCorr(r), genCorr(r), genCorr(r)
	switch r.Intn(5) {
	case 0:
		cs.utc = 37
	case 1:
		cs.utc = lib.Pick(r, int16(0), 1, -1, -37, 32767, -32768, 36)
	default:
		cs.utc = int16(r.U64())
	}
	cs.valid = r.Bool()
	cs.extra0 = uint16(r.U64()) &^ (1 << 2)
	cs.extra1 = uint16(r.U64()) &^ (1 << 2)
	if r.Bool() {
		cs.extra0, cs.extra1 = 0, lib.Pick(r, uint16(0), 1, 2, 1<<3, 1<<3|1)
	}
	cs.spacingUs = lib.Pick(r, int64(0), 0, 50, 300, 1500, r.Range(0, 3000))
	cs.fuFirst = r.Intn(3) == 0
	cs.stateDS = r.Bool()
	return cs
}
