// C18: unit conversions (unixutil, SystemClock.Drift, csptp conversions and formulas).
package main

import (
	"io"
	"log/slog"
	"math"
	"math/big"
	"math/bits"
	"time"

	"example.com/scion-time/base/unixutil"
	"example.com/scion-time/driver/clocks"
	"example.com/scion-time/net/csptp"

	"verifharness/lib"
)

var w *lib.Writer

func fbits(f float64) uint64 {
	if math.IsNaN(f) {
		return 0x7ff8000000000000
	}
	return math.Float64bits(f)
}

func timeval(n int64) {
	tv := unixutil.TimevalFromNsec(n)
	tags := ""
	if n < 0 && n%1000000000 == 0 || n < 0 {
		tags = "nt"
	}
	w.Case("units.timeval", tags, lib.I(n), lib.V(lib.I(tv.Sec), lib.I(tv.Usec)))
}

func ppmOfFreq(f float64) {
	w.Case("units.ppm_of_freq", "", lib.U(fbits(f)), lib.I(unixutil.ScaledPPMFromFreq(f)))
}

func freqOfPpm(x int64) {
	w.Case("units.freq_of_ppm", "", lib.I(x), lib.U(fbits(unixutil.FreqFromScaledPPM(x))))
}

func ppmRoundtrip(x int64) {
	tags := ""
	if x != 0 && x >= -32768000 && x <= 32768000 {
		tags = "nt"
	}
	w.Case("units.ppm_roundtrip", tags, lib.I(x), lib.I(unixutil.ScaledPPMFromFreq(unixutil.FreqFromScaledPPM(x))))
}

var nolog = slog.New(slog.NewTextHandler(io.Discard, nil))

// inRange reports whether (driftNs, d) lies in the range the drift oracle speaks about:
// positive drift, non-negative interval, true allowance driftNs*d/1e9 below 2^62 ns.
// wraps reports whether in addition driftNs*d itself does not fit int64 (> 2^63-1 ns^2).
func driftRange(driftNs, d int64) (inRange, wraps bool) {
	if driftNs <= 0 || d < 0 {
		return false, false
	}
	p := new(big.Int).Mul(big.NewInt(driftNs), big.NewInt(d))
	lim := new(big.Int).Mul(new(big.Int).Lsh(big.NewInt(1), 62), big.NewInt(1000000000))
	if p.Cmp(lim) >= 0 {
		return false, false
	}
	return true, !p.IsInt64()
}

func driftTags(driftNs, d int64) string {
	tags := ""
	if driftNs != 0 {
		tags = "nt"
	}
	if in, wraps := driftRange(driftNs, d); in {
		if tags != "" {
			tags += ","
		}
		tags += "drift-oracle"
		if wraps {
			tags += ",drift-product-over-int64"
		}
	}
	return tags
}

func drift(driftNs, d int64) {
	c := clocks.NewSystemClock(nolog, time.Duration(driftNs))
	w.Case("units.drift", driftTags(driftNs, d), lib.V(lib.I(driftNs), lib.I(d)), lib.I(int64(c.Drift(time.Duration(d)))))
}

// Drift(d1), Drift(d2), Drift(d1+d2) of one clock: monotone and additive
func driftAdd(driftNs, d1, d2 int64) {
	c := clocks.NewSystemClock(nolog, time.Duration(driftNs))
	w.Case("units.drift_add", driftTags(driftNs, d1+d2), lib.V(lib.I(driftNs), lib.I(d1), lib.I(d2)),
		lib.V(lib.I(int64(c.Drift(time.Duration(d1)))), lib.I(int64(c.Drift(time.Duration(d2)))), lib.I(int64(c.Drift(time.Duration(d1+d2))))))
}

// a realistic drift (ns per s) and an interval for which drift x interval exceeds 2^63 ns^2
// while the true allowance drift x interval / 1e9 stays below 2^62 ns
func genWrapPair(r *lib.Rng) (int64, int64) {
	switch r.Intn(6) {
	case 0:
		return 500000, 6 * 3600 * 1000000000 // 500 us/s x 6 h
	case 1:
		return 50000, 60 * 3600 * 1000000000 // 50 us/s x 60 h
	}
	var dn int64
	switch r.Intn(3) {
	case 0:
		dn = lib.Pick(r, int64(500000), 100000, 50000, 10000, 5000, 1000, 1000000, 250000)
	case 1:
		dn = r.Range(1000, 1000000)
	default:
		dn = r.Range(2, 4000000000)
	}
	lo := math.MaxInt64/dn + 1 // smallest d with dn*d > MaxInt64
	hi := int64(math.MaxInt64)
	lim := new(big.Int).Mul(new(big.Int).Lsh(big.NewInt(1), 62), big.NewInt(1000000000))
	lim.Sub(lim, big.NewInt(1)).Div(lim, big.NewInt(dn))
	if lim.IsInt64() {
		hi = lim.Int64()
	}
	// log-uniform between lo and hi: most weight on hours to weeks
	e := uint(r.Intn(bits.Len64(uint64(hi / lo)))) // 2^e <= hi/lo
	base := lo << e
	room := hi - base
	if room > base {
		room = base
	}
	d := base + r.Range(0, room)
	return dn, d
}

func tsOfTime(sec, nsec int64) {
	ok := true
	var ts csptp.Timestamp
	func() {
		defer func() {
			if recover() != nil {
				ok = false
			}
		}()
		ts = csptp.TimestampFromTime(time.Unix(sec, nsec))
	}()
	if !ok {
		w.Case("csptp.ts_of_time", "panic", lib.V(lib.I(sec), lib.I(nsec)), "0")
		return
	}
	var s uint64
	for _, b := range ts.Seconds {
		s = s<<8 | uint64(b)
	}
	w.Case("csptp.ts_of_time", "", lib.V(lib.I(sec), lib.I(nsec)), lib.V("1", lib.U(s), lib.U(uint64(ts.Nanoseconds))))
}

func mkTs(s uint64, ns uint32) csptp.Timestamp {
	var ts csptp.Timestamp
	for i := 0; i < 6; i++ {
		ts.Seconds[i] = uint8(s >> (8 * (5 - i)))
	}
	ts.Nanoseconds = ns
	return ts
}

func timeOfTs(s uint64, ns uint32) {
	t := csptp.TimeFromTimestamp(mkTs(s, ns))
	w.Case("csptp.time_of_ts", "", lib.V(lib.U(s), lib.U(uint64(ns))), lib.V(lib.I(t.Unix()), lib.I(int64(t.Nanosecond()))))
}

func tsRoundtrip(s uint64, ns uint32) {
	// wire -> time -> wire
	t := csptp.TimeFromTimestamp(mkTs(s, ns))
	ok := true
	var back csptp.Timestamp
	func() {
		defer func() {
			if recover() != nil {
				ok = false
			}
		}()
		back = csptp.TimestampFromTime(t)
	}()
	var bs uint64
	for _, b := range back.Seconds {
		bs = bs<<8 | uint64(b)
	}
	w.Case("csptp.ts_roundtrip", "nt", lib.V(lib.U(s), lib.U(uint64(ns))), lib.V(lib.Bool(ok), lib.U(bs), lib.U(uint64(back.Nanoseconds))))
}

// wire -> time -> wire for ANY 32-bit nanoseconds field (non-canonical ones carry into the seconds;
// at the last 48-bit seconds the carried instant cannot be written any more and the code panics)
func tsReencode(s uint64, ns uint32) {
	t := csptp.TimeFromTimestamp(mkTs(s, ns))
	ok := true
	var back csptp.Timestamp
	func() {
		defer func() {
			if recover() != nil {
				ok = false
			}
		}()
		back = csptp.TimestampFromTime(t)
	}()
	var bs uint64
	for _, b := range back.Seconds {
		bs = bs<<8 | uint64(b)
	}
	tags := "nt"
	if ns >= 1000000000 {
		tags += ",noncanonical-ns"
	}
	if !ok {
		tags += ",panic"
	}
	w.Case("csptp.ts_reencode", tags, lib.V(lib.U(s), lib.U(uint64(ns))), lib.V(lib.Bool(ok), lib.U(bs), lib.U(uint64(back.Nanoseconds))))
}

func interval(i int64) {
	tags := ""
	if i < 0 && i&0xffff != 0 {
		tags = "nt"
	}
	w.Case("csptp.interval", tags, lib.I(i), lib.I(int64(csptp.DurationFromTimeInterval(i))))
}

func tm(ns int64) time.Time { return time.Unix(0, ns) }

func formulas(t0, t1, t2, t3, c1, c3, utc int64) {
	off := csptp.ClockOffset(tm(t0), tm(t1), tm(t2), tm(t3), time.Duration(c1), time.Duration(c3))
	mpd := csptp.MeanPathDelay(tm(t0), tm(t1), tm(t2), tm(t3), time.Duration(c1), time.Duration(c3))
	c2s := csptp.C2SDelay(tm(t0), tm(t1), time.Duration(c1), time.Duration(utc))
	s2c := csptp.S2CDelay(tm(t2), tm(t3), time.Duration(c3), time.Duration(utc))
	w.Case("csptp.formulas", "", lib.V(lib.I(t0), lib.I(t1), lib.I(t2), lib.I(t3), lib.I(c1), lib.I(c3), lib.I(utc)),
		lib.V(lib.I(int64(off)), lib.I(int64(mpd)), lib.I(int64(c2s)), lib.I(int64(s2c))))
}

func recoverCase(t0, t2, theta, delta, c1, c3 int64) {
	t1 := t0 + theta + delta + c1
	t3 := t2 - theta + delta + c3
	off := csptp.ClockOffset(tm(t0), tm(t1), tm(t2), tm(t3), time.Duration(c1), time.Duration(c3))
	mpd := csptp.MeanPathDelay(tm(t0), tm(t1), tm(t2), tm(t3), time.Duration(c1), time.Duration(c3))
	tags := "nt" + timeTag(t0)
	w.Case("csptp.recover", tags, lib.V(lib.I(t0), lib.I(t2), lib.I(theta), lib.I(delta), lib.I(c1), lib.I(c3)),
		lib.V(lib.I(int64(off)), lib.I(int64(mpd))))
}

// one-way delays d1, d2 with a UTC correction: C2SDelay / S2CDelay must give theta+d1 and -theta+d2
func recoverDelays(t0, t2, theta, d1, d2, c1, c3, utc int64) {
	t1 := t0 + theta + d1 + c1 + utc
	t3 := t2 - theta + d2 + c3 - utc
	c2s := csptp.C2SDelay(tm(t0), tm(t1), time.Duration(c1), time.Duration(utc))
	s2c := csptp.S2CDelay(tm(t2), tm(t3), time.Duration(c3), time.Duration(utc))
	tags := "nt"
	if utc != 0 {
		tags += ",utc"
	}
	w.Case("csptp.recover_delays", tags+timeTag(t0), lib.V(lib.I(t0), lib.I(t2), lib.I(theta), lib.I(d1), lib.I(d2), lib.I(c1), lib.I(c3), lib.I(utc)),
		lib.V(lib.I(int64(c2s)), lib.I(int64(s2c))))
}

const (
	ts2020 = int64(1577836800) * 1000000000
	ts2024 = int64(1717243200) * 1000000000 // 2024-06-01T12:00:00Z
	ts2040 = int64(2208988800) * 1000000000
	safe   = int64(1) << 61 // |offsets| added to a time by the recover cases stay below this
)

func timeTag(t int64) string {
	switch {
	case t >= ts2020 && t <= ts2040:
		return ",modern-time"
	case t > math.MaxInt64-2*safe || t < math.MinInt64+2*safe:
		return ",extreme-time"
	}
	return ""
}

// absolute Unix times in ns for the formula cases: present-day, the epoch, the ends of what
// time.Unix(0, ns) can express (leaving room for the offsets added on top), anything
func genTime(r *lib.Rng) int64 {
	switch r.Intn(8) {
	case 0:
		return ts2024 + r.Range(0, 999999999)
	case 1, 2, 3:
		return r.Range(ts2020, ts2040)
	case 4:
		return lib.Pick(r, int64(0), 1, -1, ts2024, 1<<60, 1<<60+1, -(1 << 60))
	case 5:
		return math.MaxInt64 - safe - r.Range(0, 1000000000)
	case 6:
		return math.MinInt64 + safe + r.Range(0, 1000000000)
	default:
		return r.Range(math.MinInt64+safe, math.MaxInt64-safe)
	}
}

func genI64(r *lib.Rng) int64 {
	switch r.Intn(8) {
	case 0:
		return lib.Pick(r, int64(math.MinInt64), math.MaxInt64, 0, -1, 1, math.MinInt64+1, math.MaxInt64-1)
	case 1: // multiples of a second +- 1
		return r.Range(-9223372036, 9223372036)*1000000000 + r.Range(-1, 1)
	case 2:
		return r.Range(-3000000000, 3000000000)
	case 3:
		return r.Range(-10, 10) * 1000000000
	case 4:
		return int64(1)<<uint(r.Intn(63))*lib.Pick(r, int64(1), -1) + r.Range(-2, 2)
	default:
		return r.I64()
	}
}

func small(r *lib.Rng) int64 {
	switch r.Intn(5) {
	case 0:
		return r.Range(-5, 5)
	case 1:
		return r.Range(-1<<60, 1<<60)
	case 2:
		return lib.Pick(r, int64(1<<60), -(1 << 60), 1<<60-1)
	default:
		return r.Range(-2000000000, 2000000000)
	}
}

func main() {
	a := lib.ParseArgs()
	w = lib.NewWriter(a.Out)
	defer w.Close()
	if a.Replay != "" {
		for _, c := range lib.ReplayLines(a.Replay) {
			f := lib.Fields(c[2])
			switch c[0] {
			case "units.timeval":
				timeval(lib.ParseI(f[0]))
			case "units.ppm_of_freq":
				ppmOfFreq(math.Float64frombits(lib.ParseU(f[0])))
			case "units.freq_of_ppm":
				freqOfPpm(lib.ParseI(f[0]))
			case "units.ppm_roundtrip":
				ppmRoundtrip(lib.ParseI(f[0]))
			case "units.drift":
				drift(lib.ParseI(f[0]), lib.ParseI(f[1]))
			case "units.drift_add":
				driftAdd(lib.ParseI(f[0]), lib.ParseI(f[1]), lib.ParseI(f[2]))
			case "csptp.ts_of_time":
				tsOfTime(lib.ParseI(f[0]), lib.ParseI(f[1]))
			case "csptp.time_of_ts":
				timeOfTs(lib.ParseU(f[0]), uint32(lib.ParseU(f[1])))
			case "csptp.ts_roundtrip":
				tsRoundtrip(lib.ParseU(f[0]), uint32(lib.ParseU(f[1])))
			case "csptp.ts_reencode":
				tsReencode(lib.ParseU(f[0]), uint32(lib.ParseU(f[1])))
			case "units.callsites":
				callsites()
			case "csptp.client":
				clientCaseRun(clientCase{theta: lib.ParseI(f[0]), f1: lib.ParseI(f[1]), f0a: lib.ParseI(f[2]), f0b: lib.ParseI(f[3]),
					utc: int16(lib.ParseI(f[4])), valid: lib.ParseI(f[5]) == 1, extra0: uint16(lib.ParseI(f[6])), extra1: uint16(lib.ParseI(f[7])),
					spacingUs: lib.ParseI(f[8]), fuFirst: lib.ParseI(f[9]) == 1, stateDS: lib.ParseI(f[10]) == 1})
			case "csptp.interval":
				interval(lib.ParseI(f[0]))
			case "csptp.formulas":
				formulas(lib.ParseI(f[0]), lib.ParseI(f[1]), lib.ParseI(f[2]), lib.ParseI(f[3]), lib.ParseI(f[4]), lib.ParseI(f[5]), lib.ParseI(f[6]))
			case "csptp.recover_delays":
				recoverDelays(lib.ParseI(f[0]), lib.ParseI(f[1]), lib.ParseI(f[2]), lib.ParseI(f[3]), lib.ParseI(f[4]), lib.ParseI(f[5]), lib.ParseI(f[6]), lib.ParseI(f[7]))
			case "csptp.recover":
				recoverCase(lib.ParseI(f[0]), lib.ParseI(f[1]), lib.ParseI(f[2]), lib.ParseI(f[3]), lib.ParseI(f[4]), lib.ParseI(f[5]))
			}
		}
		return
	}
	r := lib.NewRng(a.Seed)
	n := 2500
	clientEvery := 4
	if a.Tier == "thorough" {
		n = 60000
		clientEvery = 12
	}
	for _, x := range []int64{-1000000000, -1, -999999999, -2000000000, math.MinInt64, math.MaxInt64, 0, 1000000000} {
		timeval(x)
	}
	for _, x := range []int64{-0x8000, -1, -65536, -65537, 65535, math.MinInt64, math.MaxInt64} {
		interval(x)
	}
	for _, p := range [][2]int64{{500000, 6 * 3600e9}, {50000, 60 * 3600e9}, {500000, 0}, {1, 0}, {1, 1}, {999999999, 1}, {1, 999999999},
		{10000, 1e9}, {10000, 64e9}, {1000000000, math.MaxInt64 / 2}, {4611686018, 1e18}, {math.MaxInt64, 1}, {math.MaxInt64, 500000000}} {
		drift(p[0], p[1])
	}
	driftAdd(500000, 3*3600e9, 3*3600e9)
	callsites()
	for _, p := range [][2]uint64{{1<<48 - 1, 1000000000}, {1<<48 - 1, 999999999}, {1<<48 - 1, 1<<32 - 1}, {1<<48 - 5, 1<<32 - 1}, {1<<48 - 4, 4000000000},
		{1<<48 - 4, 3999999999}, {0, 1000000000}, {0, 1<<32 - 1}, {1717243200, 1000000000}, {1717243200, 1999999999}, {1717243200, 4294967295}} {
		tsReencode(p[0], uint32(p[1]))
	}
	clientCaseRun(clientCase{theta: 37, f1: 1000<<16 | 0x8000, f0a: 3<<16 | 1, f0b: 4<<16 | 0xffff, utc: 37, valid: true})
	clientCaseRun(clientCase{theta: -2000000000, f1: -(5 << 16) + 7, f0a: 0, f0b: -(1000000 << 16) + 0x4000, utc: 37, valid: false, spacingUs: 1500})
	clientCaseRun(clientCase{theta: 1 << 58, f1: 1 << 61, f0a: -(1 << 61), f0b: 1<<61 + 12345, utc: -32768, valid: true, fuFirst: true, spacingUs: 300, stateDS: true})
	recoverCase(ts2024, ts2024+1500000, 37, 500000, 3<<16, 4<<16)
	recoverCase(ts2024, ts2024+1500000, -2000000000, 80000000, 0, 0)
	recoverDelays(ts2024, ts2024+1500000, 37, 400000, 600000, 3, 4, 37000000000)
	recoverDelays(math.MaxInt64-safe, math.MinInt64+safe, -1<<57, 1<<57, 1<<57, 1<<57, -1<<57, -1<<57)
	driftAdd(50000, 0, 60*3600e9)
	for i := 0; i < n; i++ {
		timeval(genI64(r))
		interval(genI64(r))
		// scaled ppm
		var x int64
		switch r.Intn(4) {
		case 0:
			x = lib.Pick(r, int64(32768000), -32768000, 65536, -65536, 1, -1, 0, 32767999)
		case 1:
			x = r.Range(-100, 100)
		default:
			x = r.Range(-32768000, 32768000)
		}
		ppmRoundtrip(x)
		if i%3 == 0 {
			freqOfPpm(genI64(r))
			var f float64
			switch r.Intn(5) {
			case 0:
				f = math.Float64frombits(r.U64())
			case 1:
				f = float64(r.Range(-500000, 500000)) * 1e-9
			case 2:
				f = lib.Pick(r, 0.0, math.Inf(1), math.Inf(-1), math.NaN(), 1e300, -1e300, 500e-6, -500e-6, 1.4e8, 1.5e8)
			default:
				f = unixutil.FreqFromScaledPPM(r.Range(-40000000, 40000000))
			}
			ppmOfFreq(f)
		}
		// drift
		{
			var dn int64
			switch r.Intn(5) {
			case 0:
				dn = 0
			case 1:
				dn = r.Range(1, 100000)
			case 2:
				dn = r.Range(-1000, 1000000000)
			default:
				dn = lib.Pick(r, int64(10000), 1000, 50000, 1, 999999999, 1000000000, 5000000000)
			}
			var d int64
			switch r.Intn(5) {
			case 0:
				d = r.Range(0, 10) * 1000000000
			case 1:
				d = r.Range(0, 5000000000)
			case 2:
				d = genI64(r)
			default:
				d = lib.Pick(r, int64(1000000000), 250000000, 64000000000, 1, 0, 999999999, 3600000000000)
			}
			drift(dn, d)
			// drift x interval beyond int64 although the allowance itself is far from it
			wdn, wd := genWrapPair(r)
			drift(wdn, wd)
			// monotone and additive over two intervals
			switch r.Intn(4) {
			case 0:
				a := r.Range(0, wd)
				driftAdd(wdn, a, wd-a)
			case 1:
				if dn > 0 && d >= 0 {
					driftAdd(dn, d/2, d-d/2)
				} else {
					driftAdd(wdn, wd/3, wd/3+r.Range(0, 1))
				}
			case 2:
				driftAdd(lib.Pick(r, int64(10000), 50000, 500000, 1, 999999999), r.Range(0, 5000000000), r.Range(0, 5000000000))
			default:
				driftAdd(r.Range(1, 1000000), r.Range(0, 1<<50), r.Range(0, 1<<50))
			}
		}
		// csptp timestamps
		{
			var s uint64
			switch r.Intn(4) {
			case 0:
				s = lib.Pick(r, uint64(0), 1, 1<<48-1, 1<<32, 1<<32-1, 1<<40)
			case 1:
				s = uint64(r.Range(1600000000, 2200000000))
			default:
				s = r.U64() & (1<<48 - 1)
			}
			var ns uint32
			switch r.Intn(4) {
			case 0:
				ns = lib.Pick(r, uint32(0), 1, 999999999, 999999998)
			default:
				ns = uint32(r.Range(0, 999999999))
			}
			tsRoundtrip(s, ns)
			{
				rs := s
				if r.Intn(3) == 0 {
					rs = 1<<48 - 1 - uint64(r.Intn(6))
				}
				var rns uint32
				switch r.Intn(4) {
				case 0:
					rns = lib.Pick(r, uint32(1000000000), 1000000001, 1999999999, 2000000000, 1<<32-1, 4000000000, 3999999999)
				case 1:
					rns = ns
				default:
					rns = uint32(r.Range(1000000000, 1<<32-1))
				}
				tsReencode(rs, rns)
			}
			tsOfTime(int64(s), int64(ns))
			if i%4 == 0 {
				timeOfTs(s, uint32(r.U64())) // any 32-bit nanoseconds field the wire allows
				tsOfTime(lib.Pick(r, int64(-1), -1000, 1<<48, 1<<48+5, 1<<50), int64(ns))
			}
		}
		// the real CSPTP client against the scripted responder
		if i%clientEvery == 0 {
			clientCaseRun(genClientCase(r))
		}
		// formulas
		recoverCase(genTime(r), genTime(r), small(r)/4, small(r)/4, small(r)/8, small(r)/8)
		{
			utc := lib.Pick(r, int64(0), 37000000000, -37000000000, r.Range(-40, 40)*1000000000, r.Range(-5000000000, 5000000000), small(r)/8)
			recoverDelays(genTime(r), genTime(r), small(r)/8, small(r)/8, small(r)/8, small(r)/8, small(r)/8, utc)
		}
		if i%2 == 0 {
			formulas(genI64(r)/2, genI64(r)/2, genI64(r)/2, genI64(r)/2, genI64(r)/4, genI64(r)/4, r.Range(-40, 40)*1000000000)
			// four present-day (or extreme) timestamps a few seconds apart
			t0 := genTime(r)
			t1 := t0 + r.Range(-3000000000, 3000000000)
			t2 := t1 + r.Range(0, 1000000000)
			t3 := t0 + r.Range(0, 4000000000)
			formulas(t0, t1, t2, t3, small(r)/8, small(r)/8, lib.Pick(r, int64(0), 37000000000, -37000000000, r.Range(-40, 40)*1000000000))
		}
	}
}
