package main

// The real clients with NTS (client.MeasureClockOffsetIP with Auth.Enabled, kind
// cl.ip; client.MeasureClockOffsetSCION with Auth.NTSEnabled and the SCION packet
// authenticator under the DRKey mock key, kind cl.scion) against a scripted peer
// on loopback: a minimal NTS-KE server over TLS 1.3 (the session keys are
// exported on both ends by ntske.ExportKeys) and a UDP peer that answers the
// client's request with a scripted sequence of datagrams: 0-3 forged ones (bad
// tag, authenticated header byte changed, sealed under another key, sealed under
// the C2S key, genuine seal but another unique identifier, the response to the
// client's previous request replayed byte for byte or with this request's origin
// timestamp, the bare 48-byte NTP response without any extension field, the same
// with 1-3 junk bytes, header + identifier without authenticator, header +
// authenticator without identifier) before or instead of the genuine response, with and without a
// context deadline.  Every forged datagram but the byte-for-byte replay carries
// the request's origin timestamp and sane NTP metadata, and server timestamps
// that are shifted by (k+1)*1000 s for the k-th datagram, so the offset the
// client returns tells which datagram the measurement was computed from.  On
// SCION every datagram of the peer carries a valid packet authenticator.

import (
	"bytes"
	"context"
	"crypto/tls"
	"fmt"
	"io"
	"log/slog"
	"net"
	"sync"
	"time"

	"github.com/scionproto/scion/pkg/addr"
	"github.com/scionproto/scion/pkg/snet"
	spath "github.com/scionproto/scion/pkg/snet/path"

	"example.com/scion-time/core/client"
	"example.com/scion-time/net/ntp"
	"example.com/scion-time/net/nts"
	"example.com/scion-time/net/ntske"
	"example.com/scion-time/net/scion"
	"example.com/scion-time/net/udp"

	"verifharness/lib"
)

type clPeer struct {
	ip     net.IP
	udp    *net.UDPConn
	keLn   net.Listener
	kePort int

	mu       sync.Mutex
	rng      *lib.Rng
	s2c, c2s []byte
	issued   [][]byte
}

var thePeer *clPeer

func getPeer(seed uint64) *clPeer {
	if thePeer != nil {
		return thePeer
	}
	registerClock()
	p := &clPeer{rng: lib.NewRng(seed)}
	p.ip = lsnIP()
	var err error
	p.udp, err = net.ListenUDP("udp4", &net.UDPAddr{IP: p.ip, Port: 0})
	if err != nil {
		panic(err)
	}
	p.udp.SetReadBuffer(1 << 20)
	ln, err := tls.Listen("tcp4", net.JoinHostPort(p.ip.String(), "0"), &tls.Config{
		Certificates: []tls.Certificate{selfSigned()}, MinVersion: tls.VersionTLS13, NextProtos: []string{"ntske/1"}})
	if err != nil {
		panic(err)
	}
	p.keLn = ln
	p.kePort = ln.Addr().(*net.TCPAddr).Port
	go p.keLoop()
	thePeer = p
	return p
}

func (p *clPeer) port() int { return p.udp.LocalAddr().(*net.UDPAddr).Port }

// keLoop answers every key exchange with eight cookies and the address and
// port of the scripted UDP peer, and remembers the exported keys.
func (p *clPeer) keLoop() {
	for {
		c, err := p.keLn.Accept()
		if err != nil {
			return
		}
		go func(c net.Conn) {
			defer c.Close()
			tc := c.(*tls.Conn)
			_ = tc.SetDeadline(time.Now().Add(20 * time.Second))
			if err := tc.Handshake(); err != nil {
				return
			}
			req := make([]byte, 16)
			if _, err := io.ReadFull(tc, req); err != nil {
				return
			}
			var d ntske.Data
			if err := ntske.ExportKeys(tc.ConnectionState(), &d); err != nil {
				return
			}
			var msg ntske.ExchangeMsg
			msg.AddRecord(ntske.NextProto{NextProto: ntske.NTPv4})
			msg.AddRecord(ntske.Algorithm{Algo: []uint16{ntske.AES_SIV_CMAC_256}})
			p.mu.Lock()
			p.s2c, p.c2s = d.S2cKey, d.C2sKey
			p.issued = nil
			for i := 0; i < 8; i++ {
				ck := p.rng.Bytes(100)
				p.issued = append(p.issued, ck)
				msg.AddRecord(ntske.Cookie{Cookie: ck})
			}
			p.mu.Unlock()
			msg.AddRecord(ntske.Server{Addr: []byte(p.ip.String())})
			msg.AddRecord(ntske.Port{Port: uint16(p.port())})
			msg.AddRecord(ntske.End{})
			buf, err := msg.Pack()
			if err != nil {
				return
			}
			_, _ = tc.Write(buf.Bytes())
			_, _ = tc.Read(req) // wait for the client to close
		}(c)
	}
}

type quietHandler struct{}

func (quietHandler) Enabled(context.Context, slog.Level) bool  { return false }
func (quietHandler) Handle(context.Context, slog.Record) error { return nil }
func (h quietHandler) WithAttrs([]slog.Attr) slog.Handler      { return h }
func (h quietHandler) WithGroup(string) slog.Handler           { return h }

const shiftStep = 1000 * time.Second

// one datagram of a script
type dgram struct {
	b       []byte
	h       *honest  // the packet an honest party sealed (nil for junk)
	cookies [][]byte // the cookies it carries (clear and encrypted)
	genuine bool
}

// prevExchange: the genuine response to the client's previous request
type prevExchange struct {
	b       []byte
	h       *honest
	cookies [][]byte
}

func honestOf(b, key []byte, dir int, uid []byte) *honest {
	var pkt nts.Packet
	if err := nts.DecodePacket(&pkt, b); err != nil {
		panic(err)
	}
	return &honest{b: b, pos: authPos(&pkt), nonce: pkt.Auth.Nonce, ct: pkt.Auth.CipherText, key: key, dir: dir, uid: uid}
}

// build makes datagram k of a script for the request (decoded header and NTS fields).
func (p *clPeer) build(r *lib.Rng, kind string, k int, ntpreq *ntp.Packet, ntsreq *nts.Packet, s2c, c2s []byte, prev *prevExchange) dgram {
	uid := ntsreq.UniqueID.ID
	now := time.Now().Add(time.Duration(k+1) * shiftStep)
	hp := ntp.Packet{Stratum: 1, Poll: 4, Precision: -20, ReferenceID: 0x54455354,
		ReferenceTime: ntp.Time64FromTime(now.Add(-time.Second)), OriginTime: ntpreq.TransmitTime,
		ReceiveTime: ntp.Time64FromTime(now), TransmitTime: ntp.Time64FromTime(now.Add(time.Microsecond))}
	hp.SetVersion(4)
	hp.SetMode(ntp.ModeServer)
	var hdr []byte
	ntp.EncodePacket(&hdr, &hp)
	ncookies := len(ntsreq.Cookies) + len(ntsreq.CookiePlaceholders)
	if ncookies < 1 {
		ncookies = 1
	}
	seal := func(key, id []byte, evil bool) ([]byte, [][]byte) {
		var cookies [][]byte
		for i := 0; i < ncookies; i++ {
			cookies = append(cookies, r.Bytes(100))
		}
		pkt := nts.NewResponsePacket(cookies, key, id)
		all := cookies
		if evil {
			// a cookie in the clear, inside the authenticated bytes of a packet that must not be accepted
			e := append([]byte{0xee, 0xee}, r.Bytes(98)...)
			pkt.Cookies = append(pkt.Cookies, nts.Cookie{Cookie: e})
			all = append(all, e)
		}
		b := clone(hdr)
		setTape()
		nts.EncodePacket(&b, &pkt)
		return b, all
	}
	switch kind {
	case "G":
		b, cs := seal(s2c, uid, false)
		return dgram{b: b, h: honestOf(b, s2c, 1, uid), cookies: cs, genuine: true}
	case "T", "H":
		g, cs := seal(s2c, uid, false)
		h := honestOf(g, s2c, 1, uid)
		b := clone(g)
		if kind == "T" {
			b[h.pos+24+r.Intn(len(h.ct))] ^= 1 << r.Intn(8)
		} else {
			b[4+r.Intn(12)] ^= 1 << r.Intn(8) // root delay, root dispersion, reference id: authenticated, not checked otherwise
		}
		return dgram{b: b, h: h, cookies: cs}
	case "K":
		key := r.Bytes(len(s2c))
		b, cs := seal(key, uid, true)
		return dgram{b: b, h: honestOf(b, key, 1, uid), cookies: cs}
	case "D":
		b, cs := seal(c2s, uid, true)
		return dgram{b: b, h: honestOf(b, c2s, 0, uid), cookies: cs}
	case "N": // the genuine response with 4-16 octets inserted behind its nonce (Nonce Length adjusted)
		g, cs := seal(s2c, uid, false)
		h := honestOf(g, s2c, 1, uid)
		k := 4 * (1 + r.Intn(4))
		return dgram{b: extendNonce(g, h.pos, k, r.Bytes(k)), h: h, cookies: cs}
	case "B": // the bare 48-byte NTP response: no extension fields at all
		return dgram{b: clone(hdr)}
	case "J": // ... followed by 1-3 bytes of junk
		return dgram{b: append(clone(hdr), r.Bytes(1+r.Intn(3))...)}
	case "I": // header and unique identifier, no authenticator
		f := append([]byte{0x01, 0x04, 0x00, byte(4 + len(uid))}, uid...)
		return dgram{b: append(clone(hdr), f...)}
	case "A": // header and an authenticator sealed under the S2C key, no unique identifier
		nonce := r.Bytes(16)
		ct := ownSeal(s2c, nonce, nil, hdr)
		f := append([]byte{0x04, 0x04, 0x00, 40, 0x00, 16, 0x00, 16}, nonce...)
		return dgram{b: append(clone(hdr), append(f, ct...)...)}
	case "R", "P":
		if prev != nil {
			b := clone(prev.b)
			if kind == "R" {
				copy(b[24:32], hdr[24:32]) // the origin timestamp of this request
				copy(b[32:48], hdr[32:48]) // and this datagram's server timestamps
			}
			return dgram{b: b, h: prev.h, cookies: prev.cookies}
		}
		fallthrough
	default: // "U": genuine seal under the S2C key, for another request
		other := r.Bytes(32)
		b, cs := seal(s2c, other, true)
		return dgram{b: b, h: honestOf(b, s2c, 1, other), cookies: cs}
	}
}

// a client under test: the call and a view of its cookie store
type clientUT struct {
	kind  string
	scion bool
	call  func(ctx context.Context) (time.Duration, error)
	store func() [][]byte
}

func minus(a, b [][]byte) [][]byte {
	used := make([]bool, len(b))
	var out [][]byte
next:
	for _, x := range a {
		for i, y := range b {
			if !used[i] && bytes.Equal(x, y) {
				used[i] = true
				continue next
			}
		}
		out = append(out, x)
	}
	return out
}

// exchange runs one measurement of c against the script and records the case.
func (p *clPeer) exchange(r *lib.Rng, c *clientUT, script []string, deadline bool, prev *prevExchange) *prevExchange {
	ctx, cancel := context.Background(), func() {}
	if deadline {
		ctx, cancel = context.WithTimeout(ctx, 8*time.Second)
	}
	defer cancel()
	before := c.store()
	var (
		off  time.Duration
		cerr error
	)
	done := make(chan struct{})
	go func() {
		off, cerr = c.call(ctx)
		close(done)
	}()
	// the request
	buf := make([]byte, 2048)
	p.udp.SetReadDeadline(time.Now().Add(15 * time.Second))
	n, from, err := p.udp.ReadFromUDPAddrPort(buf)
	if err != nil {
		<-done
		panic(fmt.Sprintf("c10 client peer: no request arrived (%v); the client said: %v", err, cerr))
	}
	raw := clone(buf[:n])
	var rq scPkt
	if c.scion {
		var ok bool
		rq, ok = parseSC(raw, scion.PacketAuthSPIClient)
		if !ok || !rq.hasAuth {
			panic("c10 client peer: the SCION client's request does not parse or lacks a valid packet authenticator")
		}
		raw = rq.payload
	}
	var ntpreq ntp.Packet
	var ntsreq nts.Packet
	if ntp.DecodePacket(&ntpreq, raw) != nil || nts.DecodePacket(&ntsreq, raw) != nil {
		panic("c10 client peer: the client's request does not decode")
	}
	p.mu.Lock()
	s2c, c2s := p.s2c, p.c2s
	issued := p.issued
	p.mu.Unlock()
	if len(before) == 0 {
		before = issued // the key exchange happened inside this call
	}
	reqid := ntsreq.UniqueID.ID
	var ds []dgram
	for k, kind := range script {
		ds = append(ds, p.build(r, kind, k, &ntpreq, &ntsreq, s2c, c2s, prev))
	}
	// two datagrams that cannot be decoded end every script: the client never waits in vain
	ds = append(ds, dgram{b: []byte{0xe0}}, dgram{b: []byte{0xe1}})
	send := func(b []byte) {
		if c.scion && len(b) > 1 {
			b = (&scPkt{srcIA: rq.dstIA, dstIA: rq.srcIA, srcIP: rq.dstIP, dstIP: rq.srcIP, sport: rq.dport, dport: rq.sport,
				payload: b, spi: scion.PacketAuthSPIServer}).build()
		}
		if _, err := p.udp.WriteToUDPAddrPort(b, from); err != nil {
			panic(err)
		}
	}
	for _, d := range ds {
		send(d.b)
	}
	hung := false
	select {
	case <-done:
	case <-time.After(20 * time.Second):
		hung = true
		for i := 0; i < 4; i++ {
			send([]byte{0xe2})
		}
		<-done
	}
	// which datagram was the measurement computed from
	used := int64(-1)
	if hung {
		used = -2
	} else if cerr == nil {
		k := int64((off + shiftStep/2) / shiftStep)
		d := off - time.Duration(k)*shiftStep
		if k >= 1 && d > -100*time.Second && d < 100*time.Second {
			used = k - 1
		} else {
			used = 99
		}
	}
	// what reached the client's cookie store in this call: everything but the cookies of
	// the genuine response, if that is the datagram used, is a leak
	stored := minus(c.store(), before)
	if used >= 0 && int(used) < len(script) && ds[used].genuine {
		stored = minus(stored, ds[used].cookies)
	}
	leak := len(stored)
	var hs []*honest
	var bs [][]byte
	var ents []string
	var next *prevExchange
	for _, d := range ds {
		bs = append(bs, d.b)
		if d.h != nil {
			hs = append(hs, d.h)
		}
		if d.genuine && next == nil {
			next = &prevExchange{b: d.b, h: d.h, cookies: d.cookies}
		}
		func() {
			defer func() { recover() }()
			var pkt nts.Packet
			if len(d.b) <= 48 || nts.DecodePacket(&pkt, d.b) != nil {
				return
			}
			pos := authPos(&pkt)
			if keyOK(s2c) && len(pkt.Auth.Nonce) == 16 && pos <= len(d.b) && bytes.Equal(reqid, pkt.UniqueID.ID) {
				ents = append(ents, openEntry(s2c, pkt.Auth.Nonce, d.b[:pos], false, pkt.Auth.CipherText))
			}
		}()
	}
	tags := "nt,client," + map[bool]string{true: "deadline", false: "nodeadline"}[deadline]
	nforged := 0
	for _, k := range script {
		if k != "G" {
			nforged++
			tags += ",f" + k
		}
	}
	tags += fmt.Sprintf(",forged%d", nforged)
	if nforged < len(script) {
		tags += ",genuine"
	} else {
		tags += ",nogenuine"
	}
	w.Case(c.kind, tags,
		lib.V(HL(hs), BL(bs), lib.B(s2c), lib.B(reqid), tab(ents...), lib.Bool(deadline)),
		lib.V(lib.I(used), lib.I(int64(leak))))
	return next
}

func configFetcher(f *ntske.Fetcher, p *clPeer) {
	f.Log = slog.New(quietHandler{})
	f.TLSConfig.InsecureSkipVerify = true
	f.TLSConfig.ServerName = p.ip.String()
	f.TLSConfig.MinVersion = tls.VersionTLS13
	f.Port = fmt.Sprint(p.kePort)
}

func newIPClient(p *clPeer) *clientUT {
	quiet := slog.New(quietHandler{})
	c := &client.IPClient{Log: quiet}
	c.Auth.Enabled = true
	configFetcher(&c.Auth.NTSKEFetcher, p)
	la := &net.UDPAddr{IP: p.ip}
	ra := &net.UDPAddr{IP: p.ip, Port: p.port()}
	return &clientUT{kind: "cl.ip",
		call: func(ctx context.Context) (time.Duration, error) {
			_, off, err := client.MeasureClockOffsetIP(ctx, quiet, c, la, ra)
			return off, err
		},
		store: func() [][]byte { return c.Auth.NTSKEFetcher.VerifData().Cookie }}
}

func newSCIONClient(p *clPeer) *clientUT {
	quiet := slog.New(quietHandler{})
	c := &client.SCIONClient{Log: quiet}
	c.Auth.Enabled = true
	c.Auth.DRKeyFetcher = scion.NewFetcher(nil)
	c.Auth.NTSEnabled = true
	configFetcher(&c.Auth.NTSKEFetcher, p)
	ia := addr.IA(cliIA)
	return &clientUT{kind: "cl.scion", scion: true,
		call: func(ctx context.Context) (time.Duration, error) {
			la := udp.UDPAddr{IA: ia, Host: &net.UDPAddr{IP: p.ip}}
			ra := udp.UDPAddr{IA: ia, Host: &net.UDPAddr{IP: p.ip, Port: p.port()}}
			ps := []snet.Path{spath.Path{Src: ia, Dst: ia, DataplanePath: spath.Empty{},
				NextHop: &net.UDPAddr{IP: p.ip, Port: p.port()}}}
			_, off, err := client.MeasureClockOffsetSCION(ctx, quiet, []*client.SCIONClient{c}, la, ra, ps)
			return off, err
		},
		store: func() [][]byte { return c.Auth.NTSKEFetcher.VerifData().Cookie }}
}

var forgedKinds = []string{"T", "H", "K", "D", "U", "R", "P", "B", "J", "I", "A", "N"}

func clientCases(r *lib.Rng, thorough bool) {
	p := getPeer(r.U64())
	for _, mk := range []func(*clPeer) *clientUT{newIPClient, newSCIONClient} {
		// one client per script: a first genuine exchange (so that there is a response to
		// replay), then the scripted one
		run := func(script []string, deadline bool) {
			c := mk(p)
			prev := p.exchange(r, c, []string{"G"}, deadline, nil)
			p.exchange(r, c, script, deadline, prev)
		}
		for _, dl := range []bool{true, false} {
			// every forged kind alone, before the genuine response, and every ordered pair
			for _, a := range forgedKinds {
				run([]string{a}, dl)
				run([]string{a, "G"}, dl)
				for _, b := range forgedKinds {
					if dl || thorough || r.Intn(3) == 0 {
						run([]string{a, b}, dl)
					}
					if dl && (thorough || r.Intn(4) == 0) {
						run([]string{a, b, "G"}, dl)
					}
				}
			}
		}
		n := 30
		if thorough {
			n = 500
		}
		for i := 0; i < n; i++ {
			var script []string
			for k := r.Intn(4); k > 0; k-- {
				script = append(script, forgedKinds[r.Intn(len(forgedKinds))])
			}
			if r.Intn(3) != 0 {
				script = append(script, "G")
			}
			if len(script) == 0 {
				script = []string{"G"}
			}
			run(script, r.Intn(4) != 0)
		}
	}
}

func replayClient() {
	// the session keys come from a fresh TLS handshake: a recorded case cannot be
	// replayed byte for byte; re-run the generator for this kind instead
	if thePeer == nil {
		clientCases(lib.NewRng(1), false)
	}
}
