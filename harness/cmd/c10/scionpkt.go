package main

// SCION/UDP datagrams on an empty path (both ends in one AS), optionally with the
// SCION packet authenticator option (SPAO) under the DRKey mock key (all zero;
// the process runs with USE_MOCK_KEYS=true), built the way the project's client
// and listener build them.

import (
	"bytes"
	"net"

	"github.com/google/gopacket"
	"github.com/scionproto/scion/pkg/addr"
	"github.com/scionproto/scion/pkg/slayers"
	"github.com/scionproto/scion/pkg/slayers/path/empty"
	"github.com/scionproto/scion/pkg/spao"

	"example.com/scion-time/net/scion"
)

var mockDRKey = make([]byte, 16)

type scPkt struct {
	srcIA, dstIA uint64
	srcIP, dstIP net.IP
	sport, dport uint16
	payload      []byte
	spi          uint32 // 0: no authenticator option
	hasAuth      bool   // parsed: an authenticator option with a valid MAC under the mock key
}

func (p *scPkt) build() []byte {
	var scn slayers.SCION
	scn.FlowID = 1
	scn.NextHdr = slayers.L4UDP
	scn.PathType = empty.PathType
	scn.Path = empty.Path{}
	scn.DstIA, scn.SrcIA = addr.IA(p.dstIA), addr.IA(p.srcIA)
	scn.DstAddrType, scn.SrcAddrType = slayers.T4Ip, slayers.T4Ip
	scn.RawDstAddr, scn.RawSrcAddr = []byte(p.dstIP.To4()), []byte(p.srcIP.To4())
	var udp slayers.UDP
	udp.SrcPort, udp.DstPort = p.sport, p.dport
	udp.SetNetworkLayerForChecksum(&scn)
	options := gopacket.SerializeOptions{ComputeChecksums: true, FixLengths: true}
	buffer := gopacket.NewSerializeBuffer()
	payload := gopacket.Payload(p.payload)
	if err := payload.SerializeTo(buffer, options); err != nil {
		panic(err)
	}
	buffer.PushLayer(payload.LayerType())
	if err := udp.SerializeTo(buffer, options); err != nil {
		panic(err)
	}
	buffer.PushLayer(udp.LayerType())
	if p.spi != 0 {
		opt := &slayers.EndToEndOption{OptData: make([]byte, scion.PacketAuthOptDataLen)}
		scion.PreparePacketAuthOpt(opt, p.spi, scion.PacketAuthAlgorithm)
		_, err := spao.ComputeAuthCMAC(spao.MACInput{
			Key:        mockDRKey,
			Header:     slayers.PacketAuthOption{EndToEndOption: opt},
			ScionLayer: &scn,
			PldType:    scn.NextHdr,
			Pld:        buffer.Bytes(),
		}, make([]byte, spao.MACBufferSize), scion.PacketAuthOptMAC(opt))
		if err != nil {
			panic(err)
		}
		e2e := slayers.EndToEndExtn{}
		e2e.NextHdr = scn.NextHdr
		e2e.Options = []*slayers.EndToEndOption{opt}
		if err := e2e.SerializeTo(buffer, options); err != nil {
			panic(err)
		}
		buffer.PushLayer(e2e.LayerType())
		scn.NextHdr = slayers.End2EndClass
	}
	if err := scn.SerializeTo(buffer, options); err != nil {
		panic(err)
	}
	return append([]byte(nil), buffer.Bytes()...)
}

// parseSC reads a SCION/UDP datagram; wantSPI: the SPI an authenticator option
// must carry to count (its MAC is recomputed under the mock key).
func parseSC(d []byte, wantSPI uint32) (p scPkt, ok bool) {
	defer func() {
		if recover() != nil {
			ok = false
		}
	}()
	var (
		scn  slayers.SCION
		hbh  slayers.HopByHopExtnSkipper
		e2e  slayers.EndToEndExtn
		udp  slayers.UDP
		scmp slayers.SCMP
	)
	parser := gopacket.NewDecodingLayerParser(slayers.LayerTypeSCION, &scn, &hbh, &e2e, &udp, &scmp)
	parser.IgnoreUnsupported = true
	decoded := make([]gopacket.LayerType, 4)
	if err := parser.DecodeLayers(d, &decoded); err != nil {
		return p, false
	}
	if len(decoded) < 2 || decoded[len(decoded)-1] != slayers.LayerTypeSCIONUDP || len(d) < int(udp.Length) {
		return p, false
	}
	p.srcIA, p.dstIA = uint64(scn.SrcIA), uint64(scn.DstIA)
	p.srcIP, p.dstIP = net.IP(scn.RawSrcAddr), net.IP(scn.RawDstAddr)
	p.sport, p.dport = udp.SrcPort, udp.DstPort
	p.payload = append([]byte(nil), udp.Payload...)
	if len(decoded) >= 3 && decoded[len(decoded)-2] == slayers.LayerTypeEndToEndExtn {
		opt, err := e2e.FindOption(slayers.OptTypeAuthenticator)
		if err == nil && len(opt.OptData) == scion.PacketAuthOptDataLen {
			spi, algo := scion.PacketAuthOptMetadata(opt)
			if spi == wantSPI && algo == scion.PacketAuthAlgorithm {
				mac := make([]byte, scion.PacketAuthMACLen)
				_, err := spao.ComputeAuthCMAC(spao.MACInput{
					Key:        mockDRKey,
					Header:     slayers.PacketAuthOption{EndToEndOption: opt},
					ScionLayer: &scn,
					PldType:    slayers.L4UDP,
					Pld:        d[len(d)-int(udp.Length):],
				}, make([]byte, spao.MACBufferSize), mac)
				p.hasAuth = err == nil && bytes.Equal(mac, scion.PacketAuthOptMAC(opt))
			}
		}
	}
	return p, true
}
