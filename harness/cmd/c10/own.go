package main

// The harness's own reading of NTS packets and cookies, used to JUDGE what the
// implementation sent: a plain TLV walk and miscreant calls with the keys the
// harness knows.  Nothing here calls net/nts or net/ntske.

import (
	"bytes"
	"encoding/binary"

	"github.com/miscreant/miscreant.go"
)

type ownPkt struct {
	uid     []byte
	clear   [][]byte // cookie fields in the clear
	nph     int
	nonce   []byte
	ct      []byte
	authPos int
}

func ownFields(b []byte, pos int, stopAtAuth bool, f func(t, off, l int) bool) bool {
	for pos < len(b) {
		if len(b)-pos < 4 {
			return false
		}
		t := int(binary.BigEndian.Uint16(b[pos:]))
		l := int(binary.BigEndian.Uint16(b[pos+2:]))
		if l < 4 || pos+l > len(b) {
			return false
		}
		if !f(t, pos, l) {
			return false
		}
		if stopAtAuth && t == 0x404 {
			return true
		}
		pos += l
	}
	return true
}

// ownWalk reads a well-formed NTS packet (strict: every field inside the datagram).
func ownWalk(b []byte) (p ownPkt, ok bool) {
	if len(b) <= 48 {
		return p, false
	}
	found := false
	ok = ownFields(b, 48, true, func(t, off, l int) bool {
		body := b[off+4 : off+l]
		switch t {
		case 0x104:
			p.uid = body
		case 0x204:
			p.clear = append(p.clear, body)
		case 0x304:
			p.nph++
		case 0x404:
			if len(body) < 4 {
				return false
			}
			nl := int(binary.BigEndian.Uint16(body))
			cl := int(binary.BigEndian.Uint16(body[2:]))
			np := (nl + 3) &^ 3
			if 4+np+cl > len(body) {
				return false
			}
			p.nonce = body[4 : 4+nl]
			p.ct = body[4+np : 4+np+cl]
			p.authPos = off
			found = true
		}
		return true
	})
	return p, ok && found && p.uid != nil
}

func ownOpen(key, nonce, ct, ad []byte, adNil bool) ([]byte, bool) {
	a, err := miscreant.NewAEAD("AES-CMAC-SIV", key, 16)
	if err != nil || len(nonce) != 16 {
		return nil, false
	}
	var pt []byte
	if adNil {
		pt, err = a.Open(nil, nonce, ct, nil)
	} else {
		if ad == nil {
			ad = []byte{}
		}
		pt, err = a.Open(nil, nonce, ct, ad)
	}
	return pt, err == nil
}

func ownSeal(key, nonce, pt, ad []byte) []byte {
	a, err := miscreant.NewAEAD("AES-CMAC-SIV", key, 16)
	if err != nil {
		panic(err)
	}
	if ad == nil {
		ad = []byte{}
	}
	return a.Seal(nil, nonce, pt, ad)
}

// ownOpenReply: does reply authenticate under s2c over the bytes in front of its
// authenticator, with identifier uid (zero-padded to a multiple of 4 on the
// wire)?  Returns the cookies it carries (clear and encrypted).
func ownOpenReply(reply, s2c, uid []byte) (cookies [][]byte, ok bool) {
	p, ok := ownWalk(reply)
	if !ok {
		return nil, false
	}
	padded := append(clone(uid), make([]byte, pad4(len(uid))-len(uid))...)
	if !bytes.Equal(p.uid, padded) {
		return nil, false
	}
	pt, ok := ownOpen(s2c, p.nonce, p.ct, reply[:p.authPos], false)
	if !ok {
		return nil, false
	}
	cookies = append(cookies, p.clear...)
	ok = ownFields(pt, 0, false, func(t, off, l int) bool {
		if t == 0x204 {
			cookies = append(cookies, pt[off+4:off+l])
		}
		return true
	})
	return cookies, ok
}

type ownCookie struct {
	id       int
	algo     uint16
	s2c, c2s []byte
}

func ownTLV(b []byte, f func(t int, v []byte)) bool {
	pos := 0
	for pos < len(b) {
		if len(b)-pos < 4 {
			return false
		}
		t := int(binary.BigEndian.Uint16(b[pos:]))
		l := int(binary.BigEndian.Uint16(b[pos+2:]))
		if pos+4+l > len(b) {
			return false
		}
		f(t, b[pos+4:pos+4+l])
		pos += 4 + l
	}
	return true
}

// ownOpenCookie opens a cookie with the key its key id names in the key table.
func ownOpenCookie(cb []byte, keys map[int][]byte) (c ownCookie, ok bool) {
	var nonce, ct []byte
	c.id = -1
	if !ownTLV(cb, func(t int, v []byte) {
		switch t {
		case 0x401:
			if len(v) >= 2 {
				c.id = int(binary.BigEndian.Uint16(v))
			}
		case 0x501:
			nonce = v
		case 0x601:
			ct = v
		}
	}) || c.id < 0 || nonce == nil || ct == nil {
		return c, false
	}
	key, have := keys[c.id]
	if !have {
		return c, false
	}
	pt, ok := ownOpen(key, nonce, ct, nil, true)
	if !ok {
		return c, false
	}
	got := 0
	if !ownTLV(pt, func(t int, v []byte) {
		switch t {
		case 0x101:
			if len(v) >= 2 {
				c.algo = binary.BigEndian.Uint16(v)
				got |= 1
			}
		case 0x201:
			c.s2c = v
			got |= 2
		case 0x301:
			c.c2s = v
			got |= 4
		}
	}) || got != 7 {
		return c, false
	}
	return c, true
}
