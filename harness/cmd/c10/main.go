// C10: drives the real NTS authentication code of /repo: nts.NewRequestPacket,
// NewResponsePacket, EncodePacket, DecodePacket, ProcessRequest, ProcessResponse,
// the ntske cookie functions, ntske.ExportKeys over a real TLS 1.3 handshake,
// and the real IP and SCION listeners (listener.go).  Honest packets are produced by the
// project's own encoder; they are then mutated (every bit, every field, length
// fields, structure), replayed to the wrong receiver, under the wrong key,
// direction or unique identifier.  The AEAD answers that go into the case file
// are recomputed here with miscreant itself.
package main

import (
	"bytes"
	"context"
	crand "crypto/rand"
	"encoding/binary"
	"fmt"
	"os"
	"reflect"
	"strings"
	"sync"
	"syscall"

	"github.com/miscreant/miscreant.go"

	"example.com/scion-time/net/nts"
	"example.com/scion-time/net/ntske"

	"verifharness/lib"
)

var w *lib.Writer

// ---- scripted crypto/rand ----

type tapeReader struct {
	mu  sync.Mutex
	q   []byte
	rng *lib.Rng
}

func (t *tapeReader) Read(p []byte) (int, error) {
	t.mu.Lock()
	defer t.mu.Unlock()
	for i := range p {
		if len(t.q) > 0 {
			p[i] = t.q[0]
			t.q = t.q[1:]
		} else {
			p[i] = byte(t.rng.U64())
		}
	}
	return len(p), nil
}

var tape = &tapeReader{}

func setTape(b ...[]byte) {
	tape.mu.Lock()
	defer tape.mu.Unlock()
	tape.q = nil
	for _, x := range b {
		tape.q = append(tape.q, x...)
	}
}

// ---- value helpers ----

func BL(xs [][]byte) string {
	s := make([]string, len(xs))
	for i, x := range xs {
		s[i] = lib.B(x)
	}
	return lib.L(s...)
}

type val struct {
	isList bool
	tok    string
	l      []val
}

func parseVals(s string) []val {
	pos := 0
	var list func(closing bool) []val
	list = func(closing bool) []val {
		var out []val
		for {
			for pos < len(s) && s[pos] == ' ' {
				pos++
			}
			if pos >= len(s) {
				return out
			}
			if s[pos] == ']' {
				pos++
				return out
			}
			if s[pos] == '[' {
				pos++
				out = append(out, val{isList: true, l: list(true)})
				continue
			}
			st := pos
			for pos < len(s) && s[pos] != ' ' && s[pos] != ']' && s[pos] != '[' {
				pos++
			}
			out = append(out, val{tok: s[st:pos]})
		}
	}
	return list(false)
}
// rawVal returns the text of the i-th top-level value of a case field
func rawVal(s string, i int) string {
	depth, start, k := 0, -1, 0
	for pos := 0; pos <= len(s); pos++ {
		end := pos == len(s)
		if !end && s[pos] == '[' {
			if depth == 0 && start < 0 {
				start = pos
			}
			depth++
			continue
		}
		if !end && s[pos] == ']' {
			depth--
			continue
		}
		if end || (s[pos] == ' ' && depth == 0) {
			if start >= 0 {
				if k == i {
					return s[start:pos]
				}
				k++
				start = -1
			}
			continue
		}
		if depth == 0 && start < 0 {
			start = pos
		}
	}
	return "[]"
}

func (v val) B() []byte { return lib.ParseB(v.tok) }
func (v val) I() int64  { return lib.ParseI(v.tok) }
func (v val) BL() [][]byte {
	out := make([][]byte, len(v.l))
	for i, x := range v.l {
		out[i] = x.B()
	}
	return out
}

// ---- error classes (same numbering as err_code in Model/NtsAuth.v) ----

func classify(err error) int {
	if err == nil {
		return 0
	}
	if err == miscreant.ErrKeySize {
		return 9
	}
	if err == miscreant.ErrNotAuthentic {
		return 10
	}
	m := err.Error()
	switch {
	case strings.Contains(m, "exceeds maximum NTS packet length"):
		return 1
	case strings.Contains(m, "extension field length < 4"):
		return 2
	case strings.Contains(m, "UniqueIdentifier.ID < 32"):
		return 3
	case strings.Contains(m, "does not contain a unique identifier"):
		return 4
	case strings.Contains(m, "does not contain an authenticator"):
		return 5
	case strings.Contains(m, "does not contain cookies"):
		return 6
	case strings.Contains(m, "unexpected nonce length"):
		return 7
	case strings.Contains(m, "unexpected response ID"):
		return 8
	case strings.Contains(m, "unexpected cookie data"):
		return 11
	case strings.Contains(m, "unexpected extension header type"):
		return 13
	}
	return 99
}

func keyOK(k []byte) bool { return len(k) == 32 || len(k) == 64 }

// ---- AEAD answers, recomputed with miscreant ----

func entry(op int, key, nonce []byte, ad []byte, adNil bool, in []byte, ok bool, out []byte) string {
	adf := int64(1)
	if adNil {
		adf = 0
	}
	return lib.L(lib.I(int64(op)), lib.B(key), lib.B(nonce), lib.I(adf), lib.B(ad), lib.B(in), lib.Bool(ok), lib.B(out))
}

func sealEntry(key, nonce, ad []byte, adNil bool, pt []byte) (string, []byte) {
	a, err := miscreant.NewAEAD("AES-CMAC-SIV", key, 16)
	if err != nil || len(nonce) != 16 {
		return "", nil
	}
	var ct []byte
	if adNil {
		ct = a.Seal(nil, nonce, pt, nil)
	} else {
		if ad == nil {
			ad = []byte{}
		}
		ct = a.Seal(nil, nonce, pt, ad)
	}
	return entry(0, key, nonce, ad, adNil, pt, true, ct), ct
}

func openEntry(key, nonce, ad []byte, adNil bool, ct []byte) string {
	a, err := miscreant.NewAEAD("AES-CMAC-SIV", key, 16)
	if err != nil || len(nonce) != 16 {
		return ""
	}
	var pt []byte
	if adNil {
		pt, err = a.Open(nil, nonce, ct, nil)
	} else {
		if ad == nil {
			ad = []byte{}
		}
		pt, err = a.Open(nil, nonce, ct, ad)
	}
	return entry(1, key, nonce, ad, adNil, ct, err == nil, pt)
}

func tab(entries ...string) string {
	var e []string
	for _, x := range entries {
		if x != "" {
			e = append(e, x)
		}
	}
	return lib.L(e...)
}

// ---- honest packets ----

type field struct {
	off, length int
	typ         uint16
}

type honest struct {
	b      []byte
	pos    int
	nonce  []byte
	ct     []byte
	key    []byte
	dir    int
	uid    []byte
	pt     []byte
	fields []field // all extension fields, the authenticator last
}

func (h *honest) String() string {
	return lib.L(lib.B(h.b), lib.I(int64(h.pos)), lib.B(h.nonce), lib.B(h.ct), lib.B(h.key), lib.I(int64(h.dir)), lib.B(h.uid))
}

func HL(hs []*honest) string {
	s := make([]string, len(hs))
	for i, h := range hs {
		s[i] = h.String()
	}
	return lib.L(s...)
}

func parseHonests(v val) []*honest {
	var out []*honest
	for _, x := range v.l {
		out = append(out, &honest{b: x.l[0].B(), pos: int(x.l[1].I()), nonce: x.l[2].B(), ct: x.l[3].B(), key: x.l[4].B(), dir: int(x.l[5].I()), uid: x.l[6].B()})
	}
	return out
}

func pad4(n int) int { return (n + 3) &^ 3 }

// goEncode runs the real nts.EncodePacket on a copy of hdr with the given
// random bytes; bigCap chooses the branch that reuses the caller's buffer.
func goEncode(hdr []byte, pkt *nts.Packet, rnd []byte, bigCap bool) (out []byte, panicked bool) {
	var b []byte
	if bigCap {
		b = make([]byte, len(hdr), 2048)
		for i := range b[:cap(b)] {
			b[:cap(b)][i] = 0xa5
		}
		copy(b, hdr)
	} else {
		b = append([]byte(nil), hdr...)
	}
	setTape(rnd)
	defer func() {
		if r := recover(); r != nil {
			out, panicked = nil, true
		}
		setTape()
	}()
	nts.EncodePacket(&b, pkt)
	return b, false
}

func mkPacket(uid []byte, cookies, phs [][]byte, key, pt []byte) *nts.Packet {
	var pkt nts.Packet
	pkt.UniqueID.ID = uid
	for _, c := range cookies {
		pkt.Cookies = append(pkt.Cookies, nts.Cookie{Cookie: c})
	}
	for _, c := range phs {
		pkt.CookiePlaceholders = append(pkt.CookiePlaceholders, nts.CookiePlaceholder{Cookie: c})
	}
	pkt.Auth.Key = key
	pkt.Auth.PlainText = pt
	return &pkt
}

// layout computes where EncodePacket puts the fields in its 1024-byte buffer:
// a field header needs 4 bytes, bodies are copied as far as they fit.
func layout(uid []byte, cookies, phs [][]byte) (fields []field, pos int, ok bool) {
	pos = 48
	add := func(typ uint16, n int) bool {
		if pos+4 > nts.MaxPacketLen {
			return false
		}
		st := pos
		pos += 4 + pad4(n)
		if pos > nts.MaxPacketLen {
			pos = nts.MaxPacketLen
		}
		fields = append(fields, field{off: st, length: pos - st, typ: typ})
		return true
	}
	if len(uid) < 32 || !add(0x104, len(uid)) {
		return nil, 0, false
	}
	for _, c := range cookies {
		if !add(0x204, len(c)) {
			return nil, 0, false
		}
	}
	for _, c := range phs {
		if !add(0x304, len(c)) {
			return nil, 0, false
		}
	}
	return fields, pos, true
}

// encodeCase runs EncodePacket on the given parts, hands the result to the real
// receiver (DecodePacket + ProcessRequest under the same key) and records the
// case; it returns the encoder's output and the position of the authenticator.
// ptkind: 0 = no plaintext, 1 = plaintext made by NewResponsePacket from cookies of
// one length (a multiple of 4), 2 = anything else.  src: "" or the input of
// NewRequestPacket (one list: the cookie pool) / NewResponsePacket (cookies and
// identifier) whose output the parts are.
func encodeCase(tags string, hdr, uid []byte, cookies, phs [][]byte, key, pt, rnd []byte, bigCap bool, ptkind int, src string) (out []byte, fields []field, pos int, ct []byte) {
	out, panicked := goEncode(hdr, mkPacket(uid, cookies, phs, key, pt), rnd, bigCap)
	var ent, oent string
	var ok bool
	fields, pos, ok = layout(uid, cookies, phs)
	if !panicked && ok && len(hdr) == 48 && pos <= len(out) {
		ent, ct = sealEntry(key, rnd, out[:pos], false, pt)
	}
	code := int64(0)
	acc := int64(-1)
	if panicked {
		code = 100
	} else {
		acc = 0
		func() {
			defer func() { recover() }()
			var pkt nts.Packet
			if nts.DecodePacket(&pkt, out) != nil {
				return
			}
			ap := authPos(&pkt)
			if keyOK(key) && len(pkt.Auth.Nonce) == 16 && ap <= len(out) {
				oent = openEntry(key, pkt.Auth.Nonce, out[:ap], false, pkt.Auth.CipherText)
			}
			if nts.ProcessRequest(out, key, &pkt) == nil {
				acc = 1
			}
		}()
	}
	if src == "" {
		src = "[]"
	}
	w.Case("nts.encode", tags,
		lib.V(lib.B(hdr), lib.B(uid), BL(cookies), BL(phs), lib.B(key), lib.B(pt), lib.B(rnd), tab(ent, oent), lib.I(int64(ptkind)), src),
		lib.V(lib.I(code), lib.B(out), lib.I(acc)))
	if !panicked && ok {
		al := len(out) - pos
		fields = append(fields, field{off: pos, length: al, typ: 0x404})
	}
	return out, fields, pos, ct
}

// sameShape: all cookies of one length, a multiple of 4
func sameShape(cs [][]byte) bool {
	for _, c := range cs {
		if len(c) != len(cs[0]) || len(c)%4 != 0 {
			return false
		}
	}
	return len(cs) > 0
}

// ---- sessions: keys, cookies, exchanges, all through the project's code ----

type session struct {
	master  []byte // server key that seals cookies
	keyid   int
	c2s     []byte
	s2c     []byte
	algo    uint16
	pool    [][]byte // client's cookies
	sealed  []*sealedCookie
	// listeners: the identifier the reply must carry when the datagram sent is not the
	// first honest request of the list
	uidOverride []byte
}

type sealedCookie struct {
	cb     []byte
	master []byte
	algo   uint16
	s2c    []byte
	c2s    []byte
	keyid  int
	nonce  []byte
}

// cookieSeal runs the real ServerCookie.EncryptWithNonce + Encode
func cookieSealCase(tags string, algo uint16, s2c, c2s, master []byte, keyid int, rnd []byte) []byte {
	sc := ntske.ServerCookie{Algo: algo, S2C: s2c, C2S: c2s}
	setTape(rnd)
	ec, err := sc.EncryptWithNonce(master, keyid)
	setTape()
	var cb []byte
	if err == nil {
		cb = ec.Encode()
	}
	ent, _ := sealEntry(master, rnd, nil, true, sc.Encode())
	// the sealed cookie opened again with the key that sealed it
	ocode, oent := int64(-1), ""
	var res ntske.ServerCookie
	if err == nil {
		func() {
			defer func() {
				if recover() != nil {
					ocode = 100
				}
			}()
			var ec2 ntske.EncryptedServerCookie
			if e := ec2.Decode(cb); e != nil {
				ocode = int64(classify(e))
				return
			}
			if keyOK(master) && len(ec2.Nonce) == 16 {
				oent = openEntry(master, ec2.Nonce, nil, true, ec2.Ciphertext)
			}
			var e error
			res, e = ec2.Decrypt(master)
			ocode = int64(classify(e))
		}()
		if ocode != 0 {
			res = ntske.ServerCookie{}
		}
	}
	w.Case("ck.seal", tags,
		lib.V(lib.I(int64(algo)), lib.B(s2c), lib.B(c2s), lib.B(master), lib.I(int64(keyid)), lib.B(rnd), tab(ent, oent)),
		lib.V(lib.I(int64(classify(err))), lib.B(cb), lib.I(ocode), lib.I(int64(res.Algo)), lib.B(res.S2C), lib.B(res.C2S)))
	return cb
}

func newSession(r *lib.Rng) *session {
	s := &session{master: r.Bytes(32), keyid: r.Intn(5) + 1, c2s: r.Bytes(32), s2c: r.Bytes(32), algo: 15}
	if r.Intn(6) == 0 {
		s.master = r.Bytes(64)
	}
	if r.Intn(8) == 0 {
		s.c2s, s.s2c = r.Bytes(64), r.Bytes(64)
	}
	n := 1 + r.Intn(8)
	for i := 0; i < n; i++ {
		s.pool = append(s.pool, s.freshCookie(r))
	}
	return s
}

func (s *session) freshCookie(r *lib.Rng) []byte {
	rnd := r.Bytes(16)
	cb := cookieSealCase("", s.algo, s.s2c, s.c2s, s.master, s.keyid, rnd)
	s.sealed = append(s.sealed, &sealedCookie{cb: cb, master: s.master, algo: s.algo, s2c: s.s2c, c2s: s.c2s, keyid: s.keyid, nonce: rnd})
	return cb
}

func genHdr(r *lib.Rng) []byte {
	h := r.Bytes(48)
	h[0] = byte(0<<6 | 4<<3 | 3)
	if r.Intn(4) == 0 {
		h[0] = byte(r.U64())
	}
	return h
}

// request builds a request exactly as the client does: NewRequestPacket, EncodePacket.
func (s *session) request(r *lib.Rng) *honest {
	uid := r.Bytes(32)
	data := ntske.Data{C2sKey: s.c2s, S2cKey: s.s2c, Cookie: s.pool, Algo: s.algo}
	setTape(uid)
	pkt, id := nts.NewRequestPacket(data)
	setTape()
	var cs, phs [][]byte
	for _, c := range pkt.Cookies {
		cs = append(cs, c.Cookie)
	}
	for _, c := range pkt.CookiePlaceholders {
		phs = append(phs, c.Cookie)
	}
	src := lib.L(BL(s.pool))
	if len(s.pool) > 1 {
		s.pool = s.pool[1:]
	}
	nonce := r.Bytes(16)
	out, fields, pos, ct := encodeCase("honest,newreq", genHdr(r), id, cs, phs, pkt.Auth.Key, pkt.Auth.PlainText, nonce, r.Intn(3) == 0, 0, src)
	return &honest{b: out, pos: pos, nonce: nonce, ct: ct, key: s.c2s, dir: 0, uid: id, fields: fields}
}

// response builds a response exactly as the listeners do: fresh cookies, NewResponsePacket, EncodePacket.
func (s *session) response(r *lib.Rng, uid []byte, ncookies int) *honest {
	var cookies [][]byte
	for i := 0; i < ncookies; i++ {
		cookies = append(cookies, s.freshCookie(r))
	}
	pkt := nts.NewResponsePacket(cookies, s.s2c, uid)
	nonce := r.Bytes(16)
	pk := 2
	if sameShape(cookies) {
		pk = 1
	}
	out, fields, pos, ct := encodeCase("honest,newresp", genHdr(r), pkt.UniqueID.ID, nil, nil, pkt.Auth.Key, pkt.Auth.PlainText, nonce, r.Intn(3) == 0, pk, lib.L(BL(cookies), lib.B(uid)))
	return &honest{b: out, pos: pos, nonce: nonce, ct: ct, key: s.s2c, dir: 1, uid: uid, pt: pkt.Auth.PlainText, fields: fields}
}

// ---- receivers ----

func authPos(pkt *nts.Packet) int {
	return int(reflect.ValueOf(pkt).Elem().FieldByName("Auth").FieldByName("pos").Int())
}

// recv runs the real DecodePacket and ProcessRequest (dir 0) or
// ProcessResponse (dir 1) on b and records what happened.
func recv(tags string, hs []*honest, dir int, b, key, reqid []byte) (accepted bool) {
	return recvK("", "", tags, hs, dir, b, key, reqid)
}

// recvK: kind "" = nts.req / nts.resp by direction; otherwise a kind of its own
// whose arguments are those of nts.resp followed by extra.
func recvK(kind, extra string, tags string, hs []*honest, dir int, b, key, reqid []byte) (accepted bool) {
	var pkt nts.Packet
	dcode, acode := 0, -1
	func() {
		defer func() {
			if r := recover(); r != nil {
				dcode = 100
			}
		}()
		dcode = classify(nts.DecodePacket(&pkt, b))
	}()
	var ent string
	outs := ""
	if dcode == 0 {
		pos := authPos(&pkt)
		var cs [][]byte
		for _, c := range pkt.Cookies {
			cs = append(cs, c.Cookie)
		}
		dec := lib.V(lib.I(0), lib.B(pkt.UniqueID.ID), BL(cs), lib.I(int64(len(pkt.CookiePlaceholders))),
			lib.B(pkt.Auth.Nonce), lib.B(pkt.Auth.CipherText), lib.I(int64(pos)))
		if keyOK(key) && len(pkt.Auth.Nonce) == 16 && pos <= len(b) && (dir == 0 || bytes.Equal(reqid, pkt.UniqueID.ID)) {
			ent = openEntry(key, pkt.Auth.Nonce, b[:pos], false, pkt.Auth.CipherText)
		}
		var f ntske.Fetcher
		func() {
			defer func() {
				if r := recover(); r != nil {
					acode = 100
				}
			}()
			if dir == 0 {
				acode = classify(nts.ProcessRequest(b, key, &pkt))
			} else {
				acode = classify(nts.ProcessResponse(b, key, &f, &pkt, reqid))
			}
		}()
		var after [][]byte
		if acode == 0 {
			for _, c := range pkt.Cookies {
				after = append(after, c.Cookie)
			}
			if dir == 1 && len(after) > 0 {
				// what the client really keeps: the cookies stored in its fetcher
				d, err := f.FetchData(context.Background())
				if err != nil || len(d.Cookie) != len(after) {
					after = append([][]byte{[]byte("stored cookies differ")}, d.Cookie...)
				} else {
					after = d.Cookie
				}
			}
		} else if dir == 1 {
			// a rejected packet: whatever the client's fetcher holds now was taken from a
			// packet that did not authenticate (the fetcher was empty before)
			after = f.VerifData().Cookie
		}
		outs = lib.V(dec, lib.I(int64(acode)), BL(after))
	} else {
		outs = lib.V(lib.I(int64(dcode)), "x", "[]", "0", "x", "x", "0", "-1", "[]")
	}
	if kind != "" && dir == 0 {
		w.Case(kind, tags, lib.V(HL(hs), lib.B(b), lib.B(key), tab(ent)), outs)
	} else if kind != "" {
		w.Case(kind, tags, lib.V(HL(hs), lib.B(b), lib.B(key), lib.B(reqid), tab(ent), extra), outs)
	} else if dir == 0 {
		w.Case("nts.req", tags, lib.V(HL(hs), lib.B(b), lib.B(key), tab(ent)), outs)
	} else {
		w.Case("nts.resp", tags, lib.V(HL(hs), lib.B(b), lib.B(key), lib.B(reqid), tab(ent)), outs)
	}
	return dcode == 0 && acode == 0
}

// ---- cookies: open ----

func cookieOpen(tags string, sc *sealedCookie, cb, key []byte) {
	var ec ntske.EncryptedServerCookie
	code := 0
	var res ntske.ServerCookie
	var ent string
	func() {
		defer func() {
			if r := recover(); r != nil {
				code = 100
			}
		}()
		err := ec.Decode(cb)
		if err != nil {
			code = classify(err)
			return
		}
		if keyOK(key) && len(ec.Nonce) == 16 {
			ent = openEntry(key, ec.Nonce, nil, true, ec.Ciphertext)
		}
		res, err = ec.Decrypt(key)
		code = classify(err)
	}()
	if code != 0 {
		res = ntske.ServerCookie{}
	}
	w.Case("ck.open", tags,
		lib.V(lib.B(sc.cb), lib.B(sc.master), lib.I(int64(sc.algo)), lib.B(sc.s2c), lib.B(sc.c2s), lib.B(cb), lib.B(key), tab(ent)),
		lib.V(lib.I(int64(code)), lib.I(int64(res.Algo)), lib.B(res.S2C), lib.B(res.C2S)))
}

// cookieHistory opens several cookies one after the other with the real
// Decode + Decrypt, keeps the returned ServerCookies, and reads them only after
// the last opening (as a server does that holds keys of several clients).
type openReq struct {
	sc  *sealedCookie
	cb  []byte
	key []byte
}

func cookieHistory(tags string, reqs []openReq) {
	type res struct {
		code int
		c    ntske.ServerCookie
	}
	var results []res
	var ents, items []string
	for _, q := range reqs {
		var ec ntske.EncryptedServerCookie
		x := res{}
		func() {
			defer func() {
				if r := recover(); r != nil {
					x.code = 100
				}
			}()
			err := ec.Decode(q.cb)
			if err != nil {
				x.code = classify(err)
				return
			}
			if keyOK(q.key) && len(ec.Nonce) == 16 {
				ents = append(ents, openEntry(q.key, ec.Nonce, nil, true, ec.Ciphertext))
			}
			x.c, err = ec.Decrypt(q.key)
			x.code = classify(err)
		}()
		results = append(results, x)
		items = append(items, lib.L(lib.B(q.sc.cb), lib.B(q.sc.master), lib.I(int64(q.sc.algo)), lib.B(q.sc.s2c), lib.B(q.sc.c2s), lib.B(q.cb), lib.B(q.key)))
	}
	var outs []string
	for _, x := range results {
		if x.code != 0 {
			x.c = ntske.ServerCookie{}
		}
		outs = append(outs, lib.L(lib.I(int64(x.code)), lib.I(int64(x.c.Algo)), lib.B(x.c.S2C), lib.B(x.c.C2S)))
	}
	w.Case("ck.hist", tags, lib.V(lib.L(items...), tab(ents...)), lib.L(outs...))
}

func cookieHistories(r *lib.Rng, ss []*session, n int) {
	var all []*sealedCookie
	for _, s := range ss {
		all = append(all, s.sealed...)
	}
	for i := 0; i < n; i++ {
		k := 2 + r.Intn(5)
		var reqs []openReq
		for j := 0; j < k; j++ {
			sc := all[r.Intn(len(all))]
			q := openReq{sc: sc, cb: sc.cb, key: sc.master}
			switch r.Intn(6) {
			case 0:
				q.key = r.Bytes(32)
			case 1:
				q.cb = clone(sc.cb)
				q.cb[r.Intn(len(q.cb))] ^= 1 << r.Intn(8)
			}
			reqs = append(reqs, q)
		}
		cookieHistory("nt,history,cookies", reqs)
	}
}

func cookieTLV(tags string, cb []byte) {
	var ec ntske.EncryptedServerCookie
	code := 0
	func() {
		defer func() {
			if r := recover(); r != nil {
				code = 100
			}
		}()
		code = classify(ec.Decode(cb))
	}()
	if code != 0 {
		w.Case("ck.tlv", tags, lib.V("0", lib.B(cb)), lib.V(lib.I(int64(code)), "0", "x", "x", "x", "0"))
		return
	}
	// decoding what it re-encodes must give the same cookie
	re := ec.Encode()
	var ec2 ntske.EncryptedServerCookie
	same := ec2.Decode(re) == nil && ec2.ID == ec.ID && bytes.Equal(ec2.Nonce, ec.Nonce) && bytes.Equal(ec2.Ciphertext, ec.Ciphertext)
	w.Case("ck.tlv", tags, lib.V("0", lib.B(cb)), lib.V("0", lib.I(int64(ec.ID)), lib.B(ec.Nonce), lib.B(ec.Ciphertext), lib.B(re), lib.Bool(same)))
}

// plainTLV: ServerCookie.Decode (the decrypted cookie) alone
func plainTLV(tags string, b []byte) {
	var sc ntske.ServerCookie
	code := 0
	func() {
		defer func() {
			if r := recover(); r != nil {
				code = 100
			}
		}()
		code = classify(sc.Decode(b))
	}()
	if code != 0 {
		w.Case("ck.tlv", tags, lib.V("1", lib.B(b)), lib.V(lib.I(int64(code)), "0", "x", "x", "x", "0"))
		return
	}
	re := sc.Encode()
	var sc2 ntske.ServerCookie
	same := sc2.Decode(re) == nil && sc2.Algo == sc.Algo && bytes.Equal(sc2.S2C, sc.S2C) && bytes.Equal(sc2.C2S, sc.C2S)
	w.Case("ck.tlv", tags, lib.V("1", lib.B(b)), lib.V("0", lib.I(int64(sc.Algo)), lib.B(sc.S2C), lib.B(sc.C2S), lib.B(re), lib.Bool(same)))
}

// plainFuzz: the plaintext decoder on encodings of real server cookies, every
// bit and truncation of one, missing / doubled / unknown TLVs, and random TLV strings
func plainFuzz(r *lib.Rng, n int) {
	sc := ntske.ServerCookie{Algo: 15, S2C: r.Bytes(32), C2S: r.Bytes(32)}
	good := sc.Encode()
	plainTLV("honest", good)
	for i := 0; i < len(good)*8; i++ {
		c := clone(good)
		c[i/8] ^= 1 << (i % 8)
		plainTLV("mut,bit", c)
	}
	for i := 0; i <= len(good); i++ {
		plainTLV("mut,trunc", clone(good[:i]))
	}
	tlv := func(t uint16, v []byte) []byte {
		b := make([]byte, 4, 4+len(v))
		binary.BigEndian.PutUint16(b, t)
		binary.BigEndian.PutUint16(b[2:], uint16(len(v)))
		return append(b, v...)
	}
	al, s2, c2 := tlv(0x101, []byte{0, 15}), tlv(0x201, sc.S2C), tlv(0x301, sc.C2S)
	cat := func(xs ...[]byte) []byte { return bytes.Join(xs, nil) }
	for _, b := range [][]byte{cat(al, s2), cat(al, c2), cat(s2, c2), cat(al), cat(), cat(c2, s2, al), cat(al, s2, c2, al), cat(al, s2, c2, s2),
		cat(al, s2, c2, tlv(0x777, r.Bytes(5))), cat(tlv(0x777, nil), al, s2, c2), cat(al, s2, c2, []byte{0}), cat(al, s2, c2, []byte{0, 0, 0}),
		cat(al, s2, c2, []byte{7, 7, 0, 9}), cat(tlv(0x101, []byte{15}), s2, c2), cat(tlv(0x101, nil), s2, c2), cat(tlv(0x101, []byte{0, 15, 9}), s2, c2),
		cat(al, tlv(0x201, nil), tlv(0x301, nil)), cat(al, s2, tlv(0x301, r.Bytes(64)))} {
		plainTLV("mut,struct", b)
	}
	types := []uint16{0x101, 0x201, 0x301, 0x401, 0x777, 0}
	for i := 0; i < n; i++ {
		var b []byte
		k := r.Intn(6)
		for j := 0; j < k; j++ {
			l := r.Intn(20)
			if r.Intn(5) == 0 {
				l = r.Intn(3)
			}
			var hdr [4]byte
			binary.BigEndian.PutUint16(hdr[:], lib.Pick(r, types...))
			dl := l
			if r.Intn(6) == 0 {
				dl = l + r.Intn(5) - 2
				if dl < 0 {
					dl = 0
				}
			}
			binary.BigEndian.PutUint16(hdr[2:], uint16(dl))
			b = append(b, hdr[:]...)
			b = append(b, r.Bytes(l)...)
		}
		if r.Intn(8) == 0 {
			b = append(b, r.Bytes(r.Intn(4))...)
		}
		plainTLV("fuzz", b)
	}
}

// ---- mutations ----

func clone(b []byte) []byte { return append([]byte(nil), b...) }

func put16(b []byte, off int, v uint16) []byte {
	c := clone(b)
	if off+2 <= len(c) {
		binary.BigEndian.PutUint16(c[off:], v)
	}
	return c
}

// region classifies a byte offset of an honest packet
func (h *honest) region(off int) string {
	switch {
	case off < 48:
		return "hdr"
	case off < h.pos:
		for _, f := range h.fields {
			if off >= f.off && off < f.off+4 {
				if off >= f.off+2 {
					return "extlen"
				}
				return "exttype"
			}
		}
		return "ext"
	case off < h.pos+2:
		return "authtype"
	case off < h.pos+4:
		return "authextlen"
	case off < h.pos+8:
		return "authlens"
	case off < h.pos+24:
		return "nonce"
	case off < h.pos+24+len(h.ct):
		return "ct"
	}
	return "tail"
}

func ntTag(region string) string {
	switch region {
	case "authtype", "authextlen", "tail":
		return "mut," + region
	}
	return "nt,mut," + region
}

type target struct {
	dir   int
	key   []byte
	reqid []byte
	l     *lsn     // not nil: deliver to this listener instead of the receiver functions
	sess  *session // the session whose keys verify the listener's reply
	spao  bool     // SCION listener: with a valid packet authenticator option
}

func deliver(tags string, hs []*honest, t target, b []byte) bool {
	if t.l != nil {
		return len(t.l.srvCaseOpt(tags, hs, b, t.sess, t.spao)) > 0
	}
	return recv(tags, hs, t.dir, b, t.key, t.reqid)
}

func bitFlips(h *honest, t target, every int, r *lib.Rng) {
	hs := []*honest{h}
	for i := 0; i < len(h.b)*8; i++ {
		if every > 1 && r.Intn(every) != 0 {
			continue
		}
		c := clone(h.b)
		c[i/8] ^= 1 << (i % 8)
		deliver(ntTag(h.region(i/8))+",bit", hs, t, c)
	}
}

// extendNonce inserts extra behind the 16 nonce octets of the authenticator at pos
// and adjusts the Nonce Length field and the length of the extension field.
func extendNonce(b []byte, pos int, k int, extra []byte) []byte {
	c := append(clone(b[:pos+24]), extra...)
	c = append(c, b[pos+24:]...)
	binary.BigEndian.PutUint16(c[pos+2:], binary.BigEndian.Uint16(b[pos+2:])+uint16(k))
	binary.BigEndian.PutUint16(c[pos+4:], uint16(16+k))
	return c
}

func fieldMutations(h *honest, t target, r *lib.Rng) {
	hs := []*honest{h}
	types := []uint16{0x104, 0x204, 0x304, 0x404, 0, 0xffff, 0x8404, 0x405, 0x105}
	for fi, f := range h.fields {
		isAuth := fi == len(h.fields)-1
		for _, ty := range types {
			if ty != f.typ {
				tg := "nt,mut,ftype"
				deliver(tg, hs, t, put16(h.b, f.off, ty))
			}
		}
		L := f.length
		for _, l := range []int{0, 1, 3, 4, 5, 8, 27, 28, 29, L - 8, L - 4, L - 1, L + 1, L + 4, L + 8, L + 28, 2 * L, len(h.b) - f.off, len(h.b) - f.off - 27, 0x7fff, 0xffff, L ^ 0x100} {
			if l < 0 || l > 0xffff || l == L {
				continue
			}
			tg := "nt,mut,flen"
			if isAuth {
				tg = "mut,authextlen"
			}
			deliver(tg, hs, t, put16(h.b, f.off+2, uint16(l)))
		}
		if !isAuth {
			// one body byte replaced, first / last / random
			for _, o := range []int{4, L - 1, 4 + r.Intn(L-4+1)} {
				if o >= 4 && o < L {
					c := clone(h.b)
					c[f.off+o] ^= byte(1 + r.Intn(255))
					deliver("nt,mut,fbody", hs, t, c)
				}
			}
		}
	}
	// the two length fields inside the authenticator
	ctl := len(h.ct)
	for _, nl := range []int{0, 1, 12, 15, 17, 20, 32, 16 + ctl, 0xffff} {
		deliver("nt,mut,noncelen", hs, t, put16(h.b, h.pos+4, uint16(nl)))
	}
	for _, cl := range []int{0, 1, 15, 16, ctl - 4, ctl - 1, ctl + 1, ctl + 4, ctl + 16, 2 * ctl, 0xffff} {
		if cl >= 0 && cl != ctl {
			deliver("nt,mut,ctlen", hs, t, put16(h.b, h.pos+6, uint16(cl)))
		}
	}
	// the nonce field extended: k octets inserted between the sender's 16 nonce octets and
	// the ciphertext, Nonce Length = 16+k, the extension field length adjusted - a packet the
	// key holder never produced
	for _, k := range []int{4, 8, 16, 1} {
		deliver("nt,mut,nonceext", hs, t, extendNonce(h.b, h.pos, k, r.Bytes(k)))
	}
	deliver("nt,mut,nonceext", hs, t, extendNonce(h.b, h.pos, 4, make([]byte, 4)))
	// both lengths changed so that nonce+ciphertext still cover the same bytes
	c := put16(put16(h.b, h.pos+4, 12), h.pos+6, uint16(ctl+4))
	deliver("nt,mut,lensplit", hs, t, c)
	// NTP header fields
	for _, o := range []int{0, 1, 2, 3, 24, 40, 47} {
		c := clone(h.b)
		c[o] ^= byte(1 + r.Intn(255))
		deliver("nt,mut,hdr", hs, t, c)
	}
}

func structural(h *honest, t target, r *lib.Rng) {
	hs := []*honest{h}
	b := h.b
	// truncations: at every field boundary, inside the authenticator, by a few bytes
	cuts := []int{0, 1, 47, 48, 49, len(b) - 1, len(b) - 2, len(b) - 4, len(b) - 15, len(b) - 16, len(b) - 17, h.pos, h.pos + 4, h.pos + 8, h.pos + 24, h.pos + 27, h.pos + 28, h.pos + 29}
	for _, f := range h.fields {
		cuts = append(cuts, f.off, f.off+2, f.off+4)
	}
	for _, c := range cuts {
		if c >= 0 && c < len(b) {
			deliver("nt,mut,trunc", hs, t, clone(b[:c]))
		}
	}
	// trailing data after the authenticator (not authenticated, not covered)
	for _, n := range []int{1, 4, 28, 100, nts.MaxPacketLen - len(b), nts.MaxPacketLen - len(b) + 1} {
		if n > 0 {
			deliver("mut,tail,append", hs, t, append(clone(b), r.Bytes(n)...))
		}
	}
	// an extension field inserted before the authenticator
	ins := func(at int, f []byte) []byte {
		c := append(clone(b[:at]), f...)
		return append(c, b[at:]...)
	}
	unknown := append([]byte{0x7f, 0x01, 0x00, 0x08}, r.Bytes(4)...)
	uidf := append([]byte{0x01, 0x04, 0x00, 0x24}, r.Bytes(32)...)
	ckf := append([]byte{0x02, 0x04, 0x00, 0x0c}, r.Bytes(8)...)
	phf := append([]byte{0x03, 0x04, 0x00, 0x0c}, make([]byte, 8)...)
	for _, f := range [][]byte{unknown, uidf, ckf, phf} {
		deliver("nt,mut,insert", hs, t, ins(h.pos, f))
		deliver("nt,mut,insert", hs, t, ins(48, f))
		// after the authenticator: ignored by the decoder, not covered
		deliver("mut,tail,insertafter", hs, t, append(clone(b), f...))
	}
	// a field deleted / two fields swapped / a field duplicated
	for i, f := range h.fields[:len(h.fields)-1] {
		c := append(clone(b[:f.off]), b[f.off+f.length:]...)
		deliver("nt,mut,delete", hs, t, c)
		deliver("nt,mut,dup", hs, t, ins(f.off, b[f.off:f.off+f.length]))
		if i+1 < len(h.fields)-1 {
			g := h.fields[i+1]
			c := clone(b[:f.off])
			c = append(c, b[g.off:g.off+g.length]...)
			c = append(c, b[f.off:f.off+f.length]...)
			c = append(c, b[g.off+g.length:]...)
			if !bytes.Equal(c, b) {
				deliver("nt,mut,swap", hs, t, c)
			}
		}
	}
	// the authenticator moved in front of the other fields
	if len(h.fields) >= 2 {
		c := clone(b[:48])
		c = append(c, b[h.pos:]...)
		c = append(c, b[48:h.pos]...)
		deliver("nt,mut,authfirst", hs, t, c)
	}
	// a second authenticator (copy) in front of the real one
	deliver("nt,mut,auth2", hs, t, ins(h.pos, b[h.pos:]))
	// padding / tail bytes of the authenticator field changed (not covered)
	if e := h.pos + 24 + len(h.ct); e < len(b) {
		c := clone(b)
		c[e] ^= 0x55
		deliver("mut,tail", hs, t, c)
	}
}

// badKeys returns keys that differ from k.  AES-SIV with an empty plaintext
// (every NTS request) never uses the second (CTR) half of the key, so a key
// that differs from k only there verifies the same tag; with macOnly the
// differences are therefore placed in the first (MAC) half.
func badKeys(r *lib.Rng, k []byte, macOnly bool) [][]byte {
	n := len(k)
	if macOnly {
		n = len(k) / 2
	}
	flip := clone(k)
	flip[r.Intn(n)] ^= 1 << r.Intn(8)
	first := clone(k)
	first[0] ^= 0x80
	last := clone(k)
	last[n-1] ^= 1
	half := append(clone(k[len(k)/2:]), k[:len(k)/2]...)
	out := [][]byte{flip, first, last, half, r.Bytes(len(k)), r.Bytes(96 - len(k)), k[:len(k)-1], append(clone(k), 0), k[:16], {}, make([]byte, len(k))}
	return out
}

// exchanges runs a multi-step history of one client/server pair (plus a second
// session for cross-talk) and delivers every packet to every receiver state.
func exchanges(r *lib.Rng, n int) {
	s := newSession(r)
	o := newSession(r) // another client of the same server, other keys
	var reqs, resps []*honest
	for i := 0; i < n; i++ {
		q := s.request(r)
		reqs = append(reqs, q)
		nc := len(q.fields) - 2 // cookies + placeholders of the request
		if nc < 1 {
			nc = 1
		}
		p := s.response(r, q.uid, nc)
		resps = append(resps, p)
	}
	oq := o.request(r)
	op := o.response(r, oq.uid, 1)
	all := append(append([]*honest{}, reqs...), resps...)
	all = append(all, oq, op)
	srv := target{dir: 0, key: s.c2s}
	for i, q := range reqs {
		// the server of this session accepts each request (also when replayed: no replay protection is claimed)
		deliver("nt,honest,complete", all, srv, q.b)
		// the client with request i outstanding
		cl := target{dir: 1, key: s.s2c, reqid: q.uid}
		for j, p := range resps {
			if i == j {
				deliver("nt,honest,complete", all, cl, p.b)
			} else {
				deliver("nt,history,otherreq", all, cl, p.b)
			}
		}
		// its own request reflected back, a request of the other direction
		deliver("nt,history,reflect", all, cl, q.b)
		// responses handed to the server
		deliver("nt,history,reflect", all, srv, resps[i].b)
		// packets of the other session
		deliver("nt,history,othersession", all, cl, op.b)
		deliver("nt,history,othersession", all, srv, oq.b)
		deliver("nt,history,othersession", all, target{dir: 1, key: o.s2c, reqid: oq.uid}, resps[i].b)
		// direction swapped keys
		deliver("nt,wrongdir", all, target{dir: 0, key: s.s2c}, q.b)
		deliver("nt,wrongdir", all, target{dir: 1, key: s.c2s, reqid: q.uid}, resps[i].b)
		// splices: authenticated part of one packet, authenticator of another (same key)
		if i > 0 {
			a, b := reqs[i-1], q
			deliver("nt,history,splice", all, srv, append(clone(a.b[:a.pos]), b.b[b.pos:]...))
			a, b = resps[i-1], resps[i]
			deliver("nt,history,splice", all, cl, append(clone(a.b[:a.pos]), b.b[b.pos:]...))
			// unique identifier of the outstanding request spliced into an older response
			c := clone(a.b)
			copy(c[52:52+32], q.uid)
			deliver("nt,history,uidswap", all, cl, c)
			// a unique identifier field with the outstanding identifier appended after the
			// authenticator of an older response: not authenticated, must not count
			uf := append([]byte{0x01, 0x04, 0x00, 0x24}, q.uid...)
			deliver("nt,history,uidafter", all, cl, append(clone(a.b), uf...))
			deliver("nt,history,uidafter", all, cl, append(append(clone(a.b), uf...), r.Bytes(28)...))
		}
		// wrong unique identifiers at the client
		p := resps[i]
		for _, id := range [][]byte{r.Bytes(32), q.uid[:31], append(clone(q.uid), 0), {}, func() []byte { c := clone(q.uid); c[r.Intn(32)] ^= 1 << r.Intn(8); return c }()} {
			deliver("nt,wronguid", all, target{dir: 1, key: s.s2c, reqid: id}, p.b)
		}
	}
}

// longSession: one client session that makes n requests through the real
// nts.NewRequestPacket, each with the identifier that newID draws for it.  The
// server's response to every request is recorded; the client with request i
// outstanding is handed its own response (accepted) and the responses to requests
// i-1, i-2, i-64, i-128, i-256 (a response to a different request: rejected).
func longSession(r *lib.Rng, n int) {
	s := newSession(r)
	ck := s.freshCookie(r)
	type exch struct {
		uid []byte
		p   *honest
	}
	var hist []exch
	seen := map[string][]int{} // every identifier drawn so far -> the requests that carried it
	for i := 0; i < n; i++ {
		setTape() // nothing scripted: the identifier is what newID reads from the random source
		_, id := nts.NewRequestPacket(ntske.Data{C2sKey: s.c2s, S2cKey: s.s2c, Cookie: s.pool, Algo: s.algo})
		id = clone(id)
		// the response as the listeners build it
		pkt := nts.NewResponsePacket([][]byte{ck}, s.s2c, id)
		nonce := r.Bytes(16)
		hdr := genHdr(r)
		out, panicked := goEncode(hdr, &pkt, nonce, false)
		fields, pos, ok := layout(id, nil, nil)
		if panicked || !ok || pos > len(out) {
			panic("long session: response not encoded")
		}
		_, ct := sealEntry(s.s2c, nonce, out[:pos], false, pkt.Auth.PlainText)
		fields = append(fields, field{off: pos, length: len(out) - pos, typ: 0x404})
		p := &honest{b: out, pos: pos, nonce: nonce, ct: ct, key: s.s2c, dir: 1, uid: id, pt: pkt.Auth.PlainText, fields: fields}
		hist = append(hist, exch{uid: id, p: p})
		nk := func(k int) string { return lib.V(lib.I(int64(i)), lib.I(int64(k))) }
		recvK("nts.session", nk(i), "nt,honest,complete,session", []*honest{p}, 1, p.b, s.s2c, id)
		done := map[int]bool{}
		for _, d := range []int{1, 2, 64, 128, 256} {
			if k := i - d; k >= 0 {
				done[k] = true
				tg := fmt.Sprintf("nt,history,session,old%d", d)
				if bytes.Equal(hist[k].uid, id) {
					tg += ",uidrepeat"
				}
				recvK("nts.session", nk(k), tg, []*honest{hist[k].p, p}, 1, hist[k].p.b, s.s2c, id)
			}
		}
		// an identifier that was drawn before: the responses to all those requests are replayed
		for _, k := range seen[string(id)] {
			if !done[k] {
				recvK("nts.session", nk(k), "nt,history,session,uidrepeat", []*honest{hist[k].p, p}, 1, hist[k].p.b, s.s2c, id)
			}
		}
		seen[string(id)] = append(seen[string(id)], i)
	}
}

// ctrKeys: keys that differ from k in the second (CTR) half only
func ctrKeys(r *lib.Rng, k []byte) [][]byte {
	n := len(k) / 2
	flip := clone(k)
	flip[n+r.Intn(n)] ^= 1 << r.Intn(8)
	first := clone(k)
	first[n] ^= 0x80
	last := clone(k)
	last[len(k)-1] ^= 1
	other := append(clone(k[:n]), r.Bytes(n)...)
	return [][]byte{flip, first, last, other}
}

// zeroTail builds an honest request (dir 0) or response (dir 1, to the request
// with identifier uid) of session s with the project's own code, choosing the
// nonce so that the last k bytes of the ciphertext - the last bytes of the
// datagram - are zero.
func zeroTail(r *lib.Rng, s *session, dir int, uid []byte, k int, hdr []byte) *honest {
	var cs, phs [][]byte
	var key, pt []byte
	src := ""
	if dir == 0 {
		uid = r.Bytes(32)
		setTape(uid)
		pkt, id := nts.NewRequestPacket(ntske.Data{C2sKey: s.c2s, S2cKey: s.s2c, Cookie: s.pool, Algo: s.algo})
		setTape()
		uid = id
		for _, c := range pkt.Cookies {
			cs = append(cs, c.Cookie)
		}
		for _, c := range pkt.CookiePlaceholders {
			phs = append(phs, c.Cookie)
		}
		key = s.c2s
		src = lib.L(BL(s.pool))
	} else {
		cookies := [][]byte{s.freshCookie(r)}
		pkt := nts.NewResponsePacket(cookies, s.s2c, uid)
		key, pt = s.s2c, pkt.Auth.PlainText
		src = lib.L(BL(cookies), lib.B(uid))
	}
	if hdr == nil {
		hdr = genHdr(r)
	}
	probe, panicked := goEncode(hdr, mkPacket(uid, cs, phs, key, pt), make([]byte, 16), false)
	_, pos, ok := layout(uid, cs, phs)
	if panicked || !ok {
		panic("zeroTail: the packet does not encode")
	}
	rq := lib.NewRng(r.U64()) // the length of the search must not move r's stream
	var nonce []byte
	for try := 0; ; try++ {
		if try > 1<<24 {
			panic("zeroTail: no nonce found")
		}
		nonce = rq.Bytes(16)
		ct := ownSeal(key, nonce, pt, probe[:pos])
		z := true
		for _, x := range ct[len(ct)-k:] {
			z = z && x == 0
		}
		if z {
			break
		}
	}
	pk := 0
	if dir == 1 {
		pk = 1
	}
	out, fields, pos, ct := encodeCase("honest,zerotail", hdr, uid, cs, phs, key, pt, nonce, false, pk, src)
	if out[len(out)-1] != 0 || len(out) != pos+24+len(ct) {
		panic("zeroTail: the datagram does not end with the zero bytes of the ciphertext")
	}
	return &honest{b: out, pos: pos, nonce: nonce, ct: ct, key: key, dir: dir, uid: uid, pt: pt, fields: fields}
}

// truncTagCases: an honest datagram whose last k bytes - the end of the SIV tag /
// ciphertext - are zero, with those k bytes cut off.  Authenticator.unpack fills
// the missing bytes with zeros, so the shortened datagram authenticates: a known
// finding, in a kind of its own, judged by the strict clause (only the datagram
// that was sealed may be accepted).
func truncTagCases(r *lib.Rng) {
	s := newSession(r)
	for _, k := range []int{1, 2} {
		tg := fmt.Sprintf("nt,mut,trunctag,cut%d", k)
		q := zeroTail(r, s, 0, nil, k, nil)
		recvK("nts.trunctag", "", tg+",request", []*honest{q}, 0, clone(q.b[:len(q.b)-k]), s.c2s, nil)
		p := zeroTail(r, s, 1, q.uid, k, nil)
		recvK("nts.trunctag", "0", tg+",response", []*honest{p}, 1, clone(p.b[:len(p.b)-k]), s.s2c, q.uid)
	}
}

func wrongKeys(r *lib.Rng, h *honest, t target) {
	hs := []*honest{h}
	for _, k := range badKeys(r, t.key, len(h.pt) == 0) {
		t2 := t
		t2.key = k
		deliver("nt,wrongkey", hs, t2, h.b)
	}
	// keys that differ in the second half only.  With a plaintext (responses) they are
	// rejected.  With an empty plaintext (requests) AES-SIV never uses that half and the
	// packet verifies: a known finding, kept in a kind of its own (nts.ctrhalf) and judged
	// by the same strict oracle
	for _, k := range ctrKeys(r, t.key) {
		if len(h.pt) == 0 {
			if t.l == nil && t.dir == 0 {
				recvK("nts.ctrhalf", "", "nt,wrongkey,ctrhalf,emptypt", hs, 0, h.b, k, nil)
			}
			continue
		}
		t2 := t
		t2.key = k
		deliver("nt,wrongkey,ctrhalf,nonempty", hs, t2, h.b)
	}
}

// ---- cookie mutations ----

func cookieCases(r *lib.Rng, s *session, thorough bool) {
	for ci, sc := range s.sealed {
		if ci >= 3 && !thorough {
			break
		}
		cookieOpen("nt,honest,complete", sc, sc.cb, sc.master)
		cookieTLV("", sc.cb)
		for _, k := range badKeys(r, sc.master, false) {
			cookieOpen("nt,wrongkey", sc, sc.cb, k)
		}
		if ci == 0 || thorough {
			for i := 0; i < len(sc.cb)*8; i++ {
				c := clone(sc.cb)
				c[i/8] ^= 1 << (i % 8)
				tg := "nt,mut,bit"
				if i/8 >= 4 && i/8 < 6 {
					tg = "mut,bit,keyid" // the key id is not authenticated: it selects the key
				}
				cookieOpen(tg, sc, c, sc.master)
				if i%8 == 0 {
					cookieTLV("mut", c)
				}
			}
		}
		// TLV type and length fields
		offs := []int{0, 6, 10 + 16}
		for _, o := range offs {
			for _, ty := range []uint16{0x101, 0x201, 0x301, 0x401, 0x501, 0x601, 0, 0xffff} {
				cookieOpen("nt,mut,ftype", sc, put16(sc.cb, o, ty), sc.master)
				cookieTLV("mut", put16(sc.cb, o, ty))
			}
			L := int(binary.BigEndian.Uint16(sc.cb[o+2:]))
			for _, l := range []int{0, 1, 2, 3, L - 1, L + 1, L + 4, len(sc.cb) - o - 4, len(sc.cb) - o - 3, 0xffff} {
				if l >= 0 && l != L {
					cookieOpen("nt,mut,flen", sc, put16(sc.cb, o+2, uint16(l)), sc.master)
					cookieTLV("mut", put16(sc.cb, o+2, uint16(l)))
				}
			}
		}
		for _, c := range []int{0, 1, 3, 4, 5, 6, 9, 10, 25, 26, 29, 30, len(sc.cb) - 1} {
			if c < len(sc.cb) {
				cookieOpen("nt,mut,trunc", sc, clone(sc.cb[:c]), sc.master)
				cookieTLV("mut", clone(sc.cb[:c]))
			}
		}
		// an unknown TLV appended / prepended (ignored by the decoder: same cookie)
		extra := append([]byte{0x77, 0x01, 0x00, 0x03}, r.Bytes(3)...)
		cookieOpen("mut,append", sc, append(clone(sc.cb), extra...), sc.master)
		cookieOpen("mut,append", sc, append(clone(extra), sc.cb...), sc.master)
		cookieOpen("nt,mut,append", sc, append(clone(sc.cb), 0), sc.master)
		// nonce / ciphertext of another cookie sealed under the same key
		if ci+1 < len(s.sealed) {
			o := s.sealed[ci+1]
			c := clone(sc.cb)
			copy(c[10:26], o.cb[10:26])
			cookieOpen("nt,mut,splice", sc, c, sc.master)
			// a second nonce TLV appended: the later one wins in the decoder
			c = append(clone(sc.cb), o.cb[6:26]...)
			cookieOpen("nt,mut,splice", sc, c, sc.master)
		}
	}
}

// random TLV strings for the cookie decoder
func tlvFuzz(r *lib.Rng, n int) {
	types := []uint16{0x401, 0x501, 0x601, 0x101, 0x777, 0}
	for i := 0; i < n; i++ {
		var b []byte
		k := r.Intn(6)
		for j := 0; j < k; j++ {
			l := r.Intn(20)
			if r.Intn(5) == 0 {
				l = r.Intn(3)
			}
			var hdr [4]byte
			binary.BigEndian.PutUint16(hdr[:], lib.Pick(r, types...))
			dl := l
			if r.Intn(6) == 0 {
				dl = l + r.Intn(5) - 2
				if dl < 0 {
					dl = 0
				}
			}
			binary.BigEndian.PutUint16(hdr[2:], uint16(dl))
			b = append(b, hdr[:]...)
			b = append(b, r.Bytes(l)...)
		}
		if r.Intn(8) == 0 {
			b = append(b, r.Bytes(r.Intn(4))...)
		}
		cookieTLV("fuzz", b)
	}
}

// cookie contents at the boundaries of the encoders
func cookieBoundaries(r *lib.Rng) {
	for _, kl := range []int{0, 1, 16, 31, 32, 33, 64, 100} {
		for _, ml := range []int{32, 64, 0, 16, 31, 33, 48, 65} {
			algo := lib.Pick(r, uint16(15), 0, 0xffff, 0x0100, uint16(r.U64()))
			keyid := lib.Pick(r, 0, 1, 255, 256, 65535, 65536, 65537+r.Intn(1000), -1, -65536, r.Intn(1<<30))
			rnd := r.Bytes(16)
			s2c, c2s, master := r.Bytes(kl), r.Bytes(lib.Pick(r, kl, 32, 0)), r.Bytes(ml)
			cb := cookieSealCase("boundary", algo, s2c, c2s, master, keyid, rnd)
			if cb != nil {
				sc := &sealedCookie{cb: cb, master: master, algo: algo, s2c: s2c, c2s: c2s}
				cookieOpen("nt,honest,complete,boundary", sc, cb, master)
			}
		}
	}
}

// ---- encoder boundaries ----

func encodeBoundaries(r *lib.Rng, n int) {
	for i := 0; i < n; i++ {
		uidLen := lib.Pick(r, 32, 32, 32, 33, 35, 36, 64, 31, 0, 16, 100)
		nc := r.Intn(4)
		var cs, phs [][]byte
		cl := lib.Pick(r, 0, 1, 3, 4, 100, 101, 104, 124, 200, 300)
		for j := 0; j < nc; j++ {
			l := cl
			if r.Intn(4) == 0 {
				l = r.Intn(130)
			}
			cs = append(cs, r.Bytes(l))
		}
		np := r.Intn(9)
		for j := 0; j < np; j++ {
			phs = append(phs, make([]byte, cl))
		}
		if r.Intn(3) == 0 {
			// aim at the 1024-byte boundary
			used := 48 + 4 + pad4(uidLen)
			for _, c := range cs {
				used += 4 + pad4(len(c))
			}
			for _, c := range phs {
				used += 4 + pad4(len(c))
			}
			want := 1024 - 40 - used + int(r.Range(-12, 12))
			if want >= 4 {
				cs = append(cs, r.Bytes(want-4))
			}
		}
		key := r.Bytes(lib.Pick(r, 32, 32, 32, 64, 0, 16, 33))
		var pt []byte
		if r.Intn(3) == 0 {
			pt = r.Bytes(lib.Pick(r, 1, 3, 4, 27, 28, 108, 216, r.Intn(600)))
		}
		hdrLen := 48
		if r.Intn(20) == 0 {
			hdrLen = lib.Pick(r, 0, 47, 49, 76)
		}
		pk := 0
		if len(pt) > 0 {
			pk = 2
		}
		out, fields, pos, ct := encodeCase("boundary", r.Bytes(hdrLen), r.Bytes(uidLen), cs, phs, key, pt, r.Bytes(16), r.Bool(), pk, "")
		if out != nil && ct != nil && len(fields) > 0 && len(out) >= pos+24+len(ct) {
			// whatever the encoder emits without truncation must be accepted under its key
			h := &honest{b: out, pos: pos, nonce: out[pos+8 : pos+24], ct: ct, key: key, dir: 0, uid: nil, fields: fields}
			recv("nt,honest,complete,boundary", []*honest{h}, 0, out, key, nil)
		}
	}
	// NewResponsePacket / NewRequestPacket at their boundaries
	for i := 0; i < n/4+4; i++ {
		cl := lib.Pick(r, 0, 1, 3, 4, 100, 104, 124, 125, 300, 900, 148, 224, 300, 448, 452, 145, 297)
		k := 1 + r.Intn(9)
		var cs [][]byte
		for j := 0; j < k; j++ {
			l := cl
			if r.Intn(5) == 0 && j > 0 {
				l = cl - r.Intn(cl+1)
			}
			cs = append(cs, r.Bytes(l))
		}
		uid := r.Bytes(lib.Pick(r, 32, 32, 36, 64, 500))
		code, pt := 0, []byte(nil)
		func() {
			defer func() {
				if recover() != nil {
					code = 100
				}
			}()
			p := nts.NewResponsePacket(cs, r.Bytes(32), uid)
			pt = p.Auth.PlainText
		}()
		if code != 0 {
			// NewResponsePacket panicked (cookies that do not fit its buffer): nothing to encode;
			// correspondence with the model only
			w.Case("nts.newresp", "boundary,panic", lib.V(BL(cs), lib.B(uid)), lib.V(lib.I(int64(code)), lib.B(pt)))
		} else {
			k := 2
			if sameShape(cs) {
				k = 1
			}
			encodeCase("boundary,newresp", genHdr(r), uid, nil, nil, r.Bytes(32), pt, r.Bytes(16), false, k, lib.L(BL(cs), lib.B(uid)))
		}
		id := r.Bytes(32)
		setTape(id)
		c2s := r.Bytes(32)
		pk, _ := nts.NewRequestPacket(ntske.Data{Cookie: cs, C2sKey: c2s})
		setTape()
		var c1, p1 [][]byte
		for _, c := range pk.Cookies {
			c1 = append(c1, c.Cookie)
		}
		for _, c := range pk.CookiePlaceholders {
			p1 = append(p1, c.Cookie)
		}
		encodeCase("boundary,newreq", genHdr(r), id, c1, p1, c2s, nil, r.Bytes(16), false, 0, lib.L(BL(cs)))
	}
}

// random and semi-structured datagrams for the decoder (no honest packet behind them)
func decodeFuzz(r *lib.Rng, n int) {
	for i := 0; i < n; i++ {
		b := r.Bytes(48)
		k := r.Intn(6)
		for j := 0; j < k; j++ {
			ty := lib.Pick(r, uint16(0x104), 0x204, 0x304, 0x404, 0x404, 0x999)
			l := lib.Pick(r, 4, 8, 36, 40, 28, 104, r.Intn(60))
			body := r.Bytes(l)
			dl := l + 4
			if r.Intn(6) == 0 {
				dl = lib.Pick(r, 0, 3, 4, l, l+8, 0xffff)
			}
			if ty == 0x404 && l >= 4 {
				binary.BigEndian.PutUint16(body, uint16(lib.Pick(r, 16, 16, 16, 0, 12, 40)))
				binary.BigEndian.PutUint16(body[2:], uint16(lib.Pick(r, 16, 0, l-20, 200)))
			}
			var hdr [4]byte
			binary.BigEndian.PutUint16(hdr[:], ty)
			binary.BigEndian.PutUint16(hdr[2:], uint16(dl))
			b = append(b, hdr[:]...)
			b = append(b, body...)
		}
		if r.Intn(10) == 0 {
			b = append(b, r.Bytes(r.Intn(1100))...)
		}
		recv("fuzz", nil, r.Intn(2), b, r.Bytes(32), r.Bytes(32))
	}
}

func replay(path string) {
	r := lib.NewRng(1)
	tape.rng = r
	for _, c := range lib.ReplayLines(path) {
		a := parseVals(c[2])
		switch c[0] {
		case "nts.req":
			recv(c[1], parseHonests(a[0]), 0, a[1].B(), a[2].B(), nil)
		case "nts.resp":
			recv(c[1], parseHonests(a[0]), 1, a[1].B(), a[2].B(), a[3].B())
		case "nts.ctrhalf":
			recvK("nts.ctrhalf", "", c[1], parseHonests(a[0]), 0, a[1].B(), a[2].B(), nil)
		case "nts.trunctag":
			if len(a) == 4 {
				recvK("nts.trunctag", "", c[1], parseHonests(a[0]), 0, a[1].B(), a[2].B(), nil)
			} else {
				recvK("nts.trunctag", "0", c[1], parseHonests(a[0]), 1, a[1].B(), a[2].B(), a[3].B())
			}
		case "nts.session":
			recvK("nts.session", lib.V(lib.I(a[5].I()), lib.I(a[6].I())), c[1], parseHonests(a[0]), 1, a[1].B(), a[2].B(), a[3].B())
		case "nts.encode":
			encodeCase(c[1], a[0].B(), a[1].B(), a[2].BL(), a[3].BL(), a[4].B(), a[5].B(), a[6].B(), false, int(a[8].I()), rawVal(c[2], 9))
		case "nts.newresp":
			code, pt := 0, []byte(nil)
			func() {
				defer func() {
					if recover() != nil {
						code = 100
					}
				}()
				p := nts.NewResponsePacket(a[0].BL(), make([]byte, 32), a[1].B())
				pt = p.Auth.PlainText
			}()
			w.Case("nts.newresp", c[1], c[2], lib.V(lib.I(int64(code)), lib.B(pt)))
		case "ck.seal":
			cookieSealCase(c[1], uint16(a[0].I()), a[1].B(), a[2].B(), a[3].B(), int(a[4].I()), a[5].B())
		case "ck.open":
			sc := &sealedCookie{cb: a[0].B(), master: a[1].B(), algo: uint16(a[2].I()), s2c: a[3].B(), c2s: a[4].B()}
			cookieOpen(c[1], sc, a[5].B(), a[6].B())
		case "ck.tlv":
			if a[0].I() == 1 {
				plainTLV(c[1], a[1].B())
			} else {
				cookieTLV(c[1], a[1].B())
			}
		case "ck.hist":
			var reqs []openReq
			for _, it := range a[0].l {
				sc := &sealedCookie{cb: it.l[0].B(), master: it.l[1].B(), algo: uint16(it.l[2].I()), s2c: it.l[3].B(), c2s: it.l[4].B()}
				reqs = append(reqs, openReq{sc: sc, cb: it.l[5].B(), key: it.l[6].B()})
			}
			cookieHistory(c[1], reqs)
		case "ke.export":
			exportCase(c[1])
		default:
			replayExtra(c)
		}
	}
}

func main() {
	// the DRKey fetcher of /repo reads USE_MOCK_KEYS in a package init: start over with it set
	if os.Getenv("USE_MOCK_KEYS") != "true" {
		exe, err := os.Executable()
		if err != nil {
			panic(err)
		}
		if err := syscall.Exec(exe, os.Args, append(os.Environ(), "USE_MOCK_KEYS=true")); err != nil {
			panic(err)
		}
	}
	a := lib.ParseArgs()
	crand.Reader = tape
	w = lib.NewWriter(a.Out)
	defer func() {
		w.Close()
		if sentinelLost {
			// a listener stopped answering: its remaining cases were not driven
			os.Exit(3)
		}
	}()
	if a.Replay != "" {
		replay(a.Replay)
		return
	}
	r := lib.NewRng(a.Seed)
	tape.rng = r.Fork()
	thorough := a.Tier == "thorough"
	rounds := 2
	if thorough {
		rounds = 12
	}
	for round := 0; round < rounds; round++ {
		s := newSession(r)
		q := s.request(r)
		srv := target{dir: 0, key: s.c2s}
		p := s.response(r, q.uid, 1+r.Intn(3))
		cl := target{dir: 1, key: s.s2c, reqid: q.uid}
		every := 1
		if !thorough && round > 0 {
			every = 4
		}
		recv("nt,honest,complete", []*honest{q}, 0, q.b, s.c2s, nil)
		recv("nt,honest,complete", []*honest{p}, 1, p.b, s.s2c, q.uid)
		bitFlips(q, srv, every, r)
		bitFlips(p, cl, every, r)
		fieldMutations(q, srv, r)
		fieldMutations(p, cl, r)
		structural(q, srv, r)
		structural(p, cl, r)
		wrongKeys(r, q, srv)
		wrongKeys(r, p, cl)
		cookieCases(r, s, thorough)
		// a response with as many cookies as fit, mutated as well
		if round == 0 || thorough {
			big := s.response(r, q.uid, 8)
			recv("nt,honest,complete", []*honest{big}, 1, big.b, s.s2c, q.uid)
			bitFlips(big, cl, 16, r)
			fieldMutations(big, cl, r)
			structural(big, cl, r)
		}
	}
	{
		ss := []*session{newSession(r), newSession(r), newSession(r)}
		nh := 150
		if thorough {
			nh = 1500
		}
		cookieHistories(r, ss, nh)
	}
	nx := 6
	if thorough {
		nx = 40
	}
	for i := 0; i < nx; i++ {
		exchanges(r, 2+r.Intn(3))
	}
	cookieBoundaries(r)
	if thorough {
		encodeBoundaries(r, 3000)
		decodeFuzz(r, 6000)
		tlvFuzz(r, 6000)
		plainFuzz(r, 6000)
	} else {
		encodeBoundaries(r, 400)
		decodeFuzz(r, 800)
		tlvFuzz(r, 1000)
		plainFuzz(r, 1000)
	}
	ne := 3
	if thorough {
		ne = 12
	}
	for i := 0; i < ne; i++ {
		exportCase("nt")
	}
	truncTagCases(r)
	longSession(r, 300)
	if thorough {
		longSession(r, 700)
	}
	clientCases(r, thorough)
	extraCases(r, thorough)
	fmt.Fprintf(os.Stderr, "c10: %d cases\n", w.N())
}
