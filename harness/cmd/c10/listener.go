package main

import "verifharness/lib"

func extraCases(r *lib.Rng, thorough bool) {}

func replayExtra(c [3]string) {}
