package main

// The real listeners (server.StartIPServer and server.StartSCIONServer with one
// real ntske.Provider) on a loopback address of this process.  Honest NTS
// requests are built exactly as the client does (cookie sealed under a key of
// the provider, NewRequestPacket, EncodePacket) and delivered unchanged and
// mutated, to the IP listener as UDP payload (kind srv.ip) and to the SCION
// listener inside a SCION/UDP packet, without and with a valid SCION packet
// authenticator option (kind srv.scion, tag spao); "no reply" is decided by a
// plain 48-byte sentinel request sent afterwards from the same socket (the
// listener goroutine that owns this 4-tuple answers in order).  A sentinel that
// goes unanswered is a failing case and ends the run with a non-zero status.
//
// Every reply is judged by the harness's own code (own.go: TLV walk + miscreant
// with the keys the harness holds): it must authenticate under the session's S2C
// key over the bytes in front of its authenticator with the identifier of the
// request; every cookie it carries must name the provider's current key, open
// under it and yield exactly the session's algorithm and keys; after an accepted
// honest request a follow-up request that uses one of the re-issued cookies is
// sent and must be accepted as well.  Datagrams of 48 bytes or fewer are sent
// too: a plain request is answered without NTS, a shorter one not at all.
//
// The real NTS-KE server (server.StartNTSKEServerIP) is run once with the real
// ntske.Fetcher as its client (kind ke.real): the keys inside the cookies it
// issues must be the client's exported keys by direction, and the first request
// built from them must be answered by the listener.

import (
	"bytes"
	"context"
	"crypto/tls"
	"encoding/binary"
	"fmt"
	"log/slog"
	"net"
	"os"
	"sync"
	"time"

	"example.com/scion-time/core/server"
	"example.com/scion-time/core/timebase"
	"example.com/scion-time/net/nts"
	"example.com/scion-time/net/ntske"
	"example.com/scion-time/net/scion"

	"verifharness/lib"
)

type sysClock struct{}

func (sysClock) Epoch() uint64                                    { return 0 }
func (sysClock) Now() time.Time                                   { return time.Now().UTC() }
func (sysClock) Drift(d time.Duration) time.Duration              { return 0 }
func (sysClock) Step(offset time.Duration)                        {}
func (sysClock) Adjust(offset, duration time.Duration, f float64) {}
func (sysClock) Sleep(d time.Duration)                            { time.Sleep(d) }

const (
	lsnPort      = 21010
	scionPort    = 21011
	scionUDPSrc  = 40123
	sentinelSecs = 0x5E471E10
	srvIA        = 0x0001ff0000000112
	cliIA        = 0x0001ff0000000111
)

type lsn struct {
	kind  string // "srv.ip" or "srv.scion"
	scion bool
	dst   *net.UDPAddr
	conn  *net.UDPConn
	srcIP net.IP
	dstIP net.IP
	seq   uint32
	lost  bool
}

var clockOnce sync.Once

func registerClock() { clockOnce.Do(func() { timebase.RegisterClock(sysClock{}) }) }

var (
	theProvider *ntske.Provider
	theLsns     []*lsn
	// a sentinel went unanswered somewhere: the run fails (see main)
	sentinelLost bool
)

func lsnIP() net.IP {
	pid := os.Getpid()
	return net.IPv4(127, 10, byte(pid>>8), byte(pid))
}

func getLsns() []*lsn {
	if theLsns != nil {
		return theLsns
	}
	registerClock()
	setTape()
	theProvider = ntske.NewProvider()
	ip := lsnIP()
	log := slog.New(slog.DiscardHandler)
	ipDst := &net.UDPAddr{IP: ip, Port: lsnPort}
	server.StartIPServer(context.Background(), log, ipDst, 0, theProvider)
	scDst := &net.UDPAddr{IP: ip, Port: scionPort}
	server.StartSCIONServer(context.Background(), log, "" /* no daemon */, scDst, 0, theProvider)
	// the real NTS-KE server, announcing the IP listener
	server.StartNTSKEServerIP(context.Background(), log, ip, lsnPort, &tls.Config{
		Certificates: []tls.Certificate{selfSigned()}, MinVersion: tls.VersionTLS13, NextProtos: []string{"ntske/1"}}, theProvider)
	for _, sc := range []bool{false, true} {
		c, err := net.ListenUDP("udp4", &net.UDPAddr{IP: ip, Port: 0})
		if err != nil {
			panic(err)
		}
		c.SetReadBuffer(1 << 20)
		l := &lsn{kind: "srv.ip", dst: ipDst, conn: c, srcIP: ip.To4(), dstIP: ip.To4()}
		if sc {
			l.kind, l.scion, l.dst = "srv.scion", true, scDst
		}
		theLsns = append(theLsns, l)
	}
	return theLsns
}

// ---- SCION/UDP encapsulation (empty path: client and server in one AS) ----

func (l *lsn) wrap(payload []byte, spao bool) []byte {
	if !l.scion {
		return payload
	}
	p := scPkt{srcIA: cliIA, dstIA: srvIA, srcIP: l.srcIP, dstIP: l.dstIP, sport: scionUDPSrc, dport: scionPort, payload: payload}
	if spao {
		p.spi = scion.PacketAuthSPIClient
	}
	return p.build()
}

// unwrap returns the NTP/NTS payload of a datagram received from the listener;
// for SCION the reply must be a SCION/UDP packet back to the requester, with a
// valid authenticator option exactly when the request carried one.
func (l *lsn) unwrap(d []byte, spao bool) (payload []byte, ok bool) {
	if !l.scion {
		return d, true
	}
	p, ok := parseSC(d, scion.PacketAuthSPIServer)
	if !ok || p.dstIA != cliIA || p.srcIA != srvIA || !bytes.Equal(p.dstIP, l.srcIP) || !bytes.Equal(p.srcIP, l.dstIP) ||
		p.sport != scionPort || p.dport != scionUDPSrc || p.hasAuth != spao {
		return nil, false
	}
	return p.payload, true
}

// probe sends pkt, then a sentinel, and returns the payloads of the datagrams
// received before the sentinel's answer; ok = false: the sentinel was lost.
func (l *lsn) probe(pkt []byte, spao bool) (replies [][]byte, ok bool) {
	l.seq++
	s := make([]byte, 48)
	s[0] = 4<<3 | 3
	binary.BigEndian.PutUint32(s[40:], sentinelSecs)
	binary.BigEndian.PutUint32(s[44:], l.seq)
	if _, err := l.conn.WriteToUDP(l.wrap(pkt, spao), l.dst); err != nil {
		panic(err)
	}
	ws := l.wrap(s, false)
	buf := make([]byte, 4096)
	deadline := time.Now().Add(30 * time.Second)
	for attempt := 0; attempt < 3; attempt++ {
		if _, err := l.conn.WriteToUDP(ws, l.dst); err != nil {
			panic(err)
		}
		l.conn.SetReadDeadline(time.Now().Add(10 * time.Second))
		for {
			n, _, err := l.conn.ReadFromUDP(buf)
			if err != nil {
				break
			}
			raw := append([]byte(nil), buf[:n]...)
			if d, good := l.unwrap(raw, false); good && len(d) == 48 && binary.BigEndian.Uint32(d[24:]) == sentinelSecs {
				if binary.BigEndian.Uint32(d[28:]) == l.seq {
					return replies, true
				}
				continue // answer to an earlier (repeated) sentinel
			}
			d, good := l.unwrap(raw, spao)
			if !good {
				// not a well-formed reply: counts as a reply that cannot verify
				replies = append(replies, []byte{})
				continue
			}
			replies = append(replies, d)
		}
		if time.Now().After(deadline) {
			break
		}
	}
	return replies, false
}

func keyTable() (string, map[int][]byte) {
	cur := theProvider.Current()
	var ks []string
	m := map[int][]byte{}
	for id := 1; id <= cur.ID; id++ {
		if k, ok := theProvider.Get(id); ok {
			ks = append(ks, lib.L(lib.I(int64(k.ID)), lib.B(k.Value)))
			m[k.ID] = k.Value
		}
	}
	return lib.L(ks...), m
}

// reissuedOK opens every cookie of an accepted reply with the harness's own
// code: each must name the provider's current key, open under it and yield
// exactly the session's algorithm and keys.
func reissuedOK(cookies [][]byte, s *session, keys map[int][]byte) bool {
	if len(cookies) == 0 {
		return false
	}
	cur := theProvider.Current().ID
	for _, cb := range cookies {
		c, ok := ownOpenCookie(cb, keys)
		if !ok || c.id != cur || c.algo != s.algo || !bytes.Equal(c.s2c, s.s2c) || !bytes.Equal(c.c2s, s.c2s) {
			return false
		}
	}
	return true
}

// srvCase delivers b to the listener and records the case.  hs are the honest
// requests in circulation (the first request among them gives the identifier
// the reply must carry); s is the session whose keys verify the reply.  It
// returns the cookies of a reply that verified.
func (l *lsn) srvCase(tags string, hs []*honest, b []byte, s *session) (reissued [][]byte) {
	return l.srvCaseOpt(tags, hs, b, s, false)
}

func (l *lsn) srvCaseOpt(tags string, hs []*honest, b []byte, s *session, spao bool) (reissued [][]byte) {
	if l.lost {
		return nil
	}
	if spao {
		tags += ",spao"
	}
	// AEAD answers for the model, computed through the real decoding steps
	var ents []string
	func() {
		defer func() { recover() }()
		var pkt nts.Packet
		if len(b) <= 48 || nts.DecodePacket(&pkt, b) != nil {
			return
		}
		cb, err := pkt.FirstCookie()
		if err != nil {
			return
		}
		var ec ntske.EncryptedServerCookie
		if ec.Decode(cb) != nil {
			return
		}
		key, ok := theProvider.Get(int(ec.ID))
		if !ok || len(ec.Nonce) != 16 {
			return
		}
		ents = append(ents, openEntry(key.Value, ec.Nonce, nil, true, ec.Ciphertext))
		sc, err := ec.Decrypt(key.Value)
		if err != nil {
			return
		}
		pos := authPos(&pkt)
		if keyOK(sc.C2S) && len(pkt.Auth.Nonce) == 16 && pos <= len(b) {
			ents = append(ents, openEntry(sc.C2S, pkt.Auth.Nonce, b[:pos], false, pkt.Auth.CipherText))
		}
	}()
	keys, keymap := keyTable()
	args := lib.V(HL(hs), lib.B(b), keys, tab(ents...))
	replies, ok := l.probe(b, spao)
	if !ok {
		// the listener stopped answering: a failing case, and the run fails
		l.lost, sentinelLost = true, true
		fmt.Printf("NOTE c10: a sentinel request to the %s listener went unanswered; the case in flight is recorded as failing and the run exits non-zero\n", l.kind)
		w.Case(l.kind, tags+",lost", args, "-1 0 0")
		return nil
	}
	replied, verified, cookiesOK := 0, 0, 0
	if len(replies) > 0 {
		replied = 1
		var uid []byte
		for _, h := range hs {
			if h.dir == 0 {
				uid = h.uid
				break
			}
		}
		if s != nil && s.uidOverride != nil {
			uid = s.uidOverride
		}
		if len(replies) == 1 && s != nil {
			if cs, ok := ownOpenReply(replies[0], s.s2c, uid); ok && len(cs) >= 1 {
				verified = 1
				if reissuedOK(cs, s, keymap) {
					cookiesOK = 1
					reissued = cs
				}
			}
		}
		if len(b) <= 48 && (len(replies) != 1 || len(replies[0]) != 48) {
			// a request without NTS must get exactly one plain reply
			verified = 1
		}
	}
	w.Case(l.kind, tags, args, lib.V(lib.I(int64(replied)), lib.I(int64(verified)), lib.I(int64(cookiesOK))))
	return reissued
}

// encodeHonest runs the real EncodePacket on the given parts and returns the
// description of the honest request.
func encodeHonest(r *lib.Rng, uid []byte, cookies, phs [][]byte, key []byte) *honest {
	hdr := make([]byte, 48)
	hdr[0] = 4<<3 | 3
	copy(hdr[40:], r.Bytes(8))
	nonce := r.Bytes(16)
	out, fields, pos, ct := encodeCase("honest", hdr, uid, cookies, phs, key, nil, nonce, false, 0, "")
	return &honest{b: out, pos: pos, nonce: nonce, ct: ct, key: key, dir: 0, uid: uid, fields: fields}
}

// lsnRequest builds a request of session x exactly as the client does.
func lsnRequest(r *lib.Rng, x *session) *honest {
	uid := r.Bytes(32)
	setTape(uid)
	pkt, id := nts.NewRequestPacket(ntske.Data{C2sKey: x.c2s, S2cKey: x.s2c, Cookie: x.pool})
	setTape()
	var cs, phs [][]byte
	for _, c := range pkt.Cookies {
		cs = append(cs, c.Cookie)
	}
	for _, c := range pkt.CookiePlaceholders {
		phs = append(phs, c.Cookie)
	}
	return encodeHonest(r, id, cs, phs, pkt.Auth.Key)
}

// honestAndFollowUp sends an honest request of s; when it is answered, a
// follow-up request that uses one of the re-issued cookies must be answered too.
func (l *lsn) honestAndFollowUp(r *lib.Rng, tags string, s *session, q *honest, others []*honest, spao bool) {
	re := l.srvCaseOpt(tags, append([]*honest{q}, others...), q.b, s, spao)
	if len(re) == 0 {
		return
	}
	f := &session{c2s: s.c2s, s2c: s.s2c, algo: s.algo, pool: [][]byte{re[r.Intn(len(re))]}}
	fq := lsnRequest(r, f)
	l.srvCaseOpt("nt,honest,complete,followup", append([]*honest{fq}, others...), fq.b, f, spao)
}

func lsnSession(r *lib.Rng, n int) *session {
	cur := theProvider.Current()
	s := &session{master: cur.Value, keyid: cur.ID, c2s: r.Bytes(32), s2c: r.Bytes(32), algo: 15}
	if r.Intn(4) == 0 {
		s.c2s, s.s2c = r.Bytes(64), r.Bytes(64)
	}
	for i := 0; i < n; i++ {
		s.pool = append(s.pool, s.freshCookie(r))
	}
	return s
}

// sealQuiet seals a cookie of session s with the project's own code
// (EncryptWithNonce + Encode) without recording a case, with fresh nonces until
// want holds for the cookie bytes and the nonce.
func sealQuiet(r *lib.Rng, s *session, want func(cb, nonce []byte) bool) []byte {
	sc := ntske.ServerCookie{Algo: s.algo, S2C: s.s2c, C2S: s.c2s}
	// the length of the search depends on the server key: it must not move r's stream
	r = lib.NewRng(r.U64())
	for try := 0; try < 1<<22; try++ {
		nonce := r.Bytes(16)
		setTape(nonce)
		ec, err := sc.EncryptWithNonce(s.master, s.keyid)
		setTape()
		if err != nil {
			panic(err)
		}
		cb := ec.Encode()
		if want == nil || want(cb, nonce) {
			return cb
		}
	}
	panic("no cookie of the wanted shape found")
}

// freshRequests: honest requests of clients that share the keys of s, each with a
// freshly sealed cookie (fresh nonce, so fresh ciphertext), and cookies whose
// ciphertext / nonce end in zero bytes: every one must be answered.
func (l *lsn) freshRequests(r *lib.Rng, s *session, q *honest, n int, deep bool) {
	send := func(tags string, cb []byte) {
		x := &session{master: s.master, keyid: s.keyid, c2s: s.c2s, s2c: s.s2c, algo: s.algo, pool: [][]byte{cb}}
		xq := lsnRequest(r, x)
		l.srvCase(tags, []*honest{xq, q}, xq.b, x)
	}
	for i := 0; i < n; i++ {
		send("nt,honest,complete,fresh", sealQuiet(r, s, nil))
	}
	end := func(k int) func(cb, nonce []byte) bool {
		return func(cb, _ []byte) bool {
			for _, x := range cb[len(cb)-k:] {
				if x != 0 {
					return false
				}
			}
			return true
		}
	}
	send("nt,honest,complete,cookie00,ct0", sealQuiet(r, s, end(1)))
	send("nt,honest,complete,cookie00,ct0", sealQuiet(r, s, end(1)))
	send("nt,honest,complete,cookie00,nonce0", sealQuiet(r, s, func(_, nonce []byte) bool { return nonce[15] == 0 }))
	send("nt,honest,complete,cookie00,ctfirst0", sealQuiet(r, s, func(cb, _ []byte) bool { return cb[30] == 0 }))
	if deep {
		send("nt,honest,complete,cookie00,ct00", sealQuiet(r, s, end(2)))
	}
}

// foreignLayout assembles an honest request by hand (another client
// implementation): the extension fields in the given order, sealed with
// miscreant directly.  order: 'u' identifier, 'c' cookie, 'p' placeholder, 'x' unknown field.
func foreignLayout(r *lib.Rng, order string, uid []byte, cookies [][]byte, key []byte) *honest {
	b := make([]byte, 48)
	b[0] = 4<<3 | 3
	copy(b[40:], r.Bytes(8))
	fieldOf := func(t uint16, body []byte) []byte {
		body = append(clone(body), make([]byte, pad4(len(body))-len(body))...)
		f := make([]byte, 4, 4+len(body))
		binary.BigEndian.PutUint16(f, t)
		binary.BigEndian.PutUint16(f[2:], uint16(4+len(body)))
		return append(f, body...)
	}
	ci := 0
	var fields []field
	for _, o := range order {
		var f []byte
		switch o {
		case 'u':
			f = fieldOf(0x104, uid)
		case 'c':
			f = fieldOf(0x204, cookies[ci])
			ci++
		case 'p':
			f = fieldOf(0x304, make([]byte, len(cookies[0])))
		default:
			f = fieldOf(0x7701, r.Bytes(12))
		}
		fields = append(fields, field{off: len(b), length: len(f), typ: binary.BigEndian.Uint16(f)})
		b = append(b, f...)
	}
	pos := len(b)
	nonce := r.Bytes(16)
	ct := ownSeal(key, nonce, nil, b)
	body := make([]byte, 4)
	binary.BigEndian.PutUint16(body, 16)
	binary.BigEndian.PutUint16(body[2:], uint16(len(ct)))
	body = append(append(body, nonce...), ct...)
	b = append(b, fieldOf(0x404, body)...)
	fields = append(fields, field{off: pos, length: len(b) - pos, typ: 0x404})
	return &honest{b: b, pos: pos, nonce: nonce, ct: ct, key: key, dir: 0, uid: uid, fields: fields}
}

func extraCases(r *lib.Rng, thorough bool) {
	ls := getLsns()
	realKE(r, ls[0])
	rounds := 2
	if thorough {
		rounds = 8
	}
	var olds []*session // sessions of earlier rounds: their cookies are sealed under older keys
	for round := 0; round < rounds; round++ {
		if round > 0 {
			// a day later: the provider makes a new current key, the older keys stay valid for 3 days
			theProvider.VerifAge(25 * time.Hour)
			theProvider.Current()
		}
		for _, l := range ls {
			if !l.lost {
				l.round(r, thorough, olds, round == 0)
			}
		}
		olds = append(olds, lsnSession(r, 2), lsnSession(r, 1))
	}
	// a request whose last k tag bytes are zero, with those bytes cut off (known finding:
	// the decoder fills them in with zeros): kind srv.trunctag, judged by the strict clause
	for _, l := range ls {
		if l.lost {
			continue
		}
		s := lsnSession(r, 1)
		for _, k := range []int{1, 2} {
			hdr := make([]byte, 48)
			hdr[0] = 4<<3 | 3
			copy(hdr[40:], r.Bytes(8))
			q := zeroTail(r, s, 0, nil, k, hdr)
			kind := l.kind
			l.kind = "srv.trunctag"
			l.srvCase(fmt.Sprintf("nt,mut,trunctag,cut%d", k), []*honest{q}, clone(q.b[:len(q.b)-k]), s)
			l.kind = kind
		}
	}
	// an idle server: more than the validity of a key (72 h) passes without anybody asking
	// the provider; then a key exchange with the real NTS-KE server (the first call of
	// Current() after the gap), whose cookies must open, and requests built from them and
	// from freshly issued cookies, which must be answered
	theProvider.VerifAge(80 * time.Hour)
	realKEn(r, ls[0], 1, ",idle80h")
	for _, l := range ls {
		if !l.lost {
			s := lsnSession(r, 1)
			l.honestAndFollowUp(r, "nt,honest,complete,idle80h", s, lsnRequest(r, s), nil, false)
		}
	}
}

func (l *lsn) round(r *lib.Rng, thorough bool, olds []*session, deep bool) {
	cur := theProvider.Current()
	s := lsnSession(r, 1+r.Intn(8))
	// another client of the same server
	o := lsnSession(r, 1)
	q := lsnRequest(r, s)
	oq := lsnRequest(r, o)
	hs := []*honest{q, oq}
	l.honestAndFollowUp(r, "nt,honest,complete", s, q, []*honest{oq}, false)
	l.honestAndFollowUp(r, "nt,honest,complete", o, oq, []*honest{q}, false)
	nfresh := 40
	if thorough {
		nfresh = 200
	}
	l.freshRequests(r, s, q, nfresh, deep)
	// identifiers of other lengths, several cookies (the first one counts), no placeholders,
	// many placeholders, and requests assembled by hand in another field order
	for _, ul := range []int{36, 64, 33, 48} {
		x := encodeHonest(r, r.Bytes(ul), [][]byte{s.pool[0]}, [][]byte{make([]byte, len(s.pool[0]))}, s.c2s)
		l.srvCase(fmt.Sprintf("nt,honest,complete,uidlen%d", ul), []*honest{x, q}, x.b, s)
	}
	{
		x := encodeHonest(r, r.Bytes(32), [][]byte{s.pool[0], o.pool[0]}, nil, s.c2s)
		l.srvCase("nt,honest,complete,twocookies", []*honest{x, q}, x.b, s)
		// the other client's cookie first: the request is sealed with this client's key, the
		// server takes the C2S key of the first cookie - not accepted
		y := encodeHonest(r, r.Bytes(32), [][]byte{o.pool[0], s.pool[0]}, nil, s.c2s)
		l.srvCase("nt,wrongkey,cookieorder", []*honest{q}, y.b, s)
		z := encodeHonest(r, r.Bytes(32), [][]byte{s.pool[0], s.pool[0], s.pool[0]}, [][]byte{make([]byte, len(s.pool[0])), make([]byte, len(s.pool[0]))}, s.c2s)
		l.srvCase("nt,honest,complete,threecookies", []*honest{z, q}, z.b, s)
	}
	for _, order := range []string{"pcu", "xucp", "cu", "upc", "ucx"} {
		x := foreignLayout(r, order, r.Bytes(32), [][]byte{s.pool[0]}, s.c2s)
		l.srvCase("nt,honest,foreignlayout", []*honest{x, q}, x.b, s)
	}
	// AES-SIV with an empty plaintext never uses the second half of the key: a request
	// sealed under a key that differs from the cookie's C2S key in the second half only is
	// answered.  A known finding, in a kind of its own (srv.ctrhalf); the honest packets
	// in circulation are those of the session's real key, so the strict oracle rejects it.
	{
		k2 := clone(s.c2s)
		k2[len(k2)-1] ^= 1
		x := encodeHonest(r, r.Bytes(32), [][]byte{s.pool[0]}, nil, k2)
		kind := l.kind
		l.kind = "srv.ctrhalf"
		l.srvCase("nt,wrongkey,ctrhalf", []*honest{q}, x.b, &session{s2c: s.s2c, c2s: s.c2s, algo: s.algo, uidOverride: x.uid})
		l.kind = kind
		k3 := clone(s.c2s)
		k3[0] ^= 1
		y := encodeHonest(r, r.Bytes(32), [][]byte{s.pool[0]}, nil, k3)
		l.srvCase("nt,wrongkey,machalf", []*honest{q}, y.b, s)
	}
	// datagrams without NTS: a plain 48-byte request is answered (without NTS), shorter ones are not
	for _, cut := range []int{48, 47, 1, 0} {
		l.srvCase("plain,short", hs, clone(q.b[:cut]), s)
	}
	if l.scion {
		// the same with a valid SCION packet authenticator: honest requests are answered (the
		// reply carries an authenticator too), tampered NTS is not answered although the SPAO is valid
		sq := lsnRequest(r, s)
		l.honestAndFollowUp(r, "nt,honest,complete", s, sq, []*honest{oq}, true)
		for i := 0; i < len(sq.b)*8; i++ {
			if r.Intn(24) != 0 {
				continue
			}
			c := clone(sq.b)
			c[i/8] ^= 1 << (i % 8)
			l.srvCaseOpt(ntTag(sq.region(i/8))+",bit", []*honest{sq, oq}, c, s, true)
		}
		structural(sq, target{dir: 0, key: s.c2s, l: l, sess: s, spao: true}, r)
		l.srvCaseOpt("nt,history,splice", []*honest{sq, oq}, append(clone(sq.b[:sq.pos]), oq.b[oq.pos:]...), s, true)
		l.srvCaseOpt("plain,short", []*honest{sq}, clone(sq.b[:48]), s, true)
	}
	// clients whose cookies were sealed under an older key of the provider: answered
	// while that key is valid (with cookies under the current key), not afterwards
	for _, x := range olds {
		xq := lsnRequest(r, x)
		if _, ok := theProvider.Get(x.keyid); ok {
			l.honestAndFollowUp(r, "nt,honest,complete,oldkey", x, xq, []*honest{q}, false)
		} else {
			l.srvCase("nt,wrongkey,expired", []*honest{q}, xq.b, x)
		}
	}
	// sampled bit flips
	every := 6
	if thorough {
		every = 2
	}
	for i := 0; i < len(q.b)*8; i++ {
		if r.Intn(every) != 0 {
			continue
		}
		c := clone(q.b)
		c[i/8] ^= 1 << (i % 8)
		l.srvCase(ntTag(q.region(i/8))+",bit", hs, c, s)
	}
	// every field type and length, the lengths inside the authenticator, the NTP header,
	// and the structural changes (fields inserted, deleted, swapped, duplicated, the
	// authenticator moved or doubled, truncations, trailing data): the same families the
	// receivers get directly
	t := target{dir: 0, key: s.c2s, l: l, sess: s}
	fieldMutations(q, t, r)
	structural(q, t, r)
	// the cookie of the other client in this client's request, and vice versa: the
	// authenticator was made with the other C2S key
	if len(q.fields) >= 2 && len(oq.fields) >= 2 {
		f, g := q.fields[1], oq.fields[1]
		if f.length == g.length {
			c := clone(q.b)
			copy(c[f.off:f.off+f.length], oq.b[g.off:g.off+g.length])
			l.srvCase("nt,history,cookieswap", hs, c, s)
		}
	}
	// authenticated part of one request with the authenticator of the other
	l.srvCase("nt,history,splice", hs, append(clone(q.b[:q.pos]), oq.b[oq.pos:]...), s)
	l.srvCase("nt,history,splice", hs, append(clone(oq.b[:oq.pos]), q.b[q.pos:]...), s)
	// key id of the cookie changed (no such key)
	c := clone(q.b)
	c[q.fields[1].off+4+4+1] ^= 0x40
	l.srvCase("nt,mut,keyid", hs, c, s)
	// a cookie sealed under a key the server does not have
	bad := &session{master: r.Bytes(32), keyid: cur.ID, c2s: s.c2s, s2c: s.s2c, algo: 15}
	bad.pool = append(bad.pool, bad.freshCookie(r))
	bq := lsnRequest(r, bad)
	l.srvCase("nt,wrongkey,cookie", []*honest{q}, bq.b, s)
	// a well-formed request whose cookie names a key id the server does not have
	// (sealed under the current key): provider.Get fails, no reply
	ghost := &session{master: cur.Value, keyid: cur.ID + 7, c2s: r.Bytes(32), s2c: r.Bytes(32), algo: 15}
	ghost.pool = append(ghost.pool, ghost.freshCookie(r))
	gq := lsnRequest(r, ghost)
	l.srvCase("nt,wrongkey,keyid", []*honest{q}, gq.b, ghost)
	// a request sealed under the S2C key of its own cookie (direction swapped)
	sw := &session{master: cur.Value, keyid: cur.ID, c2s: s.s2c, s2c: s.c2s, algo: 15, pool: s.pool}
	wq := lsnRequest(r, sw)
	l.srvCase("nt,wrongdir", []*honest{q}, wq.b, s)
	// a response handed to the server
	p := s.response(r, q.uid, 1)
	l.srvCase("nt,history,reflect", []*honest{q, p}, p.b, s)
}

// realKE: the real NTS-KE server of this process and the real ntske.Fetcher: the
// cookies the server issues are opened with the harness's own code and the
// provider's key: they must hold the client's exported keys by direction; the
// first request built from them must be answered by the listener.
func realKE(r *lib.Rng, l *lsn) { realKEn(r, l, 3, "") }

func realKEn(r *lib.Rng, l *lsn, n int, tag string) {
	quiet := slog.New(quietHandler{})
	for i := 0; i < n; i++ {
		var f ntske.Fetcher
		f.Log = quiet
		f.TLSConfig.InsecureSkipVerify = true
		f.TLSConfig.ServerName = lsnIP().String()
		f.TLSConfig.MinVersion = tls.VersionTLS13
		f.Port = fmt.Sprint(ntske.ServerPortIP)
		ctx, cancel := context.WithTimeout(context.Background(), 20*time.Second)
		data, err := f.FetchData(ctx)
		cancel()
		if err != nil {
			panic(fmt.Sprintf("c10: key exchange with the real NTS-KE server failed: %v", err))
		}
		all := data.Cookie // FetchData returns all cookies it holds (and keeps all but the first)
		keys, keymap := keyTable()
		var ents, obs []string
		for _, cb := range all {
			var ec ntske.EncryptedServerCookie
			if ec.Decode(cb) == nil {
				if k, ok := keymap[int(ec.ID)]; ok && len(ec.Nonce) == 16 {
					ents = append(ents, openEntry(k, ec.Nonce, nil, true, ec.Ciphertext))
				}
			}
			c, ok := ownOpenCookie(cb, keymap)
			if !ok {
				obs = append(obs, lib.L("1", "0", "x", "x"))
			} else {
				obs = append(obs, lib.L("0", lib.I(int64(c.algo)), lib.B(c.s2c), lib.B(c.c2s)))
			}
		}
		w.Case("ke.real", "nt,honest,complete,realke"+tag,
			lib.V(lib.B(data.C2sKey), lib.B(data.S2cKey), BL(all), keys, tab(ents...)),
			lib.V(lib.I(int64(data.Algo)), lib.Bool(data.Server == lsnIP().String() && int(data.Port) == lsnPort), lib.L(obs...)))
		s := &session{c2s: data.C2sKey, s2c: data.S2cKey, algo: data.Algo, pool: all}
		q := lsnRequest(r, s)
		l.honestAndFollowUp(r, "nt,honest,complete,realke"+tag, s, q, nil, false)
	}
}

func replayExtra(c [3]string) {
	if c[0] == "cl.ip" || c[0] == "cl.scion" {
		replayClient()
		return
	}
	if c[0] != "srv.ip" && c[0] != "srv.scion" && c[0] != "srv.ctrhalf" && c[0] != "srv.trunctag" && c[0] != "ke.real" {
		return
	}
	// the listeners have their own fresh server key: a recorded datagram cannot be
	// replayed byte for byte; re-run the generator for these kinds instead
	if theLsns == nil {
		extraCases(lib.NewRng(1), false)
	}
}
