package main

// The real listeners (server.StartIPServer and server.StartSCIONServer with one
// real ntske.Provider) on a loopback address of this process.  Honest NTS
// requests are built exactly as the client does (cookie sealed under a key of
// the provider, NewRequestPacket, EncodePacket) and delivered unchanged and
// mutated, to the IP listener as UDP payload (kind srv.ip) and to the SCION
// listener inside a SCION/UDP packet (kind srv.scion); "no reply" is decided by
// a plain 48-byte sentinel request sent afterwards from the same socket (the
// listener goroutine that owns this 4-tuple answers in order).  A sentinel that
// goes unanswered is a failing case and ends the run with a non-zero status.
//
// Every reply is verified as the client does (DecodePacket + ProcessResponse
// under the session's S2C key with the identifier of the request); every
// cookie it carries is opened with the provider's key (Get + Decrypt) and must
// name the provider's current key and yield exactly the session's algorithm and
// keys; after an accepted honest request a follow-up request that uses one of
// the re-issued cookies is sent and must be accepted as well.

import (
	"bytes"
	"context"
	"encoding/binary"
	"fmt"
	"log/slog"
	"net"
	"os"
	"sync"
	"time"

	"github.com/google/gopacket"
	"github.com/scionproto/scion/pkg/addr"
	"github.com/scionproto/scion/pkg/slayers"
	"github.com/scionproto/scion/pkg/slayers/path/empty"

	"example.com/scion-time/core/server"
	"example.com/scion-time/core/timebase"
	"example.com/scion-time/net/nts"
	"example.com/scion-time/net/ntske"

	"verifharness/lib"
)

type sysClock struct{}

func (sysClock) Epoch() uint64                                    { return 0 }
func (sysClock) Now() time.Time                                   { return time.Now().UTC() }
func (sysClock) Drift(d time.Duration) time.Duration              { return 0 }
func (sysClock) Step(offset time.Duration)                        {}
func (sysClock) Adjust(offset, duration time.Duration, f float64) {}
func (sysClock) Sleep(d time.Duration)                            { time.Sleep(d) }

const (
	lsnPort      = 21010
	scionPort    = 21011
	scionUDPSrc  = 40123
	sentinelSecs = 0x5E471E10
	srvIA        = 0x0001ff0000000112
	cliIA        = 0x0001ff0000000111
)

type lsn struct {
	kind  string // "srv.ip" or "srv.scion"
	scion bool
	dst   *net.UDPAddr
	conn  *net.UDPConn
	srcIP net.IP
	dstIP net.IP
	seq   uint32
	lost  bool
}

var clockOnce sync.Once

func registerClock() { clockOnce.Do(func() { timebase.RegisterClock(sysClock{}) }) }

var (
	theProvider *ntske.Provider
	theLsns     []*lsn
	// a sentinel went unanswered somewhere: the run fails (see main)
	sentinelLost bool
)

func lsnIP() net.IP {
	pid := os.Getpid()
	return net.IPv4(127, 10, byte(pid>>8), byte(pid))
}

func getLsns() []*lsn {
	if theLsns != nil {
		return theLsns
	}
	registerClock()
	setTape()
	theProvider = ntske.NewProvider()
	ip := lsnIP()
	log := slog.New(slog.DiscardHandler)
	ipDst := &net.UDPAddr{IP: ip, Port: lsnPort}
	server.StartIPServer(context.Background(), log, ipDst, 0, theProvider)
	scDst := &net.UDPAddr{IP: ip, Port: scionPort}
	server.StartSCIONServer(context.Background(), log, "" /* no daemon */, scDst, 0, theProvider)
	for _, sc := range []bool{false, true} {
		c, err := net.ListenUDP("udp4", &net.UDPAddr{IP: ip, Port: 0})
		if err != nil {
			panic(err)
		}
		c.SetReadBuffer(1 << 20)
		l := &lsn{kind: "srv.ip", dst: ipDst, conn: c, srcIP: ip.To4(), dstIP: ip.To4()}
		if sc {
			l.kind, l.scion, l.dst = "srv.scion", true, scDst
		}
		theLsns = append(theLsns, l)
	}
	return theLsns
}

// ---- SCION/UDP encapsulation (empty path: client and server in one AS) ----

func (l *lsn) wrap(payload []byte) []byte {
	if !l.scion {
		return payload
	}
	var scn slayers.SCION
	scn.FlowID = 1
	scn.NextHdr = slayers.L4UDP
	scn.PathType = empty.PathType
	scn.Path = empty.Path{}
	scn.DstIA, scn.SrcIA = addr.IA(srvIA), addr.IA(cliIA)
	scn.DstAddrType, scn.SrcAddrType = slayers.T4Ip, slayers.T4Ip
	scn.RawDstAddr, scn.RawSrcAddr = []byte(l.dstIP), []byte(l.srcIP)
	var udp slayers.UDP
	udp.SrcPort, udp.DstPort = scionUDPSrc, scionPort
	udp.SetNetworkLayerForChecksum(&scn)
	sb := gopacket.NewSerializeBuffer()
	err := gopacket.SerializeLayers(sb, gopacket.SerializeOptions{ComputeChecksums: true, FixLengths: true},
		&scn, &udp, gopacket.Payload(payload))
	if err != nil {
		panic(err)
	}
	return append([]byte(nil), sb.Bytes()...)
}

// unwrap returns the NTP/NTS payload of a datagram received from the listener;
// for SCION the reply must be a SCION/UDP packet back to the requester.
func (l *lsn) unwrap(d []byte) (payload []byte, ok bool) {
	if !l.scion {
		return d, true
	}
	defer func() {
		if recover() != nil {
			payload, ok = nil, false
		}
	}()
	var scn slayers.SCION
	if err := scn.DecodeFromBytes(d, gopacket.NilDecodeFeedback); err != nil {
		return nil, false
	}
	if scn.NextHdr != slayers.L4UDP || scn.DstIA != addr.IA(cliIA) || scn.SrcIA != addr.IA(srvIA) ||
		!bytes.Equal(scn.RawDstAddr, l.srcIP) || !bytes.Equal(scn.RawSrcAddr, l.dstIP) {
		return nil, false
	}
	var udp slayers.UDP
	if err := udp.DecodeFromBytes(scn.Payload, gopacket.NilDecodeFeedback); err != nil {
		return nil, false
	}
	if udp.SrcPort != scionPort || udp.DstPort != scionUDPSrc {
		return nil, false
	}
	return append([]byte(nil), udp.Payload...), true
}

// probe sends pkt, then a sentinel, and returns the payloads of the datagrams
// received before the sentinel's answer; ok = false: the sentinel was lost.
func (l *lsn) probe(pkt []byte) (replies [][]byte, ok bool) {
	l.seq++
	s := make([]byte, 48)
	s[0] = 4<<3 | 3
	binary.BigEndian.PutUint32(s[40:], sentinelSecs)
	binary.BigEndian.PutUint32(s[44:], l.seq)
	if _, err := l.conn.WriteToUDP(l.wrap(pkt), l.dst); err != nil {
		panic(err)
	}
	ws := l.wrap(s)
	buf := make([]byte, 4096)
	deadline := time.Now().Add(30 * time.Second)
	for attempt := 0; attempt < 3; attempt++ {
		if _, err := l.conn.WriteToUDP(ws, l.dst); err != nil {
			panic(err)
		}
		l.conn.SetReadDeadline(time.Now().Add(10 * time.Second))
		for {
			n, _, err := l.conn.ReadFromUDP(buf)
			if err != nil {
				break
			}
			d, good := l.unwrap(append([]byte(nil), buf[:n]...))
			if !good {
				// not a well-formed reply: counts as a reply that cannot verify
				replies = append(replies, []byte{})
				continue
			}
			if len(d) == 48 && binary.BigEndian.Uint32(d[24:]) == sentinelSecs && binary.BigEndian.Uint32(d[28:]) == l.seq {
				return replies, true
			}
			if len(d) == 48 && binary.BigEndian.Uint32(d[24:]) == sentinelSecs {
				continue // answer to an earlier (repeated) sentinel
			}
			replies = append(replies, d)
		}
		if time.Now().After(deadline) {
			break
		}
	}
	return replies, false
}

func providerKeys() string {
	cur := theProvider.Current()
	var ks []string
	for id := 1; id <= cur.ID; id++ {
		if k, ok := theProvider.Get(id); ok {
			ks = append(ks, lib.L(lib.I(int64(k.ID)), lib.B(k.Value)))
		}
	}
	return lib.L(ks...)
}

// reissuedOK opens every cookie of an accepted reply with the provider's key:
// each must name the provider's current key, open under it and yield exactly
// the session's algorithm and keys.
func reissuedOK(cookies [][]byte, s *session) bool {
	if len(cookies) == 0 {
		return false
	}
	cur := theProvider.Current()
	for _, cb := range cookies {
		var ec ntske.EncryptedServerCookie
		if ec.Decode(cb) != nil || int(ec.ID) != cur.ID {
			return false
		}
		key, ok := theProvider.Get(int(ec.ID))
		if !ok {
			return false
		}
		sc, err := ec.Decrypt(key.Value)
		if err != nil || sc.Algo != s.algo || !bytes.Equal(sc.S2C, s.s2c) || !bytes.Equal(sc.C2S, s.c2s) {
			return false
		}
	}
	return true
}

// srvCase delivers b to the listener and records the case.  hs are the honest
// requests in circulation; s is the session whose S2C key and identifier verify
// the reply.  It returns the cookies of a reply that verified.
func (l *lsn) srvCase(tags string, hs []*honest, b []byte, s *session) (reissued [][]byte) {
	if l.lost || len(b) <= 48 {
		// 48 bytes or fewer: not an NTS packet (plain NTP is answered unauthenticated; C09)
		return nil
	}
	// AEAD answers for the model, computed through the real decoding steps
	var ents []string
	func() {
		defer func() { recover() }()
		var pkt nts.Packet
		if nts.DecodePacket(&pkt, b) != nil {
			return
		}
		cb, err := pkt.FirstCookie()
		if err != nil {
			return
		}
		var ec ntske.EncryptedServerCookie
		if ec.Decode(cb) != nil {
			return
		}
		key, ok := theProvider.Get(int(ec.ID))
		if !ok || len(ec.Nonce) != 16 {
			return
		}
		ents = append(ents, openEntry(key.Value, ec.Nonce, nil, true, ec.Ciphertext))
		sc, err := ec.Decrypt(key.Value)
		if err != nil {
			return
		}
		pos := authPos(&pkt)
		if keyOK(sc.C2S) && len(pkt.Auth.Nonce) == 16 && pos <= len(b) {
			ents = append(ents, openEntry(sc.C2S, pkt.Auth.Nonce, b[:pos], false, pkt.Auth.CipherText))
		}
	}()
	keys := providerKeys()
	args := lib.V(HL(hs), lib.B(b), keys, tab(ents...))
	replies, ok := l.probe(b)
	if !ok {
		// the listener stopped answering: a failing case, and the run fails
		l.lost, sentinelLost = true, true
		fmt.Printf("NOTE c10: a sentinel request to the %s listener went unanswered; the case in flight is recorded as failing and the run exits non-zero\n", l.kind)
		w.Case(l.kind, tags+",lost", args, "-1 0 0")
		return nil
	}
	replied, verified, cookiesOK := 0, 0, 0
	if len(replies) > 0 {
		replied = 1
		// the reply must verify at the client: S2C key, identifier of the request
		var uid []byte
		for _, h := range hs {
			if h.dir == 0 {
				uid = h.uid
				break
			}
		}
		func() {
			defer func() { recover() }()
			var rp nts.Packet
			var f ntske.Fetcher
			if len(replies) == 1 && nts.DecodePacket(&rp, replies[0]) == nil &&
				nts.ProcessResponse(replies[0], s.s2c, &f, &rp, uid) == nil && len(rp.Cookies) >= 1 {
				verified = 1
				var cs [][]byte
				for _, c := range rp.Cookies {
					cs = append(cs, c.Cookie)
				}
				// what the client keeps is what the reply carried
				if st := f.VerifData().Cookie; len(st) == len(cs) && reissuedOK(st, s) {
					cookiesOK = 1
					reissued = cs
				}
			}
		}()
	}
	w.Case(l.kind, tags, args, lib.V(lib.I(int64(replied)), lib.I(int64(verified)), lib.I(int64(cookiesOK))))
	return reissued
}

// lsnRequest builds a request of session x exactly as the client does.
func lsnRequest(r *lib.Rng, x *session) *honest {
	uid := r.Bytes(32)
	setTape(uid)
	pkt, id := nts.NewRequestPacket(ntske.Data{C2sKey: x.c2s, S2cKey: x.s2c, Cookie: x.pool})
	setTape()
	var cs, phs [][]byte
	for _, c := range pkt.Cookies {
		cs = append(cs, c.Cookie)
	}
	for _, c := range pkt.CookiePlaceholders {
		phs = append(phs, c.Cookie)
	}
	hdr := make([]byte, 48)
	hdr[0] = 4<<3 | 3
	copy(hdr[40:], r.Bytes(8))
	nonce := r.Bytes(16)
	out, fields, pos, ct := encodeCase("honest", hdr, id, cs, phs, pkt.Auth.Key, pkt.Auth.PlainText, nonce, false)
	return &honest{b: out, pos: pos, nonce: nonce, ct: ct, key: x.c2s, dir: 0, uid: id, fields: fields}
}

// honestAndFollowUp sends an honest request of s; when it is answered, a
// follow-up request that uses one of the re-issued cookies must be answered too.
func (l *lsn) honestAndFollowUp(r *lib.Rng, tags string, s *session, q *honest, others []*honest) {
	re := l.srvCase(tags, append([]*honest{q}, others...), q.b, s)
	if len(re) == 0 {
		return
	}
	f := &session{c2s: s.c2s, s2c: s.s2c, algo: s.algo, pool: [][]byte{re[r.Intn(len(re))]}}
	fq := lsnRequest(r, f)
	l.srvCase("nt,honest,complete,followup", append([]*honest{fq}, others...), fq.b, f)
}

func lsnSession(r *lib.Rng, n int) *session {
	cur := theProvider.Current()
	s := &session{master: cur.Value, keyid: cur.ID, c2s: r.Bytes(32), s2c: r.Bytes(32), algo: 15}
	if r.Intn(4) == 0 {
		s.c2s, s.s2c = r.Bytes(64), r.Bytes(64)
	}
	for i := 0; i < n; i++ {
		s.pool = append(s.pool, s.freshCookie(r))
	}
	return s
}

// sealQuiet seals a cookie of session s with the project's own code
// (EncryptWithNonce + Encode) without recording a case, with fresh nonces until
// want holds for the cookie bytes and the nonce.
func sealQuiet(r *lib.Rng, s *session, want func(cb, nonce []byte) bool) []byte {
	sc := ntske.ServerCookie{Algo: s.algo, S2C: s.s2c, C2S: s.c2s}
	// the length of the search depends on the server key: it must not move r's stream
	r = lib.NewRng(r.U64())
	for try := 0; try < 1<<22; try++ {
		nonce := r.Bytes(16)
		setTape(nonce)
		ec, err := sc.EncryptWithNonce(s.master, s.keyid)
		setTape()
		if err != nil {
			panic(err)
		}
		cb := ec.Encode()
		if want == nil || want(cb, nonce) {
			return cb
		}
	}
	panic("no cookie of the wanted shape found")
}

// freshRequests: honest requests of clients that share the keys of s, each with a
// freshly sealed cookie (fresh nonce, so fresh ciphertext), and cookies whose
// ciphertext / nonce end in zero bytes: every one must be answered.
func (l *lsn) freshRequests(r *lib.Rng, s *session, q *honest, n int, deep bool) {
	send := func(tags string, cb []byte) {
		x := &session{master: s.master, keyid: s.keyid, c2s: s.c2s, s2c: s.s2c, algo: s.algo, pool: [][]byte{cb}}
		xq := lsnRequest(r, x)
		l.srvCase(tags, []*honest{xq, q}, xq.b, x)
	}
	for i := 0; i < n; i++ {
		send("nt,honest,complete,fresh", sealQuiet(r, s, nil))
	}
	end := func(k int) func(cb, nonce []byte) bool {
		return func(cb, _ []byte) bool {
			for _, x := range cb[len(cb)-k:] {
				if x != 0 {
					return false
				}
			}
			return true
		}
	}
	send("nt,honest,complete,cookie00,ct0", sealQuiet(r, s, end(1)))
	send("nt,honest,complete,cookie00,ct0", sealQuiet(r, s, end(1)))
	send("nt,honest,complete,cookie00,nonce0", sealQuiet(r, s, func(_, nonce []byte) bool { return nonce[15] == 0 }))
	send("nt,honest,complete,cookie00,ctfirst0", sealQuiet(r, s, func(cb, _ []byte) bool { return cb[30] == 0 }))
	if deep {
		send("nt,honest,complete,cookie00,ct00", sealQuiet(r, s, end(2)))
	}
}

func extraCases(r *lib.Rng, thorough bool) {
	ls := getLsns()
	rounds := 2
	if thorough {
		rounds = 8
	}
	var olds []*session // sessions of earlier rounds: their cookies are sealed under older keys
	for round := 0; round < rounds; round++ {
		if round > 0 {
			// a day later: the provider makes a new current key, the older keys stay valid for 3 days
			theProvider.VerifAge(25 * time.Hour)
			theProvider.Current()
		}
		for _, l := range ls {
			if !l.lost {
				l.round(r, thorough, olds, round == 0)
			}
		}
		olds = append(olds, lsnSession(r, 2), lsnSession(r, 1))
	}
}

func (l *lsn) round(r *lib.Rng, thorough bool, olds []*session, deep bool) {
	cur := theProvider.Current()
	s := lsnSession(r, 1+r.Intn(8))
	// another client of the same server
	o := lsnSession(r, 1)
	q := lsnRequest(r, s)
	oq := lsnRequest(r, o)
	hs := []*honest{q, oq}
	l.honestAndFollowUp(r, "nt,honest,complete", s, q, []*honest{oq})
	l.honestAndFollowUp(r, "nt,honest,complete", o, oq, []*honest{q})
	nfresh := 40
	if thorough {
		nfresh = 200
	}
	l.freshRequests(r, s, q, nfresh, deep)
	// clients whose cookies were sealed under an older key of the provider: answered
	// while that key is valid (with cookies under the current key), not afterwards
	for _, x := range olds {
		xq := lsnRequest(r, x)
		if _, ok := theProvider.Get(x.keyid); ok {
			l.honestAndFollowUp(r, "nt,honest,complete,oldkey", x, xq, []*honest{q})
		} else {
			l.srvCase("nt,wrongkey,expired", []*honest{q}, xq.b, x)
		}
	}
	// sampled bit flips
	every := 6
	if thorough {
		every = 2
	}
	for i := 0; i < len(q.b)*8; i++ {
		if r.Intn(every) != 0 {
			continue
		}
		c := clone(q.b)
		c[i/8] ^= 1 << (i % 8)
		l.srvCase(ntTag(q.region(i/8))+",bit", hs, c, s)
	}
	// every field type and length, the lengths inside the authenticator, the NTP header,
	// and the structural changes (fields inserted, deleted, swapped, duplicated, the
	// authenticator moved or doubled, truncations, trailing data): the same families the
	// receivers get directly
	t := target{dir: 0, key: s.c2s, l: l, sess: s}
	fieldMutations(q, t, r)
	structural(q, t, r)
	// the cookie of the other client in this client's request, and vice versa: the
	// authenticator was made with the other C2S key
	if len(q.fields) >= 2 && len(oq.fields) >= 2 {
		f, g := q.fields[1], oq.fields[1]
		if f.length == g.length {
			c := clone(q.b)
			copy(c[f.off:f.off+f.length], oq.b[g.off:g.off+g.length])
			l.srvCase("nt,history,cookieswap", hs, c, s)
		}
	}
	// authenticated part of one request with the authenticator of the other
	l.srvCase("nt,history,splice", hs, append(clone(q.b[:q.pos]), oq.b[oq.pos:]...), s)
	l.srvCase("nt,history,splice", hs, append(clone(oq.b[:oq.pos]), q.b[q.pos:]...), s)
	// key id of the cookie changed (no such key)
	c := clone(q.b)
	c[q.fields[1].off+4+4+1] ^= 0x40
	l.srvCase("nt,mut,keyid", hs, c, s)
	// a cookie sealed under a key the server does not have
	bad := &session{master: r.Bytes(32), keyid: cur.ID, c2s: s.c2s, s2c: s.s2c, algo: 15}
	bad.pool = append(bad.pool, bad.freshCookie(r))
	bq := lsnRequest(r, bad)
	l.srvCase("nt,wrongkey,cookie", []*honest{q}, bq.b, s)
	// a well-formed request whose cookie names a key id the server does not have
	// (sealed under the current key): provider.Get fails, no reply
	ghost := &session{master: cur.Value, keyid: cur.ID + 7, c2s: r.Bytes(32), s2c: r.Bytes(32), algo: 15}
	ghost.pool = append(ghost.pool, ghost.freshCookie(r))
	gq := lsnRequest(r, ghost)
	l.srvCase("nt,wrongkey,keyid", []*honest{q}, gq.b, ghost)
	// a request sealed under the S2C key of its own cookie (direction swapped)
	sw := &session{master: cur.Value, keyid: cur.ID, c2s: s.s2c, s2c: s.c2s, algo: 15, pool: s.pool}
	wq := lsnRequest(r, sw)
	l.srvCase("nt,wrongdir", []*honest{q}, wq.b, s)
	// a response handed to the server
	p := s.response(r, q.uid, 1)
	l.srvCase("nt,history,reflect", []*honest{q, p}, p.b, s)
}

func replayExtra(c [3]string) {
	if c[0] == "cl.ip" {
		replayClient()
		return
	}
	if c[0] != "srv.ip" && c[0] != "srv.scion" {
		return
	}
	// the listeners have their own fresh server key: a recorded datagram cannot be
	// replayed byte for byte; re-run the generator for these kinds instead
	if theLsns == nil {
		extraCases(lib.NewRng(1), false)
	}
}
