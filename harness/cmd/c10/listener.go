package main

// The real IP listener (server.StartIPServer with a real ntske.Provider) on a
// loopback address of this process.  Honest NTS requests are built exactly as
// the client does (cookie sealed under provider.Current(), NewRequestPacket,
// EncodePacket) and delivered unchanged and mutated; "no reply" is decided by a
// plain 48-byte sentinel request sent afterwards from the same socket (the
// listener goroutine that owns this 4-tuple answers in order).

import (
	"context"
	"encoding/binary"
	"fmt"
	"log/slog"
	"net"
	"os"
	"time"

	"example.com/scion-time/core/server"
	"example.com/scion-time/core/timebase"
	"example.com/scion-time/net/nts"
	"example.com/scion-time/net/ntske"

	"verifharness/lib"
)

type sysClock struct{}

func (sysClock) Epoch() uint64                                    { return 0 }
func (sysClock) Now() time.Time                                   { return time.Now().UTC() }
func (sysClock) Drift(d time.Duration) time.Duration              { return 0 }
func (sysClock) Step(offset time.Duration)                        {}
func (sysClock) Adjust(offset, duration time.Duration, f float64) {}
func (sysClock) Sleep(d time.Duration)                            { time.Sleep(d) }

const (
	lsnPort      = 21010
	sentinelSecs = 0x5E471E10
)

type lsn struct {
	provider *ntske.Provider
	dst      *net.UDPAddr
	conn     *net.UDPConn
	seq      uint32
	lost     bool
}

var theLsn *lsn

func getLsn() *lsn {
	if theLsn != nil {
		return theLsn
	}
	l := &lsn{}
	timebase.RegisterClock(sysClock{})
	setTape()
	l.provider = ntske.NewProvider()
	pid := os.Getpid()
	ip := net.IPv4(127, 10, byte(pid>>8), byte(pid))
	l.dst = &net.UDPAddr{IP: ip, Port: lsnPort}
	server.StartIPServer(context.Background(), slog.New(slog.DiscardHandler), l.dst, 0, l.provider)
	c, err := net.ListenUDP("udp4", &net.UDPAddr{IP: ip, Port: 0})
	if err != nil {
		panic(err)
	}
	c.SetReadBuffer(1 << 20)
	l.conn = c
	theLsn = l
	return l
}

// probe sends pkt, then a sentinel, and returns the datagrams received before
// the sentinel's answer.
func (l *lsn) probe(pkt []byte) (replies [][]byte) {
	if l.lost {
		return nil
	}
	l.seq++
	s := make([]byte, 48)
	s[0] = 4<<3 | 3
	binary.BigEndian.PutUint32(s[40:], sentinelSecs)
	binary.BigEndian.PutUint32(s[44:], l.seq)
	if _, err := l.conn.WriteToUDP(pkt, l.dst); err != nil {
		panic(err)
	}
	buf := make([]byte, 4096)
	deadline := time.Now().Add(30 * time.Second)
	for attempt := 0; attempt < 3; attempt++ {
		if _, err := l.conn.WriteToUDP(s, l.dst); err != nil {
			panic(err)
		}
		l.conn.SetReadDeadline(time.Now().Add(10 * time.Second))
		for {
			n, _, err := l.conn.ReadFromUDP(buf)
			if err != nil {
				break
			}
			d := append([]byte(nil), buf[:n]...)
			if n == 48 && binary.BigEndian.Uint32(d[24:]) == sentinelSecs && binary.BigEndian.Uint32(d[28:]) == l.seq {
				return replies
			}
			if n == 48 && binary.BigEndian.Uint32(d[24:]) == sentinelSecs {
				continue // answer to an earlier (repeated) sentinel
			}
			replies = append(replies, d)
		}
		if time.Now().After(deadline) {
			break
		}
	}
	l.lost = true
	fmt.Println("NOTE c10: a sentinel request to the IP listener went unanswered; listener cases stopped")
	return replies
}

// srvCase delivers b to the listener and records the case.  h is the honest
// request b was derived from; s its session (S2C key and identifier verify the reply).
func (l *lsn) srvCase(tags string, hs []*honest, b []byte, s2c []byte) {
	if l.lost {
		return
	}
	// AEAD answers for the model, computed through the real decoding steps
	var ents []string
	func() {
		defer func() { recover() }()
		var pkt nts.Packet
		if nts.DecodePacket(&pkt, b) != nil {
			return
		}
		cb, err := pkt.FirstCookie()
		if err != nil {
			return
		}
		var ec ntske.EncryptedServerCookie
		if ec.Decode(cb) != nil {
			return
		}
		key, ok := l.provider.Get(int(ec.ID))
		if !ok || len(ec.Nonce) != 16 {
			return
		}
		ents = append(ents, openEntry(key.Value, ec.Nonce, nil, true, ec.Ciphertext))
		sc, err := ec.Decrypt(key.Value)
		if err != nil {
			return
		}
		pos := authPos(&pkt)
		if keyOK(sc.C2S) && len(pkt.Auth.Nonce) == 16 && pos <= len(b) {
			ents = append(ents, openEntry(sc.C2S, pkt.Auth.Nonce, b[:pos], false, pkt.Auth.CipherText))
		}
	}()
	cur := l.provider.Current()
	keys := lib.L(lib.L(lib.I(int64(cur.ID)), lib.B(cur.Value)))
	replies := l.probe(b)
	if l.lost {
		return
	}
	replied, verified := 0, 0
	if len(replies) > 0 {
		replied = 1
		// the reply must verify at the client: S2C key, identifier of the request
		var uid []byte
		for _, h := range hs {
			if h.dir == 0 {
				uid = h.uid
				break
			}
		}
		func() {
			defer func() { recover() }()
			var rp nts.Packet
			var f ntske.Fetcher
			if len(replies) == 1 && nts.DecodePacket(&rp, replies[0]) == nil &&
				nts.ProcessResponse(replies[0], s2c, &f, &rp, uid) == nil && len(rp.Cookies) >= 1 {
				verified = 1
			}
		}()
	}
	w.Case("srv.ip", tags, lib.V(HL(hs), lib.B(b), keys, tab(ents...)), lib.V(lib.I(int64(replied)), lib.I(int64(verified))))
}

func extraCases(r *lib.Rng, thorough bool) {
	l := getLsn()
	rounds := 2
	if thorough {
		rounds = 8
	}
	for round := 0; round < rounds && !l.lost; round++ {
		cur := l.provider.Current()
		s := &session{master: cur.Value, keyid: cur.ID, c2s: r.Bytes(32), s2c: r.Bytes(32), algo: 15}
		if r.Intn(4) == 0 {
			s.c2s, s.s2c = r.Bytes(64), r.Bytes(64)
		}
		n := 1 + r.Intn(8)
		for i := 0; i < n; i++ {
			s.pool = append(s.pool, s.freshCookie(r))
		}
		// another client of the same server
		o := &session{master: cur.Value, keyid: cur.ID, c2s: r.Bytes(32), s2c: r.Bytes(32), algo: 15}
		o.pool = append(o.pool, o.freshCookie(r))
		mk := func(x *session) *honest {
			uid := r.Bytes(32)
			setTape(uid)
			pkt, id := nts.NewRequestPacket(ntske.Data{C2sKey: x.c2s, S2cKey: x.s2c, Cookie: x.pool})
			setTape()
			var cs, phs [][]byte
			for _, c := range pkt.Cookies {
				cs = append(cs, c.Cookie)
			}
			for _, c := range pkt.CookiePlaceholders {
				phs = append(phs, c.Cookie)
			}
			hdr := make([]byte, 48)
			hdr[0] = 4<<3 | 3
			copy(hdr[40:], r.Bytes(8))
			nonce := r.Bytes(16)
			out, fields, pos, ct := encodeCase("honest", hdr, id, cs, phs, pkt.Auth.Key, pkt.Auth.PlainText, nonce, false)
			return &honest{b: out, pos: pos, nonce: nonce, ct: ct, key: x.c2s, dir: 0, uid: id, fields: fields}
		}
		q := mk(s)
		oq := mk(o)
		hs := []*honest{q, oq}
		l.srvCase("nt,honest,complete", hs, q.b, s.s2c)
		l.srvCase("nt,honest,complete", []*honest{oq, q}, oq.b, o.s2c)
		// every field mutation, sampled bit flips, structure
		every := 6
		if thorough {
			every = 2
		}
		for i := 0; i < len(q.b)*8; i++ {
			if r.Intn(every) != 0 {
				continue
			}
			c := clone(q.b)
			c[i/8] ^= 1 << (i % 8)
			l.srvCase(ntTag(q.region(i/8))+",bit", hs, c, s.s2c)
		}
		for fi, f := range q.fields {
			for _, ty := range []uint16{0x104, 0x204, 0x304, 0x404, 0} {
				if ty != f.typ {
					l.srvCase("nt,mut,ftype", hs, put16(q.b, f.off, ty), s.s2c)
				}
			}
			for _, ln := range []int{0, 3, 4, f.length - 4, f.length + 4, f.length + 1, 0xffff} {
				if ln >= 0 && ln != f.length {
					tg := "nt,mut,flen"
					if fi == len(q.fields)-1 {
						tg = "mut,authextlen"
					}
					l.srvCase(tg, hs, put16(q.b, f.off+2, uint16(ln)), s.s2c)
				}
			}
		}
		for _, nl := range []int{0, 15, 17, 32} {
			l.srvCase("nt,mut,noncelen", hs, put16(q.b, q.pos+4, uint16(nl)), s.s2c)
		}
		for _, cl := range []int{0, 15, 17, 20, 32} {
			l.srvCase("nt,mut,ctlen", hs, put16(q.b, q.pos+6, uint16(cl)), s.s2c)
		}
		// the cookie of the other client in this client's request, and vice versa: the
		// authenticator was made with the other C2S key
		if len(q.fields) >= 2 && len(oq.fields) >= 2 {
			f, g := q.fields[1], oq.fields[1]
			if f.length == g.length {
				c := clone(q.b)
				copy(c[f.off:f.off+f.length], oq.b[g.off:g.off+g.length])
				l.srvCase("nt,history,cookieswap", hs, c, s.s2c)
			}
		}
		// authenticated part of one request with the authenticator of the other
		l.srvCase("nt,history,splice", hs, append(clone(q.b[:q.pos]), oq.b[oq.pos:]...), s.s2c)
		l.srvCase("nt,history,splice", hs, append(clone(oq.b[:oq.pos]), q.b[q.pos:]...), s.s2c)
		// key id of the cookie changed (no such key), truncations, trailing bytes
		c := clone(q.b)
		c[q.fields[1].off+4+4+1] ^= 0x40
		l.srvCase("nt,mut,keyid", hs, c, s.s2c)
		for _, cut := range []int{49, 76, q.pos, q.pos + 27, q.pos + 28, len(q.b) - 1, len(q.b) - 4} {
			l.srvCase("nt,mut,trunc", hs, clone(q.b[:cut]), s.s2c)
		}
		l.srvCase("mut,tail,append", hs, append(clone(q.b), r.Bytes(8)...), s.s2c)
		// a cookie sealed under a key the server does not have
		bad := &session{master: r.Bytes(32), keyid: cur.ID, c2s: s.c2s, s2c: s.s2c, algo: 15}
		bad.pool = append(bad.pool, bad.freshCookie(r))
		bq := mk(bad)
		l.srvCase("nt,wrongkey,cookie", []*honest{q}, bq.b, s.s2c)
		// a well-formed request whose cookie names a key id the server does not have
		// (sealed under the current key): provider.Get fails, no reply
		ghost := &session{master: cur.Value, keyid: cur.ID + 7, c2s: r.Bytes(32), s2c: r.Bytes(32), algo: 15}
		ghost.pool = append(ghost.pool, ghost.freshCookie(r))
		gq := mk(ghost)
		l.srvCase("nt,wrongkey,keyid", []*honest{q}, gq.b, ghost.s2c)
		// a response handed to the server
		p := s.response(r, q.uid, 1)
		l.srvCase("nt,history,reflect", []*honest{q, p}, p.b, s.s2c)
	}
}

func replayExtra(c [3]string) {
	if c[0] != "srv.ip" {
		return
	}
	// the listener has its own fresh server key: a recorded datagram cannot be
	// replayed byte for byte; re-run the generator for this kind instead
	if theLsn == nil {
		extraCases(lib.NewRng(1), false)
	}
}
