package main

import (
	"crypto/ecdsa"
	"crypto/elliptic"
	"crypto/tls"
	"crypto/x509"
	"crypto/x509/pkix"
	"math/big"
	"net"
	"time"

	"example.com/scion-time/net/ntske"

	"verifharness/lib"
)

var tlsCert *tls.Certificate

func selfSigned() tls.Certificate {
	if tlsCert != nil {
		return *tlsCert
	}
	key, err := ecdsa.GenerateKey(elliptic.P256(), tape)
	if err != nil {
		panic(err)
	}
	tmpl := x509.Certificate{
		SerialNumber: big.NewInt(10),
		Subject:      pkix.Name{CommonName: "c10.test"},
		NotBefore:    time.Now().Add(-time.Hour),
		NotAfter:     time.Now().Add(24 * time.Hour),
		KeyUsage:     x509.KeyUsageDigitalSignature,
		ExtKeyUsage:  []x509.ExtKeyUsage{x509.ExtKeyUsageServerAuth},
		DNSNames:     []string{"c10.test"},
	}
	der, err := x509.CreateCertificate(tape, &tmpl, &tmpl, &key.PublicKey, key)
	if err != nil {
		panic(err)
	}
	c := tls.Certificate{Certificate: [][]byte{der}, PrivateKey: key}
	tlsCert = &c
	return c
}

// exportCase performs a real TLS 1.3 handshake in this process and lets both
// ends run ntske.ExportKeys; the exporter answers for the label and the two
// contexts are taken from crypto/tls directly.
func exportCase(tags string) {
	cert := selfSigned()
	cc, sc := net.Pipe()
	srv := tls.Server(sc, &tls.Config{Certificates: []tls.Certificate{cert}, MinVersion: tls.VersionTLS13, NextProtos: []string{"ntske/1"}})
	cli := tls.Client(cc, &tls.Config{InsecureSkipVerify: true, ServerName: "c10.test", MinVersion: tls.VersionTLS13, NextProtos: []string{"ntske/1"}})
	done := make(chan error, 1)
	go func() { done <- srv.Handshake() }()
	if err := cli.Handshake(); err != nil {
		panic(err)
	}
	if err := <-done; err != nil {
		panic(err)
	}
	var cd, sd ntske.Data
	if err := ntske.ExportKeys(cli.ConnectionState(), &cd); err != nil {
		panic(err)
	}
	if err := ntske.ExportKeys(srv.ConnectionState(), &sd); err != nil {
		panic(err)
	}
	label := "EXPORTER-network-time-security"
	cs := cli.ConnectionState()
	var ents []string
	for _, ctx := range [][]byte{{0, 0, 0, 15, 0}, {0, 0, 0, 15, 1}} {
		out, err := cs.ExportKeyingMaterial(label, ctx, 32)
		if err != nil {
			panic(err)
		}
		ents = append(ents, lib.L("2", lib.B([]byte(label)), lib.B(ctx), "0", "x", "x", "1", lib.B(out)))
	}
	cc.Close()
	sc.Close()
	w.Case("ke.export", tags, lib.L(ents...), lib.V(lib.B(cd.S2cKey), lib.B(cd.C2sKey), lib.B(sd.S2cKey), lib.B(sd.C2sKey)))
}
