// C17, second part: large capacities, long histories, interleaved filter
// instances, the source check of SystemClock.Step, samples with monotonic
// readings, build notes.
package main

import (
	"fmt"
	"go/ast"
	"go/parser"
	"go/token"
	"os"
	"path/filepath"
	"runtime"
	"runtime/debug"
	"strings"
	"time"

	"example.com/scion-time/core/client"
	"example.com/scion-time/core/measurements"

	"verifharness/lib"
)

// ---- probing the effective window size and pick count of a constructed filter ----

// probeOps: n = max(cap,1)+3 samples with strictly increasing delays (the lucky
// ones are the OLDEST of the window: shows the window size), then n samples with
// strictly decreasing delays, all below the first phase (the lucky ones are the
// NEWEST: shows the pick count); pairwise distinct delays and offsets.
func probeOps(cap int64) []lop {
	n := cap + 3
	if cap < 1 {
		n = 4
	}
	var ops []lop
	for i := int64(0); i < 2*n; i++ {
		rtd := 1000000000 + i*1000
		if i >= n {
			rtd = 900000000 - (i-n)*1000
		}
		off := (i*7919%100003)*1000 - 50000000
		ops = append(ops, lop{do: true, s: mkSample(int(i), off, rtd, rtd/2, 0)})
	}
	return ops
}

func runLops(f measurements.Filter, ops []lop, pan *bool) (outs []int64) {
	defer func() {
		if recover() != nil {
			*pan = true
		}
	}()
	for _, o := range ops {
		if o.do {
			outs = append(outs, int64(f.Do(o.s.T0(), o.s.t1.time(), o.s.t2.time(), o.s.T3())))
		} else {
			f.Reset()
		}
	}
	return outs
}

// luckyNewOps: the constructor, then (if it did not panic) the given probe.
func luckyNewOps(cap, pick int64, ops []lop) {
	pan := false
	var f *client.LuckyPacketFilter
	func() {
		defer func() {
			if recover() != nil {
				pan = true
			}
		}()
		f = client.NewLuckyPacketFilter(int(cap), int(pick))
	}()
	var outs []int64
	tags := "panic"
	if !pan {
		p2 := false
		outs = runLops(f, ops, &p2)
		tags = "nt"
		if p2 {
			tags = "dopanic"
			pan = true
		}
	}
	w.Case("lucky.new", tags, lib.V(lib.I(cap), lib.I(pick), fmtLops(ops)), lib.V(lib.Bool(pan), lib.IL(outs)))
}

func luckyNew(cap, pick int64) { luckyNewOps(cap, pick, probeOps(cap)) }

var bigCaps = []int{17, 31, 32, 33, 64, 100, 256}

// ---- long histories ----

func genLuckyLong(r *lib.Rng, n int) {
	cap := lib.Pick(r, 1, 2, 3, 8, 16, 33)
	pick := 1 + r.Intn(cap+1)
	var ops []lop
	for i := 0; i < n; i++ {
		if i > 0 && r.Intn(n/3+1) == 0 {
			ops = append(ops, lop{})
		}
		rtd := 1000000 + int64((uint64(i)*2654435761)%1000003) // distinct within any window of < 1000003 samples
		ops = append(ops, lop{do: true, s: mkSample(i, genOffset(r, 0), rtd, rtd/2, 0)})
	}
	luckyHist(cap, pick, ops, fmt.Sprintf("nt,wrap,long%d", n))
}

func genNtimedLong(r *lib.Rng, n int) {
	g := genRegime(r, false)
	epoch := lib.Pick(r, uint64(0), 3)
	var ops []nop
	for i := 0; i < n; i++ {
		if i > 0 && r.Intn(n/2+1) == 0 {
			epoch++
		}
		kind := 0
		if r.Intn(4) == 0 {
			kind = 1 + r.Intn(4)
		}
		ops = append(ops, nop{do: true, epoch: epoch, s: g.sample(r, i, i, kind)})
	}
	ntimedHist(ops, fmt.Sprintf("long%d", n))
}

// ---- interleaved instances ----

// genLuckyInter: two or three filters, each with its own configuration and sample
// stream, called in an interleaved order; every filter's outputs are compared with
// its own model run.
func genLuckyInter(r *lib.Rng) {
	k := 2 + r.Intn(2)
	type inst struct {
		cap, pick int
		ops       []lop
		f         measurements.Filter
		outs      []int64
		next      int
	}
	ins := make([]*inst, k)
	total := 0
	for j := range ins {
		cap := 1 + r.Intn(8)
		if j > 0 && r.Intn(4) == 0 {
			cap = ins[0].cap // the same configuration as the first instance
		}
		in := &inst{cap: cap, pick: 1 + r.Intn(cap+1)}
		n := 2 + r.Intn(3*cap+3)
		off := genOffset(r, r.Intn(4))
		perm := r.Intn(1000)
		for i := 0; i < n; i++ {
			if i > 0 && r.Intn(10) == 0 {
				in.ops = append(in.ops, lop{})
			}
			rtd := 1000000 + int64((uint64(i+perm)*2654435761)%100003)*int64(1+j)
			in.ops = append(in.ops, lop{do: true, s: mkSample(i, off+r.Range(-100000, 100000), rtd, rtd/2, 0)})
		}
		in.f = client.NewLuckyPacketFilter(in.cap, in.pick)
		total += len(in.ops)
		ins[j] = in
	}
	pan := false
	var sched []int64
	func() {
		defer func() {
			if recover() != nil {
				pan = true
			}
		}()
		for done := 0; done < total; {
			j := r.Intn(k)
			in := ins[j]
			if in.next == len(in.ops) {
				continue
			}
			o := in.ops[in.next]
			in.next++
			done++
			sched = append(sched, int64(j))
			if o.do {
				in.outs = append(in.outs, int64(in.f.Do(o.s.T0(), o.s.t1.time(), o.s.t2.time(), o.s.T3())))
			} else {
				in.f.Reset()
			}
		}
	}()
	var a, o []string
	for _, in := range ins {
		a = append(a, lib.L(lib.I(int64(in.cap)), lib.I(int64(in.pick)), fmtLops(in.ops)))
		o = append(o, lib.IL(in.outs))
	}
	w.Case("lucky.inter", fmt.Sprintf("nt,k%d", k), lib.V(lib.L(a...), lib.IL(sched)), lib.V(lib.L(o...), lib.Bool(pan)))
}

func genNtimedInter(r *lib.Rng) {
	k := 2 + r.Intn(2)
	type inst struct {
		ops  []nop
		f    *client.NtimedFilter
		outs []int64
		next int
	}
	ins := make([]*inst, k)
	total := 0
	epoch := lib.Pick(r, uint64(0), 1, 1<<63)
	for j := range ins {
		g := genRegime(r, r.Intn(4) == 0)
		in := &inst{f: client.NewNtimedFilter(nil)}
		n := 5 + r.Intn(20)
		for i := 0; i < n; i++ {
			if i > 0 && r.Intn(15) == 0 {
				in.ops = append(in.ops, nop{epoch: epoch})
			}
			kind := 0
			if i >= 4 && r.Intn(3) == 0 {
				kind = 1 + r.Intn(4)
			}
			in.ops = append(in.ops, nop{do: true, epoch: epoch, s: g.sample(r, i, i, kind)})
		}
		total += len(in.ops)
		ins[j] = in
	}
	pan := false
	var sched []int64
	func() {
		defer func() {
			if recover() != nil {
				pan = true
			}
		}()
		for done := 0; done < total; {
			j := r.Intn(k)
			in := ins[j]
			if in.next == len(in.ops) {
				continue
			}
			// the clock may step between any two calls: all instances see the new epoch
			if r.Intn(25) == 0 {
				epoch++
			}
			o := &in.ops[in.next]
			o.epoch = epoch
			in.next++
			done++
			sched = append(sched, int64(j))
			clk.epoch = epoch
			if o.do {
				in.outs = append(in.outs, int64(in.f.Do(o.s.T0(), o.s.t1.time(), o.s.t2.time(), o.s.T3())))
			} else {
				in.f.Reset()
			}
		}
	}()
	var a, o []string
	for _, in := range ins {
		a = append(a, fmtNops(in.ops))
		o = append(o, lib.IL(in.outs))
	}
	w.Case("ntimed.inter", fmt.Sprintf("nt,k%d", k), lib.V(lib.L(a...), lib.IL(sched)), lib.V(lib.L(o...), lib.Bool(pan)))
}

// replayInter re-runs an interleaved case from its recorded streams and schedule.
func replayInter(kind string, tok []string) {
	// args: [ stream ... ] [ schedule ]
	i := 0
	if tok[i] != "[" {
		panic("expected [")
	}
	// find the end of the first group
	depth, end := 0, 0
	for j, t := range tok {
		if t == "[" {
			depth++
		} else if t == "]" {
			depth--
			if depth == 0 {
				end = j
				break
			}
		}
	}
	var sched []int
	for _, t := range tok[end+2 : len(tok)-1] {
		sched = append(sched, int(lib.ParseI(t)))
	}
	inner := tok[1:end]
	pan := false
	if kind == "lucky.inter" {
		type inst struct {
			cap, pick int64
			ops       []lop
			f         measurements.Filter
			outs      []int64
			next      int
		}
		var ins []*inst
		for p := 0; p < len(inner); {
			// [ cap pick [ ops ] ]
			in := &inst{cap: lib.ParseI(inner[p+1]), pick: lib.ParseI(inner[p+2])}
			for _, o := range parseOps(inner, p+3) {
				if o[0] == "1" {
					in.ops = append(in.ops, lop{do: true, s: sampleOf(o[1:])})
				} else {
					in.ops = append(in.ops, lop{})
				}
			}
			d := 0
			for {
				if inner[p] == "[" {
					d++
				} else if inner[p] == "]" {
					d--
				}
				p++
				if d == 0 {
					break
				}
			}
			in.f = client.NewLuckyPacketFilter(int(in.cap), int(in.pick))
			ins = append(ins, in)
		}
		func() {
			defer func() {
				if recover() != nil {
					pan = true
				}
			}()
			for _, j := range sched {
				in := ins[j]
				o := in.ops[in.next]
				in.next++
				if o.do {
					in.outs = append(in.outs, int64(in.f.Do(o.s.T0(), o.s.t1.time(), o.s.t2.time(), o.s.T3())))
				} else {
					in.f.Reset()
				}
			}
		}()
		var a, o []string
		for _, in := range ins {
			a = append(a, lib.L(lib.I(in.cap), lib.I(in.pick), fmtLops(in.ops)))
			o = append(o, lib.IL(in.outs))
		}
		s64 := make([]int64, len(sched))
		for i, x := range sched {
			s64[i] = int64(x)
		}
		w.Case(kind, fmt.Sprintf("nt,k%d", len(ins)), lib.V(lib.L(a...), lib.IL(s64)), lib.V(lib.L(o...), lib.Bool(pan)))
		return
	}
	type inst struct {
		ops  []nop
		f    *client.NtimedFilter
		outs []int64
		next int
	}
	var ins []*inst
	for p := 0; p < len(inner); {
		in := &inst{f: client.NewNtimedFilter(nil)}
		for _, o := range parseOps(inner, p) {
			if o[0] == "1" {
				in.ops = append(in.ops, nop{do: true, epoch: lib.ParseU(o[1]), s: sampleOf(o[2:])})
			} else {
				in.ops = append(in.ops, nop{epoch: lib.ParseU(o[1])})
			}
		}
		d := 0
		for {
			if inner[p] == "[" {
				d++
			} else if inner[p] == "]" {
				d--
			}
			p++
			if d == 0 {
				break
			}
		}
		ins = append(ins, in)
	}
	func() {
		defer func() {
			if recover() != nil {
				pan = true
			}
		}()
		for _, j := range sched {
			in := ins[j]
			o := in.ops[in.next]
			in.next++
			clk.epoch = o.epoch
			if o.do {
				in.outs = append(in.outs, int64(in.f.Do(o.s.T0(), o.s.t1.time(), o.s.t2.time(), o.s.T3())))
			} else {
				in.f.Reset()
			}
		}
	}()
	var a, o []string
	for _, in := range ins {
		a = append(a, fmtNops(in.ops))
		o = append(o, lib.IL(in.outs))
	}
	s64 := make([]int64, len(sched))
	for i, x := range sched {
		s64[i] = int64(x)
	}
	w.Case(kind, fmt.Sprintf("nt,k%d", len(ins)), lib.V(lib.L(a...), lib.IL(s64)), lib.V(lib.L(o...), lib.Bool(pan)))
}

// ---- client times with a monotonic reading ----

// monoHist: the client times of every sample are time.Now()-derived (Add keeps
// the monotonic reading), the server times are not (they come off the wire);
// Time.Sub uses the monotonic readings only when both operands have one, i.e. in
// ntp.RoundTripDelay's cRx.Sub(cTx).  Monotonic and wall differences agree here
// (a wall-clock step between cTx and cRx cannot be produced in a test).
func monoHist(r *lib.Rng) {
	anchor := time.Now()
	if anchor.Round(0) == anchor {
		fmt.Println("NOTE mono: time.Now() carries no monotonic reading on this platform")
	}
	mk := func(i int, off, rtd, proc int64) sample {
		c0 := anchor.Add(time.Duration(int64(i) * 1000000000))
		c3 := c0.Add(time.Duration(rtd + proc))
		t0 := ts{c0.Unix(), int64(c0.Nanosecond())}
		t1 := t0.add(rtd/2 + off)
		return sample{t0: t0, t1: t1, t2: t1.add(proc), t3: ts{c3.Unix(), int64(c3.Nanosecond())}, mono: true, c0: c0, c3: c3}
	}
	var lops []lop
	var nops []nop
	n := 6 + r.Intn(10)
	for i := 0; i < n; i++ {
		rtd := 1000000 + int64((uint64(i)*2654435761)%100003)
		if i >= 4 && r.Intn(3) == 0 {
			rtd *= 20
		}
		s := mk(i, 3000000+r.Range(-1000, 1000), rtd, r.Range(0, 100000))
		lops = append(lops, lop{do: true, s: s})
		nops = append(nops, nop{do: true, s: s})
	}
	cap := 1 + r.Intn(6)
	luckyHist(cap, 1+r.Intn(cap), lops, "nt,mono")
	ntimedHist(nops, "mono")
}

// ---- the source of the epoch: driver/clocks/sysclk_linux.go ----

// epochSrc is a SYNTACTIC tie between "clock step" and "new epoch": the real
// SystemClock.Step sets the machine's clock and cannot be run.  Entries (all must be 1):
//  0 the file declares func (c *SystemClock) Step and func (c *SystemClock) Epoch
//  1 Step's body has, as a top-level statement, exactly one call setOffset(...) (the clock-setting call)
//  2 Step's body has exactly one statement c.epoch++, top-level, after that call
//  3 Step's body contains no return statement, no goto/labels, and nothing else assigns to or takes the address of an epoch field
//  4 Epoch's body ends in "return c.epoch" and nothing in it writes epoch
//  5 no other function or function literal of the file mentions a selector .epoch (Adjust, Sleep, Now, Drift, helpers), and
//    no other non-test file of the package does
func epochSrc() {
	repo := os.Getenv("VERIF_REPO")
	if repo == "" {
		repo = "/repo"
	}
	dir := filepath.Join(repo, "driver", "clocks")
	fset := token.NewFileSet()
	ok := make([]bool, 6)
	file, err := parser.ParseFile(fset, filepath.Join(dir, "sysclk_linux.go"), nil, 0)
	if err != nil {
		w.Case("ntimed.epochsrc", "nt", "6", lib.IL([]int64{0, 0, 0, 0, 0, 0}))
		return
	}
	isEpochSel := func(e ast.Expr) bool {
		s, ok := e.(*ast.SelectorExpr)
		return ok && s.Sel.Name == "epoch"
	}
	mentions := func(n ast.Node) (cnt int) {
		ast.Inspect(n, func(x ast.Node) bool {
			if e, ok := x.(ast.Expr); ok && isEpochSel(e) {
				cnt++
			}
			return true
		})
		return cnt
	}
	recvName := func(fd *ast.FuncDecl) (string, bool) { // receiver variable if the receiver type is *SystemClock
		if fd.Recv == nil || len(fd.Recv.List) != 1 || len(fd.Recv.List[0].Names) != 1 {
			return "", false
		}
		st, ok := fd.Recv.List[0].Type.(*ast.StarExpr)
		if !ok {
			return "", false
		}
		id, ok := st.X.(*ast.Ident)
		return fd.Recv.List[0].Names[0].Name, ok && id.Name == "SystemClock"
	}
	var step, epochFn *ast.FuncDecl
	others := 0
	for _, d := range file.Decls {
		fd, isF := d.(*ast.FuncDecl)
		if !isF {
			if gd, isG := d.(*ast.GenDecl); isG && gd.Tok == token.VAR {
				others += mentions(gd)
			}
			continue
		}
		_, isSC := recvName(fd)
		switch {
		case isSC && fd.Name.Name == "Step" && step == nil:
			step = fd
		case isSC && fd.Name.Name == "Epoch" && epochFn == nil:
			epochFn = fd
		default:
			if fd.Body != nil {
				others += mentions(fd.Body)
			}
		}
	}
	ok[0] = step != nil && epochFn != nil && step.Body != nil && epochFn.Body != nil
	if ok[0] {
		rv, _ := recvName(step)
		isRecvEpoch := func(e ast.Expr) bool {
			s, ok := e.(*ast.SelectorExpr)
			if !ok || s.Sel.Name != "epoch" {
				return false
			}
			id, ok := s.X.(*ast.Ident)
			return ok && id.Name == rv
		}
		setAt, setN, incAt, incN := -1, 0, -1, 0
		for i, st := range step.Body.List {
			if es, isE := st.(*ast.ExprStmt); isE {
				if c, isC := es.X.(*ast.CallExpr); isC {
					if id, isI := c.Fun.(*ast.Ident); isI && id.Name == "setOffset" {
						setAt = i
						setN++
					}
				}
			}
			if inc, isInc := st.(*ast.IncDecStmt); isInc && inc.Tok == token.INC && isRecvEpoch(inc.X) {
				incAt = i
				incN++
			}
		}
		// all calls of setOffset / all increments anywhere in the body, nested ones included
		allSet, allInc, writes, bad := 0, 0, 0, 0
		ast.Inspect(step.Body, func(x ast.Node) bool {
			switch n := x.(type) {
			case *ast.CallExpr:
				if id, isI := n.Fun.(*ast.Ident); isI && id.Name == "setOffset" {
					allSet++
				}
			case *ast.IncDecStmt:
				if isEpochSel(n.X) {
					if n.Tok == token.INC {
						allInc++
					} else {
						writes++
					}
				}
			case *ast.AssignStmt:
				for _, l := range n.Lhs {
					if isEpochSel(l) {
						writes++
					}
				}
			case *ast.UnaryExpr:
				if n.Op == token.AND && isEpochSel(n.X) {
					writes++
				}
			case *ast.ReturnStmt, *ast.BranchStmt, *ast.LabeledStmt, *ast.FuncLit, *ast.GoStmt:
				bad++
			}
			return true
		})
		// a deferred call is fine (defer c.mu.Unlock()), but not a deferred function literal (counted as FuncLit)
		ok[1] = setN == 1 && allSet == 1
		ok[2] = incN == 1 && allInc == 1 && setAt >= 0 && incAt > setAt
		ok[3] = bad == 0 && writes == 0
		// Epoch
		ev, _ := recvName(epochFn)
		w2 := 0
		ast.Inspect(epochFn.Body, func(x ast.Node) bool {
			switch n := x.(type) {
			case *ast.IncDecStmt:
				if isEpochSel(n.X) {
					w2++
				}
			case *ast.AssignStmt:
				for _, l := range n.Lhs {
					if isEpochSel(l) {
						w2++
					}
				}
			case *ast.UnaryExpr:
				if n.Op == token.AND && isEpochSel(n.X) {
					w2++
				}
			}
			return true
		})
		if l := epochFn.Body.List; len(l) > 0 {
			if rs, isR := l[len(l)-1].(*ast.ReturnStmt); isR && len(rs.Results) == 1 {
				if s, isS := rs.Results[0].(*ast.SelectorExpr); isS && s.Sel.Name == "epoch" {
					if id, isI := s.X.(*ast.Ident); isI && id.Name == ev {
						ok[4] = w2 == 0
					}
				}
			}
		}
		// the rest of the package
		pkgs, err := parser.ParseDir(fset, dir, func(fi os.FileInfo) bool {
			return !strings.HasSuffix(fi.Name(), "_test.go") && fi.Name() != "sysclk_linux.go" && fi.Name() != "sysclk_std.go"
		}, 0)
		if err == nil {
			for _, p := range pkgs {
				for _, f := range p.Files {
					for _, d := range f.Decls {
						if fd, isF := d.(*ast.FuncDecl); isF && fd.Body != nil {
							others += mentions(fd.Body)
						}
					}
				}
			}
			ok[5] = others == 0
		}
	}
	out := make([]int64, len(ok))
	for i, b := range ok {
		if b {
			out[i] = 1
		}
	}
	w.Case("ntimed.epochsrc", "nt", "6", lib.IL(out))
}

// ---- build notes ----

var fmaX, fmaY, fmaZ = 1 + 1.0/(1<<30), 1 + 1.0/(1<<30), -(1 + 1.0/(1<<29))

func buildNotes() {
	goamd64 := "(not recorded)"
	if bi, ok := debug.ReadBuildInfo(); ok {
		for _, s := range bi.Settings {
			if s.Key == "GOAMD64" {
				goamd64 = s.Value
			}
		}
	}
	// x*y + z with x*y inexact: 0 when the product is rounded first, 2^-60 when fused
	fused := fmaX*fmaY+fmaZ != 0
	fmt.Printf("NOTE build: GOARCH=%s GOAMD64=%s %s; x*y+z contracted to FMA by this build: %v\n", runtime.GOARCH, goamd64, runtime.Version(), fused)
}
