// C17: offset filters (core/client LuckyPacketFilter and NtimedFilter) driven
// on generated sample histories with resets and clock-epoch changes.
package main

import (
	"context"
	"fmt"
	"log/slog"
	"math/big"
	"os"
	"strings"
	"time"

	basetimebase "example.com/scion-time/base/timebase"
	"example.com/scion-time/core/client"
	"example.com/scion-time/core/measurements"
	"example.com/scion-time/core/timebase"

	"verifharness/lib"
)

var w *lib.Writer

// ---- the one registered clock of this process: only Epoch() matters ----

type fakeClock struct{ epoch uint64 }

var _ basetimebase.SystemClock = (*fakeClock)(nil)

func (c *fakeClock) Epoch() uint64                                { return c.epoch }
func (c *fakeClock) Now() time.Time                               { return time.Unix(1_700_000_000, 0) }
func (c *fakeClock) Drift(time.Duration) time.Duration            { return 0 }
func (c *fakeClock) Step(time.Duration)                           { c.epoch++ }
func (c *fakeClock) Adjust(time.Duration, time.Duration, float64) {}
func (c *fakeClock) Sleep(time.Duration)                          {}

var clk = &fakeClock{}

// ---- times: nanoseconds since the Unix epoch, any size the generator uses ----

type ts struct{ sec, ns int64 } // ns in [0, 1e9)

func (t ts) time() time.Time { return time.Unix(t.sec, t.ns) }
func (t ts) String() string {
	b := new(big.Int).Mul(big.NewInt(t.sec), big.NewInt(1000000000))
	return b.Add(b, big.NewInt(t.ns)).String()
}
func tsOfBig(b *big.Int) ts {
	q, m := new(big.Int).DivMod(b, big.NewInt(1000000000), new(big.Int)) // Euclidean: m >= 0
	return ts{q.Int64(), m.Int64()}
}
func parseTs(s string) ts {
	b, ok := new(big.Int).SetString(s, 10)
	if !ok {
		panic("bad time " + s)
	}
	return tsOfBig(b)
}

// add adds d nanoseconds (exact; the generator keeps everything far from the int64 seconds range)
func (t ts) add(d int64) ts {
	sec := t.sec + d/1000000000
	ns := t.ns + d%1000000000
	if ns < 0 {
		ns += 1000000000
		sec--
	} else if ns >= 1000000000 {
		ns -= 1000000000
		sec++
	}
	return ts{sec, ns}
}

// c0, c3: when mono is set, the client times handed to the filter (same wall
// instants as t0, t3, but derived from time.Now() and so carrying a monotonic reading)
type sample struct {
	t0, t1, t2, t3 ts
	mono           bool
	c0, c3         time.Time
}

func smp(t0, t1, t2, t3 ts) sample { return sample{t0: t0, t1: t1, t2: t2, t3: t3} }

func (s sample) T0() time.Time {
	if s.mono {
		return s.c0
	}
	return s.t0.time()
}
func (s sample) T3() time.Time {
	if s.mono {
		return s.c3
	}
	return s.t3.time()
}

func (s sample) String() string {
	return lib.V(s.t0.String(), s.t1.String(), s.t2.String(), s.t3.String())
}

// ---- lucky-packet filter ----

type lop struct {
	do bool
	s  sample
}

func fmtLops(ops []lop) string {
	it := make([]string, len(ops))
	for i, o := range ops {
		if o.do {
			it[i] = lib.L("1", o.s.String())
		} else {
			it[i] = lib.L("0")
		}
	}
	return lib.L(it...)
}

func luckyHist(cap, pick int, ops []lop, tags string) { luckyHistK("lucky.hist", cap, pick, ops, tags) }

func luckyHistK(kind string, cap, pick int, ops []lop, tags string) {
	var f measurements.Filter
	if cap == 0 {
		f = &client.LuckyPacketFilter{}
	} else {
		f = client.NewLuckyPacketFilter(cap, pick)
	}
	var outs []int64
	pan := false
	func() {
		defer func() {
			if recover() != nil {
				pan = true
			}
		}()
		for _, o := range ops {
			if o.do {
				outs = append(outs, int64(f.Do(o.s.T0(), o.s.t1.time(), o.s.t2.time(), o.s.T3())))
			} else {
				f.Reset()
			}
		}
	}()
	w.Case(kind, tags, lib.V(lib.I(int64(cap)), lib.I(int64(pick)), fmtLops(ops)), lib.V(lib.IL(outs), lib.Bool(pan)))
}

// ---- Ntimed filter ----

type nop struct {
	do    bool
	epoch uint64
	s     sample
}

func fmtNops(ops []nop) string {
	it := make([]string, len(ops))
	for i, o := range ops {
		if o.do {
			it[i] = lib.L("1", lib.U(o.epoch), o.s.String())
		} else {
			it[i] = lib.L("0", lib.U(o.epoch))
		}
	}
	return lib.L(it...)
}

// branchHandler picks the "branch" attribute out of the filter's debug record;
// it is used for coverage tags only, never compared.
type branchHandler struct{ last *int64 }

func (h branchHandler) Enabled(context.Context, slog.Level) bool { return true }
func (h branchHandler) Handle(_ context.Context, r slog.Record) error {
	r.Attrs(func(a slog.Attr) bool {
		if a.Key == "branch" {
			*h.last = a.Value.Int64()
			return false
		}
		return true
	})
	return nil
}
func (h branchHandler) WithAttrs([]slog.Attr) slog.Handler { return h }
func (h branchHandler) WithGroup(string) slog.Handler      { return h }

// runNops returns the outputs of the Do calls; a panic of the filter ends the
// run and is reported through *pan.
func runNops(f *client.NtimedFilter, ops []nop, br *int64, seen map[int64]int, pan *bool) (outs []int64) {
	defer func() {
		if recover() != nil {
			*pan = true
		}
	}()
	for _, o := range ops {
		clk.epoch = o.epoch
		if o.do {
			if br != nil {
				*br = 0
			}
			outs = append(outs, int64(f.Do(o.s.T0(), o.s.t1.time(), o.s.t2.time(), o.s.T3())))
			if br != nil {
				seen[*br]++
			}
		} else {
			f.Reset()
		}
	}
	return outs
}

func ntimedHist(ops []nop, tags string) { ntimedHistK("ntimed.hist", ops, tags) }

func ntimedHistK(kind string, ops []nop, tags string) {
	var br int64
	seen := map[int64]int{}
	f := client.NewNtimedFilter(slog.New(branchHandler{&br}))
	pan := false
	outs := runNops(f, ops, &br, seen, &pan)
	// reset points: an explicit Reset, or a Do under another epoch than the previous call (0 for a new filter)
	var starts []int64
	prev := uint64(0)
	for i, o := range ops {
		if !o.do || o.epoch != prev {
			starts = append(starts, int64(i))
		}
		prev = o.epoch
	}
	// new filters (without logger) from every reset point to the next
	var fresh []int64
	cuts := append([]int64{0}, starts...)
	cuts = append(cuts, int64(len(ops)))
	seg4 := false
	for i := 0; i+1 < len(cuts); i++ {
		if cuts[i] == cuts[i+1] {
			continue
		}
		g := client.NewNtimedFilter(nil)
		o := runNops(g, ops[cuts[i]:cuts[i+1]], nil, nil, &pan)
		if i > 0 && len(o) >= 4 {
			seg4 = true
		}
		fresh = append(fresh, o...)
	}
	t := []string{}
	if tags != "" {
		t = append(t, tags)
	}
	for b := int64(1); b <= 4; b++ {
		if seen[b] > 0 {
			t = append(t, fmt.Sprintf("b%d", b))
		}
	}
	if len(starts) > 0 && starts[len(starts)-1] > 0 {
		t = append(t, "resetpt")
	}
	if seen[2] > 0 || seen[3] > 0 || seg4 || kind == "ntimed.wild" || kind == "ntimed.corner" {
		t = append(t, "nt")
	}
	w.Case(kind, strings.Join(t, ","), fmtNops(ops), lib.V(lib.IL(outs), lib.IL(starts), lib.IL(fresh), lib.Bool(pan)))
}

// luckyReset: filter A runs pre, Reset, suf; a newly constructed filter B runs suf.
// Reported: the outputs of A on suf and of B ("Reset equals fresh").
func luckyReset(cap, pick int, pre, suf []lop, tags string) {
	mk := func() measurements.Filter {
		if cap == 0 {
			return &client.LuckyPacketFilter{}
		}
		return client.NewLuckyPacketFilter(cap, pick)
	}
	pan := false
	run := func(f measurements.Filter, ops []lop, keep bool) (outs []int64) {
		defer func() {
			if recover() != nil {
				pan = true
			}
		}()
		for _, o := range ops {
			if o.do {
				x := int64(f.Do(o.s.T0(), o.s.t1.time(), o.s.t2.time(), o.s.T3()))
				if keep {
					outs = append(outs, x)
				}
			} else {
				f.Reset()
			}
		}
		return outs
	}
	a := mk()
	run(a, pre, false)
	a.Reset()
	outsA := run(a, suf, true)
	outsB := run(mk(), suf, true)
	w.Case("lucky.reset", tags, lib.V(lib.I(int64(cap)), lib.I(int64(pick)), fmtLops(pre), fmtLops(suf)),
		lib.V(lib.IL(outsA), lib.IL(outsB), lib.Bool(pan)))
}

// ntimedReset: filter A runs pre, mid (Resets; none when suf runs under another
// epoch), suf; a newly constructed filter B runs suf.
func ntimedReset(pre, mid, suf []nop, tags string) {
	var br int64
	seen := map[int64]int{}
	pan := false
	a := client.NewNtimedFilter(slog.New(branchHandler{&br}))
	runNops(a, pre, &br, map[int64]int{}, &pan)
	runNops(a, mid, &br, map[int64]int{}, &pan)
	outsA := runNops(a, suf, &br, seen, &pan)
	outsB := runNops(client.NewNtimedFilter(nil), suf, nil, nil, &pan)
	t := []string{}
	if tags != "" {
		t = append(t, tags)
	}
	for b := int64(1); b <= 4; b++ {
		if seen[b] > 0 {
			t = append(t, fmt.Sprintf("b%d", b))
		}
	}
	npre, nsuf := 0, 0
	for _, o := range pre {
		if o.do {
			npre++
		}
	}
	for _, o := range suf {
		if o.do {
			nsuf++
		}
	}
	if npre >= 4 && nsuf >= 5 && (seen[2] > 0 || seen[3] > 0) {
		t = append(t, "nt")
	}
	w.Case("ntimed.reset", strings.Join(t, ","), lib.V(fmtNops(pre), fmtNops(mid), fmtNops(suf)),
		lib.V(lib.IL(outsA), lib.IL(outsB), lib.Bool(pan)))
}

// ---- generators ----

var base = ts{1_700_000_000, 0}

func wildTs(r *lib.Rng) ts {
	switch r.Intn(4) {
	case 0:
		return ts{r.Range(-(1 << 58), 1<<58), r.Range(0, 999999999)}
	case 1:
		return ts{lib.Pick(r, int64(1<<58), -(1 << 58), 0, -1, 1<<33, -(1 << 33)), lib.Pick(r, int64(0), 999999999, 1)}
	case 2:
		return ts{r.Range(-20000000000, 20000000000), r.Range(0, 999999999)}
	default:
		return base.add(r.Range(-4000000000000000000, 4000000000000000000))
	}
}

func wildSample(r *lib.Rng) sample {
	s := smp(wildTs(r), wildTs(r), wildTs(r), wildTs(r))
	if r.Intn(2) == 0 { // only one or two stamps wild
		t0 := base.add(r.Range(0, 1000000000000))
		n := smp(t0, t0.add(r.Range(0, 50000000)), t0.add(r.Range(0, 50000000)), t0.add(r.Range(0, 100000000)))
		switch r.Intn(4) {
		case 0:
			n.t1 = s.t1
		case 1:
			n.t3 = s.t3
		case 2:
			n.t0 = s.t0
		default:
			n.t1, n.t2 = s.t1, s.t1.add(r.Range(0, 1000))
		}
		return n
	}
	return s
}

// mkSample builds the exchange with the given server-minus-client offset,
// round-trip delay, outbound share of the delay and server processing time.
func mkSample(seq int, off, rtd, out, proc int64) sample {
	t0 := base.add(int64(seq) * 1000000000)
	t1 := t0.add(out + off)
	t2 := t1.add(proc)
	t3 := t0.add(rtd + proc)
	return sample{t0: t0, t1: t1, t2: t2, t3: t3}
}

func genOffset(r *lib.Rng, mode int) int64 {
	switch mode {
	case 0:
		return r.Range(-1000000, 1000000) * 1000
	case 1:
		return r.Range(-5, 5)
	case 2:
		return r.Range(-2000000000, 2000000000)
	case 3:
		return lib.Pick(r, int64(0), 1, -1, 1000000, -1000000) + r.Range(-1, 1)
	case 4:
		return r.Range(-(1 << 61), 1<<61)
	default:
		return r.Range(-50000000, 50000000)
	}
}

func genLucky(r *lib.Rng, long bool) {
	cap := 1 + r.Intn(8)
	switch r.Intn(6) {
	case 0:
		cap = 1 + r.Intn(16)
	case 1:
		cap = lib.Pick(r, 1, 2, 3)
	}
	large := r.Intn(40) == 0
	if large { // sparse large capacities, histories long enough to fill the window
		cap = lib.Pick(r, 17, 17, 31, 31, 32, 32, 32, 33, 33, 33, 64, 64, 100)
	}
	pick := 1 + r.Intn(cap+2)
	switch r.Intn(6) {
	case 0:
		pick = 1 + r.Intn(20)
		if large {
			pick = 1 + r.Intn(2*cap)
		}
	case 1:
		pick = cap
	case 2:
		pick = 1
	}
	uncfg := r.Intn(25) == 0
	n := 1 + r.Intn(3*cap+4)
	if long {
		n = 20 + r.Intn(180)
	}
	if large {
		n = cap + 3 + r.Intn(cap+10)
	}
	ties := r.Intn(6) == 0 && !large
	omode := r.Intn(7)
	wild := r.Intn(12) == 0
	// distinct round-trip delays: a random injection into a spread of values
	step := lib.Pick(r, int64(1), 2, 1000, 999983)
	rbase := lib.Pick(r, int64(0), 1, 1000000, 20000000)
	perm := make([]int64, n)
	for i := range perm {
		perm[i] = int64(i)
	}
	for i := n - 1; i > 0; i-- {
		j := r.Intn(i + 1)
		perm[i], perm[j] = perm[j], perm[i]
	}
	var ops []lop
	resets, since, wrapped := 0, 0, false
	for i := 0; i < n; i++ {
		if i > 0 && r.Intn(10) == 0 {
			ops = append(ops, lop{do: false})
			resets++
			since = 0
			if r.Intn(4) == 0 {
				ops = append(ops, lop{do: false})
			}
		}
		rtd := rbase + perm[i]*step
		if ties {
			rtd = rbase + int64(r.Intn(3))*step
		}
		var s sample
		if wild && r.Intn(3) == 0 {
			s = wildSample(r)
		} else {
			s = mkSample(i, genOffset(r, omode), rtd, rtd/2+lib.Pick(r, int64(0), 0, 1, -1), r.Range(0, 3)*lib.Pick(r, int64(0), 1, 1000))
		}
		ops = append(ops, lop{do: true, s: s})
		since++
		if since > cap {
			wrapped = true
		}
	}
	t := []string{}
	if uncfg {
		cap, pick = 0, 0
		t = append(t, "uncfg")
	}
	if ties {
		t = append(t, "ties")
	}
	if large {
		t = append(t, fmt.Sprintf("cap%d", cap))
	}
	if wild {
		t = append(t, "wild")
	}
	if resets > 0 {
		t = append(t, "reset")
	}
	if wrapped && !uncfg {
		t = append(t, "wrap")
	}
	if pick >= cap && !uncfg {
		t = append(t, "pickcap")
	}
	if (wrapped || resets > 0) && !uncfg && cap >= 2 {
		t = append(t, "nt")
	}
	luckyHist(cap, pick, ops, strings.Join(t, ","))
}

// genNtimed: realistic delay processes with one-sided and two-sided outliers
// placed at chosen distances from the reset points.
func genNtimed(r *lib.Rng, long bool) {
	n := 1 + r.Intn(12)
	switch r.Intn(4) {
	case 0:
		n = 4 + r.Intn(30)
	case 1:
		n = 3 + r.Intn(4)
	}
	if long {
		n = 25 + r.Intn(175)
	}
	outBase := lib.Pick(r, int64(100000), 1000000, 10000000, 50000000, 500)
	backBase := outBase
	if r.Intn(3) == 0 {
		backBase = lib.Pick(r, int64(100000), 1000000, 10000000, 50000000, 500)
	}
	jit := lib.Pick(r, int64(0), 1, 1000, outBase/10+1, outBase/2+1)
	off := genOffset(r, r.Intn(4))
	drift := lib.Pick(r, int64(0), 0, 1, 1000, -1000)
	pOut := lib.Pick(r, 0, 5, 3, 2) // 1/pOut of the samples are outliers
	wild := r.Intn(15) == 0
	resetP := lib.Pick(r, 0, 0, 6, 12, 25)
	var ops []nop
	epoch := uint64(0)
	if r.Intn(3) == 0 {
		epoch = lib.Pick(r, uint64(1), 7, 1<<63, ^uint64(0))
	}
	since := 0
	for i := 0; i < n; i++ {
		if resetP > 0 && i > 0 && r.Intn(resetP) == 0 {
			switch r.Intn(3) {
			case 0:
				ops = append(ops, nop{do: false, epoch: epoch})
			case 1:
				// clock step: the next Do sees another epoch (usually the next one;
				// the filter only compares for inequality, so also lower and wrapped ones)
				switch r.Intn(4) {
				case 0:
					epoch--
				case 1:
					epoch = lib.Pick(r, uint64(0), 1, ^uint64(0), 1<<63, r.U64())
				default:
					epoch++
				}
			default:
				epoch++
				ops = append(ops, nop{do: false, epoch: epoch})
				if r.Intn(3) == 0 {
					epoch-- // explicit reset under one epoch, next sample under the old one again
				}
			}
			since = 0
		}
		out := outBase + r.Range(-jit, jit)
		back := backBase + r.Range(-jit, jit)
		if out < 0 {
			out = 0
		}
		if back < 0 {
			back = 0
		}
		// outliers: more likely right at the boundary of the warm-up phase
		p := pOut
		if since == 2 || since == 3 {
			p = 2
		}
		if p > 0 && r.Intn(p) == 0 {
			k := lib.Pick(r, int64(2), 5, 40, 1000)
			switch r.Intn(5) {
			case 0:
				out *= k
			case 1, 2:
				back *= k
			case 3:
				out *= k
				back *= k
			default: // unusually fast sample
				out /= k
			}
		}
		o := off + int64(i)*drift
		var s sample
		if wild && r.Intn(4) == 0 {
			s = wildSampleNt(r)
		} else {
			s = mkSample(i, o, out+back, out, r.Range(0, 200000))
		}
		ops = append(ops, nop{do: true, epoch: epoch, s: s})
		since++
	}
	t := ""
	if wild {
		t = "wild"
	}
	ntimedHist(ops, t)
}

// ---- the wild range: samples the closeness theorem's 2^62 ns range excludes, and degenerate ones ----

const maxI64 = int64(^uint64(0) >> 1)

// edgeSample returns a sample of one family and the family's tag.
func edgeSample(r *lib.Rng) (sample, string) {
	t0 := base.add(r.Range(0, 1000000000000))
	d := func() int64 { return lib.Pick(r, int64(0), 1, 999, 1000000, 50000000) + r.Range(0, 3) }
	mag := func(lo, hi uint) *big.Int { // a magnitude in [2^lo, 2^hi) ns
		b := new(big.Int).Lsh(big.NewInt(1), lo)
		span := new(big.Int).Sub(new(big.Int).Lsh(big.NewInt(1), hi), b)
		x := new(big.Int).SetUint64(r.U64())
		x.Lsh(x, 20).Add(x, new(big.Int).SetUint64(r.U64()>>44)).Mod(x, span)
		return b.Add(b, x)
	}
	shift := func(t ts, b *big.Int, neg bool) ts {
		x, _ := new(big.Int).SetString(t.String(), 10)
		if neg {
			x.Sub(x, b)
		} else {
			x.Add(x, b)
		}
		return tsOfBig(x)
	}
	switch r.Intn(12) {
	case 0: // identical timestamps
		return smp(t0, t0, t0, t0), "same"
	case 1: // zero delay, some offset
		t1 := t0.add(r.Range(-1000000000, 1000000000))
		return smp(t0, t1, t1, t0), "zerodelay"
	case 2: // negative round trip: the reply arrives before the request left
		t1 := t0.add(r.Range(-1000000, 1000000))
		return smp(t0, t1, t1.add(d()), t0.add(-1 - d())), "negrtd"
	case 3: // negative server processing time
		t1 := t0.add(d() + r.Range(-1000000, 1000000))
		return smp(t0, t1, t1.add(-1 - d()), t0.add(d())), "negproc"
	case 4: // hi < lo: cRx - sTx < cTx - sRx
		t1 := t0.add(-d() - 1)
		return smp(t0, t1, t1.add(d() + 5), t1.add(3)), "hiltlo"
	case 5, 6: // one-way differences between 2^62 and 2^63 ns: beyond the closeness range, not saturating
		neg := r.Intn(2) == 0
		t1 := shift(t0, mag(62, 63), neg)
		t2 := t1.add(d())
		if r.Intn(3) == 0 { // the way back differs in sign
			t2 = shift(t0, mag(62, 63), !neg)
		}
		return smp(t0, t1, t2, t0.add(d())), "far"
	case 7: // more than 292 years apart: Time.Sub saturates, one way or both, either sign
		neg := r.Intn(2) == 0
		t1 := shift(t0, mag(63, 66), neg)
		t2 := t1.add(d())
		switch r.Intn(3) {
		case 0:
			t2 = t0.add(d())
		case 1:
			t2 = shift(t0, mag(63, 66), !neg)
		}
		return smp(t0, t1, t2, t0.add(d())), "sat"
	case 8: // the corner: both differences saturated at +292 years (Inv(int64(2^63)) = MaxInt64)
		t1 := shift(t0, mag(63, 66), true)
		return smp(t0, t1, t1.add(d()), t0.add(d())), "corner"
	case 9: // just below the corner: 2^64 - 2^14 - 2^16 < lo + hi < 2^64 - 2^14, not saturated
		a := r.Range(0, 1<<14)
		b := 1<<14 - 1 - a + r.Range(0, 1<<10) // a + b >= 2^14 - 1: lo + hi < 2^64 - 2^14
		if r.Intn(4) == 0 {
			b += r.Range(0, 1<<15)
		}
		t1 := shift(t0, new(big.Int).SetInt64(maxI64-a), true)
		t3 := t0.add(d())
		t2 := shift(t3, new(big.Int).SetInt64(maxI64-b), true)
		return smp(t0, t1, t2, t3), "nearcorner"
	case 10: // the mirror image: both differences at -292 years (Inv saturates, correct sign)
		a, b := r.Range(0, 1<<12), r.Range(0, 1<<12)
		t1 := shift(t0, new(big.Int).SetInt64(maxI64-a), false)
		t3 := t0.add(d())
		t2 := shift(t3, new(big.Int).SetInt64(maxI64-b), false)
		if r.Intn(3) == 0 {
			t1, t2 = shift(t0, mag(63, 66), false), shift(t3, mag(63, 66), false)
		}
		return smp(t0, t1, t2, t3), "negcorner"
	default:
		return wildSample(r), "mixed"
	}
}

// inCorner: lo + hi >= 2^64 - 2^14 with lo = cTx - sRx, hi = cRx - sTx as Time.Sub
// gives them (saturated).  There the Ntimed filter can return MaxInt64 for an
// offset of -292 years (finding ntimed-corner-wrong-sign); such samples are
// emitted under the kind ntimed.corner only.
func inCorner(s sample) bool {
	toBig := func(t ts) *big.Int { b, _ := new(big.Int).SetString(t.String(), 10); return b }
	sat := func(b *big.Int) *big.Int {
		mx := big.NewInt(maxI64)
		mn := new(big.Int).Sub(new(big.Int).Neg(mx), big.NewInt(1))
		if b.Cmp(mx) > 0 {
			return mx
		}
		if b.Cmp(mn) < 0 {
			return mn
		}
		return b
	}
	lo := sat(new(big.Int).Sub(toBig(s.t0), toBig(s.t1)))
	hi := sat(new(big.Int).Sub(toBig(s.t3), toBig(s.t2)))
	lim := new(big.Int).Sub(new(big.Int).Lsh(big.NewInt(1), 64), big.NewInt(1<<14))
	return new(big.Int).Add(lo, hi).Cmp(lim) >= 0
}

// edgeSampleNt / wildSampleNt: the same families without the corner.
func edgeSampleNt(r *lib.Rng) (sample, string) {
	for {
		if s, f := edgeSample(r); !inCorner(s) {
			return s, f
		}
	}
}

func wildSampleNt(r *lib.Rng) sample {
	for {
		if s := wildSample(r); !inCorner(s) {
			return s
		}
	}
}

func tagSet(m map[string]bool, extra ...string) string {
	var t []string
	for _, k := range []string{"same", "zerodelay", "negrtd", "negproc", "hiltlo", "far", "sat", "corner", "nearcorner", "negcorner", "mixed"} {
		if m[k] {
			t = append(t, k)
		}
	}
	return strings.Join(append(t, extra...), ",")
}

func genLuckyWild(r *lib.Rng) {
	cap := 1 + r.Intn(12)
	pick := 1 + r.Intn(cap+1)
	if r.Intn(20) == 0 {
		cap, pick = 0, 0
	}
	n := 1 + r.Intn(2*cap+6)
	fam := map[string]bool{}
	var ops []lop
	for i := 0; i < n; i++ {
		if i > 0 && r.Intn(8) == 0 {
			ops = append(ops, lop{})
		}
		var s sample
		if r.Intn(5) == 0 {
			s = mkSample(i, genOffset(r, r.Intn(6)), 1000000+int64(i)*977, 500000, 0)
		} else {
			var f string
			s, f = edgeSample(r)
			fam[f] = true
		}
		ops = append(ops, lop{do: true, s: s})
	}
	luckyHistK("lucky.wild", cap, pick, ops, tagSet(fam, "wild", "nt"))
}

func genNtimedWild(r *lib.Rng) {
	n := 1 + r.Intn(14)
	fam := map[string]bool{}
	epoch := lib.Pick(r, uint64(0), 0, 1, 1<<63)
	var ops []nop
	for i := 0; i < n; i++ {
		if i > 0 && r.Intn(8) == 0 {
			if r.Intn(2) == 0 {
				ops = append(ops, nop{epoch: epoch})
			} else {
				epoch++
			}
		}
		var s sample
		if r.Intn(4) == 0 {
			s = mkSample(i, genOffset(r, r.Intn(4)), 2000000+r.Range(0, 100000), 1000000, 0)
		} else {
			var f string
			s, f = edgeSampleNt(r)
			fam[f] = true
		}
		ops = append(ops, nop{do: true, epoch: epoch, s: s})
	}
	ntimedHistK("ntimed.wild", ops, tagSet(fam, "wild"))
}

// ---- Reset equals fresh ----

// ntRegime is a delay process; huge regimes leave averages whose rounding residue
// survives the first update after a partial Reset.
type ntRegime struct {
	out, back, jit, off, drift int64
}

func genRegime(r *lib.Rng, huge bool) ntRegime {
	g := ntRegime{
		out:   lib.Pick(r, int64(100000), 1000000, 10000000, 50000000, 500),
		jit:   0,
		off:   genOffset(r, r.Intn(4)),
		drift: lib.Pick(r, int64(0), 0, 1, 1000, -1000),
	}
	g.back = g.out
	if r.Intn(3) == 0 {
		g.back = lib.Pick(r, int64(100000), 1000000, 10000000, 50000000, 500)
	}
	g.jit = lib.Pick(r, int64(1), 1000, g.out/10+1, g.out/3+1)
	if huge {
		g.off = lib.Pick(r, int64(1), -1) * r.Range(1<<55, 1<<61)
	}
	return g
}

// sample i of the regime; kind 0 regular, 1 slow way out, 2 slow way back, 3 both slow, 4 fast way out
func (g ntRegime) sample(r *lib.Rng, seq, i int, kind int) sample {
	out := g.out + r.Range(-g.jit, g.jit)
	back := g.back + r.Range(-g.jit, g.jit)
	if out < 0 {
		out = 0
	}
	if back < 0 {
		back = 0
	}
	k := lib.Pick(r, int64(2), 5, 40, 1000)
	switch kind {
	case 1:
		out *= k
	case 2:
		back *= k
	case 3:
		out *= k
		back *= k
	case 4:
		out /= k
	}
	return mkSample(seq, g.off+int64(i)*g.drift, out+back, out, r.Range(0, 200000))
}

func genNtimedReset(r *lib.Rng) {
	a := genRegime(r, r.Intn(2) == 0)
	b := genRegime(r, r.Intn(6) == 0)
	if r.Intn(5) == 0 {
		b = a
		b.off += r.Range(-1000, 1000)
	}
	e0 := lib.Pick(r, uint64(0), 1, 7, 1<<63, ^uint64(0))
	var pre, mid, suf []nop
	npre := lib.Pick(r, 1, 2, 3, 4, 5, 8, 12, 21, 30)
	seq := 0
	for i := 0; i < npre; i++ {
		kind := 0
		if i >= 3 && r.Intn(3) == 0 {
			kind = 1 + r.Intn(4)
		}
		pre = append(pre, nop{do: true, epoch: e0, s: a.sample(r, seq, i, kind)})
		seq++
	}
	e1 := e0
	how := ""
	switch r.Intn(5) {
	case 0: // explicit Reset, same epoch
		mid = append(mid, nop{epoch: e0})
		how = "explicit"
	case 1: // the clock stepped: the next Do sees another epoch
		e1 = e0 + lib.Pick(r, uint64(1), ^uint64(0), 2, 1<<63)
		how = "epoch"
	case 2: // Reset under the new epoch
		e1 = e0 + 1
		mid = append(mid, nop{epoch: e1})
		how = "explicit,epoch"
	case 3: // twice
		mid = append(mid, nop{epoch: e0}, nop{epoch: e0})
		how = "explicit,twice"
	default: // Reset under one epoch, samples under the next
		mid = append(mid, nop{epoch: e0})
		e1 = e0 + 1
		how = "explicit,epoch"
	}
	nsuf := lib.Pick(r, 1, 3, 4, 5, 6, 8, 12, 25)
	warm := 4 + r.Intn(3)
	for i := 0; i < nsuf; i++ {
		kind := 0
		if i >= warm && r.Intn(2) == 0 {
			kind = lib.Pick(r, 1, 1, 2, 2, 3, 4)
		} else if i == 2 || i == 3 {
			if r.Intn(3) == 0 {
				kind = 1 + r.Intn(2)
			}
		}
		suf = append(suf, nop{do: true, epoch: e1, s: b.sample(r, seq, i, kind)})
		seq++
	}
	ntimedReset(pre, mid, suf, how)
}

func genLuckyReset(r *lib.Rng) {
	cap := 1 + r.Intn(8)
	switch r.Intn(5) {
	case 0:
		cap = 1 + r.Intn(16)
	case 1:
		cap = lib.Pick(r, 1, 2, 3)
	}
	pick := 1 + r.Intn(cap+2)
	if r.Intn(4) == 0 {
		pick = 1
	}
	uncfg := r.Intn(30) == 0
	npre := 1 + r.Intn(3*cap+2)
	nsuf := 1 + r.Intn(2*cap+3)
	ties := r.Intn(8) == 0
	// the samples before the Reset are the luckier ones (lower delays): a window that
	// survives the Reset would be preferred; offsets differ by regime
	step := lib.Pick(r, int64(1), 2, 1000, 999983)
	perm := make([]int64, npre+nsuf)
	for i := range perm {
		perm[i] = int64(i)
	}
	shuffle := func(p []int64) {
		for i := len(p) - 1; i > 0; i-- {
			j := r.Intn(i + 1)
			p[i], p[j] = p[j], p[i]
		}
	}
	if r.Intn(3) == 0 {
		shuffle(perm) // no order between the regimes
	} else {
		shuffle(perm[:npre])
		shuffle(perm[npre:])
	}
	offA, offB := genOffset(r, r.Intn(4)), genOffset(r, r.Intn(4))
	mk := func(i int, off int64) sample {
		rtd := 1000000 + perm[i]*step
		if ties {
			rtd = 1000000 + int64(r.Intn(3))*step
		}
		return mkSample(i, off+r.Range(-50000, 50000), rtd, rtd/2, r.Range(0, 3)*1000)
	}
	var pre, suf []lop
	for i := 0; i < npre; i++ {
		if i > 0 && r.Intn(12) == 0 {
			pre = append(pre, lop{})
		}
		pre = append(pre, lop{do: true, s: mk(i, offA)})
	}
	for i := 0; i < nsuf; i++ {
		if i > 0 && r.Intn(15) == 0 {
			suf = append(suf, lop{})
		}
		suf = append(suf, lop{do: true, s: mk(npre+i, offB)})
	}
	t := []string{}
	if uncfg {
		cap, pick = 0, 0
		t = append(t, "uncfg")
	}
	if ties {
		t = append(t, "ties")
	}
	if npre >= cap && !uncfg {
		t = append(t, "full")
	}
	if !uncfg && cap >= 2 && npre >= 2 {
		t = append(t, "nt")
	}
	luckyReset(cap, pick, pre, suf, strings.Join(t, ","))
}

// cornerCases: a fixed handful of one-sample histories on a new filter around
// lo + hi = 2^64 - 2^14, with sRx = sTx = 0 so that lo = cTx and hi = cRx (saturated
// at MaxInt64): judged by the same strict oracle as everything else.  The ones on
// which the filter answers MaxInt64 (offset -292 years reported as +292 years) are
// the finding ntimed-corner-wrong-sign; the others must pass.
func cornerCases() {
	two63 := new(big.Int).Lsh(big.NewInt(1), 63)
	at := func(d int64) ts { return tsOfBig(new(big.Int).Add(two63, big.NewInt(d))) } // 2^63 + d ns
	zero := ts{0, 0}
	for _, c := range [][2]int64{
		{5, 5},           // both differences saturated (the example of C17_ntimed_sign_refuted)
		{-1, -1},         // lo = hi = MaxInt64 exactly
		{-1, -101},       // lo + hi = 2^64 - 102
		{-301, -301},     //
		{-513, -513},     // (lo + hi) / 2 = 2^63 - 513: the last float below 2^63 is 2^63 - 1024
		{-1025, -1025},   //
		{-4001, -4001},   // inside the corner, fine
		{-8192, -8192},   // lo + hi = 2^64 - 2^14 exactly: the edge of the corner, fine
		{-8193, -8193},   // outside the corner
		{-20001, -20001}, // outside the corner
		{-1, -30001},     // outside the corner, one difference saturated
	} {
		s := smp(at(c[0]), zero, zero, at(c[1]))
		tag := "in"
		if !inCorner(s) {
			tag = "out"
		}
		ntimedHistK("ntimed.corner", []nop{{do: true, epoch: 0, s: s}}, tag)
	}
}

// ---- fixed histories (corpus) ----

func corpus() {
	for _, c := range [][2]int64{{0, 1}, {1, 0}, {-1, 3}, {3, -1}, {1, 1}, {2, 5}, {0, 0}} {
		luckyNew(c[0], c[1])
	}
	ms := int64(1000000)
	// the newest sample is the lucky one when the window becomes full
	var ops []lop
	for i, x := range [][2]int64{{5, 40}, {6, 42}, {1, 10}, {7, 44}, {8, 46}, {9, 48}} {
		ops = append(ops, lop{do: true, s: mkSample(i, x[0]*ms, x[1]*ms, x[1]*ms/2, 0)})
	}
	luckyHist(3, 1, ops, "nt,wrap")
	luckyHist(3, 2, ops, "nt,wrap")
	luckyHist(3, 7, ops, "nt,wrap,pickcap")
	luckyHist(0, 0, ops, "uncfg")
	// third sample since a reset point with a one-sided outlier, three ways to get there
	warm := [][2]int64{{10, 10}, {11, 11}, {10, 50}, {10, 10}, {50, 10}, {10, 11}, {10, 50}}
	mk := func(seq int, ob [2]int64, e uint64) nop {
		return nop{do: true, epoch: e, s: mkSample(seq, 3*ms, (ob[0]+ob[1])*ms, ob[0]*ms, 0)}
	}
	var nops []nop
	for i, x := range warm {
		nops = append(nops, mk(i, x, 0))
	}
	ntimedHist(nops, "")
	var n2 []nop
	for i := 0; i < 10; i++ {
		n2 = append(n2, mk(i, [2]int64{5, 5}, 0))
	}
	n2 = append(n2, nop{do: false, epoch: 0})
	for i, x := range warm {
		n2 = append(n2, mk(10+i, x, 0))
	}
	for i := 0; i < 10; i++ {
		n2 = append(n2, mk(20+i, [2]int64{5, 5}, 0))
	}
	for i, x := range warm {
		n2 = append(n2, mk(30+i, x, 1))
	}
	ntimedHist(n2, "")
}

// ---- replay ----

func tokens(s string) []string {
	s = strings.ReplaceAll(s, "[", " [ ")
	s = strings.ReplaceAll(s, "]", " ] ")
	return strings.Fields(s)
}

// parseOps reads "[ [..] [..] ]" starting at tok[i] and returns the inner lists.
func parseOps(tok []string, i int) [][]string {
	if tok[i] != "[" {
		panic("expected [")
	}
	i++
	var out [][]string
	for tok[i] != "]" {
		if tok[i] != "[" {
			panic("expected [")
		}
		i++
		var cur []string
		for tok[i] != "]" {
			cur = append(cur, tok[i])
			i++
		}
		i++
		out = append(out, cur)
	}
	return out
}

// parseLists reads consecutive "[ [..] .. ]" groups starting at tok[i].
func parseLists(tok []string, i int) (out [][][]string) {
	for i < len(tok) {
		l := parseOps(tok, i)
		out = append(out, l)
		depth := 0
		for {
			if tok[i] == "[" {
				depth++
			} else if tok[i] == "]" {
				depth--
			}
			i++
			if depth == 0 {
				break
			}
		}
	}
	return out
}

func sampleOf(f []string) sample {
	return smp(parseTs(f[0]), parseTs(f[1]), parseTs(f[2]), parseTs(f[3]))
}

func replay(kind, tags, args string) {
	tok := tokens(args)
	switch kind {
	case "lucky.new":
		var ops []lop
		if len(tok) > 2 {
			for _, o := range parseOps(tok, 2) {
				if o[0] == "1" {
					ops = append(ops, lop{do: true, s: sampleOf(o[1:])})
				} else {
					ops = append(ops, lop{})
				}
			}
		}
		luckyNewOps(lib.ParseI(tok[0]), lib.ParseI(tok[1]), ops)
	case "lucky.inter", "ntimed.inter":
		replayInter(kind, tok)
	case "ntimed.epochsrc":
		epochSrc()
	case "svc.filters":
		replayFilters(tok)
	case "lucky.hist", "lucky.wild":
		var ops []lop
		for _, o := range parseOps(tok, 2) {
			if o[0] == "1" {
				ops = append(ops, lop{do: true, s: sampleOf(o[1:])})
			} else {
				ops = append(ops, lop{})
			}
		}
		cap, pick := lib.ParseI(tok[0]), lib.ParseI(tok[1])
		if cap < 0 || cap > 0 && pick <= 0 {
			return
		}
		luckyHistK(kind, int(cap), int(pick), ops, tags)
	case "lucky.reset":
		cap, pick := lib.ParseI(tok[0]), lib.ParseI(tok[1])
		if cap < 0 || cap > 0 && pick <= 0 {
			return
		}
		rd := func(ol [][]string) (ops []lop) {
			for _, o := range ol {
				if o[0] == "1" {
					ops = append(ops, lop{do: true, s: sampleOf(o[1:])})
				} else {
					ops = append(ops, lop{})
				}
			}
			return ops
		}
		lists := parseLists(tok, 2)
		luckyReset(int(cap), int(pick), rd(lists[0]), rd(lists[1]), tags)
	case "ntimed.reset":
		rd := func(ol [][]string) (ops []nop) {
			for _, o := range ol {
				if o[0] == "1" {
					ops = append(ops, nop{do: true, epoch: lib.ParseU(o[1]), s: sampleOf(o[2:])})
				} else {
					ops = append(ops, nop{epoch: lib.ParseU(o[1])})
				}
			}
			return ops
		}
		lists := parseLists(tok, 0)
		how := []string{}
		for _, x := range strings.Split(tags, ",") {
			if x == "explicit" || x == "epoch" || x == "twice" {
				how = append(how, x)
			}
		}
		ntimedReset(rd(lists[0]), rd(lists[1]), rd(lists[2]), strings.Join(how, ","))
	case "ntimed.hist", "ntimed.wild", "ntimed.corner":
		var ops []nop
		for _, o := range parseOps(tok, 0) {
			if o[0] == "1" {
				ops = append(ops, nop{do: true, epoch: lib.ParseU(o[1]), s: sampleOf(o[2:])})
			} else {
				ops = append(ops, nop{epoch: lib.ParseU(o[1])})
			}
		}
		t := []string{}
		for _, x := range strings.Split(tags, ",") {
			switch x {
			case "b1", "b2", "b3", "b4", "resetpt", "nt", "":
			default:
				t = append(t, x)
			}
		}
		ntimedHistK(kind, ops, strings.Join(t, ","))
	}
}

func main() {
	a := lib.ParseArgs()
	timebase.RegisterClock(clk)
	w = lib.NewWriter(a.Out)
	defer w.Close()
	defer cleanupService()
	if a.Replay != "" {
		for _, c := range lib.ReplayLines(a.Replay) {
			replay(c[0], c[1], c[2])
		}
		return
	}
	r := lib.NewRng(a.Seed)
	n := 1200
	if a.Tier == "thorough" {
		n = 15000
	}
	buildNotes()
	corpus()
	cornerCases()
	epochSrc()
	for _, c := range bigCaps {
		for _, p := range []int{1, c / 2, c, c + 5} {
			if c == 256 && p != c/2 {
				continue
			}
			luckyNew(int64(c), int64(p))
		}
	}
	{ // one history on the largest capacity: fills the window and wraps
		var ops []lop
		for i := 0; i < 256+40; i++ {
			rtd := 1000000 + int64((uint64(i)*2654435761)%1000003)
			ops = append(ops, lop{do: true, s: mkSample(i, genOffset(r, 0), rtd, rtd/2, 0)})
		}
		luckyHist(256, 100, ops, "nt,wrap,cap256")
	}
	for _, ln := range []int{300, 300, 300, 300, 600, 600} {
		genLuckyLong(r, ln)
		genNtimedLong(r, ln)
	}
	if a.Tier == "thorough" {
		genLuckyLong(r, 70000)
		genNtimedLong(r, 70000)
	}
	for i := 0; i < 6; i++ {
		monoHist(r)
	}
	nsvc := 40
	if a.Tier == "thorough" {
		nsvc = 300
	}
	filtersCases(r.Fork(), nsvc)
	for i := 0; i < n; i++ {
		if i%6 == 0 {
			genLuckyInter(r)
			genNtimedInter(r)
		}
		genLucky(r, i%40 == 0)
		genNtimed(r, i%8 == 0)
		if i%50 == 0 {
			luckyNew(r.Range(-3, 20), r.Range(-3, 20))
		}
		if i%3 == 0 {
			genLuckyReset(r)
			genNtimedReset(r)
		}
		if i%4 == 0 {
			genLuckyWild(r)
			genNtimedWild(r)
		}
	}
	fmt.Fprintf(os.Stderr, "c17: %d cases\n", w.N())
}
