// C17, service wiring: every NTP client createClocks builds has a filter of its own.
package main

import (
	"fmt"
	"os"
	"path/filepath"
	"strings"

	"verifharness/lib"
	"verifharness/svclib"
)

// filtersCase: kinds of the NTP reference clocks in configuration order (0 IP, 1 SCION),
// number of SCION peers, with or without a (stub) daemon, auth mode 0 none / 1 nts / 2 spao / 3 both.
// Observed: createClocks completed; clients per clock; per client filter type is
// *client.NtimedFilter; per client the identity of its filter (first appearance numbering).
func filtersCase(bin string, kinds []int64, npeer int, daemon bool, auth int) {
	var b strings.Builder
	b.WriteString("local_address = \"1-ff00:0:111,10.1.1.11\"\n")
	if daemon {
		b.WriteString("scion_daemon_address = \"@DAEMON@\"\n")
	}
	var refs, peers []string
	for i, k := range kinds {
		if k == 0 {
			refs = append(refs, fmt.Sprintf("%q", fmt.Sprintf("0-0,192.0.2.%d:123", i+1)))
		} else {
			refs = append(refs, fmt.Sprintf("%q", fmt.Sprintf("1-ff00:0:%x,10.1.0.%d:10123", 0x200+i, i+1)))
		}
	}
	for i := 0; i < npeer; i++ {
		peers = append(peers, fmt.Sprintf("%q", fmt.Sprintf("1-ff00:0:%x,10.2.0.%d:10123", 0x300+i, i+1)))
	}
	if len(refs) > 0 {
		fmt.Fprintf(&b, "ntp_reference_clocks = [%s]\n", strings.Join(refs, ", "))
	}
	if len(peers) > 0 {
		fmt.Fprintf(&b, "scion_peer_clocks = [%s]\n", strings.Join(peers, ", "))
	}
	switch auth {
	case 1:
		b.WriteString("auth_modes = [\"nts\"]\nntske_insecure_skip_verify = true\n")
	case 2:
		b.WriteString("auth_modes = [\"spao\"]\n")
	case 3:
		b.WriteString("auth_modes = [\"nts\", \"spao\"]\nntske_insecure_skip_verify = true\n")
	}
	res, err := svclib.Wiring(bin, b.String())
	if err != nil {
		panic(fmt.Sprintf("c17: %v", err))
	}
	ok := !res.Fatal
	var counts, types, ids []int64
	seen := map[string]int64{}
	shared := false
	for _, c := range res.Clocks {
		counts = append(counts, int64(len(c.Clients)))
		for _, ci := range c.Clients {
			t := int64(0)
			if ci.Filter == "*client.NtimedFilter" {
				t = 1
			}
			types = append(types, t)
			id := int64(-1)
			if ci.FilterPtr != "" && !ci.Nil {
				if v, have := seen[ci.FilterPtr]; have {
					id = v
					shared = true
				} else {
					id = int64(len(seen))
					seen[ci.FilterPtr] = id
				}
			}
			ids = append(ids, id)
		}
	}
	tags := []string{"nt"}
	if shared {
		tags = append(tags, "shared")
	}
	if daemon {
		tags = append(tags, "daemon")
	}
	tags = append(tags, fmt.Sprintf("auth%d", auth))
	d := int64(0)
	if daemon {
		d = 1
	}
	w.Case("svc.filters", strings.Join(tags, ","), lib.V(lib.IL(kinds), lib.I(int64(npeer)), lib.I(d), lib.I(int64(auth))),
		lib.V(lib.Bool(ok), lib.IL(counts), lib.IL(types), lib.IL(ids)))
}

var (
	svcTried bool
	svcBin   string
)

// serviceBinary: "" when the wiring hook is absent (a scratch worktree older than the
// hook) or the service does not build (a failing case of its own would belong to C01).
func serviceBinary() string {
	if svcTried {
		return svcBin
	}
	svcTried = true
	repo := svclib.RepoDir()
	if !svclib.HasHook(repo, "timeservice_wiring_verif.go") {
		fmt.Printf("NOTE svc.filters skipped: %s/timeservice_wiring_verif.go is not part of this checkout\n", repo)
		return ""
	}
	bin, err := svclib.Build(repo)
	if err != nil {
		fmt.Printf("NOTE svc.filters skipped: the service does not build with -tags verif: %s\n", strings.ReplaceAll(lastLines(err.Error(), 3), "\n", " | "))
		return ""
	}
	svcBin = bin
	return bin
}

func lastLines(s string, n int) string {
	l := strings.Split(strings.TrimSpace(s), "\n")
	if len(l) > n {
		l = l[len(l)-n:]
	}
	return strings.Join(l, "\n")
}

func cleanupService() {
	if svcBin != "" {
		os.RemoveAll(filepath.Dir(svcBin))
	}
}

func filtersCases(r *lib.Rng, n int) {
	bin := serviceBinary()
	if bin == "" {
		return
	}
	for i := 0; i < n; i++ {
		nip, nsc := 1+r.Intn(3), 1+r.Intn(3)
		if r.Intn(6) == 0 {
			nip = 0
		}
		if r.Intn(6) == 0 {
			nsc = 0
		}
		kinds := make([]int64, 0, nip+nsc)
		for j := 0; j < nip; j++ {
			kinds = append(kinds, 0)
		}
		for j := 0; j < nsc; j++ {
			kinds = append(kinds, 1)
		}
		for j := len(kinds) - 1; j > 0; j-- {
			k := r.Intn(j + 1)
			kinds[j], kinds[k] = kinds[k], kinds[j]
		}
		npeer := r.Intn(4)
		if len(kinds) == 0 && npeer == 0 {
			npeer = 1
		}
		filtersCase(bin, kinds, npeer, r.Intn(3) == 0, r.Intn(4))
	}
}

func replayFilters(tok []string) {
	bin := serviceBinary()
	if bin == "" {
		return
	}
	// [ kinds ] npeer daemon auth
	i := 1
	var kinds []int64
	for tok[i] != "]" {
		kinds = append(kinds, lib.ParseI(tok[i]))
		i++
	}
	filtersCase(bin, kinds, int(lib.ParseI(tok[i+1])), lib.ParseI(tok[i+2]) != 0, int(lib.ParseI(tok[i+3])))
}
