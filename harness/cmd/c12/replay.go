package main

import (
	"strings"
	"time"

	"verifharness/lib"
)

// node is a parsed case-file value: an atom or a list.
type node struct {
	atom string
	list []node
	isL  bool
}

func parseNodes(s string) []node {
	toks := strings.Fields(strings.NewReplacer("[", " [ ", "]", " ] ").Replace(s))
	pos := 0
	var parse func(closing bool) []node
	parse = func(closing bool) []node {
		var out []node
		for pos < len(toks) {
			t := toks[pos]
			pos++
			switch t {
			case "[":
				out = append(out, node{isL: true, list: parse(true)})
			case "]":
				if closing {
					return out
				}
				panic("unexpected ]")
			default:
				out = append(out, node{atom: t})
			}
		}
		if closing {
			panic("unterminated list")
		}
		return out
	}
	return parse(false)
}

func (n node) i(k int) int64 { return lib.ParseI(n.list[k].atom) }

// replay re-runs exactly the inputs of the given case lines.
func replay(path string) {
	for _, c := range lib.ReplayLines(path) {
		switch c[0] {
		case "prov.valid":
			f := lib.Fields(c[2])
			validCase(lib.ParseI(f[0]), lib.ParseI(f[1]), lib.ParseI(f[2]), lib.ParseI(f[3]), lib.ParseI(f[4]), lib.ParseI(f[5]))
		case "prov.hist", "prov.long":
			ns := parseNodes(c[2])
			t0 := lib.ParseI(ns[0].atom)
			var ops []opSpec
			for _, o := range ns[1].list {
				if o.i(0) == 0 {
					ops = append(ops, opSpec{t: o.i(1)})
				} else {
					ops = append(ops, opSpec{get: true, t: o.i(1), id: o.i(2)})
				}
			}
			runHistKind(c[0], t0, fixedScript(ops), "replay")
		case "prov.conc":
			ns := parseNodes(c[2])
			t0 := lib.ParseI(ns[0].atom)
			var gs []group
			for _, g := range ns[1].list {
				gr := group{t: g.i(0)}
				for _, o := range g.list[1].list {
					if o.i(1) == 0 {
						gr.ops = append(gr.ops, opSpec{g: int(o.i(0))})
					} else {
						gr.ops = append(gr.ops, opSpec{g: int(o.i(0)), get: true, id: o.i(2)})
					}
				}
				gs = append(gs, gr)
			}
			runConc(t0, fixedGroups(gs), "replay")
		case "prov.lock":
			lockCheck()
		case "prov.lsn":
			if tags, args, outs, ok := runLsnChild(1, 0, c[2], time.Now().Add(5*time.Minute)); ok {
				w.Case("prov.lsn", tags, args, outs)
			}
		}
	}
}
