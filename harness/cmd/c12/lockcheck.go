package main

import (
	"go/ast"
	"go/parser"
	"go/token"
	"os"
	"path/filepath"
	"sort"
	"strings"

	"verifharness/lib"
)

// lockCheck is the syntactic premise of the serialisation theorem: in package
// net/ntske every exported method of *Provider starts with <recv>.mu.Lock();
// defer <recv>.mu.Unlock(); unexported methods (generateNext) are only called
// from those or from the constructor NewProvider; and the fields keys,
// currentID, generatedAt are touched nowhere else.  One case, one entry per
// method / rule: [name ok].
func lockCheck() {
	repo := os.Getenv("VERIF_REPO")
	if repo == "" {
		repo = "/repo"
	}
	dir := filepath.Join(repo, "net", "ntske")
	fset := token.NewFileSet()
	pkgs, err := parser.ParseDir(fset, dir, func(fi os.FileInfo) bool { return !strings.HasSuffix(fi.Name(), "_test.go") }, 0)
	if err != nil {
		panic(err)
	}
	isSel := func(e ast.Expr, recv, a, b string) bool { // recv.a.b()
		c, ok := e.(*ast.CallExpr)
		if !ok || len(c.Args) != 0 {
			return false
		}
		s, ok := c.Fun.(*ast.SelectorExpr)
		if !ok || s.Sel.Name != b {
			return false
		}
		s2, ok := s.X.(*ast.SelectorExpr)
		if !ok || s2.Sel.Name != a {
			return false
		}
		id, ok := s2.X.(*ast.Ident)
		return ok && id.Name == recv
	}
	recvOf := func(fd *ast.FuncDecl) (string, string) { // receiver name, receiver type
		if fd.Recv == nil || len(fd.Recv.List) != 1 {
			return "", ""
		}
		f := fd.Recv.List[0]
		t := f.Type
		if st, ok := t.(*ast.StarExpr); ok {
			t = st.X
		}
		id, ok := t.(*ast.Ident)
		if !ok {
			return "", ""
		}
		name := ""
		if len(f.Names) == 1 {
			name = f.Names[0].Name
		}
		return name, id.Name
	}
	locked := map[string]bool{}   // methods of Provider that take the lock first
	unlocked := map[string]bool{} // the others
	var funcs []*ast.FuncDecl
	for _, p := range pkgs {
		for _, f := range p.Files {
			for _, d := range f.Decls {
				if fd, ok := d.(*ast.FuncDecl); ok && fd.Body != nil {
					funcs = append(funcs, fd)
					rn, rt := recvOf(fd)
					if rt != "Provider" {
						continue
					}
					ok := false
					if b := fd.Body.List; len(b) >= 2 {
						if es, ok1 := b[0].(*ast.ExprStmt); ok1 && isSel(es.X, rn, "mu", "Lock") {
							if ds, ok2 := b[1].(*ast.DeferStmt); ok2 && isSel(ds.Call, rn, "mu", "Unlock") {
								ok = true
							}
						}
					}
					if ok {
						locked[fd.Name.Name] = true
					} else {
						unlocked[fd.Name.Name] = true
					}
				}
			}
		}
	}
	res := map[string]bool{}
	for m := range locked {
		res[m] = true
	}
	for m := range unlocked {
		res[m] = !ast.IsExported(m) // an exported method without the lock is a failure; unexported ones: see callers
	}
	fieldsOK := true
	for _, fd := range funcs {
		_, rt := recvOf(fd)
		inside := (rt == "Provider" && (locked[fd.Name.Name] || unlocked[fd.Name.Name])) || (fd.Recv == nil && fd.Name.Name == "NewProvider")
		holdsLock := (rt == "Provider" && locked[fd.Name.Name]) || (fd.Recv == nil && fd.Name.Name == "NewProvider")
		ast.Inspect(fd.Body, func(n ast.Node) bool {
			switch x := n.(type) {
			case *ast.SelectorExpr:
				switch x.Sel.Name {
				case "keys", "currentID", "generatedAt":
					if !inside {
						fieldsOK = false
					}
				}
				if unlocked[x.Sel.Name] && !ast.IsExported(x.Sel.Name) && !holdsLock {
					// call of (or reference to) an unexported Provider method from a place that does not hold the lock
					if !(rt == "Provider" && unlocked[fd.Name.Name] && res[fd.Name.Name]) {
						res[x.Sel.Name] = false
					}
				}
			case *ast.GoStmt:
				if inside { // a goroutine started inside would outlive the critical section
					fieldsOK = false
				}
			}
			return true
		})
	}
	res["state-touched-only-by-Provider"] = fieldsOK
	names := make([]string, 0, len(res))
	for n := range res {
		names = append(names, n)
	}
	sort.Strings(names)
	entries := make([]string, len(names))
	for i, n := range names {
		entries[i] = lib.L(lib.V(lib.B([]byte(n)), lib.Bool(res[n])))
	}
	w.Case("prov.lock", "nt,lock", "0", lib.L(entries...))
}
