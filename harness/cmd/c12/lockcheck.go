package main

import (
	"go/ast"
	"go/parser"
	"go/token"
	"os"
	"path/filepath"
	"sort"
	"strings"

	"verifharness/lib"
)

// lockCheck is the syntactic premise of the serialisation theorem: in package
// net/ntske every exported method of *Provider starts with <recv>.mu.Lock();
// defer <recv>.mu.Unlock(); unexported methods (generateNext) are only called
// from those or from the constructor NewProvider; and the fields keys,
// currentID, generatedAt are touched nowhere else; the Provider's field mu (a
// selector .mu on an expression of type Provider / *Provider - resolved from
// receivers, parameters, local declarations, struct field types and constructor
// calls of the package; an unresolvable one counts as the Provider's; a mu reached
// through another type, e.g. the Fetcher's own lock, is not this property's
// business) is mentioned only in those opening Lock / deferred Unlock pairs (so the
// lock is never released and re-taken inside a critical section); no function
// literal touches the state.
// One case, one entry per method / rule: [name ok].
func lockCheck() {
	repo := os.Getenv("VERIF_REPO")
	if repo == "" {
		repo = "/repo"
	}
	dir := filepath.Join(repo, "net", "ntske")
	fset := token.NewFileSet()
	pkgs, err := parser.ParseDir(fset, dir, func(fi os.FileInfo) bool { return !strings.HasSuffix(fi.Name(), "_test.go") }, 0)
	if err != nil {
		panic(err)
	}
	isSel := func(e ast.Expr, recv, a, b string) bool { // recv.a.b()
		c, ok := e.(*ast.CallExpr)
		if !ok || len(c.Args) != 0 {
			return false
		}
		s, ok := c.Fun.(*ast.SelectorExpr)
		if !ok || s.Sel.Name != b {
			return false
		}
		s2, ok := s.X.(*ast.SelectorExpr)
		if !ok || s2.Sel.Name != a {
			return false
		}
		id, ok := s2.X.(*ast.Ident)
		return ok && id.Name == recv
	}
	recvOf := func(fd *ast.FuncDecl) (string, string) { // receiver name, receiver type
		if fd.Recv == nil || len(fd.Recv.List) != 1 {
			return "", ""
		}
		f := fd.Recv.List[0]
		t := f.Type
		if st, ok := t.(*ast.StarExpr); ok {
			t = st.X
		}
		id, ok := t.(*ast.Ident)
		if !ok {
			return "", ""
		}
		name := ""
		if len(f.Names) == 1 {
			name = f.Names[0].Name
		}
		return name, id.Name
	}
	// ---- a small syntactic type resolution: named types of the package only ----
	typeName := func(t ast.Expr) string { // T, *T, pkg.T -> "T" / "pkg.T"; anything else ""
		for {
			switch x := t.(type) {
			case *ast.StarExpr:
				t = x.X
				continue
			case *ast.ParenExpr:
				t = x.X
				continue
			case *ast.Ident:
				return x.Name
			case *ast.SelectorExpr:
				if id, ok := x.X.(*ast.Ident); ok {
					return id.Name + "." + x.Sel.Name
				}
			}
			return ""
		}
	}
	fieldType := map[string]map[string]string{} // struct type -> field -> type name
	funcResult := map[string]string{}           // function -> type name of its first result
	for _, p := range pkgs {
		for _, f := range p.Files {
			for _, d := range f.Decls {
				switch x := d.(type) {
				case *ast.GenDecl:
					for _, sp := range x.Specs {
						ts, ok := sp.(*ast.TypeSpec)
						if !ok {
							continue
						}
						st, ok := ts.Type.(*ast.StructType)
						if !ok {
							continue
						}
						m := map[string]string{}
						for _, fl := range st.Fields.List {
							for _, n := range fl.Names {
								m[n.Name] = typeName(fl.Type)
							}
						}
						fieldType[ts.Name.Name] = m
					}
				case *ast.FuncDecl:
					if x.Recv == nil && x.Type.Results != nil && len(x.Type.Results.List) > 0 {
						funcResult[x.Name.Name] = typeName(x.Type.Results.List[0].Type)
					}
				}
			}
		}
	}
	var typeOf func(env map[string]string, e ast.Expr) string
	typeOf = func(env map[string]string, e ast.Expr) string {
		switch x := e.(type) {
		case *ast.Ident:
			return env[x.Name]
		case *ast.ParenExpr:
			return typeOf(env, x.X)
		case *ast.StarExpr:
			return typeOf(env, x.X)
		case *ast.UnaryExpr:
			return typeOf(env, x.X)
		case *ast.CompositeLit:
			if x.Type != nil {
				return typeName(x.Type)
			}
		case *ast.SelectorExpr:
			if t := typeOf(env, x.X); t != "" {
				return fieldType[t][x.Sel.Name]
			}
		case *ast.CallExpr:
			if id, ok := x.Fun.(*ast.Ident); ok {
				if id.Name == "new" && len(x.Args) == 1 {
					return typeName(x.Args[0])
				}
				return funcResult[id.Name]
			}
		}
		return ""
	}
	// the declared / inferred types of the identifiers of one function (flat: shadowing ignored)
	envOf := func(fd *ast.FuncDecl) map[string]string {
		env := map[string]string{}
		addFields := func(fl *ast.FieldList) {
			if fl == nil {
				return
			}
			for _, f := range fl.List {
				for _, n := range f.Names {
					env[n.Name] = typeName(f.Type)
				}
			}
		}
		addFields(fd.Recv)
		addFields(fd.Type.Params)
		addFields(fd.Type.Results)
		ast.Inspect(fd.Body, func(n ast.Node) bool {
			switch x := n.(type) {
			case *ast.FuncLit:
				addFields(x.Type.Params)
			case *ast.AssignStmt:
				if x.Tok == token.DEFINE && len(x.Lhs) == len(x.Rhs) {
					for i, l := range x.Lhs {
						if id, ok := l.(*ast.Ident); ok {
							if t := typeOf(env, x.Rhs[i]); t != "" {
								env[id.Name] = t
							}
						}
					}
				}
			case *ast.ValueSpec:
				for i, n := range x.Names {
					if x.Type != nil {
						env[n.Name] = typeName(x.Type)
					} else if i < len(x.Values) {
						if t := typeOf(env, x.Values[i]); t != "" {
							env[n.Name] = t
						}
					}
				}
			}
			return true
		})
		return env
	}
	// is this selector the Provider's mutex?  (.mu through a Provider, or through something unresolvable)
	isProviderMu := func(env map[string]string, se *ast.SelectorExpr) bool {
		if se.Sel.Name != "mu" {
			return false
		}
		t := typeOf(env, se.X)
		return t == "Provider" || t == ""
	}

	locked := map[string]bool{}   // methods of Provider that take the lock first
	unlocked := map[string]bool{} // the others
	var funcs []*ast.FuncDecl
	for _, p := range pkgs {
		for _, f := range p.Files {
			for _, d := range f.Decls {
				if fd, ok := d.(*ast.FuncDecl); ok && fd.Body != nil {
					funcs = append(funcs, fd)
					rn, rt := recvOf(fd)
					if rt != "Provider" {
						continue
					}
					ok := false
					if b := fd.Body.List; len(b) >= 2 {
						if es, ok1 := b[0].(*ast.ExprStmt); ok1 && isSel(es.X, rn, "mu", "Lock") {
							if ds, ok2 := b[1].(*ast.DeferStmt); ok2 && isSel(ds.Call, rn, "mu", "Unlock") {
								ok = true
							}
						}
					}
					if ok {
						locked[fd.Name.Name] = true
					} else {
						unlocked[fd.Name.Name] = true
					}
				}
			}
		}
	}
	res := map[string]bool{}
	for m := range locked {
		res[m] = true
	}
	for m := range unlocked {
		res[m] = !ast.IsExported(m) // an exported method without the lock is a failure; unexported ones: see callers
	}
	fieldsOK := true
	muRefs := 0        // every mention of the Provider's field mu, anywhere in the package
	closuresOK := true // no function literal touches the provider's state or lock
	for _, fd := range funcs {
		_, rt := recvOf(fd)
		inside := (rt == "Provider" && (locked[fd.Name.Name] || unlocked[fd.Name.Name])) || (fd.Recv == nil && fd.Name.Name == "NewProvider")
		holdsLock := (rt == "Provider" && locked[fd.Name.Name]) || (fd.Recv == nil && fd.Name.Name == "NewProvider")
		env := envOf(fd)
		ast.Inspect(fd.Body, func(n ast.Node) bool {
			switch x := n.(type) {
			case *ast.SelectorExpr:
				switch x.Sel.Name {
				case "keys", "currentID", "generatedAt":
					if !inside {
						fieldsOK = false
					}
				}
				if unlocked[x.Sel.Name] && !ast.IsExported(x.Sel.Name) && !holdsLock {
					// call of (or reference to) an unexported Provider method from a place that does not hold the lock
					if !(rt == "Provider" && unlocked[fd.Name.Name] && res[fd.Name.Name]) {
						res[x.Sel.Name] = false
					}
				}
			case *ast.GoStmt:
				if inside { // a goroutine started inside would outlive the critical section
					fieldsOK = false
				}
			case *ast.FuncLit:
				// a closure may run when the lock is no longer (or not yet) held
				ast.Inspect(x.Body, func(m ast.Node) bool {
					if se, ok := m.(*ast.SelectorExpr); ok {
						switch se.Sel.Name {
						case "keys", "currentID", "generatedAt":
							closuresOK = false
						}
						if isProviderMu(env, se) {
							closuresOK = false
						}
						if unlocked[se.Sel.Name] && !ast.IsExported(se.Sel.Name) {
							closuresOK = false
						}
					}
					return true
				})
			}
			if se, ok := n.(*ast.SelectorExpr); ok && isProviderMu(env, se) {
				muRefs++
			}
			return true
		})
	}
	res["state-touched-only-by-Provider"] = fieldsOK
	// the only lock operations are the Lock / deferred Unlock pair that opens each locked
	// method: no Unlock/Lock in the middle of a critical section, no TryLock, no alias of mu
	res["no-other-lock-operations"] = muRefs == 2*len(locked)
	res["no-closures-over-state"] = closuresOK
	// validity is judged on the monotonic clock: every time the provider compares stems
	// from time.Now() through Add only.  In the methods of Provider and Key, in NewProvider
	// and anywhere in provider.go no call may strip the monotonic reading or rebuild a time
	// from wall-clock numbers.
	strip := map[string]bool{"Round": true, "Truncate": true, "UTC": true, "Local": true, "In": true, "AddDate": true,
		"Unix": true, "UnixNano": true, "UnixMilli": true, "UnixMicro": true, "Date": true, "Format": true,
		"MarshalBinary": true, "MarshalText": true, "MarshalJSON": true, "Parse": true, "ParseInLocation": true,
		"ZoneBounds": true, "Clock": true, "YearDay": true}
	monoOK := true
	for _, fd := range funcs {
		_, rt := recvOf(fd)
		file := filepath.Base(fset.Position(fd.Pos()).Filename)
		if !(rt == "Provider" || rt == "Key" || (fd.Recv == nil && fd.Name.Name == "NewProvider") || file == "provider.go") {
			continue
		}
		ast.Inspect(fd.Body, func(n ast.Node) bool {
			if c, ok := n.(*ast.CallExpr); ok {
				if se, ok := c.Fun.(*ast.SelectorExpr); ok && strip[se.Sel.Name] {
					monoOK = false
				}
			}
			return true
		})
	}
	res["monotonic-reading-preserved"] = monoOK
	names := make([]string, 0, len(res))
	for n := range res {
		names = append(names, n)
	}
	sort.Strings(names)
	entries := make([]string, len(names))
	for i, n := range names {
		entries[i] = lib.L(lib.V(lib.B([]byte(n)), lib.Bool(res[n])))
	}
	w.Case("prov.lock", "nt,lock", "0", lib.L(entries...))
}
