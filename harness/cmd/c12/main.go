// C12: drives the real ntske.Provider (net/ntske/provider.go) under the virtual
// clock of testing/synctest: NewProvider, then Current/Get calls at chosen
// virtual instants spanning many days, from one goroutine (prov.hist) or from
// up to eight goroutines released at the same instant (prov.conc).  The random
// key material comes from a replaced crypto/rand.Reader whose k-th 32-byte
// read is the value "k", so that "Get returns the very key Current handed out"
// is observable.  Also: Key.IsValidAt on its own (prov.valid) and a source
// check of the lock discipline of Provider (prov.lock).
package main

import (
	"crypto/rand"
	"flag"
	"encoding/binary"
	"fmt"
	"os"
	"sort"
	"strings"
	"sync"
	"sync/atomic"
	"testing/synctest"
	"time"
	_ "time/tzdata" // the zone database is compiled in: time.Local is set to a zone with DST below

	"example.com/scion-time/net/ntske"

	"verifharness/lib"
)

const (
	hour      = int64(time.Hour)
	day       = 24 * hour
	validity  = 72 * hour // what the property says: 3 days
	renewal   = 24 * hour // 24 h
	twoDays   = 48 * hour
	zeroSec   = int64(-62135596800) // time.Time{}
	tapeFill  = 0xA5
	maxGoroutines = 8
)

var w *lib.Writer

// ---- random tape -------------------------------------------------------

type tape struct{ n atomic.Int64 }

func (t *tape) Read(p []byte) (int, error) {
	k := t.n.Add(1)
	for i := range p {
		p[i] = tapeFill ^ byte(i)
	}
	var b [8]byte
	binary.BigEndian.PutUint64(b[:], uint64(k))
	copy(p, b[:])
	return len(p), nil
}

var theTape = &tape{}

// vid recovers the tape position a key value was read at (-1: not a value of the tape).
func vid(v []byte) int64 {
	if len(v) != 32 {
		return -1
	}
	for i := 8; i < 32; i++ {
		if v[i] != tapeFill^byte(i) {
			return -1
		}
	}
	return int64(binary.BigEndian.Uint64(v[:8]))
}

// ---- observations ------------------------------------------------------

type keyObs struct{ id, vid, nb, na, mono int64 }

// hasMono: does the time still carry a monotonic clock reading?  (time.Now() does; Round,
// Truncate, UTC, In, AddDate, a round trip through Unix seconds ... strip it, and then
// comparisons follow the wall clock, which this daemon itself steps.)
func hasMono(t time.Time) bool { return strings.Contains(t.String(), " m=") }

func obsKey(k ntske.Key) keyObs {
	m := int64(0)
	// (Go's time.Time can carry a monotonic reading only until the year 2157; the histories
	// with 2^16 rotations go beyond: there, and in the days before, nothing is demanded)
	now := time.Now()
	if (hasMono(k.Validity.NotBefore) && hasMono(k.Validity.NotAfter)) || !hasMono(now) || !hasMono(now.Add(100*time.Hour)) {
		m = 1
	}
	return keyObs{int64(k.ID), vid(k.Value), k.Validity.NotBefore.UnixNano(), k.Validity.NotAfter.UnixNano(), m}
}

func (k keyObs) str() string {
	return lib.V(lib.I(k.id), lib.I(k.vid), lib.I(k.nb), lib.I(k.na), lib.I(k.mono))
}

type opSpec struct {
	get bool
	t   int64 // absolute virtual time, ns since the Unix epoch
	id  int64
	g   int // goroutine (concurrent histories)
}

type opObs struct {
	op  opSpec
	ok  bool // Get: found; Current: always true
	key keyObs
	seq int64
}

func (o opObs) outStr() string {
	if !o.op.get {
		return lib.L(o.key.str())
	}
	if o.ok {
		return lib.L("1 " + o.key.str())
	}
	return lib.L("0")
}

// hist is what a generator sees of the history so far.
type hist struct {
	t0      int64
	now     int64
	issued  []opObs // Current observations
	gets    []opObs
	lastCur keyObs
	tags    map[string]bool
}

func (h *hist) note(o opObs) {
	if o.op.get {
		h.gets = append(h.gets, o)
		issuedKey := false
		for _, c := range h.issued {
			if c.key.id == o.op.id {
				issuedKey = true
				if !o.ok && o.op.t > c.key.na {
					h.tags["exp"] = true
				}
				if d := o.op.t - c.key.na; d >= -1 && d <= 1 {
					h.tags["b72"] = true
				}
				if d := o.op.t - (c.op.t + twoDays); d >= -1 && d <= 1 {
					h.tags["b48"] = true
				}
			}
		}
		if issuedKey {
			h.tags["getissued"] = true
		} else {
			h.tags["weird"] = true
		}
		return
	}
	if len(h.issued) > 0 && o.key.id != h.lastCur.id {
		h.tags["rot"] = true
	}
	if d := o.op.t - (h.lastCur.nb + renewal); len(h.issued) > 0 && d >= -1 && d <= 1 {
		h.tags["b24"] = true
	}
	if len(h.issued) > 0 && o.op.t-h.issued[len(h.issued)-1].op.t > validity {
		h.tags["gap"] = true
	}
	h.issued = append(h.issued, o)
	h.lastCur = o.key
}

func (h *hist) tagStr(extra ...string) string {
	var ts []string
	if h.tags["rot"] && h.tags["getissued"] {
		ts = append(ts, "nt")
	}
	for k := range h.tags {
		ts = append(ts, k)
	}
	for _, e := range extra {
		if e != "" {
			ts = append(ts, e)
		}
	}
	sort.Strings(ts)
	return strings.Join(ts, ",")
}

func sleepUntil(t int64) {
	if d := t - time.Now().UnixNano(); d > 0 {
		time.Sleep(time.Duration(d))
	}
}

func doOp(p *ntske.Provider, op opSpec) (o opObs) {
	o.op = op
	if op.get {
		k, ok := p.Get(int(op.id))
		o.ok = ok
		if ok {
			o.key = obsKey(k)
		}
	} else {
		o.ok = true
		o.key = obsKey(p.Current())
	}
	return o
}

// ---- sequential histories -----------------------------------------------

// runHist: NewProvider at t0, then the ops that next() yields (nil: end).
func runHist(t0 int64, next func(h *hist) *opSpec, extraTag string) { runHistKind("prov.hist", t0, next, extraTag) }

// runHistKind: kind prov.hist, or prov.long (same shape, judged by the one-pass oracle).
func runHistKind(kind string, t0 int64, next func(h *hist) *opSpec, extraTag string) {
	var obs []opObs
	h := &hist{tags: map[string]bool{}}
	panicked := false
	done := make(chan struct{}) // synctest.Run returning is not a happens-before edge the race detector knows
	synctest.Run(func() {
		defer close(done)
		defer func() {
			if r := recover(); r != nil {
				panicked = true
			}
		}()
		theTape.n.Store(0)
		sleepUntil(t0)
		h.t0 = time.Now().UnixNano()
		p := ntske.NewProvider()
		h.now = h.t0
		h.lastCur = keyObs{1, 1, h.t0, h.t0 + validity, 1}
		for {
			op := next(h)
			if op == nil {
				break
			}
			sleepUntil(op.t)
			op.t = time.Now().UnixNano()
			o := doOp(p, *op)
			if time.Now().UnixNano() != op.t {
				fmt.Println("NOTE virtual time moved during a call")
			}
			h.now = op.t
			if kind == "prov.long" {
				if !o.op.get {
					h.lastCur = o.key
				}
			} else {
				h.note(o)
			}
			obs = append(obs, o)
		}
	})
	<-done
	as, os_ := make([]string, len(obs)), make([]string, len(obs))
	for i, o := range obs {
		if o.op.get {
			as[i] = lib.L(lib.V("1", lib.I(o.op.t), lib.I(o.op.id)))
		} else {
			as[i] = lib.L(lib.V("0", lib.I(o.op.t)))
		}
		os_[i] = o.outStr()
	}
	outs := lib.L(os_...)
	if panicked {
		outs = "-1"
	}
	tags := h.tagStr(extraTag)
	if kind == "prov.long" {
		tags = extraTag
	}
	w.Case(kind, tags, lib.V(lib.I(h.t0), lib.L(as...)), outs)
}

// ---- concurrent histories ------------------------------------------------

type group struct {
	t   int64
	ops []opSpec
}

// runConc: NewProvider at t0; at each instant the calls of the group are made
// by that many goroutines released together.
func runConc(t0 int64, next func(h *hist) *group, extraTag string) {
	type gobs struct {
		t   int64
		obs []opObs
	}
	var all []gobs
	h := &hist{tags: map[string]bool{}}
	panicked := false
	done := make(chan struct{})
	synctest.Run(func() {
		defer close(done)
		theTape.n.Store(0)
		sleepUntil(t0)
		h.t0 = time.Now().UnixNano()
		p := ntske.NewProvider()
		h.now = h.t0
		h.lastCur = keyObs{1, 1, h.t0, h.t0 + validity, 1}
		var seq atomic.Int64
		for {
			g := next(h)
			if g == nil || panicked {
				break
			}
			sleepUntil(g.t)
			now := time.Now().UnixNano()
			res := make([]opObs, len(g.ops))
			start := make(chan struct{})
			var wg sync.WaitGroup
			var mu sync.Mutex
			// the calls of one goroutine, in the order listed
			byG := map[int][]int{}
			var gs []int
			for i := range g.ops {
				g.ops[i].t = now
				if _, ok := byG[g.ops[i].g]; !ok {
					gs = append(gs, g.ops[i].g)
				}
				byG[g.ops[i].g] = append(byG[g.ops[i].g], i)
			}
			for _, gi := range gs {
				wg.Add(1)
				go func(idx []int) {
					defer wg.Done()
					defer func() {
						if r := recover(); r != nil {
							mu.Lock()
							panicked = true
							mu.Unlock()
						}
					}()
					<-start
					mine := int64(-7) // id of the key my own last Current returned
					for _, i := range idx {
						op := g.ops[i]
						if op.get && op.id == -7 {
							if mine == -7 {
								mine = h.lastCur.id
							}
							op.id = mine
						}
						o := doOp(p, op)
						o.seq = seq.Add(1)
						if !op.get {
							mine = o.key.id
						}
						if time.Now().UnixNano() != now {
							fmt.Println("NOTE virtual time moved during a call")
						}
						res[i] = o
					}
				}(byG[gi])
			}
			close(start)
			wg.Wait()
			sort.Slice(res, func(a, b int) bool { return res[a].seq < res[b].seq })
			h.now = now
			// generator bookkeeping: Currents first (they all return the same key)
			for _, o := range res {
				if !o.op.get {
					h.note(o)
				}
			}
			for _, o := range res {
				if o.op.get {
					h.note(o)
				}
			}
			all = append(all, gobs{now, res})
		}
	})
	<-done
	as, os_ := make([]string, len(all)), make([]string, len(all))
	for i, g := range all {
		a, o := make([]string, len(g.obs)), make([]string, len(g.obs))
		for j, x := range g.obs {
			if x.op.get {
				a[j] = lib.L(lib.V(lib.I(int64(x.op.g)), "1", lib.I(x.op.id)))
			} else {
				a[j] = lib.L(lib.V(lib.I(int64(x.op.g)), "0"))
			}
			o[j] = x.outStr()
		}
		as[i] = lib.L(lib.V(lib.I(g.t), lib.L(a...)))
		os_[i] = lib.L(o...)
	}
	outs := lib.L(os_...)
	if panicked {
		outs = "-1"
	}
	h.tags["conc"] = true
	w.Case("prov.conc", h.tagStr(extraTag), lib.V(lib.I(h.t0), lib.L(as...)), outs)
}

// ---- generators -----------------------------------------------------------

var epoch2000 = time.Date(2000, 1, 1, 0, 0, 0, 0, time.UTC).UnixNano() // where synctest's clock starts

type gen struct {
	r     *lib.Rng
	left  int
	style int
	// pending: a follow-up call to make at the same instant or right after
	pend []opSpec
}

func jitter(r *lib.Rng) int64 {
	switch r.Intn(8) {
	case 0, 1:
		return 0
	case 2:
		return 1
	case 3:
		return -1
	case 4:
		return r.Range(-3, 3)
	case 5:
		return r.Range(-int64(time.Second), int64(time.Second))
	case 6:
		return r.Range(-int64(time.Minute), int64(time.Minute))
	default:
		return lib.Pick(r, int64(2), -2, 1, -1, 0)
	}
}

func (g *gen) pickIssued(h *hist) *opObs {
	if len(h.issued) == 0 {
		return nil
	}
	n := len(h.issued)
	if g.r.Intn(3) > 0 { // bias to the recent ones
		k := g.r.Intn(min(n, 6))
		return &h.issued[n-1-k]
	}
	return &h.issued[g.r.Intn(n)]
}

func (g *gen) weirdID(h *hist) int64 {
	r := g.r
	switch r.Intn(8) {
	case 0:
		return 0
	case 1:
		return -1
	case 2:
		return h.lastCur.id + 1
	case 3:
		return h.lastCur.id + 2
	case 4:
		return lib.Pick(r, int64(1<<16), 1<<16+1, 1<<31, 1<<32+1, 1<<63-1, -1<<63)
	case 5:
		return h.lastCur.id + 65536
	case 6:
		return r.Range(-3, h.lastCur.id+3)
	default:
		return r.I64()
	}
}

// nextTime chooses the next instant (>= h.now) and, possibly, the call that goes with it.
func (g *gen) nextTime(h *hist) (int64, *opSpec) {
	r := g.r
	now := h.now
	mode := r.Intn(100)
	switch g.style {
	case 1: // steady traffic
		if mode < 70 {
			mode = 40 + r.Intn(25)
		}
	case 2: // sparse: Current every ~20 h
		if mode < 50 {
			return now + 20*hour + lib.Pick(r, int64(0), 0, 1, -1, r.Range(-hour, hour)), &opSpec{}
		}
	case 3: // idle gaps
		if mode < 40 {
			mode = 90
		}
	}
	switch {
	case mode < 40: // a boundary of a known key
		var c *opObs
		if c = g.pickIssued(h); c == nil {
			c = &opObs{op: opSpec{t: h.t0}, key: h.lastCur}
		}
		var t int64
		var op *opSpec
		switch r.Intn(7) {
		case 0, 1: // renewal boundary: Current
			t = c.key.nb + renewal
			op = &opSpec{}
		case 2, 3: // expiry: Get
			t = c.key.na
			op = &opSpec{get: true, id: c.key.id}
		case 4, 5: // two days after it was handed out: Get
			t = c.op.t + twoDays
			op = &opSpec{get: true, id: c.key.id}
		default:
			t = c.key.nb + lib.Pick(r, twoDays, validity+renewal, renewal/2, validity+hour)
			if r.Bool() {
				op = &opSpec{get: true, id: c.key.id}
			}
		}
		t += jitter(r)
		if t < now {
			if r.Intn(3) == 0 {
				return now, op
			}
			// this key's boundaries are behind us: use the newest key instead
			t = h.lastCur.nb + lib.Pick(r, renewal, validity, twoDays) + jitter(r)
			op = nil
			if t < now {
				t = now + r.Range(0, 30*hour)
			}
		}
		return t, op
	case mode < 65: // short steps
		return now + lib.Pick(r, int64(0), 0, 1, 1, 2, r.Range(0, 1000), r.Range(0, int64(time.Second)), r.Range(0, int64(time.Hour))), nil
	case mode < 88: // hours
		return now + r.Range(0, 30*hour), nil
	default: // idle gaps
		d := lib.Pick(r, renewal, renewal+hour, twoDays, twoDays+2*hour, validity, validity+hour, validity+renewal, validity+renewal+4*hour, 10*day, 30*day)
		return now + d + jitter(r)*int64(r.Intn(2)), nil
	}
}

func (g *gen) chooseOp(h *hist) opSpec {
	r := g.r
	x := r.Intn(100)
	switch {
	case x < 42:
		return opSpec{}
	case x < 90:
		if c := g.pickIssued(h); c != nil {
			return opSpec{get: true, id: c.key.id}
		}
		return opSpec{get: true, id: h.lastCur.id}
	default:
		return opSpec{get: true, id: g.weirdID(h)}
	}
}

func (g *gen) next(h *hist) *opSpec {
	if len(g.pend) > 0 {
		op := g.pend[0]
		g.pend = g.pend[1:]
		op.t += h.now
		return &op
	}
	if g.left <= 0 {
		return nil
	}
	g.left--
	t, op := g.nextTime(h)
	if op == nil {
		o := g.chooseOp(h)
		op = &o
	}
	op.t = t
	r := g.r
	// follow-ups: look the key up right after it was handed out, or around the same boundary
	if !op.get && r.Intn(3) == 0 {
		g.pend = append(g.pend, opSpec{get: true, id: -7, t: lib.Pick(r, int64(0), 0, 1)}) // -7: id of the key just handed out
	}
	if op.get && r.Intn(4) == 0 {
		g.pend = append(g.pend, opSpec{get: true, id: op.id, t: lib.Pick(r, int64(0), 1, 1, 2)})
	}
	return op
}

func (g *gen) nextFixed(h *hist) *opSpec {
	op := g.next(h)
	if op != nil && op.get && op.id == -7 {
		op.id = h.lastCur.id
	}
	return op
}

func (g *gen) nextGroup(h *hist) *group {
	if g.left <= 0 {
		return nil
	}
	g.left--
	r := g.r
	t, op := g.nextTime(h)
	n := 1 + r.Intn(maxGoroutines)
	if r.Intn(4) == 0 {
		n = maxGoroutines
	}
	perm := make([]int, maxGoroutines)
	for i := range perm {
		perm[i] = i
	}
	for i := len(perm) - 1; i > 0; i-- {
		j := r.Intn(i + 1)
		perm[i], perm[j] = perm[j], perm[i]
	}
	gr := &group{t: t}
	for i := 0; i < n; i++ {
		calls := 1
		if r.Intn(2) == 0 {
			calls = 2 + r.Intn(4)
		}
		for c := 0; c < calls; c++ {
			var o opSpec
			switch {
			case i == 0 && c == 0 && op != nil:
				o = *op
			case r.Intn(5) == 0:
				// the key that a rotation at this very instant would create
				o = opSpec{get: true, id: h.lastCur.id + 1}
			case c > 0 && r.Intn(3) == 0:
				// the key my own Current just returned (or the newest known one)
				o = opSpec{get: true, id: -7}
			default:
				o = g.chooseOp(h)
			}
			o.g = perm[i]
			gr.ops = append(gr.ops, o)
		}
	}
	if r.Intn(2) == 0 { // interleave the listing (only the order within one goroutine means anything)
		for i := len(gr.ops) - 1; i > 0; i-- {
			j := r.Intn(i + 1)
			if gr.ops[i].g != gr.ops[j].g {
				gr.ops[i], gr.ops[j] = gr.ops[j], gr.ops[i]
			}
		}
	}
	return gr
}

// ---- very long histories: more rotations than a 16-bit id can count --------

// longHist: n Current calls, the i-th step(i) after the previous one (every step
// > 24 h, so every call rotates); around the 2^16-th key and every 1000 calls a burst
// of Gets: the newest ids, the ids 2^16 below them, the ids a 16-bit counter would alias.
func longHist(t0 int64, n int, step func(i int) int64, tag string) {
	i := 0
	t := t0
	var pend []opSpec  // to be made now, in this order
	var timed []opSpec // to be made at their time (kept sorted), between the rotations
	doneFor := -1
	addTimed := func(o opSpec) {
		timed = append(timed, o)
		sort.SliceStable(timed, func(a, b int) bool { return timed[a].t < timed[b].t })
	}
	next := func(h *hist) *opSpec {
		if len(pend) > 0 {
			o := pend[0]
			pend = pend[1:]
			return &o
		}
		if i >= n && len(timed) == 0 {
			return nil
		}
		if i > 0 && i < n && doneFor != i {
			doneFor = i
			c := h.lastCur.id
			near := i+1 >= 65530 && i+1 <= 65545
			if near || i%1000 == 0 {
				ids := []int64{c, c - 1, c - 2, c - 3}
				if near {
					ids = append(ids, c-65536, c&0xFFFF, (c-1)&0xFFFF, 65535, 65536, 65537, 0, 1, c+65536)
				}
				for _, id := range ids {
					pend = append(pend, opSpec{get: true, t: t, id: id})
				}
			}
			// the boundaries of this key, one second before and after: renewal (Current) and
			// end of validity / two days after hand-out (Get) - for a sample, and for the keys
			// beyond 2^16
			if i%997 == 0 || (i+1 >= 65534 && i+1 <= 65560) {
				nb := h.lastCur.nb
				s1 := int64(time.Second)
				addTimed(opSpec{t: nb + renewal - s1})
				addTimed(opSpec{get: true, t: nb + renewal - s1, id: c})
				for _, d := range []int64{twoDays - s1, twoDays + s1, validity - s1, validity, validity + 1, validity + s1} {
					addTimed(opSpec{get: true, t: nb + d, id: c})
				}
			}
		}
		if len(pend) > 0 {
			o := pend[0]
			pend = pend[1:]
			return &o
		}
		// the next rotation, unless a timed call comes first
		tn := t
		if i < n {
			tn = t + step(i+1)
		}
		if len(timed) > 0 && (i >= n || timed[0].t <= tn) {
			o := timed[0]
			timed = timed[1:]
			if o.t < h.now {
				o.t = h.now
			}
			return &o
		}
		i++
		t = tn
		return &opSpec{t: t}
	}
	runHistKind("prov.long", t0, next, "nt,long,"+tag)
}

// ---- IsValidAt -------------------------------------------------------------

func validCase(nbs, nbn, nas, nan, ts, tn int64) {
	var k ntske.Key
	k.Validity.NotBefore = time.Unix(nbs, nbn)
	k.Validity.NotAfter = time.Unix(nas, nan)
	v := k.IsValidAt(time.Unix(ts, tn))
	tags := ""
	if (ts == nbs && tn-nbn >= -1 && tn-nbn <= 1) || (ts == nas && tn-nan >= -1 && tn-nan <= 1) {
		tags = "nt,edge"
	}
	w.Case("prov.valid", tags, lib.V(lib.I(nbs), lib.I(nbn), lib.I(nas), lib.I(nan), lib.I(ts), lib.I(tn)), lib.Bool(v))
}

func genValid(r *lib.Rng) {
	nbs := lib.Pick(r, zeroSec, 0, 946684800, 946684800+r.Range(0, 40*86400), r.Range(-1<<33, 1<<33))
	nbn := lib.Pick(r, int64(0), 1, 999999999, r.Range(0, 999999999))
	nas, nan := nbs+lib.Pick(r, int64(259200), 0, 86400, -5, r.Range(0, 300000)), nbn
	if r.Intn(4) == 0 {
		nan = r.Range(0, 999999999)
	}
	if r.Intn(10) == 0 {
		nas, nan = zeroSec, 0
	}
	var ts, tn int64
	switch r.Intn(5) {
	case 0:
		ts, tn = nbs, nbn+lib.Pick(r, int64(-1), 0, 1)
	case 1:
		ts, tn = nas, nan+lib.Pick(r, int64(-1), 0, 1)
	case 2:
		ts, tn = r.Range(nbs-10, nas+10), r.Range(0, 999999999)
	case 3:
		ts, tn = lib.Pick(r, nbs-1, nas+1, nbs, nas), lib.Pick(r, int64(0), 999999999, nbn, nan)
	default:
		ts, tn = r.Range(-1<<33, 1<<33), r.Range(0, 999999999)
	}
	// time.Unix normalises nsec outside [0, 1e9); keep the case file in normal form
	norm := func(s, n int64) (int64, int64) {
		for n < 0 {
			s, n = s-1, n+1000000000
		}
		for n >= 1000000000 {
			s, n = s+1, n-1000000000
		}
		return s, n
	}
	nbs, nbn = norm(nbs, nbn)
	nas, nan = norm(nas, nan)
	ts, tn = norm(ts, tn)
	validCase(nbs, nbn, nas, nan, ts, tn)
}

// ---- main ---------------------------------------------------------------

// dstNear: a start up to five days before one of the two changes of daylight saving
// time in Zurich in 2000 (26 March 01:00 UTC, 29 October 01:00 UTC).
func dstNear(r *lib.Rng) int64 {
	d := lib.Pick(r, time.Date(2000, 3, 26, 1, 0, 0, 0, time.UTC), time.Date(2000, 10, 29, 1, 0, 0, 0, time.UTC)).UnixNano()
	return d - r.Range(0, 5*day) + lib.Pick(r, int64(0), 1, -1, r.Range(-hour, hour))
}

func fixedScript(ops []opSpec) func(h *hist) *opSpec {
	i := 0
	return func(h *hist) *opSpec {
		if i >= len(ops) {
			return nil
		}
		o := ops[i]
		i++
		return &o
	}
}

func fixedGroups(gs []group) func(h *hist) *group {
	i := 0
	return func(h *hist) *group {
		if i >= len(gs) {
			return nil
		}
		g := gs[i]
		i++
		return &g
	}
}

// corpus: the histories that the known seeded changes need (idle gaps; sparse
// traffic with a lookup between expiry and the next rotation)
func corpus() {
	t0 := epoch2000
	var ops []opSpec
	t := t0
	add := func(d int64, get bool, id int64) {
		t += d
		ops = append(ops, opSpec{get: get, t: t, id: id})
	}
	// idle gaps of growing length, key looked up right after it was handed out
	for _, d := range []int64{hour, 25 * hour, 50 * hour, 100 * hour, 10 * day, int64(time.Minute), 30 * hour} {
		add(d, false, 0)
		add(0, true, -7)
	}
	runHist(t0, (&scripted{ops: ops}).next, "corpus")
	// sparse traffic: Current every 20 h; key 1 looked up around its expiry
	ops, t = nil, t0
	add(0, false, 0)
	add(20*hour, false, 0)
	add(20*hour, false, 0)
	add(20*hour, false, 0)
	add(0, true, 1)
	add(12*hour-1, true, 1)
	add(1, true, 1)
	add(1, true, 1)
	add(5*hour, true, 1)
	add(0, false, 0)
	add(0, true, -7)
	add(validity, true, -7)
	add(1, true, -7)
	add(int64(time.Second), true, -7)
	runHist(t0, (&scripted{ops: ops}).next, "corpus")
}

// scripted replays fixed ops; id -7 stands for "the key Current handed out last".
type scripted struct {
	ops []opSpec
	i   int
}

func (s *scripted) next(h *hist) *opSpec {
	if s.i >= len(s.ops) {
		return nil
	}
	o := s.ops[s.i]
	s.i++
	if o.get && o.id == -7 {
		o.id = h.lastCur.id
	}
	return &o
}

var (
	lsnChildFlag = flag.Bool("lsnchild", false, "internal: play one listener history and print it")
	lsnStepsFlag = flag.Int("lsnsteps", 30, "internal: steps of the listener history")
)

func main() {
	a := lib.ParseArgs()
	if *lsnChildFlag {
		lsnChild(a.Seed, *lsnStepsFlag, os.Getenv("C12_LSN_SCRIPT"))
		return
	}
	rand.Reader = theTape
	// the provider must not depend on the local zone: run everything in one with
	// daylight saving (an AddDate-style computation would give 71 h / 73 h days)
	if loc, err := time.LoadLocation("Europe/Zurich"); err == nil {
		time.Local = loc
	} else {
		fmt.Println("NOTE no zone database:", err)
	}
	w = lib.NewWriter(a.Out)
	defer w.Close()
	if a.Replay != "" {
		replay(a.Replay)
		return
	}
	r := lib.NewRng(a.Seed)
	nh, nc, nv := 2600, 900, 3000
	if a.Tier == "thorough" {
		nh, nc, nv = 60000, 15000, 40000
	}
	lockCheck()
	nl, budget := 14, 150*time.Second
	if a.Tier == "thorough" {
		nl, budget = 120, 900*time.Second
	}
	lsnCases(a.Seed, nl, budget)
	corpus()
	longHist(epoch2000, 65600, func(int) int64 { return renewal + 1 }, "wrap16")
	if a.Tier == "thorough" {
		rl := r.Fork()
		longHist(epoch2000+r.Range(0, 400*day), 66000, func(int) int64 { return renewal + 1 + rl.Range(0, 16*hour) }, "wrap16")
		longHist(epoch2000+999999999, 70000, func(i int) int64 {
			if i%7 == 0 {
				return validity + 1 // every key expired
			}
			return renewal + lib.Pick(rl, int64(1), 2, 1000, hour)
		}, "wrap16")
	}
	for i := 0; i < nh; i++ {
		g := &gen{r: r, style: r.Intn(5)}
		switch r.Intn(10) {
		case 0:
			g.left = 150 + r.Intn(150)
		case 1, 2:
			g.left = 1 + r.Intn(6)
		default:
			g.left = 6 + r.Intn(40)
		}
		t0 := epoch2000
		switch r.Intn(6) {
		case 0, 1:
			t0 += lib.Pick(r, int64(1), 999999999, r.Range(0, 400*day))
		case 2:
			t0 = dstNear(r)
		}
		runHist(t0, g.nextFixed, "")
	}
	for i := 0; i < nc; i++ {
		g := &gen{r: r, style: r.Intn(5), left: 3 + r.Intn(25)}
		t0 := epoch2000
		switch r.Intn(6) {
		case 0, 1:
			t0 += r.Range(0, 400*day)
		case 2:
			t0 = dstNear(r)
		}
		runConc(t0, g.nextGroup, "")
	}
	for i := 0; i < nv; i++ {
		genValid(r)
	}
	if _, err := os.Stat(a.Out); err != nil {
		panic(err)
	}
}
