package main

// prov.lsn: the listeners' use of the provider.  A child process (its own
// loopback address 127.12.<pid>) runs the real NTS-KE server
// (server.StartNTSKEServerIP), the real IP and SCION NTP listeners
// (server.StartIPServer, server.StartSCIONServer) on one real ntske.Provider and
// plays one history against them: key exchanges through the real ntske.Fetcher
// (TLS), NTS requests built as the client builds them (nts.NewRequestPacket /
// EncodePacket) with a chosen cookie - an old one, a re-issued one -, and between
// the steps the provider is made older with the committed hook Provider.VerifAge
// (minutes to days, across the 24 h renewal, the 72 h validity and "48 h after
// hand-out", each at +-1 s).  Virtual time = real time since NewProvider + ageing;
// every step is bracketed by two readings [tlo, thi].  Observed: answered or not
// (decided by a plain NTP sentinel request sent afterwards from the same socket;
// a reply counts when it verifies under the session's S2C key), and the key id in
// the clear header of every cookie handed out.  Four client sockets per listener
// (SO_REUSEPORT spreads them over the listener goroutines); some steps are bursts
// of requests sent at once through different sockets; key exchanges go over TLS
// and over QUIC/SCION (server.StartNTSKEServerSCION).  The generation time of a
// key and the hand-out time of a cookie are only known up to the bracket of the
// step that produced them; a history in which the bracket of a step, widened by
// that uncertainty, contains a decision boundary is thrown away and played again
// (the verdict must not depend on scheduling; steps are planned >= 1 s away).

import (
	"bufio"
	"bytes"
	"context"
	"crypto/ecdsa"
	"crypto/elliptic"
	crand "crypto/rand"
	"crypto/tls"
	"crypto/x509"
	"crypto/x509/pkix"
	"encoding/binary"
	"fmt"
	"log/slog"
	"math/big"
	"net"
	"os"
	"os/exec"
	"sort"
	"strconv"
	"strings"
	"sync"
	"sync/atomic"
	"time"

	"github.com/google/gopacket"
	"github.com/scionproto/scion/pkg/addr"
	"github.com/scionproto/scion/pkg/slayers"
	"github.com/scionproto/scion/pkg/slayers/path/empty"
	spath "github.com/scionproto/scion/pkg/snet/path"

	"example.com/scion-time/core/server"
	"example.com/scion-time/core/timebase"
	"example.com/scion-time/net/ntp"
	"example.com/scion-time/net/nts"
	"example.com/scion-time/net/ntske"
	"example.com/scion-time/net/scion"
	"example.com/scion-time/net/udp"

	"verifharness/lib"
)

type sysClock struct{}

func (sysClock) Epoch() uint64                                    { return 0 }
func (sysClock) Now() time.Time                                   { return time.Now().UTC() }
func (sysClock) Drift(d time.Duration) time.Duration              { return 0 }
func (sysClock) Step(offset time.Duration)                        {}
func (sysClock) Adjust(offset, duration time.Duration, f float64) {}
func (sysClock) Sleep(d time.Duration)                            { time.Sleep(d) }

const (
	lsnNTPPort   = 21210
	lsnSCIONPort = 21211
	scionUDPSrc  = 40123
	sentinelSecs = 0x5E471E12
	srvIA        = 0x0001ff0000000112
	cliIA        = 0x0001ff0000000111
	sec          = int64(time.Second)
	ms           = int64(time.Millisecond)
	ambSlack     = 20 * ms
	nSocks       = 4
)

var lsnIA addr.IA

func init() {
	ia, err := addr.ParseIA("1-ff00:0:112")
	if err != nil {
		panic(err)
	}
	lsnIA = ia
}

// ---- the listeners of the child ------------------------------------------

type lsnSock struct {
	scion bool
	dst   *net.UDPAddr
	conn  *net.UDPConn
	ip    net.IP
	seq   uint32
}

type lsnSession struct{ c2s, s2c []byte }

type lsnCookie struct {
	b        []byte
	id       int64
	issue    int64 // thi of the step that handed it out
	issueLo  int64 // tlo of that step
	sess     *lsnSession
}

type span struct{ lo, hi int64 }

type lsnEnv struct {
	ip       net.IP
	provider *ntske.Provider
	start    time.Time
	aged     int64
	pool     *x509.CertPool
	log      *slog.Logger
	socks    [2][nSocks]*lsnSock
	quic     bool            // the NTS-KE server over QUIC/SCION is up
	keys     map[int64]int64 // key id -> generation time (thi of the step that first showed it)
	keyLo    map[int64]int64 // ... and the tlo of that step: the key was generated in between
	maxID    int64
	cookies  []lsnCookie
	amb      bool
	lost     bool
}

func (e *lsnEnv) vnow() int64 { return int64(time.Since(e.start)) + e.aged }

func newLsnEnv() *lsnEnv {
	pid := os.Getpid()
	e := &lsnEnv{ip: net.IPv4(127, 12, byte(pid>>8), byte(pid)).To4(), log: slog.New(slog.DiscardHandler), keys: map[int64]int64{}, keyLo: map[int64]int64{}}
	timebase.RegisterClock(sysClock{})
	priv, err := ecdsa.GenerateKey(elliptic.P256(), crand.Reader)
	if err != nil {
		panic(err)
	}
	tmpl := &x509.Certificate{
		SerialNumber: big.NewInt(12), Subject: pkix.Name{CommonName: "c12 harness"},
		NotBefore: time.Now().Add(-time.Hour), NotAfter: time.Now().Add(24 * time.Hour),
		KeyUsage:    x509.KeyUsageDigitalSignature | x509.KeyUsageCertSign,
		ExtKeyUsage: []x509.ExtKeyUsage{x509.ExtKeyUsageServerAuth}, BasicConstraintsValid: true, IsCA: true,
		IPAddresses: []net.IP{e.ip},
	}
	der, err := x509.CreateCertificate(crand.Reader, tmpl, tmpl, &priv.PublicKey, priv)
	if err != nil {
		panic(err)
	}
	cert, _ := x509.ParseCertificate(der)
	e.pool = x509.NewCertPool()
	e.pool.AddCert(cert)
	srvTLS := &tls.Config{
		Certificates: []tls.Certificate{{Certificate: [][]byte{der}, PrivateKey: priv}},
		NextProtos:   []string{"ntske/1"}, MinVersion: tls.VersionTLS13,
	}
	ctx := context.Background()
	e.start = time.Now()
	e.provider = ntske.NewProvider()
	e.keys[1], e.keyLo[1], e.maxID = 0, 0, 1
	ipDst := &net.UDPAddr{IP: e.ip, Port: lsnNTPPort}
	scDst := &net.UDPAddr{IP: e.ip, Port: lsnSCIONPort}
	server.StartIPServer(ctx, e.log, ipDst, 0, e.provider)
	server.StartSCIONServer(ctx, e.log, "" /* no daemon */, scDst, 0, e.provider)
	server.StartNTSKEServerIP(ctx, e.log, e.ip, lsnNTPPort, srvTLS, e.provider)
	func() {
		defer func() {
			if r := recover(); r != nil {
				fmt.Println("NOTE c12: NTS-KE over QUIC/SCION not available:", r)
			}
		}()
		server.StartNTSKEServerSCION(ctx, e.log, udp.UDPAddr{IA: lsnIA, Host: &net.UDPAddr{IP: e.ip, Port: lsnSCIONPort}}, srvTLS, e.provider)
		e.quic = true
	}()
	for i, dst := range []*net.UDPAddr{ipDst, scDst} {
		for j := 0; j < nSocks; j++ {
			c, err := net.ListenUDP("udp4", &net.UDPAddr{IP: e.ip, Port: 0})
			if err != nil {
				panic(err)
			}
			c.SetReadBuffer(1 << 20)
			e.socks[i][j] = &lsnSock{scion: i == 1, dst: dst, conn: c, ip: e.ip}
		}
	}
	for i := 0; ; i++ {
		c, err := net.DialTimeout("tcp", net.JoinHostPort(e.ip.String(), strconv.Itoa(ntske.ServerPortIP)), time.Second)
		if err == nil {
			c.Close()
			break
		}
		if i > 200 {
			panic(err)
		}
		time.Sleep(20 * time.Millisecond)
	}
	return e
}

// SCION/UDP encapsulation (empty path: client and server in one AS)
func (l *lsnSock) wrap(payload []byte) []byte {
	if !l.scion {
		return payload
	}
	var scn slayers.SCION
	scn.FlowID = 1
	scn.NextHdr = slayers.L4UDP
	scn.PathType = empty.PathType
	scn.Path = empty.Path{}
	scn.DstIA, scn.SrcIA = addr.IA(srvIA), addr.IA(cliIA)
	scn.DstAddrType, scn.SrcAddrType = slayers.T4Ip, slayers.T4Ip
	scn.RawDstAddr, scn.RawSrcAddr = []byte(l.ip), []byte(l.ip)
	var l4 slayers.UDP
	l4.SrcPort, l4.DstPort = scionUDPSrc, lsnSCIONPort
	l4.SetNetworkLayerForChecksum(&scn)
	sb := gopacket.NewSerializeBuffer()
	if err := gopacket.SerializeLayers(sb, gopacket.SerializeOptions{ComputeChecksums: true, FixLengths: true},
		&scn, &l4, gopacket.Payload(payload)); err != nil {
		panic(err)
	}
	return append([]byte(nil), sb.Bytes()...)
}

func (l *lsnSock) unwrap(d []byte) (payload []byte, ok bool) {
	if !l.scion {
		return d, true
	}
	defer func() {
		if recover() != nil {
			payload, ok = nil, false
		}
	}()
	var scn slayers.SCION
	if err := scn.DecodeFromBytes(d, gopacket.NilDecodeFeedback); err != nil {
		return nil, false
	}
	if scn.NextHdr != slayers.L4UDP || scn.DstIA != addr.IA(cliIA) || scn.SrcIA != addr.IA(srvIA) {
		return nil, false
	}
	var l4 slayers.UDP
	if err := l4.DecodeFromBytes(scn.Payload, gopacket.NilDecodeFeedback); err != nil {
		return nil, false
	}
	if l4.SrcPort != lsnSCIONPort || l4.DstPort != scionUDPSrc {
		return nil, false
	}
	return append([]byte(nil), l4.Payload...), true
}

// probe sends pkt, then a plain NTP sentinel, and returns the payloads received
// before the sentinel's answer (the listener goroutine that owns this 4-tuple
// answers in order); ok = false: the sentinel was lost.
func (l *lsnSock) probe(pkt []byte) (replies [][]byte, ok bool) {
	l.seq++
	s := make([]byte, 48)
	s[0] = 4<<3 | 3
	binary.BigEndian.PutUint32(s[40:], sentinelSecs)
	binary.BigEndian.PutUint32(s[44:], l.seq)
	if _, err := l.conn.WriteToUDP(l.wrap(pkt), l.dst); err != nil {
		panic(err)
	}
	ws := l.wrap(s)
	buf := make([]byte, 4096)
	for attempt := 0; attempt < 3; attempt++ {
		if _, err := l.conn.WriteToUDP(ws, l.dst); err != nil {
			panic(err)
		}
		l.conn.SetReadDeadline(time.Now().Add(10 * time.Second))
		for {
			n, _, err := l.conn.ReadFromUDP(buf)
			if err != nil {
				break
			}
			d, good := l.unwrap(append([]byte(nil), buf[:n]...))
			if !good {
				replies = append(replies, []byte{})
				continue
			}
			if len(d) == 48 && binary.BigEndian.Uint32(d[24:]) == sentinelSecs {
				if binary.BigEndian.Uint32(d[28:]) == l.seq {
					return replies, true
				}
				continue
			}
			replies = append(replies, d)
		}
	}
	return replies, false
}

// ---- steps ----------------------------------------------------------------

type lsnStep struct {
	req  bool
	t    int64 // planned virtual time
	lsn  int   // request: listener kind + 2 * client socket; key exchange: 0 = TLS, 1 = QUIC over SCION,
	//            2 / 3 / 4 = TLS / QUIC / TLS by a scripted client that completes the handshake at t and
	//            sends (the rest of) its request only after the provider has aged by delay
	c     int
	delay int64
	forge  int64 // > 0: the request carries a cookie whose key id field is this (not yet issued) id
	wantID int64 // > 0 (planned follow-up): use the newest cookie under this key id
}

type lsnObs struct {
	lo, hi int64
	ans    int
	ids    []int64
	cs     [][]byte
	sess   *lsnSession
}

// boundaries: the instants at which a decision changes - a key's generation + 24 h
// (renewal) and + 72 h (end of validity), a cookie's hand-out + 48 h -, each known only
// up to the bracket of the step that generated the key / handed out the cookie.
func (e *lsnEnv) boundaries() []span {
	var bs []span
	for id, g := range e.keys {
		bs = append(bs, span{e.keyLo[id] + renewal, g + renewal}, span{e.keyLo[id] + validity, g + validity})
	}
	seen := map[int64]bool{}
	for _, c := range e.cookies {
		if !seen[c.issue] {
			seen[c.issue] = true
			bs = append(bs, span{c.issueLo + twoDays, c.issue + twoDays})
		}
	}
	return bs
}

func (e *lsnEnv) ageTo(t int64) {
	if d := t - e.vnow(); d > 0 {
		e.provider.VerifAge(time.Duration(d))
		e.aged += d
	}
}

func cookieID(b []byte) int64 {
	var ec ntske.EncryptedServerCookie
	if ec.Decode(b) != nil {
		return -1
	}
	return int64(ec.ID)
}

func (e *lsnEnv) handOut(o *lsnObs) {
	for _, b := range o.cs {
		id := cookieID(b)
		o.ids = append(o.ids, id)
		if _, ok := e.keys[id]; !ok {
			e.keys[id], e.keyLo[id] = o.hi, o.lo
			if id > e.maxID {
				e.maxID = id
			}
		}
		e.cookies = append(e.cookies, lsnCookie{b: b, id: id, issue: o.hi, issueLo: o.lo, sess: o.sess})
	}
}

// check: the model reads the clock of a step at thi and takes a key's generation time and a
// cookie's hand-out time as the thi of their step; the implementation read it somewhere in
// the brackets.  Both decide alike unless a boundary (itself a bracket) meets this bracket.
func (e *lsnEnv) check(lo, hi int64, before []span) {
	for _, b := range before {
		if b.hi > lo-ambSlack && b.lo < hi+ambSlack {
			e.amb = true
		}
	}
}

func (e *lsnEnv) keyExchange(quic bool) (o lsnObs) {
	f := &ntske.Fetcher{Log: e.log, Port: strconv.Itoa(ntske.ServerPortIP)}
	f.TLSConfig.RootCAs = e.pool
	f.TLSConfig.ServerName = e.ip.String()
	f.TLSConfig.NextProtos = []string{"ntske/1"}
	f.TLSConfig.MinVersion = tls.VersionTLS13
	if quic {
		f.QUIC.Enabled = true
		f.QUIC.LocalAddr = udp.UDPAddr{IA: lsnIA, Host: &net.UDPAddr{IP: e.ip}}
		f.QUIC.RemoteAddr = udp.UDPAddr{IA: lsnIA, Host: &net.UDPAddr{IP: e.ip, Port: ntske.ServerPortSCION}}
	}
	o.lo = e.vnow()
	type res struct {
		d   ntske.Data
		err error
	}
	ch := make(chan res, 1)
	go func() {
		d, err := f.FetchData(context.Background())
		ch <- res{d, err}
	}()
	select {
	case r := <-ch:
		o.hi = e.vnow()
		if r.err == nil {
			o.ans, o.cs, o.sess = 1, r.d.Cookie, &lsnSession{c2s: r.d.C2sKey, s2c: r.d.S2cKey}
		}
	case <-time.After(30 * time.Second):
		o.hi = e.vnow()
		e.lost = true
	}
	return o
}

// slowKeyExchange: a client that connects, completes the handshake, and takes its time
// (the provider ages by delay meanwhile) before it sends its request; the cookies are
// handed out when the server answers, which is the instant the observation is about.
func (e *lsnEnv) slowKeyExchange(quic bool, pre int, delay int64) (o lsnObs) {
	cfg := &tls.Config{RootCAs: e.pool, ServerName: e.ip.String(), NextProtos: []string{"ntske/1"}, MinVersion: tls.VersionTLS13}
	var msg ntske.ExchangeMsg
	msg.AddRecord(ntske.NextProto{NextProto: ntske.NTPv4})
	msg.AddRecord(ntske.Algorithm{Algo: []uint16{ntske.AES_SIV_CMAC_256}})
	msg.AddRecord(ntske.End{})
	buf, err := msg.Pack()
	if err != nil {
		panic(err)
	}
	// pre: how many bytes of the request go out before the pause (a slow sender; over QUIC the
	// server does not even see the stream before its first byte)
	req := buf.Bytes()
	if pre > len(req)-1 {
		pre = len(req) - 1
	}
	var data ntske.Data
	ctx, cancel := context.WithTimeout(context.Background(), 30*time.Second)
	defer cancel()
	wait := func() {
		time.Sleep(30 * time.Millisecond) // the server's side of the handshake has finished too
		e.ageTo(e.vnow() + delay)
	}
	if !quic {
		conn, err := tls.DialWithDialer(&net.Dialer{Timeout: 10 * time.Second}, "tcp",
			net.JoinHostPort(e.ip.String(), strconv.Itoa(ntske.ServerPortIP)), cfg)
		if err != nil {
			o.lo, o.hi = e.vnow(), e.vnow()
			return o
		}
		defer conn.Close()
		conn.SetDeadline(time.Now().Add(25 * time.Second))
		if pre > 0 {
			if _, err = conn.Write(req[:pre]); err != nil {
				o.lo, o.hi = e.vnow(), e.vnow()
				return o
			}
		}
		wait()
		o.lo = e.vnow()
		_, err = conn.Write(req[pre:])
		if err == nil {
			err = ntske.ReadData(ctx, e.log, bufio.NewReader(conn), &data)
		}
		o.hi = e.vnow()
		if err == nil {
			err = ntske.ExportKeys(conn.ConnectionState(), &data)
		}
		if err != nil {
			return o
		}
	} else {
		local := udp.UDPAddr{IA: lsnIA, Host: &net.UDPAddr{IP: e.ip}}
		remote := udp.UDPAddr{IA: lsnIA, Host: &net.UDPAddr{IP: e.ip, Port: ntske.ServerPortSCION}}
		sp := spath.Path{Src: lsnIA, Dst: lsnIA, DataplanePath: spath.Empty{}, NextHop: remote.Host}
		conn, err := scion.DialQUIC(ctx, local, remote, sp, "" /* host */, cfg, nil)
		if err != nil {
			o.lo, o.hi = e.vnow(), e.vnow()
			return o
		}
		defer conn.CloseWithError(0, "")
		if pre == 0 {
			pre = 5
		}
		stream, err := conn.OpenStream()
		if err == nil {
			stream.SetDeadline(time.Now().Add(25 * time.Second))
			_, err = stream.Write(req[:pre])
		}
		if err != nil {
			o.lo, o.hi = e.vnow(), e.vnow()
			return o
		}
		wait()
		o.lo = e.vnow()
		{
			_, err = stream.Write(req[pre:])
			if err == nil {
				err = ntske.ReadData(ctx, e.log, bufio.NewReader(stream), &data)
			}
			stream.Close()
		}
		o.hi = e.vnow()
		if err == nil {
			err = ntske.ExportKeys(conn.ConnectionState().TLS, &data)
		}
		if err != nil {
			return o
		}
	}
	if len(data.Cookie) > 0 {
		o.ans, o.cs, o.sess = 1, data.Cookie, &lsnSession{c2s: data.C2sKey, s2c: data.S2cKey}
	}
	return o
}

// request sends one NTS request with cookie c through its socket; lo/hi are set by the caller.
func (e *lsnEnv) request(st lsnStep) (o lsnObs) {
	ck := e.cookies[st.c]
	if st.forge > 0 {
		// a cookie left over from "before a restart" / made up: the id field names a key the
		// provider has not made (yet); the rest is a genuine cookie's bytes
		var ec ntske.EncryptedServerCookie
		if ec.Decode(ck.b) == nil {
			ec.ID = uint16(st.forge)
			ck.b = ec.Encode()
		}
	}
	var ntpreq ntp.Packet
	ntpreq.SetVersion(ntp.VersionMax)
	ntpreq.SetMode(ntp.ModeClient)
	ntpreq.TransmitTime = ntp.Time64FromTime(time.Now())
	var buf []byte
	ntp.EncodePacket(&buf, &ntpreq)
	pkt, uid := nts.NewRequestPacket(ntske.Data{C2sKey: ck.sess.c2s, S2cKey: ck.sess.s2c, Cookie: [][]byte{ck.b}})
	nts.EncodePacket(&buf, &pkt)
	l := e.socks[st.lsn%2][(st.lsn/2)%nSocks]
	replies, ok := l.probe(buf)
	if !ok {
		o.ans = -1
		return o
	}
	if len(replies) == 0 {
		return o
	}
	o.ans = 2 // a reply that does not verify
	func() {
		defer func() { recover() }()
		var rp nts.Packet
		var f ntske.Fetcher
		if len(replies) == 1 && nts.DecodePacket(&rp, replies[0]) == nil &&
			nts.ProcessResponse(replies[0], ck.sess.s2c, &f, &rp, uid) == nil {
			o.ans = 1
			for _, c := range rp.Cookies {
				o.cs = append(o.cs, c.Cookie)
			}
			o.sess = ck.sess
		}
	}()
	return o
}

// doSteps makes the steps of one instant: one key exchange, one request, or a burst of
// requests sent at the same time through different sockets.
func (e *lsnEnv) doSteps(sts []lsnStep) []lsnObs {
	before := e.boundaries()
	e.ageTo(sts[0].t)
	obs := make([]lsnObs, len(sts))
	if !sts[0].req {
		if sts[0].lsn >= 2 {
			pre := 0
			if sts[0].lsn >= 3 {
				pre = 5 + int(sts[0].delay%7)
			}
			obs[0] = e.slowKeyExchange(sts[0].lsn == 3 && e.quic, pre, sts[0].delay)
		} else {
			obs[0] = e.keyExchange(sts[0].lsn == 1 && e.quic)
		}
	} else {
		lo := e.vnow()
		var wg sync.WaitGroup
		for i := range sts {
			wg.Add(1)
			go func(i int) {
				defer wg.Done()
				obs[i] = e.request(sts[i])
			}(i)
		}
		wg.Wait()
		hi := e.vnow()
		for i := range obs {
			obs[i].lo, obs[i].hi = lo, hi
			if obs[i].ans < 0 {
				e.lost = true
			}
		}
	}
	e.check(obs[0].lo, obs[0].hi, before)
	for i := range obs {
		e.handOut(&obs[i])
	}
	return obs
}

// ---- the generator (inside the child: it plans from what it has seen) -------

type lsnGen struct {
	r     *lib.Rng
	style int
	e     *lsnEnv
	first []int // cookies of the first key exchange (the "lone client")
	pend  [][]lsnStep
}

func (g *lsnGen) clear(t int64, except int64) bool {
	if t <= g.e.vnow()+5*ms {
		return false
	}
	for _, b := range g.e.boundaries() {
		if b.hi == except {
			continue
		}
		if t > b.lo-sec/2 && t < b.hi+sec/2 {
			return false
		}
	}
	return true
}

func (g *lsnGen) pickCookie(id int64) int {
	var idx []int
	for i, c := range g.e.cookies {
		if id < 0 || c.id == id {
			idx = append(idx, i)
		}
	}
	if len(idx) == 0 {
		return -1
	}
	if g.r.Intn(2) == 0 { // the oldest / the newest of them
		return lib.Pick(g.r, idx[0], idx[len(idx)-1])
	}
	return idx[g.r.Intn(len(idx))]
}

func (g *lsnGen) sock(kind int) int { return kind + 2*g.r.Intn(nSocks) }

func (g *lsnGen) next() []lsnStep {
	r, e := g.r, g.e
	if len(g.pend) > 0 {
		st := g.pend[0]
		g.pend = g.pend[1:]
		okp := true
		if st[0].wantID > 0 {
			st[0].c = -1
			for i := len(e.cookies) - 1; i >= 0; i-- {
				if e.cookies[i].id == st[0].wantID {
					st[0].c = i
					break
				}
			}
			okp = st[0].c >= 0
		}
		if st[0].t <= e.vnow()+5*ms {
			st[0].t = e.vnow() + 20*ms
		}
		if okp && g.clear(st[0].t, -1) {
			return st
		}
	}
	if len(e.cookies) == 0 {
		return []lsnStep{{t: e.vnow() + lib.Pick(r, 10*ms, int64(time.Minute), hour, 5*hour), lsn: r.Intn(2)}}
	}
	now := e.vnow()
	if g.style == 1 && len(g.first) > 0 && now > e.keys[e.cookies[g.first[0]].id]+validity+hour {
		g.style = 0 // the lone client's cookies have expired: it is refused from now on; go on with everybody
	}
	kind := r.Intn(2)
	if g.style == 1 {
		kind = 0 // the lone client: only its first cookies, only over IP (any of its sockets)
	}
	for try := 0; try < 200; try++ {
		st := lsnStep{lsn: g.sock(kind)}
		mode := r.Intn(100)
		switch {
		case mode < 45: // a boundary, one second before or after
			off := lib.Pick(r, -sec, -sec, sec)
			var b int64
			switch r.Intn(3) {
			case 0: // renewal of the newest key: key exchange or request
				b = e.keys[e.maxID] + renewal
				st.t = b + off
				if g.style == 1 || r.Intn(2) == 0 {
					st.req, st.lsn = false, r.Intn(2)
				} else {
					st.req, st.c = true, g.pickCookie(e.maxID)
				}
			case 1: // end of validity of some key: present a cookie sealed under it
				ids := make([]int64, 0, len(e.keys))
				for id := range e.keys {
					ids = append(ids, id)
				}
				sort.Slice(ids, func(a, b int) bool { return ids[a] < ids[b] })
				id := ids[r.Intn(len(ids))]
				if r.Intn(2) == 0 { // the oldest that has not expired yet
					for _, x := range ids {
						if e.keys[x]+validity > now {
							id = x
							break
						}
					}
				}
				b = e.keys[id] + validity
				st.t, st.req, st.c = b+off, true, g.pickCookie(id)
			default: // two days after a cookie was handed out
				c := r.Intn(len(e.cookies))
				b = e.cookies[c].issue + twoDays
				st.t, st.req, st.c = b+off, true, c
			}
			if st.req && g.style == 1 {
				st.c = g.first[r.Intn(len(g.first))]
				if r.Intn(3) > 0 {
					b = e.keys[e.cookies[st.c].id] + validity
					st.t = b + off
				}
			}
			if st.req && st.c < 0 {
				continue
			}
			if !g.clear(st.t, b) {
				continue
			}
			if st.req && off < 0 && r.Intn(10) < 7 {
				// right after a use one second before the boundary: the same cookie through the
				// same socket shortly after the boundary (and once more through another socket)
				f := st
				f.t = b + lib.Pick(r, sec, 1200*ms, 1500*ms)
				g.pend = append(g.pend, []lsnStep{f})
				if r.Intn(2) == 0 {
					f2 := f
					f2.t = f.t + lib.Pick(r, 300*ms, sec)
					f2.lsn = g.sock(f.lsn % 2)
					g.pend = append(g.pend, []lsnStep{f2})
				}
			}
			return []lsnStep{st}
		case mode >= 94 && e.maxID < 60000: // a cookie naming the next key id (or the one after), then, once the
			// provider has made that key, genuine cookies under it through the same socket and another
			k := int64(1 + r.Intn(2))
			st.req, st.forge, st.c = true, e.maxID+k, g.pickCookie(-1)
			st.t = now + lib.Pick(r, r.Range(10*ms, sec), r.Range(sec, hour))
			if !g.clear(st.t, -1) {
				continue
			}
			t := st.t
			for j := int64(0); j < k; j++ { // key exchanges right after each renewal instant
				t2 := e.keys[e.maxID] + (j+1)*(renewal+2*sec)
				if t2 <= t+sec {
					t2 = t + renewal + 2*sec
				}
				t = t2
				g.pend = append(g.pend, []lsnStep{{t: t, lsn: r.Intn(2)}})
			}
			f := lsnStep{req: true, t: t + lib.Pick(r, 50*ms, sec, hour), lsn: st.lsn, wantID: st.forge}
			g.pend = append(g.pend, []lsnStep{f})
			f2 := f
			f2.t, f2.lsn = f.t+lib.Pick(r, 300*ms, sec), g.sock(st.lsn%2)
			g.pend = append(g.pend, []lsnStep{f2})
			return []lsnStep{st}
		case mode < 54: // a slow client: handshake now, its request only after the provider has aged
			st.lsn = 2 + r.Intn(3) // 2: TLS, silent until then; 3: QUIC, 4: TLS, the first bytes of the request sent before
			st.t = now + lib.Pick(r, r.Range(sec, hour), r.Range(hour, 20*hour))
			st.delay = lib.Pick(r, 2*sec, r.Range(sec, hour), 30*hour, 30*hour, 73*hour, r.Range(hour, 80*hour))
			if r.Intn(3) == 0 { // its answer one second before / after the renewal of the newest key
				if d := e.keys[e.maxID] + renewal + lib.Pick(r, -sec, sec) - st.t; d > sec {
					st.delay = d
				}
			}
			if !g.clear(st.t+st.delay, -1) {
				continue
			}
		case mode < 60: // another client's key exchange, over TLS or over QUIC/SCION
			st.lsn = r.Intn(2)
			st.t = now + lib.Pick(r, r.Range(sec, hour), r.Range(hour, 30*hour))
		case mode < 70 && len(e.cookies) >= 2: // a burst: several requests at once, each through its own socket
			t := now + lib.Pick(r, r.Range(10*ms, sec), r.Range(sec, hour), r.Range(hour, 20*hour))
			if !g.clear(t, -1) {
				continue
			}
			n := 2 + r.Intn(5)
			var sts []lsnStep
			used := map[int]bool{}
			for len(sts) < n {
				l := g.sock(r.Intn(2))
				if g.style == 1 {
					l = g.sock(0)
				}
				if used[l] {
					if len(used) >= 2*nSocks || (g.style == 1 && len(used) >= nSocks) {
						break
					}
					continue
				}
				used[l] = true
				c := g.pickCookie(-1)
				if g.style == 1 {
					c = g.first[r.Intn(len(g.first))]
				}
				sts = append(sts, lsnStep{req: true, t: t, lsn: l, c: c})
			}
			return sts
		default:
			st.req = true
			switch {
			case g.style == 1:
				st.c = g.first[r.Intn(len(g.first))]
			case g.style == 2 || r.Intn(3) == 0: // the cookie handed out most recently
				st.c = len(e.cookies) - 1 - r.Intn(min(len(e.cookies), 8))
			default:
				st.c = g.pickCookie(-1)
			}
			st.t = now + lib.Pick(r, r.Range(10*ms, sec), r.Range(sec, hour), r.Range(hour, 20*hour), r.Range(20*hour, 50*hour))
		}
		if !g.clear(st.t, -1) {
			continue
		}
		return []lsnStep{st}
	}
	return []lsnStep{{t: now + hour + r.Range(0, hour), lsn: r.Intn(2)}}
}

// lsnChild plays one history and prints it: "CASE <tags> <args> <outs>", "AMB" or "LOST".
func lsnChild(seed uint64, nsteps int, script string) {
	e := newLsnEnv()
	r := lib.NewRng(seed)
	g := &lsnGen{r: r, style: r.Intn(3), e: e}
	var steps []lsnStep
	var obs []lsnObs
	var fixed [][]lsnStep
	if script != "" {
		// consecutive requests planned for the same instant through different sockets were a burst
		for _, n := range parseNodes(script)[0].list {
			var st lsnStep
			if n.i(0) == 0 {
				st = lsnStep{t: n.i(1)}
				if len(n.list) > 2 {
					st.lsn = int(n.i(2))
				}
				if len(n.list) > 3 {
					st.delay = n.i(3)
				}
			} else if n.i(0) == 2 {
				st = lsnStep{req: true, t: n.i(1), lsn: int(n.i(2)), forge: n.i(3)}
			} else {
				st = lsnStep{req: true, t: n.i(1), lsn: int(n.i(2)), c: int(n.i(3))}
			}
			if k := len(fixed); k > 0 && st.req && fixed[k-1][0].req && fixed[k-1][0].t == st.t {
				same := false
				for _, x := range fixed[k-1] {
					same = same || x.lsn == st.lsn
				}
				if !same {
					fixed[k-1] = append(fixed[k-1], st)
					continue
				}
			}
			fixed = append(fixed, []lsnStep{st})
		}
		nsteps = 1 << 30
	}
	tags := map[string]bool{"lsn": true}
	for i := 0; len(steps) < nsteps && !e.amb && !e.lost; i++ {
		var sts []lsnStep
		if fixed != nil {
			if i >= len(fixed) {
				break
			}
			sts = fixed[i]
			bad := false
			for _, st := range sts {
				bad = bad || (st.req && (st.c < 0 || st.c >= len(e.cookies) || st.lsn < 0 || st.lsn >= 2*nSocks))
			}
			if bad {
				break
			}
		} else {
			sts = g.next()
		}
		nk := len(e.keys)
		cks := make([]lsnCookie, len(sts))
		for j, st := range sts {
			if st.req {
				cks[j] = e.cookies[st.c]
			}
		}
		maxBefore := e.maxID
		os_ := e.doSteps(sts)
		if i == 0 && !sts[0].req {
			for j := range e.cookies {
				g.first = append(g.first, j)
			}
		}
		if len(e.keys) > nk {
			tags["rot"] = true
		}
		if len(sts) > 1 {
			tags["burst"] = true
		}
		for j, st := range sts {
			o := os_[j]
			if st.req && st.forge > 0 {
				tags["future"] = true
				continue
			}
			if st.req && st.wantID > 0 && o.ans == 1 {
				tags["futureok"] = true
			}
			if st.req {
				tags["ip"] = st.lsn%2 == 0 || tags["ip"]
				tags["scion"] = st.lsn%2 == 1 || tags["scion"]
				if o.ans == 0 {
					tags["refused"] = true
				}
				if cks[j].id != maxBefore && o.ans == 1 {
					tags["oldkey"] = true
				}
				if d := o.lo - (e.keys[cks[j].id] + validity); d > -2*sec && d < 2*sec {
					tags["b72"] = true
				}
				if d := o.lo - (cks[j].issue + twoDays); d > -2*sec && d < 2*sec {
					tags["b48"] = true
				}
			} else if st.lsn >= 2 {
				tags["keslow"] = true
				if st.delay > renewal {
					tags["keslow24"] = true
				}
			} else if st.lsn == 1 && e.quic {
				tags["kequic"] = true
			} else {
				tags["ke"] = true
			}
		}
		steps = append(steps, sts...)
		obs = append(obs, os_...)
	}
	if e.lost {
		fmt.Println("LOST")
		return
	}
	if e.amb {
		fmt.Println("AMB")
		return
	}
	as, outs := make([]string, len(steps)), make([]string, len(steps))
	for i, st := range steps {
		if st.req && st.forge > 0 {
			as[i] = lib.L(lib.V("2", lib.I(st.t), lib.I(int64(st.lsn)), lib.I(st.forge)))
		} else if st.req {
			as[i] = lib.L(lib.V("1", lib.I(st.t), lib.I(int64(st.lsn)), lib.I(int64(st.c))))
		} else {
			as[i] = lib.L(lib.V("0", lib.I(st.t), lib.I(int64(st.lsn)), lib.I(st.delay)))
		}
		ids := make([]string, len(obs[i].ids))
		for j, id := range obs[i].ids {
			ids[j] = lib.I(id)
		}
		outs[i] = lib.L(lib.V(lib.I(obs[i].lo), lib.I(obs[i].hi), lib.I(int64(obs[i].ans)), lib.L(ids...)))
	}
	var ts []string
	if tags["rot"] && tags["refused"] && tags["oldkey"] {
		ts = append(ts, "nt")
	}
	for k, v := range tags {
		if v {
			ts = append(ts, k)
		}
	}
	sort.Strings(ts)
	fmt.Printf("CASE\t%s\t%s\t%s\n", strings.Join(ts, ","), lib.L(as...), lib.L(outs...))
}

// ---- the parent -------------------------------------------------------------

var lsnDropped, lsnSkipped int64

// runLsnChild plays one history in a child; a history that came too close to a boundary
// is played again with another seed, at most four times, and never past the deadline.
func runLsnChild(seed uint64, nsteps int, script string, deadline time.Time) (tags, args, outs string, ok bool) {
	for try := 0; try < 4; try++ {
		left := time.Until(deadline)
		if left < 5*time.Second {
			atomic.AddInt64(&lsnSkipped, 1)
			return "", "", "", false
		}
		limit := 60 * time.Second
		if left < limit {
			limit = left
		}
		cmd := exec.Command(os.Args[0], "-lsnchild", "-seed", strconv.FormatUint(seed+uint64(try)*1000003, 10), "-lsnsteps", strconv.Itoa(nsteps))
		cmd.Env = append(os.Environ(), "C12_LSN_SCRIPT="+script)
		var out, errb bytes.Buffer
		cmd.Stdout, cmd.Stderr = &out, &errb
		done := make(chan error, 1)
		if err := cmd.Start(); err != nil {
			panic(err)
		}
		go func() { done <- cmd.Wait() }()
		select {
		case err := <-done:
			if err != nil {
				fmt.Printf("NOTE c12: listener child failed: %v %s\n", err, strings.ReplaceAll(lastLines(errb.String(), 6), "\n", " | "))
				return "lsn,childfailed", "[]", "-1", true
			}
		case <-time.After(limit):
			cmd.Process.Kill()
			<-done
			fmt.Println("NOTE c12: listener child timed out")
			return "lsn,childfailed", "[]", "-1", true
		}
		for _, line := range strings.Split(out.String(), "\n") {
			p := strings.Split(line, "\t")
			if p[0] == "CASE" && len(p) == 4 {
				return p[1], p[2], p[3], true
			}
			if p[0] == "LOST" {
				fmt.Println("NOTE c12: a sentinel request to a listener (or a key exchange) went unanswered")
				return "lsn,lost", "[]", "-1", true
			}
			if strings.HasPrefix(line, "NOTE ") {
				fmt.Println(line)
			}
		}
		// AMB: the bracket of a step met a boundary; play another history
		atomic.AddInt64(&lsnDropped, 1)
	}
	atomic.AddInt64(&lsnSkipped, 1)
	return "", "", "", false
}

func lastLines(s string, n int) string {
	l := strings.Split(strings.TrimSpace(s), "\n")
	if len(l) > n {
		l = l[len(l)-n:]
	}
	return strings.Join(l, "\n")
}

func lsnCases(seed uint64, n int, budget time.Duration) {
	type res struct {
		tags, args, outs string
		ok               bool
	}
	deadline := time.Now().Add(budget)
	out := make([]res, n)
	var wg sync.WaitGroup
	sem := make(chan struct{}, 3)
	for i := 0; i < n; i++ {
		wg.Add(1)
		go func(i int) {
			defer wg.Done()
			sem <- struct{}{}
			defer func() { <-sem }()
			var x res
			x.tags, x.args, x.outs, x.ok = runLsnChild(seed*7919+uint64(i)*104729+1, 30+int((seed+uint64(i))%25), "", deadline)
			out[i] = x
		}(i)
	}
	wg.Wait()
	got := 0
	for _, x := range out {
		if x.ok {
			got++
			w.Case("prov.lsn", x.tags, x.args, x.outs)
		}
	}
	fmt.Printf("NOTE c12 listeners: %d histories recorded, %d attempts thrown away (a step's bracket met a decision boundary) and replayed, %d histories given up (four attempts or the %v budget)\n",
		got, atomic.LoadInt64(&lsnDropped), atomic.LoadInt64(&lsnSkipped), budget)
}
