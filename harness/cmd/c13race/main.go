// C13 (thorough tier): the parallel listener steps (kind srv.par) and the keyed clients of
// verifharness/c13lib under the Go race detector (built with -race).  A report of the race
// detector ends the child process that runs the listeners, which is reported as a failing case.
package main

import "verifharness/c13lib"

func main() { c13lib.Main(true) }
