// C06 (thorough tier): the real IP and SCION listeners serving many clients at
// the same time under the Go race detector (kind lsn.race).  The binary is built
// with -race and re-executes itself as a child that runs the listeners and the
// clients (verifharness/c06lib.LsnRaceChild); a reported data race, a panic or a
// hang of the child is an observation of the case.
package main

import (
	"fmt"
	"os"
	"os/exec"
	"strconv"
	"strings"
	"time"

	"verifharness/c06lib"
	"verifharness/lib"
)

func main() {
	if len(os.Args) > 1 && os.Args[1] == "child" {
		n, _ := strconv.Atoi(os.Args[2])
		seed, _ := strconv.ParseUint(os.Args[3], 10, 64)
		c06lib.LsnRaceChild(n, seed)
		return
	}
	a := lib.ParseArgs()
	w := lib.NewWriter(a.Out)
	defer w.Close()
	runs := []int{150, 400}
	if a.Replay != "" {
		runs = nil
		for _, l := range lib.ReplayLines(a.Replay) {
			if l[0] == "lsn.race" {
				runs = append(runs, int(lib.ParseI(lib.Fields(l[2])[0])))
			}
		}
	}
	for i, n := range runs {
		cmd := exec.Command(os.Args[0], "child", strconv.Itoa(n), strconv.FormatUint(a.Seed+uint64(i), 10))
		cmd.Env = append(os.Environ(), "GORACE=halt_on_error=1 exitcode=66", "USE_MOCK_KEYS=true")
		done := make(chan struct{})
		var out []byte
		var err error
		go func() { out, err = cmd.CombinedOutput(); close(done) }()
		status := int64(0)
		select {
		case <-done:
			if err != nil {
				status = 1
				if ee, ok := err.(*exec.ExitError); ok {
					status = int64(ee.ExitCode())
				}
			}
		case <-time.After(10 * time.Minute):
			_ = cmd.Process.Kill()
			<-done
			status = 124
		}
		clients := "[]"
		race := int64(0)
		var diag []string
		for _, line := range strings.Split(string(out), "\n") {
			switch {
			case strings.HasPrefix(line, "LSNRACE\t"):
				clients = strings.TrimPrefix(line, "LSNRACE\t")
			case strings.HasPrefix(line, "NOTE "):
				fmt.Println(line)
			default:
				if strings.Contains(line, "WARNING: DATA RACE") {
					race = 1
				}
				diag = append(diag, line)
			}
		}
		if status != 0 {
			d := strings.Join(diag, " | ")
			if len(d) > 800 {
				d = d[len(d)-800:]
			}
			fmt.Println("NOTE listener race run exit status", status, "output tail:", d)
		}
		w.Case("lsn.race", "nt,race", lib.V(lib.I(int64(n)), lib.U(a.Seed+uint64(i))), lib.V(lib.I(status), lib.I(race), clients))
	}
}
