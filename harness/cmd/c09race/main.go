// C09 (thorough tier): the real IP and SCION listeners driven concurrently from many
// sockets under the Go race detector (built with -race).  A report of the race detector
// is the observation of case kind srv.race.  The code is in verifharness/c09lib.
package main

import "verifharness/c09lib"

func main() { c09lib.Main(true) }
