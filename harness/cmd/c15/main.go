// C15: drives base/crypto (RandIntn, Sample) on scripted random tapes and the
// real client.MeasureClockOffsetSCION with real SCIONClients against a
// scripted SCION NTP peer on loopback (one UDP socket per offered path), with
// crypto/rand.Reader replaced by a scripted tape and a recording filter per
// client.
package main

import (
	"fmt"
	"math"
	"os"

	"verifharness/lib"
)

var w *lib.Writer

func genVals(r *lib.Rng) []int64 {
	out := make([]int64, 3)
	base := r.Range(-1000000, 1000000)
	for i := range out {
		switch r.Intn(10) {
		case 0:
			out[i] = math.MinInt64 + r.Range(0, 2)
		case 1:
			out[i] = math.MaxInt64 - r.Range(0, 2)
		case 2:
			out[i] = r.I64()
		case 3:
			out[i] = 0
		case 4:
			out[i] = base // equal offsets in one round
		default:
			out[i] = base + r.Range(-5000, 5000)
		}
	}
	return out
}

func genModes(r *lib.Rng) []int64 {
	switch r.Intn(12) {
	case 0:
		return []int64{1, 1, 1}
	case 1:
		return []int64{2, 2, 2}
	case 2, 3:
		return []int64{int64(r.Intn(3)), int64(r.Intn(3)), int64(r.Intn(3))}
	case 4:
		return []int64{0, 2, 0}
	default:
		return []int64{0, 0, 0}
	}
}

func genHist(r *lib.Rng) *histIn {
	h := &histIn{}
	var nc int
	switch r.Intn(40) {
	case 0:
		nc = 0
	case 1, 2, 3, 4, 5, 6, 7, 8, 9, 10, 11, 12, 13, 14, 15, 16, 17, 18:
		nc = 1 + r.Intn(3)
	default:
		nc = 4 + r.Intn(maxClients-4)
	}
	allEn := r.Intn(3) != 0
	for i := 0; i < nc; i++ {
		h.en = append(h.en, allEn || r.Intn(4) != 0)
		h.hasf = append(h.hasf, r.Intn(14) != 0)
	}
	alpha := int64(1 + r.Intn(maxFp+1)) // fingerprint ids 0..alpha-1: a small alphabet gives equal fingerprints
	newFp := func() int64 {
		if r.Intn(6) == 0 {
			return 0 // the metadata-less path
		}
		return r.Range(0, alpha-1)
	}
	var cur []int64
	for i := r.Intn(nc + 4); i > 0; i-- {
		cur = append(cur, newFp())
	}
	nr := 2 + r.Intn(9)
	for ri := 0; ri < nr; ri++ {
		if ri > 0 {
			switch r.Intn(10) {
			case 0:
				cur = nil // everything withdrawn
			case 1, 2:
				// unchanged
			default:
				var nxt []int64
				for _, f := range cur {
					if r.Intn(4) != 0 {
						nxt = append(nxt, f)
					}
				}
				for i := r.Intn(4); i > 0; i-- {
					nxt = append(nxt, newFp())
				}
				if len(nxt) > 0 && r.Intn(8) == 0 {
					nxt = append(nxt, nxt[r.Intn(len(nxt))]) // a second path with the same fingerprint
				}
				if r.Intn(5) == 0 {
					for i := len(nxt) - 1; i > 0; i-- {
						j := r.Intn(i + 1)
						nxt[i], nxt[j] = nxt[j], nxt[i]
					}
				}
				cur = nxt
			}
		}
		if len(cur) > maxPaths {
			cur = cur[:maxPaths]
		}
		var rd roundIn
		rd.fps = append([]int64(nil), cur...)
		rd.d = 0xFFFFFFFF
		nw := r.Intn(len(cur) + 3)
		for j := 0; j < nw; j++ {
			if r.Intn(3) == 0 {
				rd.tape = append(rd.tape, uint32(r.U64()))
			} else {
				rd.tape = append(rd.tape, wordFor(r, uint64(1+r.Intn(len(cur)+1))))
			}
		}
		for i := 0; i < nc; i++ {
			m := genModes(r)
			if !h.hasf[i] {
				m = []int64{2, 2, 2} // without a filter the measured offset is not scripted: such a client only fails
			}
			rd.modes = append(rd.modes, m)
			rd.vals = append(rd.vals, genVals(r))
		}
		h.rounds = append(h.rounds, rd)
	}
	return h
}

func main() {
	a := lib.ParseArgs()
	w = lib.NewWriter(a.Out)
	defer w.Close()
	setupHist()
	if a.Replay != "" {
		for _, l := range lib.ReplayLines(a.Replay) {
			if replayRand(l[0], l[1], l[2]) {
				continue
			}
			if l[0] == "mp.hist" {
				replayHist(l[1], l[2])
			}
		}
		return
	}
	r := lib.NewRng(a.Seed)
	nIntn, nSample, nHist := 30000, 10000, 3000
	if a.Tier == "thorough" {
		nIntn, nSample, nHist = 300000, 100000, 30000
	}
	genIntn(r.Fork(), nIntn)
	genSample(r.Fork(), nSample)
	hr := r.Fork()
	for i := 0; i < nHist && deadlineHits < 2; i++ {
		runHist("", genHist(hr))
	}
	nd := 0
	for e, n := range disturbed {
		nd += n
		fmt.Printf("NOTE %d rounds not recorded because an exchange failed with an error the scripted peer does not cause: %s\n", n, e)
	}
	if nd*50 > roundsRun+50 {
		fmt.Printf("too many disturbed rounds: %d of %d\n", nd, roundsRun)
		w.Close()
		os.Exit(3)
	}
	fmt.Printf("NOTE histories=%d rounds dropped because their history was already more than 2 s old=%d histories dropped entirely=%d rounds that ran into their 10 s context deadline=%d malformed datagrams at the peer=%d\n",
		nHist, slowRounds, abandoned, deadlineHits, thePeer.bad)
}
