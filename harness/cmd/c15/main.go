// C15: drives base/crypto (RandIntn, Sample) on scripted random tapes and the
// real client.MeasureClockOffsetSCION with real SCIONClients - fed directly or
// through the real scion.Pather refreshed from a scripted daemon - against a
// scripted SCION NTP peer on loopback (one UDP socket per offered path, NTS-KE
// server for the NTS clients), with crypto/rand.Reader replaced by a scripted
// tape and a recording filter per client.  The code is in verifharness/c15lib.
package main

import "verifharness/c15lib"

func main() { c15lib.Main(false) }
