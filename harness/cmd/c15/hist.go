package main

import (
	"context"
	"fmt"
	"log/slog"
	"net"
	"os"
	"sort"
	"sync"
	"time"

	"github.com/google/gopacket"
	"github.com/scionproto/scion/pkg/addr"
	"github.com/scionproto/scion/pkg/segment/iface"
	"github.com/scionproto/scion/pkg/slayers"
	"github.com/scionproto/scion/pkg/slayers/path/empty"
	"github.com/scionproto/scion/pkg/snet"
	spath "github.com/scionproto/scion/pkg/snet/path"

	"example.com/scion-time/core/client"
	"example.com/scion-time/core/timebase"
	"example.com/scion-time/net/ntp"
	"example.com/scion-time/net/udp"

	"verifharness/lib"
)

const (
	maxPaths   = 12
	maxFp      = 7
	maxClients = 8
	serverPort = 10123
	noPathMsg  = "failed to measure clock offset: no path"
	noMeasMsg  = "failed to measure clock offset: no successful measurement"
)

type sysClock struct{}

func (sysClock) Epoch() uint64                                    { return 0 }
func (sysClock) Now() time.Time                                   { return time.Now().UTC() }
func (sysClock) Drift(d time.Duration) time.Duration              { return 0 }
func (sysClock) Step(offset time.Duration)                        {}
func (sysClock) Adjust(offset, duration time.Duration, f float64) {}
func (sysClock) Sleep(d time.Duration)                            { time.Sleep(d) }

// capHandler records the errors of failed exchanges (logged by MeasureClockOffsetSCION).  The scripted peer
// makes an exchange fail only with a reply that fails the metadata check; any other exchange error (a late
// fallback transmit timestamp on a loaded machine, a socket error) is a disturbance of the environment: such
// a round is not recorded and ends its history.
type capHandler struct {
	mu   sync.Mutex
	errs []string
}

func (h *capHandler) Enabled(_ context.Context, l slog.Level) bool { return l >= slog.LevelInfo }
func (h *capHandler) Handle(_ context.Context, r slog.Record) error {
	if r.Message != "failed to measure clock offset" {
		return nil
	}
	r.Attrs(func(a slog.Attr) bool {
		if a.Key == "error" {
			h.mu.Lock()
			h.errs = append(h.errs, a.Value.String())
			h.mu.Unlock()
		}
		return true
	})
	return nil
}
func (h *capHandler) WithAttrs([]slog.Attr) slog.Handler { return h }
func (h *capHandler) WithGroup(string) slog.Handler      { return h }
func (h *capHandler) take() []string {
	h.mu.Lock()
	defer h.mu.Unlock()
	e := h.errs
	h.errs = nil
	return e
}

const expectedExchangeError = "unexpected response structure"

// recFilter is the recording measurements.Filter of one client: Do returns the scripted values.
type recFilter struct {
	mu     sync.Mutex
	script []int64
	vals   []int64
	resets int
}

func (f *recFilter) Do(t0, t1, t2, t3 time.Time) time.Duration {
	f.mu.Lock()
	defer f.mu.Unlock()
	var v int64
	if len(f.vals) < len(f.script) {
		v = f.script[len(f.vals)]
	}
	f.vals = append(f.vals, v)
	return time.Duration(v)
}
func (f *recFilter) Reset() {
	f.mu.Lock()
	f.resets++
	f.mu.Unlock()
}

// peer is the scripted SCION NTP server: one UDP socket per offered path (the
// underlay next hop of that path).  It records which socket every request of
// every client (told apart by the DSCP value in the SCION header) arrives at.
type peer struct {
	mu    sync.Mutex
	ip    net.IP
	socks []*net.UDPConn
	ports []int
	// per round
	modes [][]int64          // per client: behaviour per request (0 conformant, 1 basic reply, 2 rejected reply)
	nreq  []int              // per client: requests seen this round
	hops  [][]int            // per client: socket index of every request
	forms [][]int64          // per client: form of every request (1 interleaved, 0 basic)
	txOf  []map[ntp.Time64]ntp.Time64 // per client: receive stamp -> transmit stamp of earlier replies
	bad   int
}

func ownAddr() net.IP {
	pid := os.Getpid()
	return net.IPv4(127, 15, byte(pid>>8), byte(pid))
}

func newPeer() *peer {
	p := &peer{ip: ownAddr()}
	for k := 0; k < maxPaths; k++ {
		c, err := net.ListenUDP("udp4", &net.UDPAddr{IP: p.ip, Port: 0})
		if err != nil {
			panic(err)
		}
		p.socks = append(p.socks, c)
		p.ports = append(p.ports, c.LocalAddr().(*net.UDPAddr).Port)
		go p.serve(k, c)
	}
	return p
}

func (p *peer) newRound(modes [][]int64, fresh bool) {
	p.mu.Lock()
	defer p.mu.Unlock()
	n := len(modes)
	p.modes = modes
	p.nreq = make([]int, n)
	p.hops = make([][]int, n)
	p.forms = make([][]int64, n)
	if fresh {
		p.txOf = make([]map[ntp.Time64]ntp.Time64, n)
		for i := range p.txOf {
			p.txOf[i] = map[ntp.Time64]ntp.Time64{}
		}
	}
}

func (p *peer) serve(k int, c *net.UDPConn) {
	buf := make([]byte, 2048)
	for {
		n, from, err := c.ReadFromUDPAddrPort(buf)
		if err != nil {
			return
		}
		rx := time.Now().UTC()
		reply := p.handle(k, buf[:n], rx)
		if reply != nil {
			c.WriteToUDPAddrPort(reply, from)
		}
	}
}

func (p *peer) handle(k int, b []byte, rx time.Time) []byte {
	var scn slayers.SCION
	if err := scn.DecodeFromBytes(b, gopacket.NilDecodeFeedback); err != nil || scn.NextHdr != slayers.L4UDP {
		p.mu.Lock()
		p.bad++
		p.mu.Unlock()
		return nil
	}
	var u slayers.UDP
	if err := u.DecodeFromBytes(scn.Payload, gopacket.NilDecodeFeedback); err != nil {
		return nil
	}
	var req ntp.Packet
	if err := ntp.DecodePacket(&req, u.Payload); err != nil {
		return nil
	}
	ci := int(scn.TrafficClass >> 2)
	p.mu.Lock()
	defer p.mu.Unlock()
	if ci >= len(p.nreq) {
		p.bad++
		return nil
	}
	j := p.nreq[ci]
	p.nreq[ci]++
	mode := int64(0)
	if j < len(p.modes[ci]) {
		mode = p.modes[ci][j]
	}
	ilvForm := req.OriginTime != (ntp.Time64{}) || req.ReceiveTime != (ntp.Time64{})
	p.hops[ci] = append(p.hops[ci], k)
	if ilvForm {
		p.forms[ci] = append(p.forms[ci], 1)
	} else {
		p.forms[ci] = append(p.forms[ci], 0)
	}

	var resp ntp.Packet
	resp.SetVersion(4)
	resp.SetMode(4)
	resp.Stratum = 1
	resp.ReceiveTime = ntp.Time64FromTime(rx)
	interleaved := false
	if mode == 0 && ilvForm {
		if tx, ok := p.txOf[ci][req.OriginTime]; ok {
			interleaved = true
			resp.OriginTime = req.ReceiveTime
			resp.TransmitTime = tx
		}
	}
	if mode == 2 {
		resp.Stratum = 0 // fails the client's metadata check at once
	}
	txNow := ntp.Time64FromTime(time.Now().UTC())
	if !interleaved {
		resp.OriginTime = req.TransmitTime
		resp.TransmitTime = txNow
	}
	if len(p.txOf[ci]) > 64 {
		p.txOf[ci] = map[ntp.Time64]ntp.Time64{}
	}
	p.txOf[ci][resp.ReceiveTime] = txNow

	var payload []byte
	ntp.EncodePacket(&payload, &resp)
	var out slayers.SCION
	out.Version = 0
	out.TrafficClass = scn.TrafficClass
	out.FlowID = 1
	out.NextHdr = slayers.L4UDP
	out.PathType = empty.PathType
	out.Path = empty.Path{}
	out.DstIA, out.SrcIA = scn.SrcIA, scn.DstIA
	out.DstAddrType, out.SrcAddrType = scn.SrcAddrType, scn.DstAddrType
	out.RawDstAddr, out.RawSrcAddr = scn.RawSrcAddr, scn.RawDstAddr
	var ou slayers.UDP
	ou.SrcPort, ou.DstPort = u.DstPort, u.SrcPort
	ou.SetNetworkLayerForChecksum(&out)
	sb := gopacket.NewSerializeBuffer()
	err := gopacket.SerializeLayers(sb, gopacket.SerializeOptions{ComputeChecksums: true, FixLengths: true},
		&out, &ou, gopacket.Payload(payload))
	if err != nil {
		p.bad++
		return nil
	}
	return append([]byte(nil), sb.Bytes()...)
}

// ---- histories ----

type roundIn struct {
	fps   []int64   // fingerprint id of every offered path
	d     uint32    // default word
	tape  []uint32  // scripted random words
	modes [][]int64 // per client, per request
	vals  [][]int64 // per client, per accepted exchange: what its filter returns
}

type histIn struct {
	en, hasf []bool
	rounds   []roundIn
}

var (
	thePeer *peer
	ia      = addr.MustParseIA("1-ff00:0:110")
	fpIDs   map[string]int64
	capH    = &capHandler{}
	dlog    = slog.New(capH)
	disturbed = map[string]int{}
	roundsRun int
	slowRounds, abandoned, deadlineHits int
)

const roundTimeout = 10 * time.Second

func mkPath(k int, fp int64) snet.Path {
	p := spath.Path{
		Src: ia, Dst: ia,
		DataplanePath: spath.Empty{},
		NextHop:       &net.UDPAddr{IP: thePeer.ip, Port: thePeer.ports[k]},
	}
	if fp != 0 {
		p.Meta = snet.PathMetadata{Interfaces: []snet.PathInterface{{ID: iface.ID(fp), IA: ia}, {ID: iface.ID(100 + fp), IA: ia}}}
	}
	return p
}

func setupHist() {
	timebase.RegisterClock(sysClock{})
	thePeer = newPeer()
	fpIDs = map[string]int64{}
	for f := int64(0); f <= maxFp; f++ {
		fpIDs[snet.Fingerprint(mkPath(0, f)).String()] = f
	}
}

func fpID(s string) int64 {
	if id, ok := fpIDs[s]; ok {
		return id
	}
	return -1
}

func i64sStr(xs []int64) string { return lib.IL(xs) }
func nested(xss [][]int64) string {
	s := make([]string, len(xss))
	for i, xs := range xss {
		s[i] = lib.IL(xs)
	}
	return lib.L(s...)
}

func (h *histIn) argsStr(nrounds int) string {
	cfg := make([]string, len(h.en))
	for i := range h.en {
		cfg[i] = lib.L(lib.Bool(h.en[i]), lib.Bool(h.hasf[i]))
	}
	rs := make([]string, nrounds)
	for i := 0; i < nrounds; i++ {
		r := &h.rounds[i]
		rs[i] = lib.L(lib.IL(r.fps), lib.U(uint64(r.d)), wordsStr(r.tape), nested(r.modes), nested(r.vals))
	}
	return lib.V(lib.L(cfg...), lib.L(rs...))
}

// runHist drives the real MeasureClockOffsetSCION through the rounds of h and writes one case.
func runHist(tags string, h *histIn) {
	nc := len(h.en)
	ntpcs := make([]*client.SCIONClient, nc)
	filters := make([]*recFilter, nc)
	for i := 0; i < nc; i++ {
		c := &client.SCIONClient{Log: dlog, DSCP: uint8(i), InterleavedMode: h.en[i]}
		if h.hasf[i] {
			filters[i] = &recFilter{}
			c.Filter = filters[i]
		}
		ntpcs[i] = c
	}
	laddr := udp.UDPAddr{IA: ia, Host: &net.UDPAddr{IP: thePeer.ip, Port: 0}}
	raddr := udp.UDPAddr{IA: ia, Host: &net.UDPAddr{IP: thePeer.ip, Port: serverPort}}

	var outs []string
	stat := map[string]bool{}
	done := 0
	histStart := time.Now()
	histWall := time.Now().Round(0) // wall clock only: the clients' 3 s window is taken on the wall clock
	for ri := range h.rounds {
		r := &h.rounds[ri]
		// what the exported getters say before the round (for the tags only)
		preIlv := make([]bool, nc)
		preFp := make([]int64, nc)
		for i, c := range ntpcs {
			preIlv[i] = c.InInterleavedMode()
			preFp[i] = fpID(c.InterleavedModePath())
		}
		for i := 0; i < nc; i++ {
			if filters[i] != nil {
				filters[i].script = r.vals[i]
				filters[i].vals = nil
				filters[i].resets = 0
			}
		}
		thePeer.newRound(r.modes, ri == 0)
		ps := make([]snet.Path, len(r.fps))
		for k, f := range r.fps {
			ps[k] = mkPath(k, f)
		}
		capH.take()
		roundsRun++
		start := time.Now()
		var off time.Duration
		var err error
		panicked := false
		t := withTape(r.tape, r.d, func() {
			ctx, cancel := context.WithTimeout(context.Background(), roundTimeout)
			defer cancel()
			defer func() {
				if recover() != nil {
					panicked = true
				}
			}()
			_, off, err = client.MeasureClockOffsetSCION(ctx, dlog, ntpcs, laddr, raddr, ps)
		})
		hitDeadline := time.Since(start) >= roundTimeout
		unexpected := ""
		for _, e := range capH.take() {
			if e != expectedExchangeError {
				unexpected = e
			}
		}
		if unexpected != "" && !hitDeadline && !panicked {
			disturbed[unexpected]++
			break
		}
		if hitDeadline {
			// the round did not end before its context did although every request is answered at once:
			// recorded as it is (the clients that never probed show up as non-participants)
			deadlineHits++
		} else if wall := time.Now().Round(0).Sub(histWall); time.Since(histStart) > 2*time.Second || wall > 2*time.Second || wall < 0 {
			// every earlier exchange of this history is at most this old; beyond 2 s the 3 s interleaving
			// window of a client may have passed and the request forms are no longer determined by the
			// history (a history normally takes some 10 ms); the same if the wall clock, which the clients
			// use, was stepped or the machine was paused meanwhile: drop this round and end the history here
			slowRounds++
			break
		}
		cls := 0
		if err != nil {
			cls = 2
			if err.Error() == noPathMsg {
				cls = 1
			} else if err.Error() == noMeasMsg {
				cls = 4
			}
		}
		if panicked {
			cls, off = 3, 0
			time.Sleep(50 * time.Millisecond) // let exchanges that were already started end
		}
		thePeer.mu.Lock()
		cl := make([]string, nc)
		for i := 0; i < nc; i++ {
			hs := map[int]bool{}
			for _, k := range thePeer.hops[i] {
				hs[k] = true
			}
			var hl []int64
			for k := range hs {
				hl = append(hl, int64(k))
			}
			sort.Slice(hl, func(a, b int) bool { return hl[a] < hl[b] })
			var vals []int64
			resets := 0
			if filters[i] != nil {
				vals = filters[i].vals
				resets = filters[i].resets
			} else {
				// without a filter the measured offsets are not scripted; record how many exchanges were
				// accepted by giving each the value 0 ... not observable: leave empty
				vals = nil
			}
			postIlv := ntpcs[i].InInterleavedMode()
			postFp := fpID(ntpcs[i].InterleavedModePath())
			cl[i] = lib.L(lib.IL(hl), lib.I(int64(resets)), lib.IL(thePeer.forms[i]), lib.IL(vals), lib.Bool(postIlv), lib.I(postFp))
			// statistics for the tags
			if preIlv[i] && len(hl) == 1 && r.fps[hl[0]] == preFp[i] && resets == 0 {
				stat["keep"] = true
				if preFp[i] == 0 {
					stat["keepempty"] = true
				}
			}
			if preIlv[i] && resets > 0 {
				stat["ilvreset"] = true
			}
		}
		thePeer.mu.Unlock()
		if nc > len(r.fps) {
			stat["fewpaths"] = true
		}
		if len(r.fps) == 0 {
			stat["nopaths"] = true
		}
		if t.pos > 0 {
			stat["drawn"] = true
		}
		outs = append(outs, lib.L(lib.L(cl...), lib.I(int64(cls)), lib.I(int64(off)), lib.I(int64(t.pos))))
		done++
		if panicked || hitDeadline {
			break // the clients' state is no longer defined by the history
		}
	}
	if done == 0 {
		abandoned++
		return
	}
	for _, k := range []string{"keep", "keepempty", "ilvreset", "fewpaths", "nopaths", "drawn"} {
		if stat[k] {
			tags += "," + k
		}
	}
	if stat["keep"] && stat["ilvreset"] && stat["drawn"] {
		tags += ",nt"
	}
	w.Case("mp.hist", tags, h.argsStr(done), lib.L(outs...))
}

func replayHist(tags, args string) {
	vs := parseValues(args)
	h := &histIn{}
	for _, c := range vs[0].l {
		h.en = append(h.en, c.l[0].i64() != 0)
		h.hasf = append(h.hasf, c.l[1].i64() != 0)
	}
	for _, rv := range vs[1].l {
		var r roundIn
		r.fps = rv.l[0].i64s()
		r.d = uint32(rv.l[1].u64())
		for _, x := range rv.l[2].l {
			r.tape = append(r.tape, uint32(x.u64()))
		}
		for _, m := range rv.l[3].l {
			r.modes = append(r.modes, m.i64s())
		}
		for _, m := range rv.l[4].l {
			r.vals = append(r.vals, m.i64s())
		}
		h.rounds = append(h.rounds, r)
	}
	// strip the statistics tags: they are recomputed
	runHist(baseTags(tags), h)
}

func baseTags(tags string) string {
	out := ""
	for _, t := range splitTags(tags) {
		switch t {
		case "keep", "keepempty", "ilvreset", "fewpaths", "nopaths", "drawn", "nt", "":
		default:
			if out != "" {
				out += ","
			}
			out += t
		}
	}
	return out
}

func splitTags(s string) []string {
	var out []string
	cur := ""
	for _, ch := range s {
		if ch == ',' {
			out = append(out, cur)
			cur = ""
		} else {
			cur += string(ch)
		}
	}
	return append(out, cur)
}

var _ = fmt.Sprint
