// C06: the case kinds of cmd/c06 plus the kinds only the C06 dispatcher knows:
// tss.full (operations of known clients on the store at its real capacity with
// real before/after snapshots) and lsn.hist (histories played against the real
// IP and SCION listeners on loopback).
package main

import "verifharness/c06lib"

func main() { c06lib.Main(true) }
