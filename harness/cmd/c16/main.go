// C16: drives the real client.ReferenceClockClient.MeasureClockOffsets (and through it
// collectMeasurements) of /repo inside testing/synctest bubbles with scripted reference
// clocks, and records what it did: return time, the caller's slice afterwards, when each
// clock's call returned, how many goroutines were alive at chosen instants, and the
// outcome of every call of a multi-call history on one collector object.
package main

import (
	"context"
	"errors"
	"fmt"
	"math"
	"os"
	"runtime"
	"sort"
	"strings"
	"sync"
	"sync/atomic"
	"testing/synctest"
	"time"

	"example.com/scion-time/core/client"
	"example.com/scion-time/core/measurements"

	"verifharness/lib"
)

var w *lib.Writer

// ---- scripted clocks ----

type script struct {
	kind, t, e int64
	ok         bool
	ek         int64 // how a failing clock fails: 0 own error, 2 context.DeadlineExceeded, 3 ctx.Err(), 4 wrapped DeadlineExceeded
	ts, off    int64
}

type mrec struct {
	ts, off int64
	err     bool
}

// The context of a call: with a deadline D (hasD) or without, cancelled explicitly at
// instant C (hasC) or not, and in any case cancelled by the harness at instant F, after
// everything that is observed.  All instants relative to the start of the call.
type round struct {
	start      int64 // histories only
	hasD, hasC bool
	D, C, F    int64
	clocks     []script
	ms0        []mrec
}

func fmtCtx(rd round) string {
	return lib.L(lib.Bool(rd.hasD), lib.I(rd.D), lib.Bool(rd.hasC), lib.I(rd.C), lib.I(rd.F))
}

// the instant at which the context's Done channel closes
func doneAt(rd round) int64 {
	d := max0(rd.F)
	if rd.hasD && max0(rd.D) < d {
		d = max0(rd.D)
	}
	if rd.hasC && max0(rd.C) < d {
		d = max0(rd.C)
	}
	return d
}

var errClock = errors.New("scripted clock failed")
var errStale = errors.New("stale error")

type sclock struct {
	s       script
	start   time.Time
	mu      *sync.Mutex
	done    *int64
	release chan struct{} // closed by the harness when it tears the case down
}

func (c *sclock) MeasureClockOffset(ctx context.Context) (time.Time, time.Duration, error) {
	t, e := scale*time.Duration(c.s.t), scale*time.Duration(c.s.e)
	switch c.s.kind {
	case 0: // completes at t, does not look at the context
		time.Sleep(t)
	case 3: // blocked on a channel until t, does not look at the context
		<-time.After(t)
	case 1: // completes at t, or e after the context is done
		tm := time.NewTimer(t)
		select {
		case <-tm.C:
		case <-ctx.Done():
			tm.Stop()
			time.Sleep(e)
		}
	case 4: // never, whatever happens to the context (until the harness tears the case down)
		<-c.release
	default: // never until cancelled, then e later
		<-ctx.Done()
		time.Sleep(e)
	}
	c.mu.Lock()
	*c.done = unscale(time.Since(c.start))
	c.mu.Unlock()
	return toTime(c.s.ts), time.Duration(c.s.off), scriptErr(ctx, c.s)
}

// zeroTS stands for the zero time.Time in case files
const zeroTS = math.MinInt64

func toTime(ts int64) time.Time {
	if ts == zeroTS {
		return time.Time{}
	}
	return time.Unix(0, ts)
}

func fromTime(t time.Time) int64 {
	if t.IsZero() {
		return zeroTS
	}
	return t.UnixNano()
}

func scriptErr(ctx context.Context, s script) error {
	if s.ok {
		return nil
	}
	switch s.ek {
	case 2:
		return context.DeadlineExceeded
	case 3:
		if err := ctx.Err(); err != nil { // only scripted for clocks that wait for the cancellation
			return err
		}
	case 4:
		return fmt.Errorf("scripted clock: %w", context.DeadlineExceeded)
	}
	return errClock
}

func resCode(s script) int64 {
	if s.ok {
		return 1
	}
	return s.ek
}

func toMs(in []mrec) []measurements.Measurement {
	ms := make([]measurements.Measurement, len(in))
	for i, m := range in {
		ms[i] = measurements.Measurement{Timestamp: toTime(m.ts), Offset: time.Duration(m.off)}
		if m.err {
			ms[i].Error = errStale
		}
	}
	return ms
}

func fmtMs(ms []measurements.Measurement) string {
	s := make([]string, len(ms))
	for i, m := range ms {
		s[i] = lib.L(lib.I(fromTime(m.Timestamp)), lib.I(int64(m.Offset)), lib.Bool(m.Error != nil))
	}
	return lib.L(s...)
}

func fmtMrecs(in []mrec) string {
	s := make([]string, len(in))
	for i, m := range in {
		s[i] = lib.L(lib.I(m.ts), lib.I(m.off), lib.Bool(m.err))
	}
	return lib.L(s...)
}

func fmtScripts(cs []script) string {
	s := make([]string, len(cs))
	for i, c := range cs {
		s[i] = lib.L(lib.I(c.kind), lib.I(c.t), lib.I(c.e), lib.I(resCode(c)), lib.I(c.ts), lib.I(c.off))
	}
	return lib.L(s...)
}

func panicClass(r any) int64 {
	msg := fmt.Sprint(r)
	switch {
	case strings.Contains(msg, "number of result offsets"):
		return 1
	case strings.Contains(msg, "too many reference clock offset measurements"):
		return 2
	case strings.Contains(msg, "inconsistent count"):
		return 3
	}
	return 4
}

// one call, started now on collector c; the result is filled in when the call ends
type callResult struct {
	mu    sync.Mutex
	cls   int64 // -1 = still running
	ret   int64
	ms    []measurements.Measurement
	msRet []measurements.Measurement // copy of ms taken at the instant the call returned
	j     int64                      // what collectMeasurements returned (raw calls only)
	comps []int64
}

// prepareCall sets up one call on collector c as of now; run performs it (synchronously,
// recording how it ended); teardown cancels its context and releases its blocked clocks.
func prepareCall(c *client.ReferenceClockClient, rd round, raw bool) (res *callResult, run func(), teardown func()) {
	res = &callResult{cls: -1, ret: -1, comps: make([]int64, len(rd.clocks))}
	start := time.Now()
	release := make(chan struct{})
	clks := make([]client.ReferenceClock, len(rd.clocks))
	for i, s := range rd.clocks {
		res.comps[i] = -1
		clks[i] = &sclock{s: s, start: start, mu: &res.mu, done: &res.comps[i], release: release}
	}
	res.ms = toMs(rd.ms0)
	var ctx context.Context
	var cancel context.CancelFunc
	if rd.hasD {
		ctx, cancel = context.WithTimeout(context.Background(), scale*time.Duration(rd.D))
	} else {
		ctx, cancel = context.WithCancel(context.Background())
	}
	if rd.hasC {
		time.AfterFunc(scale*time.Duration(rd.C), cancel)
	}
	time.AfterFunc(scale*time.Duration(rd.F), cancel)
	run = func() {
		defer func() {
			if r := recover(); r != nil {
				res.mu.Lock()
				res.cls = panicClass(r)
				res.mu.Unlock()
			}
		}()
		j := -1
		if raw {
			// collectMeasurements itself (through the hook), fed by producers of the harness that
			// do what MeasureClockOffsets' producers do
			msc := make(chan measurements.Measurement)
			for _, clk := range clks {
				go func(clk client.ReferenceClock) {
					ts, off, err := clk.MeasureClockOffset(ctx)
					msc <- measurements.Measurement{Timestamp: ts, Offset: off, Error: err}
				}(clk)
			}
			j = client.VerifCollectMeasurements(ctx, res.ms, msc)
		} else {
			c.MeasureClockOffsets(ctx, clks, res.ms)
		}
		d := unscale(time.Since(start))
		res.mu.Lock()
		res.cls, res.ret, res.j = 0, d, int64(j)
		res.msRet = append([]measurements.Measurement(nil), res.ms...)
		res.mu.Unlock()
	}
	teardown = func() {
		cancel()
		close(release)
	}
	return
}

// All scripted durations are doubled, so that everything the scenario makes happen
// happens at an even instant (relative to the start of its call), and goroutines are
// counted at odd instants: "at time tp" then means "everything up to and including tp
// has settled, nothing later has happened", whatever order the runtime fires timers of
// one instant in.
const scale = 2

func unscale(d time.Duration) int64 {
	if d%scale != 0 {
		return -int64(d) - 1000 // not an instant of the scenario
	}
	return int64(d / scale)
}

func sleepUntil(start time.Time, t time.Duration) {
	if d := t - time.Since(start); d > 0 {
		time.Sleep(d)
	}
	synctest.Wait()
}

var stackBuf = make([]byte, 1<<20)

// goroutines left behind for ever by earlier cases (only when the code under test leaks):
// the runtime's dump attributes them to whatever bubble is running, so they are remembered
// by id and left out of later counts.
var leaked = map[string]bool{}

func goroutineHeaders() []string {
	n := runtime.Stack(stackBuf, true)
	for n == len(stackBuf) && len(stackBuf) < 1<<28 {
		stackBuf = make([]byte, 2*len(stackBuf))
		n = runtime.Stack(stackBuf, true)
	}
	var hs []string
	for _, line := range strings.Split(string(stackBuf[:n]), "\n") {
		if strings.HasPrefix(line, "goroutine ") && strings.HasSuffix(line, "]:") {
			hs = append(hs, line)
		}
	}
	return hs
}

func goid(header string) string {
	f := strings.Fields(header)
	if len(f) < 2 {
		return ""
	}
	return f[1]
}

// called outside any bubble: every goroutine still marked as belonging to one is stuck for ever
func recordLeaked() {
	for _, h := range goroutineHeaders() {
		if strings.Contains(h, "synctest group ") {
			leaked[goid(h)] = true
		}
	}
}

// bubbleGoroutines counts the goroutines of the calling goroutine's synctest bubble,
// not counting the caller and the goroutine waiting in synctest.Run.
func bubbleGoroutines() int64 {
	group := ""
	cnt := 0
	for _, line := range goroutineHeaders() {
		i := strings.Index(line, "synctest group ")
		if i < 0 || leaked[goid(line)] {
			continue
		}
		g := line[i : len(line)-2]
		if j := strings.IndexAny(g, ",]"); j >= 0 {
			g = g[:j]
		}
		if group == "" {
			group = g // the first goroutine listed is the caller
		}
		if g == group {
			cnt++
		}
	}
	return int64(cnt - 2)
}

// bubble runs f in a synctest bubble.  A bubble that cannot end because a goroutine is
// blocked for ever is reported (deadlock); so is a bubble in which a goroutine keeps
// running without ever blocking, so that virtual time cannot advance any more (hung:
// decided by a generous wall-clock limit; the harness stops after recording that case,
// because the spinning goroutine cannot be stopped).
func bubble(f func()) (deadlock, hung bool) {
	done := make(chan bool, 1)
	go func() {
		dl := false
		defer func() {
			if r := recover(); r != nil {
				if strings.Contains(fmt.Sprint(r), "deadlock") {
					dl = true
				} else {
					panic(r)
				}
			}
			done <- dl
		}()
		synctest.Run(f)
	}()
	select {
	case dl := <-done:
		if dl {
			recordLeaked()
			deadlocks++
		}
		return dl, false
	case <-time.After(hangLimit):
		return false, true
	}
}

const hangLimit = 120 * time.Second

// cases that left goroutines behind for ever; after many of them the harness stops early
// (the dumps get slow and the point is made)
var deadlocks int

func stopIfLeaky() {
	if deadlocks >= 200 {
		fmt.Println("NOTE 200 cases left goroutines blocked for ever; the harness stopped early")
		w.Close()
		os.Exit(0)
	}
}

func stopAfterHang() {
	fmt.Println("NOTE a call kept running without blocking after its deadline: virtual time could not advance; the harness stopped after recording this case")
	w.Close()
	os.Exit(0)
}

// snapshot: the slice reported is the copy taken at the return instant (if the call returned)
func (r *callResult) snapshot() (cls, ret int64, ms string, comps []int64) {
	r.mu.Lock()
	defer r.mu.Unlock()
	if r.msRet != nil {
		return r.cls, r.ret, fmtMs(r.msRet), append([]int64(nil), r.comps...)
	}
	return r.cls, r.ret, fmtMs(r.ms), append([]int64(nil), r.comps...)
}

// lateWrite: was the caller's slice written to after the call had returned?
func (r *callResult) lateWrite() int64 {
	r.mu.Lock()
	defer r.mu.Unlock()
	if r.msRet != nil && fmtMs(r.msRet) != fmtMs(r.ms) {
		return 1
	}
	return 0
}

func runCollect(tags string, rd round, probes []int64, raw bool) {
	counts := make([]int64, len(probes))
	var res *callResult
	var comps []int64
	var after int64
	dead, hung := bubble(func() {
		start := time.Now()
		var c client.ReferenceClockClient
		r, run, teardown := prepareCall(&c, rd, raw)
		res = r
		go run()
		last := int64(0)
		for i, tp := range probes {
			sleepUntil(start, scale*time.Duration(tp)+1)
			counts[i] = bubbleGoroutines()
			last = tp
		}
		_, _, _, comps = res.snapshot()
		if rd.F > last {
			last = rd.F
		}
		sleepUntil(start, scale*time.Duration(last+1))
		teardown()
		synctest.Wait()
		after = bubbleGoroutines()
	})
	cls, ret, ms, _ := res.snapshot()
	if dead && after == 0 {
		after = 1 // goroutines were left behind for ever
	}
	if cls == -1 {
		cls = 5 // the call never returned
		if hung {
			cls = 6 // ... and never blocked either
		}
	}
	if len(rd.ms0) != len(rd.clocks) {
		comps = nil
	}
	defer func() {
		if hung {
			stopAfterHang()
		}
	}()
	if raw {
		w.Case("collect.raw", tags,
			lib.V(fmtCtx(rd), fmtScripts(rd.clocks), fmtMrecs(rd.ms0), lib.IL(probes)),
			lib.V(lib.I(cls), lib.I(ret), lib.I(res.j), ms, lib.IL(comps), lib.IL(counts), lib.I(after), lib.I(res.lateWrite())))
		return
	}
	w.Case("collect", tags,
		lib.V(fmtCtx(rd), fmtScripts(rd.clocks), fmtMrecs(rd.ms0), lib.IL(probes)),
		lib.V(lib.I(cls), lib.I(ret), ms, lib.IL(comps), lib.IL(counts), lib.I(after), lib.I(res.lateWrite())))
}

// runHistory makes the calls ops on ONE collector object.  Sequential histories start each
// call at its instant after everything earlier has settled.  Concurrent ones (kind "race":
// all calls have the same start) release all callers at once from a barrier, with no
// synchronisation between them: which of them gets in is up to the scheduler.
func runHistory(kind, tags string, ops []round, tend int64, variant int) {
	results := make([]*callResult, len(ops))
	compss := make([][]int64, len(ops))
	var cnt, after int64
	dead, hung := bubble(func() {
		start := time.Now()
		var c client.ReferenceClockClient
		var teardowns []func()
		if kind == "race" {
			sleepUntil(start, scale*time.Duration(ops[0].start))
			var gate atomic.Bool
			var ready sync.WaitGroup
			for i, op := range ops {
				r, run, teardown := prepareCall(&c, op, false)
				results[i] = r
				teardowns = append(teardowns, teardown)
				ready.Add(1)
				go func(i int) {
					spin := (variant >> (4 * uint(i))) & 15
					ready.Done()
					for !gate.Load() {
						if variant&(1<<12) != 0 {
							runtime.Gosched()
						}
					}
					for k := 0; k < spin*3; k++ {
						_ = gate.Load()
					}
					if variant&(1<<13) != 0 && i%2 == 1 {
						runtime.Gosched()
					}
					run()
				}(i)
			}
			ready.Wait()
			gate.Store(true)
			synctest.Wait()
		} else {
			for i, op := range ops {
				sleepUntil(start, scale*time.Duration(op.start))
				r, run, teardown := prepareCall(&c, op, false)
				results[i] = r
				teardowns = append(teardowns, teardown)
				go run()
				synctest.Wait()
			}
		}
		sleepUntil(start, scale*time.Duration(tend)+1)
		cnt = bubbleGoroutines()
		for i := range ops {
			_, _, _, compss[i] = results[i].snapshot()
		}
		sleepUntil(start, scale*time.Duration(tend+2))
		for _, f := range teardowns {
			f()
		}
		synctest.Wait()
		after = bubbleGoroutines()
	})
	if dead && after == 0 {
		after = 1
	}
	defer func() {
		if hung {
			stopAfterHang()
		}
	}()
	as := make([]string, len(ops))
	obs := make([]string, len(ops))
	for i, op := range ops {
		if results[i] == nil { // never started: the bubble hung before
			results[i] = &callResult{cls: -1, ret: -1, ms: toMs(op.ms0)}
		}
		as[i] = lib.L(lib.I(op.start), fmtCtx(op), fmtScripts(op.clocks), fmtMrecs(op.ms0))
		cls, ret, ms, comps := results[i].snapshot()
		if compss[i] != nil {
			comps = compss[i]
		}
		if cls == -1 {
			cls = 5
			if hung {
				cls = 6
			}
		}
		if cls != 0 {
			started := false
			for _, x := range comps {
				if x != -1 {
					started = true
				}
			}
			if !started {
				comps = nil
			}
		}
		obs[i] = lib.L(lib.I(cls), lib.I(ret), ms, lib.IL(comps), lib.I(results[i].lateWrite()))
	}
	w.Case(kind, tags, lib.V(lib.L(as...), lib.I(tend), lib.I(int64(variant))), lib.V(lib.L(obs...), lib.I(cnt), lib.I(after)))
}

// ---- generators ----

func max0(x int64) int64 {
	if x < 0 {
		return 0
	}
	return x
}

const never = int64(1) << 62

// completion time of a scripted clock under a context that is done at instant X (used only
// to aim probes and histories and for tags)
func ctime(X int64, s script) int64 {
	D0, t0, e0 := max0(X), max0(s.t), max0(s.e)
	switch s.kind {
	case 0, 3:
		return t0
	case 1:
		if t0 <= D0 {
			return t0
		}
		return D0 + e0
	case 4:
		return never
	}
	return D0 + e0
}

func retTime(rd round) int64 {
	X := doneAt(rd)
	m := int64(0)
	for _, s := range rd.clocks {
		if c := ctime(X, s); c > m {
			m = c
		}
	}
	if m > X {
		return X
	}
	return m
}

// the latest instant at which a clock that completes at all completes
func lastCompletion(rd round) int64 {
	X := doneAt(rd)
	m := int64(0)
	for _, s := range rd.clocks {
		if c := ctime(X, s); c != never && c > m {
			m = c
		}
	}
	return m
}

func genDeadline(r *lib.Rng) int64 {
	switch r.Intn(10) {
	case 0:
		return lib.Pick(r, int64(0), -1, -1000)
	case 1:
		return lib.Pick(r, int64(1), 2, 3)
	case 2:
		return lib.Pick(r, int64(1000000000), 3600000000000, 86400000000000*365)
	}
	return r.Range(4, 2000)
}

func genClock(r *lib.Rng, D int64, id int64) script {
	D0 := max0(D)
	s := script{ok: r.Intn(10) < 7, ts: 1700000000000000000 + id*1000 + r.Range(0, 9), off: 1000 + id}
	// a few distinct instants so that completions coincide with each other and with the cancellation
	near := func() int64 {
		return lib.Pick(r, int64(0), 1, D0/2, D0-2, D0-1, D0, D0, D0+1, D0+2, 2*D0+1, D0+r.Range(0, 50), r.Range(0, D0+1), 3*D0+17)
	}
	switch r.Intn(17) {
	case 0, 1, 2, 3, 4, 5:
		s.kind, s.t = 0, near()
	case 6, 7:
		s.kind, s.t = 3, near()
	case 8, 9, 10, 11:
		s.kind, s.t, s.e = 1, near(), lib.Pick(r, int64(0), 0, 1, 5, r.Range(0, 40))
		if max0(s.t) == D0 {
			s.e = 0
		}
	case 12:
		s.kind = 4 // never completes, cancelled or not
	default:
		s.kind, s.e = 2, lib.Pick(r, int64(0), 0, 0, 1, 7, r.Range(0, 60))
	}
	if r.Intn(40) == 0 {
		s.t = -r.Range(1, 5)
		if s.kind == 1 && D0 == 0 {
			s.e = 0
		}
	}
	if !s.ok { // failing clocks fail in different ways, also with the context's own errors
		s.ek = lib.Pick(r, int64(0), 0, 2, 4)
		if s.kind == 2 && r.Bool() {
			s.ek = 3
		}
	}
	// results that look like "nothing": the zero time and/or a zero offset (what sync.Run's local clock reports)
	switch r.Intn(16) {
	case 0:
		s.ts = zeroTS
	case 1:
		s.off = 0
	case 2:
		s.ts, s.off = zeroTS, 0
	}
	return s
}

// a clock may only fail with ctx.Err() if it waits for the context to be done
func normalise(cs []script) {
	for k := range cs {
		if cs[k].ek == 3 && cs[k].kind != 2 {
			cs[k].ek = 0
		}
	}
}

// genRound generates clocks around an instant X at which the context is to be done and
// then decides how the context gets done at X: by its deadline, by an explicit cancel
// before its deadline, by an explicit cancel of a context without deadline, or not at all
// before the harness's final cancel (mode "open": rd.F is then the instant, set by the caller).
func genRound(r *lib.Rng, maxn int) round {
	n := r.Intn(maxn + 1)
	if r.Intn(12) == 0 {
		n = r.Intn(4*maxn + 1)
	}
	X := genDeadline(r)
	rd := round{F: never}
	wide := maxn >= 7 && r.Intn(40) == 0
	if wide { // many clocks, more than 32 of them blocked: the healthy ones must not be starved
		X = r.Range(4, 2000)
		n = 34 + r.Intn(67)
	}
	for k := 0; k < n; k++ {
		rd.clocks = append(rd.clocks, genClock(r, X, int64(k)))
	}
	if wide {
		b := 33 + r.Intn(n-33)
		for k := range rd.clocks {
			c := &rd.clocks[k]
			if k < b {
				c.kind, c.t = lib.Pick(r, int64(4), 4, 0, 3), X+r.Range(1, 3*X)
			} else {
				c.kind, c.t, c.ok = 0, r.Range(0, X-1), true
			}
		}
	}
	// shape the round now and then: everything early / everything late / all at the cancellation
	shape := r.Intn(12)
	if wide {
		shape = 11
	}
	switch shape {
	case 0:
		for k := range rd.clocks {
			rd.clocks[k].kind, rd.clocks[k].t = 0, r.Range(0, max0(X)-1)
		}
	case 1:
		for k := range rd.clocks {
			rd.clocks[k].kind, rd.clocks[k].t = 0, max0(X)+r.Range(1, 30)
		}
	case 2:
		for k := range rd.clocks {
			rd.clocks[k].kind, rd.clocks[k].t = lib.Pick(r, int64(0), 3), max0(X)
		}
	}
	switch r.Intn(20) {
	case 0, 1, 2, 3: // cancelled explicitly before the deadline
		rd.hasD, rd.D = true, max0(X)+lib.Pick(r, int64(1), 2, 50, 1000000000000)
		rd.hasC, rd.C = true, X
	case 4, 5, 6: // no deadline, cancelled explicitly
		rd.hasC, rd.C = true, X
	case 7: // deadline and an explicit cancel at the same instant or later
		rd.hasD, rd.D = true, X
		rd.hasC, rd.C = true, max0(X)+lib.Pick(r, int64(0), 0, 1, 30)
	case 8, 9: // neither: the collector has to wait for every clock
		for k := range rd.clocks {
			if rd.clocks[k].kind == 2 || rd.clocks[k].kind == 4 {
				rd.clocks[k].kind = 0
			}
			if rd.clocks[k].kind == 1 {
				rd.clocks[k].e = 0
			}
		}
	default:
		rd.hasD, rd.D = true, X
	}
	// clocks that report the same measurement
	if n >= 2 && r.Intn(6) == 0 {
		a, b := r.Intn(n), r.Intn(n)
		rd.clocks[a].ts, rd.clocks[a].off = rd.clocks[b].ts, rd.clocks[b].off
	}
	normalise(rd.clocks)
	// stale content: distinguishable from every result that has to be stored; now and then it
	// looks like the result of a clock that fails or is late (which must not be stored)
	var notStored []script
	for _, c := range rd.clocks {
		if !c.ok || ctime(doneAt(rd), c) > doneAt(rd) {
			notStored = append(notStored, c)
		}
	}
	for k := 0; k < n; k++ {
		m := mrec{ts: 1600000000000000000 + int64(k), off: -5000 - int64(k), err: r.Intn(5) == 0}
		if len(notStored) > 0 && r.Intn(15) == 0 {
			x := notStored[r.Intn(len(notStored))]
			m = mrec{ts: x.ts, off: x.off, err: false}
		}
		rd.ms0 = append(rd.ms0, m)
	}
	return rd
}

func roundTags(rd round) (tags []string, nt bool) {
	D0 := doneAt(rd)
	var early, tie, late, fail, nev int
	seen := map[[2]int64]bool{}
	dup := false
	for _, s := range rd.clocks {
		c := ctime(D0, s)
		switch {
		case c == never:
			nev++
			late++
		case c < D0:
			early++
		case c == D0:
			tie++
		default:
			late++
		}
		if !s.ok {
			fail++
		}
		if s.ok {
			if seen[[2]int64{s.ts, s.off}] {
				dup = true
			}
			seen[[2]int64{s.ts, s.off}] = true
		}
	}
	if len(rd.clocks) == 0 {
		tags = append(tags, "n0")
	}
	if len(rd.clocks) > 32 {
		tags = append(tags, "wide")
	}
	if D0 == 0 {
		tags = append(tags, "expired")
	}
	if !rd.hasD {
		tags = append(tags, "nodl")
	}
	if rd.hasC && (!rd.hasD || max0(rd.C) < max0(rd.D)) {
		tags = append(tags, "xcancel")
	}
	if !rd.hasD && !rd.hasC {
		tags = append(tags, "open")
	}
	if nev > 0 {
		tags = append(tags, "never")
	}
	if early > 0 {
		tags = append(tags, "early")
	}
	if tie > 0 {
		tags = append(tags, "tie")
	}
	if late > 0 {
		tags = append(tags, "late")
	}
	if fail > 0 {
		tags = append(tags, "fail")
	}
	if dup {
		tags = append(tags, "dup")
	}
	if late == 0 && tie == 0 && len(rd.clocks) > 0 {
		tags = append(tags, "allearly")
	}
	nt = len(rd.clocks) >= 2 && (late > 0 || tie > 0) && (early > 0 || tie > 0)
	return
}

// genProbes chooses the instants at which goroutines are counted and fixes rd.F, the
// harness's final cancel, after the last of them.
func genProbes(r *lib.Rng, rd *round) []int64 {
	set := map[int64]bool{}
	open := !rd.hasD && !rd.hasC
	D0 := doneAt(*rd)
	if open {
		D0 = 0
	}
	end := D0
	if c := lastCompletion(*rd); c > end {
		end = c
	}
	last := end + r.Range(1, 20)
	rd.F = last + 1
	D0 = doneAt(*rd)
	cands := []int64{0, D0 - 1, D0, D0 + 1, retTime(*rd), retTime(*rd) + 1}
	for _, s := range rd.clocks {
		if c := ctime(D0, s); c != never {
			cands = append(cands, c-1, c, c+1)
		}
	}
	for i := 0; i < 4; i++ {
		if x := cands[r.Intn(len(cands))]; x >= 0 && x <= last {
			set[x] = true
		}
	}
	set[last] = true
	var ps []int64
	for x := range set {
		ps = append(ps, x)
	}
	sort.Slice(ps, func(i, j int) bool { return ps[i] < ps[j] })
	return ps
}

func genCollect(r *lib.Rng, raw bool) {
	rd := genRound(r, 7)
	probes := genProbes(r, &rd)
	tags, nt := roundTags(rd)
	if !raw && r.Intn(25) == 0 { // lengths differ: refused before anything starts
		if r.Bool() || len(rd.ms0) == 0 {
			rd.ms0 = append(rd.ms0, mrec{ts: 1, off: 2})
		} else {
			rd.ms0 = rd.ms0[:len(rd.ms0)-1]
		}
		tags, nt = []string{"len"}, false
	}
	if nt {
		tags = append(tags, "nt")
	}
	runCollect(strings.Join(tags, ","), rd, probes, raw)
}

// rounds of a history: an "open" context (done only by the harness's final cancel) would keep
// its round in progress until the end if a clock waits for the cancellation, so such clocks
// are not generated there (genRound)
func genHistory(r *lib.Rng) {
	nops := 2 + r.Intn(4)
	var ops []round
	tags := map[string]bool{}
	t := int64(0)
	var busyUntil int64 = -1 // model-side guess, only used to aim
	var lateUntil int64
	for i := 0; i < nops; i++ {
		rd := genRound(r, 4)
		if r.Intn(3) == 0 && len(rd.clocks) == 0 {
			rd = genRound(r, 4)
		}
		if r.Intn(10) == 0 {
			rd.ms0 = append(rd.ms0, mrec{ts: 1, off: 2})
			tags["len"] = true
		}
		// where to start relative to the call in progress
		switch {
		case i > 0 && r.Intn(6) == 0:
			tags["burst"] = true // at the same instant as the call before
		case busyUntil > t && r.Intn(3) != 0:
			t = t + r.Range(0, busyUntil-t-1) // while the earlier call is in progress
		case busyUntil >= t && r.Intn(2) == 0:
			t = busyUntil // the instant it returns
			tags["boundary"] = true
		default:
			if busyUntil > t {
				t = busyUntil
			}
			t += r.Range(0, 30)
		}
		rd.start = t
		ops = append(ops, rd)
		if rd.hasC && (!rd.hasD || max0(rd.C) < max0(rd.D)) {
			tags["xcancel"] = true
		}
		if len(rd.ms0) == len(rd.clocks) {
			if t < busyUntil {
				tags["busy"] = true
			} else {
				if t < lateUntil {
					tags["reuse"] = true // let in while late clocks of an earlier round are still running
				}
				if c := t + lastCompletion(rd); c > lateUntil {
					lateUntil = c
				}
				busyUntil = t + retTime(rd) // (F = never for now: an open context is done after every clock)
			}
		}
	}
	tend := lateUntil
	for _, op := range ops { // whichever calls get in: every clock that completes at all has completed by tend
		if c := op.start + lastCompletion(op); c > tend {
			tend = c
		}
	}
	if busyUntil > tend {
		tend = busyUntil
	}
	for _, op := range ops {
		if op.hasD || op.hasC {
			if x := op.start + doneAt(op); x > tend {
				tend = x
			}
		}
	}
	tend += r.Range(1, 10)
	for i := range ops {
		ops[i].F = tend - ops[i].start + 1
	}
	var tl []string
	for k := range tags {
		tl = append(tl, k)
	}
	sort.Strings(tl)
	if tags["busy"] {
		tl = append(tl, "nt")
	}
	runHistory("history", strings.Join(tl, ","), ops, tend, 0)
}

// genRace: two or three calls on one collector released at the same instant from a barrier
func genRace(r *lib.Rng) {
	k := 2 + r.Intn(2)
	forceYield := false
	if cpus := runtime.NumCPU() - 1; k > cpus { // the callers spin on the barrier: they need a CPU each (and one for the releaser)
		k = cpus
		if k < 2 {
			k, forceYield = 2, true
		}
	}
	var ops []round
	start := r.Range(0, 20)
	tend := int64(0)
	long := 0
	for i := 0; i < k; i++ {
		rd := genRound(r, 3)
		if r.Intn(4) != 0 { // mostly rounds that take a while, so that the others must be refused
			rd = round{hasD: true, D: r.Range(5, 300), F: never}
			n := 1 + r.Intn(2)
			for j := 0; j < n; j++ {
				rd.clocks = append(rd.clocks, script{kind: lib.Pick(r, int64(0), 3, 2), t: r.Range(1, 400), ok: r.Intn(4) != 0,
					ts: 1700000000000000000 + int64(100*i+j), off: int64(1000 + 100*i + j)})
				rd.ms0 = append(rd.ms0, mrec{ts: 1600000000000000000 + int64(j), off: -5000 - int64(j)})
			}
		}
		if r.Intn(12) == 0 {
			rd.ms0 = append(rd.ms0, mrec{ts: 1, off: 2})
		}
		rd.start = start
		if len(rd.ms0) == len(rd.clocks) && retTime(rd) > 0 {
			long++
		}
		if rd.hasD || rd.hasC {
			if x := start + doneAt(rd); x > tend {
				tend = x
			}
		}
		if x := start + lastCompletion(rd); x > tend {
			tend = x
		}
		ops = append(ops, rd)
	}
	tend += r.Range(1, 10)
	for i := range ops {
		ops[i].F = tend - ops[i].start + 1
	}
	tags := "race"
	if long >= 2 {
		tags += ",contended,nt"
	}
	// callers mostly spin on the barrier without yielding (that is what makes them reach the
	// guard within nanoseconds of each other), each with its own short delay after it
	variant := r.Intn(1 << 12)
	switch r.Intn(10) {
	case 0:
		variant |= 1 << 12
	case 1, 2:
		variant |= 1 << 13
	case 3:
		variant |= 3 << 12
	}
	if forceYield {
		variant |= 1 << 12
	}
	runHistory("race", tags, ops, tend, variant)
}

// ---- replay: parse the args of a case line back ----

type val struct {
	n    int64
	list []val
	isL  bool
}

func parseVals(s string) []val {
	pos := 0
	var parseList func(closing bool) []val
	parseList = func(closing bool) []val {
		var out []val
		for {
			for pos < len(s) && s[pos] == ' ' {
				pos++
			}
			if pos >= len(s) {
				return out
			}
			if s[pos] == ']' {
				pos++
				return out
			}
			if s[pos] == '[' {
				pos++
				out = append(out, val{list: parseList(true), isL: true})
				continue
			}
			st := pos
			for pos < len(s) && s[pos] != ' ' && s[pos] != ']' && s[pos] != '[' {
				pos++
			}
			out = append(out, val{n: lib.ParseI(s[st:pos])})
		}
	}
	return parseList(false)
}

func scriptsOf(v val) []script {
	var out []script
	for _, c := range v.list {
		out = append(out, script{kind: c.list[0].n, t: c.list[1].n, e: c.list[2].n, ok: c.list[3].n == 1, ek: c.list[3].n, ts: c.list[4].n, off: c.list[5].n})
	}
	return out
}

func mrecsOf(v val) []mrec {
	var out []mrec
	for _, m := range v.list {
		out = append(out, mrec{ts: m.list[0].n, off: m.list[1].n, err: m.list[2].n != 0})
	}
	return out
}

func intsOf(v val) []int64 {
	var out []int64
	for _, x := range v.list {
		out = append(out, x.n)
	}
	return out
}

func ctxOf(v val, rd *round) {
	rd.hasD, rd.D, rd.hasC, rd.C, rd.F = v.list[0].n != 0, v.list[1].n, v.list[2].n != 0, v.list[3].n, v.list[4].n
}

func replay(kind, tags, args string) {
	vs := parseVals(args)
	switch kind {
	case "collect", "collect.raw":
		rd := round{clocks: scriptsOf(vs[1]), ms0: mrecsOf(vs[2])}
		ctxOf(vs[0], &rd)
		runCollect(tags, rd, intsOf(vs[3]), kind == "collect.raw")
	case "history", "race":
		var ops []round
		for _, o := range vs[0].list {
			rd := round{start: o.list[0].n, clocks: scriptsOf(o.list[2]), ms0: mrecsOf(o.list[3])}
			ctxOf(o.list[1], &rd)
			ops = append(ops, rd)
		}
		runHistory(kind, tags, ops, vs[1].n, int(vs[2].n))
	case "sync.round":
		replaySync(tags, vs)
	}
}

func main() {
	a := lib.ParseArgs()
	w = lib.NewWriter(a.Out)
	defer w.Close()
	if a.Replay != "" {
		for _, c := range lib.ReplayLines(a.Replay) {
			replay(c[0], c[1], c[2])
		}
		return
	}
	r := lib.NewRng(a.Seed)
	nc, nh, nr, ns, nw := 3500, 3500, 5000, 2500, 3000
	if a.Tier == "thorough" {
		nc, nh, nr, ns, nw = 60000, 50000, 60000, 40000, 40000
	}
	corpus()
	syncCorpus()
	// the kinds interleaved, so that a run that stops early has seen all of them
	for i := 0; i < nc || i < nh || i < nr; i++ {
		if i < ns {
			genSync(r)
		}
		if i < nc {
			genCollect(r, false)
			genCollect(r.Fork(), false)
		}
		if i < nw {
			genCollect(r, true)
		}
		if i < nh {
			genHistory(r)
		}
		if i < nr {
			genRace(r)
		}
		stopIfLeaky()
	}
}

// fixed cases run first: the situations the property names
func corpus() {
	rc := func(tags string, rd round, probes []int64) {
		runCollect(tags, rd, probes, false)
		runCollect(tags, rd, probes, true)
	}
	ok := func(kind, t, e, id int64) script {
		return script{kind: kind, t: t, e: e, ok: true, ts: 1700000000000000000 + id, off: 1000 + id}
	}
	bad := func(kind, t, e, id int64) script { s := ok(kind, t, e, id); s.ok = false; return s }
	st := func(n int) []mrec {
		var m []mrec
		for k := 0; k < n; k++ {
			m = append(m, mrec{ts: 1600000000000000000 + int64(k), off: -5000 - int64(k)})
		}
		return m
	}
	dl := func(start, D, F int64, clocks []script, ms0 []mrec) round {
		return round{start: start, hasD: true, D: D, F: F, clocks: clocks, ms0: ms0}
	}
	// a blocked clock far beyond the deadline, a fast one, a failing one
	rc("late,early,fail,nt", dl(0, 100, 4011, []script{ok(3, 4000, 0, 0), ok(0, 10, 0, 1), bad(0, 20, 0, 2)}, st(3)), []int64{0, 99, 100, 101, 4000, 4010})
	// all clocks wait for the cancellation
	rc("tie,nt", dl(0, 50, 61, []script{ok(2, 0, 0, 0), ok(2, 0, 0, 1), bad(2, 0, 3, 2)}, st(3)), []int64{49, 50, 53, 60})
	// no clocks at all
	rc("n0", dl(0, 10, 12, nil, nil), []int64{0, 10, 11})
	// deadline already over
	rc("expired,tie,nt", dl(0, 0, 7, []script{ok(0, 0, 0, 0), ok(0, 5, 0, 1)}, st(2)), []int64{0, 5, 6})
	// cancelled explicitly long before the deadline, with a clock that never completes and one that waits for the cancellation
	rc("xcancel,never,early,late,nt", round{hasD: true, D: 100000, hasC: true, C: 40, F: 500,
		clocks: []script{ok(4, 0, 0, 0), ok(0, 10, 0, 1), ok(2, 0, 5, 2), ok(0, 300, 0, 3)}, ms0: st(4)}, []int64{0, 39, 40, 41, 45, 300, 499})
	// no deadline, cancelled explicitly
	rc("nodl,xcancel,late,nt", round{hasC: true, C: 70, F: 200,
		clocks: []script{ok(0, 10, 0, 0), bad(3, 20, 0, 1), ok(3, 150, 0, 2)}, ms0: st(3)}, []int64{69, 70, 71, 150, 199})
	// no deadline, never cancelled before every clock has completed: returns with the last clock
	rc("nodl,open,allearly", round{F: 1000, clocks: []script{ok(0, 10, 0, 0), ok(3, 600, 0, 1), bad(1, 40, 0, 2)}, ms0: st(3)}, []int64{0, 599, 600, 601, 999})
	// results that look like nothing: zero time and zero offset are successes like any other
	rc("early,late,nt", dl(0, 100, 400, []script{{kind: 0, t: 10, ok: true, ts: zeroTS, off: 0}, {kind: 0, t: 20, ok: true, ts: zeroTS, off: 7}, {kind: 0, t: 30, ok: true, ts: 5, off: 0},
		{kind: 0, t: 40, ok: false, ek: 2, ts: 9, off: 9}, {kind: 2, ok: false, ek: 3, ts: 10, off: 10}, {kind: 0, t: 300, ok: true, ts: 11, off: 11}}, st(6)), []int64{0, 50, 100, 101, 300, 399})
	// second call while the first is in progress, then again, then after it returned
	one := dl(0, 100, 701, []script{ok(0, 60, 0, 0), ok(3, 500, 0, 1)}, st(2))
	two := dl(10, 100, 691, nil, nil)
	three := dl(20, 30, 681, []script{ok(0, 1, 0, 5)}, st(1))
	four := dl(100, 30, 601, []script{ok(0, 1, 0, 6), bad(2, 0, 0, 7)}, st(2))
	runHistory("history", "busy,reuse,boundary,nt", []round{one, two, three, four}, 700, 0)
	// three calls at one instant: one that returns at once, one with unequal lengths, one more
	b1 := dl(24, 1, 1726, []script{ok(3, -1, 0, 3)}, st(1))
	b2 := dl(24, 2, 1726, nil, st(1))
	b3 := dl(24, 1716, 1726, nil, nil)
	b4 := dl(24, 236, 1726, []script{ok(0, 236, 0, 1), ok(0, 236, 1, 2)}, st(2))
	runHistory("history", "boundary,burst,len", []round{b1, b2, b3, b4}, 1749, 0)
	// three callers at once on one collector, each round takes a while: exactly one gets in
	c1 := dl(5, 100, 300, []script{ok(0, 60, 0, 0)}, st(1))
	c2 := dl(5, 100, 300, []script{ok(0, 70, 0, 1)}, st(1))
	c3 := dl(5, 100, 300, []script{ok(2, 0, 0, 2)}, st(1))
	callers, yield := []round{c1, c2, c3}, 0
	if runtime.NumCPU() < 4 {
		callers = callers[:2]
		if runtime.NumCPU() < 3 {
			yield = 1 << 12
		}
	}
	for v := 0; v < 100; v++ {
		runHistory("race", "race,contended,nt", callers, 304, (v*397)&(1<<12-1)|yield)
	}
}
