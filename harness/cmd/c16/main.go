// C16: drives the real client.ReferenceClockClient.MeasureClockOffsets (and through it
// collectMeasurements) of /repo inside testing/synctest bubbles with scripted reference
// clocks, and records what it did: return time, the caller's slice afterwards, when each
// clock's call returned, how many goroutines were alive at chosen instants, and the
// outcome of every call of a multi-call history on one collector object.
package main

import (
	"context"
	"errors"
	"fmt"
	"os"
	"runtime"
	"sort"
	"strings"
	"sync"
	"testing/synctest"
	"time"

	"example.com/scion-time/core/client"
	"example.com/scion-time/core/measurements"

	"verifharness/lib"
)

var w *lib.Writer

// ---- scripted clocks ----

type script struct {
	kind, t, e int64
	ok         bool
	ts, off    int64
}

type mrec struct {
	ts, off int64
	err     bool
}

type round struct {
	start  int64 // histories only
	D      int64
	clocks []script
	ms0    []mrec
}

var errClock = errors.New("scripted clock failed")
var errStale = errors.New("stale error")

type sclock struct {
	s     script
	start time.Time
	mu    *sync.Mutex
	done  *int64
}

func (c *sclock) MeasureClockOffset(ctx context.Context) (time.Time, time.Duration, error) {
	t, e := scale*time.Duration(c.s.t), scale*time.Duration(c.s.e)
	switch c.s.kind {
	case 0: // completes at t, does not look at the context
		time.Sleep(t)
	case 3: // blocked on a channel until t, does not look at the context
		<-time.After(t)
	case 1: // completes at t, or e after the context is done
		tm := time.NewTimer(t)
		select {
		case <-tm.C:
		case <-ctx.Done():
			tm.Stop()
			time.Sleep(e)
		}
	default: // never until cancelled, then e later
		<-ctx.Done()
		time.Sleep(e)
	}
	c.mu.Lock()
	*c.done = unscale(time.Since(c.start))
	c.mu.Unlock()
	var err error
	if !c.s.ok {
		err = errClock
	}
	return time.Unix(0, c.s.ts), time.Duration(c.s.off), err
}

func toMs(in []mrec) []measurements.Measurement {
	ms := make([]measurements.Measurement, len(in))
	for i, m := range in {
		ms[i] = measurements.Measurement{Timestamp: time.Unix(0, m.ts), Offset: time.Duration(m.off)}
		if m.err {
			ms[i].Error = errStale
		}
	}
	return ms
}

func fmtMs(ms []measurements.Measurement) string {
	s := make([]string, len(ms))
	for i, m := range ms {
		s[i] = lib.L(lib.I(m.Timestamp.UnixNano()), lib.I(int64(m.Offset)), lib.Bool(m.Error != nil))
	}
	return lib.L(s...)
}

func fmtMrecs(in []mrec) string {
	s := make([]string, len(in))
	for i, m := range in {
		s[i] = lib.L(lib.I(m.ts), lib.I(m.off), lib.Bool(m.err))
	}
	return lib.L(s...)
}

func fmtScripts(cs []script) string {
	s := make([]string, len(cs))
	for i, c := range cs {
		s[i] = lib.L(lib.I(c.kind), lib.I(c.t), lib.I(c.e), lib.Bool(c.ok), lib.I(c.ts), lib.I(c.off))
	}
	return lib.L(s...)
}

func panicClass(r any) int64 {
	msg := fmt.Sprint(r)
	switch {
	case strings.Contains(msg, "number of result offsets"):
		return 1
	case strings.Contains(msg, "too many reference clock offset measurements"):
		return 2
	case strings.Contains(msg, "inconsistent count"):
		return 3
	}
	return 4
}

// one call, started now on collector c; the result is filled in when the call ends
type callResult struct {
	mu    sync.Mutex
	cls   int64 // -1 = still running
	ret   int64
	ms    []measurements.Measurement
	comps []int64
}

func startCall(c *client.ReferenceClockClient, rd round) (*callResult, context.CancelFunc) {
	res := &callResult{cls: -1, ret: -1, comps: make([]int64, len(rd.clocks))}
	start := time.Now()
	clks := make([]client.ReferenceClock, len(rd.clocks))
	for i, s := range rd.clocks {
		res.comps[i] = -1
		clks[i] = &sclock{s: s, start: start, mu: &res.mu, done: &res.comps[i]}
	}
	res.ms = toMs(rd.ms0)
	ctx, cancel := context.WithTimeout(context.Background(), scale*time.Duration(rd.D))
	go func() {
		defer func() {
			if r := recover(); r != nil {
				res.mu.Lock()
				res.cls = panicClass(r)
				res.mu.Unlock()
			}
		}()
		c.MeasureClockOffsets(ctx, clks, res.ms)
		d := unscale(time.Since(start))
		res.mu.Lock()
		res.cls, res.ret = 0, d
		res.mu.Unlock()
	}()
	return res, cancel
}

// All scripted durations are doubled, so that everything the scenario makes happen
// happens at an even instant (relative to the start of its call), and goroutines are
// counted at odd instants: "at time tp" then means "everything up to and including tp
// has settled, nothing later has happened", whatever order the runtime fires timers of
// one instant in.
const scale = 2

func unscale(d time.Duration) int64 {
	if d%scale != 0 {
		return -int64(d) - 1000 // not an instant of the scenario
	}
	return int64(d / scale)
}

func sleepUntil(start time.Time, t time.Duration) {
	if d := t - time.Since(start); d > 0 {
		time.Sleep(d)
	}
	synctest.Wait()
}

var stackBuf = make([]byte, 1<<20)

// goroutines left behind for ever by earlier cases (only when the code under test leaks):
// the runtime's dump attributes them to whatever bubble is running, so they are remembered
// by id and left out of later counts.
var leaked = map[string]bool{}

func goroutineHeaders() []string {
	n := runtime.Stack(stackBuf, true)
	for n == len(stackBuf) && len(stackBuf) < 1<<28 {
		stackBuf = make([]byte, 2*len(stackBuf))
		n = runtime.Stack(stackBuf, true)
	}
	var hs []string
	for _, line := range strings.Split(string(stackBuf[:n]), "\n") {
		if strings.HasPrefix(line, "goroutine ") && strings.HasSuffix(line, "]:") {
			hs = append(hs, line)
		}
	}
	return hs
}

func goid(header string) string {
	f := strings.Fields(header)
	if len(f) < 2 {
		return ""
	}
	return f[1]
}

// called outside any bubble: every goroutine still marked as belonging to one is stuck for ever
func recordLeaked() {
	for _, h := range goroutineHeaders() {
		if strings.Contains(h, "synctest group ") {
			leaked[goid(h)] = true
		}
	}
}

// bubbleGoroutines counts the goroutines of the calling goroutine's synctest bubble,
// not counting the caller and the goroutine waiting in synctest.Run.
func bubbleGoroutines() int64 {
	group := ""
	cnt := 0
	for _, line := range goroutineHeaders() {
		i := strings.Index(line, "synctest group ")
		if i < 0 || leaked[goid(line)] {
			continue
		}
		g := line[i : len(line)-2]
		if j := strings.IndexAny(g, ",]"); j >= 0 {
			g = g[:j]
		}
		if group == "" {
			group = g // the first goroutine listed is the caller
		}
		if g == group {
			cnt++
		}
	}
	return int64(cnt - 2)
}

// bubble runs f in a synctest bubble.  A bubble that cannot end because a goroutine is
// blocked for ever is reported (deadlock); so is a bubble in which a goroutine keeps
// running without ever blocking, so that virtual time cannot advance any more (hung:
// decided by a generous wall-clock limit; the harness stops after recording that case,
// because the spinning goroutine cannot be stopped).
func bubble(f func()) (deadlock, hung bool) {
	done := make(chan bool, 1)
	go func() {
		dl := false
		defer func() {
			if r := recover(); r != nil {
				if strings.Contains(fmt.Sprint(r), "deadlock") {
					dl = true
				} else {
					panic(r)
				}
			}
			done <- dl
		}()
		synctest.Run(f)
	}()
	select {
	case dl := <-done:
		if dl {
			recordLeaked()
			deadlocks++
		}
		return dl, false
	case <-time.After(hangLimit):
		return false, true
	}
}

const hangLimit = 20 * time.Second

// cases that left goroutines behind for ever; after many of them the harness stops early
// (the dumps get slow and the point is made)
var deadlocks int

func stopIfLeaky() {
	if deadlocks >= 200 {
		fmt.Println("NOTE 200 cases left goroutines blocked for ever; the harness stopped early")
		w.Close()
		os.Exit(0)
	}
}

func stopAfterHang() {
	fmt.Println("NOTE a call kept running without blocking after its deadline: virtual time could not advance; the harness stopped after recording this case")
	w.Close()
	os.Exit(0)
}

func (r *callResult) snapshot() (cls, ret int64, ms string, comps []int64) {
	r.mu.Lock()
	defer r.mu.Unlock()
	return r.cls, r.ret, fmtMs(r.ms), append([]int64(nil), r.comps...)
}

func runCollect(tags string, rd round, probes []int64) {
	counts := make([]int64, len(probes))
	var res *callResult
	dead, hung := bubble(func() {
		start := time.Now()
		var c client.ReferenceClockClient
		var cancel context.CancelFunc
		res, cancel = startCall(&c, rd)
		for i, tp := range probes {
			sleepUntil(start, scale*time.Duration(tp)+1)
			counts[i] = bubbleGoroutines()
		}
		cancel()
	})
	cls, ret, ms, comps := res.snapshot()
	if dead && cls == 0 {
		// goroutines were left behind for ever: report them at the last probe
		if len(counts) > 0 && counts[len(counts)-1] == 0 {
			counts[len(counts)-1] = 1
		}
	}
	if cls == -1 {
		cls = 5 // the call never returned
		if hung {
			cls = 6 // ... and never blocked either
		}
	}
	if len(rd.ms0) != len(rd.clocks) {
		comps = nil
	}
	defer func() {
		if hung {
			stopAfterHang()
		}
	}()
	w.Case("collect", tags,
		lib.V(lib.I(rd.D), fmtScripts(rd.clocks), fmtMrecs(rd.ms0), lib.IL(probes)),
		lib.V(lib.I(cls), lib.I(ret), ms, lib.IL(comps), lib.IL(counts)))
}

func runHistory(tags string, ops []round, tend int64) {
	results := make([]*callResult, len(ops))
	var cnt int64
	dead, hung := bubble(func() {
		start := time.Now()
		var c client.ReferenceClockClient
		var cancels []context.CancelFunc
		for i, op := range ops {
			sleepUntil(start, scale*time.Duration(op.start))
			r, cancel := startCall(&c, op)
			results[i] = r
			cancels = append(cancels, cancel)
			synctest.Wait()
		}
		sleepUntil(start, scale*time.Duration(tend)+1)
		cnt = bubbleGoroutines()
		for _, f := range cancels {
			f()
		}
	})
	if dead && cnt == 0 {
		cnt = 1
	}
	defer func() {
		if hung {
			stopAfterHang()
		}
	}()
	as := make([]string, len(ops))
	obs := make([]string, len(ops))
	for i, op := range ops {
		if results[i] == nil { // never started: the bubble hung before
			results[i] = &callResult{cls: -1, ret: -1, ms: toMs(op.ms0)}
		}
		as[i] = lib.L(lib.I(op.start), lib.I(op.D), fmtScripts(op.clocks), fmtMrecs(op.ms0))
		cls, ret, ms, comps := results[i].snapshot()
		if cls == -1 {
			cls = 5
			if hung {
				cls = 6
			}
		}
		if cls != 0 {
			started := false
			for _, x := range comps {
				if x != -1 {
					started = true
				}
			}
			if !started {
				comps = nil
			}
		}
		obs[i] = lib.L(lib.I(cls), lib.I(ret), ms, lib.IL(comps))
	}
	w.Case("history", tags, lib.V(lib.L(as...), lib.I(tend)), lib.V(lib.L(obs...), lib.I(cnt)))
}

// ---- generators ----

func max0(x int64) int64 {
	if x < 0 {
		return 0
	}
	return x
}

// completion time of a scripted clock (used only to aim probes and histories and for tags)
func ctime(D int64, s script) int64 {
	D0, t0, e0 := max0(D), max0(s.t), max0(s.e)
	switch s.kind {
	case 0, 3:
		return t0
	case 1:
		if t0 <= D0 {
			return t0
		}
		return D0 + e0
	}
	return D0 + e0
}

func retTime(rd round) int64 {
	m := int64(0)
	for _, s := range rd.clocks {
		if c := ctime(rd.D, s); c > m {
			m = c
		}
	}
	if D0 := max0(rd.D); m > D0 {
		return D0
	}
	return m
}

func genDeadline(r *lib.Rng) int64 {
	switch r.Intn(10) {
	case 0:
		return lib.Pick(r, int64(0), -1, -1000)
	case 1:
		return lib.Pick(r, int64(1), 2, 3)
	case 2:
		return lib.Pick(r, int64(1000000000), 3600000000000, 86400000000000*365)
	}
	return r.Range(4, 2000)
}

func genClock(r *lib.Rng, D int64, id int64) script {
	D0 := max0(D)
	s := script{ok: r.Intn(10) < 7, ts: 1700000000000000000 + id*1000 + r.Range(0, 9), off: 1000 + id}
	// a few distinct instants so that completions coincide with each other and with the deadline
	near := func() int64 {
		return lib.Pick(r, int64(0), 1, D0/2, D0-2, D0-1, D0, D0, D0+1, D0+2, 2*D0+1, D0+r.Range(0, 50), r.Range(0, D0+1), 3*D0+17)
	}
	switch r.Intn(8) {
	case 0, 1, 2:
		s.kind, s.t = 0, near()
	case 3:
		s.kind, s.t = 3, near()
	case 4, 5:
		s.kind, s.t, s.e = 1, near(), lib.Pick(r, int64(0), 0, 1, 5, r.Range(0, 40))
		if max0(s.t) == D0 {
			s.e = 0
		}
	default:
		s.kind, s.e = 2, lib.Pick(r, int64(0), 0, 0, 1, 7, r.Range(0, 60))
	}
	if r.Intn(40) == 0 {
		s.t = -r.Range(1, 5)
		if s.kind == 1 && D0 == 0 {
			s.e = 0
		}
	}
	return s
}

func genRound(r *lib.Rng, maxn int) round {
	n := r.Intn(maxn + 1)
	if r.Intn(12) == 0 {
		n = r.Intn(4*maxn + 1)
	}
	rd := round{D: genDeadline(r)}
	for k := 0; k < n; k++ {
		rd.clocks = append(rd.clocks, genClock(r, rd.D, int64(k)))
	}
	// shape the round now and then: everything early / everything late / all at the deadline
	switch r.Intn(12) {
	case 0:
		for k := range rd.clocks {
			rd.clocks[k].kind, rd.clocks[k].t = 0, r.Range(0, max0(rd.D)-1)
		}
	case 1:
		for k := range rd.clocks {
			rd.clocks[k].kind, rd.clocks[k].t = 0, max0(rd.D)+r.Range(1, 30)
		}
	case 2:
		for k := range rd.clocks {
			rd.clocks[k].kind, rd.clocks[k].t = lib.Pick(r, int64(0), 3), max0(rd.D)
		}
	}
	// clocks that report the same measurement
	if n >= 2 && r.Intn(6) == 0 {
		a, b := r.Intn(n), r.Intn(n)
		rd.clocks[a].ts, rd.clocks[a].off = rd.clocks[b].ts, rd.clocks[b].off
	}
	for k := 0; k < n; k++ {
		m := mrec{ts: 1600000000000000000 + int64(k), off: -5000 - int64(k), err: r.Intn(5) == 0}
		if r.Intn(15) == 0 { // stale content that looks like a fresh result
			x := rd.clocks[r.Intn(n)]
			m = mrec{ts: x.ts, off: x.off, err: false}
		}
		rd.ms0 = append(rd.ms0, m)
	}
	return rd
}

func roundTags(rd round) (tags []string, nt bool) {
	D0 := max0(rd.D)
	var early, tie, late, fail int
	seen := map[[2]int64]bool{}
	dup := false
	for _, s := range rd.clocks {
		c := ctime(rd.D, s)
		switch {
		case c < D0:
			early++
		case c == D0:
			tie++
		default:
			late++
		}
		if !s.ok {
			fail++
		}
		if s.ok {
			if seen[[2]int64{s.ts, s.off}] {
				dup = true
			}
			seen[[2]int64{s.ts, s.off}] = true
		}
	}
	if len(rd.clocks) == 0 {
		tags = append(tags, "n0")
	}
	if rd.D <= 0 {
		tags = append(tags, "expired")
	}
	if early > 0 {
		tags = append(tags, "early")
	}
	if tie > 0 {
		tags = append(tags, "tie")
	}
	if late > 0 {
		tags = append(tags, "late")
	}
	if fail > 0 {
		tags = append(tags, "fail")
	}
	if dup {
		tags = append(tags, "dup")
	}
	if late == 0 && tie == 0 && len(rd.clocks) > 0 {
		tags = append(tags, "allearly")
	}
	nt = len(rd.clocks) >= 2 && (late > 0 || tie > 0) && (early > 0 || tie > 0)
	return
}

func genProbes(r *lib.Rng, rd round) []int64 {
	set := map[int64]bool{}
	D0 := max0(rd.D)
	end := D0
	for _, s := range rd.clocks {
		if c := ctime(rd.D, s); c > end {
			end = c
		}
	}
	cands := []int64{0, D0 - 1, D0, D0 + 1, retTime(rd), retTime(rd) + 1}
	for _, s := range rd.clocks {
		c := ctime(rd.D, s)
		cands = append(cands, c-1, c, c+1)
	}
	for i := 0; i < 4; i++ {
		if x := cands[r.Intn(len(cands))]; x >= 0 {
			set[x] = true
		}
	}
	set[end+r.Range(1, 20)] = true
	var ps []int64
	for x := range set {
		ps = append(ps, x)
	}
	sort.Slice(ps, func(i, j int) bool { return ps[i] < ps[j] })
	return ps
}

func genCollect(r *lib.Rng) {
	rd := genRound(r, 7)
	tags, nt := roundTags(rd)
	if r.Intn(25) == 0 { // lengths differ: refused before anything starts
		if r.Bool() || len(rd.ms0) == 0 {
			rd.ms0 = append(rd.ms0, mrec{ts: 1, off: 2})
		} else {
			rd.ms0 = rd.ms0[:len(rd.ms0)-1]
		}
		tags, nt = []string{"len"}, false
	}
	if nt {
		tags = append(tags, "nt")
	}
	runCollect(strings.Join(tags, ","), rd, genProbes(r, rd))
}

func genHistory(r *lib.Rng) {
	nops := 2 + r.Intn(4)
	var ops []round
	tags := map[string]bool{}
	t := int64(0)
	var busyUntil int64 = -1 // model-side guess, only used to aim
	var lateUntil int64
	for i := 0; i < nops; i++ {
		rd := genRound(r, 4)
		if r.Intn(3) == 0 && len(rd.clocks) == 0 {
			rd = genRound(r, 4)
		}
		if r.Intn(10) == 0 {
			rd.ms0 = append(rd.ms0, mrec{ts: 1, off: 2})
			tags["len"] = true
		}
		// where to start relative to the call in progress
		switch {
		case i > 0 && r.Intn(6) == 0:
			tags["burst"] = true // at the same instant as the call before
		case busyUntil > t && r.Intn(3) != 0:
			t = t + r.Range(0, busyUntil-t-1) // while the earlier call is in progress
		case busyUntil >= t && r.Intn(2) == 0:
			t = busyUntil // the instant it returns
			tags["boundary"] = true
		default:
			if busyUntil > t {
				t = busyUntil
			}
			t += r.Range(0, 30)
		}
		rd.start = t
		ops = append(ops, rd)
		if len(rd.ms0) == len(rd.clocks) {
			if t < busyUntil {
				tags["busy"] = true
			} else {
				if t < lateUntil {
					tags["reuse"] = true // admitted while late clocks of an earlier round are still running
				}
				busyUntil = t + retTime(rd)
				for _, s := range rd.clocks {
					if c := t + ctime(rd.D, s); c > lateUntil {
						lateUntil = c
					}
				}
			}
		}
	}
	tend := lateUntil
	if busyUntil > tend {
		tend = busyUntil
	}
	for _, op := range ops {
		if x := op.start + max0(op.D); x > tend {
			tend = x
		}
	}
	tend += r.Range(1, 10)
	var tl []string
	for k := range tags {
		tl = append(tl, k)
	}
	sort.Strings(tl)
	if tags["busy"] {
		tl = append(tl, "nt")
	}
	runHistory(strings.Join(tl, ","), ops, tend)
}

// ---- replay: parse the args of a case line back ----

type val struct {
	n    int64
	list []val
	isL  bool
}

func parseVals(s string) []val {
	pos := 0
	var parseList func(closing bool) []val
	parseList = func(closing bool) []val {
		var out []val
		for {
			for pos < len(s) && s[pos] == ' ' {
				pos++
			}
			if pos >= len(s) {
				return out
			}
			if s[pos] == ']' {
				pos++
				return out
			}
			if s[pos] == '[' {
				pos++
				out = append(out, val{list: parseList(true), isL: true})
				continue
			}
			st := pos
			for pos < len(s) && s[pos] != ' ' && s[pos] != ']' && s[pos] != '[' {
				pos++
			}
			out = append(out, val{n: lib.ParseI(s[st:pos])})
		}
	}
	return parseList(false)
}

func scriptsOf(v val) []script {
	var out []script
	for _, c := range v.list {
		out = append(out, script{kind: c.list[0].n, t: c.list[1].n, e: c.list[2].n, ok: c.list[3].n != 0, ts: c.list[4].n, off: c.list[5].n})
	}
	return out
}

func mrecsOf(v val) []mrec {
	var out []mrec
	for _, m := range v.list {
		out = append(out, mrec{ts: m.list[0].n, off: m.list[1].n, err: m.list[2].n != 0})
	}
	return out
}

func intsOf(v val) []int64 {
	var out []int64
	for _, x := range v.list {
		out = append(out, x.n)
	}
	return out
}

func replay(kind, tags, args string) {
	vs := parseVals(args)
	switch kind {
	case "collect":
		runCollect(tags, round{D: vs[0].n, clocks: scriptsOf(vs[1]), ms0: mrecsOf(vs[2])}, intsOf(vs[3]))
	case "history":
		var ops []round
		for _, o := range vs[0].list {
			ops = append(ops, round{start: o.list[0].n, D: o.list[1].n, clocks: scriptsOf(o.list[2]), ms0: mrecsOf(o.list[3])})
		}
		runHistory(tags, ops, vs[1].n)
	}
}

func main() {
	a := lib.ParseArgs()
	w = lib.NewWriter(a.Out)
	defer w.Close()
	if a.Replay != "" {
		for _, c := range lib.ReplayLines(a.Replay) {
			replay(c[0], c[1], c[2])
		}
		return
	}
	r := lib.NewRng(a.Seed)
	nc, nh := 3500, 3500
	if a.Tier == "thorough" {
		nc, nh = 60000, 50000
	}
	corpus()
	// rounds and histories interleaved, so that a run that stops early has seen both
	for i := 0; i < nc || i < nh; i++ {
		if i < nc {
			genCollect(r)
			genCollect(r.Fork())
		}
		if i < nh {
			genHistory(r)
		}
		stopIfLeaky()
	}
}

// fixed cases run first: the situations the property names
func corpus() {
	ok := func(kind, t, e, id int64) script {
		return script{kind: kind, t: t, e: e, ok: true, ts: 1700000000000000000 + id, off: 1000 + id}
	}
	bad := func(kind, t, e, id int64) script { s := ok(kind, t, e, id); s.ok = false; return s }
	st := func(n int) []mrec {
		var m []mrec
		for k := 0; k < n; k++ {
			m = append(m, mrec{ts: 1600000000000000000 + int64(k), off: -5000 - int64(k)})
		}
		return m
	}
	// a blocked clock far beyond the deadline, a fast one, a failing one
	runCollect("late,early,fail,nt", round{D: 100, clocks: []script{ok(3, 4000, 0, 0), ok(0, 10, 0, 1), bad(0, 20, 0, 2)}, ms0: st(3)}, []int64{0, 99, 100, 101, 4000, 4010})
	// all clocks wait for the cancellation
	runCollect("tie,nt", round{D: 50, clocks: []script{ok(2, 0, 0, 0), ok(2, 0, 0, 1), bad(2, 0, 3, 2)}, ms0: st(3)}, []int64{49, 50, 53, 60})
	// no clocks at all
	runCollect("n0", round{D: 10}, []int64{0, 10, 11})
	// deadline already over
	runCollect("expired,tie,nt", round{D: 0, clocks: []script{ok(0, 0, 0, 0), ok(0, 5, 0, 1)}, ms0: st(2)}, []int64{0, 5, 6})
	// second call while the first is in progress, then again, then after it returned
	one := round{start: 0, D: 100, clocks: []script{ok(0, 60, 0, 0), ok(3, 500, 0, 1)}, ms0: st(2)}
	two := round{start: 10, D: 100, clocks: nil, ms0: nil}
	three := round{start: 20, D: 30, clocks: []script{ok(0, 1, 0, 5)}, ms0: st(1)}
	four := round{start: 100, D: 30, clocks: []script{ok(0, 1, 0, 6), bad(2, 0, 0, 7)}, ms0: st(2)}
	runHistory("busy,reuse,boundary,nt", []round{one, two, three, four}, 700)
	// three calls at one instant: one that returns at once, one with unequal lengths, one more
	b1 := round{start: 24, D: 1, clocks: []script{ok(3, -1, 0, 3)}, ms0: st(1)}
	b2 := round{start: 24, D: 2, clocks: nil, ms0: st(1)}
	b3 := round{start: 24, D: 1716, clocks: nil, ms0: nil}
	b4 := round{start: 24, D: 236, clocks: []script{ok(0, 236, 0, 1), ok(0, 236, 1, 2)}, ms0: st(2)}
	runHistory("boundary,burst,len", []round{b1, b2, b3, b4}, 1749)
}
