// Kind "sync.round": the REAL sync.Run driven for a few iterations inside a synctest
// bubble, with scripted reference clocks and peers, a recording adjuster and a fake system
// clock whose Sleep ends the goroutine after the last iteration.  Observed per iteration
// (virtual instants since the start of the bubble): its start, the hand-over of the
// correction (adj.Do), the Sleep call and its argument, and for every source when its
// MeasureClockOffset was invoked and when it returned.
package main

import (
	"context"
	"io"
	"log/slog"
	"runtime"
	"strings"
	"sync"
	"sync/atomic"
	"time"

	"github.com/prometheus/client_golang/prometheus"

	"example.com/scion-time/core/client"
	scsync "example.com/scion-time/core/sync"

	"verifharness/lib"
)

var nolog = slog.New(slog.NewTextHandler(io.Discard, nil))

type syncSpec struct {
	T, I   int64
	rounds [][2][]script // per iteration: reference clocks, peers (same number in every iteration)
}

type syncRec struct {
	mu      sync.Mutex
	start   time.Time
	round   atomic.Int64
	n       int64
	I       int64
	do      []int64
	darg    []int64 // the correction handed to adj.Do
	starts  []int64 // start of every iteration begun so far
	sleep   []int64
	dur     []int64
	inv     [][2][]int64
	comp    [][2][]int64
	release chan struct{}
}

func (r *syncRec) now() int64 { return int64(time.Since(r.start)) }

// the system clock handed to Run
type syncClock struct{ r *syncRec }

func (c syncClock) Epoch() uint64                              { return 0 }
func (c syncClock) Now() time.Time                             { return time.Unix(0, 0) }
func (c syncClock) Step(time.Duration)                         {}
func (c syncClock) Adjust(time.Duration, time.Duration, float64) {}
func (c syncClock) Drift(d time.Duration) time.Duration        { return 1 << 50 } // no correction is ever clamped
func (c syncClock) Sleep(d time.Duration) {
	k := c.r.round.Load()
	c.r.mu.Lock()
	if k < c.r.n {
		c.r.sleep[k], c.r.dur[k] = c.r.now(), int64(d)
	}
	c.r.starts = append(c.r.starts, c.r.now()+int64(d))
	c.r.mu.Unlock()
	if c.r.round.Add(1) >= c.r.n {
		close(c.r.release) // clocks that never return are let go: the scenario is over
		runtime.Goexit()   // ends the goroutine running sync.Run
	}
	time.Sleep(d)
}

type syncAdj struct{ r *syncRec }

func (a syncAdj) Do(corr time.Duration) {
	k := a.r.round.Load()
	a.r.mu.Lock()
	if k < a.r.n {
		a.r.do[k], a.r.darg[k] = a.r.now(), int64(corr)
	}
	a.r.mu.Unlock()
}

type syncSource struct {
	r    *syncRec
	spec *syncSpec
	set  int // 0 reference clocks, 1 peers
	idx  int
}

func (s *syncSource) MeasureClockOffset(ctx context.Context) (time.Time, time.Duration, error) {
	// which iteration this call belongs to is decided by the instant of the call, not by a
	// counter: with SyncTimeout 0 an iteration can be over before its clocks' goroutines first run
	s.r.mu.Lock()
	k := int64(0)
	for i, st := range s.r.starts {
		if st <= s.r.now() {
			k = int64(i)
		}
	}
	if k >= s.r.n {
		s.r.mu.Unlock()
		return time.Time{}, 0, errClock
	}
	s.r.inv[k][s.set][s.idx] = s.r.now()
	s.r.mu.Unlock()
	sc := s.spec.rounds[k][s.set][s.idx]
	t, e := time.Duration(sc.t), time.Duration(sc.e)
	switch sc.kind {
	case 0:
		time.Sleep(t)
	case 3:
		<-time.After(t)
	case 1:
		tm := time.NewTimer(t)
		select {
		case <-tm.C:
		case <-ctx.Done():
			tm.Stop()
			time.Sleep(e)
		}
	case 4:
		<-s.r.release
	default:
		<-ctx.Done()
		time.Sleep(e)
	}
	s.r.mu.Lock()
	s.r.comp[k][s.set][s.idx] = s.r.now()
	s.r.mu.Unlock()
	return toTime(sc.ts), time.Duration(sc.off), scriptErr(ctx, sc)
}

func runSync(tags string, sp *syncSpec) {
	n := len(sp.rounds)
	rec := &syncRec{n: int64(n), I: sp.I, do: make([]int64, n), darg: make([]int64, n), starts: []int64{0}, sleep: make([]int64, n), dur: make([]int64, n),
		inv: make([][2][]int64, n), comp: make([][2][]int64, n)}
	for k := 0; k < n; k++ {
		rec.do[k], rec.sleep[k], rec.dur[k] = -1, -1, -1
		for set := 0; set < 2; set++ {
			m := len(sp.rounds[k][set])
			rec.inv[k][set], rec.comp[k][set] = make([]int64, m), make([]int64, m)
			for i := 0; i < m; i++ {
				rec.inv[k][set][i], rec.comp[k][set][i] = -1, -1
			}
		}
	}
	var refs, peers []client.ReferenceClock
	for i := range sp.rounds[0][0] {
		refs = append(refs, &syncSource{r: rec, spec: sp, set: 0, idx: i})
	}
	for i := range sp.rounds[0][1] {
		peers = append(peers, &syncSource{r: rec, spec: sp, set: 1, idx: i})
	}
	cfg := scsync.Config{ReferenceClockImpact: 1.25, PeerClockImpact: 2.5, PeerClockCutoff: 0,
		SyncTimeout: time.Duration(sp.T), SyncInterval: time.Duration(sp.I)}
	prometheus.DefaultRegisterer = prometheus.NewRegistry()
	var panicked atomic.Bool
	dead, hung := bubble(func() {
		rec.start = time.Now()
		rec.release = make(chan struct{}) // made inside the bubble: waiting on it counts as blocked
		go func() {
			defer func() {
				if r := recover(); r != nil {
					panicked.Store(true)
				}
			}()
			scsync.Run(nolog, cfg, syncClock{rec}, syncAdj{rec}, refs, peers)
		}()
	})
	defer func() {
		if hung {
			stopAfterHang()
		}
	}()
	cls, after := int64(0), int64(0)
	if panicked.Load() {
		cls = 1
	}
	if hung {
		cls = 6
	}
	if dead {
		after = 1
	}
	rec.mu.Lock()
	defer rec.mu.Unlock()
	var as, obs []string
	start := int64(0)
	for k := 0; k < n; k++ {
		as = append(as, lib.L(fmtScripts(sp.rounds[k][0]), fmtScripts(sp.rounds[k][1])))
		if rec.do[k] < 0 { // the iteration was never completed (only when the code under test hangs)
			break
		}
		obs = append(obs, lib.L(lib.I(start), lib.I(rec.do[k]), lib.I(rec.darg[k]), lib.I(rec.sleep[k]), lib.I(rec.dur[k]),
			lib.IL(rec.inv[k][0]), lib.IL(rec.comp[k][0]), lib.IL(rec.inv[k][1]), lib.IL(rec.comp[k][1])))
		start = rec.sleep[k] + rec.dur[k]
	}
	for k := len(as); k < n; k++ {
		as = append(as, lib.L(fmtScripts(sp.rounds[k][0]), fmtScripts(sp.rounds[k][1])))
	}
	w.Case("sync.round", tags, lib.V(lib.I(sp.T), lib.I(sp.I), lib.L(as...)), lib.V(lib.I(cls), lib.L(obs...), lib.I(after)))
}

func genSync(r *lib.Rng) {
	T := lib.Pick(r, int64(0), 1, 2, 5, r.Range(3, 60), r.Range(10, 2000), r.Range(10, 2000), 1000000000)
	I := 2*T + lib.Pick(r, int64(0), 0, 1, r.Range(0, 3*T)) // often T = I/2, the admissible maximum
	if I == 0 {
		I = r.Range(1, 50)
	}
	nref, npeer := r.Intn(5), r.Intn(5)
	if r.Intn(6) == 0 {
		nref = 0
	}
	if r.Intn(6) == 0 {
		npeer = 0
	}
	sp := &syncSpec{T: T, I: I}
	tags := map[string]bool{}
	nrounds := 1 + r.Intn(3)
	for k := 0; k < nrounds; k++ {
		var rd [2][]script
		shape := r.Intn(8) // now and then: everything in time / only the peers slow / only the reference clocks slow
		for set, m := range []int{nref, npeer} {
			for i := 0; i < m; i++ {
				s := genClock(r, T, int64(10*set+i))
				if T == 0 && r.Intn(2) == 0 {
					s.kind, s.t = lib.Pick(r, int64(0), 3, 4), r.Range(1, 30) // blocked when the round has no time at all
				}
				if r.Intn(8) == 0 { // beyond the next iteration's start
					s.kind, s.t = lib.Pick(r, int64(0), 3), I+r.Range(0, I)
				}
				if T > 0 && (shape == 0 || (shape == 1 && set == 0) || (shape == 2 && set == 1)) {
					s.kind, s.t = 0, r.Range(0, T-1)
				}
				if s.kind == 1 && max0(s.t) == T {
					s.e = 0
				}
				if r.Intn(3) != 0 { // small offsets around zero, so that the midpoints differ visibly
					s.off = r.Range(-40, 40) * 1000
				}
				c := ctime(T, s)
				switch {
				case c == never:
					tags["never"] = true
				case c > I:
					tags["beyond"] = true
				}
				if c >= T {
					tags[[]string{"slowref", "slowpeer"}[set]] = true
				}
				rd[set] = append(rd[set], s)
			}
		}
		normalise(rd[0])
		normalise(rd[1])
		sp.rounds = append(sp.rounds, rd)
	}
	if T == 0 {
		tags["t0"] = true
	}
	if I == 2*T {
		tags["tmax"] = true
	}
	if nref == 0 {
		tags["noref"] = true
	}
	if npeer == 0 {
		tags["nopeer"] = true
	}
	if !tags["slowref"] && !tags["slowpeer"] {
		tags["alltimely"] = true
	}
	var tl []string
	for k := range tags {
		tl = append(tl, k)
	}
	sortStrings(tl)
	if (tags["slowref"] || tags["slowpeer"]) && nref+npeer >= 2 {
		tl = append(tl, "nt")
	}
	runSync(strings.Join(tl, ","), sp)
}

func sortStrings(a []string) {
	for i := 1; i < len(a); i++ {
		for j := i; j > 0 && a[j] < a[j-1]; j-- {
			a[j], a[j-1] = a[j-1], a[j]
		}
	}
}

func replaySync(tags string, vs []val) {
	sp := &syncSpec{T: vs[0].n, I: vs[1].n}
	for _, rd := range vs[2].list {
		sp.rounds = append(sp.rounds, [2][]script{scriptsOf(rd.list[0]), scriptsOf(rd.list[1])})
	}
	runSync(tags, sp)
}

func syncCorpus() {
	ok := func(kind, t, e, id int64) script {
		return script{kind: kind, t: t, e: e, ok: true, ts: 1700000000000000000 + id, off: 1000 + id}
	}
	// one peer blocked far beyond the timeout (and the interval), everything else quick; two iterations
	runSync("slowpeer,beyond,nt", &syncSpec{T: 100, I: 250, rounds: [][2][]script{
		{{ok(0, 10, 0, 0), ok(0, 20, 0, 1)}, {ok(0, 15, 0, 10), ok(3, 900, 0, 11)}},
		{{ok(0, 10, 0, 0), ok(0, 20, 0, 1)}, {ok(0, 15, 0, 10), ok(0, 30, 0, 11)}}}})
	// one reference clock waits for the cancellation, peers quick
	runSync("slowref,nt", &syncSpec{T: 50, I: 100, rounds: [][2][]script{
		{{ok(2, 0, 0, 0), ok(0, 5, 0, 1)}, {ok(0, 7, 0, 10)}}}})
	// no sources at all; only peers; only reference clocks
	runSync("noref,nopeer,alltimely", &syncSpec{T: 10, I: 20, rounds: [][2][]script{{nil, nil}, {nil, nil}}})
	runSync("noref,alltimely", &syncSpec{T: 10, I: 25, rounds: [][2][]script{{nil, {ok(0, 3, 0, 10), ok(0, 9, 0, 11)}}}})
	// SyncTimeout 0 with blocked sources: the iteration still ends at once
	runSync("t0,slowref,slowpeer,never,nt", &syncSpec{T: 0, I: 7, rounds: [][2][]script{
		{{ok(4, 0, 0, 0), ok(0, 9, 0, 1)}, {ok(3, 20, 0, 10)}}, {{ok(0, 0, 0, 0), ok(0, 9, 0, 1)}, {ok(2, 0, 3, 10)}}}})
	runSync("nopeer,slowref,never,nt", &syncSpec{T: 10, I: 25, rounds: [][2][]script{{{ok(4, 0, 0, 0), ok(0, 9, 0, 1)}, nil}}})
}
