package main

import (
	"crypto/sha1"
	"fmt"
	"go/ast"
	"go/build"
	"go/constant"
	"go/parser"
	"go/token"
	"os"
	"path/filepath"
	"sort"
	"strings"
)

type constDecl struct {
	name  *ast.Ident
	typ   ast.Expr
	value ast.Expr
	iota  int
	file  *ast.File
	done  bool
	busy  bool
	val   Val
}

type Pkg struct {
	w       *World
	dir     string // relative to the repository root, e.g. net/ntp
	name    string // package name
	fset    *token.FileSet
	files   map[string]*ast.File // by relative path
	consts  map[string]*constDecl
	types   map[string]*ast.TypeSpec
	tfile   map[string]*ast.File // file of a type / func declaration (for imports)
	errvars map[string]int       // package-level errors.New variables -> code
	funcs   map[string]*ast.FuncDecl
	ffile   map[*ast.FuncDecl]string
	structs map[string]*StructInfo
	blob    map[string]string // git blob hash per file
}

type World struct {
	repo    string
	module  string
	pkgs    map[string]*Pkg
	structs []*StructInfo // emission order
	errUsed map[string]int
	errList []string
	funcs   map[string]*Func
	order   []*Func
}

func newWorld(repo string) *World {
	w := &World{repo: repo, pkgs: map[string]*Pkg{}, errUsed: map[string]int{}}
	b, err := os.ReadFile(filepath.Join(repo, "go.mod"))
	if err != nil {
		fatal("cannot read go.mod: %v", err)
	}
	for _, l := range strings.Split(string(b), "\n") {
		l = strings.TrimSpace(l)
		if strings.HasPrefix(l, "module ") {
			w.module = strings.TrimSpace(strings.TrimPrefix(l, "module "))
		}
	}
	if w.module == "" {
		fatal("no module line in go.mod")
	}
	return w
}

func fatal(format string, a ...any) {
	fmt.Fprintf(os.Stderr, "go2coq: "+format+"\n", a...)
	os.Exit(2)
}

// load parses the non-test files of one package directory that the build
// constraints select for linux/amd64 without extra tags.
func (w *World) load(dir string) *Pkg {
	dir = filepath.ToSlash(filepath.Clean(dir))
	if p, ok := w.pkgs[dir]; ok {
		return p
	}
	p := &Pkg{w: w, dir: dir, fset: token.NewFileSet(), files: map[string]*ast.File{},
		consts: map[string]*constDecl{}, types: map[string]*ast.TypeSpec{}, tfile: map[string]*ast.File{},
		errvars: map[string]int{}, funcs: map[string]*ast.FuncDecl{}, ffile: map[*ast.FuncDecl]string{},
		structs: map[string]*StructInfo{}, blob: map[string]string{}}
	w.pkgs[dir] = p
	abs := filepath.Join(w.repo, dir)
	ents, err := os.ReadDir(abs)
	if err != nil {
		fatal("cannot read package directory %s: %v", abs, err)
	}
	ctx := build.Default
	ctx.GOOS, ctx.GOARCH, ctx.CgoEnabled = "linux", "amd64", true
	ctx.BuildTags, ctx.ToolTags, ctx.ReleaseTags = nil, nil, nil
	var names []string
	for _, e := range ents {
		n := e.Name()
		if e.IsDir() || !strings.HasSuffix(n, ".go") || strings.HasSuffix(n, "_test.go") {
			continue
		}
		ok, err := ctx.MatchFile(abs, n)
		if err != nil || !ok {
			continue
		}
		names = append(names, n)
	}
	sort.Strings(names)
	nerr := 0
	for _, n := range names {
		src, err := os.ReadFile(filepath.Join(abs, n))
		if err != nil {
			fatal("%v", err)
		}
		f, err := parser.ParseFile(p.fset, filepath.Join(dir, n), src, parser.ParseComments|parser.SkipObjectResolution)
		if err != nil {
			fatal("parse error: %v", err)
		}
		rel := dir + "/" + n
		if dir == "." {
			rel = n
		}
		p.files[rel] = f
		p.blob[rel] = fmt.Sprintf("%x", sha1.Sum(append([]byte(fmt.Sprintf("blob %d\x00", len(src))), src...)))
		p.name = f.Name.Name
		for _, d := range f.Decls {
			switch d := d.(type) {
			case *ast.FuncDecl:
				key := d.Name.Name
				if d.Recv != nil && len(d.Recv.List) == 1 {
					key = recvTypeName(d.Recv.List[0].Type) + "." + key
				}
				p.funcs[key] = d
				p.ffile[d] = rel
				p.tfile["func "+key] = f
			case *ast.GenDecl:
				switch d.Tok {
				case token.CONST:
					var lastT ast.Expr
					var lastV []ast.Expr
					for i, s := range d.Specs {
						vs := s.(*ast.ValueSpec)
						if len(vs.Values) > 0 {
							lastT, lastV = vs.Type, vs.Values
						}
						for j, nm := range vs.Names {
							cd := &constDecl{name: nm, typ: lastT, iota: i, file: f}
							if j < len(lastV) {
								cd.value = lastV[j]
							}
							p.consts[nm.Name] = cd
						}
					}
				case token.TYPE:
					for _, s := range d.Specs {
						ts := s.(*ast.TypeSpec)
						p.types[ts.Name.Name] = ts
						p.tfile[ts.Name.Name] = f
					}
				case token.VAR:
					for _, s := range d.Specs {
						vs := s.(*ast.ValueSpec)
						for j, nm := range vs.Names {
							if j < len(vs.Values) && isErrorsNew(vs.Values[j]) {
								nerr++
								p.errvars[nm.Name] = nerr
							}
						}
					}
				}
			}
		}
	}
	if len(names) == 0 {
		fatal("no Go files selected in %s", abs)
	}
	return p
}

func isErrorsNew(e ast.Expr) bool {
	c, ok := e.(*ast.CallExpr)
	if !ok {
		return false
	}
	s, ok := c.Fun.(*ast.SelectorExpr)
	if !ok {
		return false
	}
	x, ok := s.X.(*ast.Ident)
	return ok && x.Name == "errors" && s.Sel.Name == "New"
}

func recvTypeName(e ast.Expr) string {
	switch e := e.(type) {
	case *ast.StarExpr:
		return recvTypeName(e.X)
	case *ast.Ident:
		return e.Name
	case *ast.ParenExpr:
		return recvTypeName(e.X)
	}
	return "?"
}

// importPath resolves a package alias used in file f.
func importPath(f *ast.File, alias string) (string, bool) {
	for _, im := range f.Imports {
		path := strings.Trim(im.Path.Value, "\"")
		name := path[strings.LastIndex(path, "/")+1:]
		if im.Name != nil {
			name = im.Name.Name
		}
		if name == alias {
			return path, true
		}
	}
	return "", false
}

// repoPkg returns the package of the repository with the given import path.
func (w *World) repoPkg(path string) *Pkg {
	if path == w.module {
		return w.load(".")
	}
	if strings.HasPrefix(path, w.module+"/") {
		return w.load(strings.TrimPrefix(path, w.module+"/"))
	}
	return nil
}

func (p *Pkg) prefix() string { return p.name }

// ---- constants of other packages that the subset knows ----
var knownConsts = map[string]struct {
	val string
	typ *Type
}{
	"math.MaxInt8": {"127", nil}, "math.MinInt8": {"-128", nil},
	"math.MaxInt16": {"32767", nil}, "math.MinInt16": {"-32768", nil},
	"math.MaxInt32": {"2147483647", nil}, "math.MinInt32": {"-2147483648", nil},
	"math.MaxInt64": {"9223372036854775807", nil}, "math.MinInt64": {"-9223372036854775808", nil},
	"math.MaxInt": {"9223372036854775807", nil}, "math.MinInt": {"-9223372036854775808", nil},
	"math.MaxUint8": {"255", nil}, "math.MaxUint16": {"65535", nil},
	"math.MaxUint32": {"4294967295", nil}, "math.MaxUint64": {"18446744073709551615", nil},
	"math.MaxUint":    {"18446744073709551615", nil},
	"time.Nanosecond": {"1", tDur}, "time.Microsecond": {"1000", tDur},
	"time.Millisecond": {"1000000", tDur}, "time.Second": {"1000000000", tDur},
	"time.Minute": {"60000000000", tDur}, "time.Hour": {"3600000000000", tDur},
}

func knownConst(path, name string) (Val, bool) {
	k, ok := knownConsts[path+"."+name]
	if !ok {
		return Val{}, false
	}
	c := constant.MakeFromLiteral(k.val[strings.IndexAny(k.val, "0123456789"):], token.INT, 0)
	if strings.HasPrefix(k.val, "-") {
		c = constant.UnaryOp(token.SUB, c, 0)
	}
	return mkConst(c, k.typ, false, path+"."+name), true
}

func mkConst(c constant.Value, t *Type, float bool, comment string) Val {
	v := Val{T: t, Const: c, Float: float}
	switch c.Kind() {
	case constant.Bool:
		if constant.BoolVal(c) {
			v.Code = "true"
		} else {
			v.Code = "false"
		}
		if t == nil {
			v.T = tBool
		}
		return v
	case constant.String:
		v.Code = "tt"
		v.T = tString
		return v
	}
	if i, ok := constInt(c); ok {
		v.Code = zlit(i)
	} else {
		v.Code = "(* non-integer constant " + c.String() + " *)"
	}
	_ = comment
	return v
}

// ---- types ----

// resolveType turns a type expression that occurs in file f of package p into a Type.
// ctxName is used to name anonymous struct types. ok=false: outside the subset.
func (p *Pkg) resolveType(f *ast.File, e ast.Expr, ctxName string) (*Type, string) {
	switch e := e.(type) {
	case *ast.ParenExpr:
		return p.resolveType(f, e.X, ctxName)
	case *ast.Ident:
		if ts, ok := p.types[e.Name]; ok {
			return p.namedType(ts)
		}
		if t, ok := builtinTypes[e.Name]; ok {
			return t, ""
		}
		return nil, "type " + e.Name
	case *ast.SelectorExpr:
		x, ok := e.X.(*ast.Ident)
		if !ok {
			return nil, "qualified type"
		}
		path, ok := importPath(f, x.Name)
		if !ok {
			return nil, "unknown package " + x.Name
		}
		if path == "time" && e.Sel.Name == "Time" {
			return tTime, ""
		}
		if path == "time" && e.Sel.Name == "Duration" {
			return tDur, ""
		}
		if q := p.w.repoPkg(path); q != nil {
			if ts, ok := q.types[e.Sel.Name]; ok {
				return q.namedType(ts)
			}
			return nil, "type " + x.Name + "." + e.Sel.Name
		}
		if s := externalStruct(path, e.Sel.Name); s != nil {
			key := "ext:" + s.GoName
			if old, ok := p.w.pkgs["."]; ok {
				_ = old
			}
			for _, r := range p.w.structs {
				if r.GoName == s.GoName {
					return &Type{Kind: KStruct, Name: s.GoName, Named: key, Struct: r}, ""
				}
			}
			p.w.structs = append(p.w.structs, s)
			return &Type{Kind: KStruct, Name: s.GoName, Named: key, Struct: s}, ""
		}
		return nil, "type " + x.Name + "." + e.Sel.Name + " of package " + path
	case *ast.StarExpr:
		t, why := p.resolveType(f, e.X, ctxName)
		if t == nil {
			return nil, why
		}
		if t.Kind != KStruct {
			return nil, "pointer to " + t.Name
		}
		pt := *t
		return &pt, "" // a pointer to a struct is used as the struct (never nil: trusted)
	case *ast.StructType:
		return p.structType(f, e, ctxName+"_anon", p.name+"."+ctxName+" (anonymous struct)")
	case *ast.ArrayType:
		if e.Len == nil {
			return nil, "slice type"
		}
		fc := &FnCtx{pkg: p, file: f}
		lv, ok := fc.tryConst(e.Len)
		if !ok {
			return nil, "array length"
		}
		n, ok := constInt(lv.Const)
		if !ok || !n.IsInt64() || n.Int64() < 1 || n.Int64() > 64 {
			return nil, "array length"
		}
		el, why := p.resolveType(f, e.Elt, ctxName)
		if el == nil {
			return nil, why
		}
		if el.Kind != KInt && el.Kind != KBool {
			return nil, "array of " + el.Name
		}
		return &Type{Kind: KArray, Name: fmt.Sprintf("[%d]%s", n.Int64(), el.Name), Elem: el, Len: int(n.Int64())}, ""
	}
	return nil, fmt.Sprintf("type expression %T", e)
}

func (p *Pkg) namedType(ts *ast.TypeSpec) (*Type, string) {
	f := p.tfile[ts.Name.Name]
	full := p.name + "." + ts.Name.Name
	key := p.dir + "." + ts.Name.Name
	if st, ok := ts.Type.(*ast.StructType); ok {
		t, why := p.structType(f, st, ts.Name.Name, full)
		if t != nil {
			t.Named = key
		}
		return t, why
	}
	u, why := p.resolveType(f, ts.Type, ts.Name.Name)
	if u == nil {
		return nil, why
	}
	if u.Kind != KInt && u.Kind != KBool {
		return nil, "named type " + full + " with underlying " + u.Name
	}
	c := *u
	c.Name, c.Named = full, key
	return &c, ""
}

func (p *Pkg) structType(f *ast.File, st *ast.StructType, ctxName, goName string) (*Type, string) {
	coq := p.name + "_" + ctxName
	if s, ok := p.structs[coq]; ok {
		if s == nil {
			return nil, "recursive struct type " + goName
		}
		return &Type{Kind: KStruct, Name: goName, Struct: s}, ""
	}
	p.structs[coq] = nil
	s := &StructInfo{GoName: goName, Coq: coq, Arrays: map[string]ArrayField{}}
	for _, fl := range st.Fields.List {
		if len(fl.Names) == 0 {
			s.Omitted = append(s.Omitted, "(embedded)")
			continue
		}
		for _, nm := range fl.Names {
			ft, _ := p.resolveType(f, fl.Type, ctxName+"_"+nm.Name)
			switch {
			case ft == nil || ft.Kind == KString:
				s.Omitted = append(s.Omitted, nm.Name)
			case ft.Kind == KArray:
				s.Arrays[nm.Name] = ArrayField{ft.Elem, ft.Len}
				for i := 0; i < ft.Len; i++ {
					n := fmt.Sprintf("%s_%d", nm.Name, i)
					s.Fields = append(s.Fields, Field{n, ft.Elem, coq + "_" + n})
				}
			default:
				s.Fields = append(s.Fields, Field{nm.Name, ft, coq + "_" + nm.Name})
			}
		}
	}
	if len(s.Fields) == 0 {
		delete(p.structs, coq)
		return nil, "struct " + goName + " without a field of a supported type"
	}
	p.structs[coq] = s
	p.w.structs = append(p.w.structs, s)
	return &Type{Kind: KStruct, Name: goName, Struct: s}, ""
}
