package main

import (
	"fmt"
	"go/ast"
	"go/constant"
	"go/token"
	"math/big"
	"strings"
)

// Kind of a translated Go type.
type Kind int

const (
	KInt Kind = iota
	KBool
	KTime
	KError
	KStruct
	KArray
	KTuple
	KString // only as the argument of panic
)

// Type is the translator's view of a Go type.
type Type struct {
	Kind   Kind
	Name   string // Go spelling, e.g. "int64", "time.Duration", "ntp.Time64"
	Named  string // "<pkgdir>.<TypeName>" for named types of the repository (method lookup), else ""
	Bits   int
	Signed bool
	Struct *StructInfo
	Elem   *Type // KArray
	Len    int   // KArray
	Elems  []*Type
}

// Field of a generated record. Array-typed Go fields are flattened into one
// record field per element (<name>_<index>).
type Field struct {
	Name string // Go name, or name_i for array elements
	T    *Type
	Proj string // Coq projection name
}

type ArrayField struct {
	Elem *Type
	Len  int
}

type StructInfo struct {
	GoName  string // e.g. ntp.Time64
	Coq     string // e.g. ntp_Time64
	Fields  []Field
	Arrays  map[string]ArrayField
	Omitted []string // Go fields of unsupported type (not part of the record)
	emitted bool
}

func (s *StructInfo) field(name string) *Field {
	for i := range s.Fields {
		if s.Fields[i].Name == name {
			return &s.Fields[i]
		}
	}
	return nil
}

func intType(name string, bits int, signed bool) *Type {
	return &Type{Kind: KInt, Name: name, Bits: bits, Signed: signed}
}

var (
	tBool   = &Type{Kind: KBool, Name: "bool"}
	tTime   = &Type{Kind: KTime, Name: "time.Time"}
	tError  = &Type{Kind: KError, Name: "error"}
	tString = &Type{Kind: KString, Name: "string"}
	tInt    = intType("int", 64, true)
	tDur    = intType("time.Duration", 64, true)
)

var builtinTypes = map[string]*Type{
	"int8": intType("int8", 8, true), "int16": intType("int16", 16, true),
	"int32": intType("int32", 32, true), "int64": intType("int64", 64, true),
	"uint8": intType("uint8", 8, false), "uint16": intType("uint16", 16, false),
	"uint32": intType("uint32", 32, false), "uint64": intType("uint64", 64, false),
	"byte": intType("uint8", 8, false), "rune": intType("int32", 32, true),
	"int": tInt, "uint": intType("uint", 64, false),
	"bool": tBool, "error": tError, "string": tString,
}

// struct types of packages outside the repository that the subset knows
// (linux/amd64 layout).
func externalStruct(path, name string) *StructInfo {
	if path == "golang.org/x/sys/unix" && name == "Timeval" {
		i64 := builtinTypes["int64"]
		return &StructInfo{GoName: "unix.Timeval", Coq: "unix_Timeval", Arrays: map[string]ArrayField{},
			Fields: []Field{{"Sec", i64, "unix_Timeval_Sec"}, {"Usec", i64, "unix_Timeval_Usec"}}}
	}
	return nil
}

func (t *Type) suffix() string {
	if t.Signed {
		return fmt.Sprintf("i%d", t.Bits)
	}
	return fmt.Sprintf("u%d", t.Bits)
}

func (t *Type) minmax() (*big.Int, *big.Int) {
	one := big.NewInt(1)
	if t.Signed {
		hi := new(big.Int).Lsh(one, uint(t.Bits-1))
		lo := new(big.Int).Neg(hi)
		return lo, hi.Sub(hi, one)
	}
	hi := new(big.Int).Lsh(one, uint(t.Bits))
	return big.NewInt(0), hi.Sub(hi, one)
}

// subrange: every value of s is a value of t
func subrange(s, t *Type) bool {
	slo, shi := s.minmax()
	tlo, thi := t.minmax()
	return tlo.Cmp(slo) <= 0 && shi.Cmp(thi) <= 0
}

func (t *Type) coq() string {
	switch t.Kind {
	case KInt, KTime, KError:
		return "Z"
	case KBool:
		return "bool"
	case KStruct:
		return t.Struct.Coq
	case KTuple:
		var p []string
		for _, e := range t.Elems {
			p = append(p, e.coq())
		}
		return "(" + strings.Join(p, " * ") + ")%type"
	}
	return "?" + t.Name
}

func (t *Type) zero() string {
	switch t.Kind {
	case KInt, KError:
		return "0"
	case KBool:
		return "false"
	case KTime:
		return "time_zero"
	case KStruct:
		return "zero_" + t.Struct.Coq
	}
	return "?"
}

// Val is the result of translating an expression.
type Val struct {
	Code  string
	T     *Type          // nil: untyped constant
	Const constant.Value // non-nil: constant expression
	Float bool           // untyped constant of float kind
}

func (v Val) isConst() bool   { return v.Const != nil }
func (v Val) isUntyped() bool { return v.T == nil }

func zlit(x *big.Int) string {
	if x.Sign() < 0 {
		return "(" + x.String() + ")"
	}
	return x.String()
}

// constInt returns the exact integer value of a constant, if it is one.
func constInt(c constant.Value) (*big.Int, bool) {
	c = constant.ToInt(c)
	if c.Kind() != constant.Int {
		return nil, false
	}
	if v, ok := constant.Val(c).(*big.Int); ok {
		return new(big.Int).Set(v), true
	}
	if v, ok := constant.Val(c).(int64); ok {
		return big.NewInt(v), true
	}
	return nil, false
}

// TransError carries a position; it is thrown with panic and caught per function.
type TransError struct {
	Pos token.Position
	Msg string
}

func (e *TransError) Error() string { return fmt.Sprintf("%s: %s", e.Pos, e.Msg) }

type posser interface{ Pos() token.Pos }

func (p *Pkg) fail(n posser, format string, a ...any) {
	var pos token.Position
	if n != nil {
		pos = p.fset.Position(n.Pos())
	}
	panic(&TransError{Pos: pos, Msg: fmt.Sprintf(format, a...)})
}

var coqReserved = map[string]bool{
	"as": true, "at": true, "cofix": true, "else": true, "end": true, "exists": true, "exists2": true,
	"fix": true, "for": true, "forall": true, "fun": true, "if": true, "IF": true, "in": true,
	"let": true, "match": true, "mod": true, "Prop": true, "return": true, "Set": true, "then": true,
	"Type": true, "using": true, "where": true, "with": true, "SProp": true,
	"Z": true, "bool": true, "true": true, "false": true, "Some": true, "None": true, "option": true,
	"negb": true, "andb": true, "orb": true, "fst": true, "snd": true, "pair": true, "nat": true,
	"go_rem": true, "go_shr": true, "sat_i64": true, "time_zero": true, "err_nil": true,
}

func coqIdent(p *Pkg, n *ast.Ident) string {
	s := n.Name
	for _, r := range s {
		if r > 127 {
			p.fail(n, "identifier %q is not ASCII", s)
		}
	}
	if coqReserved[s] || strings.HasPrefix(s, "wrap_") || strings.HasPrefix(s, "quot_") ||
		strings.HasPrefix(s, "shl_") || strings.HasPrefix(s, "not_") || strings.HasPrefix(s, "time_") ||
		strings.HasPrefix(s, "tmp_") || strings.HasPrefix(s, "set_") || strings.HasPrefix(s, "zero_") {
		return s + "_"
	}
	return s
}
