package main

import (
	"fmt"
	"go/ast"
	"go/token"
	"strings"
)

type cont func() string

func (fc *FnCtx) begin(sc Scope) { fc.sc, fc.hoists = sc, nil }

func (fc *FnCtx) end() []hoist {
	h := fc.hoists
	fc.hoists = nil
	return h
}

func wrapHoists(hs []hoist, inner string) string {
	for i := len(hs) - 1; i >= 0; i-- {
		h := hs[i]
		if h.guard != "" {
			inner = "if " + h.guard + " then None else\n  " + inner
		} else {
			inner = "match " + h.call + " with None => None | Some " + h.tmp + " =>\n  " + inner + "\n  end"
		}
	}
	return inner
}

func tuple(parts []string) string {
	if len(parts) == 1 {
		return parts[0]
	}
	return "(" + strings.Join(parts, ", ") + ")"
}

// retCode: the value of the function for the given result terms (the current
// values of the mutated pointer parameters are appended).
func (fc *FnCtx) retCode(vals []string, sc Scope) string {
	parts := append([]string{}, vals...)
	for _, i := range fc.fn.mutated {
		parts = append(parts, fc.fn.params[i].coq)
	}
	c := tuple(parts)
	if fc.optionMode {
		return "Some " + paren(c)
	}
	return c
}

func (fc *FnCtx) trBody(optionMode bool) string {
	fc.optionMode = optionMode
	f := fc.fn
	sc := Scope{}
	for _, pr := range f.params {
		if pr.name != "_" {
			sc = sc.with(pr.name, &Var{Coq: pr.coq, T: pr.T})
		}
	}
	prefix := ""
	named := len(f.resNames) == len(f.results) && len(f.results) > 0
	if named {
		for i, n := range f.resNames {
			if n == "_" {
				fc.fail(f.decl, "blank named result is outside the subset")
			}
			if sc.lookup(n) != nil {
				fc.fail(f.decl, "result name %s repeats a parameter name", n)
			}
			sc = sc.with(n, &Var{Coq: n, T: f.results[i]})
			prefix += "let " + n + " := " + f.results[i].zero() + " in\n  "
		}
	}
	sc = sc.inner()
	return prefix + fc.trStmts(f.decl.Body.List, sc, func() string {
		if len(f.results) > 0 {
			fc.fail(f.decl.Body, "control can reach the end of %s, which has results (a construct outside the subset hides the terminating statement?)", f.goName)
		}
		return fc.retCode(nil, sc)
	})
}

func isPanicCall(e ast.Expr) bool {
	c, ok := e.(*ast.CallExpr)
	if !ok {
		return false
	}
	id, ok := c.Fun.(*ast.Ident)
	return ok && id.Name == "panic"
}

func containsExit(nodes ...ast.Node) bool {
	found := false
	for _, n := range nodes {
		if n == nil {
			continue
		}
		ast.Inspect(n, func(m ast.Node) bool {
			switch x := m.(type) {
			case *ast.ReturnStmt:
				found = true
			case *ast.CallExpr:
				if isPanicCall(x) {
					found = true
				}
			}
			return !found
		})
	}
	return found
}

func rootIdent(e ast.Expr) *ast.Ident {
	for {
		switch x := e.(type) {
		case *ast.SelectorExpr:
			e = x.X
		case *ast.IndexExpr:
			e = x.X
		case *ast.ParenExpr:
			e = x.X
		case *ast.Ident:
			return x
		default:
			return nil
		}
	}
}

// assignedOuter: variables of scope sc that are assigned somewhere in nodes.
func assignedOuter(sc Scope, nodes ...ast.Node) []*Var {
	var out []*Var
	seen := map[*Var]bool{}
	add := func(e ast.Expr) {
		if id := rootIdent(e); id != nil && id.Name != "_" {
			if v := sc.lookup(id.Name); v != nil && !seen[v] {
				seen[v] = true
				out = append(out, v)
			}
		}
	}
	for _, n := range nodes {
		if n == nil {
			continue
		}
		ast.Inspect(n, func(m ast.Node) bool {
			switch s := m.(type) {
			case *ast.AssignStmt:
				for _, l := range s.Lhs {
					add(l)
				}
			case *ast.IncDecStmt:
				add(s.X)
			case *ast.ExprStmt:
				if c, ok := s.X.(*ast.CallExpr); ok {
					if sel, ok := c.Fun.(*ast.SelectorExpr); ok {
						add(sel.X)
					}
				}
			}
			return true
		})
	}
	return out
}

func (fc *FnCtx) trStmts(stmts []ast.Stmt, sc Scope, k cont) string {
	if len(stmts) == 0 {
		return k()
	}
	s := stmts[0]
	rest := func(sc2 Scope) string { return fc.trStmts(stmts[1:], sc2, k) }
	switch s := s.(type) {
	case *ast.EmptyStmt:
		return rest(sc)
	case *ast.ReturnStmt:
		return fc.trReturn(s, sc)
	case *ast.ExprStmt:
		if isPanicCall(s.X) {
			fc.mayPanic = true
			return "None"
		}
		if c, ok := s.X.(*ast.CallExpr); ok {
			return fc.trCallStmt(c, sc, rest)
		}
		fc.fail(s, "expression statement is outside the subset")
	case *ast.AssignStmt:
		return fc.trAssign(s, sc, rest)
	case *ast.IncDecStmt:
		op := token.ADD
		if s.Tok == token.DEC {
			op = token.SUB
		}
		one := &ast.BasicLit{ValuePos: s.TokPos, Kind: token.INT, Value: "1"}
		as := &ast.AssignStmt{Lhs: []ast.Expr{s.X}, TokPos: s.TokPos, Tok: token.ASSIGN,
			Rhs: []ast.Expr{&ast.BinaryExpr{X: s.X, OpPos: s.TokPos, Op: op, Y: one}}}
		return fc.trAssign(as, sc, rest)
	case *ast.DeclStmt:
		return fc.trDecl(s, sc, rest)
	case *ast.BlockStmt:
		return fc.trStmts(s.List, sc.inner(), func() string { return rest(sc) })
	case *ast.IfStmt:
		return fc.trIf(s, sc, func() string { return rest(sc) })
	case *ast.SwitchStmt:
		return fc.trSwitch(s, sc, func() string { return rest(sc) })
	case *ast.ForStmt:
		fc.fail(s, "for loop is outside the subset")
	case *ast.RangeStmt:
		fc.fail(s, "range loop is outside the subset")
	case *ast.TypeSwitchStmt:
		fc.fail(s, "type switch is outside the subset")
	case *ast.SelectStmt:
		fc.fail(s, "select is outside the subset")
	case *ast.GoStmt:
		fc.fail(s, "go statement is outside the subset")
	case *ast.DeferStmt:
		fc.fail(s, "defer is outside the subset")
	case *ast.SendStmt:
		fc.fail(s, "channel send is outside the subset")
	case *ast.LabeledStmt:
		fc.fail(s, "labeled statement is outside the subset")
	case *ast.BranchStmt:
		fc.fail(s, "%s is outside the subset", s.Tok)
	}
	fc.fail(s, "statement %T is outside the subset", s)
	return ""
}

func (fc *FnCtx) trReturn(s *ast.ReturnStmt, sc Scope) string {
	f := fc.fn
	fc.begin(sc)
	var vals []string
	switch {
	case len(s.Results) == 0:
		if len(f.results) > 0 {
			if len(f.resNames) != len(f.results) {
				fc.fail(s, "return without values")
			}
			for _, n := range f.resNames {
				vals = append(vals, sc.lookup(n).Coq)
			}
		}
	case len(s.Results) == len(f.results):
		for i, e := range s.Results {
			v := fc.trExpr(e, f.results[i])
			vals = append(vals, paren(fc.use(v, f.results[i], e)))
		}
	case len(s.Results) == 1:
		v := fc.trExpr(s.Results[0], nil)
		if v.T == nil || v.T.Kind != KTuple || len(v.T.Elems) != len(f.results) {
			fc.fail(s, "return of %d values for %d results", len(s.Results), len(f.results))
		}
		var names []string
		for i := range f.results {
			names = append(names, fmt.Sprintf("ret_%d", i))
		}
		hs := fc.end()
		return wrapHoists(hs, "let '"+tuple(names)+" := "+v.Code+" in\n  "+fc.retCode(names, sc))
	default:
		fc.fail(s, "return of %d values for %d results", len(s.Results), len(f.results))
	}
	hs := fc.end()
	return wrapHoists(hs, fc.retCode(vals, sc))
}

// store: the let-binding that performs lhs = <code> (code of type t)
func (fc *FnCtx) store(lhs ast.Expr, code string, n posser) (name string, value string) {
	switch x := lhs.(type) {
	case *ast.ParenExpr:
		return fc.store(x.X, code, n)
	case *ast.Ident:
		v := fc.sc.lookup(x.Name)
		if v == nil {
			fc.fail(x, "assignment to %s, which is not a local variable or parameter (package-level state is outside the subset)", x.Name)
		}
		return v.Coq, code
	case *ast.SelectorExpr:
		base := fc.trExpr(x.X, nil)
		if base.T == nil || base.T.Kind != KStruct {
			fc.fail(x, "assignment through a selector on a non-struct")
		}
		if _, ok := base.T.Struct.Arrays[x.Sel.Name]; ok {
			fc.fail(x, "assignment of a whole array field is outside the subset")
		}
		f := base.T.Struct.field(x.Sel.Name)
		if f == nil {
			fc.fail(x, "assignment to field %s of %s, whose type is outside the subset", x.Sel.Name, base.T.Struct.GoName)
		}
		return fc.store(x.X, "set_"+f.Proj+" "+paren(base.Code)+" "+paren(code), n)
	case *ast.IndexExpr:
		base, f := fc.arrayElem(x)
		sel := x.X.(*ast.SelectorExpr)
		return fc.store(sel.X, "set_"+f.Proj+" "+paren(base.Code)+" "+paren(code), n)
	case *ast.StarExpr:
		fc.fail(x, "assignment through '*' is outside the subset")
	}
	fc.fail(lhs, "assignment target %T is outside the subset", lhs)
	return "", ""
}

// lhsType: the static type of an assignment target
func (fc *FnCtx) lhsType(lhs ast.Expr) *Type {
	if id, ok := lhs.(*ast.Ident); ok {
		if id.Name == "_" {
			return nil
		}
		if v := fc.sc.lookup(id.Name); v != nil {
			return v.T
		}
		return nil
	}
	saved := fc.hoists
	v := fc.trExpr(lhs, nil)
	fc.hoists = saved
	return v.T
}

func (fc *FnCtx) trAssign(s *ast.AssignStmt, sc Scope, rest func(Scope) string) string {
	fc.begin(sc)
	if s.Tok != token.ASSIGN && s.Tok != token.DEFINE {
		// compound assignment x op= e
		ops := map[token.Token]token.Token{token.ADD_ASSIGN: token.ADD, token.SUB_ASSIGN: token.SUB, token.MUL_ASSIGN: token.MUL,
			token.QUO_ASSIGN: token.QUO, token.REM_ASSIGN: token.REM, token.AND_ASSIGN: token.AND, token.OR_ASSIGN: token.OR,
			token.XOR_ASSIGN: token.XOR, token.SHL_ASSIGN: token.SHL, token.SHR_ASSIGN: token.SHR, token.AND_NOT_ASSIGN: token.AND_NOT}
		op, ok := ops[s.Tok]
		if !ok || len(s.Lhs) != 1 || len(s.Rhs) != 1 {
			fc.fail(s, "assignment operator %s is outside the subset", s.Tok)
		}
		t := fc.lhsType(s.Lhs[0])
		if t == nil {
			fc.fail(s, "compound assignment to an unknown variable")
		}
		v := fc.trExpr(&ast.BinaryExpr{X: s.Lhs[0], OpPos: s.TokPos, Op: op, Y: s.Rhs[0]}, t)
		name, val := fc.store(s.Lhs[0], fc.use(v, t, s), s)
		hs := fc.end()
		return wrapHoists(hs, "let "+name+" := "+val+" in\n  "+rest(sc))
	}
	define := s.Tok == token.DEFINE
	sc2 := sc
	declare := func(id *ast.Ident, t *Type) string {
		if old := sc.lookup(id.Name); old != nil {
			if old.depth == sc.depth {
				return old.Coq // redeclaration in a multi-variable := is an assignment
			}
			fc.fail(id, "%s := ... shadows a variable of an enclosing scope: outside the subset (rename it)", id.Name)
		}
		v := &Var{Coq: coqIdent(fc.pkg, id), T: t, depth: sc.depth}
		sc2 = sc2.with(id.Name, v)
		return v.Coq
	}
	if len(s.Lhs) == len(s.Rhs) {
		var names, vals []string
		for i, l := range s.Lhs {
			id, isId := l.(*ast.Ident)
			if isId && id.Name == "_" {
				v := fc.trExpr(s.Rhs[i], nil)
				_ = v
				continue
			}
			var t *Type
			if !(define && isId && sc.lookup(id.Name) == nil) {
				t = fc.lhsType(l)
			}
			v := fc.trExpr(s.Rhs[i], t)
			if t == nil {
				v = fc.defaulted(v, s.Rhs[i])
				t = v.T
				if t.Kind == KTuple || t.Kind == KArray || t.Kind == KString {
					fc.fail(s.Rhs[i], "variable of type %s is outside the subset", t.Name)
				}
			}
			code := fc.use(v, t, s.Rhs[i])
			if define && isId {
				names = append(names, declare(id, t))
				vals = append(vals, code)
			} else {
				if len(s.Lhs) > 1 && !isId {
					fc.fail(l, "parallel assignment to a field is outside the subset")
				}
				n, c := fc.store(l, code, s)
				names = append(names, n)
				vals = append(vals, c)
			}
		}
		hs := fc.end()
		switch len(names) {
		case 0:
			return wrapHoists(hs, rest(sc2))
		case 1:
			return wrapHoists(hs, "let "+names[0]+" := "+vals[0]+" in\n  "+rest(sc2))
		}
		return wrapHoists(hs, "let '"+tuple(names)+" := "+tuple(vals)+" in\n  "+rest(sc2))
	}
	if len(s.Rhs) == 1 {
		v := fc.trExpr(s.Rhs[0], nil)
		if v.T == nil || v.T.Kind != KTuple || len(v.T.Elems) != len(s.Lhs) {
			fc.fail(s, "assignment of one value to %d targets (comma-ok forms are outside the subset)", len(s.Lhs))
		}
		var names []string
		for i, l := range s.Lhs {
			id, ok := l.(*ast.Ident)
			if !ok {
				fc.fail(l, "multi-value assignment to a field is outside the subset")
			}
			switch {
			case id.Name == "_":
				names = append(names, "_")
			case define:
				names = append(names, declare(id, v.T.Elems[i]))
			default:
				n, _ := fc.store(l, "", s)
				names = append(names, n)
			}
		}
		hs := fc.end()
		return wrapHoists(hs, "let '"+tuple(names)+" := "+v.Code+" in\n  "+rest(sc2))
	}
	fc.fail(s, "assignment of %d values to %d targets", len(s.Rhs), len(s.Lhs))
	return ""
}

func (fc *FnCtx) trDecl(s *ast.DeclStmt, sc Scope, rest func(Scope) string) string {
	gd, ok := s.Decl.(*ast.GenDecl)
	if !ok || gd.Tok != token.VAR {
		fc.fail(s, "local %s declaration is outside the subset", gd.Tok)
	}
	fc.begin(sc)
	sc2 := sc
	var lets []string
	for _, sp := range gd.Specs {
		vs := sp.(*ast.ValueSpec)
		var t *Type
		if vs.Type != nil {
			var why string
			t, why = fc.pkg.resolveType(fc.file, vs.Type, "local")
			if t == nil || t.Kind == KArray || t.Kind == KString {
				if t != nil {
					why = "variable of type " + t.Name
				}
				fc.fail(vs.Type, "%s is outside the subset", why)
			}
		}
		if len(vs.Values) != 0 && len(vs.Values) != len(vs.Names) {
			fc.fail(vs, "var declaration with a multi-value initialiser is outside the subset")
		}
		for i, nm := range vs.Names {
			vt := t
			var code string
			if len(vs.Values) > 0 {
				v := fc.trExpr(vs.Values[i], t)
				if vt == nil {
					v = fc.defaulted(v, vs.Values[i])
					vt = v.T
				}
				code = fc.use(v, vt, vs.Values[i])
			} else {
				code = vt.zero()
			}
			if nm.Name == "_" {
				continue
			}
			if sc.lookup(nm.Name) != nil {
				fc.fail(nm, "var %s shadows a variable of an enclosing scope (or redeclares one): outside the subset", nm.Name)
			}
			v := &Var{Coq: coqIdent(fc.pkg, nm), T: vt, depth: sc.depth}
			sc2 = sc2.with(nm.Name, v)
			lets = append(lets, "let "+v.Coq+" := "+code+" in\n  ")
		}
	}
	hs := fc.end()
	return wrapHoists(hs, strings.Join(lets, "")+rest(sc2))
}

// trCallStmt: f(args) or x.M(args) as a statement: only useful when it
// modifies pointer arguments; those are rebound.
func (fc *FnCtx) trCallStmt(c *ast.CallExpr, sc Scope, rest func(Scope) string) string {
	fc.begin(sc)
	v := fc.trCall(c, nil, true)
	var f *Func
	var recvExpr ast.Expr
	switch fun := c.Fun.(type) {
	case *ast.Ident:
		f = fc.pkg.w.funcs[fc.pkg.dir+":"+fun.Name]
	case *ast.SelectorExpr:
		recvExpr = fun.X
		if x, ok := fun.X.(*ast.Ident); ok && sc.lookup(x.Name) == nil {
			if path, ok := importPath(fc.file, x.Name); ok {
				recvExpr = nil
				if q := fc.pkg.w.repoPkg(path); q != nil {
					f = fc.pkg.w.funcs[q.dir+":"+fun.Sel.Name]
				}
			}
		}
		if recvExpr != nil {
			r := fc.lhsType(fun.X)
			if r != nil && r.Named != "" {
				dot := strings.LastIndex(r.Named, ".")
				f = fc.pkg.w.funcs[r.Named[:dot]+":"+r.Named[dot+1:]+"."+fun.Sel.Name]
			}
		}
	}
	if f == nil {
		fc.fail(c, "call statement of something that is not a function of the spec")
	}
	if len(f.mutated) == 0 {
		// a pure call whose result is dropped: only its possible panic matters
		hs := fc.end()
		return wrapHoists(hs, rest(sc))
	}
	// pattern: results are dropped, mutated arguments are rebound to their argument expressions
	var pat []string
	for range f.results {
		pat = append(pat, "_")
	}
	var lets string
	for k, i := range f.mutated {
		var arg ast.Expr
		if f.decl.Recv != nil {
			if i == 0 {
				arg = recvExpr
			} else {
				arg = c.Args[i-1]
			}
		} else {
			arg = c.Args[i]
		}
		if u, ok := arg.(*ast.UnaryExpr); ok && u.Op == token.AND {
			arg = u.X
		}
		tmp := fmt.Sprintf("mut_%d", k)
		pat = append(pat, tmp)
		n, val := fc.store(arg, tmp, c)
		lets += "let " + n + " := " + val + " in\n  "
	}
	hs := fc.end()
	bindPat := "let '" + tuple(pat) + " := "
	if len(pat) == 1 {
		bindPat = "let " + pat[0] + " := "
	}
	return wrapHoists(hs, bindPat+v.Code+" in\n  "+lets+rest(sc))
}

func (fc *FnCtx) trIf(s *ast.IfStmt, sc Scope, k cont) string {
	if s.Init != nil {
		c := *s
		c.Init = nil
		return fc.trStmts([]ast.Stmt{s.Init, &c}, sc.inner(), k)
	}
	fc.begin(sc)
	cv := fc.trExpr(s.Cond, nil)
	if cv.T == nil || cv.T.Kind != KBool {
		fc.fail(s.Cond, "condition is not boolean")
	}
	hs := fc.end()
	cond := cv.Code
	branch := func(kk cont) (string, string) {
		th := fc.trStmts(s.Body.List, sc.inner(), kk)
		var el string
		switch e := s.Else.(type) {
		case nil:
			el = kk()
		case *ast.BlockStmt:
			el = fc.trStmts(e.List, sc.inner(), kk)
		default:
			el = fc.trStmts([]ast.Stmt{e}, sc.inner(), kk)
		}
		return th, el
	}
	if !fc.optionMode && !containsExit(s.Body, s.Else) {
		vars := assignedOuter(sc, s.Body, s.Else)
		if len(vars) == 0 {
			// no effect on the enclosing scope
			branch(func() string { return "tt" })
			return wrapHoists(hs, k())
		}
		var names []string
		for _, v := range vars {
			names = append(names, v.Coq)
		}
		tup := tuple(names)
		th, el := branch(func() string { return tup })
		pat := "let " + tup + " := "
		if len(names) > 1 {
			pat = "let '" + tup + " := "
		}
		return wrapHoists(hs, pat+"(if "+cond+"\n    then "+th+"\n    else "+el+") in\n  "+k())
	}
	th, el := branch(k)
	return wrapHoists(hs, "if "+cond+"\n  then ("+th+")\n  else ("+el+")")
}

func (fc *FnCtx) trSwitch(s *ast.SwitchStmt, sc Scope, k cont) string {
	if s.Init != nil {
		c := *s
		c.Init = nil
		return fc.trStmts([]ast.Stmt{s.Init, &c}, sc.inner(), k)
	}
	sc = sc.inner()
	prefix := ""
	var hs []hoist
	var tag ast.Expr
	if s.Tag != nil {
		fc.begin(sc)
		tv := fc.defaulted(fc.trExpr(s.Tag, nil), s.Tag)
		hs = fc.end()
		if tv.T.Kind != KInt && tv.T.Kind != KBool && tv.T.Kind != KError {
			fc.fail(s.Tag, "switch on a value of type %s is outside the subset", tv.T.Name)
		}
		fc.tmpN++
		name := fmt.Sprintf("switch tag %d", fc.tmpN) // not a Go identifier: cannot clash
		coq := fmt.Sprintf("tag_%d", fc.tmpN)
		sc = sc.with(name, &Var{Coq: coq, T: tv.T, depth: sc.depth})
		prefix = "let " + coq + " := " + tv.Code + " in\n  "
		tag = &ast.Ident{NamePos: s.Tag.Pos(), Name: name}
	}
	var chain, last *ast.IfStmt
	var deflt *ast.BlockStmt
	for _, st := range s.Body.List {
		cc := st.(*ast.CaseClause)
		body := &ast.BlockStmt{Lbrace: cc.Colon, List: cc.Body, Rbrace: cc.End()}
		if cc.List == nil {
			deflt = body
			continue
		}
		var cond ast.Expr
		for _, e := range cc.List {
			c := e
			if tag != nil {
				c = &ast.BinaryExpr{X: tag, OpPos: e.Pos(), Op: token.EQL, Y: e}
			}
			if cond == nil {
				cond = c
			} else {
				cond = &ast.BinaryExpr{X: cond, OpPos: e.Pos(), Op: token.LOR, Y: c}
			}
		}
		ifs := &ast.IfStmt{If: cc.Case, Cond: cond, Body: body}
		if chain == nil {
			chain = ifs
		} else {
			last.Else = ifs
		}
		last = ifs
	}
	var code string
	switch {
	case chain == nil && deflt == nil:
		code = k()
	case chain == nil:
		code = fc.trStmts(deflt.List, sc.inner(), k)
	default:
		if deflt != nil {
			last.Else = deflt
		}
		code = fc.trIf(chain, sc, k)
	}
	return wrapHoists(hs, prefix+code)
}
